/-
Boolean-matrix relations of `Spec/RC11.lean`: what `get` returns for the operations, and the few
facts about graphs that the pruning lemmas of the RC11 enumerator need.
-/
import LoomVerif.Oracle.RC11EnumV

namespace LoomVerif.RC11

namespace Rel

@[simp] theorem ofFn_n (n : Nat) (f : Nat → Nat → Bool) : (ofFn n f).n = n := rfl

theorem get_ofFn {n : Nat} {f : Nat → Nat → Bool} {a b : Nat} (ha : a < n) (hb : b < n) :
    (ofFn n f).get a b = f a b := by
  have h1 : a * n + b < n * n := by
    calc a * n + b < a * n + n := by omega
      _ = (a + 1) * n := by rw [Nat.add_mul, Nat.one_mul]
      _ ≤ n * n := Nat.mul_le_mul_right n ha
  have hn : 0 < n := by omega
  have h2 : (a * n + b) / n = a := by
    rw [Nat.mul_comm, Nat.mul_add_div hn, Nat.div_eq_of_lt hb, Nat.add_zero]
  have h3 : (a * n + b) % n = b := by
    rw [Nat.mul_comm, Nat.mul_add_mod, Nat.mod_eq_of_lt hb]
  simp [get, ofFn, Array.getD, h1, h2, h3]

@[simp] theorem union_n (r s : Rel) : (r ∪ s).n = r.n := rfl
@[simp] theorem seq_n (r s : Rel) : (r.seq s).n = r.n := rfl
@[simp] theorem inv_n (r : Rel) : r.inv.n = r.n := rfl
@[simp] theorem opt_n (r : Rel) : r.opt.n = r.n := rfl
@[simp] theorem idOn_n (n : Nat) (p : Nat → Bool) : (idOn n p).n = n := rfl

theorem union_get {r s : Rel} {a b : Nat} (ha : a < r.n) (hb : b < r.n) :
    (r ∪ s).get a b = (r.get a b || s.get a b) := by
  show (union r s).get a b = _
  unfold union; rw [get_ofFn ha hb]

theorem seq_get {r s : Rel} {a b : Nat} (ha : a < r.n) (hb : b < r.n) :
    (r.seq s).get a b = true ↔ ∃ c, c < r.n ∧ r.get a c = true ∧ s.get c b = true := by
  unfold seq; rw [get_ofFn ha hb]
  simp [List.any_eq_true]

theorem inv_get {r : Rel} {a b : Nat} (ha : a < r.n) (hb : b < r.n) :
    r.inv.get a b = r.get b a := by
  unfold inv; rw [get_ofFn ha hb]

theorem opt_get {r : Rel} {a b : Nat} (ha : a < r.n) (hb : b < r.n) :
    r.opt.get a b = (a == b || r.get a b) := by
  unfold opt; rw [get_ofFn ha hb]

theorem irreflexive_get {r : Rel} (h : r.irreflexive = true) {a : Nat} (ha : a < r.n) :
    r.get a a = false := by
  unfold irreflexive at h
  rw [List.all_eq_true] at h
  simpa using h a (List.mem_range.2 ha)

private theorem tc_fold (n : Nat) : ∀ (l : List Nat) (acc : Rel), acc.n = n →
    (l.foldl (fun acc k => ofFn n fun a b => acc.get a b || (acc.get a k && acc.get k b)) acc).n = n ∧
    ∀ a b, a < n → b < n → acc.get a b = true →
      (l.foldl (fun acc k => ofFn n fun a b => acc.get a b || (acc.get a k && acc.get k b)) acc).get a b
        = true
  | [], acc, h => ⟨h, fun _ _ _ _ h => h⟩
  | k :: l, acc, h => by
    simp only [List.foldl_cons]
    have ih := tc_fold n l (ofFn n fun a b => acc.get a b || (acc.get a k && acc.get k b)) rfl
    refine ⟨ih.1, fun a b ha hb hab => ih.2 a b ha hb ?_⟩
    rw [get_ofFn ha hb, hab]; rfl

@[simp] theorem tc_n (r : Rel) : r.tc.n = r.n := (tc_fold r.n _ r rfl).1

/-- the transitive closure contains the relation -/
theorem tc_sub {r : Rel} {a b : Nat} (ha : a < r.n) (hb : b < r.n) (h : r.get a b = true) :
    r.tc.get a b = true := (tc_fold r.n _ r rfl).2 a b ha hb h

theorem acyclic_get {r : Rel} (h : r.acyclic = true) {a : Nat} (ha : a < r.n) :
    r.get a a = false := by
  cases h' : r.get a a
  · rfl
  · have := irreflexive_get (r := r.tc) h (a := a) (by simpa using ha)
    rw [tc_sub ha ha h'] at this; cases this

end Rel
namespace Graph
variable {g : Graph}

@[simp] theorem sb_n : g.sb.n = g.n := rfl
@[simp] theorem hb_n : g.hb.n = g.n := by simp [hb]
@[simp] theorem fr_n : g.fr.n = g.n := rfl
@[simp] theorem eco_n : g.eco.n = g.rf.n := by simp [eco]

/-- `hb` is computed from the events, `rf` and `asw` only -/
theorem hb_congr {g g' : Graph} (h1 : g.evs = g'.evs) (h2 : g.rf = g'.rf) (h3 : g.asw = g'.asw) :
    g.hb = g'.hb := by
  cases g; cases g'; simp only at h1 h2 h3; subst h1 h2 h3; rfl

theorem races_congr {g g' : Graph} (h1 : g.evs = g'.evs) (h2 : g.rf = g'.rf)
    (h3 : g.asw = g'.asw) : g.races = g'.races := by
  cases g; cases g'; simp only at h1 h2 h3; subst h1 h2 h3; rfl

/-- `asw ⊆ hb` -/
theorem hb_of_asw {a b : Nat} (ha : a < g.n) (hb : b < g.n) (h : g.asw.get a b = true) :
    g.hb.get a b = true := by
  unfold Graph.hb
  refine Rel.tc_sub (by simpa using ha) (by simpa using hb) ?_
  rw [Rel.union_get (by simpa using ha) (by simpa using hb)]
  have : g.sw.get a b = true := by
    unfold sw
    simp only
    rw [Rel.union_get (by simpa using ha) (by simpa using hb), h, Bool.or_true]
  rw [this, Bool.or_true]

/-- `mo ⊆ eco` -/
theorem eco_of_mo (hrf : g.rf.n = g.n) {a b : Nat} (ha : a < g.n) (hb : b < g.n)
    (h : g.mo.get a b = true) : g.eco.get a b = true := by
  unfold Graph.eco
  refine Rel.tc_sub (by simpa [hrf] using ha) (by simpa [hrf] using hb) ?_
  rw [Rel.union_get (by simpa [hrf] using ha) (by simpa [hrf] using hb),
    Rel.union_get (by simpa [hrf] using ha) (by simpa [hrf] using hb), h]
  simp

/-- COHERENCE forbids `hb a b` together with `mo b a` -/
theorem coherent_hb_mo (hrf : g.rf.n = g.n) (hc : g.coherent = true) {a b : Nat} (ha : a < g.n)
    (hb : b < g.n) (h1 : g.hb.get a b = true) (h2 : g.mo.get b a = true) : False := by
  unfold coherent at hc
  have h3 := Rel.irreflexive_get hc (a := a) (by simpa using ha)
  have h4 : (g.hb.seq g.eco.opt).get a a = true := by
    rw [Rel.seq_get (by simpa using ha) (by simpa using ha)]
    refine ⟨b, by simpa using hb, h1, ?_⟩
    rw [Rel.opt_get (by simpa [hrf] using hb) (by simpa [hrf] using ha), eco_of_mo hrf hb ha h2]
    simp
  rw [h3] at h4; cases h4

theorem fr_get (hrf : g.rf.n = g.n) {a b : Nat} (ha : a < g.n) (hb : b < g.n) :
    g.fr.get a b = true ↔ a ≠ b ∧ ∃ w, w < g.n ∧ g.rf.get w a = true ∧ g.mo.get w b = true := by
  unfold fr
  simp only
  rw [Rel.get_ofFn ha hb, Bool.and_eq_true, Rel.seq_get (by simpa [hrf] using ha)
    (by simpa [hrf] using hb)]
  simp only [bne_iff_ne, ne_eq, Rel.inv_n, hrf]
  constructor
  · rintro ⟨h1, w, hw, h2, h3⟩
    refine ⟨h1, w, hw, ?_, h3⟩
    rwa [Rel.inv_get (by simpa [hrf] using ha) (by simpa [hrf] using hw)] at h2
  · rintro ⟨h1, w, hw, h2, h3⟩
    refine ⟨h1, w, hw, ?_, h3⟩
    rwa [Rel.inv_get (by simpa [hrf] using ha) (by simpa [hrf] using hw)]

/-- ATOMICITY, first half: no write between an RMW and its source -/
theorem atomicity_get (hrf : g.rf.n = g.n) (h : g.atomicity = true) {u w w' : Nat} (hu : u < g.n)
    (hw : w < g.n) (hw' : w' < g.n) (hU : g.isU u = true) (h1 : g.rf.get w u = true)
    (h2 : g.mo.get w w' = true) (h3 : g.mo.get w' u = true) (hne : u ≠ w') : False := by
  unfold atomicity at h
  rw [List.all_eq_true] at h
  have := h u (List.mem_range.2 hu)
  rw [hU] at this
  simp only [Bool.not_true, Bool.false_or, List.all_eq_true] at this
  have := this w' (List.mem_range.2 hw')
  rw [h3, (fr_get hrf hu hw').2 ⟨hne, w, hw, h1, h2⟩] at this
  cases this

/-- ATOMICITY, second half: an RMW reads from an `mo`-earlier write -/
theorem atomicity_rf_mo (h : g.atomicity = true) {u w : Nat} (hu : u < g.n) (hw : w < g.n)
    (hU : g.isU u = true) (h1 : g.rf.get w u = true) : g.mo.get w u = true := by
  unfold atomicity at h
  rw [List.all_eq_true] at h
  have := h u (List.mem_range.2 hu)
  rw [hU] at this
  simp only [Bool.not_true, Bool.false_or, List.all_eq_true] at this
  have := this w (List.mem_range.2 hw)
  rw [h1] at this
  simp only [Bool.and_eq_true] at this
  simpa using this.2

/-- NO-THIN-AIR forbids an event reading from itself -/
theorem noThinAir_rf_irrefl (h : g.noThinAir = true) {a : Nat} (ha : a < g.n) :
    g.rf.get a a = false := by
  unfold noThinAir at h
  have := Rel.acyclic_get h (a := a) (by simpa using ha)
  rw [Rel.union_get (by simpa using ha) (by simpa using ha)] at this
  simp only [Bool.or_eq_false_iff] at this
  exact this.2

/-- well-formedness, first part: a read has a source, and only one -/
theorem wellFormed_rf_exists (h : g.wellFormed = true) {r : Nat} (hr : r < g.n)
    (hR : g.isR r = true) :
    ∃ w, w < g.n ∧ g.rf.get w r = true ∧ ∀ w', w' < g.n → g.rf.get w' r = true → w' = w := by
  unfold wellFormed at h
  simp only [Bool.and_eq_true] at h
  have h1 := h.1.1.1
  rw [List.all_eq_true] at h1
  have h2 := h1 r (List.mem_range.2 hr)
  rw [hR] at h2
  simp only [Bool.not_true, Bool.false_or, beq_iff_eq] at h2
  obtain ⟨w, hw⟩ := List.length_eq_one_iff.1 h2
  have hmem : ∀ w', w' ∈ (List.range g.n).filter (fun w => g.rf.get w r) ↔ w' = w := by
    intro w'; rw [hw]; simp
  have hw0 := (hmem w).2 rfl
  rw [List.mem_filter, List.mem_range] at hw0
  refine ⟨w, hw0.1, hw0.2, fun w' hw' h' => (hmem w').1 ?_⟩
  rw [List.mem_filter, List.mem_range]; exact ⟨hw', h'⟩

/-- well-formedness, second part -/
theorem wellFormed_rf (h : g.wellFormed = true) {w r : Nat} (hw : w < g.n) (hr : r < g.n)
    (h' : g.rf.get w r = true) : g.isW w = true ∧ g.isR r = true ∧ g.sameLoc w r = true := by
  unfold wellFormed at h
  simp only [Bool.and_eq_true] at h
  have h1 := h.1.1.2
  rw [List.all_eq_true] at h1
  have h2 := h1 w (List.mem_range.2 hw)
  rw [List.all_eq_true] at h2
  have h3 := h2 r (List.mem_range.2 hr)
  rw [h'] at h3
  simp only [Bool.not_true, Bool.false_or, Bool.and_eq_true] at h3
  exact ⟨h3.1.1.1, h3.1.1.2, h3.1.2⟩

/-- well-formedness, third part: `mo` is total on the different writes of a location … -/
theorem wellFormed_mo_total (h : g.wellFormed = true) {a b : Nat} (ha : a < g.n) (hb : b < g.n)
    (h1 : g.isW a = true) (h2 : g.isW b = true) (h3 : g.sameLoc a b = true) (h4 : a ≠ b) :
    g.mo.get a b ≠ g.mo.get b a := by
  unfold wellFormed at h
  simp only [Bool.and_eq_true] at h
  have h5 := h.1.2
  rw [List.all_eq_true] at h5
  have h6 := h5 a (List.mem_range.2 ha)
  rw [List.all_eq_true] at h6
  have h7 := h6 b (List.mem_range.2 hb)
  rw [h1, h2, h3] at h7
  simpa [h4] using h7

/-- … and irreflexive -/
theorem wellFormed_mo_irrefl (h : g.wellFormed = true) {a : Nat} (ha : a < g.n) :
    g.mo.get a a = false := by
  unfold wellFormed at h
  simp only [Bool.and_eq_true] at h
  have h5 := h.1.2
  rw [List.all_eq_true] at h5
  have h6 := h5 a (List.mem_range.2 ha)
  rw [List.all_eq_true] at h6
  have h7 := h6 a (List.mem_range.2 ha)
  simpa using h7

theorem consistent_iff {strong : Bool} : g.consistent strong = true ↔
    g.wellFormed = true ∧ g.coherent = true ∧ g.atomicity = true ∧ g.scAxiom strong = true ∧
      g.noThinAir = true := by
  unfold consistent
  simp only [Bool.and_eq_true, and_assoc]

end Graph
end LoomVerif.RC11

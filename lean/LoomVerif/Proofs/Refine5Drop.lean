/-
Refinement, STATICS fragment, part 6: `Thread::drop_locals`, the twin side, and how the abstraction relation is
transported along its parts.

* `dropLocals_plain'`, `dropLocals_obs2`, `dropLocals_reinit`: the three shapes of `World.dropLocals` for
  `tlsDtor ∈ {0, 2}`: every entry of the active thread is destroyed and the drop counter of each live key goes up by
  one (`C17.afterDrops`); with `tlsdtor=2` and key 0 live the destructor of key 0 then either observes key 1 destroyed
  (the thread has touched it) or RE-INITIALISES it.
* `RCnt_afterDrops`: the twin's counters still count threads.
* `R5_late`: a `drop_locals` pass of a thread that has already taken its `finish` step (it destroys what a destructor
  re-initialised) is a stuttering step.
* `R5_drop_finish`, `R5_obs`, `R5_reinit`: the `drop_locals` pass of a thread whose entries are all live is the
  reference's `finish` step, in three parts: the destruction proper, the observation of the destructor of key 0, the
  re-initialisation of key 1 by it.
-/
import LoomVerif.Proofs.Refine5Lazy

namespace LoomVerif
namespace Refine5
open Refine Sy C07 C08

/-! ### lists -/

theorem length_foldl_bump (l : List Nat) (D : List Nat) : (l.foldl C17.bump D).length = D.length := by
  induction l generalizing D with
  | nil => rfl
  | cons a l ih => rw [List.foldl_cons, ih, C17.length_bump]

theorem liveKeys_map (L : List (Nat × Nat)) :
    ((L.map fun e => (e.1, some e.2)).reverse.filterMap fun (k, v) => v.map fun _ => k) = (L.map (·.1)).reverse := by
  rw [← List.map_reverse, ← List.map_reverse, List.filterMap_map]
  induction L.reverse with
  | nil => rfl
  | cons x xs ih => simp [ih]

theorem modify_modify' {α} (l : List α) (t : Nat) (f g : α → α) :
    (l.modify t f).modify t g = l.modify t (fun a => g (f a)) := by
  apply List.ext_getElem?
  intro i
  simp only [List.getElem?_modify]
  cases l[i]? with
  | none => rfl
  | some x => by_cases e : t = i <;> simp [e]

/-- the keys 0, 1 among `keys`, as the reference lists them -/
def live2 (b0 b1 : Bool) : List Nat := (if b0 then [0] else []) ++ (if b1 then [1] else [])

theorem filter_live2 (keys : List Nat) : [0, 1].filter keys.contains = live2 (keys.contains 0) (keys.contains 1) := by
  rw [List.filter_cons, List.filter_cons, List.filter_nil]
  cases keys.contains 0 <;> cases keys.contains 1 <;> rfl

theorem count_live2 (b0 b1 : Bool) (k : Nat) (hk : k < 2) :
    (live2 b0 b1).count k = if (if k = 0 then b0 else b1) = true then 1 else 0 := by
  match k, hk with
  | 0, _ => cases b0 <;> cases b1 <;> rfl
  | 1, _ => cases b0 <;> cases b1 <;> rfl

theorem mem_perms2_self (l : List Nat) : l ∈ SC.perms2 l := by
  unfold SC.perms2
  split <;> simp

theorem contains_reverse (l : List Nat) (a : Nat) : l.reverse.contains a = l.contains a := by
  rw [Bool.eq_iff_iff]
  simp

theorem lookup_map_none_isSome (l : List (Nat × Option Nat)) (k : Nat) :
    ((l.map fun (k, _) => (k, (none : Option Nat))).lookup k).isSome = (l.lookup k).isSome := by
  rw [C17.lookup_destroyed]
  cases l.lookup k <;> rfl

theorem mem_of_lookup' {β} {l : List (Nat × β)} {k : Nat} {v : β} (h : l.lookup k = some v) : (k, v) ∈ l := by
  induction l with
  | nil => cases h
  | cons x xs ih =>
    obtain ⟨a, b⟩ := x
    simp only [List.lookup] at h
    split at h
    · next e =>
      cases h
      have : k = a := by simpa using e
      subst this
      exact List.mem_cons_self
    · exact List.mem_cons_of_mem _ (ih h)

theorem lookup_of_mem_nodup' {β} {l : List (Nat × β)} {k : Nat} {v : β} (hn : (l.map (·.1)).Nodup)
    (hm : (k, v) ∈ l) : l.lookup k = some v := by
  induction l with
  | nil => cases hm
  | cons x xs ih =>
    obtain ⟨a, b⟩ := x
    rw [List.map_cons, List.nodup_cons] at hn
    rcases List.mem_cons.1 hm with e | hm'
    · cases e; exact lookup_cons_self _ _ _
    · have : k ≠ a := by
        intro e
        subst e
        exact hn.1 (List.mem_map.2 ⟨(k, v), hm', rfl⟩)
      rw [lookup_cons_ne _ _ _ _ this]
      exact ih hn.2 hm'

theorem not_mem_of_lookup_none {β} (l : List (Nat × β)) (k : Nat) (h : l.lookup k = none) : k ∉ l.map (·.1) := by
  induction l with
  | nil => simp
  | cons x xs ih =>
    obtain ⟨a, b⟩ := x
    simp only [List.lookup] at h
    split at h
    · cases h
    · next hne =>
      simp only [List.map_cons, List.mem_cons, not_or]
      refine ⟨?_, ih h⟩
      intro e
      subst e
      simp at hne

/-! ### the reference side: the destruction without re-initialisation -/

theorem fold_dtor_aux (p : Prog) (t : Nat) (d : SCData5) (b0 b1 : Bool)
    (htd : p.cfg.tlsDtor = 0 ∨ p.cfg.tlsDtor = 2)
    (hno : p.cfg.tlsDtor = 2 → b0 = true → b1 = true) :
    (live2 b0 b1).foldl (SCData5.dtorStep p (live2 b0 b1) t) d =
      { d with tlsDrops := (live2 b0 b1).foldl C17.bump d.tlsDrops,
               tlsObs := if p.cfg.tlsDtor = 2 ∧ b0 = true then d.tlsObs.set 0 (d.tlsObs.getD 0 0 ||| 2)
                         else d.tlsObs } := by
  cases b0 <;> cases b1 <;> rcases htd with e | e
  all_goals first
    | (simp [live2, SCData5.dtorStep, e, C17.bump]; done)
    | (have := hno e rfl; cases this)

/-! ### the twin side -/

theorem dropLocals_plain' (w : World) (htd : w.cfg.tlsDtor = 0 ∨ w.cfg.tlsDtor = 2)
    (h : w.cfg.tlsDtor = 0 ∨ (C17.liveKeys w).contains 0 = false) : w.dropLocals = C17.afterDrops w := by
  rcases htd with e | e
  · exact C17.dropLocals_plain (by rw [e]; decide) (by rw [e]; decide)
  · rcases h with h | h
    · rw [e] at h; cases h
    · rw [C17.dropLocals_eq]
      split
      · next e1 => rw [e] at e1; cases e1
      · rw [if_neg (by rw [h]; exact Bool.false_ne_true)]
      · next _ h2 => exact absurd e h2

theorem dropLocals_obs2 (w : World) (ht : w.tid < w.ctl.length) (e : w.cfg.tlsDtor = 2)
    (hc : (C17.liveKeys w).contains 0 = true) (hs : ((w.ctlOf w.tid).locals.lookup 1).isSome = true) :
    w.dropLocals = { C17.afterDrops w with tlsObs := w.tlsObs.set 0 (w.tlsObs.getD 0 0 ||| 2) } := by
  rw [C17.dropLocals_eq]
  split
  · next e1 => rw [e] at e1; cases e1
  · rw [if_pos hc]
    unfold C17.dtor2Probe
    have hl : ((C17.afterDrops w).ctlOf w.tid).locals.lookup 1 = some none := by
      rw [C17.afterDrops_locals w ht, C17.lookup_destroyed]
      cases hh : (w.ctlOf w.tid).locals.lookup 1 with
      | none => rw [hh] at hs; cases hs
      | some v => rfl
    rw [hl]
    rfl
  · next _ h2 => exact absurd e h2

theorem dropLocals_reinit (w : World) (ht : w.tid < w.ctl.length) (e : w.cfg.tlsDtor = 2)
    (hc : (C17.liveKeys w).contains 0 = true) (hs : (w.ctlOf w.tid).locals.lookup 1 = none) :
    w.dropLocals = { ((C17.afterDrops w).tlsGet 1).1 with
      tlsObs := ((C17.afterDrops w).tlsGet 1).1.tlsObs.set 0 (((C17.afterDrops w).tlsGet 1).1.tlsObs.getD 0 0 ||| 1) } := by
  rw [C17.dropLocals_eq]
  split
  · next e1 => rw [e] at e1; cases e1
  · rw [if_pos hc]
    unfold C17.dtor2Probe
    have hl : ((C17.afterDrops w).ctlOf w.tid).locals.lookup 1 = none := by
      rw [C17.afterDrops_locals w ht, C17.lookup_destroyed, hs]
      rfl
    rw [hl]
  · next _ h2 => exact absurd e h2

theorem mem_liveKeys_iff_liveK (w : World) (a : Nat) (hnd : ((w.ctlOf w.tid).locals.map (·.1)).Nodup) :
    a ∈ C17.liveKeys w ↔ liveK a (w.ctlOf w.tid) = true := by
  rw [C17.mem_liveKeys]
  unfold liveK
  constructor
  · rintro ⟨id, hm⟩
    rw [lookup_of_mem_nodup' hnd hm]
  · intro h
    rcases hq : (w.ctlOf w.tid).locals.lookup a with _ | _ | id
    · rw [hq] at h; cases h
    · rw [hq] at h; cases h
    · exact ⟨id, mem_of_lookup' hq⟩

/-- the destruction proper: the twin's counters still count threads -/
theorem RCnt_afterDrops {w : World} (hc : RCnt w.ctl w.tlsInits w.tlsDrops) (hact : w.tid < w.ctl.length)
    (hnd : ((w.ctlOf w.tid).locals.map (·.1)).Nodup) (f : TCtl → TCtl)
    (hf : (f (w.ctlOf w.tid)).locals = (w.ctlOf w.tid).locals.map fun (k, _) => (k, none)) :
    RCnt (w.ctl.modify w.tid f) w.tlsInits ((C17.liveKeys w).foldl C17.bump w.tlsDrops) := by
  refine ⟨fun a ha => ?_, fun a ha => ?_, by rw [length_foldl_bump]; exact hc.lenD⟩
  · rw [hc.inits a ha, countP_modify_same _ _ _ _ {}]
    intro _
    unfold touched
    show ((f (w.ctlOf w.tid)).locals.lookup a).isSome = _
    rw [hf]
    exact lookup_map_none_isSome _ _
  · have hkD : a < w.tlsDrops.length := by rw [hc.lenD]; exact ha
    have hcnt := countP_modify (destroyed a) w.ctl w.tid f {} hact
    have hd1 : destroyed a (f (w.ctl.getD w.tid {})) = touched a (w.ctlOf w.tid) := by
      unfold destroyed touched
      show ((f (w.ctlOf w.tid)).locals.lookup a == some none) = _
      rw [hf, C17.lookup_destroyed]
      cases (w.ctlOf w.tid).locals.lookup a <;> rfl
    rw [hd1] at hcnt
    rw [C17.bump_count _ _ _ hkD, hc.drops a ha, C17.count_of_nodup _ (C17.liveKeys_nodup w hnd)]
    have hiff := mem_liveKeys_iff_liveK w a hnd
    have hrel : (if destroyed a (w.ctl.getD w.tid {}) = true then 1 else 0) +
        (if liveK a (w.ctlOf w.tid) = true then 1 else 0) =
        (if touched a (w.ctlOf w.tid) = true then 1 else 0) := by
      unfold destroyed liveK touched
      show (if ((w.ctlOf w.tid).locals.lookup a == some none) = true then 1 else 0) + _ = _
      rcases (w.ctlOf w.tid).locals.lookup a with _ | _ | id <;> simp
    by_cases hm : a ∈ C17.liveKeys w
    · rw [if_pos hm]
      rw [if_pos (hiff.1 hm)] at hrel
      omega
    · rw [if_neg hm]
      have : liveK a (w.ctlOf w.tid) = false := by
        cases hq : liveK a (w.ctlOf w.tid) with
        | false => rfl
        | true => exact absurd (hiff.2 hq) hm
      rw [this] at hrel
      simp only [Bool.false_eq_true, if_false] at hrel
      omega

/-! ### transporting the relation -/

/-- what a part of `drop_locals` keeps of the world -/
structure Keep (w w1 : World) : Prop where
  prog : w1.prog = w.prog
  exec : w1.exec = w.exec
  spawned : w1.spawned = w.spawned
  events : w1.events = w.events
  lazyInits : w1.lazyInits = w.lazyInits

theorem Keep.tid {w w1 : World} (h : Keep w w1) : w1.tid = w.tid := by
  show w1.exec.threads.activeId = _
  rw [h.exec]; rfl

/-- every entry destroyed, the epilogue stage set to `k` -/
def dropF (k : Nat) (c : TCtl) : TCtl := { c with locals := c.locals.map (fun (k, _) => (k, none)), fin := k }

theorem finD_spawned {i : Nat} {c : TCtl} (hi : i ≠ 0) : finD i c = decide (c.fin ≠ 0) := by
  unfold finD; rw [if_neg hi]

theorem finD_main {c : TCtl} : finD 0 c = decide (11 ≤ c.fin) := by
  unfold finD; rw [if_pos rfl]

section
variable {w : World} {s : SCData5}

theorem fin0_modify_list (l : List TCtl) (t : Nat) (ht : t < l.length) (f : TCtl → TCtl) :
    ((l.modify t f).getD 0 {}).fin = if t = 0 then (f (l.getD t {})).fin else (l.getD 0 {}).fin := by
  by_cases e : t = 0
  · subst e
    rw [if_pos rfl, getD_modify_self _ _ _ _ ht]
  · rw [if_neg e, getD_modify_ne _ _ _ _ _ (fun e' => e e'.symm)]

theorem fin0_modify (hact : w.tid < w.ctl.length) (f : TCtl → TCtl) :
    ((w.ctl.modify w.tid f).getD 0 {}).fin = if w.tid = 0 then (f (w.ctlOf w.tid)).fin else (w.ctlOf 0).fin :=
  fin0_modify_list w.ctl w.tid hact f

theorem keys_map_none (l : List (Nat × Option Nat)) :
    (l.map fun (k, _) => (k, (none : Option Nat))).map (·.1) = l.map (·.1) := by
  rw [List.map_map]
  apply List.map_congr_left
  intro a _
  rfl

/-- **a late `drop_locals` pass** (of a spawned thread that has taken its `finish` step): it destroys what a
destructor re-initialised; the reference state does not move -/
theorem R5_late (hR : R5 w s) (hact : w.tid < w.ctl.length) (hnone : opAt w = none) (ht0 : w.tid ≠ 0)
    (hfd : finD w.tid (w.ctlOf w.tid) = true) (k : Nat) (hk : k ≠ 0)
    (h10 : 10 ≤ (w.ctlOf w.tid).fin → 10 ≤ k)
    {w1 : World} (hkp : Keep w w1) (hctl : w1.ctl = w.ctl.modify w.tid (dropF k))
    (hI : w1.tlsInits = w.tlsInits) (hO : w1.tlsObs = w.tlsObs)
    (hD : w1.tlsDrops = (C17.liveKeys w).foldl C17.bump w.tlsDrops) : R5 w1 s := by
  obtain ⟨hbl, hrel, hof⟩ := base5 hR hact
  obtain ⟨h1, h2, h3, h4, h5, h6, h7⟩ := hrel
  have hfk : finD w.tid (dropF k (w.ctlOf w.tid)) = true := by
    rw [finD_spawned ht0]
    show decide (k ≠ 0) = true
    simpa using hk
  have hfk' : finD w.tid (dropF k (w.ctl.getD w.tid {})) = true := hfk
  have hfd' : finD w.tid (w.ctl.getD w.tid {}) = true := hfd
  have hfin0 := fin0_modify hact (dropF k)
  rw [if_neg ht0] at hfin0
  have hnd : ((w.ctlOf w.tid).locals.map (·.1)).Nodup := by rw [h7.keysEq]; exact h7.nodup
  refine ⟨?_, ?_, ?_, ?_, ?_, ?_, ?_, ?_⟩
  · rw [hctl, hkp.exec, ← hR.lenCtl]; simp
  · rw [hkp.prog, hctl]
    refine hR.x.stutter hact (dropF k) rfl (Nat.le_refl _) ?_ (fun _ => hnone)
    refine ⟨h1, h2, h3, by rw [hfk', ← hfd']; exact h4, h5, h6, ?_⟩
    rw [hfk']
    refine ⟨fun e => (by cases e), ?_, h7.keys, h7.nodup, ?_⟩
    · intro _ e he
      obtain ⟨x, _, rfl⟩ := List.mem_map.1 he
      exact .inl rfl
    · show ((w.ctlOf w.tid).locals.map fun (k, _) => (k, (none : Option Nat))).map (·.1) = _
      rw [keys_map_none]; exact h7.keysEq
  · rw [hkp.prog, hctl, hkp.spawned, hkp.exec]
    exact hR.y.ctl (CtlLe.modify _ _ _ rfl h10)
  · rw [hctl, hI, hO]
    refine hR.t.modify _ _ ?_ (fun a => ?_)
    · have hz0 : (w.ctl.getD w.tid {}).body = 0 ↔ w.tid = 0 := hR.x.body_zero hact
      rw [finB_eq_finD (i := w.tid) (c := dropF k (w.ctl.getD w.tid {})) hz0, finB_eq_finD (i := w.tid) hz0]
      exact hfk'.trans hfd'.symm
    · unfold touched
      exact lookup_map_none_isSome _ _
  · rw [hkp.prog, hkp.exec, hkp.lazyInits]
    show RLazy _ _ _ _ (w1.ctl.getD 0 {}).fin _ _
    rw [hctl, hfin0]
    exact hR.z
  · rw [hctl, hI, hD]
    exact RCnt_afterDrops hR.c hact hnd _ rfl
  · show (w1.ctl.getD 0 {}).fin = 10 → _
    rw [hctl, hfin0, hkp.tid]
    exact hR.lag
  · rw [hkp.events, hkp.prog]; exact hR.ev

/-- the reference state after the destruction proper of the thread-locals of body `b`, which owns `keys` -/
def dropS (s : SCData5) (b : Nat) (keys : List Nat) (main : Bool) : SCData5 :=
  { s with ths := s.ths.modify b fun h => { h with finished := true },
           tlsDrops := (live2 (keys.contains 0) (keys.contains 1)).foldl C17.bump s.tlsDrops,
           lazyDropped := (if main then true else s.lazyDropped) }

/-- **the destruction proper at the `finish` step**: the thread's entries are all live; every one is destroyed, the
thread counts as finished -/
theorem R5_drop_finish (hR : R5 w s) (hact : w.tid < w.ctl.length) (hnone : opAt w = none)
    (hfd : finD w.tid (w.ctlOf w.tid) = false) (k : Nat)
    (hfk : ∀ c : TCtl, c.fin = k → finD w.tid c = true)
    (h10 : 10 ≤ (w.ctlOf w.tid).fin → 10 ≤ k) (hk10 : k ≠ 10)
    (hmain : w.tid = 0 → (w.ctlOf 0).fin = 10)
    {w1 : World} (hkp : Keep w w1) (hctl : w1.ctl = w.ctl.modify w.tid (dropF k))
    (hI : w1.tlsInits = w.tlsInits) (hO : w1.tlsObs = w.tlsObs)
    (hD : w1.tlsDrops = (C17.liveKeys w).foldl C17.bump w.tlsDrops) :
    R5 w1 (dropS s (w.ctlOf w.tid).body ((s.loc (w.ctlOf w.tid).body).map (·.1)) (w.tid == 0)) := by
  obtain ⟨hbl, hrel, hof⟩ := base5 hR hact
  obtain ⟨h1, h2, h3, h4, h5, h6, h7⟩ := hrel
  have hlive := h7.live hfd
  have hnd : ((w.ctlOf w.tid).locals.map (·.1)).Nodup := by rw [h7.keysEq]; exact h7.nodup
  have hfin0 := fin0_modify hact (dropF k)
  have hz0 : (w.ctl.getD w.tid {}).body = 0 ↔ w.tid = 0 := hR.x.body_zero hact
  have hfB0 : finB (w.ctl.getD w.tid {}) = false := by
    rw [finB_eq_finD (i := w.tid) hz0]; exact hfd
  have hfB1 : finB (dropF k (w.ctl.getD w.tid {})) = true := by
    rw [finB_eq_finD (i := w.tid) (c := dropF k (w.ctl.getD w.tid {})) hz0]; exact hfk _ rfl
  generalize hkeys : (s.loc (w.ctlOf w.tid).body).map (·.1) = keys
  have hl1 : ∀ a, ((w.ctlOf w.tid).locals.lookup a).isSome = keys.contains a := by
    intro a
    rw [hlive, lookup_map_some, Option.isSome_map, lookup_isSome_iff, hkeys]
  refine ⟨?_, ?_, ?_, ?_, ?_, ?_, ?_, ?_⟩
  · rw [hctl, hkp.exec, ← hR.lenCtl]; simp
  · rw [hkp.prog, hctl]
    show RX5 w.prog (w.ctl.modify w.tid (dropF k)) (s.ths.modify _ _) s.locals
    have := hR.x.modify hact (dropF k) (fun h => { h with finished := true }) id rfl (Nat.le_refl _)
      (by
        refine ⟨h1, h2, h3, (hfk _ rfl).symm, h5, h6, ?_⟩
        rw [hfk _ rfl]
        refine ⟨fun e => (by cases e), ?_, h7.keys, h7.nodup, ?_⟩
        · intro _ e he
          obtain ⟨x, _, rfl⟩ := List.mem_map.1 he
          exact .inl rfl
        · show ((w.ctlOf w.tid).locals.map fun (k, _) => (k, (none : Option Nat))).map (·.1) =
            (s.loc (w.ctlOf w.tid).body).map (·.1)
          rw [keys_map_none]; exact h7.keysEq)
      (by intro _; exact hnone)
    rwa [modify_id' _ _ id (fun _ => rfl)] at this
  · rw [hkp.prog, hctl, hkp.spawned, hkp.exec]
    exact hR.y.ctl (CtlLe.modify _ _ _ rfl h10)
  · rw [hctl, hI, hO]
    show RT _ w.tlsInits w.tlsObs s.tlsInits ((live2 _ _).foldl C17.bump s.tlsDrops) s.tlsObs
    refine ⟨hR.t.eI, hR.t.eO, hR.t.lI, by rw [length_foldl_bump]; exact hR.t.lD, fun a ha => ?_⟩
    have hcnt := countP_modify (fun c => finB c && touched a c) w.ctl w.tid (dropF k) {} hact
    simp only [hfB0, hfB1, Bool.false_and, Bool.true_and, Bool.false_eq_true, if_false] at hcnt
    have ht : touched a (dropF k (w.ctl.getD w.tid {})) = keys.contains a := by
      unfold touched
      show (((w.ctlOf w.tid).locals.map fun (k, _) => (k, (none : Option Nat))).lookup a).isSome = _
      rw [lookup_map_none_isSome, hl1]
    rw [ht] at hcnt
    rw [C17.bump_count _ _ _ (by rw [hR.t.lD]; exact ha), hR.t.cD a ha, count_live2 _ _ _ ha]
    match a, ha with
    | 0, _ => simp only [if_true] at hcnt ⊢; omega
    | 1, _ => simp only [Nat.succ_ne_zero, if_false] at hcnt ⊢; omega
  · rw [hkp.prog, hkp.exec, hkp.lazyInits]
    show RLazy w.prog w.exec.objs w.exec.lazyStatics w.lazyInits (w1.ctl.getD 0 {}).fin s.lazyInit
      (if w.tid == 0 then true else s.lazyDropped)
    rw [hctl, hfin0]
    by_cases e0 : w.tid = 0
    · have hst : w.exec.lazyStatics = none := hR.z.shut (by rw [hmain e0]; exact Nat.le_refl _)
      have : (w.tid == 0) = true := by simpa using e0
      rw [if_pos e0, this]
      refine ⟨hR.z.len, hR.z.eqI, ?_, ?_, fun _ => .inl rfl, fun _ => hst⟩
      · intro l e; rw [hst] at e; cases e
      · intro l z sv e; rw [hst] at e; cases e
    · have : (w.tid == 0) = false := by simpa using e0
      rw [if_neg e0, this]
      exact hR.z
  · rw [hctl, hI, hD]
    exact RCnt_afterDrops hR.c hact hnd _ rfl
  · show (w1.ctl.getD 0 {}).fin = 10 → _
    rw [hctl, hfin0, hkp.tid]
    split
    · intro e; exact absurd e hk10
    · next e0 =>
      intro e
      exact absurd (hR.lag e) e0
  · rw [hkp.events, hkp.prog]; exact hR.ev

end

/-- **the observation of the destructor of key 0** -/
theorem R5_obs {w1 w2 : World} {s1 : SCData5} (hR1 : R5 w1 s1) (g : List Nat → List Nat)
    (hkp : Keep w1 w2) (hctl : w2.ctl = w1.ctl) (hI : w2.tlsInits = w1.tlsInits)
    (hD : w2.tlsDrops = w1.tlsDrops) (hO : w2.tlsObs = g w1.tlsObs) :
    R5 w2 { s1 with tlsObs := g s1.tlsObs } := by
  have hc0 : w2.ctlOf 0 = w1.ctlOf 0 := by simp only [World.ctlOf, hctl]
  refine ⟨by rw [hctl, hkp.exec]; exact hR1.lenCtl, by rw [hkp.prog, hctl]; exact hR1.x,
    by rw [hkp.prog, hctl, hkp.spawned, hkp.exec]; exact hR1.y, ?_,
    by rw [hkp.prog, hkp.exec, hkp.lazyInits, hc0]; exact hR1.z, by rw [hctl, hI, hD]; exact hR1.c,
    by rw [hc0, hkp.tid]; exact hR1.lag, by rw [hkp.events, hkp.prog]; exact hR1.ev⟩
  rw [hctl, hI, hO]
  exact ⟨hR1.t.eI, by rw [hR1.t.eO], hR1.t.lI, hR1.t.lD, hR1.t.cD⟩

/-- the reference state after the destructor of key 0 of body `b` has re-initialised key 1 -/
def reinitS (s1 : SCData5) (b : Nat) : SCData5 :=
  { s1 with tlsInits := s1.tlsInits.set 1 (s1.tlsInits.getD 1 0 + 1),
            locals := s1.locals.modify b fun l => (1, b * 10 + 1) :: l,
            tlsObs := s1.tlsObs.set 0 (s1.tlsObs.getD 0 0 ||| 1),
            tlsDrops := s1.tlsDrops.set 1 (s1.tlsDrops.getD 1 0 + 1) }

/-- **the re-initialisation of key 1 by the destructor of key 0** (`tlsdtor=2`), by a thread that has just been
finished: the reference destroys the new value at once (its `tlsDrops[1]` goes up), the twin keeps it alive until the
thread's next `drop_locals` pass -/
theorem R5_reinit {w1 w2 : World} {s1 : SCData5} (hR1 : R5 w1 s1) (hact : w1.tid < w1.ctl.length)
    (hnone : opAt w1 = none) (hd2 : w1.prog.cfg.tlsDtor = 2)
    (hfd : finD w1.tid (w1.ctlOf w1.tid) = true) (hl1 : (w1.ctlOf w1.tid).locals.lookup 1 = none) (iid : Nat)
    (hkp : Keep w1 w2)
    (hctl : w2.ctl = w1.ctl.modify w1.tid fun c => { c with locals := (1, some iid) :: c.locals })
    (hI : w2.tlsInits = w1.tlsInits.set 1 (w1.tlsInits.getD 1 0 + 1)) (hD : w2.tlsDrops = w1.tlsDrops)
    (hO : w2.tlsObs = w1.tlsObs.set 0 (w1.tlsObs.getD 0 0 ||| 1)) :
    R5 w2 (reinitS s1 (w1.ctlOf w1.tid).body) := by
  obtain ⟨hbl, hrel, hof⟩ := base5 hR1 hact
  obtain ⟨h1, h2, h3, h4, h5, h6, h7⟩ := hrel
  let f : TCtl → TCtl := fun c => { c with locals := (1, some iid) :: c.locals }
  have hfin : ∀ i, ((w1.ctl.modify w1.tid f).getD i {}).fin = (w1.ctl.getD i {}).fin :=
    fun i => fin_getD_modify _ _ _ _ rfl
  have hc0 : (w2.ctlOf 0).fin = (w1.ctlOf 0).fin := by
    simp only [World.ctlOf, hctl]; exact hfin 0
  have hnm : 1 ∉ (s1.loc (w1.ctlOf w1.tid).body).map (·.1) := by
    rw [← h7.keysEq]; exact not_mem_of_lookup_none _ _ hl1
  have hkI : 1 < w1.tlsInits.length := by rw [hR1.t.eI, hR1.t.lI]; omega
  have hfB : finB (w1.ctl.getD w1.tid {}) = true := by
    rw [finB_eq_finD (i := w1.tid) (hR1.x.body_zero hact)]; exact hfd
  have hfB' : finB (f (w1.ctl.getD w1.tid {})) = true := hfB
  have hlk' : (w1.ctl.getD w1.tid {}).locals.lookup 1 = none := hl1
  refine ⟨?_, ?_, ?_, ?_, ?_, ?_, ?_, ?_⟩
  · rw [hctl, hkp.exec, ← hR1.lenCtl]; simp
  · rw [hkp.prog, hctl]
    show RX5 w1.prog (w1.ctl.modify w1.tid f) s1.ths (s1.locals.modify _ _)
    have := hR1.x.modify hact f id (fun l => (1, (w1.ctlOf w1.tid).body * 10 + 1) :: l) rfl (Nat.le_refl _)
      (by
        refine ⟨h1, h2, h3, h4, h5, h6, ?_⟩
        show LocRel _ (finD w1.tid (w1.ctlOf w1.tid)) ((1, some iid) :: (w1.ctlOf w1.tid).locals)
          ((1, (w1.ctlOf w1.tid).body * 10 + 1) :: s1.loc (w1.ctlOf w1.tid).body)
        rw [hfd]
        refine ⟨fun e => (by cases e), ?_, ?_, ?_, ?_⟩
        · intro _ e he
          rcases List.mem_cons.1 he with rfl | he
          · exact .inr ⟨by rw [hd2]; rfl, rfl⟩
          · exact h7.dead hfd e he
        · intro e he
          rcases List.mem_cons.1 he with rfl | he
          · show 1 < 2; omega
          · exact h7.keys e he
        · rw [List.map_cons, List.nodup_cons]
          exact ⟨hnm, h7.nodup⟩
        · rw [List.map_cons, List.map_cons, h7.keysEq])
      (by intro _; exact hnone)
    rwa [modify_id' _ _ id (fun _ => rfl)] at this
  · rw [hkp.prog, hctl, hkp.spawned, hkp.exec]
    exact hR1.y.ctl (CtlLe.modify _ _ _ rfl id)
  · rw [hctl, hI, hO]
    show RT _ _ _ (s1.tlsInits.set 1 (s1.tlsInits.getD 1 0 + 1)) (s1.tlsDrops.set 1 (s1.tlsDrops.getD 1 0 + 1))
      (s1.tlsObs.set 0 (s1.tlsObs.getD 0 0 ||| 1))
    refine ⟨by rw [hR1.t.eI], by rw [hR1.t.eO], by rw [List.length_set]; exact hR1.t.lI,
      by rw [List.length_set]; exact hR1.t.lD, fun a ha => ?_⟩
    have hkD : 1 < s1.tlsDrops.length := by rw [hR1.t.lD]; omega
    match a, ha with
    | 0, _ =>
      rw [C17.getD_set_ne _ _ (by omega), hR1.t.cD 0 (by omega), countP_modify_same _ _ _ _ {}]
      intro _
      rw [hfB, hfB']
      unfold touched
      show (true && (List.lookup 0 ((1, some iid) :: _)).isSome) = _
      rw [lookup_cons_ne _ _ _ _ (by omega)]
    | 1, _ =>
      rw [C17.getD_set_self _ _ hkD, hR1.t.cD 1 (by omega), countP_modify_up _ _ _ _ {} hact]
      · rw [hfB]; unfold touched; rw [hlk']; rfl
      · rw [hfB']; unfold touched
        show (true && (List.lookup 1 ((1, some iid) :: _)).isSome) = true
        rw [lookup_cons_self]; rfl
  · rw [hkp.prog, hkp.exec, hkp.lazyInits, hc0]
    exact hR1.z
  · rw [hctl, hI, hD]
    refine ⟨fun a ha => ?_, fun a ha => ?_, hR1.c.lenD⟩
    · match a, ha with
      | 0, _ =>
        rw [C17.getD_set_ne _ _ (by omega), hR1.c.inits 0 (by omega), countP_modify_same _ _ _ _ {}]
        intro _
        unfold touched
        show (List.lookup 0 ((1, some iid) :: _)).isSome = _
        rw [lookup_cons_ne _ _ _ _ (by omega)]
      | 1, _ =>
        rw [C17.getD_set_self _ _ hkI, hR1.c.inits 1 (by omega), countP_modify_up _ _ _ _ {} hact]
        · unfold touched; rw [hlk']; rfl
        · unfold touched
          show (List.lookup 1 ((1, some iid) :: _)).isSome = true
          rw [lookup_cons_self]; rfl
    · rw [hR1.c.drops a ha, countP_modify_same _ _ _ _ {}]
      intro _
      unfold destroyed
      show (List.lookup a ((1, some iid) :: _) == some none) = _
      by_cases e : a = 1
      · subst e
        rw [lookup_cons_self, hlk']
        rfl
      · rw [lookup_cons_ne _ _ _ _ e]
  · rw [hc0, hkp.tid]; exact hR1.lag
  · rw [hkp.events, hkp.prog]; exact hR1.ev

end Refine5
end LoomVerif

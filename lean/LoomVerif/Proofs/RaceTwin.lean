/-
Race exactness, part 2: what the clock invariants read of a world of the twin (the causality / `released` clock /
pending operation of every loom thread, the `Synchronize` clock of mutex and notify objects, the access clocks of
cells), the twin-side invariant `TwinInv`, the link `LinkT` between a world and a clock system, and what the
scheduling points do to all that (nothing but recording the pending operation).
-/
import LoomVerif.Proofs.RefineStep2
import LoomVerif.Proofs.RaceClocks

namespace LoomVerif
namespace Race
open Refine Sy C07 C08 Clocks

/-! ### reading clocks off objects -/

/-- the `Synchronize` clock of a mutex / notify object -/
def hbOf : Obj → VV
  | .mutex s => s.sync.hb
  | .notify s => s.sync.hb
  | _ => VV.zero

/-- the write (`k = true`) / read access clock of a cell -/
def accOf (k : Bool) : Obj → VV
  | .cell s => if k then s.writeAccess else s.readAccess
  | _ => VV.zero

def objHb (os : List Obj) (n : Nat) : VV := match os[n]? with | some x => hbOf x | none => VV.zero
def objAcc (os : List Obj) (k : Bool) (n : Nat) : VV := match os[n]? with | some x => accOf k x | none => VV.zero

/-- a cell outside any `with` / `with_mut` section -/
def cellIdle (os : List Obj) (n : Nat) : Prop :=
  ∃ cs, os[n]? = some (.cell cs) ∧ cs.isReading = 0 ∧ cs.isWriting = false

theorem hbOf_touched {x x' : Obj} (h : Touched x x') : hbOf x' = hbOf x := by
  cases h <;> rfl

theorem accOf_touched {x x' : Obj} (k : Bool) (h : Touched x x') : accOf k x' = accOf k x := by
  cases h <;> rfl

theorem objHb_touched {os os' : List Obj} (h : ObjsTouched os os') {n : Nat} (hn : n < os.length) :
    objHb os' n = objHb os n := by
  unfold objHb
  obtain ⟨x', hx', ht⟩ := h n _ (List.getElem?_eq_getElem hn)
  rw [hx', List.getElem?_eq_getElem hn]
  exact hbOf_touched ht

theorem objAcc_touched {os os' : List Obj} (h : ObjsTouched os os') (k : Bool) {n : Nat} (hn : n < os.length) :
    objAcc os' k n = objAcc os k n := by
  unfold objAcc
  obtain ⟨x', hx', ht⟩ := h n _ (List.getElem?_eq_getElem hn)
  rw [hx', List.getElem?_eq_getElem hn]
  exact accOf_touched k ht

theorem cellIdle_touched {os os' : List Obj} (h : ObjsTouched os os') {n : Nat} (hc : cellIdle os n) :
    cellIdle os' n := by
  obtain ⟨cs, h1, h2, h3⟩ := hc
  obtain ⟨x', hx', ht⟩ := h n _ h1
  cases ht
  exact ⟨cs, hx', h2, h3⟩

theorem touched_length {os os' : List Obj} (h : ObjsTouched os os') : os.length ≤ os'.length := by
  apply Classical.byContradiction
  intro hn
  have hlt : os'.length < os.length := by omega
  obtain ⟨x', hx', _⟩ := h os'.length _ (List.getElem?_eq_getElem hlt)
  rw [List.getElem?_eq_none (Nat.le_refl _)] at hx'
  cases hx'

theorem objHb_set_ne (os : List Obj) {o n : Nat} (x : Obj) (h : n ≠ o) : objHb (os.set o x) n = objHb os n := by
  unfold objHb
  rw [List.getElem?_set_ne (Ne.symm h)]

theorem objAcc_set_ne (os : List Obj) (k : Bool) {o n : Nat} (x : Obj) (h : n ≠ o) :
    objAcc (os.set o x) k n = objAcc os k n := by
  unfold objAcc
  rw [List.getElem?_set_ne (Ne.symm h)]

theorem objHb_set_self (os : List Obj) {o : Nat} (x : Obj) (h : o < os.length) : objHb (os.set o x) o = hbOf x := by
  unfold objHb
  simp [h]

theorem objAcc_set_self (os : List Obj) (k : Bool) {o : Nat} (x : Obj) (h : o < os.length) :
    objAcc (os.set o x) k o = accOf k x := by
  unfold objAcc
  simp [h]

theorem objHb_of {os : List Obj} {n : Nat} {x : Obj} (h : os[n]? = some x) : objHb os n = hbOf x := by
  unfold objHb; rw [h]

theorem objAcc_of {os : List Obj} {n : Nat} {x : Obj} (k : Bool) (h : os[n]? = some x) :
    objAcc os k n = accOf k x := by
  unfold objAcc; rw [h]

/-- setting an object to one with the same `Synchronize` clock -/
theorem objHb_set_same (os : List Obj) {o : Nat} {x x' : Obj} (hx : os[o]? = some x) (h : hbOf x' = hbOf x)
    (n : Nat) : objHb (os.set o x') n = objHb os n := by
  by_cases e : n = o
  · subst e
    rw [objHb_set_self _ _ (List.getElem?_eq_some_iff.1 hx).1, objHb_of hx, h]
  · exact objHb_set_ne _ _ e

theorem objHb_append (os x : List Obj) {n : Nat} (h : n < os.length) : objHb (os ++ x) n = objHb os n := by
  unfold objHb
  rw [List.getElem?_append_left h]

theorem objAcc_append (os x : List Obj) (k : Bool) {n : Nat} (h : n < os.length) :
    objAcc (os ++ x) k n = objAcc os k n := by
  unfold objAcc
  rw [List.getElem?_append_left h]

/-! ### reading the threads -/

def nthr (w : World) : Nat := w.exec.threads.threads.length
def tcaus (w : World) (i : Nat) : VV := (w.ths.get i).causality
def trel (w : World) (i : Nat) : VV := (w.ths.get i).released
/-- the object of the pending operation of thread `i` (possibly left over from an earlier branch point) -/
def topo (w : World) (i : Nat) : Option Nat := (w.ths.get i).operation.map (·.obj)
def fin (w : World) (i : Nat) : Nat := (w.ctlOf i).fin
/-- the operation thread `i` is at -/
def opAtI (w : World) (i : Nat) : Option Op := (w.prog.threads.getD (w.ctlOf i).body [])[(w.ctlOf i).pc]?
/-- the `JoinHandle` notify of body `b` -/
def jn (w : World) (b : Nat) : Option Nat := (w.spawned.find? (·.1 == b)).map (·.2.2)

/-- the notify object a thread past the branch point of a `join` is pending on -/
def pend (w : World) (i : Nat) : Option Nat :=
  if (w.ctlOf i).stage = 1 then
    match opAtI w i with
    | some (.join b) => jn w b
    | _ => none
  else none

/-- … and its clock: what the invariant allows the thread to have acquired already from the thread it joins (before
the repair of finding F26 `Notify::notify` let the waiting thread join the notifier's causality at once; now the
joiner acquires in the second half of its wait only, and the lower bound of `LinkT` is attained; the sandwich is
kept as it is — it is still an invariant) -/
def pendHb (w : World) (i : Nat) : VV :=
  match pend w i with
  | some n => objHb w.exec.objs n
  | none => VV.zero

theorem opAtI_tid (w : World) : opAtI w w.tid = opAt w := rfl

theorem pend_congr {w w' : World} {i : Nat} (hp : w'.prog = w.prog) (hs : w'.spawned = w.spawned)
    (hc : w'.ctlOf i = w.ctlOf i) : pend w' i = pend w i := by
  unfold pend opAtI jn
  rw [hp, hs, hc]

theorem pend_stage0 {w : World} {i : Nat} (h : (w.ctlOf i).stage ≠ 1) : pend w i = none := by
  unfold pend; rw [if_neg h]

theorem pend_notJoin {w : World} {i : Nat} (h : ∀ b, opAtI w i ≠ some (.join b)) : pend w i = none := by
  unfold pend
  split
  · split
    · next b hb => exact absurd hb (h b)
    · rfl
  · rfl

theorem jn_mem {w : World} {b n : Nat} (h : jn w b = some n) : ∃ j, (b, j, n) ∈ w.spawned := by
  unfold jn at h
  cases hf : w.spawned.find? (·.1 == b) with
  | none => rw [hf] at h; cases h
  | some e =>
    rw [hf] at h
    obtain ⟨b', j, n'⟩ := e
    have h1 := List.find?_some hf
    have h2 := List.mem_of_find?_eq_some hf
    simp only [beq_iff_eq] at h1
    simp only [Option.map_some, Option.some.injEq] at h
    subst h1; subst h
    exact ⟨j, h2⟩

theorem pend_mem {w : World} {i n : Nat} (h : pend w i = some n) : ∃ b j, (b, j, n) ∈ w.spawned := by
  unfold pend at h
  split at h
  · split at h
    · next b _ => obtain ⟨j, hj⟩ := jn_mem h; exact ⟨b, j, hj⟩
    · cases h
  · cases h

/-! ### the twin-side invariant -/

structure TwinInv (w : World) : Prop where
  /-- no fragment operation is a release fence: `released` stays zero -/
  rel : ∀ i, i < nthr w → trel w i = VV.zero
  /-- pending operations name objects that exist -/
  ob : ∀ i o, i < nthr w → topo w i = some o → o < w.exec.objs.length
  /-- a thread whose pending operation is on the `JoinHandle` notify of ANOTHER thread that has not yet passed its
  notification is past the branch point of the `join` of that thread -/
  jo : ∀ i b j n, i < nthr w → topo w i = some n → (b, j, n) ∈ w.spawned → i ≠ j →
    pend w i = some n ∨ 10 ≤ fin w j
  /-- the clock of a `JoinHandle` notify: zero until the thread has passed its notification, then the (final)
  causality of that thread -/
  nhb : ∀ b j n, (b, j, n) ∈ w.spawned → objHb w.exec.objs n = if 10 ≤ fin w j then tcaus w j else VV.zero
  sp0 : ∀ b j n, (b, j, n) ∈ w.spawned → 0 < j
  spt : ∀ e1 e2, e1 ∈ w.spawned → e2 ∈ w.spawned → e1.2.1 = e2.2.1 → e1 = e2
  /-- cells are never inside a `with` / `with_mut` section between two stages -/
  cb : ∀ c, c < w.prog.cfg.nCells → cellIdle w.exec.objs (w.cellObj c)

/-- the clock system `σ` describes the clocks of world `w` -/
structure LinkT (w : World) (σ : CS) : Prop where
  mtx : ∀ m, m < w.prog.cfg.nMutexes → σ.mtx m = objHb w.exec.objs (w.mutexObj m)
  acc : ∀ k c, c < w.prog.cfg.nCells → σ.acc k c = objAcc w.exec.objs k (w.cellObj c)
  lo : ∀ i, i < nthr w → (σ.thr i).le (tcaus w i)
  hi : ∀ i, i < nthr w → (tcaus w i).le ((σ.thr i).join (pendHb w i))

theorem pendHb_none {w : World} {i : Nat} (h : pend w i = none) : pendHb w i = VV.zero := by
  unfold pendHb; rw [h]

theorem LinkT.eq_of_pend_none {w : World} {σ : CS} (h : LinkT w σ) {i : Nat} (hi : i < nthr w)
    (hp : pend w i = none) : σ.thr i = tcaus w i := by
  have h2 := h.hi i hi
  rw [pendHb_none hp, join_zero] at h2
  exact le_antisymm (h.lo i hi) h2

/-! ### `schedule` keeps causality, `released` and the pending operations -/

/-- what the clock invariants read of a thread entry -/
def ckey (t : Thread) : VV × VV × Option Operation := (t.causality, t.released, t.operation)

theorem ckey_yield (l : List Thread) (nid i : Nat) :
    ckey ((l.mapIdx fun i th => if th.isYield && i != nid then th.setRunnable else th).getD i {}) =
      ckey (l.getD i {}) := by
  simp only [List.getD, List.getElem?_mapIdx]
  cases h : l[i]? with
  | none => rfl
  | some th =>
    simp only [Option.map_some, Option.getD_some]
    split <;> rfl

theorem ckey_modify (l : List Thread) (nid i : Nat) (g : Thread → Thread) (hg : ∀ t, ckey (g t) = ckey t) :
    ckey ((l.modify nid g).getD i {}) = ckey (l.getD i {}) := by
  simp only [List.getD, List.getElem?_modify]
  cases h : l[i]? with
  | none => rfl
  | some th =>
    by_cases e : nid = i
    · simp [e, hg]
    · simp [e]

theorem ckey_both (l : List Thread) (nid i : Nat) (g : Thread → Thread) (hg : ∀ t, ckey (g t) = ckey t) :
    ckey (((l.modify nid g).mapIdx fun i th => if th.isYield && i != nid then th.setRunnable else th).getD i {}) =
      ckey (l.getD i {}) := by
  rw [ckey_yield, ckey_modify _ _ _ _ hg]

theorem schedule_ckey {e e' : Exec} {b : Bool} {p : Bool} (h : e.schedule p = .ok (e', b)) (i : Nat) :
    ckey (e'.threads.get i) = ckey (e.threads.get i) := by
  unfold Exec.schedule at h
  simp only [bind, Except.bind, pure, Except.pure] at h
  repeat' split at h
  all_goals first
    | (cases h; done)
    | (cases h; rfl)
    | (cases h; exact ckey_yield _ _ _)
    | (cases h; exact ckey_both _ _ _ _ (fun _ => rfl))

/-- a branch point: the pending operation of the active thread is recorded; nothing else the clock invariants
read changes -/
theorem branch_ckey {w w' : World} {o : Nat} {a : Action} {blk wt : Bool}
    (h : w.branch o a blk wt = .ok w') (hin : w.tid < nthr w) (i : Nat) :
    tcaus w' i = tcaus w i ∧ trel w' i = trel w i ∧
    topo w' i = if i = w.tid then some o else topo w i := by
  unfold World.branch at h
  simp only [bind, Except.bind, pure, Except.pure] at h
  split at h
  · cases h
  · next v hv =>
    cases h
    have hk := @schedule_ckey _ v.1 v.2 _ hv i
    have hg : ({ w.exec with threads := w.ths.modifyActive fun t =>
        let t := { t with operation := some ⟨o, a, wt⟩ }
        if blk then t.setBlocked else t } : Exec).threads.get i =
        if w.tid = i ∧ i < w.ths.threads.length then
          (fun t : Thread => let t := { t with operation := some ⟨o, a, wt⟩ }
            if blk then t.setBlocked else t) (w.ths.get i)
        else w.ths.get i := by
      show (w.ths.modifyActive _).get i = _
      unfold Threads.modifyActive
      rw [WB.get_modify]
      rfl
    unfold ckey at hk
    simp only [Prod.mk.injEq] at hk
    obtain ⟨k1, k2, k3⟩ := hk
    unfold tcaus trel topo
    show (v.1.threads.get i).causality = _ ∧ (v.1.threads.get i).released = _ ∧
      (v.1.threads.get i).operation.map (·.obj) = _
    rw [k1, k2, k3, hg]
    by_cases e : i = w.tid
    · subst e
      have : w.tid = w.tid ∧ w.tid < w.ths.threads.length := ⟨rfl, hin⟩
      rw [if_pos this, if_pos rfl]
      cases blk <;> exact ⟨rfl, rfl, rfl⟩
    · have : ¬ (w.tid = i ∧ i < w.ths.threads.length) := fun hh => e hh.1.symm
      rw [if_neg this, if_neg e]
      exact ⟨rfl, rfl, rfl⟩

theorem threadDone_ckey {w w' : World} (h : w.threadDone = .ok w') (hin : w.tid < nthr w) (i : Nat) :
    tcaus w' i = tcaus w i ∧ trel w' i = trel w i ∧
    topo w' i = if i = w.tid then none else topo w i := by
  unfold World.threadDone at h
  simp only [bind, Except.bind, pure, Except.pure] at h
  split at h
  · cases h
  · next v hv =>
    cases h
    have hk := @schedule_ckey _ v.1 v.2 _ hv i
    have hg : ({ w.exec with threads := w.ths.modifyActive fun th =>
        { th.setTerminated with operation := none } } : Exec).threads.get i =
        if w.tid = i ∧ i < w.ths.threads.length then
          (fun th : Thread => { th.setTerminated with operation := none }) (w.ths.get i)
        else w.ths.get i := by
      show (w.ths.modifyActive _).get i = _
      unfold Threads.modifyActive
      rw [WB.get_modify]
      rfl
    unfold ckey at hk
    simp only [Prod.mk.injEq] at hk
    obtain ⟨k1, k2, k3⟩ := hk
    unfold tcaus trel topo
    show (v.1.threads.get i).causality = _ ∧ (v.1.threads.get i).released = _ ∧
      (v.1.threads.get i).operation.map (·.obj) = _
    rw [k1, k2, k3, hg]
    by_cases e : i = w.tid
    · subst e
      have : w.tid = w.tid ∧ w.tid < w.ths.threads.length := ⟨rfl, hin⟩
      rw [if_pos this, if_pos rfl]
      exact ⟨rfl, rfl, rfl⟩
    · have : ¬ (w.tid = i ∧ i < w.ths.threads.length) := fun hh => e hh.1.symm
      rw [if_neg this, if_neg e]
      exact ⟨rfl, rfl, rfl⟩

end Race
end LoomVerif

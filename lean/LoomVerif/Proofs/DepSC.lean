/-
C01 pillar 4, second half: validity of loom's independence assumptions against the reference
interleaving semantics `Spec/SC.lean` — commutation of the pairs loom never orders, and the
non-commuting pairs of findings F10 (`Inspect`/`RefDec`: since repaired, loom orders them) and F7.
-/
import LoomVerif.Spec.SC

namespace LoomVerif.SC

/-! ### generic helpers -/

theorem getD_modify_ne {α} (l : List α) (f : α → α) (t u : Nat) (d : α) (h : t ≠ u) :
    (l.modify u f).getD t d = l.getD t d := by
  have : ¬ u = t := fun e => h e.symm
  simp [List.getD, List.getElem?_modify, this]

theorem getD_set_self {α} (l : List α) (i : Nat) (a d : α) (h : i < l.length) :
    (l.set i a).getD i d = a := by
  simp [List.getD, List.getElem?_set, h]

theorem lt_of_getD_cons {α} {l : List (List α)} {i : Nat} {x : α} {r : List α}
    (h : l.getD i [] = x :: r) : i < l.length := by
  apply Classical.byContradiction
  intro hn
  have : l[i]? = none := List.getElem?_eq_none (by omega)
  simp [List.getD, this] at h

theorem lookup_filter_ne {β} (k k' : Nat) (l : List (Nat × β)) (h : k ≠ k') :
    (l.filter (·.1 != k')).lookup k = l.lookup k := by
  induction l with
  | nil => rfl
  | cons x xs ih =>
    obtain ⟨a, b⟩ := x
    by_cases hak : a = k'
    · subst hak
      have : (k == a) = false := by simpa using h
      simp [List.filter, List.lookup, this, ih]
    · have hf : (a != k') = true := by simpa using hak
      simp only [List.filter, hf, List.lookup]
      split
      · rfl
      · exact ih

theorem filter_filter_comm {α} (p q : α → Bool) (l : List α) :
    (l.filter p).filter q = (l.filter q).filter p := by
  simp only [List.filter_filter]
  congr 1; funext a; exact Bool.and_comm _ _

/-- two states are equal when all their fields are -/
theorem St_eq {a b : St} (ths : a.ths = b.ths) (atoms : a.atoms = b.atoms)
    (atomRel : a.atomRel = b.atomRel) (cells : a.cells = b.cells) (cellW : a.cellW = b.cellW)
    (cellR : a.cellR = b.cellR) (cellOpen : a.cellOpen = b.cellOpen)
    (cellWOpen : a.cellWOpen = b.cellWOpen) (mutex : a.mutex = b.mutex) (mutexRel : a.mutexRel = b.mutexRel)
    (rwWriter : a.rwWriter = b.rwWriter) (rwReaders : a.rwReaders = b.rwReaders)
    (rwRel : a.rwRel = b.rwRel) (cvQueue : a.cvQueue = b.cvQueue) (nFlag : a.nFlag = b.nFlag)
    (nSpurUsed : a.nSpurUsed = b.nSpurUsed) (nRel : a.nRel = b.nRel) (chan : a.chan = b.chan)
    (chanRel : a.chanRel = b.chanRel) (rxDropped : a.rxDropped = b.rxDropped)
    (chanLeft : a.chanLeft = b.chanLeft) (arcs : a.arcs = b.arcs)
    (handles : a.handles = b.handles) (tracks : a.tracks = b.tracks)
    (tlsInits : a.tlsInits = b.tlsInits) (tlsDrops : a.tlsDrops = b.tlsDrops)
    (tlsObs : a.tlsObs = b.tlsObs) (lazyInit : a.lazyInit = b.lazyInit)
    (lazyRel : a.lazyRel = b.lazyRel) (lazyDropped : a.lazyDropped = b.lazyDropped)
    (futs : a.futs = b.futs)
    (verdict : a.verdict = b.verdict) : a = b := by
  cases a; cases b; simp_all

/-- the `ths` component determines clocks and next operations -/
theorem vc_congr {s1 s2 : St} (t : Nat) (h : s1.ths.getD t {} = s2.ths.getD t {}) :
    s1.vc t = s2.vc t := by
  unfold St.vc St.th; rw [h]

/-! ### the next operation of a thread -/

/-- thread `t` is not inside a `cvwait` and its next operation is `op` -/
def NextOp (p : Prog) (s : St) (t : Nat) (op : Op) : Prop :=
  (s.th t).cvNotified = none ∧ opOf p s t = some op

theorem NextOp.congr {p : Prog} {s s' : St} {t : Nat} {op : Op} (h : NextOp p s t op)
    (hth : s'.ths.getD t {} = s.ths.getD t {}) : NextOp p s' t op := by
  unfold NextOp opOf St.th at *
  rw [hth]; exact h

/-! ### single steps -/

def doLoad (s : St) (t x : Nat) (o : Ord) : St :=
  (if o.acquires then (s.tick t).acquire t (s.atomRel.getD x VV.zero) else s.tick t).ret t
    (.val (s.atoms.getD x 0))

theorem step_load {p : Prog} {s : St} {t x : Nat} {o : Ord}
    (h : NextOp p s t (.atom x (.load o))) : step p s t = [doLoad s t x o] := by
  unfold step
  simp only [h.1, h.2, Bool.false_eq_true, if_false, acquiresOf, Std.step]
  rfl

def doSend (s : St) (t q : Nat) (v : Int) : St :=
  let s1 := s.tick t
  if s.rxDropped.getD q false then
    ({ s1 with chanLeft := s.chanLeft.set q (s.chanLeft.getD q 0 + 1) }).ret t .unit
  else
    let rel := (s.chanRel.getD q VV.zero).join (s1.vc t)
    ({ s1 with chan := s.chan.set q (s.chan.getD q [] ++ [(v, rel)])
               chanRel := s.chanRel.set q rel }).ret t .unit

theorem step_send {p : Prog} {s : St} {t q : Nat} {v : Int} (h : NextOp p s t (.send q v)) :
    step p s t = [doSend s t q v] := by
  unfold step
  simp only [h.1, h.2]
  unfold doSend
  by_cases hd : s.rxDropped.getD q false = true
  · have : (s.tick t).rxDropped.getD q false = true := hd
    simp only [this, hd, if_true]; rfl
  · have : ¬ (s.tick t).rxDropped.getD q false = true := hd
    simp only [this, hd]; rfl

def doRecv (s : St) (t q : Nat) (v : Int) (c : VV) (rest : List (Int × VV)) : St :=
  (({ s.tick t with chan := s.chan.set q rest }).acquire t c).ret t (.val v)

theorem step_recv {p : Prog} {s : St} {t q : Nat} {v : Int} {c : VV} {rest : List (Int × VV)}
    (h : NextOp p s t (.recv q)) (hq : s.chan.getD q [] = (v, c) :: rest) :
    step p s t = [doRecv s t q v c rest] := by
  unfold step
  simp only [h.1, h.2]
  have : (s.tick t).chan.getD q [] = (v, c) :: rest := hq
  simp only [this]
  rfl

def doClone (s : St) (t h2 a : Nat) : St :=
  ({ s.tick t with
      arcs := s.arcs.set a ((s.arcs.getD a (0, VV.zero)).1 + 1, (s.arcs.getD a (0, VV.zero)).2)
      handles := (h2, a) :: s.handles.filter (·.1 != h2) }).ret t .unit

theorem step_arcClone {p : Prog} {s : St} {t hd h2 a : Nat} (h : NextOp p s t (.arcClone hd h2))
    (ha : arcOf s hd = some a) : step p s t = [doClone s t h2 a] := by
  unfold step
  simp only [h.1, h.2]
  have : arcOf (s.tick t) hd = some a := ha
  simp only [this]
  rfl

/-- `arcDrop` of a handle to an arc whose count is at least 2 -/
def doDropBig (s : St) (t hd a n : Nat) (rel : VV) : St :=
  ({ s.tick t with arcs := s.arcs.set a (n - 1, rel.join ((s.tick t).vc t))
                   handles := s.handles.filter (·.1 != hd) }).ret t (bool01 false)

theorem arcDec_big {s : St} {t a n : Nat} {rel : VV} (hn : s.arcs[a]? = some (n, rel))
    (h2 : 2 ≤ n) :
    arcDec s t a = ({ s with arcs := s.arcs.set a (n - 1, rel.join (s.vc t)) }, false) := by
  unfold arcDec
  have h0 : (n == 0) = false := by simp; omega
  have h1 : (n == 1) = false := by simp; omega
  simp [hn, h0, h1]

theorem step_arcDrop_big {p : Prog} {s : St} {t hd a n : Nat} {rel : VV}
    (h : NextOp p s t (.arcDrop hd)) (ha : arcOf s hd = some a)
    (hn : s.arcs[a]? = some (n, rel)) (h2 : 2 ≤ n) :
    step p s t = [doDropBig s t hd a n rel] := by
  unfold step
  simp only [h.1, h.2]
  have : arcOf (s.tick t) hd = some a := ha
  simp only [this]
  have hn' : (s.tick t).arcs[a]? = some (n, rel) := hn
  rw [arcDec_big hn' h2]
  rfl

/-! ### (i) two atomic loads commute -/

/-- what a load does to the record of the loading thread -/
def loadF (t : Nat) (acq : Bool) (rel : VV) (r : Ret) (h : Th) : Th :=
  let h1 : Th := { h with vc := h.vc.inc t }
  let h2 : Th := if acq then { h1 with vc := h1.vc.join rel } else h1
  { h2 with rets := (h2.pc, r) :: h2.rets, pc := h2.pc + 1 }

theorem doLoad_eq (s : St) (t x : Nat) (o : Ord) :
    doLoad s t x o =
      s.modTh t (loadF t o.acquires (s.atomRel.getD x VV.zero) (.val (s.atoms.getD x 0))) := by
  unfold doLoad
  cases o.acquires
  · simp only [Bool.false_eq_true, if_false, St.ret, St.tick, St.modTh, List.modify_modify_eq]
    rfl
  · simp only [if_true, St.ret, St.tick, St.acquire, St.modTh, List.modify_modify_eq]
    rfl

theorem modTh_comm (s : St) (t u : Nat) (f g : Th → Th) (h : t ≠ u) :
    (s.modTh t f).modTh u g = (s.modTh u g).modTh t f := by
  unfold St.modTh
  simp only [List.modify_modify_ne f g s.ths h]

theorem doLoad_comm (s : St) (t u x : Nat) (o o' : Ord) (h : t ≠ u) :
    doLoad (doLoad s t x o) u x o' = doLoad (doLoad s u x o') t x o := by
  rw [doLoad_eq s t, doLoad_eq s u, doLoad_eq, doLoad_eq]
  exact modTh_comm s t u _ _ h

/-- (i) Two loads of the same atomic by different threads commute: both orders lead to the same
state (in particular the same returned values, the same cell content, the same clocks). -/
theorem load_load_commute {p : Prog} {s : St} {t u x : Nat} {o o' : Ord} (htu : t ≠ u)
    (ht : NextOp p s t (.atom x (.load o))) (hu : NextOp p s u (.atom x (.load o'))) :
    (step p s t).flatMap (fun s' => step p s' u) = (step p s u).flatMap (fun s' => step p s' t) ∧
    (step p s t).flatMap (fun s' => step p s' u) = [doLoad (doLoad s t x o) u x o'] := by
  have hu' : NextOp p (doLoad s t x o) u (.atom x (.load o')) :=
    hu.congr (by rw [doLoad_eq]; exact getD_modify_ne _ _ _ _ _ htu.symm)
  have ht' : NextOp p (doLoad s u x o') t (.atom x (.load o)) :=
    ht.congr (by rw [doLoad_eq]; exact getD_modify_ne _ _ _ _ _ htu)
  rw [step_load ht, step_load hu]
  simp only [List.flatMap_cons, List.flatMap_nil, List.append_nil]
  rw [step_load hu', step_load ht', doLoad_comm s t u x o o' htu]
  exact ⟨rfl, rfl⟩

/-! ### (ii) `send` and `recv` on a non-empty queue commute -/

/-- what a completed step without acquisition does to the record of its thread -/
def retF (t : Nat) (r : Ret) (h : Th) : Th :=
  { h with vc := h.vc.inc t, rets := (h.pc, r) :: h.rets, pc := h.pc + 1 }

/-- what a completed step that acquires clock `c` does to the record of its thread -/
def acqRetF (t : Nat) (c : VV) (r : Ret) (h : Th) : Th :=
  { h with vc := (h.vc.inc t).join c, rets := (h.pc, r) :: h.rets, pc := h.pc + 1 }

theorem tick_vc_modify_ne (s : St) (l : List Th) (t u : Nat) (g : Th → Th) (h : t ≠ u)
    (hl : l = s.ths.modify u g) (s' : St) (hs' : s'.ths = l) :
    (s'.tick t).vc t = (s.tick t).vc t := by
  apply vc_congr
  show (s'.ths.modify t _).getD t {} = (s.ths.modify t _).getD t {}
  rw [hs', hl, List.modify_modify_ne _ _ s.ths h.symm]
  exact getD_modify_ne _ _ _ _ _ h

theorem doRecv_ths (s : St) (u q : Nat) (v : Int) (c : VV) (rest : List (Int × VV)) :
    (doRecv s u q v c rest).ths = s.ths.modify u (acqRetF u c (.val v)) := by
  simp only [doRecv, St.ret, St.tick, St.acquire, St.modTh, List.modify_modify_eq]
  rfl

theorem doSend_ths (s : St) (t q : Nat) (v : Int) :
    (doSend s t q v).ths = s.ths.modify t (retF t .unit) := by
  unfold doSend
  simp only
  split <;> (simp only [St.ret, St.tick, St.modTh, List.modify_modify_eq]; rfl)

theorem doClone_ths (s : St) (t h2 a : Nat) :
    (doClone s t h2 a).ths = s.ths.modify t (retF t .unit) := by
  simp only [doClone, St.ret, St.tick, St.modTh, List.modify_modify_eq]
  rfl

theorem doDropBig_ths (s : St) (t hd a n : Nat) (rel : VV) :
    (doDropBig s t hd a n rel).ths = s.ths.modify t (retF t (bool01 false)) := by
  simp only [doDropBig, St.ret, St.tick, St.modTh, List.modify_modify_eq]
  rfl

/-- (ii) `send q v` by `t` and `recv q` by `u ≠ t` on a non-empty queue commute: both orders
lead to the same state; `u` receives the head of the queue in both. -/
theorem send_recv_commute {p : Prog} {s : St} {t u q : Nat} {v v0 : Int} {c0 : VV}
    {rest : List (Int × VV)} (htu : t ≠ u)
    (ht : NextOp p s t (.send q v)) (hu : NextOp p s u (.recv q))
    (hq : s.chan.getD q [] = (v0, c0) :: rest) :
    (step p s t).flatMap (fun s' => step p s' u) = (step p s u).flatMap (fun s' => step p s' t) ∧
    (step p s u).flatMap (fun s' => step p s' t) = [doSend (doRecv s u q v0 c0 rest) t q v] := by
  have hqlt : q < s.chan.length := lt_of_getD_cons hq
  have hu' : NextOp p (doSend s t q v) u (.recv q) :=
    hu.congr (by rw [doSend_ths]; exact getD_modify_ne _ _ _ _ _ htu.symm)
  have ht' : NextOp p (doRecv s u q v0 c0 rest) t (.send q v) :=
    ht.congr (by rw [doRecv_ths]; exact getD_modify_ne _ _ _ _ _ htu)
  have hvc : ((doRecv s u q v0 c0 rest).tick t).vc t = (s.tick t).vc t :=
    tick_vc_modify_ne s _ t u _ htu rfl _ (doRecv_ths s u q v0 c0 rest)
  rw [step_send ht, step_recv hu hq]
  simp only [List.flatMap_cons, List.flatMap_nil, List.append_nil]
  rw [step_send ht']
  refine ⟨?_, rfl⟩
  by_cases hd : s.rxDropped.getD q false = true
  · -- the receiver was dropped: the message is only counted
    have hq' : (doSend s t q v).chan.getD q [] = (v0, c0) :: rest := by
      unfold doSend; simp only [hd, if_true]; exact hq
    rw [step_recv hu' hq']
    congr 1
    apply St_eq
    case ths =>
      rw [doRecv_ths, doSend_ths, doSend_ths, doRecv_ths]
      exact List.modify_modify_ne _ _ _ htu
    all_goals (unfold doSend; simp only [hd, if_true]; first | rfl | skip)
    all_goals (
      have hd' : (doRecv s u q v0 c0 rest).rxDropped.getD q false = true := hd
      simp only [hd', if_true]; rfl)
  · have hq' : (doSend s t q v).chan.getD q [] =
        (v0, c0) :: (rest ++ [(v, (s.chanRel.getD q VV.zero).join ((s.tick t).vc t))]) := by
      unfold doSend; simp only [hd]
      show (s.chan.set q _).getD q [] = _
      rw [getD_set_self _ _ _ _ hqlt, hq]; rfl
    rw [step_recv hu' hq']
    congr 1
    have hd' : ¬ (doRecv s u q v0 c0 rest).rxDropped.getD q false = true := hd
    apply St_eq
    case ths =>
      rw [doRecv_ths, doSend_ths, doSend_ths, doRecv_ths]
      exact List.modify_modify_ne _ _ _ htu
    case chan =>
      unfold doSend
      simp only [hd, hd', hvc]
      show (s.chan.set q _).set q _ = ((s.chan.set q rest).set q ((s.chan.set q rest).getD q [] ++ _))
      rw [List.set_set, List.set_set, getD_set_self _ _ _ _ hqlt]
      rfl
    case chanRel =>
      unfold doSend
      simp only [hd, hd', hvc]
      rfl
    all_goals (unfold doSend; simp only [hd, hd']; rfl)

/-! ### (iii) `arcClone` and `arcDrop` of an arc with count ≥ 2 commute -/

theorem getD_of_getElem? {α} {l : List α} {i : Nat} {a d : α} (h : l[i]? = some a) :
    l.getD i d = a := by simp [List.getD, h]

/-- (iii) `arcClone hd h2` by `t` and `arcDrop hd'` by `u ≠ t` of the same arc `a`, through
different handles, when the strong count is at least 2: both orders lead to the same state
(same final count `n`, same release clock, same handle table); the drop returns "not the last
reference" and the clone returns unit in both. -/
theorem arcClone_arcDrop_commute {p : Prog} {s : St} {t u hd h2 hd' a n : Nat} {rel : VV}
    (htu : t ≠ u) (ht : NextOp p s t (.arcClone hd h2)) (hu : NextOp p s u (.arcDrop hd'))
    (ha : arcOf s hd = some a) (ha' : arcOf s hd' = some a) (hne1 : hd ≠ hd') (hne2 : h2 ≠ hd')
    (hn : s.arcs[a]? = some (n, rel)) (h2n : 2 ≤ n) :
    (step p s t).flatMap (fun s' => step p s' u) = (step p s u).flatMap (fun s' => step p s' t) ∧
    (step p s u).flatMap (fun s' => step p s' t) = [doClone (doDropBig s u hd' a n rel) t h2 a] ∧
    (doClone (doDropBig s u hd' a n rel) t h2 a).arcs[a]? =
      some (n, rel.join ((s.tick u).vc u)) := by
  have halt : a < s.arcs.length := (List.getElem?_eq_some_iff.1 hn).1
  have hgd : s.arcs.getD a (0, VV.zero) = (n, rel) := getD_of_getElem? hn
  have hu' : NextOp p (doClone s t h2 a) u (.arcDrop hd') :=
    hu.congr (by rw [doClone_ths]; exact getD_modify_ne _ _ _ _ _ htu.symm)
  have ht' : NextOp p (doDropBig s u hd' a n rel) t (.arcClone hd h2) :=
    ht.congr (by rw [doDropBig_ths]; exact getD_modify_ne _ _ _ _ _ htu)
  have hvc : ((doClone s t h2 a).tick u).vc u = (s.tick u).vc u :=
    tick_vc_modify_ne s _ u t _ htu.symm rfl _ (doClone_ths s t h2 a)
  -- the handles still resolve after the other operation
  have hA : arcOf (doClone s t h2 a) hd' = some a := by
    show List.lookup hd' ((h2, a) :: s.handles.filter (·.1 != h2)) = some a
    have : (hd' == h2) = false := by simpa using hne2.symm
    simp only [List.lookup, this]
    rw [lookup_filter_ne _ _ _ hne2.symm]; exact ha'
  have hB : arcOf (doDropBig s u hd' a n rel) hd = some a := by
    show List.lookup hd (s.handles.filter (·.1 != hd')) = some a
    rw [lookup_filter_ne _ _ _ hne1]; exact ha
  have hnA : (doClone s t h2 a).arcs[a]? = some (n + 1, rel) := by
    show (s.arcs.set a _)[a]? = _
    rw [hgd]; simp [List.getElem?_set, halt]
  have hgdB : (doDropBig s u hd' a n rel).arcs.getD a (0, VV.zero) =
      (n - 1, rel.join ((s.tick u).vc u)) := by
    show (s.arcs.set a _).getD a _ = _
    exact getD_set_self _ _ _ _ halt
  rw [step_arcClone ht ha, step_arcDrop_big hu ha' hn h2n]
  simp only [List.flatMap_cons, List.flatMap_nil, List.append_nil]
  rw [step_arcClone ht' hB, step_arcDrop_big hu' hA hnA (by omega)]
  have hn1 : n - 1 + 1 = n := by omega
  refine ⟨?_, rfl, ?_⟩
  · congr 1
    apply St_eq
    case ths =>
      rw [doDropBig_ths, doClone_ths, doClone_ths, doDropBig_ths]
      exact List.modify_modify_ne _ _ _ htu
    case arcs =>
      show (doClone s t h2 a).arcs.set a (n + 1 - 1, rel.join (((doClone s t h2 a).tick u).vc u)) =
        (doDropBig s u hd' a n rel).arcs.set a
          (((doDropBig s u hd' a n rel).arcs.getD a (0, VV.zero)).1 + 1,
           ((doDropBig s u hd' a n rel).arcs.getD a (0, VV.zero)).2)
      rw [hgdB, hvc]
      show (s.arcs.set a _).set a _ = (s.arcs.set a _).set a _
      rw [List.set_set, List.set_set, hn1]; rfl
    case handles =>
      show List.filter (·.1 != hd') ((h2, a) :: s.handles.filter (·.1 != h2)) =
        (h2, a) :: (s.handles.filter (·.1 != hd')).filter (·.1 != h2)
      have : ((h2, a) : Nat × Nat).1 != hd' := by simpa using hne2
      simp only [List.filter, this]
      rw [filter_filter_comm]
    all_goals rfl
  · show ((doDropBig s u hd' a n rel).arcs.set a _)[a]? = _
    rw [hgdB]
    show ((s.arcs.set a _).set a _)[a]? = _
    rw [List.set_set, hn1]
    simp [List.getElem?_set, halt]

end LoomVerif.SC

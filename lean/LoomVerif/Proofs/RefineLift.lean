/-
Refinement, part 7: back from the data semantics to the reference semantics proper.  Every step of
`SCData.stepL` from the data of a reference state is the data of THE step of `SC.step` of the same thread, unless
that step stops with a data-race verdict; hence every run of the data semantics from the initial state is the
data of an execution of `Spec/SC.lean`, or has a prefix whose reference execution ends in a race verdict.
-/
import LoomVerif.Proofs.RefineData

namespace LoomVerif
namespace Refine

/-- all threads of the state satisfy the fragment invariant, and no verdict has been reached -/
def FragSt (s : SC.St) : Prop := s.verdict = none ∧ ∀ t, FragTh (s.th t)

theorem fragSt_init (p : Prog) : FragSt (SC.init p) := by
  refine ⟨rfl, fun t => ?_⟩
  unfold SC.St.th SC.init
  simp only [List.getD, List.getElem?_map]
  cases (List.range p.threads.length)[t]? with
  | none => exact fragTh_default
  | some i => exact ⟨rfl, rfl, rfl, rfl⟩

theorem th_modTh (s : SC.St) (t u : Nat) (f : SC.Th → SC.Th) (hd : f {} = {} ∨ True) :
    (s.modTh t f).th u = if t = u ∧ u < s.ths.length then f (s.th u) else s.th u := by
  simp only [SC.St.modTh, SC.St.th, List.getD, List.getElem?_modify]
  by_cases hu : u < s.ths.length
  · by_cases e : t = u <;> simp [hu, e]
  · have : s.ths[u]? = none := List.getElem?_eq_none (by omega)
    simp [this, hu]

/-- a change of a thread that keeps the four invariant fields keeps the invariant -/
theorem fragTh_modTh {s : SC.St} {t : Nat} {f : SC.Th → SC.Th} (h : ∀ u, FragTh (s.th u))
    (hf : ∀ a, FragTh a → FragTh (f a)) (u : Nat) : FragTh ((s.modTh t f).th u) := by
  rw [th_modTh _ _ _ _ (.inr trivial)]
  split
  · exact hf _ (h u)
  · exact h u

theorem fragTh_keep {a b : SC.Th} (ha : FragTh a) (h1 : b.cvWaiting = a.cvWaiting)
    (h2 : b.cvNotified = a.cvNotified) (h3 : b.locals = a.locals) (h4 : b.phase = a.phase) : FragTh b :=
  ⟨h1.trans ha.1, h2.trans ha.2.1, h3.trans ha.2.2.1, h4.trans ha.2.2.2⟩

macro "frag_mod " h:term : tactic =>
  `(tactic| (refine fragTh_modTh $h ?_ _; intro a ha; exact fragTh_keep ha rfl rfl rfl rfl))

theorem fragTh_tick {s : SC.St} {t : Nat} (h : ∀ u, FragTh (s.th u)) (u : Nat) : FragTh ((s.tick t).th u) := by
  unfold SC.St.tick
  frag_mod h
theorem fragTh_acquire {s : SC.St} {t : Nat} {c : VV} (h : ∀ u, FragTh (s.th u)) (u : Nat) :
    FragTh ((s.acquire t c).th u) := by
  unfold SC.St.acquire
  frag_mod h
theorem fragTh_ret {s : SC.St} {t : Nat} {r : Ret} (h : ∀ u, FragTh (s.th u)) (u : Nat) :
    FragTh ((s.ret t r).th u) := by
  unfold SC.St.ret
  frag_mod h

/-- **`SCData.stepL` is the data of `SC.step`, unless `SC.step` stops with a race verdict** -/
theorem SC.step_lift {p : Prog} {s : SC.St} {t : Nat} {l : Option (Nat × Ret)} {d' : SCData}
    (hs : FragSt s) (h : (l, d') ∈ SCData.stepL p (data s) t) :
    ∃ s', s' ∈ SC.step p s t ∧ ((FragSt s' ∧ data s' = d') ∨ ∃ k, s'.verdict = some (.race k)) := by
  obtain ⟨hv, hth⟩ := hs
  have hft := hth t
  unfold SCData.stepL at h
  rw [data_opOf, data_th] at h
  cases ho : SC.opOf p s t with
  | none =>
    rw [ho] at h
    simp only [List.mem_singleton, Prod.mk.injEq] at h
    obtain ⟨_, rfl⟩ := h
    have key : SC.finish p s t =
        [(if t == 0 then { s with lazyDropped := true } else s).modTh t fun h => { h with finished := true }] := by
      unfold SC.finish
      simp only [hft.2.2.1, hft.2.2.2, List.map_nil, List.contains_nil, List.filter_cons, List.filter_nil,
        Bool.false_eq_true, if_false, List.isEmpty_nil, if_true, SC.perms2, List.map_cons, List.foldl_nil]
      split
      · simp
      · rfl
    refine ⟨(if t == 0 then { s with lazyDropped := true } else s).modTh t fun h => { h with finished := true },
      by unfold SC.step; simp only [hft.2.1, ho, key, List.mem_singleton], .inl ⟨⟨?_, ?_⟩, ?_⟩⟩
    · simp only [verdict_modTh]; split <;> exact hv
    · have h' : ∀ u, FragTh ((if t == 0 then { s with lazyDropped := true } else s).th u) := by
        intro u; split <;> exact hth u
      intro u
      frag_mod h'
    · rw [data_modTh _ _ _ (fun h => { h with finished := true }) (fun _ => rfl)]
      congr 1
      split <;> rfl
  | some op =>
    rw [ho] at h
    have hstep : ∀ x, x ∈ SC.step p s t ↔ x ∈ (SC.step p s t) := fun _ => Iff.rfl
    cases op <;> simp only [List.not_mem_nil] at h
    case cellRead c =>
      simp only [List.mem_singleton, Prod.mk.injEq] at h
      obtain ⟨_, rfl⟩ := h
      unfold SC.step
      simp only [hft.2.1, ho]
      split
      · exact ⟨_, List.mem_singleton.2 rfl, .inr ⟨9, rfl⟩⟩
      · split
        · exact ⟨_, List.mem_singleton.2 rfl, .inr ⟨9, rfl⟩⟩
        · refine ⟨_, List.mem_singleton.2 rfl, .inl ⟨⟨hv, fragTh_ret (fun u => fragTh_tick hth u)⟩, ?_⟩⟩
          rw [data_ret, data_setCellR, data_tick]; rfl
    case cellWrite c v =>
      simp only [List.mem_singleton, Prod.mk.injEq] at h
      obtain ⟨_, rfl⟩ := h
      unfold SC.step
      simp only [hft.2.1, ho]
      repeat' split
      all_goals first
        | exact ⟨_, List.mem_singleton.2 rfl, .inr ⟨_, rfl⟩⟩
        | (refine ⟨_, List.mem_singleton.2 rfl, .inl ⟨⟨hv, fragTh_ret (fun u => fragTh_tick hth u)⟩, ?_⟩⟩
           rw [data_ret, data_setCells, data_tick]; rfl)
    case lock m =>
      simp only [List.mem_singleton, Prod.mk.injEq] at h
      obtain ⟨_, rfl⟩ := h
      unfold SC.step
      simp only [hft.2.1, ho]
      refine ⟨_, List.mem_singleton.2 rfl, .inl ⟨⟨hv, ?_⟩, ?_⟩⟩
      · exact fragTh_ret (fun u => fragTh_acquire (s := { s.tick t with mutex := _ }) (fun u => fragTh_tick hth u) u)
      · rw [data_ret, data_acquire, data_setMutex, data_tick]; rfl
    case tryLock m =>
      have e2 : (data s).mutex = s.mutex := rfl
      rw [e2] at h
      unfold SC.step
      simp only [hft.2.1, ho]
      have e : (s.tick t).mutex = s.mutex := rfl
      rw [e]
      split at h
      · next hm =>
        simp only [List.mem_singleton, Prod.mk.injEq] at h
        obtain ⟨_, rfl⟩ := h
        rw [if_pos hm]
        refine ⟨_, List.mem_singleton.2 rfl, .inl ⟨⟨hv, ?_⟩, ?_⟩⟩
        · exact fragTh_ret (fun u => fragTh_acquire (s := { s.tick t with mutex := _ }) (fun u => fragTh_tick hth u) u)
        · rw [data_ret, data_acquire, data_setMutex, data_tick]
      · next hm =>
        simp only [List.mem_singleton, Prod.mk.injEq] at h
        obtain ⟨_, rfl⟩ := h
        rw [if_neg hm]
        refine ⟨_, List.mem_singleton.2 rfl, .inl ⟨⟨hv, fragTh_ret (fun u => fragTh_tick hth u)⟩, ?_⟩⟩
        rw [data_ret, data_tick]
    case unlock m =>
      simp only [List.mem_singleton, Prod.mk.injEq] at h
      obtain ⟨_, rfl⟩ := h
      unfold SC.step
      simp only [hft.2.1, ho]
      refine ⟨_, List.mem_singleton.2 rfl, .inl ⟨⟨hv, ?_⟩, ?_⟩⟩
      · exact fragTh_ret (s := { s.tick t with mutex := _, mutexRel := _ }) (fun u => fragTh_tick hth u)
      · rw [data_ret, data_setMutexRel, data_tick]; rfl
    case spawn b =>
      simp only [List.mem_singleton, Prod.mk.injEq] at h
      obtain ⟨_, rfl⟩ := h
      unfold SC.step
      simp only [hft.2.1, ho]
      refine ⟨_, List.mem_singleton.2 rfl, .inl ⟨⟨hv, ?_⟩, ?_⟩⟩
      · refine fragTh_ret (fun u => ?_)
        frag_mod (fun u => fragTh_tick hth u)
      · rw [data_ret, data_modTh _ _ _ (fun h => { h with started := true }) (fun _ => rfl), data_tick]
    case join b =>
      simp only [List.mem_singleton, Prod.mk.injEq] at h
      obtain ⟨_, rfl⟩ := h
      unfold SC.step
      simp only [hft.2.1, ho]
      refine ⟨_, List.mem_singleton.2 rfl, .inl ⟨⟨hv, ?_⟩, ?_⟩⟩
      · exact fragTh_ret (fun u => fragTh_acquire (fun u => fragTh_tick hth u) u)
      · rw [data_ret, data_acquire, data_tick]
    case ifEq i r n =>
      unfold SC.step
      simp only [hft.2.1, ho]
      have e1 : (dth (s.th t)).rets = (s.th t).rets := rfl
      have e2 : (dth (s.th t)).pc = (s.th t).pc := rfl
      rw [e1, e2] at h
      split at h
      · next hc =>
        simp only [List.mem_singleton, Prod.mk.injEq] at h
        obtain ⟨_, rfl⟩ := h
        rw [if_pos hc]
        refine ⟨_, List.mem_singleton.2 rfl, .inl ⟨⟨hv, fun u => ?_⟩, ?_⟩⟩
        · frag_mod hth
        · exact data_modTh _ _ _ (fun h => { h with pc := h.pc + 1 }) (fun _ => rfl)
      · next hc =>
        simp only [List.mem_singleton, Prod.mk.injEq] at h
        obtain ⟨_, rfl⟩ := h
        rw [if_neg hc]
        refine ⟨_, List.mem_singleton.2 rfl, .inl ⟨⟨hv, fun u => ?_⟩, ?_⟩⟩
        · frag_mod hth
        · exact data_modTh _ _ _ (fun h => { h with pc := h.pc + 1 + n }) (fun _ => rfl)

/-- executions of the reference semantics proper: every step is a step of an enabled thread -/
inductive SCExec (p : Prog) : SC.St → SC.St → Prop
  | nil (s : SC.St) : SCExec p s s
  | step {s s1 s2 : SC.St} {t : Nat} :
      SCExec p s s1 → SC.enabled p s1 t = true → s2 ∈ SC.step p s1 t → SCExec p s s2

/-- the fragment operations of a program: all of them -/
def FragProg (p : Prog) : Prop :=
  ∀ (a k : Nat) (op : Op), (p.threads.getD a [])[k]? = some op → isFrag op = true

/-- **a run of the data semantics is the data of an execution of `Spec/SC.lean`**, or a prefix of it is an
execution that ends in a data-race verdict -/
theorem Run.lift {p : Prog} (hp : FragProg p) {tr : List (Nat × Nat × Ret)} {d : SCData}
    (h : SCData.Run p (data (SC.init p)) tr d) :
    ∃ s, SCExec p (SC.init p) s ∧ ((FragSt s ∧ data s = d) ∨ ∃ k, s.verdict = some (.race k)) := by
  generalize hd0 : data (SC.init p) = d0 at h
  induction h with
  | nil => exact ⟨SC.init p, .nil _, .inl ⟨fragSt_init p, hd0⟩⟩
  | step hrun hen hst ih =>
    rename_i t _
    obtain ⟨s1, hex, hcase⟩ := ih
    rcases hcase with ⟨hfs, hdata⟩ | hrace
    · subst hdata
      obtain ⟨s2, hmem, hres⟩ := SC.step_lift hfs hst
      have hen' : SC.enabled p s1 t = true := by
        rw [SC.enabled_data hfs.1 (hfs.2 t) (fun op ho => hp _ _ _ ho)]
        exact hen
      exact ⟨s2, .step hex hen' hmem, hres⟩
    · exact ⟨s1, hex, .inr hrace⟩

end Refine
end LoomVerif

/-
Refinement, RESOURCE fragment, part 9: back from the data semantics `SCData3` to the reference semantics proper.
Every step of `SCData3.stepL` from the data of a reference state is the data of a step of `SC.step` of the same
thread, unless that step stops with a data-race verdict; hence every run of the data semantics from the initial
state is the data of an execution of `Spec/SC.lean`.  On the states of such executions `SC.leaks` is
`SCData3.leaks` of the data (no futures, no channel messages).
-/
import LoomVerif.Proofs.Refine3Data
import LoomVerif.Proofs.C11SC

namespace LoomVerif
namespace Refine3
open Refine

/-! ### projection lemmas -/

theorem data3_modTh (s : SC.St) (t : Nat) (f : SC.Th → SC.Th) (g : DTh → DTh)
    (h : ∀ a, dth (f a) = g (dth a)) : data3 (s.modTh t f) = (data3 s).modTh t g := by
  simp only [data3, SC.St.modTh, SCData3.modTh]
  rw [map_modify _ _ _ g dth h]

theorem data3_modTh_id (s : SC.St) (t : Nat) (f : SC.Th → SC.Th) (h : ∀ a, dth (f a) = dth a) :
    data3 (s.modTh t f) = data3 s := by
  rw [data3_modTh s t f id h]
  simp only [SCData3.modTh]
  rw [modify_id' _ _ id (fun _ => rfl)]

theorem data3_tick (s : SC.St) (t : Nat) : data3 (s.tick t) = data3 s := data3_modTh_id _ _ _ fun _ => rfl
theorem data3_acquire (s : SC.St) (t : Nat) (c : VV) : data3 (s.acquire t c) = data3 s :=
  data3_modTh_id _ _ _ fun _ => rfl
theorem data3_ret (s : SC.St) (t : Nat) (r : Ret) : data3 (s.ret t r) = (data3 s).ret t r :=
  data3_modTh _ _ _ _ fun _ => rfl

theorem data3_set (s : SC.St) (A : List (Nat × VV)) (H : List (Nat × Nat)) (T : List (Nat × Bool)) :
    data3 { s with arcs := A, handles := H, tracks := T } =
      { data3 s with arcs := A.map (·.1), handles := H, tracks := T } := rfl

theorem data3_arcs (s : SC.St) (A : List (Nat × VV)) :
    data3 { s with arcs := A } = { data3 s with arcs := A.map (·.1) } := rfl
theorem data3_handles (s : SC.St) (H : List (Nat × Nat)) :
    data3 { s with handles := H } = { data3 s with handles := H } := rfl
theorem data3_tracks (s : SC.St) (T : List (Nat × Bool)) :
    data3 { s with tracks := T } = { data3 s with tracks := T } := rfl
theorem data3_arcs_handles (s : SC.St) (A : List (Nat × VV)) (H : List (Nat × Nat)) :
    data3 { s with arcs := A, handles := H } = { data3 s with arcs := A.map (·.1), handles := H } := rfl

theorem data3_th (s : SC.St) (t : Nat) : (data3 s).th t = dth (s.th t) := data_th s t

theorem data3_opOf (p : Prog) (s : SC.St) (t : Nat) : SCData3.opOf p (data3 s) t = SC.opOf p s t :=
  data_opOf p s t

theorem getD_map_fst (l : List (Nat × VV)) (a : Nat) : (l.map (·.1)).getD a 0 = (l.getD a (0, VV.zero)).1 := by
  simp only [List.getD, List.getElem?_map]
  cases l[a]? <;> rfl

/-! ### the invariant of the reference states of resource programs -/

/-- no live waker, no message in a channel -/
def NoMsgs (s : SC.St) : Prop :=
  s.futs.all (·.wakers == 0) = true ∧ s.chan.all (·.isEmpty) = true ∧ s.chanLeft.all (· == 0) = true

/-- the part of a reference state the resource operations touch, and the part `SC.leaks` reads besides -/
def resFrame (s : SC.St) := (s.arcs, s.handles, s.tracks)
def msgFrame (s : SC.St) := (s.futs, s.chan, s.chanLeft)

theorem NoMsgs.of_frame {s s' : SC.St} (h : NoMsgs s) (e : msgFrame s' = msgFrame s) : NoMsgs s' := by
  simp only [msgFrame, Prod.mk.injEq] at e
  obtain ⟨e1, e2, e3⟩ := e
  unfold NoMsgs
  rw [e1, e2, e3]; exact h

def FragSt3 (s : SC.St) : Prop := FragSt s ∧ NoMsgs s

theorem fragSt3_init (p : Prog) : FragSt3 (SC.init p) := by
  refine ⟨fragSt_init p, ?_, ?_, ?_⟩
  · simp [SC.init, List.all_replicate]
  · simp [SC.init, List.all_replicate]
  · simp [SC.init, List.all_replicate]

/-- on such states `SC.leaks` only looks at the Arc counts and the `tracks` table -/
theorem leaks_data3 {s : SC.St} (h : NoMsgs s) : SC.leaks s = (data3 s).leaks := by
  obtain ⟨h1, h2, h3⟩ := h
  have e1 : s.futs.any (·.wakers != 0) = false := by
    rw [List.any_eq_false]
    intro x hx
    have := List.all_eq_true.1 h1 x hx
    simpa using this
  have e2 : s.chan.any (!·.isEmpty) = false := by
    rw [List.any_eq_false]
    intro x hx
    have := List.all_eq_true.1 h2 x hx
    simpa using this
  have e3 : s.chanLeft.any (· != 0) = false := by
    rw [List.any_eq_false]
    intro x hx
    have := List.all_eq_true.1 h3 x hx
    simpa using this
  unfold SC.leaks SCData3.leaks
  rw [e1, e2, e3]
  simp only [Bool.false_or, Bool.or_false, data3, List.any_map]
  rfl

/-! ### `SC.enabled` on the data -/

theorem enabled_data3 {p : Prog} {s : SC.St} {t : Nat} (hv : s.verdict = none) (hf : FragTh (s.th t))
    (hop : ∀ op, SC.opOf p s t = some op → isFrag3 op = true) :
    SC.enabled p s t = SCData3.enabled p (data3 s) t := by
  unfold SC.enabled SCData3.enabled SCData.enabled
  rw [data3_base, data_opOf, data_th]
  simp only [hv, hf.1, hf.2.1, Option.isNone_none, Bool.true_and, dth]
  cases ho : SC.opOf p s t with
  | none => rfl
  | some op =>
    have := hop op ho
    cases op <;> simp only [isFrag3, isFrag, isArcOp, isTrkOp, Bool.or_false, Bool.false_eq_true] at this
    case join b => simp only [data_th, dth]
    all_goals rfl

/-! ### the lock-fragment steps do not touch the resource part of the state -/

theorem step_frames {p : Prog} {s s' : SC.St} {t : Nat} (hf : FragTh (s.th t))
    (hop : ∀ op, SC.opOf p s t = some op → isFrag op = true) (h : s' ∈ SC.step p s t) :
    resFrame s' = resFrame s ∧ msgFrame s' = msgFrame s := by
  unfold SC.step at h
  simp only [hf.2.1] at h
  cases ho : SC.opOf p s t with
  | none =>
    simp only [ho] at h
    have key : SC.finish p s t =
        [(if t == 0 then { s with lazyDropped := true } else s).modTh t fun h => { h with finished := true }] := by
      unfold SC.finish
      simp only [hf.2.2.1, hf.2.2.2, List.map_nil, List.contains_nil, List.filter_cons, List.filter_nil,
        Bool.false_eq_true, if_false, List.isEmpty_nil, if_true, SC.perms2, List.map_cons, List.foldl_nil]
      split
      · simp
      · rfl
    rw [key] at h
    simp only [List.mem_singleton] at h
    subst h
    split <;> exact ⟨rfl, rfl⟩
  | some op =>
    have hfr := hop op ho
    simp only [ho] at h
    cases op <;> simp only [isFrag, Bool.false_eq_true] at hfr
    all_goals
      simp only at h
      repeat' split at h
      all_goals
        simp only [List.mem_singleton] at h
        subst h
        exact ⟨rfl, rfl⟩

/-- the data of a state with the lock-fragment part of `s'` and the resource part of `s` -/
theorem data3_of_frame {s s' : SC.St} (h : resFrame s' = resFrame s) :
    data3 s' = (data3 s).withBase (data s') := by
  simp only [resFrame, Prod.mk.injEq] at h
  obtain ⟨h1, h2, h3⟩ := h
  simp only [data3, SCData3.withBase, data]
  rw [h1, h2, h3]

/-! ### the steps -/

theorem fragSt3_ret {s : SC.St} {t : Nat} {r : Ret} (hv : s.verdict = none) (hth : ∀ u, FragTh (s.th u))
    (hm : NoMsgs s) : FragSt3 (s.ret t r) :=
  ⟨⟨hv, fragTh_ret hth⟩, hm.of_frame rfl⟩

/-- **`SCData3.stepL` is the data of `SC.step`, unless `SC.step` stops with a race verdict** -/
theorem step_lift3 {p : Prog} {s : SC.St} {t : Nat} {l : Option (Nat × Ret)} {d' : SCData3}
    (hs : FragSt3 s) (h : (l, d') ∈ SCData3.stepL p (data3 s) t) :
    ∃ s', s' ∈ SC.step p s t ∧ ((FragSt3 s' ∧ data3 s' = d') ∨ ∃ k, s'.verdict = some (.race k)) := by
  obtain ⟨⟨hv, hth⟩, hm⟩ := hs
  have hft := hth t
  have hn := hft.2.1
  -- the lock fragment and the end of a thread
  have lock : ∀ (hfr : ∀ op, SC.opOf p s t = some op → isFrag op = true)
      (hl : (l, d') ∈ (SCData.stepL p (data3 s).base t).map fun x => (x.1, (data3 s).withBase x.2)),
      ∃ s', s' ∈ SC.step p s t ∧ ((FragSt3 s' ∧ data3 s' = d') ∨ ∃ k, s'.verdict = some (.race k)) := by
    intro hfr hl
    obtain ⟨⟨l', b⟩, hb, e⟩ := List.mem_map.1 hl
    simp only [Prod.mk.injEq] at e
    obtain ⟨rfl, rfl⟩ := e
    obtain ⟨s', hmem, hres⟩ := SC.step_lift (s := s) ⟨hv, hth⟩ hb
    obtain ⟨f1, f2⟩ := step_frames hft hfr hmem
    refine ⟨s', hmem, ?_⟩
    rcases hres with ⟨hfs, hd⟩ | hrace
    · exact .inl ⟨⟨hfs, hm.of_frame f2⟩, by rw [data3_of_frame f1, hd]⟩
    · exact .inr hrace
  have tick_th : ∀ u, FragTh ((s.tick t).th u) := fun u => fragTh_tick hth u
  cases ho : SC.opOf p s t with
  | none =>
    rw [SCData3.stepL, data3_opOf, ho] at h
    exact lock (by intro op e; rw [ho] at e; cases e) h
  | some op =>
    unfold SCData3.stepL at h
    rw [data3_opOf, ho, data3_th] at h
    cases op
    case arcNew hd =>
      simp only [List.mem_singleton, Prod.mk.injEq] at h
      obtain ⟨_, rfl⟩ := h
      refine ⟨_, by unfold SC.step; simp only [hn, ho]; exact List.mem_singleton.2 rfl, .inl ⟨?_, ?_⟩⟩
      · exact fragSt3_ret (s := { s.tick t with arcs := _, handles := _ }) hv tick_th (hm.of_frame rfl)
      · rw [data3_ret, data3_set, data3_tick]
        simp [data3, SCData3.bind]
        rfl
    case arcClone hd h2 =>
      simp only at h
      cases ha : SCData3.arcOf (data3 s) hd with
      | none => rw [ha] at h; cases h
      | some a =>
        rw [ha] at h
        simp only [List.mem_singleton, Prod.mk.injEq] at h
        obtain ⟨_, rfl⟩ := h
        refine ⟨_, by rw [C11.step_arcClone p s t hd a h2 hn ho ha]; exact List.mem_singleton.2 rfl, .inl ⟨?_, ?_⟩⟩
        · exact fragSt3_ret (s := { s.tick t with arcs := _, handles := _ }) hv tick_th (hm.of_frame rfl)
        · rw [data3_ret, data3_set, data3_tick]
          simp only [List.map_set, data3, getD_map_fst, SCData3.bind]
          rfl
    case arcInc hd =>
      simp only at h
      cases ha : SCData3.arcOf (data3 s) hd with
      | none => rw [ha] at h; cases h
      | some a =>
        rw [ha] at h
        simp only [List.mem_singleton, Prod.mk.injEq] at h
        obtain ⟨_, rfl⟩ := h
        refine ⟨_, by rw [C11.step_arcInc p s t hd a hn ho ha]; exact List.mem_singleton.2 rfl, .inl ⟨?_, ?_⟩⟩
        · exact fragSt3_ret (s := { s.tick t with arcs := _ }) hv tick_th (hm.of_frame rfl)
        · rw [data3_ret]
          show SCData3.ret (data3 { s.tick t with arcs := _, handles := s.handles, tracks := s.tracks }) _ _ = _
          rw [data3_set, data3_tick]
          simp only [List.map_set, data3, getD_map_fst]
    case arcCount hd =>
      simp only at h
      cases ha : SCData3.arcOf (data3 s) hd with
      | none => rw [ha] at h; cases h
      | some a =>
        rw [ha] at h
        simp only [List.mem_singleton, Prod.mk.injEq] at h
        obtain ⟨_, rfl⟩ := h
        refine ⟨_, by rw [C11.step_arcCount p s t hd a hn ho ha]; exact List.mem_singleton.2 rfl, .inl ⟨?_, ?_⟩⟩
        · exact fragSt3_ret hv tick_th (hm.of_frame rfl)
        · rw [data3_ret, data3_tick]
          simp only [data3, getD_map_fst, C11.scCount]
    case arcGetMut hd =>
      simp only at h
      cases ha : SCData3.arcOf (data3 s) hd with
      | none => rw [ha] at h; cases h
      | some a =>
        rw [ha] at h
        simp only [List.mem_singleton, Prod.mk.injEq] at h
        obtain ⟨_, rfl⟩ := h
        have hc : (data3 s).arcs.getD a 0 = C11.scCount s a := by simp only [data3, getD_map_fst, C11.scCount]
        rw [hc]
        by_cases h1 : C11.scCount s a = 1
        · refine ⟨_, by rw [C11.step_arcGetMut p s t hd a hn ho ha, if_pos h1]; exact List.mem_singleton.2 rfl,
            .inl ⟨?_, ?_⟩⟩
          · exact fragSt3_ret hv (fun u => fragTh_acquire tick_th u) (hm.of_frame rfl)
          · rw [data3_ret, data3_acquire, data3_tick, h1]; rfl
        · refine ⟨_, by rw [C11.step_arcGetMut p s t hd a hn ho ha, if_neg h1]; exact List.mem_singleton.2 rfl,
            .inl ⟨?_, ?_⟩⟩
          · exact fragSt3_ret hv tick_th (hm.of_frame rfl)
          · rw [data3_ret, data3_tick]
            have : (C11.scCount s a == 1) = false := by simpa using h1
            rw [this]
    case arcUnwrap hd =>
      simp only at h
      cases ha : SCData3.arcOf (data3 s) hd with
      | none => rw [ha] at h; cases h
      | some a =>
        rw [ha] at h
        simp only at h
        have hc : (data3 s).arcs.getD a 0 = C11.scCount s a := by simp only [data3, getD_map_fst, C11.scCount]
        rw [hc] at h
        by_cases h1 : C11.scCount s a = 1
        · rw [if_pos (by rw [h1]; rfl)] at h
          simp only [List.mem_singleton, Prod.mk.injEq] at h
          obtain ⟨_, rfl⟩ := h
          refine ⟨_, by rw [C11.step_arcUnwrap p s t hd a hn ho ha, if_pos h1]; exact List.mem_singleton.2 rfl,
            .inl ⟨?_, ?_⟩⟩
          · exact fragSt3_ret hv (fun u => fragTh_acquire (s := { s.tick t with arcs := _, handles := _ }) tick_th u)
              (hm.of_frame rfl)
          · rw [data3_ret, data3_acquire, data3_set, data3_tick]
            simp only [List.map_set, data3, SCData3.unbind]
            rfl
        · rw [if_neg (by simpa using h1)] at h
          simp only [List.mem_singleton, Prod.mk.injEq] at h
          obtain ⟨_, rfl⟩ := h
          refine ⟨_, by rw [C11.step_arcUnwrap p s t hd a hn ho ha, if_neg h1]; exact List.mem_singleton.2 rfl,
            .inl ⟨?_, ?_⟩⟩
          · exact fragSt3_ret hv tick_th (hm.of_frame rfl)
          · rw [data3_ret, data3_tick]
    case arcPtrEq hd h2 =>
      simp only [List.mem_singleton, Prod.mk.injEq] at h
      obtain ⟨_, rfl⟩ := h
      refine ⟨_, by rw [C11.step_arcPtrEq p s t hd h2 hn ho]; exact List.mem_singleton.2 rfl, .inl ⟨?_, ?_⟩⟩
      · exact fragSt3_ret hv tick_th (hm.of_frame rfl)
      · rw [data3_ret, data3_tick]; rfl
    case arcIntoRaw hd =>
      simp only [List.mem_singleton, Prod.mk.injEq] at h
      obtain ⟨_, rfl⟩ := h
      refine ⟨_, by unfold SC.step; simp only [hn, ho]; exact List.mem_singleton.2 rfl, .inl ⟨?_, ?_⟩⟩
      · exact fragSt3_ret hv tick_th (hm.of_frame rfl)
      · rw [data3_ret, data3_tick]
    case arcFromRaw hd =>
      simp only [List.mem_singleton, Prod.mk.injEq] at h
      obtain ⟨_, rfl⟩ := h
      refine ⟨_, by unfold SC.step; simp only [hn, ho]; exact List.mem_singleton.2 rfl, .inl ⟨?_, ?_⟩⟩
      · exact fragSt3_ret hv tick_th (hm.of_frame rfl)
      · rw [data3_ret, data3_tick]
    case arcDrop hd =>
      simp only at h
      cases ha : SCData3.arcOf (data3 s) hd with
      | none => rw [ha] at h; cases h
      | some a =>
        rw [ha] at h
        simp only at h
        cases hx : s.arcs[a]? with
        | none =>
          have : (data3 s).arcs[a]? = none := by simp [data3, hx]
          rw [this] at h; cases h
        | some x =>
          obtain ⟨n, rel⟩ := x
          have hx' : (s.tick t).arcs[a]? = some (n, rel) := hx
          have : (data3 s).arcs[a]? = some n := by simp [data3, hx]
          rw [this] at h
          simp only at h
          by_cases h0 : n = 0
          · rw [if_pos (by rw [h0]; rfl)] at h; cases h
          · rw [if_neg (by simpa using h0)] at h
            simp only [List.mem_singleton, Prod.mk.injEq] at h
            obtain ⟨_, rfl⟩ := h
            refine ⟨_, by rw [C11.step_arcDrop p s t hd a hn ho ha]; exact List.mem_singleton.2 rfl, ?_⟩
            rw [C11.arcDec_eq _ t a n rel hx', if_neg h0]
            by_cases h1 : n = 1
            · simp only [h1, if_true]
              refine .inl ⟨?_, ?_⟩
              · exact fragSt3_ret (s := { (SC.St.acquire _ t _) with handles := _ }) hv
                  (fun u => fragTh_acquire (s := { s.tick t with arcs := _ }) tick_th u) (hm.of_frame rfl)
              · simp only [data3_ret, data3_handles, data3_acquire, data3_arcs, data3_tick, List.map_set]
                rfl
            · simp only [h1, if_false]
              refine .inl ⟨?_, ?_⟩
              · exact fragSt3_ret (s := { s.tick t with arcs := _, handles := _ }) hv tick_th (hm.of_frame rfl)
              · rw [data3_ret, data3_set, data3_tick]
                have : (n == 1) = false := by simpa using h1
                simp only [List.map_set, data3, SCData3.unbind, this, decide_false]
                rfl
    case arcDec hd =>
      simp only at h
      cases ha : SCData3.arcOf (data3 s) hd with
      | none => rw [ha] at h; cases h
      | some a =>
        rw [ha] at h
        simp only at h
        cases hx : s.arcs[a]? with
        | none =>
          have : (data3 s).arcs[a]? = none := by simp [data3, hx]
          rw [this] at h; cases h
        | some x =>
          obtain ⟨n, rel⟩ := x
          have hx' : (s.tick t).arcs[a]? = some (n, rel) := hx
          have : (data3 s).arcs[a]? = some n := by simp [data3, hx]
          rw [this] at h
          simp only at h
          by_cases h0 : n = 0
          · rw [if_pos (by rw [h0]; rfl)] at h; cases h
          · rw [if_neg (by simpa using h0)] at h
            simp only [List.mem_singleton, Prod.mk.injEq] at h
            obtain ⟨_, rfl⟩ := h
            refine ⟨_, by rw [C11.step_arcDec p s t hd a hn ho ha]; exact List.mem_singleton.2 rfl, ?_⟩
            rw [C11.arcDec_eq _ t a n rel hx', if_neg h0]
            by_cases h1 : n = 1
            · simp only [h1, if_true]
              refine .inl ⟨?_, ?_⟩
              · exact fragSt3_ret hv
                  (fun u => fragTh_acquire (s := { s.tick t with arcs := _ }) tick_th u) (hm.of_frame rfl)
              · rw [data3_ret, data3_acquire]
                show SCData3.ret (data3 { s.tick t with arcs := _, handles := s.handles, tracks := s.tracks }) _ _ = _
                rw [data3_set, data3_tick]
                simp only [List.map_set, data3, decide_true]
                rfl
            · simp only [h1, if_false]
              refine .inl ⟨?_, ?_⟩
              · exact fragSt3_ret (s := { s.tick t with arcs := _ }) hv tick_th (hm.of_frame rfl)
              · rw [data3_ret]
                show SCData3.ret (data3 { s.tick t with arcs := _, handles := s.handles, tracks := s.tracks }) _ _ = _
                rw [data3_set, data3_tick]
                have : (n == 1) = false := by simpa using h1
                simp only [List.map_set, data3, this, decide_false]
                rfl
    case trackNew k =>
      simp only [List.mem_singleton, Prod.mk.injEq] at h
      obtain ⟨_, rfl⟩ := h
      refine ⟨_, by unfold SC.step; simp only [hn, ho]; exact List.mem_singleton.2 rfl, .inl ⟨?_, ?_⟩⟩
      · exact fragSt3_ret (s := { s.tick t with tracks := _ }) hv tick_th (hm.of_frame rfl)
      · rw [data3_ret, data3_tracks, data3_tick]; rfl
    case alloc k =>
      simp only [List.mem_singleton, Prod.mk.injEq] at h
      obtain ⟨_, rfl⟩ := h
      refine ⟨_, by unfold SC.step; simp only [hn, ho]; exact List.mem_singleton.2 rfl, .inl ⟨?_, ?_⟩⟩
      · exact fragSt3_ret (s := { s.tick t with tracks := _ }) hv tick_th (hm.of_frame rfl)
      · rw [data3_ret, data3_tracks, data3_tick]; rfl
    case trackDrop k =>
      simp only [List.mem_singleton, Prod.mk.injEq] at h
      obtain ⟨_, rfl⟩ := h
      refine ⟨_, by unfold SC.step; simp only [hn, ho]; exact List.mem_singleton.2 rfl, .inl ⟨?_, ?_⟩⟩
      · exact fragSt3_ret (s := { s.tick t with tracks := _ }) hv tick_th (hm.of_frame rfl)
      · rw [data3_ret, data3_tracks, data3_tick]; rfl
    case dealloc k =>
      simp only [List.mem_singleton, Prod.mk.injEq] at h
      obtain ⟨_, rfl⟩ := h
      refine ⟨_, by unfold SC.step; simp only [hn, ho]; exact List.mem_singleton.2 rfl, .inl ⟨?_, ?_⟩⟩
      · exact fragSt3_ret (s := { s.tick t with tracks := _ }) hv tick_th (hm.of_frame rfl)
      · rw [data3_ret, data3_tracks, data3_tick]; rfl
    all_goals
      first
        | exact lock (by intro op e; rw [ho] at e; cases e; rfl) h
        | (simp only [SCData.stepL, SCData3.base_opOf, data3_opOf, ho, List.map_nil, List.not_mem_nil] at h)

/-- the operations of a program: all of them in the resource fragment -/
def FragProg3 (p : Prog) : Prop :=
  ∀ (a k : Nat) (op : Op), (p.threads.getD a [])[k]? = some op → isFrag3 op = true

theorem WF3.fragProg {p : Prog} (h : WF3 p) : FragProg3 p := by
  intro a k op hop
  have := h.opOk hop
  unfold isFrag3
  unfold opOk3 at this
  cases op <;> first | rfl | (simp [Refine.opOk, isArcOp, isTrkOp] at this)

/-- **a run of the data semantics is the data of an execution of `Spec/SC.lean`**, or a prefix of it is an
execution that ends in a data-race verdict -/
theorem Run.lift3 {p : Prog} (hp : FragProg3 p) {tr : List (Nat × Nat × Ret)} {d : SCData3}
    (h : SCData3.Run p (data3 (SC.init p)) tr d) :
    ∃ s, SCExec p (SC.init p) s ∧ ((FragSt3 s ∧ data3 s = d) ∨ ∃ k, s.verdict = some (.race k)) := by
  generalize hd0 : data3 (SC.init p) = d0 at h
  induction h with
  | nil => exact ⟨SC.init p, .nil _, .inl ⟨fragSt3_init p, hd0⟩⟩
  | step hrun hen hst ih =>
    rename_i t _
    obtain ⟨s1, hex, hcase⟩ := ih
    rcases hcase with ⟨hfs, hdata⟩ | hrace
    · subst hdata
      obtain ⟨s2, hmem, hres⟩ := step_lift3 hfs hst
      have hen' : SC.enabled p s1 t = true := by
        rw [enabled_data3 hfs.1.1 (hfs.1.2 t) (fun op ho => hp _ _ _ ho)]
        exact hen
      exact ⟨s2, .step hex hen' hmem, hres⟩
    · exact ⟨s1, hex, .inr hrace⟩

/-! ### programs without cells have no data races -/

def isCellOp : Op → Bool
  | .cellRead _ | .cellWrite .. => true
  | _ => false

/-- the program text has no `cellRead` / `cellWrite` -/
def NoCells (p : Prog) : Prop := ∀ op ∈ allOps p, isCellOp op = false

instance (p : Prog) : Decidable (NoCells p) := by unfold NoCells; infer_instance

/-- a step of a resource-fragment operation other than a cell access never ends in a race verdict -/
theorem step_no_race {p : Prog} {s s' : SC.St} {t : Nat} (hv : s.verdict = none) (hf : FragTh (s.th t))
    (hop : ∀ op, SC.opOf p s t = some op → isFrag3 op = true ∧ isCellOp op = false)
    (h : s' ∈ SC.step p s t) (k : Nat) : s'.verdict ≠ some (.race k) := by
  unfold SC.step at h
  simp only [hf.2.1] at h
  cases ho : SC.opOf p s t with
  | none =>
    simp only [ho] at h
    have key : SC.finish p s t =
        [(if t == 0 then { s with lazyDropped := true } else s).modTh t fun h => { h with finished := true }] := by
      unfold SC.finish
      simp only [hf.2.2.1, hf.2.2.2, List.map_nil, List.contains_nil, List.filter_cons, List.filter_nil,
        Bool.false_eq_true, if_false, List.isEmpty_nil, if_true, SC.perms2, List.map_cons, List.foldl_nil]
      split
      · simp
      · rfl
    rw [key] at h
    simp only [List.mem_singleton] at h
    subst h
    have : ((if t == 0 then { s with lazyDropped := true } else s).modTh t fun h =>
        { h with finished := true }).verdict = s.verdict := by
      simp only [verdict_modTh]; split <;> rfl
    rw [this, hv]
    intro e; cases e
  | some op =>
    obtain ⟨hfr, hnc⟩ := hop op ho
    simp only [ho] at h
    cases op <;> simp only [isFrag3, isFrag, isArcOp, isTrkOp, isCellOp, Bool.or_false, Bool.false_eq_true] at hfr hnc
    all_goals
      simp only [SC.arcDec] at h
      repeat' split at h
      all_goals
        simp only [List.mem_singleton] at h
        subst h
        first
          | (cases hnc; done)
          | (show s.verdict ≠ _; rw [hv]; intro e; cases e)
          | (intro e; cases e)

/-- … so for such an operation the data step is the data of `SC.step`, without the race alternative -/
theorem step_lift3_nocell {p : Prog} {s : SC.St} {t : Nat} {l : Option (Nat × Ret)} {d' : SCData3}
    (hs : FragSt3 s) (hop : ∀ op, SC.opOf p s t = some op → isFrag3 op = true ∧ isCellOp op = false)
    (h : (l, d') ∈ SCData3.stepL p (data3 s) t) :
    ∃ s', s' ∈ SC.step p s t ∧ FragSt3 s' ∧ data3 s' = d' := by
  obtain ⟨s', hmem, hres⟩ := step_lift3 hs h
  rcases hres with hl | ⟨k, hk⟩
  · exact ⟨s', hmem, hl⟩
  · exact absurd hk (step_no_race hs.1.1 (hs.1.2 t) hop hmem k)

theorem Run.lift3_nocell {p : Prog} (hp : FragProg3 p) (hc : NoCells p) {tr : List (Nat × Nat × Ret)}
    {d : SCData3} (h : SCData3.Run p (data3 (SC.init p)) tr d) :
    ∃ s, SCExec p (SC.init p) s ∧ FragSt3 s ∧ data3 s = d := by
  generalize hd0 : data3 (SC.init p) = d0 at h
  induction h with
  | nil => exact ⟨SC.init p, .nil _, fragSt3_init p, hd0⟩
  | step hrun hen hst ih =>
    rename_i t _
    obtain ⟨s1, hex, hfs, hdata⟩ := ih
    subst hdata
    obtain ⟨s2, hmem, hres⟩ := step_lift3_nocell hfs
      (fun op ho => ⟨hp _ _ _ ho, hc op (mem_allOps ho)⟩) hst
    have hen' : SC.enabled p s1 t = true := by
      rw [enabled_data3 hfs.1.1 (hfs.1.2 t) (fun op ho => hp _ _ _ ho)]
      exact hen
    exact ⟨s2, .step hex hen' hmem, hres⟩

end Refine3
end LoomVerif

/-
Deadlock soundness, WAIT fragment, part 12: `park`, `unpark` and the condvar (`cvWait`, `cvOne`, `cvAll`).
-/
import LoomVerif.Proofs.Deadlock2Ops5

namespace LoomVerif
namespace Deadlock2
open Refine Refine2 Sy Deadlock C07 C08

section
variable {w w' : World} {s : SCData2}

/-! ### `park`, `unpark` -/

theorem opAt_park {p : Prog} {sp : List (Nat × Nat × Nat)} {i : Nat} {c : TCtl} {k : Nat}
    (hop : opOfCtl p c = some .park) : OpAt p sp i { c with stage := k } none := by
  have hop' : opOfCtl p { c with stage := k } = some .park := hop
  unfold OpAt; rw [hop']

theorem step_park (c : Ctx w s) (hop : opAt2 w = some .park)
    (h : w.runOp (w.ctlOf w.tid) .park = .ok w') : Res w w' := by
  have hop' : opOfCtl w.prog (w.ctlOf w.tid) = some .park := hop
  rw [runOp_park] at h
  split at h
  · cases htok : (w.ths.get w.tid).token with
    | true =>
      have htok' : (w.setStage 1).ths.activeT.token = true := htok
      rw [parkNow_token htok'] at h
      cases h
      refine Res.local (JB2.quiet (g := fun c => { c with stage := 1 }) c.j c.act c.run rfl rfl rfl rfl ?_ ?_
        (fun i n v hv _ => ⟨v, hv, .inl rfl⟩) ?_) rfl c.active
      · show ((w.ths.modifyActive _).get w.tid).state = _
        unfold Threads.modifyActive
        rw [WB.get_modify]
        split <;> rfl
      · intro i _ e
        show Same4 _ ((w.ths.modifyActive _).get i)
        unfold Threads.modifyActive
        rw [WB.get_modify, if_neg (fun hh => e hh.1.symm)]
        exact Same4.refl _
      · exact c.j.jnd.modify (g := fun c => { c with stage := 1 }) c.act rfl rfl rfl rfl (Nat.le_refl _)
          (fun _ h => h) (fun b i n _ a d hv => ⟨a, d, hv⟩)
    | false =>
      have htok' : (w.setStage 1).ths.activeT.token = false := htok
      rw [park_point _ htok'] at h
      obtain ⟨x, hx, rfl⟩ := bind_pure_ok h
      refine JB2.point (g := fun c => { c with stage := 1 }) c.j c.hin c.act hx rfl rfl rfl rfl rfl rfl id ?_
      refine ⟨fun _ => ?_, fun ht => (by cases ht), fun _ => opAt_park hop'⟩
      exact .park hop' rfl rfl rfl htok
  · cases h
    exact quiet_complete c _ rfl rfl rfl rfl rfl c.active rfl (fun i _ _ => Same4.refl _)
      (fun i n v hv _ => ⟨v, hv, .inl rfl⟩) (fun b i n _ a d hv => ⟨a, d, hv⟩)

theorem step_unpark (c : Ctx w s) {b : Nat} (h : w.runOp (w.ctlOf w.tid) (.unpark b) = .ok w') : Res w w' := by
  rw [runOp_unpark] at h
  obtain ⟨t, _, h⟩ := Refine.bind_ok h
  simp only [pure, Except.pure] at h
  cases h
  have hjnd : Jnd ((w.setThs (w.ths.unpark t)).complete .unit) :=
    Jnd.complete c .unit rfl (unpark_activeId _ _) rfl rfl (fun b i n _ a d hv => ⟨a, d, hv⟩)
  have hctl : ((w.setThs (w.ths.unpark t)).complete .unit).ctl = w.ctl.modify w.tid (completeF .unit) := by
    rw [ctl_complete']
    show w.ctl.modify (w.ths.unpark t).activeId _ = _
    rw [unpark_activeId]; rfl
  have hactv : ((w.setThs (w.ths.unpark t)).complete .unit).ths.isActive = true := by
    show (w.ths.unpark t).isActive = true
    have : (w.ths.unpark t).active = w.ths.active := by
      unfold Threads.unpark; split <;> rfl
    unfold Threads.isActive; rw [this]; exact c.active
  refine Res.local (JB2.target_step (g := completeF .unit)
    (G := fun i th => if i = t then th.unpark w.ths.activeT else th) c.j c.act c.run rfl rfl
    (unpark_activeId _ _) hctl ?_ ?_ ?_ ?_ ?_ (fun i n v _ hv _ => ⟨v, hv, .inl rfl⟩) hjnd) rfl hactv
  · show ((w.ths.unpark t).get w.tid).state = _
    by_cases e : t = w.tid
    · subst e
      rw [(unpark_get_fields w.ths w.tid c.hin).1]
      exact (setUnparked_state_of_not_parked c.unp).1
    · have ht : t ≠ w.ths.activeId := e
      rw [unpark_other ht]
      exact congrArg Thread.state (C08.get_modify_ne w.ths _ _ _ (fun e' => e e'.symm))
  · intro i hi e
    show (w.ths.unpark t).get i = _
    have hil : i < w.exec.threads.threads.length := by rw [← c.r.lenCtl]; exact hi
    by_cases et : t = w.tid
    · subst et
      rw [if_neg e]
      show (w.ths.unpark w.ths.activeId).get i = _
      rw [unpark_self]
      unfold Threads.modifyActive
      exact C08.get_modify_ne w.ths _ _ _ e
    · have ht : t ≠ w.ths.activeId := et
      rw [unpark_other ht]
      by_cases ei : i = t
      · subst ei
        rw [if_pos rfl]
        exact C08.get_modify_self w.ths i _ hil
      · rw [if_neg ei]
        exact C08.get_modify_ne w.ths _ _ _ ei
  · intro i th; split
    · exact unpark_operation _ _
    · rfl
  · intro i th; split
    · exact unpark_terminated
    · exact id
  · intro i th; split
    · exact unpark_blocked
    · intro hb; exact ⟨hb, rfl, fun _ => rfl⟩

/-! ### the condvar -/

theorem opAt_cv1 {p : Prog} {sp : List (Nat × Nat × Nat)} {i : Nat} {c : TCtl} {op : Op} {v : Nat}
    (hop : opOfCtl p c = some op) (hk : (∃ m, op = .cvWait v m) ∨ op = .cvOne v ∨ op = .cvAll v) :
    OpAt p sp i { c with stage := 1 } (some ⟨cvIdx p v, .opaque, false⟩) := by
  have hop' : opOfCtl p { c with stage := 1 } = some op := hop
  unfold OpAt; rw [hop']
  rcases hk with ⟨m, rfl⟩ | rfl | rfl <;> simp

theorem step_cvOne (c : Ctx w s) {vi : Nat} (hv : vi < w.prog.cfg.nCondvars)
    (hop : opAt2 w = some (.cvOne vi)) (h : w.runOp (w.ctlOf w.tid) (.cvOne vi) = .ok w') : Res w w' := by
  obtain ⟨cs, hobj⟩ := cv_obj c.r hv
  have hview : objView2 w.exec.objs (w.cvObj vi) = some (.condvar cs.waiters) := objView2_of hobj
  by_cases hs0 : (w.ctlOf w.tid).stage = 0
  · rw [runOp_cvOne] at h
    simp only [hs0, beq_self_eq_true, if_true] at h
    exact branch_stage (g := fun c => { c with stage := 1 }) c h rfl rfl id
      (opAt_cv1 (show opOfCtl w.prog (w.ctlOf w.tid) = _ from hop) (.inr (.inl rfl))) (by intro hb; cases hb)
  · cases hw : cs.waiters with
    | nil =>
      rw [cvOne_empty hobj hs0 hw] at h
      cases h
      exact quiet_complete c _ rfl rfl rfl rfl rfl c.active rfl (fun i _ _ => Same4.refl _)
        (fun i n v hv _ => ⟨v, hv, .inl rfl⟩) (fun b i n _ a d hv => ⟨a, d, hv⟩)
    | cons t rest =>
      rw [cvOne_first hobj hs0 hw] at h
      cases h
      have hjnd : Jnd (((w.setObj (w.cvObj vi) (.condvar { cs with waiters := rest })).setThs
          (w.ths.wake t)).complete .unit) := by
        refine Jnd.complete c .unit rfl (wake_activeId _ _) rfl rfl ?_
        intro b i n _ a d hvn
        exact nv_set hview (by intro a d e; cases e) n a d hvn
      have hctl : (((w.setObj (w.cvObj vi) (.condvar { cs with waiters := rest })).setThs
          (w.ths.wake t)).complete .unit).ctl = w.ctl.modify w.tid (completeF .unit) := by
        rw [ctl_complete']
        show w.ctl.modify (w.ths.wake t).activeId _ = _
        rw [wake_activeId]; rfl
      have hactv : (((w.setObj (w.cvObj vi) (.condvar { cs with waiters := rest })).setThs
          (w.ths.wake t)).complete .unit).ths.isActive = true := by
        show (w.ths.wake t).isActive = true
        unfold Threads.isActive; rw [wake_active]; exact c.active
      refine Res.local (JB2.target_step (g := completeF .unit)
        (G := fun i th => if i = t then th.wakeFrom w.ths.activeT else th) c.j c.act c.run rfl rfl
        (wake_activeId _ _) hctl ?_ ?_ ?_ ?_ ?_ ?_ hjnd) rfl hactv
      · show ((w.ths.wake t).get w.tid).state = _
        by_cases e : t = w.tid
        · subst e
          show ((w.ths.wake w.ths.activeId).get w.ths.activeId).state = _
          rw [wake_self]; rfl
        · have ht : t ≠ w.ths.activeId := e
          rw [wake_other ht]
          exact congrArg Thread.state (C08.get_modify_ne w.ths _ _ _ (fun e' => e e'.symm))
      · intro i hi e
        show (w.ths.wake t).get i = _
        have hil : i < w.exec.threads.threads.length := by rw [← c.r.lenCtl]; exact hi
        by_cases et : t = w.tid
        · subst et
          rw [if_neg e]
          show (w.ths.wake w.ths.activeId).get i = _
          rw [wake_self]
        · have ht : t ≠ w.ths.activeId := et
          rw [wake_other ht]
          by_cases ei : i = t
          · subst ei
            rw [if_pos rfl]
            exact C08.get_modify_self w.ths i _ hil
          · rw [if_neg ei]
            exact C08.get_modify_ne w.ths _ _ _ ei
      · intro i th; split
        · exact wakeFrom_operation _ _
        · rfl
      · intro i th; split
        · exact wakeFrom_terminated
        · exact id
      · intro i th; split
        · intro hb
          obtain ⟨h1, h2, h3⟩ := wakeFrom_blocked hb
          exact ⟨h1, h3, fun _ => wakeFrom_token _ _⟩
        · intro hb; exact ⟨hb, rfl, fun _ => rfl⟩
      · intro i n v hb hvn hst
        show ∃ v', objView2 (w.exec.objs.set (w.cvObj vi) _) n = some v' ∧ _
        refine vkeep_set hview (fun _ => .inr (.inl ⟨cs.waiters, rest, rfl, rfl, fun hnp hi => ?_⟩)) n v hvn hst
        rw [hw] at hi
        by_cases ei : i = t
        · subst ei
          rw [if_pos rfl] at hb
          have := (wakeFrom_blocked hb).2.1
          rw [this] at hnp; cases hnp
        · rcases List.mem_cons.1 hi with e | e
          · exact absurd e ei
          · exact e

theorem step_cvAll (c : Ctx w s) {vi : Nat} (hv : vi < w.prog.cfg.nCondvars)
    (hop : opAt2 w = some (.cvAll vi)) (h : w.runOp (w.ctlOf w.tid) (.cvAll vi) = .ok w') : Res w w' := by
  obtain ⟨ws, hvw, _, hnd, _⟩ := c.r.o.cv.q vi hv
  obtain ⟨cs, hobj, hws⟩ := objView2_condvar hvw
  have hobj' : w.exec.objs[w.cvObj vi]? = some (.condvar cs) := hobj
  have hview : objView2 w.exec.objs (w.cvObj vi) = some (.condvar cs.waiters) := objView2_of hobj'
  have hnd' : cs.waiters.Nodup := by rw [hws]; exact hnd
  by_cases hs0 : (w.ctlOf w.tid).stage = 0
  · rw [runOp_cvAll] at h
    simp only [hs0, beq_self_eq_true, if_true] at h
    exact branch_stage (g := fun c => { c with stage := 1 }) c h rfl rfl id
      (opAt_cv1 (show opOfCtl w.prog (w.ctlOf w.tid) = _ from hop) (.inr (.inr rfl))) (by intro hb; cases hb)
  · rw [cvAll_eq hobj' hs0] at h
    cases h
    obtain ⟨hf1, hf2⟩ := foldl_wake cs.waiters w.ths hnd'
    have hfa : (cs.waiters.foldl (fun ths t => ths.wake t) w.ths).activeId = w.ths.activeId :=
      (foldl_wake_len _ _).2
    have hjnd : Jnd (((w.setObj (w.cvObj vi) (.condvar { cs with waiters := [] })).setThs
        (cs.waiters.foldl (fun ths t => ths.wake t) w.ths)).complete .unit) := by
      refine Jnd.complete c .unit rfl hfa rfl rfl ?_
      intro b i n _ a d hvn
      exact nv_set hview (by intro a d e; cases e) n a d hvn
    have hact' : (cs.waiters.foldl (fun ths t => ths.wake t) w.ths).isActive = true := by
      have : ∀ (l : List Nat) (s : Threads), (l.foldl (fun ths t => ths.wake t) s).active = s.active := by
        intro l
        induction l with
        | nil => intro s; rfl
        | cons a l ih => intro s; simp only [List.foldl_cons]; rw [ih, wake_active]
      unfold Threads.isActive; rw [this]; exact c.active
    have hctl : (((w.setObj (w.cvObj vi) (.condvar { cs with waiters := [] })).setThs
        (cs.waiters.foldl (fun ths t => ths.wake t) w.ths)).complete .unit).ctl =
        w.ctl.modify w.tid (completeF .unit) := by
      rw [ctl_complete']
      show w.ctl.modify (List.foldl _ w.ths cs.waiters).activeId _ = _
      rw [hfa]; rfl
    refine Res.local (JB2.target_step (g := completeF .unit)
      (G := fun i th => if i ∈ cs.waiters then th.wakeFrom w.ths.activeT else th) c.j c.act c.run rfl rfl
      hfa hctl ?_ ?_ ?_ ?_ ?_ ?_ hjnd) rfl hact'
    · show ((List.foldl _ w.ths cs.waiters).get w.tid).state = _
      rw [hf2 w.tid (.inr rfl)]
    · intro i hi e
      show (List.foldl _ w.ths cs.waiters).get i = _
      have hil : i < w.exec.threads.threads.length := by rw [← c.r.lenCtl]; exact hi
      by_cases hm : i ∈ cs.waiters
      · rw [if_pos hm]
        exact hf1 i hm e hil
      · rw [if_neg hm]
        exact hf2 i (.inl hm)
    · intro i th; split
      · exact wakeFrom_operation _ _
      · rfl
    · intro i th; split
      · exact wakeFrom_terminated
      · exact id
    · intro i th; split
      · intro hb
        obtain ⟨h1, h2, h3⟩ := wakeFrom_blocked hb
        exact ⟨h1, h3, fun _ => wakeFrom_token _ _⟩
      · intro hb; exact ⟨hb, rfl, fun _ => rfl⟩
    · intro i n v hb hvn hst
      show ∃ v', objView2 (w.exec.objs.set (w.cvObj vi) _) n = some v' ∧ _
      refine vkeep_set hview (fun _ => .inr (.inl ⟨cs.waiters, [], rfl, rfl, fun hnp hi => ?_⟩)) n v hvn hst
      rw [if_pos hi] at hb
      have := (wakeFrom_blocked hb).2.1
      rw [this] at hnp; cases hnp

theorem step_cvWait (c : Ctx w s) {vi mi : Nat} (hv : vi < w.prog.cfg.nCondvars) (hm : mi < w.prog.cfg.nMutexes)
    (hop : opAt2 w = some (.cvWait vi mi)) (h : w.runOp (w.ctlOf w.tid) (.cvWait vi mi) = .ok w') :
    Res w w' := by
  obtain ⟨cs, hobj⟩ := cv_obj c.r hv
  obtain ⟨ms, hmobj⟩ := mutex_obj c.r hm
  have hview : objView2 w.exec.objs (w.cvObj vi) = some (.condvar cs.waiters) := objView2_of hobj
  have hmview : objView2 w.exec.objs (mutexIdx w.prog mi) = some (.mutex ms.lock) := objView2_of hmobj
  have hop' : opOfCtl w.prog (w.ctlOf w.tid) = some (.cvWait vi mi) := hop
  obtain ⟨_, hrel, _⟩ := base2 c.r c.act
  have hst3 : (w.ctlOf w.tid).stage ≤ 3 := by
    have := hrel.2.2.2.2.1
    rw [show opOfCtl w.prog (w.ctlOf w.tid) = some (.cvWait vi mi) from hop] at this
    exact this
  have hcases : (w.ctlOf w.tid).stage = 0 ∨ (w.ctlOf w.tid).stage = 1 ∨ (w.ctlOf w.tid).stage = 2 ∨
      (w.ctlOf w.tid).stage = 3 := by omega
  rcases hcases with hs | hs | hs | hs
  · rw [runOp_cvWait, hs] at h
    exact branch_stage (g := fun c => { c with stage := 1 }) c h rfl rfl id
      (opAt_cv1 hop' (.inl ⟨mi, rfl⟩)) (by intro hb; cases hb)
  · -- enqueue, release the mutex, block
    rw [cvWait_stage1 hobj hs] at h
    obtain ⟨w2, hrl, h⟩ := Refine.bind_ok h
    let wA : World := w.setObj (w.cvObj vi) (.condvar { cs with waiters := cs.waiters ++ [w.tid] })
    have hJA : JB2 wA := by
      refine JB2.quiet (g := id) c.j c.act c.run rfl rfl rfl
        (by show w.ctl = _; rw [modify_id' _ _ id (fun _ => rfl)]) rfl (fun i _ _ => Same4.refl _) ?_ ?_
      · intro i
        show ∀ n v, _ → _ → ∃ v', objView2 (w.exec.objs.set (w.cvObj vi) _) n = some v' ∧ _
        exact vkeep_set hview (fun _ => .inr (.inl ⟨cs.waiters, cs.waiters ++ [w.tid], rfl, rfl,
          fun _ hi => List.mem_append_left _ hi⟩))
      · refine c.j.jnd.modify (g := id) c.act rfl rfl
          (by show w.ctl = _; rw [modify_id' _ _ id (fun _ => rfl)]) rfl (Nat.le_refl _) (fun _ h => h) ?_
        intro b i n _ a d hvn
        exact nv_set hview (by intro a d e; cases e) n a d hvn
    have hne : w.mutexObj mi ≠ w.cvObj vi := by
      intro e
      have : objView2 w.exec.objs (w.mutexObj mi) = some (.mutex ms.lock) := hmview
      rw [e, hview] at this; cases this
    have hmobjA : wA.exec.objs[w.mutexObj mi]? = some (.mutex ms) := by
      show (w.exec.objs.set (w.cvObj vi) _)[w.mutexObj mi]? = _
      rw [getElem?_set_ne' _ _ _ _ hne]; exact hmobj
    obtain ⟨hc1, ht1, hp1, hs1, hpath1, hact1, ⟨m', _, hobjs1⟩, hself1, hlen1, _⟩ :=
      release_desc hmobjA c.active hrl
    have hJ2 : JB2 w2 := release_core (g := id) hJA c.act c.run c.active c.r.lenCtl hmobjA hrl rfl rfl rfl
      (by rw [modify_id' _ _ id (fun _ => rfl)]) rfl rfl (Nat.le_refl _) id
    have htid2 : w2.tid = w.tid := ht1
    have hctl2 : w2.ctl = w.ctl := hc1
    rw [block_point] at h
    obtain ⟨x, hx, rfl⟩ := bind_pure_ok h
    have hx' : schedOn w2 blockF = .ok x := hx
    have hlt : w.cvObj vi < w.exec.objs.length := objView2_lt hview
    have hcvview : objView2 w2.exec.objs (cvIdx w.prog vi) = some (.condvar (cs.waiters ++ [w.tid])) := by
      rw [hobjs1]
      show objView2 ((w.exec.objs.set (w.cvObj vi) _).set (w.mutexObj mi) _) (w.cvObj vi) = _
      rw [objView2_set_ne _ _ (fun e => hne e.symm), objView2_set_self _ hlt]; rfl
    have hres := JB2.point (w := w2) (w' := World.modCtl { w2 with exec := x.1 } w2.tid fun c => { c with stage := 2 })
      (g := fun c => { c with stage := 2 }) hJ2 (by rw [htid2, hlen1]; exact c.hin) (by rw [htid2, hctl2]; exact c.act)
      hx' rfl rfl rfl rfl rfl rfl id (by
        have hc2 : w2.ctlOf w.tid = w.ctlOf w.tid := by unfold World.ctlOf; rw [hctl2]
        have hp2 : w2.prog = w.prog := hp1
        have hs2 : w2.spawned = w.spawned := hs1
        rw [hp2, hs2, htid2, hc2]
        have hself2 : w2.ths.get w.tid = w.ths.get w.tid := hself1
        rw [hself2]
        refine ⟨fun _ => ?_, fun ht => (by cases ht), fun _ => ?_⟩
        · exact .cvQ vi mi (cs.waiters ++ [w.tid]) hop' rfl rfl c.unp hcvview
            (List.mem_append_right _ (List.mem_singleton.2 rfl))
        · have hop2 : opOfCtl w.prog { w.ctlOf w.tid with stage := 2 } = some (.cvWait vi mi) := hop
          unfold OpAt; rw [hop2]; simp; rfl)
    refine ⟨hres.1, ?_⟩
    have := hres.2
    rw [hpath1] at this
    exact this
  · obtain ⟨ms', hmobj'⟩ := mutex_obj c.r hm
    rw [cvWait_stage2 hmobj hs] at h
    have hop3 : opOfCtl w.prog { w.ctlOf w.tid with stage := 3 } = some (.cvWait vi mi) := hop
    refine branch_stage (g := fun c => { c with stage := 3 }) c h rfl rfl id ?_ ?_
    · unfold OpAt; rw [hop3]; simp; rfl
    · intro hb
      cases hl : ms.lock with
      | none => rw [hl] at hb; cases hb
      | some l =>
        exact .cvRe vi mi l hop3 rfl (by rw [branchF_operation]; rfl) (by rw [hmview, hl])
  · cases hl : ms.lock with
    | some l =>
      rw [(cvWait_stage3 hmobj (by rw [hs]; exact Nat.le_refl _)).1 (by rw [hl]; rfl)] at h
      cases h
    | none =>
      obtain ⟨w1, hpa, hrun, _⟩ := (cvWait_stage3 (c := w.ctlOf w.tid) (vi := vi) hmobj
        (by rw [hs]; exact Nat.le_refl _)).2 hl
      rw [hrun] at h
      cases h
      exact acquire_complete c hm hmobj hl hpa _

end

end Deadlock2
end LoomVerif

/-
C08 / C17, the epilogue of a spawned thread since the repair of finding F20: `drop_locals` and the
thread-local destructors' stores run BEFORE the `JoinHandle`'s notify is touched.  The stage table of
`World.runEpilogue` for `fin < 10`, what each stage does to the thread's own control record, and the
invariant of a run of the epilogue (own stages interleaved with arbitrary changes that keep the record).
-/
import LoomVerif.Proofs.C08Join
import LoomVerif.Proofs.C17Tls
import LoomVerif.Proofs.C20Frame
import LoomVerif.Proofs.C08Foot

namespace LoomVerif
namespace C08
open C12 Sy C07 C17

/-- the stage table of the epilogue of a spawned thread before the common tail -/
theorem epilogue_stage_table {w w' : World} {c : TCtl} {b n : Nat}
    (ht : w.tid ≠ 0) (hsp : w.spawned.find? (·.2.1 == w.tid) = some (b, w.tid, n))
    (hlt : c.fin < 10) (h : w.runEpilogue c = .ok w') :
    (c.fin = 0 ∨ c.fin = 3 → w' = w.dropLocals.modCtl w.tid (fun c => { c with fin := 4 })) ∧
    (c.fin = 4 → ∀ k rest, c.dtorQueue = k :: rest →
      (w.modCtl w.tid fun c => { c with fin := 5 }).primStart 0 (.store (10 + (k : Int)) .rlx) c.stage
        = .ok w') ∧
    (c.fin = 4 → c.dtorQueue = [] →
      (w.modCtl w.tid fun c => { c with fin := 1 }).branch n .opaque = .ok w') ∧
    (5 ≤ c.fin → ∃ k rest w1 r, c.dtorQueue = k :: rest ∧
      w.primEffect 0 (.store (10 + (k : Int)) .rlx) = .ok (w1, r) ∧
      w' = w1.modCtl w.tid (fun c => { c with fin := 4, dtorQueue := rest })) ∧
    (c.fin = 1 ∨ c.fin = 2 → ∃ w1, w.notifyEffect n = .ok w1 ∧
      w' = w1.modCtl w.tid (fun c => { c with fin := 10 })) := by
  rw [runEpilogue_spawned w c b n ht hsp hlt, dropPass_eq] at h
  refine ⟨?_, ?_, ?_, ?_, ?_⟩
  · rintro (e | e)
    · simp only [e, beq_self_eq_true, if_true] at h; cases h; rfl
    · simp [e] at h; exact h.symm
  · intro e k rest hq
    simp [e, hq] at h; exact h
  · intro e hq
    simp [e, hq] at h; exact h
  · intro e
    have h0 : ¬ c.fin = 0 := by omega
    have h3 : 3 ≤ c.fin := by omega
    have h3' : ¬ c.fin = 3 := by omega
    have h4 : ¬ c.fin = 4 := by omega
    simp only [beq_iff_eq, h0, if_false, h3, if_true, h3', h4] at h
    split at h
    · cases h
    · next k rest hq =>
      obtain ⟨⟨w1, r⟩, h1, h2⟩ := bind_ok h
      cases h2
      exact ⟨k, rest, w1, r, hq, h1, rfl⟩
  · intro e
    have h0 : ¬ c.fin = 0 := by omega
    have h3 : ¬ 3 ≤ c.fin := by omega
    simp only [beq_iff_eq, h0, if_false, h3] at h
    obtain ⟨w1, h1, h2⟩ := bind_ok h
    cases h2
    exact ⟨w1, h1, rfl⟩

/-! ### what a stage does to the thread's own control record -/

theorem getElem?_ctl_modCtl_self (w : World) (t : Nat) (f : TCtl → TCtl) :
    (w.modCtl t f).ctl[t]? = (w.ctl[t]?).map f := by
  simp [World.modCtl]

theorem ctlOf_eq_of_getElem? {w w' : World} {t : Nat} (h : w'.ctl[t]? = w.ctl[t]?) :
    w'.ctlOf t = w.ctlOf t := by
  simp only [World.ctlOf, List.getD_eq_getElem?_getD, h]

theorem getElem?_ctl_of_lt {w : World} {t : Nat} (h : t < w.ctl.length) :
    w.ctl[t]? = some (w.ctlOf t) := by
  simp [World.ctlOf, List.getD_eq_getElem?_getD, List.getElem?_eq_getElem h]

theorem lt_of_getElem?_ctl {w : World} {t : Nat} {c : TCtl} (h : w.ctl[t]? = some c) :
    t < w.ctl.length ∧ w.ctlOf t = c := by
  refine ⟨(List.getElem?_eq_some_iff.1 h).1, ?_⟩
  simp [World.ctlOf, List.getD_eq_getElem?_getD, h]

theorem dropLocals_ctl_length (w : World) : w.dropLocals.ctl.length = w.ctl.length := by
  rw [dropLocals_eq]
  have ha : (afterDrops w).ctl.length = w.ctl.length := length_modCtl _ _ _
  split
  · rw [length_modCtl]; exact ha
  · split
    · unfold dtor2Probe
      split
      · exact ha
      · show (World.tlsGet _ _).1.ctl.length = _
        rw [tlsGet_ctl_length]; exact ha
    · exact ha
  · exact ha

theorem primStart_ctl {w w' : World} {x : Nat} {p : Prim} {next : Nat}
    (h : w.primStart x p next = .ok w') :
    w'.ctl = ((w.modCtl w.tid fun c => { c with prim := some p }).setStage next).ctl := by
  unfold World.primStart at h
  split at h
  · dsimp only at h
    exact (C20.branch_cf h).1
  · cases h; rfl

/-- the record of the active thread `t` after one stage of its epilogue (`fin < 10`) -/
theorem epilogue_record {w w' : World} {b n : Nat}
    (ht : w.tid ≠ 0) (hsp : w.spawned.find? (·.2.1 == w.tid) = some (b, w.tid, n))
    (hin : w.tid < w.ctl.length) (hlt : (w.ctlOf w.tid).fin < 10)
    (h : w.runEpilogue (w.ctlOf w.tid) = .ok w') :
    w.tid < w'.ctl.length ∧
    ((w.ctlOf w.tid).fin = 0 ∨ (w.ctlOf w.tid).fin = 3 →
      w'.ctlOf w.tid = { w.dropLocals.ctlOf w.tid with fin := 4 }) ∧
    ((w.ctlOf w.tid).fin = 4 → ∀ k rest, (w.ctlOf w.tid).dtorQueue = k :: rest →
      w'.ctlOf w.tid = { w.ctlOf w.tid with fin := 5, prim := some (.store (10 + (k : Int)) .rlx) }) ∧
    ((w.ctlOf w.tid).fin = 4 → (w.ctlOf w.tid).dtorQueue = [] →
      w'.ctlOf w.tid = { w.ctlOf w.tid with fin := 1 }) ∧
    (5 ≤ (w.ctlOf w.tid).fin → ∃ k rest, (w.ctlOf w.tid).dtorQueue = k :: rest ∧
      w'.ctlOf w.tid = { w.ctlOf w.tid with fin := 4, dtorQueue := rest }) ∧
    ((w.ctlOf w.tid).fin = 1 ∨ (w.ctlOf w.tid).fin = 2 →
      w'.ctlOf w.tid = { w.ctlOf w.tid with fin := 10 }) := by
  obtain ⟨t1, t2, t3, t4, t5⟩ := epilogue_stage_table ht hsp hlt h
  have hc := getElem?_ctl_of_lt hin
  have key : ∀ c', w'.ctl[w.tid]? = some c' → w.tid < w'.ctl.length ∧ w'.ctlOf w.tid = c' :=
    fun c' e => lt_of_getElem?_ctl e
  -- the length, by cases on the stage
  have hdl : w.tid < w.dropLocals.ctl.length := by rw [dropLocals_ctl_length]; exact hin
  have hlen : w.tid < w'.ctl.length := by
    by_cases e0 : (w.ctlOf w.tid).fin = 0 ∨ (w.ctlOf w.tid).fin = 3
    · rw [t1 e0, length_modCtl]; exact hdl
    · by_cases e4 : (w.ctlOf w.tid).fin = 4
      · cases hq : (w.ctlOf w.tid).dtorQueue with
        | nil =>
          rw [(C20.branch_cf (t3 e4 hq)).1, length_modCtl]; exact hin
        | cons k rest =>
          rw [primStart_ctl (t2 e4 k rest hq)]
          show w.tid < (World.modCtl _ _ _).ctl.length
          rw [length_modCtl, length_modCtl, length_modCtl]; exact hin
      · by_cases e5 : 5 ≤ (w.ctlOf w.tid).fin
        · obtain ⟨k, rest, w1, r, _, h1, rfl⟩ := t4 e5
          rw [length_modCtl, (C20.primEffect_cf h1).1]; exact hin
        · obtain ⟨w1, h1, rfl⟩ := t5 (by omega)
          rw [length_modCtl, (C20.notifyEffect_cf h1).1]; exact hin
  refine ⟨hlen, ?_, ?_, ?_, ?_, ?_⟩
  · intro e
    rw [t1 e, ctlOf_modCtl_self _ _ _ hdl]
  · intro e k rest hq
    have hp := primStart_ctl (t2 e k rest hq)
    refine (key _ ?_).2
    rw [hp]
    show (((w.modCtl w.tid _).modCtl w.tid _).modCtl w.tid _).ctl[w.tid]? = _
    rw [getElem?_ctl_modCtl_self, getElem?_ctl_modCtl_self, getElem?_ctl_modCtl_self, hc]
    rfl
  · intro e hq
    refine (key _ ?_).2
    rw [(C20.branch_cf (t3 e hq)).1, getElem?_ctl_modCtl_self, hc]; rfl
  · intro e
    obtain ⟨k, rest, w1, r, hq, h1, rfl⟩ := t4 e
    refine ⟨k, rest, hq, (key _ ?_).2⟩
    rw [getElem?_ctl_modCtl_self, (C20.primEffect_cf h1).1, hc]; rfl
  · intro e
    obtain ⟨w1, h1, rfl⟩ := t5 e
    refine (key _ ?_).2
    rw [getElem?_ctl_modCtl_self, (C20.notifyEffect_cf h1).1, hc]; rfl

/-! ### a run of the epilogue -/

/-- a spawned thread whose epilogue stage succeeds before the common tail has its `spawned` entry -/
theorem spawned_of_epilogue_ok {w w' : World} {c : TCtl} (ht : w.tid ≠ 0) (hlt : c.fin < 10)
    (h : w.runEpilogue c = .ok w') :
    ∃ b n, w.spawned.find? (·.2.1 == w.tid) = some (b, w.tid, n) := by
  unfold World.runEpilogue at h
  have h10 : ¬ c.fin ≥ 10 := by omega
  have ht' : (w.tid == 0) = false := by simpa using ht
  simp only [h10, if_false, ht', bind, Except.bind, Bool.false_eq_true] at h
  split at h
  · cases h
  · next b t' n hf =>
    have := List.find?_some hf
    simp only [beq_iff_eq] at this
    subst this
    exact ⟨b, n, hf⟩

/-- a run of the epilogue of the spawned thread `t` before its common tail: stages of `t` itself (`stage`:
a stage that performs no destructor store; `store`: the effect stage of the store of the destructor of the
key `k` at the head of the queue) interleaved with ARBITRARY other changes of the world that keep `t`'s
control record (`other`: the steps of the other threads write only their own records).  The last index lists
the keys whose destructor store was performed on the way. -/
inductive EpiRun (t : Nat) : World → World → List Nat → Prop
  | refl (w : World) : EpiRun t w w []
  | stage {w w1 w2 : World} {ks : List Nat} : EpiRun t w w1 ks → w1.tid = t → (w1.ctlOf t).fin < 5 →
      w1.runEpilogue (w1.ctlOf t) = .ok w2 → EpiRun t w w2 ks
  | store {w w1 w2 : World} {ks : List Nat} {k : Nat} {rest : List Nat} : EpiRun t w w1 ks → w1.tid = t →
      5 ≤ (w1.ctlOf t).fin → (w1.ctlOf t).fin < 10 → (w1.ctlOf t).dtorQueue = k :: rest →
      w1.runEpilogue (w1.ctlOf t) = .ok w2 → EpiRun t w w2 (ks ++ [k])
  | other {w w1 w2 : World} {ks : List Nat} : EpiRun t w w1 ks → w2.ctl[t]? = w1.ctl[t]? →
      EpiRun t w w2 ks

/-- the invariant of such a run once the first `drop_locals` pass is over: `t` has its record, every key it
had (`locals0`) is destroyed, and the stores performed so far followed by the queue are the queue `q0` the
first pass left; when the notification is reached (`fin = 1`, and `fin = 10` after its effect) the queue is
empty and ALL of `q0` has been performed -/
def EpiInv (t : Nat) (locals0 : List (Nat × Option Nat)) (q0 : List Nat) (w : World) (ks : List Nat) :
    Prop :=
  t < w.ctl.length ∧
  (∀ j v, locals0.lookup j = some v → (w.ctlOf t).locals.lookup j = some none) ∧
  ((((w.ctlOf t).fin = 4 ∨ (w.ctlOf t).fin = 5) ∧ ks ++ (w.ctlOf t).dtorQueue = q0) ∨
   (((w.ctlOf t).fin = 1 ∨ (w.ctlOf t).fin = 10) ∧ (w.ctlOf t).dtorQueue = [] ∧ ks = q0))

theorem EpiInv.step {t : Nat} {l0 : List (Nat × Option Nat)} {q0 : List Nat} {w w' : World}
    {ks : List Nat} (ht : t ≠ 0) (htid : w.tid = t) (hlt : (w.ctlOf t).fin < 10)
    (hinv : EpiInv t l0 q0 w ks) (h : w.runEpilogue (w.ctlOf t) = .ok w') :
    (∀ k rest, (w.ctlOf t).fin = 5 → (w.ctlOf t).dtorQueue = k :: rest → EpiInv t l0 q0 w' (ks ++ [k])) ∧
    ((w.ctlOf t).fin < 5 → EpiInv t l0 q0 w' ks) := by
  subst htid
  obtain ⟨hin, hloc, hst⟩ := hinv
  obtain ⟨b, n, hsp⟩ := spawned_of_epilogue_ok ht hlt h
  obtain ⟨hlen, r1, r2, r3, r4, r5⟩ := epilogue_record ht hsp hin hlt h
  constructor
  · intro k rest e5 hq
    obtain ⟨k', rest', hq', hc⟩ := r4 (by omega)
    rw [hq] at hq'; cases hq'
    refine ⟨hlen, ?_, .inl ⟨.inl (by rw [hc]), ?_⟩⟩
    · intro j v hv; rw [hc]; exact hloc j v hv
    · rcases hst with ⟨_, e⟩ | ⟨e, _⟩
      · rw [hc]; show (ks ++ [k]) ++ rest = q0
        rw [← e, hq]; simp
      · omega
  · intro e5
    rcases hst with ⟨e4 | e, hks⟩ | ⟨e1 | e, hq, hks⟩
    · cases hq : (w.ctlOf w.tid).dtorQueue with
      | nil =>
        have hc := r3 e4 hq
        refine ⟨hlen, ?_, .inr ⟨.inl (by rw [hc]), by rw [hc]; exact hq, ?_⟩⟩
        · intro j v hv; rw [hc]; exact hloc j v hv
        · rw [hq] at hks; simpa using hks
      | cons k rest =>
        have hc := r2 e4 k rest hq
        refine ⟨hlen, ?_, .inl ⟨.inr (by rw [hc]), by rw [hc]; exact hks⟩⟩
        intro j v hv; rw [hc]; exact hloc j v hv
    · omega
    · have hc := r5 (.inl e1)
      refine ⟨hlen, ?_, .inr ⟨.inr (by rw [hc]), by rw [hc]; exact hq, hks⟩⟩
      intro j v hv; rw [hc]; exact hloc j v hv
    · omega

theorem EpiInv.run {t : Nat} {l0 : List (Nat × Option Nat)} {q0 : List Nat} {w1 w : World}
    {ks : List Nat} (ht : t ≠ 0) (h1 : EpiInv t l0 q0 w1 []) (hrun : EpiRun t w1 w ks) :
    EpiInv t l0 q0 w ks := by
  induction hrun with
  | refl => exact h1
  | stage _ htid hlt hstep ih => exact (EpiInv.step ht htid (by omega) ih hstep).2 hlt
  | @store wa wb ks' k rest _ htid h5 hlt hq hstep ih =>
    have e5 : (wa.ctlOf t).fin = 5 := by
      rcases ih.2.2 with ⟨e | e, _⟩ | ⟨e | e, _⟩ <;> omega
    exact (EpiInv.step ht htid hlt ih hstep).1 _ _ e5 hq
  | other _ hc ih =>
    obtain ⟨hin, hloc, hst⟩ := ih
    have e := ctlOf_eq_of_getElem? hc
    refine ⟨?_, ?_, ?_⟩
    · have := getElem?_ctl_of_lt hin
      rw [← hc] at this
      exact (lt_of_getElem?_ctl this).1
    · rw [e]; exact hloc
    · rw [e]; exact hst

/-- the queue of destructors the first `drop_locals` pass leaves: with `tlsdtor=1` the keys that were live,
in initialisation order; otherwise the queue is not written -/
theorem dropLocals_queue (w : World) (hin : w.tid < w.ctl.length) :
    (w.cfg.tlsDtor = 1 → (w.dropLocals.ctlOf w.tid).dtorQueue = liveKeys w) ∧
    (w.cfg.tlsDtor ≠ 1 → (w.dropLocals.ctlOf w.tid).dtorQueue = (w.ctlOf w.tid).dtorQueue) := by
  have ha : (afterDrops w).ctlOf w.tid =
      { w.ctlOf w.tid with locals := (w.ctlOf w.tid).locals.map fun (k, _) => (k, none) } :=
    ctlOf_modCtl_self w w.tid _ hin
  have hal : w.tid < (afterDrops w).ctl.length := by
    show w.tid < (World.modCtl _ _ _).ctl.length
    rw [length_modCtl]; exact hin
  constructor
  · intro e
    rw [dropLocals_eq, e]
    show ((World.modCtl _ _ _).ctlOf w.tid).dtorQueue = _
    rw [ctlOf_modCtl_self _ _ _ hal]
  · intro e
    rw [dropLocals_eq]
    split
    · next e1 => exact absurd e1 e
    · split
      · unfold dtor2Probe
        split
        · show ((afterDrops w).ctlOf w.tid).dtorQueue = _
          rw [ha]
        · show (((afterDrops w).tlsGet 1).1.ctlOf w.tid).dtorQueue = _
          unfold World.tlsGet
          dsimp only
          split
          · rw [ha]
          · rw [ha]
          · have : (afterDrops w).tid = w.tid := rfl
            rw [this]
            show ((World.modCtl _ _ _).ctlOf w.tid).dtorQueue = _
            rw [ctlOf_modCtl_self _ _ _ (by exact hal)]
            show ((afterDrops w).ctlOf w.tid).dtorQueue = _
            rw [ha]
      · rw [ha]
    · rw [ha]

/-- the epilogue of the spawned thread `t`, from its first stage (`fin = 0`, the first `drop_locals`)
through any run before the common tail: the invariant holds; `locals0` are the thread-locals `t` had at the
end of its body, `q0` the queue the first pass left -/
theorem epilogue_run_inv {t : Nat} {w0 w1 w : World} {ks : List Nat}
    (ht : t ≠ 0) (h0 : w0.tid = t) (hin : t < w0.ctl.length) (hf : (w0.ctlOf t).fin = 0)
    (hstep : w0.runEpilogue (w0.ctlOf t) = .ok w1) (hrun : EpiRun t w1 w ks) :
    EpiInv t (w0.ctlOf t).locals (w0.dropLocals.ctlOf t).dtorQueue w ks := by
  subst h0
  refine EpiInv.run ht ?_ hrun
  obtain ⟨b, n, hsp⟩ := spawned_of_epilogue_ok ht (by omega) hstep
  obtain ⟨hlen, r1, _⟩ := epilogue_record ht hsp hin (by omega) hstep
  have hc := r1 (.inl hf)
  refine ⟨hlen, ?_, .inl ⟨.inl (by rw [hc]), by rw [hc]; rfl⟩⟩
  intro j v hv
  rw [hc]
  exact (dropLocals_facts w0 hin).1 j v hv

/-! ### real steps are steps of a run -/

/-- a thread whose program counter is past the end of its body runs its epilogue -/
theorem stepActive_epilogue {w : World}
    (h : (w.prog.threads.getD (w.ctlOf w.tid).body [])[(w.ctlOf w.tid).pc]? = none) :
    w.stepActive = w.runEpilogue (w.ctlOf w.tid) := by
  unfold World.stepActive
  simp only [h]

/-- a step of ANOTHER thread is an `other` step of the run: it keeps `t`'s control record
(`Foot.stepActive_other`) -/
theorem EpiRun.of_other_step {t : Nat} {w w1 w2 : World} {ks : List Nat} (hr : EpiRun t w w1 ks)
    (hne : w1.tid ≠ t) (hin : t < w1.ctl.length) (hs : w1.stepActive = .ok w2) : EpiRun t w w2 ks :=
  .other hr (Foot.stepActive_other hs t (Ne.symm hne) hin)

/-- a step of `t` itself, in its epilogue before the common tail, is a `stage` or a `store` step -/
theorem EpiRun.of_own_step {t : Nat} {w w1 w2 : World} {ks : List Nat} (hr : EpiRun t w w1 ks)
    (ht : t ≠ 0) (htid : w1.tid = t)
    (hpc : (w1.prog.threads.getD (w1.ctlOf t).body [])[(w1.ctlOf t).pc]? = none)
    (hlt : (w1.ctlOf t).fin < 10) (hs : w1.stepActive = .ok w2) :
    ((w1.ctlOf t).fin < 5 ∧ EpiRun t w w2 ks) ∨
    (5 ≤ (w1.ctlOf t).fin ∧ ∃ k rest, (w1.ctlOf t).dtorQueue = k :: rest ∧ EpiRun t w w2 (ks ++ [k])) := by
  subst htid
  rw [stepActive_epilogue hpc] at hs
  by_cases h5 : (w1.ctlOf w1.tid).fin < 5
  · exact .inl ⟨h5, .stage hr rfl h5 hs⟩
  · obtain ⟨b, n, hsp⟩ := spawned_of_epilogue_ok ht hlt hs
    obtain ⟨_, _, _, t4, _⟩ := epilogue_stage_table ht hsp hlt hs
    obtain ⟨k, rest, _, _, hq, _, _⟩ := t4 (by omega)
    exact .inr ⟨by omega, k, rest, hq, .store hr rfl (by omega) hlt hq hs⟩

end C08
end LoomVerif

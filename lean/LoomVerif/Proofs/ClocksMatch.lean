/-
Clocks, candidate selection: exact characterisation of what `match_load_to_stores` and
`match_rmw_to_stores` return whenever they return (no `assert_ne!` fired).
-/
import LoomVerif.Proofs.ClocksAtomic

namespace LoomVerif
namespace Clocks

open Atomic

/-- the inner loop keeps `i` iff no scanned real slot `j ≠ i` is strictly newer and blocking -/
theorem matchInner_ok_iff (a : Atomic) (blocked : Nat → Nat → Bool) (i : Nat) (js : List Nat)
    (b : Bool) (h : matchInner a blocked i js = .ok b) :
    b = true ↔ ∀ j ∈ js, j ≠ i → j < a.cnt →
      (a.storeAt i).mo.blt (a.storeAt j).mo = true → blocked i j = false := by
  induction js with
  | nil =>
    have : b = true := by
      have := Except.ok.inj h; exact this.symm
    simp [this]
  | cons j js ih =>
    unfold matchInner at h
    by_cases hskip : (i == j || decide (j ≥ a.cnt)) = true
    · rw [if_pos hskip] at h
      rw [ih h]
      have hj : j = i ∨ a.cnt ≤ j := by
        simp at hskip
        rcases hskip with e | e
        · exact Or.inl e.symm
        · exact Or.inr e
      constructor
      · intro hall j' hj' hne hc hlt
        rcases List.mem_cons.1 hj' with rfl | hm
        · rcases hj with e | e
          · exact absurd e hne
          · omega
        · exact hall j' hm hne hc hlt
      · intro hall j' hj'
        exact hall j' (List.mem_cons_of_mem _ hj')
    · rw [if_neg hskip] at h
      simp at hskip
      by_cases heq : ((a.storeAt i).mo == (a.storeAt j).mo) = true
      · rw [if_pos heq] at h; cases h
      · rw [if_neg heq] at h
        by_cases hblk : ((a.storeAt i).mo.blt (a.storeAt j).mo && blocked i j) = true
        · rw [if_pos hblk] at h
          have hb : b = false := (Except.ok.inj h).symm
          subst hb
          simp only [Bool.and_eq_true] at hblk
          constructor
          · intro hf; cases hf
          · intro hall
            have := hall j List.mem_cons_self (fun e => hskip.1 e.symm) hskip.2 hblk.1
            rw [hblk.2] at this; cases this
        · rw [if_neg hblk] at h
          rw [ih h]
          constructor
          · intro hall j' hj' hne hc hlt
            rcases List.mem_cons.1 hj' with rfl | hm
            · cases hbl : blocked i j'
              · rfl
              · rw [hlt, hbl] at hblk; exact absurd rfl hblk
            · exact hall j' hm hne hc hlt
          · intro hall j' hj'
            exact hall j' (List.mem_cons_of_mem _ hj')

/-- the outer loop returns exactly the scanned real slots that the inner loop keeps -/
theorem matchOuter_ok_iff (a : Atomic) (blocked : Nat → Nat → Bool) (is l : List Nat)
    (h : matchOuter a blocked is = .ok l) (i : Nat) :
    i ∈ l ↔ i ∈ is ∧ i < a.cnt ∧ matchInner a blocked i (List.range NH) = .ok true := by
  induction is generalizing l with
  | nil =>
    have : l = [] := (Except.ok.inj h).symm
    simp [this]
  | cons k ks ih =>
    unfold matchOuter at h
    by_cases hc : k ≥ a.cnt
    · rw [if_pos hc] at h
      rw [ih l h]
      constructor
      · rintro ⟨h1, h2, h3⟩; exact ⟨List.mem_cons_of_mem _ h1, h2, h3⟩
      · rintro ⟨h1, h2, h3⟩
        rcases List.mem_cons.1 h1 with rfl | hm
        · omega
        · exact ⟨hm, h2, h3⟩
    · rw [if_neg hc] at h
      cases hin : matchInner a blocked k (List.range NH) with
      | error e => rw [hin] at h; cases h
      | ok keep =>
        rw [hin] at h
        cases hout : matchOuter a blocked ks with
        | error e => rw [hout] at h; cases h
        | ok rest =>
          rw [hout] at h
          have hl : l = if keep = true then k :: rest else rest := (Except.ok.inj h).symm
          have ihr := ih rest hout
          subst hl
          cases keep
          · simp only [Bool.false_eq_true, if_false]
            rw [ihr]
            constructor
            · rintro ⟨h1, h2, h3⟩; exact ⟨List.mem_cons_of_mem _ h1, h2, h3⟩
            · rintro ⟨h1, h2, h3⟩
              rcases List.mem_cons.1 h1 with rfl | hm
              · rw [hin] at h3; cases h3
              · exact ⟨hm, h2, h3⟩
          · simp only [if_true]
            rw [List.mem_cons, ihr]
            constructor
            · rintro (rfl | ⟨h1, h2, h3⟩)
              · exact ⟨List.mem_cons_self, by omega, hin⟩
              · exact ⟨List.mem_cons_of_mem _ h1, h2, h3⟩
            · rintro ⟨h1, h2, h3⟩
              rcases List.mem_cons.1 h1 with rfl | hm
              · exact Or.inl rfl
              · exact Or.inr ⟨hm, h2, h3⟩

/-- a successful outer loop ran every inner loop of a real slot successfully -/
theorem matchOuter_ok_inner (a : Atomic) (blocked : Nat → Nat → Bool) (is l : List Nat)
    (h : matchOuter a blocked is = .ok l) (i : Nat) (hi : i ∈ is) (hc : i < a.cnt) :
    ∃ b, matchInner a blocked i (List.range NH) = .ok b := by
  induction is generalizing l with
  | nil => cases hi
  | cons k ks ih =>
    unfold matchOuter at h
    by_cases hk : k ≥ a.cnt
    · rw [if_pos hk] at h
      rcases List.mem_cons.1 hi with rfl | hm
      · omega
      · exact ih l h hm
    · rw [if_neg hk] at h
      cases hin : matchInner a blocked k (List.range NH) with
      | error e => rw [hin] at h; cases h
      | ok keep =>
        rw [hin] at h
        cases hout : matchOuter a blocked ks with
        | error e => rw [hout] at h; cases h
        | ok rest =>
          rcases List.mem_cons.1 hi with rfl | hm
          · exact ⟨keep, hin⟩
          · exact ih rest hout hm

/-- the general statement: membership in the result of the double loop -/
theorem match_exact (a : Atomic) (blocked : Nat → Nat → Bool) (l : List Nat)
    (h : matchOuter a blocked (List.range NH) = .ok l) (i : Nat) :
    i ∈ l ↔ i < min a.cnt NH ∧ ∀ j, j < min a.cnt NH → j ≠ i →
      (a.storeAt i).mo.blt (a.storeAt j).mo = true → blocked i j = false := by
  rw [matchOuter_ok_iff a blocked _ l h i, List.mem_range]
  constructor
  · rintro ⟨h7, hc, hin⟩
    refine ⟨by omega, ?_⟩
    intro j hj hne hlt
    exact (matchInner_ok_iff a blocked i _ true hin).1 rfl j (List.mem_range.2 (by omega)) hne
      (by omega) hlt
  · rintro ⟨hi, hall⟩
    have h7 : i < NH := by omega
    have hc : i < a.cnt := by omega
    obtain ⟨b, hb⟩ := matchOuter_ok_inner a blocked _ l h i (List.mem_range.2 h7) hc
    refine ⟨h7, hc, ?_⟩
    have : b = true := (matchInner_ok_iff a blocked i _ b hb).2 (by
      intro j hj hne hjc hlt
      exact hall j (by have := List.mem_range.1 hj; omega) hne hlt)
    rw [hb, this]

/-- the result lists slots in increasing order without repetition (it is a sublist of `0..7`) -/
theorem matchOuter_sublist (a : Atomic) (blocked : Nat → Nat → Bool) (is l : List Nat)
    (h : matchOuter a blocked is = .ok l) : l.Sublist is := by
  induction is generalizing l with
  | nil =>
    have : l = [] := (Except.ok.inj h).symm
    subst this; exact List.Sublist.refl _
  | cons k ks ih =>
    unfold matchOuter at h
    by_cases hc : k ≥ a.cnt
    · rw [if_pos hc] at h
      exact List.Sublist.cons _ (ih l h)
    · rw [if_neg hc] at h
      cases hin : matchInner a blocked k (List.range NH) with
      | error e => rw [hin] at h; cases h
      | ok keep =>
        rw [hin] at h
        cases hout : matchOuter a blocked ks with
        | error e => rw [hout] at h; cases h
        | ok rest =>
          rw [hout] at h
          have hl : l = if keep = true then k :: rest else rest := (Except.ok.inj h).symm
          subst hl
          cases keep
          · exact List.Sublist.cons _ (ih rest hout)
          · exact List.Sublist.cons_cons _ (ih rest hout)

end Clocks
end LoomVerif

/-
C11, the Arc object: `refDecEffect` / `afterDec` as equations, the stage equations of the Arc
operations of `runOp`, the bookkeeping invariant `std strong count = ref_cnt`.
-/
import LoomVerif.Proofs.WorldBasics

namespace LoomVerif
namespace C11
open World WB C12

/-! ### plumbing -/

theorem arcInfo_congr {w1 w2 : World} (h : w1.arcs = w2.arcs) (a : Nat) :
    w1.arcInfo a = w2.arcInfo a := by
  simp [World.arcInfo, h]

theorem getArc_congr {w1 w2 : World} (h : w1.exec.objs = w2.exec.objs) (o : Nat) :
    w1.getArc o = w2.getArc o := by
  simp [World.getArc, h]

theorem arcInfo_modArc_self (w : World) (a : Nat) (f : ArcInfo → ArcInfo) (h : a < w.arcs.length) :
    (w.modArc a f).arcInfo a = f (w.arcInfo a) := by
  simp [World.arcInfo, World.modArc, List.getD_eq_getElem?_getD, h]

theorem arcInfo_modArc_ne (w : World) (a b : Nat) (f : ArcInfo → ArcInfo) (h : b ≠ a) :
    (w.modArc a f).arcInfo b = w.arcInfo b := by
  simp [World.arcInfo, World.modArc, List.getD_eq_getElem?_getD, Ne.symm h]

@[simp] theorem length_arcs_modArc (w : World) (a : Nat) (f : ArcInfo → ArcInfo) :
    (w.modArc a f).arcs.length = w.arcs.length := by
  simp [World.modArc]

/-- the value the last completed operation returned -/
def retOf (w : World) : Option Ret := w.events.head?.map (·.ret)

@[simp] theorem retOf_complete (w : World) (r : Ret) : retOf (w.complete r) = some r := rfl

theorem handle_setHandle_self (w : World) (h : Nat) (x : HandleSt) :
    (w.setHandle h (some x)).handle h = .ok x := by
  simp [World.handle, World.setHandle]

theorem handle_setHandle_none (w : World) (h : Nat) :
    (w.setHandle h none).handle h = .error (.internal 70) := by
  have : (w.handles.filter (·.1 != h)).lookup h = none := by
    rw [List.lookup_eq_none_iff]
    intro p hp
    simp only [List.mem_filter, bne_iff_ne, ne_eq] at hp
    simpa using fun e => hp.2 e.symm
  simp [World.handle, World.setHandle, this]

/-! ### `ref_dec` and the `Drop` glue -/

/-- what `ref_dec` does to the Arc state; `released`, `caus` are those of the dropping thread -/
def arcDecSt (s : ArcSt) (released caus : VV) : ArcSt :=
  { s with refCnt := s.refCnt - 1, sync := s.sync.store released caus .rel }

/-- `refDecEffect`: "Arc is already released" iff the count is 0; otherwise the count is
decremented, the dropper's causality is released into `synchronize`, and the decrement that
reaches 0 acquires it; the flag says whether 0 was reached -/
theorem refDecEffect_eq (w : World) (o : Nat) (s : ArcSt) (h : w.getArc o = .ok s) :
    w.refDecEffect o =
      if s.refCnt = 0 then .error .arcReleased else
        .ok (if s.refCnt = 1 then
               (w.setObj o (.arc (arcDecSt s w.ths.activeT.released w.ths.caus))).setThs
                 (w.ths.syncLoad (arcDecSt s w.ths.activeT.released w.ths.caus).sync .acq)
             else w.setObj o (.arc (arcDecSt s w.ths.activeT.released w.ths.caus)),
             decide (s.refCnt = 1)) := by
  unfold World.refDecEffect
  simp only [h, ok_bind, arcDecSt, Threads.syncStore]
  by_cases h0 : s.refCnt = 0
  · simp [h0]
  · have h1 : ¬ s.refCnt < 1 := by omega
    have hh : (s.refCnt - 1 = 0) ↔ s.refCnt = 1 := by omega
    simp [h0, h1, hh]
    by_cases h2 : s.refCnt = 1 <;> simp [h2]

structure DecFacts (w w' : World) (o : Nat) (s : ArcSt) (last : Bool) : Prop where
  live : s.refCnt ≠ 0
  last_iff : last = true ↔ s.refCnt = 1
  arc : w'.getArc o = .ok (arcDecSt s w.ths.activeT.released w.ths.caus)
  others : ∀ o', o' ≠ o → w'.exec.objs[o']? = w.exec.objs[o']?
  path : w'.exec.path = w.exec.path
  arcs : w'.arcs = w.arcs
  handles : w'.handles = w.handles
  threads : w'.ths =
    if last then w.ths.syncLoad (arcDecSt s w.ths.activeT.released w.ths.caus).sync .acq else w.ths

theorem refDecEffect_inv {w w' : World} {o : Nat} {s : ArcSt} {last : Bool}
    (h : w.getArc o = .ok s) (hr : w.refDecEffect o = .ok (w', last)) :
    DecFacts w w' o s last := by
  rw [refDecEffect_eq w o s h] at hr
  by_cases h0 : s.refCnt = 0
  · simp [h0] at hr
  · simp only [h0, if_false, Except.ok.injEq, Prod.mk.injEq] at hr
    obtain ⟨hw, hl⟩ := hr
    subst hl
    by_cases h1 : s.refCnt = 1
    · simp only [h1, if_true] at hw
      subst hw
      refine ⟨h0, by simp [h1], ?_, ?_, rfl, rfl, rfl, by simp [h1]⟩
      · rw [getArc_ok_iff, objs_setThs, ← getArc_ok_iff]; exact getArc_setObj h _
      · intro o' ho; rw [objs_setThs]; exact objs_setObj_ne w o o' _ ho
    · simp only [h1, if_false] at hw
      subst hw
      refine ⟨h0, by simp [h1], getArc_setObj h _, ?_, rfl, rfl, rfl, by simp [h1]⟩
      intro o' ho; exact objs_setObj_ne w o o' _ ho

theorem refDecEffect_ok (w : World) (o : Nat) (s : ArcSt) (h : w.getArc o = .ok s)
    (h0 : s.refCnt ≠ 0) : ∃ w', w.refDecEffect o = .ok (w', decide (s.refCnt = 1)) := by
  rw [refDecEffect_eq w o s h]; simp [h0]

/-- `afterDec`: the `Drop for Arc` glue after `ref_dec` -/
theorem afterDec_eq (w : World) (a : Nat) (last : Bool) :
    w.afterDec a last =
      if last then
        if (w.arcInfo a).stdCount ≠ 1 then .error (.internal 71)
        else if (w.arcInfo a).registered = false then .error (.internal 72)
        else .ok (w.modArc a fun i => { i with stdCount := 0, registered := false })
      else .ok (w.modArc a fun i => { i with stdCount := i.stdCount - 1 }) := by
  unfold World.afterDec
  cases last
  · simp
  · by_cases h1 : (w.arcInfo a).stdCount = 1
    · cases h2 : (w.arcInfo a).registered <;> simp [h1, h2]
    · simp [h1]

/-! ### causality -/

/-- every decrement releases: the new `synchronize` clock is above the dropper's causality and
above the old clock -/
theorem arcDecSt_releases (s : ArcSt) (released caus : VV) :
    caus.le (arcDecSt s released caus).sync.hb ∧ s.sync.hb.le (arcDecSt s released caus).sync.hb :=
  ⟨caus_le_store_rel _ _ _, le_store_rel _ _ _⟩

/-- the decrement that reaches zero acquires -/
theorem DecFacts.caus_last {w w' : World} {o : Nat} {s : ArcSt}
    (f : DecFacts w w' o s true) (hact : ActiveOk w.ths) :
    w'.ths.caus = w.ths.caus.join (arcDecSt s w.ths.activeT.released w.ths.caus).sync.hb := by
  rw [f.threads]
  simp only [if_true]
  rw [caus_syncLoad hact, load_acq]

theorem DecFacts.threads_notlast {w w' : World} {o : Nat} {s : ArcSt}
    (f : DecFacts w w' o s false) : w'.ths = w.ths := by
  rw [f.threads]; simp

/-! ### the stages of the Arc operations -/

section stages
variable (w : World) (c : TCtl) (h : Nat) (hs : HandleSt)

theorem runOp_arcClone_stage0 (h2 : Nat) (hh : w.handle h = .ok hs) (hc : c.stage = 0) :
    w.runOp c (.arcClone h h2) = (w.setStage 1).branch (w.arcInfo hs.arc).obj .arcInc := by
  simp [World.runOp, hh, hc]

theorem runOp_arcClone_stage1 (h2 : Nat) (s : ArcSt) (hh : w.handle h = .ok hs) (hc : c.stage ≠ 0)
    (hg : w.getArc (w.arcInfo hs.arc).obj = .ok s) :
    w.runOp c (.arcClone h h2) =
      .ok ((((w.setObj (w.arcInfo hs.arc).obj (.arc { s with refCnt := s.refCnt + 1 })).modArc
        hs.arc fun i => { i with stdCount := i.stdCount + 1 }).setHandle h2
          (some { arc := hs.arc })).complete .unit) := by
  simp [World.runOp, hh, hc, hg]

theorem runOp_arcInc_stage0 (hh : w.handle h = .ok hs) (hc : c.stage = 0) :
    w.runOp c (.arcInc h) =
      if (w.arcInfo hs.arc).registered = false then .error (.internal 74)
      else (w.setStage 1).branch (w.arcInfo hs.arc).obj .arcInc := by
  cases hr : (w.arcInfo hs.arc).registered <;> simp [World.runOp, hh, hc, hr]

theorem runOp_arcInc_stage1 (s : ArcSt) (hh : w.handle h = .ok hs) (hc : c.stage ≠ 0)
    (hg : w.getArc (w.arcInfo hs.arc).obj = .ok s) :
    w.runOp c (.arcInc h) =
      .ok (((w.setObj (w.arcInfo hs.arc).obj (.arc { s with refCnt := s.refCnt + 1 })).modArc
        hs.arc fun i => { i with stdCount := i.stdCount + 1 }).complete .unit) := by
  simp [World.runOp, hh, hc, hg]

theorem runOp_arcDrop_stage0 (hh : w.handle h = .ok hs) (hc : c.stage = 0) :
    w.runOp c (.arcDrop h) = (w.setStage 1).branch (w.arcInfo hs.arc).obj .arcDec := by
  simp [World.runOp, hh, hc]

theorem runOp_arcDrop_stage1 (hh : w.handle h = .ok hs) (hc : c.stage ≠ 0) :
    w.runOp c (.arcDrop h) =
      (w.refDecEffect (w.arcInfo hs.arc).obj >>= fun r =>
        r.1.afterDec hs.arc r.2 >>= fun w' =>
          pure ((w'.setHandle h none).complete (boolRet r.2))) := by
  simp [World.runOp, hh, hc]

theorem runOp_arcDec_stage0 (hh : w.handle h = .ok hs) (hc : c.stage = 0) :
    w.runOp c (.arcDec h) =
      if (w.arcInfo hs.arc).registered = false then .error (.internal 74)
      else (w.setStage 1).branch (w.arcInfo hs.arc).obj .arcDec := by
  cases hr : (w.arcInfo hs.arc).registered <;> simp [World.runOp, hh, hc, hr]

theorem runOp_arcDec_stage1 (hh : w.handle h = .ok hs) (hc : c.stage ≠ 0) :
    w.runOp c (.arcDec h) =
      (w.refDecEffect (w.arcInfo hs.arc).obj >>= fun r =>
        r.1.afterDec hs.arc r.2 >>= fun w' => pure (w'.complete (boolRet r.2))) := by
  simp [World.runOp, hh, hc]

theorem runOp_arcCount_stage0 (hh : w.handle h = .ok hs) (hc : c.stage = 0) :
    w.runOp c (.arcCount h) = (w.setStage 1).branch (w.arcInfo hs.arc).obj .arcInspect := by
  simp [World.runOp, hh, hc]

theorem runOp_arcCount_stage1 (s : ArcSt) (hh : w.handle h = .ok hs) (hc : c.stage ≠ 0)
    (hg : w.getArc (w.arcInfo hs.arc).obj = .ok s) :
    w.runOp c (.arcCount h) =
      if s.refCnt = 0 then .error .arcReleased
      else .ok ((w.setThs (w.ths.syncLoad s.sync .sc)).complete (.val s.refCnt)) := by
  by_cases h0 : s.refCnt = 0 <;> simp [World.runOp, hh, hc, hg, h0]

theorem runOp_arcGetMut_stage0 (hh : w.handle h = .ok hs) (hc : c.stage = 0) :
    w.runOp c (.arcGetMut h) = (w.setStage 1).branch (w.arcInfo hs.arc).obj .arcDec := by
  simp [World.runOp, hh, hc]

theorem runOp_arcGetMut_stage1 (s : ArcSt) (hh : w.handle h = .ok hs) (hc : c.stage ≠ 0)
    (hg : w.getArc (w.arcInfo hs.arc).obj = .ok s) :
    w.runOp c (.arcGetMut h) =
      if s.refCnt = 0 then .error .arcReleased
      else if s.refCnt = 1 ∧ (w.arcInfo hs.arc).stdCount ≠ 1 then .error (.internal 73)
      else .ok ((w.setThs (w.ths.syncLoad s.sync .acq)).complete (boolRet (s.refCnt == 1))) := by
  have ha : ∀ t, (w.setThs t).arcInfo hs.arc = w.arcInfo hs.arc := fun t => rfl
  by_cases h0 : s.refCnt = 0
  · simp [World.runOp, hh, hc, hg, h0]
  · have h1 : ¬ s.refCnt < 1 := by omega
    by_cases h2 : s.refCnt = 1
    · by_cases h3 : (w.arcInfo hs.arc).stdCount = 1 <;>
        simp [World.runOp, hh, hc, hg, h2, ha, h3]
    · simp [World.runOp, hh, hc, hg, h0, h2, ha]

theorem runOp_arcUnwrap_stage0 (hh : w.handle h = .ok hs) (hc : c.stage = 0) :
    w.runOp c (.arcUnwrap h) = (w.setStage 1).branch (w.arcInfo hs.arc).obj .arcDec := by
  simp [World.runOp, hh, hc]

theorem runOp_arcUnwrap_stage1 (s : ArcSt) (hh : w.handle h = .ok hs) (hc : c.stage = 1)
    (hg : w.getArc (w.arcInfo hs.arc).obj = .ok s) :
    w.runOp c (.arcUnwrap h) =
      if s.refCnt = 0 then .error .arcReleased
      else if s.refCnt ≠ 1 then
        .ok ((w.setThs (w.ths.syncLoad s.sync .acq)).complete (.err 0))
      else if (w.arcInfo hs.arc).stdCount ≠ 1 then .error (.internal 73)
      else ((w.setThs (w.ths.syncLoad s.sync .acq)).setStage 2).branch
        (w.arcInfo hs.arc).obj .arcDec := by
  have ha : ∀ t, (w.setThs t).arcInfo hs.arc = w.arcInfo hs.arc := fun t => rfl
  by_cases h0 : s.refCnt = 0
  · simp [World.runOp, hh, hc, hg, h0]
  · have h1 : ¬ s.refCnt < 1 := by omega
    by_cases h2 : s.refCnt = 1
    · by_cases h3 : (w.arcInfo hs.arc).stdCount = 1 <;>
        simp [World.runOp, hh, hc, hg, h2, ha, h3]
    · simp [World.runOp, hh, hc, hg, h0, h2]

theorem runOp_arcUnwrap_stage2 (hh : w.handle h = .ok hs) (hc : c.stage = 2) :
    w.runOp c (.arcUnwrap h) =
      (w.refDecEffect (w.arcInfo hs.arc).obj >>= fun r =>
        if (r.1.arcInfo hs.arc).registered = false then .error (.internal 72)
        else pure (((r.1.modArc hs.arc fun i => { i with stdCount := 0, registered := false }).setHandle
          h none).complete (.ok 0))) := by
  simp only [World.runOp, hh, hc, ok_bind]
  congr 1
  funext r
  cases hr : (r.1.arcInfo hs.arc).registered <;> simp

theorem runOp_arcPtrEq (h2 : Nat) (hs2 : HandleSt) (hh : w.handle h = .ok hs)
    (hh2 : w.handle h2 = .ok hs2) :
    w.runOp c (.arcPtrEq h h2) = .ok (w.complete (boolRet (hs.arc == hs2.arc))) := by
  simp [World.runOp, hh, hh2]

theorem runOp_arcIntoRaw (hh : w.handle h = .ok hs) :
    w.runOp c (.arcIntoRaw h) =
      .ok ((w.setHandle h (some { hs with raw := true })).complete .unit) := by
  simp [World.runOp, hh]

theorem runOp_arcFromRaw (hh : w.handle h = .ok hs) :
    w.runOp c (.arcFromRaw h) =
      if (w.arcInfo hs.arc).registered = false then .error (.internal 74)
      else .ok ((w.setHandle h (some { hs with raw := false })).complete .unit) := by
  cases hr : (w.arcInfo hs.arc).registered <;> simp [World.runOp, hh, hr]

end stages

end C11
end LoomVerif

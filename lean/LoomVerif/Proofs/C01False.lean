/-
C01 item 5: the full completeness statement is false of the twin (finding F1) — a
kernel-checked witness.
-/
import LoomVerif.Oracle.SCEnum
import LoomVerif.Model.Check

namespace LoomVerif
namespace F1

/-- `cfg x=1 | T0: spawn 1; st 0 1 rlx; ld 0 rlx; join 1 | T1: ld 0 rlx; st 0 2 rlx` -/
def prog : Prog :=
  { cfg := { nAtomics := 1 },
    threads := [[.spawn 1, .atom 0 (.store 1 .rlx), .atom 0 (.load .rlx), .join 1],
                [.atom 0 (.load .rlx), .atom 0 (.store 2 .rlx)]] }

/-- T0's load (thread 0, pc 2) returns 2 and T1's load (thread 1, pc 0) returns 1 -/
def badPair (evs : List Event) : Bool :=
  evs.any (fun e => e.tid == 0 && e.pc == 2 && e.ret == .val 2) &&
  evs.any (fun e => e.tid == 1 && e.pc == 0 && e.ret == .val 1)

/-- (a) the reference semantics has a normally ending execution in which T0's load returns 2 and
T1's load returns 1 (`T0: st 1; T1: ld → 1; T1: st 2; T0: ld → 2`) -/
theorem sc_has : ∃ l, SC.outcomesNaive prog 40 (SC.init prog) = some l ∧
    ∃ o ∈ l, o.verdict = .ok ∧ (0, 2, Ret.val 2) ∈ o.rets ∧ (1, 0, Ret.val 1) ∈ o.rets := by
  decide +kernel

/-- (b) the twin explores `prog` completely in 13 iterations, none of which panics and none of
which shows those two return values together.  (Iterations, as `(T1.ld, T0.ld)`:
(0,1) (1,1) (0,2) (0,1) (0,2) (0,1) (0,1) (0,1) (0,2) (0,1) (0,2) (0,1) (1,1).) -/
theorem twin_misses : (Check.run prog).2 = .completed ∧ (Check.run prog).1.length = 13 ∧
    (Check.run prog).1.all (fun it => it.result.term == none && !badPair it.result.events)
      = true := by
  decide +kernel

/-- iteration `it` shows outcome `o`: every return value of `o` is the result of the
corresponding event of `it` -/
def Shows (it : Iteration) (o : SC.Outcome) : Prop :=
  ∀ t pc r, (t, pc, r) ∈ o.rets → ∃ e ∈ it.result.events, e.tid = t ∧ e.pc = pc ∧ e.ret = r

/-- "every interleaving outcome is explored": every outcome of the reference semantics (computed
with `fuel` steps) is shown by some iteration of the twin's exploration -/
def TwinComplete (p : Prog) (fuel : Nat) : Prop :=
  ∀ l, SC.outcomesNaive p fuel (SC.init p) = some l →
    ∀ o ∈ l, ∃ it ∈ (Check.run p).1, Shows it o

theorem not_complete : ¬ TwinComplete prog 40 := by
  intro hc
  obtain ⟨l, hl, o, ho, _, h1, h2⟩ := sc_has
  obtain ⟨it, hit, hs⟩ := hc l hl o ho
  have hall := (List.all_eq_true.1 twin_misses.2.2) it hit
  have hbad : badPair it.result.events = true := by
    obtain ⟨e1, he1, a1, a2, a3⟩ := hs _ _ _ h1
    obtain ⟨e2, he2, b1, b2, b3⟩ := hs _ _ _ h2
    unfold badPair
    simp only [Bool.and_eq_true, List.any_eq_true]
    exact ⟨⟨e1, he1, by simp [a1, a2, a3]⟩, ⟨e2, he2, by simp [b1, b2, b3]⟩⟩
  rw [hbad] at hall
  simp at hall

end F1
end LoomVerif

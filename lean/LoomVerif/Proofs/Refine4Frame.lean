/-
Refinement, FUTURES fragment, part 5: how the views (`nvOf`, `mvOf`, `avOf`: the `Notify` / mutex / atomic objects as
functions of the object index; `iaOf`, `paOf`, `caOf`, `waOf`: the attributes of the control records as functions of
the thread index) change along the elementary changes of a world.
-/
import LoomVerif.Proofs.Refine4Rel

set_option linter.unusedSimpArgs false
set_option linter.unusedVariables false

namespace LoomVerif
namespace Refine4
open Refine Sy

/-- function update -/
def upd {α} (f : Nat → α) (i : Nat) (v : α) : Nat → α := fun j => if j = i then v else f j

@[simp] theorem upd_self {α} (f : Nat → α) (i : Nat) (v : α) : upd f i v i = v := by simp [upd]
theorem upd_ne {α} (f : Nat → α) {i j : Nat} (v : α) (h : j ≠ i) : upd f i v j = f j := by simp [upd, h]
theorem upd_same {α} (f : Nat → α) (i : Nat) : upd f i (f i) = f := by
  funext j; by_cases h : j = i <;> simp [upd, h]

/-! ### the objects -/

theorem nvOf_lt {objs : List OV4} {n : Nat} {x : Bool × Bool × Bool} (h : nvOf objs n = some x) : n < objs.length := by
  apply Classical.byContradiction
  intro hn
  unfold nvOf at h
  rw [List.getElem?_eq_none (by omega)] at h
  cases h

theorem nvOf_some {objs : List OV4} {n : Nat} {a b c : Bool} :
    nvOf objs n = some (a, b, c) ↔ objs[n]? = some (.notify a b c) := by
  unfold nvOf
  cases h : objs[n]? with
  | none => simp
  | some x => cases x <;> simp

theorem mvOf_some {objs : List OV4} {n : Nat} {l : Option Nat} :
    mvOf objs n = some l ↔ objs[n]? = some (.mutex l) := by
  unfold mvOf
  cases h : objs[n]? with
  | none => simp
  | some x => cases x <;> simp

theorem avOf_some {objs : List OV4} {n : Nat} {v : Nat} {b : Bool} {c : Nat} :
    avOf objs n = some (v, b, c) ↔ objs[n]? = some (.atomic v b c) := by
  unfold avOf
  cases h : objs[n]? with
  | none => simp
  | some x => cases x <;> simp

/-- a `Notify` object changes its flags -/
theorem view_set_notify {objs : List OV4} {o : Nat} {a b c a' b' c' : Bool} (h : objs[o]? = some (.notify a b c)) :
    nvOf (objs.set o (.notify a' b' c')) = upd (nvOf objs) o (some (a', b', c')) ∧
    mvOf (objs.set o (.notify a' b' c')) = mvOf objs ∧ avOf (objs.set o (.notify a' b' c')) = avOf objs := by
  obtain ⟨hlt, hx⟩ := List.getElem?_eq_some_iff.1 h
  refine ⟨?_, ?_, ?_⟩ <;> funext n <;> by_cases e : n = o
  · subst e; simp [nvOf, upd, hlt]
  · have : ¬ o = n := fun e' => e e'.symm
    simp [nvOf, upd, e, List.getElem?_set, this]
  · subst e; simp [mvOf, hlt, hx]
  · have : ¬ o = n := fun e' => e e'.symm
    simp [mvOf, List.getElem?_set, this]
  · subst e; simp [avOf, hlt, hx]
  · have : ¬ o = n := fun e' => e e'.symm
    simp [avOf, List.getElem?_set, this]

/-- a mutex changes hands -/
theorem view_set_mutex {objs : List OV4} {o : Nat} {l l' : Option Nat} (h : objs[o]? = some (.mutex l)) :
    mvOf (objs.set o (.mutex l')) = upd (mvOf objs) o (some l') ∧
    nvOf (objs.set o (.mutex l')) = nvOf objs ∧ avOf (objs.set o (.mutex l')) = avOf objs := by
  obtain ⟨hlt, hx⟩ := List.getElem?_eq_some_iff.1 h
  refine ⟨?_, ?_, ?_⟩ <;> funext n <;> by_cases e : n = o
  · subst e; simp [mvOf, upd, hlt]
  · have : ¬ o = n := fun e' => e e'.symm
    simp [mvOf, upd, e, List.getElem?_set, this]
  · subst e; simp [nvOf, hlt, hx]
  · have : ¬ o = n := fun e' => e e'.symm
    simp [nvOf, List.getElem?_set, this]
  · subst e; simp [avOf, hlt, hx]
  · have : ¬ o = n := fun e' => e e'.symm
    simp [avOf, List.getElem?_set, this]

/-- an atomic is stored to -/
theorem view_set_atomic {objs : List OV4} {o : Nat} {v v' : Nat} {b b' : Bool} {c c' : Nat}
    (h : objs[o]? = some (.atomic v b c)) :
    avOf (objs.set o (.atomic v' b' c')) = upd (avOf objs) o (some (v', b', c')) ∧
    nvOf (objs.set o (.atomic v' b' c')) = nvOf objs ∧ mvOf (objs.set o (.atomic v' b' c')) = mvOf objs := by
  obtain ⟨hlt, hx⟩ := List.getElem?_eq_some_iff.1 h
  refine ⟨?_, ?_, ?_⟩ <;> funext n <;> by_cases e : n = o
  · subst e; simp [avOf, upd, hlt]
  · have : ¬ o = n := fun e' => e e'.symm
    simp [avOf, upd, e, List.getElem?_set, this]
  · subst e; simp [nvOf, hlt, hx]
  · have : ¬ o = n := fun e' => e e'.symm
    simp [nvOf, List.getElem?_set, this]
  · subst e; simp [mvOf, hlt, hx]
  · have : ¬ o = n := fun e' => e e'.symm
    simp [mvOf, List.getElem?_set, this]

/-- setting an object to what it is -/
theorem set_same {objs : List OV4} {o : Nat} {x : OV4} (h : objs[o]? = some x) : objs.set o x = objs := by
  obtain ⟨hlt, hx⟩ := List.getElem?_eq_some_iff.1 h
  apply List.ext_getElem?
  intro i
  rw [List.getElem?_set]
  split
  · next e => subst e; simp [hlt, hx]
  · rfl

/-- a new `Notify` (and a new object that is none of the three kinds) -/
theorem view_append_notify (objs : List OV4) (a b c : Bool) (rest : List OV4)
    (hr : ∀ x ∈ rest, x = OV4.other) :
    nvOf (objs ++ (.notify a b c :: rest)) = upd (nvOf objs) objs.length (some (a, b, c)) ∧
    mvOf (objs ++ (.notify a b c :: rest)) = mvOf objs ∧ avOf (objs ++ (.notify a b c :: rest)) = avOf objs := by
  have key : ∀ n, (objs ++ (OV4.notify a b c :: rest))[n]? =
      if n < objs.length then objs[n]? else if n = objs.length then some (.notify a b c)
        else rest[n - objs.length - 1]? := by
    intro n
    by_cases h1 : n < objs.length
    · simp [h1, List.getElem?_append_left h1]
    · rw [List.getElem?_append_right (by omega)]
      by_cases h2 : n = objs.length
      · simp [h2]
      · have : n - objs.length = (n - objs.length - 1) + 1 := by omega
        rw [this, List.getElem?_cons_succ]
        simp [h1, h2]
  have hrest : ∀ k : Nat, rest[k]? = none ∨ rest[k]? = some OV4.other := by
    intro k
    cases h : rest[k]? with
    | none => exact .inl rfl
    | some x => exact .inr (by rw [hr x (List.mem_of_getElem? h)])
  refine ⟨?_, ?_, ?_⟩ <;> funext n
  · unfold nvOf upd
    rw [key]
    by_cases h1 : n < objs.length
    · have : n ≠ objs.length := by omega
      simp [h1, this]
    · by_cases h2 : n = objs.length
      · simp [h2]
      · simp only [h1, h2, if_false]
        have ho : objs[n]? = none := List.getElem?_eq_none (by omega)
        rw [ho]
        rcases hrest (n - objs.length - 1) with e | e <;> rw [e]
  · unfold mvOf
    rw [key]
    by_cases h1 : n < objs.length
    · simp [h1]
    · by_cases h2 : n = objs.length
      · simp [h2]
      · simp only [h1, h2, if_false]
        have ho : objs[n]? = none := List.getElem?_eq_none (by omega)
        rw [ho]
        rcases hrest (n - objs.length - 1) with e | e <;> rw [e]
  · unfold avOf
    rw [key]
    by_cases h1 : n < objs.length
    · simp [h1]
    · by_cases h2 : n = objs.length
      · simp [h2]
      · simp only [h1, h2, if_false]
        have ho : objs[n]? = none := List.getElem?_eq_none (by omega)
        rw [ho]
        rcases hrest (n - objs.length - 1) with e | e <;> rw [e]

/-! ### the control table -/

theorem iaOf_modify (p : Prog) (ctl : List TCtl) (a : Nat) (f : TCtl → TCtl) (ha : a < ctl.length) :
    iaOf p (ctl.modify a f) = upd (iaOf p ctl) a (inflS p (f (ctl.getD a {}))) := by
  funext i
  unfold iaOf upd
  by_cases e : i = a
  · subst e; rw [getD_modify_self _ _ _ _ ha]; simp
  · rw [getD_modify_ne _ _ _ _ _ e]; simp [e]

theorem paOf_modify (p : Prog) (ctl : List TCtl) (a : Nat) (f : TCtl → TCtl) (ha : a < ctl.length) :
    paOf p (ctl.modify a f) = upd (paOf p ctl) a (pendN p (f (ctl.getD a {}))) := by
  funext i
  unfold paOf upd
  by_cases e : i = a
  · subst e; rw [getD_modify_self _ _ _ _ ha]; simp
  · rw [getD_modify_ne _ _ _ _ _ e]; simp [e]

theorem caOf_modify (p : Prog) (ctl : List TCtl) (a : Nat) (f : TCtl → TCtl) (ha : a < ctl.length) :
    caOf p (ctl.modify a f) = upd (caOf p ctl) a (callOf p (f (ctl.getD a {}))) := by
  funext i
  unfold caOf upd
  by_cases e : i = a
  · subst e; rw [getD_modify_self _ _ _ _ ha]; simp
  · rw [getD_modify_ne _ _ _ _ _ e]; simp [e]

theorem waOf_modify (p : Prog) (ctl : List TCtl) (a : Nat) (f : TCtl → TCtl) (ha : a < ctl.length) :
    waOf p (ctl.modify a f) = upd (waOf p ctl) a (aw25 p (f (ctl.getD a {}))) := by
  funext i
  unfold waOf upd
  by_cases e : i = a
  · subst e; rw [getD_modify_self _ _ _ _ ha]; simp
  · rw [getD_modify_ne _ _ _ _ _ e]; simp [e]

/-- the attributes of a record that is at stage 0 -/
theorem fattr_stage0 (p : Prog) (c : TCtl) (h : c.stage = 0) :
    inflS p c = none ∧ pendN p c = none ∧ callOf p c = none ∧ aw25 p c = none := by
  unfold inflS pendN callOf aw25
  rw [h]
  refine ⟨?_, ?_, ?_, ?_⟩
  · cases opOfCtl p c with
    | none => rfl
    | some op => cases op <;> rfl
  · cases opOfCtl p c with
    | none => rfl
    | some op => cases op <;> rfl
  · cases opOfCtl p c with
    | none => rfl
    | some op => cases op <;> rfl
  · cases opOfCtl p c with
    | none => rfl
    | some op => cases op <;> rfl

/-- a new thread (at stage 0) has no attribute -/
theorem attrs_append (p : Prog) (ctl : List TCtl) (c : TCtl) (h : c.stage = 0) :
    iaOf p (ctl ++ [c]) = iaOf p ctl ∧ paOf p (ctl ++ [c]) = paOf p ctl ∧ caOf p (ctl ++ [c]) = caOf p ctl ∧
    waOf p (ctl ++ [c]) = waOf p ctl := by
  obtain ⟨h1, h2, h3, h4⟩ := fattr_stage0 p c h
  obtain ⟨d1, d2, d3, d4⟩ := fattr_stage0 p ({} : TCtl) rfl
  have key : ∀ i, (ctl ++ [c]).getD i {} = if i < ctl.length then ctl.getD i {} else if i = ctl.length then c else {} := by
    intro i
    by_cases h1 : i < ctl.length
    · rw [if_pos h1]; exact getD_append_left _ _ _ _ h1
    · by_cases h2 : i = ctl.length
      · subst h2; simp [getD_append_new]
      · simp only [h1, h2, if_false]
        simp [List.getD, List.getElem?_eq_none (show (ctl ++ [c]).length ≤ i by simp; omega)]
  have old : ∀ i, ¬ i < ctl.length → ctl.getD i {} = {} := by
    intro i hi
    simp [List.getD, List.getElem?_eq_none (show ctl.length ≤ i by omega)]
  refine ⟨?_, ?_, ?_, ?_⟩ <;> funext i
  · unfold iaOf; rw [key]
    by_cases e1 : i < ctl.length
    · simp [e1]
    · by_cases e2 : i = ctl.length <;> simp [e1, e2, old i e1, h1, d1]
  · unfold paOf; rw [key]
    by_cases e1 : i < ctl.length
    · simp [e1]
    · by_cases e2 : i = ctl.length <;> simp [e1, e2, old i e1, h2, d2]
  · unfold caOf; rw [key]
    by_cases e1 : i < ctl.length
    · simp [e1]
    · by_cases e2 : i = ctl.length <;> simp [e1, e2, old i e1, h3, d3]
  · unfold waOf; rw [key]
    by_cases e1 : i < ctl.length
    · simp [e1]
    · by_cases e2 : i = ctl.length <;> simp [e1, e2, old i e1, h4, d4]

end Refine4
end LoomVerif

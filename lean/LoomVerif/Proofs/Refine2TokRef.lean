/-
Refinement, WAIT fragment, part 19: what the steps of the data semantics do to the `park` tokens of the
reference threads: only `park` (the parker's own token: cleared) and `unpark u` (the token of `u`: set, unless
`u` has finished) write a token.
-/
import LoomVerif.Proofs.Refine2Data

namespace LoomVerif
namespace Refine2
open Refine

namespace SCData2

theorem th_modTh (d : SCData2) (t u : Nat) (f : DTh2 → DTh2) :
    (d.modTh t f).th u = if t = u ∧ u < d.ths.length then f (d.th u) else d.th u := by
  simp only [modTh, th, List.getD, List.getElem?_modify]
  by_cases hu : u < d.ths.length
  · by_cases e : t = u <;> simp [hu, e]
  · have : d.ths[u]? = none := List.getElem?_eq_none (by omega)
    simp [this, hu]

/-- every reference thread has in `d'` the token it has in `d` -/
def TokSame (d d' : SCData2) : Prop := ∀ u, (d'.th u).token = (d.th u).token

theorem TokSame.refl (d : SCData2) : TokSame d d := fun _ => rfl

theorem TokSame.modTh_of {d x : SCData2} {t : Nat} {f : DTh2 → DTh2} (hf : ∀ a, (f a).token = a.token)
    (h : TokSame d x) : TokSame d (x.modTh t f) := by
  intro u
  rw [th_modTh]
  split
  · rw [hf]; exact h u
  · exact h u

theorem TokSame.ret_of {d x : SCData2} {t : Nat} {r : Ret} (h : TokSame d x) : TokSame d (x.ret t r) :=
  TokSame.modTh_of (fun _ => rfl) h

theorem TokSame.foldl_of {d : SCData2} (l : List Nat) (f : DTh2 → DTh2) (hf : ∀ a, (f a).token = a.token) :
    ∀ x, TokSame d x → TokSame d (l.foldl (fun d w => d.modTh w f) x) := by
  induction l with
  | nil => intro x h; exact h
  | cons a l ih => intro x h; exact ih _ (TokSame.modTh_of hf h)

theorem TokSame.fields_of {d x y : SCData2} (h : y.ths = x.ths) (hx : TokSame d x) : TokSame d y := by
  intro u
  have : y.th u = x.th u := by unfold th; rw [h]
  rw [this]; exact hx u

macro "tok_same" : tactic => `(tactic|
  repeat' (first
    | exact TokSame.refl _
    | apply TokSame.ret_of
    | (refine TokSame.modTh_of ?_ ?_)
    | (refine TokSame.foldl_of _ _ ?_ _ ?_)
    | (intro _; rfl)
    | (refine TokSame.fields_of rfl ?_)))

/-- the second half of a `cvWait` writes no token -/
theorem stepL_token_cv {p : Prog} {d d' : SCData2} {t : Nat} {l : Option (Nat × Ret)} {m : Nat}
    (hcv : (d.th t).cvNotified = some m) (h : (l, d') ∈ stepL p d t) : TokSame d d' := by
  unfold stepL at h
  simp only [hcv, List.mem_singleton, Prod.mk.injEq] at h
  obtain ⟨_, rfl⟩ := h
  tok_same

/-- a step of an operation other than `park`, `unpark` writes no token -/
theorem stepL_token_keep {p : Prog} {d d' : SCData2} {t : Nat} {l : Option (Nat × Ret)}
    (hcv : (d.th t).cvNotified = none) (hp : opOf p d t ≠ some .park) (hu : ∀ u, opOf p d t ≠ some (.unpark u))
    (h : (l, d') ∈ stepL p d t) : TokSame d d' := by
  unfold stepL at h
  simp only [hcv] at h
  cases ho : opOf p d t with
  | none =>
    simp only [ho, List.mem_singleton, Prod.mk.injEq] at h
    obtain ⟨_, rfl⟩ := h
    tok_same
  | some op =>
    simp only [ho] at h
    cases op <;> simp only [List.not_mem_nil] at h
    case park => exact absurd ho hp
    case unpark u => exact absurd ho (hu u)
    all_goals (repeat' split at h)
    all_goals (simp only [List.mem_singleton, Prod.mk.injEq, List.not_mem_nil] at h)
    all_goals (obtain ⟨_, rfl⟩ := h)
    all_goals tok_same

/-- the spurious return writes no token -/
theorem spuriousL_token_keep {p : Prog} {d d' : SCData2} {t : Nat} {l : Option (Nat × Ret)}
    (h : (l, d') ∈ spuriousL p d t) : TokSame d d' := by
  unfold spuriousL at h
  cases ho : opOf p d t with
  | none => simp [ho] at h
  | some op =>
    cases op <;> simp only [ho] at h
    case nWait n =>
      simp at h
      obtain ⟨_, _, _, rfl⟩ := h
      tok_same
    all_goals (simp at h)

/-- `park`: the parker's token is cleared -/
theorem stepL_token_park {p : Prog} {d d' : SCData2} {t : Nat} {l : Option (Nat × Ret)}
    (hcv : (d.th t).cvNotified = none) (hp : opOf p d t = some .park) (ht : t < d.ths.length)
    (h : (l, d') ∈ stepL p d t) : ∀ u, (d'.th u).token = if u = t then false else (d.th u).token := by
  unfold stepL at h
  simp only [hcv, hp, List.mem_singleton, Prod.mk.injEq] at h
  obtain ⟨_, rfl⟩ := h
  intro u
  unfold ret
  rw [th_modTh, th_modTh]
  by_cases e : u = t
  · subst e
    simp [modTh, ht]
  · have : ¬ t = u := fun e' => e e'.symm
    simp [this, e]

/-- `unpark v`: the token of `v` is set, unless `v` has finished -/
theorem stepL_token_unpark {p : Prog} {d d' : SCData2} {t v : Nat} {l : Option (Nat × Ret)}
    (hcv : (d.th t).cvNotified = none) (hp : opOf p d t = some (.unpark v)) (hv : v < d.ths.length)
    (h : (l, d') ∈ stepL p d t) :
    ∀ u, (d'.th u).token = if u = v ∧ (d.th v).finished = false then true else (d.th u).token := by
  unfold stepL at h
  simp only [hcv, hp] at h
  split at h
  · next hf =>
    simp only [List.mem_singleton, Prod.mk.injEq] at h
    obtain ⟨_, rfl⟩ := h
    intro u
    have : TokSame d (d.ret t .unit) := by tok_same
    rw [this u]
    simp [hf]
  · next hf =>
    simp only [List.mem_singleton, Prod.mk.injEq] at h
    obtain ⟨_, rfl⟩ := h
    intro u
    unfold ret
    rw [th_modTh, th_modTh]
    have hf' : (d.th v).finished = false := by simpa using hf
    by_cases e : u = v
    · subst e
      simp [hf', hv]
      try (split <;> rfl)
    · have : ¬ v = u := fun e' => e e'.symm
      simp [this, e]
      try (split <;> rfl)

/-- `park` and `unpark` advance the pc of the thread -/
theorem stepL_pc_succ {p : Prog} {d d' : SCData2} {t : Nat} {l : Option (Nat × Ret)}
    (hcv : (d.th t).cvNotified = none) (hp : opOf p d t = some .park ∨ ∃ v, opOf p d t = some (.unpark v))
    (ht : t < d.ths.length) (h : (l, d') ∈ stepL p d t) : (d'.th t).pc = (d.th t).pc + 1 := by
  have key : ∀ x : SCData2, x.ths.length = d.ths.length → (x.th t).pc = (d.th t).pc →
      ((x.ret t .unit).th t).pc = (d.th t).pc + 1 := by
    intro x hx hpc
    unfold ret
    rw [th_modTh, if_pos ⟨rfl, by rw [hx]; exact ht⟩]
    show (x.th t).pc + 1 = _
    rw [hpc]
  unfold stepL at h
  rcases hp with hp | ⟨v, hp⟩
  · simp only [hcv, hp, List.mem_singleton, Prod.mk.injEq] at h
    obtain ⟨_, rfl⟩ := h
    refine key _ (by simp [modTh]) ?_
    rw [th_modTh]; split <;> rfl
  · simp only [hcv, hp] at h
    split at h
    · simp only [List.mem_singleton, Prod.mk.injEq] at h
      obtain ⟨_, rfl⟩ := h
      exact key _ rfl rfl
    · simp only [List.mem_singleton, Prod.mk.injEq] at h
      obtain ⟨_, rfl⟩ := h
      refine key _ (by simp [modTh]) ?_
      rw [th_modTh]; split <;> rfl

/-- no spurious return at `park` / `unpark` -/
theorem spuriousL_nil {p : Prog} {d : SCData2} {t : Nat}
    (hp : opOf p d t = some .park ∨ ∃ v, opOf p d t = some (.unpark v)) : spuriousL p d t = [] := by
  unfold spuriousL
  rcases hp with hp | ⟨v, hp⟩ <;> simp [hp]

end SCData2

end Refine2
end LoomVerif

/-
Refinement, part 3: what one stage of the twin does to the components the abstraction relation reads
(`prog`, `ctl`, `spawned`, `events`, the number of loom threads, the object views): the scheduling points
(`branch`, `threadDone`) are `Quiet`; `postAcquire`, `releaseLock`, `notifyEffect`, `notifyWait2`, `spawn`
spelled out; `dropLocals` is the identity on threads without thread-locals.
-/
import LoomVerif.Proofs.RefineRel
import LoomVerif.Proofs.SyncRunOp
import LoomVerif.Proofs.C07Lock
import LoomVerif.Proofs.C08Notify
import LoomVerif.Proofs.C01Choice

namespace LoomVerif
namespace Refine
open Sy C07 C08

/-- `(tid, pc, result)` of an event -/
def triple (e : Event) : Nat × Nat × Ret := (e.tid, e.pc, e.ret)

/-- a step that changes nothing the relation reads, except (possibly) the control table -/
structure Quiet (w w' : World) : Prop where
  prog : w'.prog = w.prog
  spawned : w'.spawned = w.spawned
  events : w'.events = w.events
  len : w'.exec.threads.threads.length = w.exec.threads.threads.length
  view : ViewLe w.exec.objs w'.exec.objs

theorem Quiet.refl (w : World) : Quiet w w := ⟨rfl, rfl, rfl, rfl, ViewLe.refl _⟩

theorem schedule_len {e e' : Exec} {b : Bool} {p : Bool} (h : e.schedule p = .ok (e', b)) :
    e'.threads.threads.length = e.threads.threads.length := by
  unfold Exec.schedule at h
  simp only [bind, Except.bind, pure, Except.pure] at h
  repeat' split at h
  all_goals first
    | (cases h; done)
    | (cases h; simp [Threads.modify])

theorem branch_quiet {w w' : World} {o : Nat} {a : Action} {blk wt : Bool}
    (h : w.branch o a blk wt = .ok w') : Quiet w w' ∧ w'.ctl = w.ctl := by
  have hv := ViewLe.of_touched (branch_objs h)
  unfold World.branch at h
  simp only [bind, Except.bind, pure, Except.pure] at h
  split at h
  · cases h
  · next v hv' =>
    cases h
    have hl := @schedule_len _ v.1 v.2 _ hv'
    refine ⟨⟨rfl, rfl, rfl, ?_, hv⟩, rfl⟩
    rw [hl]
    simp [World.ths, Threads.modifyActive, Threads.modify]

theorem threadDone_quiet {w w' : World} (h : w.threadDone = .ok w') : Quiet w w' ∧ w'.ctl = w.ctl := by
  have hv := ViewLe.of_touched (threadDone_objs h)
  unfold World.threadDone at h
  simp only [bind, Except.bind, pure, Except.pure] at h
  split at h
  · cases h
  · next v hv' =>
    cases h
    have hl := @schedule_len _ v.1 v.2 _ hv'
    refine ⟨⟨rfl, rfl, rfl, ?_, hv⟩, rfl⟩
    rw [hl]
    simp [World.ths, Threads.modifyActive, Threads.modify]

/-! ### the active thread is in the thread table -/

/-- the active thread of `w` (if there is one) is in the thread table.  `Exec.schedule` establishes it (it
indexes the table with the thread it activates: a path entry that names a thread that does not exist makes it fail
with `.internal 31`); the stages that do not schedule keep the active thread and never shrink the table. -/
def InRange (w : World) : Prop := w.ths.isActive = true → w.tid < w.exec.threads.threads.length

theorem schedule_inRange {e e' : Exec} {b : Bool} {p : Bool} (h : e.schedule p = .ok (e', b)) :
    e'.threads.isActive = true → e'.threads.activeId < e'.threads.threads.length := by
  intro ha
  cases hn : e'.threads.active with
  | none => simp [Threads.isActive, hn] at ha
  | some nid =>
    have := Exec.schedule_active_lt h hn
    rw [schedule_len h]
    simp only [Threads.activeId, hn, Option.getD_some]
    exact this

theorem branch_inRange {w w' : World} {o : Nat} {a : Action} {blk wt : Bool}
    (h : w.branch o a blk wt = .ok w') : InRange w' := by
  unfold World.branch at h
  simp only [bind, Except.bind, pure, Except.pure] at h
  split at h
  · cases h
  · next v hv =>
    cases h
    exact @schedule_inRange _ v.1 v.2 _ hv

theorem threadDone_inRange {w w' : World} (h : w.threadDone = .ok w') : InRange w' := by
  unfold World.threadDone at h
  simp only [bind, Except.bind, pure, Except.pure] at h
  split at h
  · cases h
  · next v hv =>
    cases h
    exact @schedule_inRange _ v.1 v.2 _ hv

/-- a stage that keeps the active thread and does not shrink the thread table -/
theorem inRange_of {w w' : World} (ht : w'.tid = w.tid)
    (hl : w.exec.threads.threads.length ≤ w'.exec.threads.threads.length)
    (h : w.tid < w.exec.threads.threads.length) : InRange w' := fun _ => by rw [ht]; omega

theorem InRange.modCtl {w : World} (h : InRange w) (t : Nat) (f : TCtl → TCtl) : InRange (w.modCtl t f) := h

theorem InRange.complete {w : World} (h : InRange w) (r : Ret) : InRange (w.complete r) := h

/-! ### typed getters -/

theorem getCell_ok {w : World} {o : Nat} {cs : CellSt} (h : w.getCell o = .ok cs) :
    w.exec.objs[o]? = some (.cell cs) := by
  unfold World.getCell at h
  split at h
  · next a heq => cases h; exact heq
  · cases h

theorem getMutex_ok' {w : World} {o : Nat} {m : MutexSt} (h : w.getMutex o = .ok m) :
    w.exec.objs[o]? = some (.mutex m) := by
  unfold World.getMutex at h
  split at h
  · next a heq => cases h; exact heq
  · cases h

/-! ### `dropLocals` without thread-locals -/

theorem modify_eq_self {α} (l : List α) (t : Nat) (f : α → α) (h : ∀ a, l[t]? = some a → f a = a) :
    l.modify t f = l := by
  apply List.ext_getElem?
  intro i
  simp only [List.getElem?_modify]
  cases hi : l[i]? with
  | none => rfl
  | some a =>
    by_cases e : t = i
    · subst e; simp [h a hi]
    · simp [e]

theorem modCtl_self (w : World) (t : Nat) (f : TCtl → TCtl) (h : t < w.ctl.length → f (w.ctlOf t) = w.ctlOf t) :
    w.modCtl t f = w := by
  unfold World.modCtl
  rw [modify_eq_self]
  intro a ha
  have hlt : t < w.ctl.length := (List.getElem?_eq_some_iff.1 ha).1
  have : w.ctlOf t = a := by simp [World.ctlOf, List.getD, ha]
  rw [← this]; exact h hlt

/-- a thread that owns no thread-local has nothing to drop -/
theorem dropLocals_frag (w : World) (hl : (w.ctlOf w.tid).locals = [])
    (hq : (w.ctlOf w.tid).dtorQueue = []) : w.dropLocals = w := by
  have key : ∀ c : TCtl, c.locals = [] →
      ({ c with locals := c.locals.map fun (k, _) => (k, none) } : TCtl) = c := by
    intro c h; cases c; simp_all
  have key2 : ∀ c : TCtl, c.dtorQueue = [] → ({ c with dtorQueue := [] } : TCtl) = c := by
    intro c h; cases c; simp_all
  have e1 : (w.modCtl w.tid fun c => { c with locals := c.locals.map fun (k, _) => (k, none) }) = w :=
    modCtl_self _ _ _ (fun _ => key _ hl)
  unfold World.dropLocals
  simp only [hl, List.reverse_nil, List.filterMap_nil, List.foldl_nil]
  rw [e1]
  split
  · exact modCtl_self _ _ _ (fun _ => key2 _ hq)
  · simp
  · rfl

/-! ### lock, unlock -/

theorem mapIdx_len (ths : Threads) (F : Nat → Thread → Thread) :
    ({ ths with threads := ths.threads.mapIdx F } : Threads).threads.length = ths.threads.length := by
  simp

/-- `post_acquire` on a mutex object: fails on a held mutex and changes nothing; on a free one the active thread
becomes the owner -/
theorem postAcquire_obs {w : World} {o : Nat} {m : MutexSt} {w1 : World} {okk : Bool}
    (hm : w.exec.objs[o]? = some (.mutex m)) (h : w.postAcquire o = .ok (w1, okk)) :
    okk = m.lock.isNone ∧ w1.ctl = w.ctl ∧ w1.tid = w.tid ∧ w1.prog = w.prog ∧ w1.spawned = w.spawned ∧
    w1.events = w.events ∧ w1.exec.threads.threads.length = w.exec.threads.threads.length ∧
    (okk = false → w1 = w) ∧
    (okk = true → w1.exec.objs = w.exec.objs.set o (.mutex { m with lock := some w.tid })) := by
  cases hl : m.lock with
  | some i =>
    rw [postAcquire_held hm (by rw [hl]; rfl)] at h
    cases h
    refine ⟨rfl, rfl, rfl, rfl, rfl, rfl, rfl, ?_, ?_⟩
    · intro _; rfl
    · intro e; cases e
  | none =>
    rw [postAcquire_free hm hl] at h
    cases h
    refine ⟨rfl, rfl, rfl, rfl, rfl, rfl, ?_, ?_, ?_⟩
    · simp
    · intro e; cases e
    · intro _; rfl

/-- `release_lock` on a mutex object clears the owner -/
theorem releaseLock_obs {w : World} {o : Nat} {m : MutexSt} {w1 : World}
    (hm : w.exec.objs[o]? = some (.mutex m)) (h : w.releaseLock o = .ok w1) :
    w1.ctl = w.ctl ∧ w1.tid = w.tid ∧ w1.prog = w.prog ∧ w1.spawned = w.spawned ∧
    w1.events = w.events ∧ w1.exec.threads.threads.length = w.exec.threads.threads.length ∧
    ∃ m' : MutexSt, m'.lock = none ∧ w1.exec.objs = w.exec.objs.set o (.mutex m') := by
  cases ha : w.ths.isActive with
  | true =>
    rw [releaseLock_active hm ha] at h
    cases h
    refine ⟨rfl, rfl, rfl, rfl, rfl, ?_, _, rfl, rfl⟩
    simp
  | false =>
    rw [releaseLock_inactive hm ha] at h
    cases h
    exact ⟨rfl, rfl, rfl, rfl, rfl, rfl, _, rfl, rfl⟩

/-! ### notify -/

theorem notifyEffect_obs {w : World} {o : Nat} {ns : NotifySt} {w1 : World}
    (hn : w.exec.objs[o]? = some (.notify ns)) (h : w.notifyEffect o = .ok w1) :
    w1.ctl = w.ctl ∧ w1.tid = w.tid ∧ w1.prog = w.prog ∧ w1.spawned = w.spawned ∧
    w1.events = w.events ∧ w1.exec.threads.threads.length = w.exec.threads.threads.length ∧
    ∃ ns' : NotifySt, ns'.spurious = ns.spurious ∧ ns'.notified = true ∧
      w1.exec.objs = w.exec.objs.set o (.notify ns') := by
  rw [notifyEffect_eq hn] at h
  cases h
  refine ⟨rfl, rfl, rfl, rfl, rfl, ?_,
    { ns with sync := ns.sync.store w.ths.activeT.released w.ths.caus .rel, notified := true }, rfl, rfl, rfl⟩
  simp

theorem notifyWait2_obs {w : World} {o : Nat} {ns : NotifySt} {w1 : World}
    (hn : w.exec.objs[o]? = some (.notify ns)) (h : w.notifyWait2 o = .ok w1) :
    ns.notified = true ∧
    w1.ctl = w.ctl ∧ w1.tid = w.tid ∧ w1.prog = w.prog ∧ w1.spawned = w.spawned ∧
    w1.events = w.events ∧ w1.exec.threads.threads.length = w.exec.threads.threads.length ∧
    w1.exec.objs = w.exec.objs.set o (.notify { ns with notified := false }) := by
  cases hnt : ns.notified with
  | false => rw [notifyWait2_unnotified hn hnt] at h; cases h
  | true =>
    rw [notifyWait2_notified hn hnt] at h
    cases h
    refine ⟨rfl, rfl, rfl, rfl, rfl, rfl, ?_, rfl⟩
    simp [World.setObj, World.setObjs, World.setThs, World.ths, Threads.setCaus, Threads.modifyActive,
      Threads.modify]

/-- the first half of a wait on a notify that cannot return spuriously is a scheduling point -/
theorem notifyWait1_obs {w : World} {o : Nat} {ns : NotifySt} {w1 : World} {st : Nat}
    (hn : w.exec.objs[o]? = some (.notify ns)) (hs : ns.spurious = false)
    (h : w.notifyWait1 o = .ok (w1, st)) : st = 1 ∧ Quiet w w1 ∧ w1.ctl = w.ctl ∧ InRange w1 := by
  rw [notifyWait1_plain hn (by rw [hs]; rfl)] at h
  obtain ⟨w2, hb, he⟩ := map_ok h
  cases he
  exact ⟨rfl, (branch_quiet hb).1, (branch_quiet hb).2, branch_inRange hb⟩

/-! ### spawn -/

theorem newThread_obs {e e' : Exec} {id : Nat} (h : e.newThread = .ok (e', id)) :
    id = e.threads.threads.length ∧ e'.threads.threads.length = e.threads.threads.length + 1 ∧
    e'.objs = e.objs ∧ e'.threads.activeId = e.threads.activeId := by
  unfold Exec.newThread at h
  simp only [bind, Except.bind, pure, Except.pure] at h
  split at h
  · cases h
  · next v hv =>
    cases h
    unfold Threads.newThread at hv
    split at hv
    · cases hv
      refine ⟨rfl, ?_, rfl, rfl⟩
      simp [Threads.modify]
    · cases hv

/-- `spawn b`, spelled out -/
theorem spawn_obs {w w' : World} {c : TCtl} {b : Nat} (h : w.runOp c (.spawn b) = .ok w') :
    ∃ w2 : World, w' = w2.complete .unit ∧ w2.prog = w.prog ∧ w2.tid = w.tid ∧ w2.events = w.events ∧
      w2.ctl = w.ctl ++ [({ body := b } : TCtl)] ∧
      w2.spawned = (b, w.exec.threads.threads.length, w.exec.objs.length) :: w.spawned ∧
      w2.exec.objs = w.exec.objs ++ [.notify { seqCst := true, spurious := false }] ∧
      w2.exec.threads.threads.length = w.exec.threads.threads.length + 1 := by
  rw [runOp_spawn] at h
  simp only [World.pushObj, bind, Except.bind, pure, Except.pure] at h
  split at h
  · cases h
  · next v hv =>
    cases h
    obtain ⟨e', id⟩ := v
    obtain ⟨h1, h2, h3, h4⟩ := newThread_obs hv
    subst h1
    exact ⟨_, rfl, rfl, h4, rfl, rfl, rfl, h3, h2⟩

end Refine
end LoomVerif

/-
C01, pillar 1: what `Sched.backtrack` / `Path.backtrack` do to the DFS stack.
-/
import LoomVerif.Proofs.PathApi

namespace LoomVerif

/-! ### `ThSt.explore` -/

namespace ThSt

/-- `explore` changes a state only by `skip ↦ pending` -/
theorem explore_eq (t : ThSt) : t.explore = if t = .skip then .pending else t := by
  cases t <;> rfl

theorem explore_ne_self {t : ThSt} (h : t.explore ≠ t) : t = .skip ∧ t.explore = .pending := by
  cases t <;> first | exact ⟨rfl, rfl⟩ | exact absurd rfl h

theorem explore_yield : ThSt.yield.explore = .yield := rfl

theorem explore_eq_pending {t : ThSt} : t.explore = .pending ↔ t = .skip ∨ t = .pending := by
  cases t <;> simp [explore]

theorem isEnabled_iff (t : ThSt) : t.isEnabled = true ↔ t ≠ .disabled := by
  cases t <;> simp [isEnabled]

end ThSt

/-! ### the marking rule of `Sched.backtrack` -/

namespace Sched

/-- `s'` is `s` with thread `tid` marked for exploration (the body of `Schedule::backtrack`
after the preemption-bound check):
* only `threads` changes, and its length is kept;
* `tid` out of range: nothing changes;
* thread `tid` enabled (not `disabled`): it is `explore`d (`skip ↦ pending`), all others unchanged;
* thread `tid` `disabled`: every thread is `explore`d. -/
structure MarkSpec (s : Sched) (tid : Nat) (s' : Sched) : Prop where
  fields : s' = { s with threads := s'.threads }
  length : s'.threads.length = s.threads.length
  outOfRange : s.threads.length ≤ tid → s'.threads = s.threads
  enabled : ∀ st, s.threads[tid]? = some st → st ≠ .disabled →
    s'.threads[tid]? = some st.explore ∧ ∀ j : Nat, j ≠ tid → s'.threads[j]? = s.threads[j]?
  disabled : s.threads[tid]? = some .disabled →
    ∀ j : Nat, s'.threads[j]? = (s.threads[j]?).map ThSt.explore

theorem mark_spec (tid : Nat) (s : Sched) : MarkSpec s tid (backtrack.mark tid s) := by
  unfold backtrack.mark
  split
  · rename_i hn
    have hlen : s.threads.length ≤ tid := by simpa using hn
    refine ⟨rfl, rfl, fun _ => rfl, ?_, ?_⟩
    · intro st h; rw [hn] at h; cases h
    · intro h; rw [hn] at h; cases h
  · rename_i st hst
    have hlt : tid < s.threads.length := (List.getElem?_eq_some_iff.1 hst).1
    split
    · rename_i hen
      refine ⟨rfl, by simp, fun h => by omega, ?_, ?_⟩
      · intro st' h hne
        rw [hst] at h; cases h
        refine ⟨by simp [hlt], ?_⟩
        intro j hj
        simp [List.getElem?_set, Ne.symm hj]
      · intro h; rw [hst] at h; cases h; simp [ThSt.isEnabled] at hen
    · rename_i hen
      have hd : st = .disabled := by cases st <;> simp [ThSt.isEnabled] at hen ⊢
      refine ⟨rfl, by simp, fun h => by omega, ?_, ?_⟩
      · intro st' h hne; rw [hst] at h; cases h; exact absurd hd hne
      · intro _ j; simp

/-- `MarkSpec` determines `s'` -/
theorem MarkSpec.unique {s s1 s2 : Sched} {tid : Nat} (h1 : MarkSpec s tid s1)
    (h2 : MarkSpec s tid s2) : s1 = s2 := by
  have ht : s1.threads = s2.threads := by
    apply List.ext_getElem?
    intro j
    cases hst : s.threads[tid]? with
    | none =>
      have hl : s.threads.length ≤ tid := by simpa using hst
      rw [h1.outOfRange hl, h2.outOfRange hl]
    | some st =>
      by_cases hd : st = .disabled
      · subst hd; rw [h1.disabled hst, h2.disabled hst]
      · by_cases hj : j = tid
        · subst hj; rw [(h1.enabled st hst hd).1, (h2.enabled st hst hd).1]
        · rw [(h1.enabled st hst hd).2 j hj, (h2.enabled st hst hd).2 j hj]
  rw [h1.fields, h2.fields, ht]

theorem MarkSpec.eq_mark {s s' : Sched} {tid : Nat} (h : MarkSpec s tid s') :
    s' = backtrack.mark tid s := h.unique (mark_spec tid s)

/-- in every case, a thread state changes only by `skip ↦ pending` -/
theorem MarkSpec.only_skip_pending {s s' : Sched} {tid : Nat} (h : MarkSpec s tid s') :
    ∀ (j : Nat) (st st' : ThSt), s.threads[j]? = some st → s'.threads[j]? = some st' → st' ≠ st →
      st = .skip ∧ st' = .pending := by
  intro j st st' hj hj' hne
  have hr : Rel s s' := by rw [h.eq_mark]; exact mark_rel tid s
  have := congrArg (fun l => l[j]?) hr.threads
  simp only [List.getElem?_map, hj, hj', Option.map_some, Option.some.injEq] at this
  -- st'.explore = st.explore and st' ≠ st
  cases hst : s.threads[tid]? with
  | none =>
    have hl : s.threads.length ≤ tid := by simpa using hst
    rw [h.outOfRange hl, hj] at hj'; cases hj'; exact absurd rfl hne
  | some t0 =>
    by_cases hd : t0 = .disabled
    · subst hd
      have := h.disabled hst j
      rw [hj, hj'] at this
      simp only [Option.map_some, Option.some.injEq] at this
      subst this
      exact ThSt.explore_ne_self hne
    · by_cases hjt : j = tid
      · subst hjt
        rw [hst] at hj; cases hj
        have := (h.enabled _ hst hd).1
        rw [hj'] at this; cases this
        exact ThSt.explore_ne_self hne
      · have := (h.enabled _ hst hd).2 j hjt
        rw [hj, hj'] at this; cases this; exact absurd rfl hne

/-- a `yield` thread is never turned into a backtrack alternative -/
theorem MarkSpec.yield_kept {s s' : Sched} {tid : Nat} (h : MarkSpec s tid s') (j : Nat)
    (hj : s.threads[j]? = some .yield) : s'.threads[j]? = some .yield := by
  have hlt : j < s'.threads.length := by
    rw [h.length]; exact (List.getElem?_eq_some_iff.1 hj).1
  cases hj' : s'.threads[j]? with
  | none => simp at hj'; omega
  | some st' =>
    by_cases hne : st' = .yield
    · rw [hne]
    · have := (h.only_skip_pending j _ _ hj hj' hne).1
      cases this

/-- complete description of `Schedule::backtrack` -/
theorem backtrack_spec (s s' : Sched) (tid : Nat) (bound : Option Nat) :
    s.backtrack tid bound = .ok s' ↔
      s.exploring = true ∧
      match bound with
      | none => MarkSpec s tid s'
      | some b => s.preemptions ≤ b ∧
          (s.preemptions = b → s' = s) ∧ (s.preemptions ≠ b → MarkSpec s tid s') := by
  unfold backtrack
  cases hx : s.exploring with
  | false => simp
  | true =>
    cases bound with
    | none =>
      simp only [Bool.not_true, Bool.false_eq_true, if_false, true_and]
      constructor
      · intro h; cases h; exact mark_spec tid s
      · intro h; rw [h.eq_mark]
    | some b =>
      simp only [Bool.not_true, Bool.false_eq_true, if_false, true_and]
      by_cases h1 : s.preemptions > b
      · simp only [h1, if_true]
        constructor
        · intro h; cases h
        · intro h; omega
      · simp only [h1, if_false]
        by_cases h2 : s.preemptions = b
        · subst h2
          simp only [beq_self_eq_true, if_true]
          constructor
          · intro h; cases h; exact ⟨Nat.le_refl _, fun _ => rfl, fun h => absurd rfl h⟩
          · intro h; rw [h.2.1 trivial]
        · have : (s.preemptions == b) = false := by simpa using h2
          simp only [this, Bool.false_eq_true, if_false]
          constructor
          · intro h; cases h
            exact ⟨by omega, fun h => absurd h h2, fun _ => mark_spec tid s⟩
          · intro h; rw [(h.2.2 h2).eq_mark]

/-- the errors of `Schedule::backtrack` -/
theorem backtrack_error (s : Sched) (tid : Nat) (bound : Option Nat) (e : Panic) :
    s.backtrack tid bound = .error e ↔
      (s.exploring = false ∧ e = .internal 1) ∨
      (s.exploring = true ∧ ∃ b, bound = some b ∧ b < s.preemptions ∧ e = .internal 2) := by
  unfold backtrack
  cases hx : s.exploring with
  | false => simp; exact eq_comm
  | true =>
    cases bound with
    | none => simp
    | some b =>
      simp only [Bool.not_true, Bool.false_eq_true, if_false]
      by_cases h1 : s.preemptions > b
      · simp [h1]; exact eq_comm
      · simp only [h1, if_false]
        split <;> simp <;> omega

theorem Rel.prev {s s' : Sched} (h : Rel s s') : s'.prev = s.prev := by
  rw [h.fields]

end Sched

/-! ### `findExploringSched` -/

namespace Path

/-- no exploring schedule entry at index `j` -/
def NoExploringSchedAt (p : Path) (j : Nat) : Prop :=
  ∀ s, p.schedAt j = some s → s.exploring = false

theorem findExploringSched_spec (p : Path) (point i : Nat) (s : Sched) :
    p.findExploringSched point = some (i, s) ↔
      i ≤ point ∧ p.schedAt i = some s ∧ s.exploring = true ∧
      ∀ j, i < j → j ≤ point → p.NoExploringSchedAt j := by
  induction point with
  | zero =>
    unfold findExploringSched
    constructor
    · intro h
      split at h
      · rename_i s0 hs0
        split at h
        · cases h; exact ⟨Nat.le_refl _, hs0, by assumption, fun j h1 h2 => by omega⟩
        · cases h
      · cases h
    · rintro ⟨hi, hs, hx, _⟩
      have : i = 0 := by omega
      subst this
      simp [hs, hx]
  | succ n ih =>
    unfold findExploringSched
    constructor
    · intro h
      split at h
      · rename_i s0 hs0
        split at h
        · cases h; exact ⟨Nat.le_refl _, hs0, by assumption, fun j h1 h2 => by omega⟩
        · rename_i hx0
          obtain ⟨h1, h2, h3, h4⟩ := ih.1 h
          refine ⟨by omega, h2, h3, ?_⟩
          intro j hj1 hj2
          by_cases hjn : j = n + 1
          · subst hjn; intro s1 hs1; rw [hs0] at hs1; cases hs1; simpa using hx0
          · exact h4 j hj1 (by omega)
      · rename_i hs0
        obtain ⟨h1, h2, h3, h4⟩ := ih.1 h
        refine ⟨by omega, h2, h3, ?_⟩
        intro j hj1 hj2
        by_cases hjn : j = n + 1
        · subst hjn; intro s1 hs1
          rw [hs0] at hs1; cases hs1
        · exact h4 j hj1 (by omega)
    · rintro ⟨hi, hs, hx, hno⟩
      by_cases hin : i = n + 1
      · subst hin; simp [hs, hx]
      · have hrec := ih.2 ⟨by omega, hs, hx, fun j h1 h2 => hno j h1 (by omega)⟩
        have hn := hno (n + 1) (by omega) (Nat.le_refl _)
        cases hs1 : p.schedAt (n + 1) with
        | none => simpa using hrec
        | some s1 =>
          have := hn s1 hs1
          simp [this]; exact hrec

theorem findExploringSched_none (p : Path) (point : Nat) :
    p.findExploringSched point = none ↔ ∀ j, j ≤ point → p.NoExploringSchedAt j := by
  induction point with
  | zero =>
    unfold findExploringSched
    constructor
    · intro h j hj s hs
      have : j = 0 := by omega
      subst this
      rw [hs] at h
      simp only at h
      split at h
      · cases h
      · rename_i hx; simpa using hx
    · intro h
      cases hs : p.schedAt 0 with
      | none => rfl
      | some s => have := h 0 (Nat.le_refl _) s hs; simp [this]
  | succ n ih =>
    unfold findExploringSched
    constructor
    · intro h j hj
      cases hs : p.schedAt (n + 1) with
      | none =>
        rw [hs] at h
        by_cases hjn : j = n + 1
        · subst hjn; intro s1 hs1; rw [hs] at hs1; cases hs1
        · exact ih.1 h j (by omega)
      | some s0 =>
        rw [hs] at h
        simp only at h
        split at h
        · cases h
        · rename_i hx0
          by_cases hjn : j = n + 1
          · subst hjn; intro s1 hs1; rw [hs] at hs1; cases hs1; simpa using hx0
          · exact ih.1 h j (by omega)
    · intro h
      have hrec := ih.2 (fun j hj => h j (by omega))
      cases hs : p.schedAt (n + 1) with
      | none => simpa using hrec
      | some s0 =>
        have := h (n + 1) (Nat.le_refl _) s0 hs
        simp [this]; exact hrec

/-! ### the conservative walk (preemption-bounded DPOR) -/

/-- `ConsWalk p c r`: the walk of the second loop of `Path::backtrack` that starts at schedule
entry `c` ends with target `r` (`some t`: entry `t` is marked; `none`: nothing is marked).
The walk follows `prev` links and stops at the first entry that either
* has a predecessor with a different active thread and is `exploring` (`hit`), or
* has no predecessor (`root`/`rootSkip`; it is marked only if `exploring`).
An entry with a predecessor that has the same active thread *or is not exploring* is passed
over (`next`). -/
inductive ConsWalk (p : Path) : Nat → Option Nat → Prop
  | hit {c q : Nat} {cs ps : Sched} : p.schedAt c = some cs → cs.prev = some q →
      p.schedAt q = some ps → cs.activeIdx ≠ ps.activeIdx → cs.exploring = true →
      ConsWalk p c (some c)
  | root {c : Nat} {cs : Sched} : p.schedAt c = some cs → cs.prev = none →
      cs.exploring = true → ConsWalk p c (some c)
  | rootSkip {c : Nat} {cs : Sched} : p.schedAt c = some cs → cs.prev = none →
      cs.exploring = false → ConsWalk p c none
  | next {c q : Nat} {cs ps : Sched} {r : Option Nat} : p.schedAt c = some cs →
      cs.prev = some q → p.schedAt q = some ps →
      (cs.activeIdx = ps.activeIdx ∨ cs.exploring = false) → ConsWalk p q r →
      ConsWalk p c r

/-- the four rules of the walk as one equivalence -/
theorem consWalk_iff (p : Path) (c : Nat) (r : Option Nat) :
    ConsWalk p c r ↔
      ∃ cs, p.schedAt c = some cs ∧
        match cs.prev with
        | none => r = if cs.exploring then some c else none
        | some q => ∃ ps, p.schedAt q = some ps ∧
            if cs.activeIdx ≠ ps.activeIdx ∧ cs.exploring = true then r = some c
            else ConsWalk p q r := by
  constructor
  · intro h
    cases h with
    | hit a1 a2 a3 a4 a5 =>
      refine ⟨_, a1, ?_⟩; rw [a2]; exact ⟨_, a3, by rw [if_pos ⟨a4, a5⟩]⟩
    | root a1 a2 a3 => refine ⟨_, a1, ?_⟩; rw [a2]; simp [a3]
    | rootSkip a1 a2 a3 => refine ⟨_, a1, ?_⟩; rw [a2]; simp [a3]
    | next a1 a2 a3 a4 a5 =>
      refine ⟨_, a1, ?_⟩; rw [a2]
      refine ⟨_, a3, ?_⟩
      rw [if_neg]
      · exact a5
      · rintro ⟨h1, h2⟩
        rcases a4 with a4 | a4
        · exact h1 a4
        · rw [a4] at h2; cases h2
  · rintro ⟨cs, hcs, h⟩
    cases hprev : cs.prev with
    | none =>
      rw [hprev] at h
      simp only at h
      cases hx : cs.exploring with
      | true => rw [hx] at h; subst h; exact .root hcs hprev hx
      | false => rw [hx] at h; subst h; exact .rootSkip hcs hprev hx
    | some q =>
      rw [hprev] at h
      obtain ⟨ps, hps, h⟩ := h
      split at h
      · rename_i hc; subst h; exact .hit hcs hprev hps hc.1 hc.2
      · rename_i hc
        refine .next hcs hprev hps ?_ h
        by_cases he : cs.activeIdx = ps.activeIdx
        · exact Or.inl he
        · right
          cases hx : cs.exploring with
          | false => rfl
          | true => exact absurd ⟨he, hx⟩ hc


/-- `prev` links point strictly downwards (true of every stack built by `branchThread`, which
sets `prev := lastSchedule`); it makes the fuel of `backtrackConservative` irrelevant -/
def PrevDecr (p : Path) : Prop :=
  ∀ i s q, p.schedAt i = some s → s.prev = some q → q < i

/-- the walk is deterministic -/
theorem ConsWalk.unique {p : Path} {c : Nat} {r1 r2 : Option Nat} (h1 : ConsWalk p c r1)
    (h2 : ConsWalk p c r2) : r1 = r2 := by
  induction h1 generalizing r2 with
  | hit a1 a2 a3 a4 a5 =>
    cases h2 with
    | hit => rfl
    | root => rfl
    | rootSkip b1 b2 b3 => rw [a1] at b1; cases b1; rw [a2] at b2; cases b2
    | next b1 b2 b3 b4 b5 =>
      rw [a1] at b1; cases b1; rw [a2] at b2; cases b2; rw [a3] at b3; cases b3
      rcases b4 with b4 | b4
      · exact absurd b4 a4
      · rw [a5] at b4; cases b4
  | root a1 a2 a3 =>
    cases h2 with
    | hit => rfl
    | root => rfl
    | rootSkip b1 b2 b3 => rw [a1] at b1; cases b1; rw [a3] at b3; cases b3
    | next b1 b2 b3 b4 b5 => rw [a1] at b1; cases b1; rw [a2] at b2; cases b2
  | rootSkip a1 a2 a3 =>
    cases h2 with
    | hit b1 b2 => rw [a1] at b1; cases b1; rw [a2] at b2; cases b2
    | root b1 b2 b3 => rw [a1] at b1; cases b1; rw [a3] at b3; cases b3
    | rootSkip => rfl
    | next b1 b2 b3 b4 b5 => rw [a1] at b1; cases b1; rw [a2] at b2; cases b2
  | next a1 a2 a3 a4 _ ih =>
    cases h2 with
    | hit b1 b2 b3 b4 b5 =>
      rw [a1] at b1; cases b1; rw [a2] at b2; cases b2; rw [a3] at b3; cases b3
      rcases a4 with a4 | a4
      · exact absurd a4 b4
      · rw [b5] at a4; cases a4
    | root b1 b2 b3 => rw [a1] at b1; cases b1; rw [a2] at b2; cases b2
    | rootSkip b1 b2 b3 => rw [a1] at b1; cases b1; rw [a2] at b2; cases b2
    | next b1 b2 b3 b4 b5 =>
      rw [a1] at b1; cases b1; rw [a2] at b2; cases b2
      exact ih b5

/-- a walk that ends at `t` ends at a schedule entry that is exploring -/
theorem ConsWalk.target {p : Path} {c t : Nat} (h : ConsWalk p c (some t)) :
    ∃ ts, p.schedAt t = some ts ∧ ts.exploring = true := by
  generalize hr : some t = r at h
  induction h with
  | hit a1 _ _ _ a5 => cases hr; exact ⟨_, a1, a5⟩
  | root a1 _ a3 => cases hr; exact ⟨_, a1, a3⟩
  | rootSkip => cases hr
  | next _ _ _ _ _ ih => exact ih hr

/-- the target lies at or below the start when `prev` links decrease -/
theorem ConsWalk.target_le {p : Path} (hp : PrevDecr p) {c t : Nat} (h : ConsWalk p c (some t)) :
    t ≤ c := by
  generalize hr : some t = r at h
  induction h with
  | hit => cases hr; exact Nat.le_refl _
  | root => cases hr; exact Nat.le_refl _
  | rootSkip => cases hr
  | next a1 a2 _ _ _ ih => have := hp _ _ _ a1 a2; have := ih hr; omega

/-- result of applying `Schedule::backtrack` to entry `c` of `p` (the common tail of both
loops of `Path::backtrack`) -/
def MarkAt (p : Path) (c tid : Nat) (p' : Path) : Prop :=
  ∃ cs cs', p.schedAt c = some cs ∧ cs.backtrack tid p.bound = .ok cs' ∧ p' = p.setSched c cs'

theorem bindSet_ok {p p' : Path} {cs : Sched} {tid curr : Nat}
    (h : (do let cs' ← cs.backtrack tid p.bound; pure (p.setSched curr cs')) = Except.ok p') :
    ∃ cs', cs.backtrack tid p.bound = .ok cs' ∧ p' = p.setSched curr cs' := by
  cases hb : cs.backtrack tid p.bound with
  | error e => rw [hb] at h; cases h
  | ok cs' => rw [hb] at h; cases h; exact ⟨cs', rfl, rfl⟩

/-- the second loop of `Path::backtrack`, given enough fuel -/
theorem backtrackConservative_spec {p p' : Path} {tid fuel curr : Nat} (hp : PrevDecr p)
    (hf : curr < fuel) (h : p.backtrackConservative tid fuel curr = .ok p') :
    ∃ r, ConsWalk p curr r ∧
      match r with
      | none => p' = p
      | some t => MarkAt p t tid p' := by
  induction fuel generalizing curr with
  | zero => omega
  | succ fuel ih =>
    unfold backtrackConservative at h
    split at h
    · cases h
    · rename_i cs hcs
      split at h
      · rename_i prev hprev
        split at h
        · cases h
        · rename_i ps hps
          split at h
          · rename_i hc
            simp only [Bool.and_eq_true, bne_iff_ne, ne_eq] at hc
            obtain ⟨cs', hb, rfl⟩ := bindSet_ok h
            exact ⟨some curr, .hit hcs hprev hps hc.1 hc.2, cs, cs', hcs, hb, rfl⟩
          · rename_i hc
            have hlt := hp _ _ _ hcs hprev
            obtain ⟨r, hw, hr⟩ := ih (by omega) h
            refine ⟨r, .next hcs hprev hps ?_ hw, hr⟩
            simp only [Bool.and_eq_true, bne_iff_ne, ne_eq, not_and, Bool.not_eq_true] at hc
            by_cases he : cs.activeIdx = ps.activeIdx
            · exact Or.inl he
            · exact Or.inr (hc he)
      · rename_i hprev
        split at h
        · rename_i hx
          obtain ⟨cs', hb, rfl⟩ := bindSet_ok h
          exact ⟨some curr, .root hcs hprev hx, cs, cs', hcs, hb, rfl⟩
        · rename_i hx
          cases h
          exact ⟨none, .rootSkip hcs hprev (by simpa using hx), rfl⟩

theorem setSched_bound (p : Path) (i : Nat) (s : Sched) : (p.setSched i s).bound = p.bound := rfl

theorem schedAt_lt {p : Path} {i : Nat} {s : Sched} (h : p.schedAt i = some s) :
    i < p.branches.length := (List.getElem?_eq_some_iff.1 (schedAt_eq_some h)).1

theorem schedAt_setSched (p : Path) (i j : Nat) (s' : Sched) :
    (p.setSched i s').schedAt j =
      if i = j ∧ j < p.branches.length then some s' else p.schedAt j := by
  unfold schedAt setSched
  simp only [List.getElem?_set]
  by_cases hij : i = j
  · subst hij
    by_cases hl : i < p.branches.length
    · simp [hl]
    · simp [hl]
  · simp [hij]

theorem PrevDecr.setSched {p : Path} (hp : PrevDecr p) {i : Nat} {s s' : Sched}
    (hs : p.schedAt i = some s) (hprev : s'.prev = s.prev) : PrevDecr (p.setSched i s') := by
  intro j t q hj hq
  rw [schedAt_setSched] at hj
  split at hj
  · rename_i hc
    cases hj
    obtain ⟨rfl, _⟩ := hc
    rw [hprev] at hq
    exact hp _ _ _ hs hq
  · exact hp _ _ _ hj hq

/-! ### `Path.backtrack` -/

/-- Post-condition of `Path::backtrack` without a preemption bound. -/
theorem backtrack_post_unbounded {p p' : Path} {point tid : Nat} (hb : p.bound = none)
    (h : p.backtrack point tid = .ok p') :
    point < p.branches.length ∧
    match p.findExploringSched point with
    | none => p' = p
    | some (i, s) =>
      ∃ s', Sched.MarkSpec s tid s' ∧ p' = { p with branches := p.branches.set i (.sched s') } := by
  unfold backtrack at h
  split at h
  · cases h
  · rename_i hpt
    refine ⟨by omega, ?_⟩
    split at h
    · rename_i hf; rw [hf]; cases h; rfl
    · rename_i i s hf
      rw [hf]
      simp only
      cases hbt : s.backtrack tid p.bound with
      | error e => rw [hbt] at h; cases h
      | ok s' =>
        rw [hbt] at h
        simp only [bind, Except.bind, setSched_bound, hb, Option.isSome_none, Bool.false_eq_true, if_false] at h
        have hm := ((Sched.backtrack_spec s s' tid p.bound).1 hbt).2
        rw [hb] at hm
        refine ⟨s', hm, ?_⟩
        split at h <;> (cases h; rfl)

/-- Post-condition of `Path::backtrack` with preemption bound `b`. -/
theorem backtrack_post_bounded {p p' : Path} {point tid b : Nat} (hb : p.bound = some b)
    (hp : PrevDecr p) (h : p.backtrack point tid = .ok p') :
    point < p.branches.length ∧
    match p.findExploringSched point with
    | none => p' = p
    | some (i, s) =>
      s.preemptions ≤ b ∧
      ∃ s', (s.preemptions = b → s' = s) ∧ (s.preemptions ≠ b → Sched.MarkSpec s tid s') ∧
        match s.prev with
        | none => p' = p.setSched i s'
        | some curr =>
          ∃ r, ConsWalk (p.setSched i s') curr r ∧
            match r with
            | none => p' = p.setSched i s'
            | some t =>
              ∃ cs cs', (p.setSched i s').schedAt t = some cs ∧ cs.exploring = true ∧
                cs.preemptions ≤ b ∧ (cs.preemptions = b → cs' = cs) ∧
                (cs.preemptions ≠ b → Sched.MarkSpec cs tid cs') ∧
                p' = (p.setSched i s').setSched t cs' := by
  unfold backtrack at h
  split at h
  · cases h
  · rename_i hpt
    refine ⟨by omega, ?_⟩
    split at h
    · rename_i hf; rw [hf]; cases h; rfl
    · rename_i i s hf
      rw [hf]
      simp only
      have hs := findExploringSched_some hf
      cases hbt : s.backtrack tid p.bound with
      | error e => rw [hbt] at h; cases h
      | ok s' =>
        rw [hbt] at h
        simp only [bind, Except.bind, setSched_bound, hb, Option.isSome_some, if_true] at h
        have hrel := Sched.backtrack_rel hbt
        have hm := ((Sched.backtrack_spec s s' tid p.bound).1 hbt).2
        rw [hb] at hm
        refine ⟨hm.1, s', hm.2.1, hm.2.2, ?_⟩
        rw [← hrel.prev]
        split at h
        · rename_i hprev; rw [hprev]; cases h; rfl
        · rename_i curr hprev
          rw [hprev]
          simp only
          have hp1 : PrevDecr (p.setSched i s') := hp.setSched hs hrel.prev
          have hcl : curr < (p.setSched i s').branches.length + 1 := by
            have := hp _ _ _ hs (hrel.prev ▸ hprev)
            have := schedAt_lt hs
            rw [setSched_length]; omega
          obtain ⟨r, hw, hr⟩ := backtrackConservative_spec hp1 hcl h
          refine ⟨r, hw, ?_⟩
          cases r with
          | none => exact hr
          | some t =>
            obtain ⟨cs, cs', h1, h2, h3⟩ := hr
            have hbd : (p.setSched i s').bound = some b := hb
            rw [hbd] at h2
            have := (Sched.backtrack_spec cs cs' tid (some b)).1 h2
            exact ⟨cs, cs', h1, this.1, this.2.1, this.2.2.1, this.2.2.2, h3⟩

/-- `branchThread` keeps `prev` links decreasing -/
theorem lastScheduleAux_lt (es : List Entry) (i : Nat) (acc : Option Nat) (r : Nat)
    (hacc : ∀ a, acc = some a → a < i) (h : lastScheduleAux es i acc = some r) :
    r < i + es.length := by
  induction es generalizing i acc with
  | nil => simp only [lastScheduleAux] at h; have := hacc r h; simpa using this
  | cons e es ih =>
    cases e with
    | sched s =>
      simp only [lastScheduleAux] at h
      have := ih (i + 1) (some i) (fun a ha => by cases ha; omega) h
      simp only [List.length_cons]; omega
    | load l =>
      simp only [lastScheduleAux] at h
      have := ih (i + 1) acc (fun a ha => by have := hacc a ha; omega) h
      simp only [List.length_cons]; omega
    | spur l =>
      simp only [lastScheduleAux] at h
      have := ih (i + 1) acc (fun a ha => by have := hacc a ha; omega) h
      simp only [List.length_cons]; omega

theorem lastSchedule_lt {p : Path} {r : Nat} (h : p.lastSchedule = some r) :
    r < p.branches.length := by
  have := lastScheduleAux_lt p.branches 0 none r (fun a ha => by cases ha) h
  omega

theorem PrevDecr.branchThread {p p' : Path} {seed : List ThSt} {pk : Bool} {r : Option Nat}
    (hp : PrevDecr p) (h : p.branchThread seed pk = .ok (p', r)) : PrevDecr p' := by
  rcases branchThread_ok h with rfl | ⟨_, _, _, rfl⟩
  · exact hp
  · intro j t q hj hq
    unfold schedAt at hj
    simp only at hj
    by_cases hlt : j < p.branches.length
    · rw [List.getElem?_append_left hlt] at hj
      exact hp j t q hj hq
    · by_cases hje : j = p.branches.length
      · subst hje
        simp only [List.getElem?_append_right (Nat.le_refl _), Nat.sub_self,
          List.getElem?_cons_zero] at hj
        cases hj
        exact lastSchedule_lt hq
      · rw [List.getElem?_eq_none (by simp; omega)] at hj
        cases hj

theorem PrevDecr.backtrackConservative {p p' : Path} {tid fuel curr : Nat} (hp : PrevDecr p)
    (h : p.backtrackConservative tid fuel curr = .ok p') : PrevDecr p' := by
  induction fuel generalizing curr with
  | zero => unfold Path.backtrackConservative at h; cases h; exact hp
  | succ fuel ih =>
    unfold Path.backtrackConservative at h
    split at h
    · cases h
    · rename_i cs hcs
      split at h
      · split at h
        · cases h
        · split at h
          · obtain ⟨cs', hb, rfl⟩ := bindSet_ok h
            exact hp.setSched hcs (Sched.backtrack_rel hb).prev
          · exact ih h
      · split at h
        · obtain ⟨cs', hb, rfl⟩ := bindSet_ok h
          exact hp.setSched hcs (Sched.backtrack_rel hb).prev
        · cases h; exact hp

theorem PrevDecr.backtrack {p p' : Path} {point tid : Nat} (hp : PrevDecr p)
    (h : p.backtrack point tid = .ok p') : PrevDecr p' := by
  unfold Path.backtrack at h
  split at h
  · cases h
  · split at h
    · cases h; exact hp
    · rename_i i s hf
      have hs := findExploringSched_some hf
      cases hbt : s.backtrack tid p.bound with
      | error e => rw [hbt] at h; cases h
      | ok s' =>
        rw [hbt] at h
        simp only [bind, Except.bind] at h
        have hp1 : PrevDecr (p.setSched i s') := hp.setSched hs (Sched.backtrack_rel hbt).prev
        split at h
        · cases h; exact hp1
        · split at h
          · exact hp1.backtrackConservative h
          · cases h; exact hp1

theorem PrevDecr.new (cap : Nat) (bound : Option Nat) (x : Bool) : PrevDecr (Path.new cap bound x) := by
  intro i s q hs _
  simp [Path.new, schedAt] at hs

end Path
end LoomVerif

/-
Race exactness on the WAIT fragment: the condvar operations `cvWait`, `cvOne`, `cvAll` keep `RC2`.
-/
import LoomVerif.Proofs.Race2Rel

namespace LoomVerif
namespace Race2
open Refine Refine2 Sy C07 C08 Clocks Race

/-! ### one clock acquired by a list of threads -/

/-- the threads of `l` acquire `c`, one after the other -/
def acqAll (σ : CS) (l : List Nat) (c : VV) : CS := l.foldl (fun σ u => σ.acq u c) σ

theorem acqAll_cons (σ : CS) (u : Nat) (l : List Nat) (c : VV) :
    acqAll σ (u :: l) c = acqAll (σ.acq u c) l c := rfl

theorem acqAll_mtx (σ : CS) (l : List Nat) (c : VV) : (acqAll σ l c).mtx = σ.mtx := by
  induction l generalizing σ with
  | nil => rfl
  | cons u l ih => rw [acqAll_cons, ih]; rfl

theorem acqAll_acc (σ : CS) (l : List Nat) (c : VV) : (acqAll σ l c).acc = σ.acc := by
  induction l generalizing σ with
  | nil => rfl
  | cons u l ih => rw [acqAll_cons, ih]; rfl

theorem acqAll_ev (σ : CS) (l : List Nat) (c : VV) : (acqAll σ l c).ev = σ.ev := by
  induction l generalizing σ with
  | nil => rfl
  | cons u l ih => rw [acqAll_cons, ih]; rfl

theorem acqAll_thr_not (σ : CS) (l : List Nat) (c : VV) {i : Nat} (h : i ∉ l) : (acqAll σ l c).thr i = σ.thr i := by
  induction l generalizing σ with
  | nil => rfl
  | cons u l ih =>
    rw [acqAll_cons, ih _ (fun hm => h (List.mem_cons_of_mem _ hm))]
    show upd σ.thr u _ i = _
    rw [upd_ne _ _ (fun e => h (by rw [e]; exact List.mem_cons_self))]

theorem acqAll_thr_mem (σ : CS) (l : List Nat) (c : VV) (hnd : l.Nodup) {i : Nat} (h : i ∈ l) :
    (acqAll σ l c).thr i = (σ.thr i).join c := by
  induction l generalizing σ with
  | nil => cases h
  | cons u l ih =>
    rw [List.nodup_cons] at hnd
    rw [acqAll_cons]
    rcases List.mem_cons.1 h with rfl | h'
    · rw [acqAll_thr_not _ _ _ hnd.1]
      show upd σ.thr i _ i = _
      rw [upd_self]
    · rw [ih _ hnd.2 h']
      show (upd σ.thr u _ i).join c = _
      rw [upd_ne _ _ (fun (e : i = u) => hnd.1 (by rw [← e]; exact h'))]

theorem Good.acqAll {σ : CS} (h : Good σ) (l : List Nat) {c : VV} (hc : SideGood σ c) : Good (acqAll σ l c) := by
  induction l generalizing σ with
  | nil => exact h
  | cons u l ih =>
    rw [acqAll_cons]
    exact ih (h.acq u c hc.om hc.cl) (hc.acq u c)

theorem SideGood.acqAll {σ : CS} {Z : VV} (h : SideGood σ Z) (l : List Nat) (c : VV) :
    SideGood (Race2.acqAll σ l c) Z := by
  induction l generalizing σ with
  | nil => exact h
  | cons u l ih =>
    rw [acqAll_cons]
    exact ih (h.acq u c)

theorem XInv.acqAll {n : Nat} {β : Nat → Nat} {T R : CS} (hx : XInv n β T R) (hinj : Inj n β) (l : List Nat)
    (hl : ∀ t, t ∈ l → t < n) {cT cR : VV} (hz : SideX n β T R cT cR) :
    XInv n β (Race2.acqAll T l cT) (Race2.acqAll R (l.map β) cR) := by
  induction l generalizing T R with
  | nil => exact hx
  | cons u l ih =>
    rw [List.map_cons, acqAll_cons, acqAll_cons]
    exact ih (hx.acq hinj u (hl u List.mem_cons_self) cT cR hz) (fun t ht => hl t (List.mem_cons_of_mem _ ht))
      (hz.ev rfl rfl)

/-- `cvAll` on the reference side: every thread of `l` is notified and acquires `c` -/
theorem LinkR2.wakeAll {p : Prog} {s : SC.St} {σ : CS} {mq : Nat → List VV} (h : LinkR2 p s σ mq) (l : List Nat)
    (c : VV) (hl : ∀ u, u ∈ l → u < s.ths.length) : LinkR2 p (Race2.wakeAll l c s) (acqAll σ l c) mq := by
  induction l generalizing s σ with
  | nil => exact h
  | cons u l ih =>
    rw [acqAll_cons]
    show LinkR2 p (Race2.wakeAll l c (s.modTh u _)) _ mq
    exact ih (h.wake (hl u List.mem_cons_self) c)
      (fun u' hu' => by rw [modTh_len]; exact hl u' (List.mem_cons_of_mem _ hu'))

theorem wakeAll_fields (l : List Nat) (c : VV) (s : SC.St) :
    (wakeAll l c s).verdict = s.verdict ∧ (wakeAll l c s).rxDropped = s.rxDropped := by
  induction l generalizing s with
  | nil => exact ⟨rfl, rfl⟩
  | cons u l ih =>
    show (wakeAll l c (s.modTh u _)).verdict = _ ∧ (wakeAll l c (s.modTh u _)).rxDropped = _
    exact ih _

theorem cv_key5_wakeFrom (t u : Thread) :
    key5 (t.wakeFrom u) = key5 { t with causality := t.causality.join u.causality } := by
  unfold Thread.wakeFrom
  simp only
  split <;> rfl

section
variable {w w' : World} {s : SC.St}

/-! ### what `R2` says about the waiters of a condvar -/

/-- the condvar object, its waiter list and the reference queue -/
theorem cv_waiters2 (hRC : RC2 w s) {vi : Nat} (hv : vi < w.prog.cfg.nCondvars) :
    ∃ cs : CondvarSt, w.exec.objs[w.cvObj vi]? = some (.condvar cs) ∧
      objView2 w.exec.objs (cvIdx w.prog vi) = some (.condvar cs.waiters) ∧
      s.cvQueue.getD vi [] = cs.waiters.map (body w) ∧ cs.waiters.Nodup ∧
      ∀ i, i ∈ cs.waiters → i < w.ctl.length ∧ (w.ctlOf i).stage = 2 ∧
        ∃ m, pendCv w.prog (w.ctlOf i) = some (vi, m) := by
  obtain ⟨ws, hws, hcq, hnd, hmem⟩ := hRC.r.c.o.cv.q vi hv
  obtain ⟨cs, hcobj, hcws⟩ := objView2_condvar hws
  subst hcws
  exact ⟨cs, hcobj, hws, hcq, hnd, hmem⟩

/-- a thread that is at an operation has not begun its epilogue -/
theorem cv_fin0_of_op (hRC : RC2 w s) {i : Nat} (hi : i < w.ctl.length) {op : Op} (hop : opAtI w i = some op) :
    fin w i = 0 := by
  apply Classical.byContradiction
  intro hne
  have := hRC.r.c.x.epi i hi hne
  rw [show opOfCtl w.prog (w.ctl.getD i {}) = opAtI w i from rfl, hop] at this
  cases this

/-! ### waking a list of waiters -/

/-- **the active thread wakes the threads of `l`** (waiters of a condvar, all inside a `cvWait`) and completes its
operation: in the twin each of them joins the causality of the active thread (`Threads.wake`), the condvar object
is replaced by another condvar object; in the reference each of them acquires the clock of the notifier right
after its tick -/
theorem cvWake_core2 (hRC : RC2 w s) (hact : w.tid < w.ctl.length) {op : Op} (hop : opAt2 w = some op)
    (hn1 : ∀ n, op ≠ .nWait n) (hn2 : op ≠ .park) (hn3 : ∀ b, op ≠ .join b)
    {o : Nat} {cs : CondvarSt} (cs' : CondvarSt) (hx : w.exec.objs[o]? = some (.condvar cs))
    (l : List Nat) (hnd : l.Nodup)
    (hl : ∀ t, t ∈ l → t < w.ctl.length ∧ t ≠ w.tid ∧ ∃ v m, opAtI w t = some (.cvWait v m))
    (r : Ret) {s' : SC.St}
    (hs' : ∀ σR mR, LinkR2 w.prog (s.tick (body w w.tid)) σR mR →
      LinkR2 w.prog s' (acqAll σR (l.map (body w)) (σR.thr (body w w.tid))) mR)
    (hv : s'.verdict = none) (hnd' : ∀ q, s'.rxDropped.getD q false = false) :
    NewSt w (((w.setObj o (.condvar cs')).setThs (l.foldl (fun ths t => ths.wake t) w.ths)).complete r) s' := by
  obtain ⟨σT, σR, mT, mR, hc⟩ := hRC.clk
  have ht := nthr_tid2 hRC hact
  have hf0 := fin0 hRC hact hop
  have hpc : pendClk w σT w.tid = VV.zero := pendClk_of_op (by rw [opAtI_tid2]; exact hop) hn1 hn2 hn3
  have hbt := body_lt_ths2 hRC.r hact
  obtain ⟨hT, hO⟩ := unpack hRC.inv hRC.inv2 hc.lt
  have hTt := hT w.tid ht
  have hfw := foldl_wake_len l w.ths
  have hFW := foldl_wake l w.ths hnd
  have ht1 : ((w.setObj o (.condvar cs')).setThs (l.foldl (fun ths t => ths.wake t) w.ths)).tid = w.tid := hfw.2
  have hsame : ∀ n, SameObj w.exec.objs (w.exec.objs.set o (.condvar cs')) n :=
    fun n => SameObj.set_same hx (x' := .condvar cs') rfl rfl rfl (fun _ => rfl) (by intro c; simp) (by intro c; simp) n
  have hlt : ∀ t, t ∈ l → t < nthr w := fun t ht' => by rw [← nthr_eq2 hRC.r]; exact (hl t ht').1
  have htl : w.tid ∉ l := fun hm => (hl _ hm).2.1 rfl
  have hctl := fun i => complete_ctlOf w
    ((w.setObj o (.condvar cs')).setThs (l.foldl (fun ths t => ths.wake t) w.ths)) r i ht1 rfl hact
  have hfinl : ∀ t, t ∈ l → fin w t = 0 := by
    intro t ht'
    obtain ⟨hlt', _, v, m, hopt⟩ := hl t ht'
    exact cv_fin0_of_op hRC hlt' hopt
  have hpcl : ∀ t, t ∈ l → pendClk w σT t = VV.zero := by
    intro t ht'
    obtain ⟨_, _, v, m, hopt⟩ := hl t ht'
    exact pendClk_of_op hopt (by intro n; simp) (by simp) (by intro b; simp)
  -- the thread table
  have hgetIn : ∀ t, t ∈ l →
      key5 ((((w.setObj o (.condvar cs')).setThs (l.foldl (fun ths t => ths.wake t) w.ths)).complete r).ths.get t) =
        key5 { w.ths.get t with causality := (w.ths.get t).causality.join (w.ths.get w.tid).causality } := by
    intro t ht'
    have := hFW.1 t ht' (hl t ht').2.1 (hlt t ht')
    show key5 ((l.foldl (fun ths t => ths.wake t) w.ths).get t) = _
    rw [this]
    exact cv_key5_wakeFrom _ _
  have hgetOut : ∀ j, j ∉ l →
      key5 ((((w.setObj o (.condvar cs')).setThs (l.foldl (fun ths t => ths.wake t) w.ths)).complete r).ths.get j) =
        key5 (w.ths.get j) := by
    intro j hj
    have := hFW.2 j (.inl hj)
    show key5 ((l.foldl (fun ths t => ths.wake t) w.ths).get j) = _
    rw [this]
  have hfinEq : ∀ j, fin (((w.setObj o (.condvar cs')).setThs
      (l.foldl (fun ths t => ths.wake t) w.ths)).complete r) j = fin w j := by
    intro j
    unfold fin
    rw [hctl]
    split
    · next e => rw [e]; rfl
    · rfl
  have hbodyEq : ∀ j, body (((w.setObj o (.condvar cs')).setThs
      (l.foldl (fun ths t => ths.wake t) w.ths)).complete r) j = body w j := by
    intro j
    unfold body
    rw [hctl]
    split
    · next e => rw [e]; rfl
    · rfl
  have hmtxEq : (acqAll σT l (σT.thr w.tid)).mtx = σT.mtx := acqAll_mtx _ _ _
  have hI := assemble (w' := ((w.setObj o (.condvar cs')).setThs
      (l.foldl (fun ths t => ths.wake t) w.ths)).complete r) hRC hc.lt
    (σT' := acqAll σT l (σT.thr w.tid)) (mT' := mT) rfl rfl hfw.1
    (by show _ ≤ (w.exec.objs.set _ _).length; simp)
    (by intro i hi; rw [hctl, if_neg hi]) (hbodyEq _) (by intro h; rw [hf0] at h; omega)
    (by
      -- the active thread
      obtain ⟨hs1, hs2⟩ := sameThr_of_key5 (hgetOut w.tid htl)
      refine ThrInv.exact ?_ ?_ ?_ ?_ ?_ ?_
      · rw [hs1.rel]; exact hTt.rel
      · intro o' ho'
        rw [hs2] at ho'
        show o' < (w.exec.objs.set _ _).length
        rw [List.length_set]; exact hTt.ob o' ho'
      · intro b j n ho' hm hij
        rw [hs2] at ho'
        right
        rw [hfinEq]
        rcases hTt.jo b j n ho' hm hij with h1 | h1
        · rw [pend_none_of_op2 hop hn3] at h1; cases h1
        · exact h1
      · rw [acqAll_thr_not _ _ _ htl, hs1.caus]; exact eq_caus2 hc.lt ht hpc
      · intro _
        have hk := hTt.tok (by rw [hf0]; omega)
        rw [hmtxEq, hbodyEq, hs1.uc, hs1.caus]
        exact hk
      · intro _ htk
        rw [hs1.tok] at htk
        rw [hs1.uc]
        exact hTt.tokz (by rw [hf0]; omega) htk)
    (by
      intro i hi e
      by_cases hm : i ∈ l
      · -- a woken thread
        right
        have hTi := hT i hi
        obtain ⟨r1, r2, r3, r4, r5⟩ := readers_of_key5 (hgetIn i hm)
        have r1' : tcaus (((w.setObj o (.condvar cs')).setThs
            (l.foldl (fun ths t => ths.wake t) w.ths)).complete r) i = (tcaus w i).join (tcaus w w.tid) := r1
        have r3' : topo (((w.setObj o (.condvar cs')).setThs
            (l.foldl (fun ths t => ths.wake t) w.ths)).complete r) i = topo w i := r3
        have hfi := hfinl i hm
        refine ThrInv.exact ?_ ?_ ?_ ?_ ?_ ?_
        · rw [r2]; exact hTi.rel
        · intro o' ho'
          rw [r3'] at ho'
          show o' < (w.exec.objs.set _ _).length
          rw [List.length_set]; exact hTi.ob o' ho'
        · intro b j n ho' hm' hij
          rw [r3'] at ho'
          right
          rw [hfinEq]
          rcases hTi.jo b j n ho' hm' hij with h1 | h1
          · obtain ⟨_, _, v, m, hopt⟩ := hl i hm
            have : pend w i = none := by
              apply pend_notJoin
              intro b' hb'
              rw [hopt] at hb'
              cases hb'
            rw [this] at h1; cases h1
          · exact h1
        · rw [acqAll_thr_mem _ _ _ hnd hm, r1', eq_caus2 hc.lt hi (hpcl i hm), eq_caus2 hc.lt ht hpc]
        · intro _
          have hk := hTi.tok (by rw [hfi]; omega)
          rw [hmtxEq, hbodyEq, r4, r1']
          exact ⟨hk.1, le_trans hk.2 (join_mono (le_join_left _ _) (le_refl _))⟩
        · intro _ htk
          rw [r5] at htk
          rw [r4]
          exact hTi.tokz (by rw [hfi]; omega) htk
      · left
        obtain ⟨hs1, hs2⟩ := sameThr_of_key5 (hgetOut i hm)
        exact ⟨hs1, hs2, acqAll_thr_not _ _ _ hm, fun _ => by rw [hmtxEq]⟩)
    (fun m => by rw [hmtxEq]; exact le_refl _)
    (fun b j n _ => by
      show (objHb w.exec.objs n).le (objHb (w.exec.objs.set _ _) n)
      rw [(hsame n).hb]; exact le_refl _)
    (fun m' _ => .inl ⟨hsame _, by rw [hmtxEq]⟩) (fun n _ => .inl ⟨hsame _, by rw [hmtxEq]⟩)
    (fun q _ => .inl ⟨hsame _, by rw [hmtxEq], rfl⟩)
    (fun c _ => .inl ⟨hsame _, fun _ => by rw [acqAll_acc]⟩)
    (by
      refine nhb_frame (w' := ((w.setObj o (.condvar cs')).setThs
        (l.foldl (fun ths t => ths.wake t) w.ths)).complete r) hO (fun b j n _ => (hsame n).hb) ?_ ?_
      · intro j; rw [hfinEq]
      · intro j h10
        have hj : j ∉ l := fun hm => by rw [hfinl j hm] at h10; omega
        exact (sameThr_of_key5 (hgetOut j hj)).1.caus)
    (fun b _ => by rw [hmtxEq])
  have hX1 := hc.x.tickR hc.gt hc.gr (inj_body2 hRC.r) w.tid hact
  refine newSt_complete hact _ r ht1 rfl hv hnd' ⟨hI.1, hI.2.1⟩ hI.2.2 (hs' _ _ (hc.lr.tick hbt))
    (Good.acqAll hc.gt _ (SideGood.thread hc.gt w.tid))
    (Good.acqAll (hc.gr.tick _) _ (SideGood.thread (hc.gr.tick _) _))
    (XInv.acqAll hX1 (inj_body2 hRC.r) l (fun t ht' => (hl t ht').1) (SideX.thread hX1 w.tid hact)) ?_ ?_ ?_
  · intro q hq
    exact (hc.mx q hq).imp fun _ _ hh => hh.ev (acqAll_ev _ _ _) (acqAll_ev _ _ _)
  · intro q Z hq hZ
    exact (hc.mgt q Z hq hZ).acqAll _ _
  · intro q Z hq hZ
    exact ((hc.mgr q Z hq hZ).tick _).acqAll _ _

/-- a waiter of a condvar is another thread, inside a `cvWait` -/
theorem cv_waiter_facts (_hRC : RC2 w s) {op : Op} (hop : opAt2 w = some op) (hncv : ∀ v m, op ≠ .cvWait v m)
    {t vi : Nat} (h : t < w.ctl.length ∧ (w.ctlOf t).stage = 2 ∧ ∃ m, pendCv w.prog (w.ctlOf t) = some (vi, m)) :
    t < w.ctl.length ∧ t ≠ w.tid ∧ ∃ v m, opAtI w t = some (.cvWait v m) := by
  obtain ⟨h1, _, m, hm⟩ := h
  have hopt : opAtI w t = some (.cvWait vi m) := (pendCv_some hm).1
  refine ⟨h1, ?_, vi, m, hopt⟩
  intro e
  subst e
  rw [opAtI_tid2, hop] at hopt
  cases hopt
  exact hncv _ _ rfl

theorem clk_cvOne2 (hRC : RC2 w s) (hact : w.tid < w.ctl.length) {vi : Nat}
    (hop : opAt2 w = some (.cvOne vi)) (hv : vi < w.prog.cfg.nCondvars)
    (h : w.runOp (w.ctlOf w.tid) (.cvOne vi) = .ok w') : QuietOut2 w s w' ∨ RealOut2 w s w' := by
  obtain ⟨cs, hcobj, _, hcq, hnd, hmem⟩ := cv_waiters2 hRC hv
  have hC : pendCv w.prog (w.ctlOf w.tid) = none := pendCv_of_op hop (by simp)
  have hcv : (s.th (body w w.tid)).cvNotified = none := (frag_cv hRC hact hC).2
  have ho : SC.opOf w.prog s (body w w.tid) = some (.cvOne vi) := (opOf_eq2 hRC.r hact).trans hop
  rw [runOp_cvOne] at h
  split at h
  · next hs0 =>
    left
    have hs0' : (w.ctlOf w.tid).stage = 0 := by simpa using hs0
    exact quiet_branch2 hRC hact hop (by intro b; simp) (by intro i r n; simp) (by intro v m; simp)
      (by rw [hs0']; decide) 1 h (cv_lt2 hRC.r hv) (fun b j n hm e => sp_ne_cv2 hRC.r hm hv e.symm)
  · right
    simp only [getCv_of hcobj, bind, Except.bind, pure, Except.pure] at h
    split at h
    · next hw0 =>
      cases h
      rw [hw0] at hcq
      refine realOut_complete hRC hact hop (by intro n; simp) _ _ rfl rfl (step_cvOne_nil hcv ho hcq) ?_
      exact noop_core2 hRC hact hop (by intro n; simp) (by simp) (by intro b; simp) _
        (fun σR mR hL => hL.ret _ _) hRC.fs.1 hRC.nd
    · next t0 rest hw0 =>
      cases h
      rw [hw0] at hcq hnd hmem
      have hbl : body w t0 < s.ths.length := body_lt_ths2 hRC.r (hmem t0 List.mem_cons_self).1
      refine realOut_complete hRC hact hop (by intro n; simp) _ _ rfl rfl
        (step_cvOne_cons (u := body w t0) (rest := rest.map (body w)) hcv ho hcq) ?_
      refine cvWake_core2 hRC hact hop (by intro n; simp) (by simp) (by intro b; simp) { cs with waiters := rest }
        hcobj [t0] (by simp) ?_ .unit ?_ hRC.fs.1 hRC.nd
      · intro t ht
        have e : t = t0 := by simpa using ht
        subst e
        exact cv_waiter_facts hRC hop (by intro v m; simp) (hmem t List.mem_cons_self)
      · intro σR mR hL
        have e : σR.thr (body w w.tid) = (s.tick (body w w.tid)).vc (body w w.tid) := hL.thr _
        rw [e]
        refine LinkR2.ret ?_ _ _
        exact LinkR2.wake (s := { s.tick (body w w.tid) with cvQueue := s.cvQueue.set vi (rest.map (body w)) })
          (hL.fields _ rfl rfl rfl rfl rfl rfl rfl rfl rfl)
          (by show body w t0 < (s.tick (body w w.tid)).ths.length; rw [tick_len2]; exact hbl) _

theorem clk_cvAll2 (hRC : RC2 w s) (hact : w.tid < w.ctl.length) {vi : Nat}
    (hop : opAt2 w = some (.cvAll vi)) (hv : vi < w.prog.cfg.nCondvars)
    (h : w.runOp (w.ctlOf w.tid) (.cvAll vi) = .ok w') : QuietOut2 w s w' ∨ RealOut2 w s w' := by
  obtain ⟨cs, hcobj, _, hcq, hnd, hmem⟩ := cv_waiters2 hRC hv
  have hC : pendCv w.prog (w.ctlOf w.tid) = none := pendCv_of_op hop (by simp)
  have hcv : (s.th (body w w.tid)).cvNotified = none := (frag_cv hRC hact hC).2
  have ho : SC.opOf w.prog s (body w w.tid) = some (.cvAll vi) := (opOf_eq2 hRC.r hact).trans hop
  rw [runOp_cvAll] at h
  split at h
  · next hs0 =>
    left
    have hs0' : (w.ctlOf w.tid).stage = 0 := by simpa using hs0
    exact quiet_branch2 hRC hact hop (by intro b; simp) (by intro i r n; simp) (by intro v m; simp)
      (by rw [hs0']; decide) 1 h (cv_lt2 hRC.r hv) (fun b j n hm e => sp_ne_cv2 hRC.r hm hv e.symm)
  · right
    simp only [getCv_of hcobj, bind, Except.bind, pure, Except.pure] at h
    cases h
    have hst := step_cvAll hcv ho
    rw [hcq] at hst
    refine realOut_complete hRC hact hop (by intro n; simp) _ _ rfl rfl hst ?_
    refine cvWake_core2 hRC hact hop (by intro n; simp) (by simp) (by intro b; simp) { cs with waiters := [] }
      hcobj cs.waiters hnd ?_ .unit ?_
      ((wakeAll_fields _ _ _).1.trans hRC.fs.1) (fun q => by
        show (wakeAll (cs.waiters.map (body w)) ((s.tick (body w w.tid)).vc (body w w.tid))
          (s.tick (body w w.tid))).rxDropped.getD q false = false
        rw [(wakeAll_fields _ _ _).2]; exact hRC.nd q)
    · intro t ht
      exact cv_waiter_facts hRC hop (by intro v m; simp) (hmem t ht)
    · intro σR mR hL
      have e : σR.thr (body w w.tid) = (s.tick (body w w.tid)).vc (body w w.tid) := hL.thr _
      rw [e]
      refine LinkR2.ret ?_ _ _
      refine LinkR2.fields (LinkR2.wakeAll hL _ _ ?_) _ rfl rfl rfl rfl rfl rfl rfl rfl rfl
      intro u hu
      obtain ⟨t, ht, rfl⟩ := List.mem_map.1 hu
      rw [tick_len2]
      exact body_lt_ths2 hRC.r (hmem t ht).1

/-! ### `cvWait` -/

/-- **the first half of `cvWait`**: the world is in the normal form `W2 w O F` (the thread has joined the waiter
list of the condvar and released the mutex: the mutex object has acquired the causality of the thread, every other
object reads the same, the thread entries keep their clocks), the control record goes to stage 2 and the thread
blocks itself (`rt::block`) -/
theorem cvWait1_core (hRC : RC2 w s) (hact : w.tid < w.ctl.length) {vi mi : Nat}
    (hop : opAt2 w = some (.cvWait vi mi)) (hv : vi < w.prog.cfg.nCondvars) (hm : mi < w.prog.cfg.nMutexes)
    (hs1 : (w.ctlOf w.tid).stage = 1) (O : List Obj) (F : Nat → Thread → Thread)
    (hF : ∀ i t, key5 (F i t) = key5 t) (hOlen : O.length = w.exec.objs.length)
    (hOsame : ∀ n, n ≠ w.mutexObj mi → SameObj w.exec.objs O n)
    (hOm : objHb O (w.mutexObj mi) = (objHb w.exec.objs (w.mutexObj mi)).join (tcaus w w.tid))
    {ws : List Nat} (hOcv : objView2 O (cvIdx w.prog vi) = some (.condvar ws)) (hws : w.tid ∈ ws)
    (h : ((W2 w O F).setStage 2).blockNow = .ok w') : RealOut2 w s w' := by
  obtain ⟨σT, σR, mT, mR, hc⟩ := hRC.clk
  have ht := nthr_tid2 hRC hact
  have hbt := body_lt_ths2 hRC.r hact
  have hf0 := fin0 hRC hact hop
  have hC1 : pendCv w.prog (w.ctlOf w.tid) = none := pendCv_lt (by omega)
  obtain ⟨hcw, hcv⟩ := frag_cv hRC hact hC1
  have ho : SC.opOf w.prog s (body w w.tid) = some (.cvWait vi mi) := (opOf_eq2 hRC.r hact).trans hop
  have hpc : pendClk w σT w.tid = VV.zero :=
    pendClk_of_op (by rw [opAtI_tid2]; exact hop) (by intro n; simp) (by simp) (by intro b; simp)
  obtain ⟨hT, hO⟩ := unpack hRC.inv hRC.inv2 hc.lt
  have hTt := hT w.tid ht
  obtain ⟨hq3, hc3, _⟩ := blockNow_quiet2 h
  have hso : SchedOut (W2 w O F) w' none :=
    (blockNow_sched (w := (W2 w O F).setStage 2) h
      (by show w.tid < nthr (W2 w O F); rw [W2_nthr]; exact ht)).src_congr rfl
  have hc' : w'.ctl = w.ctl.modify w.tid fun c => { c with stage := 2 } := hc3
  have hp : w'.prog = w.prog := hq3.prog
  have hsp : w'.spawned = w.spawned := hq3.spawned
  have hself : w'.ctlOf w.tid = { w.ctlOf w.tid with stage := 2 } := by
    unfold World.ctlOf; rw [hc']; exact getD_modify_self _ _ _ _ hact
  have hne : ∀ i, i ≠ w.tid → w'.ctlOf i = w.ctlOf i := by
    intro i hi; unfold World.ctlOf; rw [hc']; exact getD_modify_ne _ _ _ _ _ hi
  have hbody : ∀ i, body w' i = body w i := by
    intro i
    unfold body
    by_cases e : i = w.tid
    · subst e; rw [hself]
    · rw [hne i e]
  have hfin : ∀ i, fin w' i = fin w i := by
    intro i
    unfold fin
    by_cases e : i = w.tid
    · subst e; rw [hself]
    · rw [hne i e]
  have hlen' : w'.ctl.length = w.ctl.length := by rw [hc']; simp
  have hsameT := fun i => W2_same w O F i (fun _ => hF i _)
  have hsT : ∀ i, SameThr w w' i := fun i =>
    ⟨(hso.same i).caus.trans (hsameT i).1.caus, (hso.same i).rel.trans (hsameT i).1.rel,
      (hso.same i).uc.trans (hsameT i).1.uc, (hso.same i).tok.trans (hsameT i).1.tok⟩
  have htopo : ∀ i, topo w' i = if i = w.tid then none else topo w i := by
    intro i
    rw [hso.topo i]
    show (if i = w.tid then none else topo (W2 w O F) i) = _
    rw [(hsameT i).2]
  have hOw' : ∀ n, n < O.length → SameObj O w'.exec.objs n := fun n hn => SameObj.of_touched2 hso.objs hn
  have hsameO : ∀ n, n ≠ w.mutexObj mi → n < w.exec.objs.length → SameObj w.exec.objs w'.exec.objs n :=
    fun n h1 h2 => (hOsame n h1).trans (hOw' n (by rw [hOlen]; exact h2))
  have hmlt := mtx_lt2 hRC.r hm
  have hnew : objHb w'.exec.objs (w.mutexObj mi) = (σT.mtx mi).join (σT.thr w.tid) := by
    rw [(hOw' _ (by rw [hOlen]; exact hmlt)).hb, hOm, hc.lt.mtx mi hm, eq_caus2 hc.lt ht hpc]
  have hkI : ∀ b, (σT.rel w.tid mi).mtx (kI w.prog b) = σT.mtx (kI w.prog b) := by
    intro b
    show upd σT.mtx mi _ (kI w.prog b) = _
    rw [upd_ne _ _ (Ne.symm (m_ne_kI w.prog hm b))]
  have hI := assemble (w' := w') hRC hc.lt (σT' := σT.rel w.tid mi) (mT' := mT) hp hsp
    (hso.len.trans (W2_nthr _ _ _)) (by rw [← hOlen]; exact touched2_length hso.objs) hne (hbody _)
    (by intro h; rw [hf0] at h; omega)
    (by
      refine ThrInv.exact ?_ ?_ ?_ ?_ ?_ ?_
      · rw [(hsT w.tid).rel]; exact hTt.rel
      · intro o' ho'
        rw [htopo, if_pos rfl] at ho'; cases ho'
      · intro b j n ho'
        rw [htopo, if_pos rfl] at ho'; cases ho'
      · show σT.thr w.tid = _
        rw [(hsT w.tid).caus]; exact eq_caus2 hc.lt ht hpc
      · intro _
        have hk := hTt.tok (by rw [hf0]; omega)
        rw [(hsT _).uc, (hsT _).caus, hp, hbody, hkI]
        exact hk
      · intro _ htk
        rw [(hsT _).tok] at htk
        rw [(hsT _).uc]
        exact hTt.tokz (by rw [hf0]; omega) htk)
    (fun i _ e => .inl ⟨hsT i, by rw [htopo, if_neg e], rfl, fun _ => hkI _⟩)
    (by
      intro m
      show (σT.mtx m).le (upd σT.mtx mi _ m)
      by_cases e : m = mi
      · subst e; rw [upd_self]; exact le_join_left _ _
      · rw [upd_ne _ _ e]; exact le_refl _)
    (by
      intro b j n hm'
      rw [(hsameO n (sp_ne_mtx2 hRC.r hm' hm) (sp_lt2 hRC.r hm')).hb]; exact le_refl _)
    (by
      intro m' hm'
      by_cases e : m' = mi
      · subst e
        right
        show upd σT.mtx m' _ m' = _
        rw [upd_self, hnew]
      · left
        refine ⟨hsameO _ (fun hh => e (mutexObj_inj w hh)) (mtx_lt2 hRC.r hm'), ?_⟩
        show upd σT.mtx mi _ m' = _
        rw [upd_ne _ _ e])
    (by
      intro n hn
      left
      refine ⟨hsameO _ (mtx_ne_ntf hRC.r hm hn) (ntf_lt2 hRC.r hn), ?_⟩
      show upd σT.mtx mi _ (nI w.prog n) = _
      rw [upd_ne _ _ (Ne.symm (m_ne_nI w.prog hm n))])
    (by
      intro q hq
      left
      refine ⟨hsameO _ (mtx_ne_chan hRC.r hm hq) (chan_lt2 hRC.r hq), ?_, rfl⟩
      show upd σT.mtx mi _ (cI w.prog q) = _
      rw [upd_ne _ _ (Ne.symm (m_ne_cI w.prog hm q))])
    (fun c hc' => .inl ⟨hsameO _ (Ne.symm (cell_ne_mtx w hc')) (cell_lt2 hRC.r hc'), fun _ => rfl⟩)
    (nhb_frame (w' := w') hO
      (fun b j n hm' => (hsameO n (sp_ne_mtx2 hRC.r hm' hm) (sp_lt2 hRC.r hm')).hb)
      (fun j => by rw [hfin]) (fun j _ => (hsT j).caus))
    (fun b _ => hkI b)
  have hX1 := hc.x.tickR hc.gt hc.gr (inj_body2 hRC.r) w.tid hact
  refine ⟨hp, ?_, no_spur hRC hact hop (by intro n; simp), _, step_cvWait hcv ho, ?_⟩
  · -- not a stutter: in `w'` the thread is a waiter, so its reference thread would be waiting
    intro hR' _
    have hact' : w.tid < w'.ctl.length := by rw [hlen']; exact hact
    have hv' : vi < w'.prog.cfg.nCondvars := by rw [hp]; exact hv
    have hview : objView2 w'.exec.objs (cvIdx w'.prog vi) = some (.condvar ws) := by
      rw [hp]; exact hq3.view _ _ hOcv
    have hC2 : pendCv w'.prog (w'.ctl.getD w.tid {}) = some (vi, mi) := by
      rw [hp, show w'.ctl.getD w.tid {} = w'.ctlOf w.tid from rfl, hself]
      exact pendCv_at (c := { w.ctlOf w.tid with stage := 2 }) hop (Nat.le_refl _)
    have := (((hR'.c.o.cv.th w.tid hact').2 vi mi ws hC2 hv' hview).1 hws).1
    rw [show (w'.ctl.getD w.tid {}).body = body w w.tid from hbody w.tid,
      show (data2 s).ths.getD (body w w.tid) {} = dth2 (s.th (body w w.tid)) from data2_th s _] at this
    have this' : (s.th (body w w.tid)).cvWaiting = some (vi, mi) := this
    rw [hcw] at this'
    cases this'
  · refine ⟨hRC.fs.1, hRC.nd, hI.1, hI.2.1, σT.rel w.tid mi, (σR.tick (body w w.tid)).rel (body w w.tid) mi, mT, mR,
      hI.2.2, ?_, hc.gt.rel _ _, (hc.gr.tick _).rel _ _, ?_, ?_, ?_, ?_⟩
    · exact ((hc.lr.tick hbt).relM hm _ _).modTh _ _ (fun _ => rfl) (fun _ => rfl)
    · rw [hlen']
      exact XInv.congr2 (hX1.rel w.tid hact mi) (fun i _ => hbody i)
    · intro q hq
      rw [hlen']
      exact (hc.mx q hq).imp fun _ _ hh => (hh.ev rfl rfl).congr (fun i _ => hbody i)
    · intro q Z hq hZ
      exact (hc.mgt q Z hq hZ).rel _ _
    · intro q Z hq hZ
      exact ((hc.mgr q Z hq hZ).tick _).rel _ _


theorem clk_cvWait2 (hRC : RC2 w s) (hact : w.tid < w.ctl.length) (hactive : w.ths.isActive = true) {vi mi : Nat}
    (hop : opAt2 w = some (.cvWait vi mi)) (hv : vi < w.prog.cfg.nCondvars) (hm : mi < w.prog.cfg.nMutexes)
    (hok : resumeOk w = true) (h : w.runOp (w.ctlOf w.tid) (.cvWait vi mi) = .ok w') :
    QuietOut2 w s w' ∨ RealOut2 w s w' := by
  obtain ⟨cs, hcobj, hws, hcq, hnd, hmem⟩ := cv_waiters2 hRC hv
  obtain ⟨ms, hmobj⟩ := mtx_obj2 hRC.r hm
  have ht := nthr_tid2 hRC hact
  have hbt := body_lt_ths2 hRC.r hact
  have hf0 := fin0 hRC hact hop
  have hop' : opOfCtl w.prog (w.ctlOf w.tid) = some (.cvWait vi mi) := hop
  have ho : SC.opOf w.prog s (body w w.tid) = some (.cvWait vi mi) := (opOf_eq2 hRC.r hact).trans hop
  have hpn : pend w w.tid = none := pend_none_of_op2 hop (by intro b; simp)
  have hst : (w.ctlOf w.tid).stage ≤ 3 := by
    have := (base2 hRC.r.c hact).2.1.2.2.2.2.1
    rw [hop'] at this
    simpa [maxStage] using this
  have hmc : w.mutexObj mi ≠ w.cvObj vi := obj_ne_of_kinds hmobj hcobj (by intro e; cases e)
  -- the condvar fields of the reference thread, in the two halves of the wait
  have hth2 := (hRC.r.c.o.cv.th w.tid hact).2
  have hdth : (data2 s).ths.getD (w.ctl.getD w.tid {}).body {} = dth2 (s.th (body w w.tid)) := data2_th s _
  rw [hdth] at hth2
  rw [runOp_cvWait] at h
  have hcases : (w.ctlOf w.tid).stage = 0 ∨ (w.ctlOf w.tid).stage = 1 ∨ (w.ctlOf w.tid).stage = 2 ∨
      (w.ctlOf w.tid).stage = 3 := by omega
  rcases hcases with hs0 | hs1 | hs2 | hs3
  · -- stage 0: the branch point
    left
    simp only [hs0] at h
    have hC0 : pendCv w.prog (w.ctlOf w.tid) = none := pendCv_lt (by omega)
    obtain ⟨hq, hc, _⟩ := branch_quiet2 h
    have hso : SchedOut w w' (some (w.cvObj vi)) := (branch_sched (w := w.setStage 1) h ht).src_congr rfl
    have hc' : w'.ctl = w.ctl.modify w.tid fun c => { c with stage := 1 } := hc
    refine quiet_core2 hRC hact (fun c => { c with stage := 1 }) (fun σ => pendClk_stage0 (by rw [hs0]; decide))
      hpn hso hq.prog hq.spawned hq.events hc' rfl Iff.rfl ?_ ?_
    · intro o' ho'
      cases ho'
      exact ⟨cv_lt2 hRC.r hv, .inr fun b j n hm' e => absurd e.symm (sp_ne_cv2 hRC.r hm' hv)⟩
    · intro d' _ hstep hR'
      have hcvn : ((data2 s).th (body w w.tid)).cvNotified = none := by
        rw [data2_th]; exact (frag_cv hRC hact hC0).2
      have hopd : SCData2.opOf w.prog (data2 s) (body w w.tid) = some (.cvWait vi mi) := by
        rw [data2_opOf]; exact ho
      unfold SCData2.stepL at hstep
      simp only [hcvn, hopd, List.mem_singleton, Prod.mk.injEq, true_and] at hstep
      have hact' : w.tid < w'.ctl.length := by rw [hc']; simpa using hact
      have hself : w'.ctl.getD w.tid {} = { w.ctlOf w.tid with stage := 1 } := by
        rw [hc']; exact getD_modify_self _ _ _ _ hact
      have hC1 : pendCv w'.prog (w'.ctl.getD w.tid {}) = none := by
        rw [hself]; exact pendCv_lt (by show 1 < 2; omega)
      have := ((hR'.c.o.cv.th w.tid hact').1 hC1).1
      rw [hself, hstep] at this
      have hbl : body w w.tid < (data2 s).ths.length := by
        show _ < (s.ths.map dth2).length
        rw [List.length_map]; exact hbt
      have e : (((data2 s).ths.modify (body w w.tid) fun h => { h with cvWaiting := some (vi, mi) }).getD
          (body w w.tid) {}).cvWaiting = some (vi, mi) := by
        rw [getD_modify_self _ _ _ _ hbl]
      have this' : (((data2 s).ths.modify (body w w.tid) fun h => { h with cvWaiting := some (vi, mi) }).getD
          (body w w.tid) {}).cvWaiting = none := this
      rw [e] at this'
      cases this'
  · -- stage 1: the first half of the wait
    right
    simp only [hs1] at h
    simp only [getCv_of hcobj, bind, Except.bind] at h
    split at h
    · cases h
    · next w2 hrl =>
      have hm1 : (w.setObj (w.cvObj vi) (.condvar { cs with waiters := cs.waiters ++ [w.tid] })).exec.objs[
          w.mutexObj mi]? = some (.mutex ms) := by
        show (w.exec.objs.set _ _)[_]? = _
        rw [getElem?_set_ne' _ _ _ _ hmc]; exact hmobj
      rw [releaseLock_active hm1 hactive] at hrl
      obtain rfl : w2 = W2 w ((w.exec.objs.set (w.cvObj vi)
            (.condvar { cs with waiters := cs.waiters ++ [w.tid] })).set (w.mutexObj mi)
            (.mutex { ms with lock := none, sync := ms.sync.store w.ths.activeT.released w.ths.caus .rel }))
          (relF w (w.mutexObj mi)) := by
        cases hrl; rfl
      have hclt : w.cvObj vi < w.exec.objs.length := cv_lt2 hRC.r hv
      have hmlt : w.mutexObj mi < w.exec.objs.length := mtx_lt2 hRC.r hm
      refine cvWait1_core hRC hact hop hv hm hs1 _ _ ?_ ?_ ?_ ?_ (ws := cs.waiters ++ [w.tid]) ?_ (by simp) h
      · intro i t
        unfold relF; split
        · rfl
        · split
          · exact key5_wake _
          · rfl
      · simp
      · intro n hn
        exact (SameObj.set_same hcobj (x' := .condvar { cs with waiters := cs.waiters ++ [w.tid] }) rfl rfl rfl
          (fun _ => rfl) (by intro c; simp) (by intro c; simp) n).trans (SameObj.set_ne _ _ hn)
      · rw [objHb_set_self _ _ (by rw [List.length_set]; exact hmlt), objHb_of hmobj]
        show (ms.sync.store w.ths.activeT.released w.ths.caus .rel).hb = _
        rw [Clocks.Sync.store_of_releases _ _ _ (by rfl)]
        have hr : w.ths.activeT.released = VV.zero := hRC.inv.rel w.tid ht
        rw [hr, join_zero]
        rfl
      · rw [objView2_set_ne _ _ (show cvIdx w.prog vi ≠ w.mutexObj mi from fun e => hmc e.symm)]
        exact objView2_set_self _ hclt
  · -- stage 2: woken; the branch point of the re-acquisition
    left
    simp only [hs2] at h
    simp only [getMutex_of hmobj, bind, Except.bind] at h
    have hC2 : pendCv w.prog (w.ctl.getD w.tid {}) = some (vi, mi) := pendCv_at hop' (by show 2 ≤ (w.ctlOf w.tid).stage; omega)
    have hnot : w.tid ∉ cs.waiters := by
      have hok' : cvResumeOk w = true := by
        unfold resumeOk at hok
        simp only [Bool.and_eq_true] at hok
        exact hok.1
      unfold cvResumeOk at hok'
      rw [hop] at hok'
      simp only [hs2, if_true, hcobj] at hok'
      intro hmem'
      have : cs.waiters.contains w.tid = true := List.contains_iff_mem.2 hmem'
      rw [this] at hok'; cases hok'
    have hcn := ((hth2 vi mi cs.waiters hC2 hv hws).2 hnot).2
    obtain ⟨hq, hc, _⟩ := branch_quiet2 h
    have hso : SchedOut w w' (some (w.mutexObj mi)) := (branch_sched (w := w.setStage 3) h ht).src_congr rfl
    have hc' : w'.ctl = w.ctl.modify w.tid fun c => { c with stage := 3 } := hc
    refine quiet_core2 hRC hact (fun c => { c with stage := 3 }) (fun σ => pendClk_stage0 (by rw [hs2]; decide))
      hpn hso hq.prog hq.spawned hq.events hc' rfl Iff.rfl ?_ ?_
    · intro o' ho'
      cases ho'
      exact ⟨mtx_lt2 hRC.r hm, .inr fun b j n hm' e => absurd e.symm (sp_ne_mtx2 hRC.r hm' hm)⟩
    · intro d' _ hstep _
      have := (stepL_none_cases hstep).1
      rw [data2_th] at this
      rw [hcn] at this
      cases this
  · -- stage 3: the second half of the wait
    right
    simp only [hs3] at h
    have hC3 : pendCv w.prog (w.ctl.getD w.tid {}) = some (vi, mi) := pendCv_at hop' (by show 2 ≤ (w.ctlOf w.tid).stage; omega)
    have hnot : w.tid ∉ cs.waiters := by
      intro hmem'
      have := (hmem w.tid hmem').2.1
      rw [hs3] at this
      cases this
    have hcv : (s.th (body w w.tid)).cvNotified = some mi := ((hth2 vi mi cs.waiters hC3 hv hws).2 hnot).2
    obtain ⟨⟨w1, okk⟩, hpa, h⟩ := bind_ok h
    cases hl : ms.lock with
    | some i =>
      rw [postAcquire_held hmobj (by rw [hl]; rfl)] at hpa
      cases hpa
      simp [bind, Except.bind, throw, throwThe, MonadExceptOf.throw] at h
    | none =>
      rw [postAcquire_free hmobj hl] at hpa
      obtain ⟨rfl, rfl⟩ : w1 = W2 w (w.exec.objs.set (w.mutexObj mi) (.mutex { ms with lock := some w.tid }))
          (acqF w (w.mutexObj mi) ms.sync.hb) ∧ okk = true := by
        cases hpa; exact ⟨rfl, rfl⟩
      simp only [Bool.not_true, Bool.false_eq_true, if_false, bind, Except.bind, pure, Except.pure] at h
      cases h
      refine realOut_complete hRC hact hop (by intro n; simp) _ _ rfl rfl (step_cvWait2 hcv) ?_
      refine acq_core2 hRC hact hop (by intro n; simp) (by simp) (by intro b; simp) mi hmobj
        (x' := .mutex { ms with lock := some w.tid }) rfl rfl rfl
        (fun _ => rfl) (by intro cs; simp) (by intro cs; simp) _ ?_ ?_ .unit ?_ ?_ ?_
      rotate_left 3
      · exact hRC.fs.1
      · exact hRC.nd
      · intro i hi t
        unfold acqF; rw [if_neg hi]; split <;> rfl
      · intro σT mT hL t
        unfold acqF; rw [if_pos rfl, hL.mtx mi hm, objHb_of hmobj]; rfl
      · intro σR mR hL
        have e : σR.mtx mi = s.mutexRel.getD mi VV.zero := hL.mtx mi hm
        rw [e]
        refine LinkR2.ret ?_ _ _
        refine LinkR2.modTh ?_ _ _ (fun _ => rfl) (fun _ => rfl)
        exact LinkR2.acquire (s := { s.tick (body w w.tid) with mutex := s.mutex.set mi (some (body w w.tid)) })
          (hL.fields _ rfl rfl rfl rfl rfl rfl rfl rfl rfl)
          (by show body w w.tid < (s.tick (body w w.tid)).ths.length; rw [tick_len2]; exact hbt) _

end

end Race2
end LoomVerif

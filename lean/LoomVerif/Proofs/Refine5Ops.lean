/-
Refinement, STATICS fragment, part 4: the simulation for `spawn` and for the thread-local operations `tls`,
`tlsTry`, `tlsNest`, `tlsStat`, `tlsObs` and `lazyStat`.

`tlsGet_sim`: `World.tlsGet k` by the active thread ↔ `SC.tlsGet` (`SCData5.tlsGet`) by the thread of its body:
the same instance id (`t*10 + 1`, where the twin's `t` is the loom thread id and the reference's the body index:
they agree by the run hypothesis `resumeOk5`), the same change of the counter `tlsInits`, the new entry at the head
of both association lists.
-/
import LoomVerif.Proofs.Refine5Step

namespace LoomVerif
namespace Refine5
open Refine Sy C07 C08

/-! ### equations -/

theorem runOp_tlsStat (w : World) (c : TCtl) (k : Nat) :
    w.runOp c (.tlsStat k) = .ok (w.complete (.val (w.tlsInits.getD k 0 * 100 + w.tlsDrops.getD k 0))) := rfl

theorem runOp_tlsObs (w : World) (c : TCtl) (k : Nat) :
    w.runOp c (.tlsObs k) = .ok (w.complete (.val (w.tlsObs.getD k 0))) := rfl

theorem runOp_lazyStat (w : World) (c : TCtl) (z : Nat) :
    w.runOp c (.lazyStat z) = .ok (w.complete (.val (match w.exec.lazyStatics with
      | some l => if (l.lookup z).isSome then 1 else 0
      | none => 0))) := rfl

theorem lookup_cons_ne {β} (l : List (Nat × β)) (k k' : Nat) (v : β) (h : k' ≠ k) :
    ((k, v) :: l).lookup k' = l.lookup k' := by
  have : (k' == k) = false := by simpa using h
  simp only [List.lookup, this]

theorem lookup_cons_self {β} (l : List (Nat × β)) (k : Nat) (v : β) : ((k, v) :: l).lookup k = some v := by
  simp [List.lookup]

/-! ### spawn -/

section
variable {w w' : World} {s : SCData5}

theorem sim_spawn5 (hwf : WF5 w.prog) (hR : R5 w s) (hact : w.tid < w.ctl.length) {b : Nat}
    (hop : opAt w = some (.spawn b))
    (h : w.runOp (w.ctlOf w.tid) (.spawn b) = .ok w') : SimI w s w' := by
  have hin : w.tid < w.exec.threads.threads.length := by rw [← hR.lenCtl]; exact hact
  obtain ⟨_, hrel, hof⟩ := base5 hR hact
  have hf0 := fin_zero5 hR hact hop
  obtain ⟨hb0, hb, hidle⟩ := hR.x.spawn_fresh hwf hact hop
  have hfr := spawn_frame5 h
  obtain ⟨w2, rfl, hp, ht, hev, hc, hsp, hobjs, hlen⟩ := spawn_obs h
  refine ⟨?_, inRange_of (w' := w2.complete .unit) ht (by
    show _ ≤ w2.exec.threads.threads.length
    rw [hlen]; omega) hin⟩
  obtain ⟨h1, h2, h3, h4, h5, h6, h7⟩ := hrel
  have hne : (w.ctlOf w.tid).body ≠ b := hidle w.tid hact
  simp only [frame5, Prod.mk.injEq] at hfr
  obtain ⟨f1, f2, f3, f4, f5⟩ := hfr
  have hvl : ViewLe w.exec.objs w2.exec.objs := by rw [hobjs]; exact ViewLe.append _ _
  have hctl' : (w2.complete .unit).ctl = (w.ctl.modify w.tid (completeF .unit)) ++ [({ body := b } : TCtl)] := by
    rw [ctl_complete', hc, ht, modify_append_left' _ _ _ _ hact]
  have hfin0 : ((w2.complete .unit).ctlOf 0).fin = (w.ctlOf 0).fin := by
    simp only [World.ctlOf, hctl']
    rw [getD_append_left _ _ _ _ (by simpa using hR.x.main.1)]
    exact fin_getD_modify _ _ _ _ rfl
  refine ⟨hp, .inr ⟨some ((s.th (w.ctlOf w.tid).body).pc, .unit),
    s.withBase ((s.base.modTh b fun h => { h with started := true }).ret (w.ctlOf w.tid).body .unit),
    enabled_plain5 hR hact hop (by simp) (by simp), ?_, ?_, ?_⟩⟩
  · refine mem_frag5 hR hact hop rfl ?_
    unfold SCData.stepL
    rw [SCData5.base_opOf, hof, hop]
    exact List.mem_singleton.2 rfl
  · refine ⟨?_, ?_, ?_, ?_, ?_, ?_, ?_, ?_⟩
    · rw [hctl']
      show _ = w2.exec.threads.threads.length
      rw [hlen, ← hR.lenCtl]; simp
    · -- control part
      show RX5 w2.prog (w2.complete .unit).ctl _ s.locals
      rw [hp, hctl']
      have X1 := hR.x.modify hact (completeF .unit)
        (fun h => { h with rets := (h.pc, Ret.unit) :: h.rets, pc := h.pc + 1 }) id rfl (Nat.le_succ _)
        (by
          refine ⟨h1, ?_, ?_, h4, Nat.zero_le _, h6, h7⟩
          · show (s.th (w.ctlOf w.tid).body).pc + 1 = (w.ctlOf w.tid).pc + 1
            rw [h2]
          · show ((s.th (w.ctlOf w.tid).body).pc, Ret.unit) :: (s.th (w.ctlOf w.tid).body).rets = _
            rw [h2, h3]; rfl)
        (by intro hne'; exact absurd hf0 hne')
      rw [modify_id' _ _ id (fun _ => rfl)] at X1
      have hlenm : (w.ctl.modify w.tid (completeF .unit)).length = w.ctl.length := by simp
      have body_eq : ∀ i, ((w.ctl.modify w.tid (completeF .unit)).getD i {}).body = (w.ctl.getD i {}).body := by
        intro i
        by_cases hi : i = w.tid
        · subst hi; rw [getD_modify_self _ _ _ _ hact]; rfl
        · rw [getD_modify_ne _ _ _ _ _ hi]
      have X2 := X1.append hb
        (by intro i hi; rw [body_eq]; exact hidle i (by rw [hlenm] at hi; exact hi))
        ⟨w.tid, (w.ctlOf w.tid).pc, by rw [hlenm]; exact hact,
          by rw [getD_modify_self _ _ _ _ hact]; exact Nat.lt_succ_self _,
          by rw [body_eq]; exact hop⟩
      have e : (s.withBase ((s.base.modTh b fun h => { h with started := true }).ret (w.ctlOf w.tid).body
            .unit)).ths =
          ((s.ths.modify (w.ctl.getD w.tid {}).body
              (fun h => { h with rets := (h.pc, Ret.unit) :: h.rets, pc := h.pc + 1 })).modify b
              fun h => { h with started := true }) := by
        show ((s.ths.modify b _).modify _ _) = _
        rw [modify_comm' _ _ _ _ _ (Ne.symm hne)]
        rfl
      rw [e]
      exact X2
    · have Y1 := hR.y.spawn b ({ body := b } : TCtl) rfl (.notify { seqCst := true, spurious := false }) rfl
      show RY w2.prog (w2.complete .unit).ctl (w2.complete .unit).spawned w2.exec.objs s.cells s.mutex
      rw [hp, hobjs, ctl_complete', hc, ht]
      show RY _ _ w2.spawned _ _ _
      rw [hsp, ← hR.lenCtl]
      exact Y1.ctl (CtlLe.modify _ _ _ (by
        rw [getD_append_left _ _ _ _ hact]; rfl) (by
        rw [getD_append_left _ _ _ _ hact]; exact id))
    · show RT (w2.complete .unit).ctl w2.tlsInits w2.tlsObs _ _ _
      have e1 : w2.tlsInits = w.tlsInits := f1
      have e3 : w2.tlsObs = w.tlsObs := f3
      rw [hctl', e1, e3]
      exact (hR.t.modify _ _ rfl (fun _ => rfl)).append _ rfl
    · show RLazy w2.prog w2.exec.objs w2.exec.lazyStatics w2.lazyInits ((w2.complete .unit).ctlOf 0).fin _ _
      have e4 : w2.lazyInits = w.lazyInits := f4
      have e5 : w2.exec.lazyStatics = w.exec.lazyStatics := f5
      rw [hp, e4, e5, hfin0]
      exact hR.z.le (LazyLe.of_viewLe hvl)
    · show RCnt (w2.complete .unit).ctl w2.tlsInits w2.tlsDrops
      have e1 : w2.tlsInits = w.tlsInits := f1
      have e2 : w2.tlsDrops = w.tlsDrops := f2
      rw [hctl', e1, e2]
      exact (hR.c.modify _ _ rfl).append _ rfl
    · rw [hfin0]
      show _ → w2.tid = 0
      rw [ht]; exact hR.lag
    · intro e he z hz
      rcases List.mem_cons.1 he with rfl | he
      · have hc2 : w2.ctlOf w2.tid = w.ctlOf w.tid := by
          simp only [World.ctlOf, hc, ht]
          exact getD_append_left _ _ _ _ hact
        have hop' : opAt w = some (.lazy z) := by
          have hz' : (w2.prog.threads.getD (w2.ctlOf w2.tid).body [])[(w2.ctlOf w2.tid).pc]? = some (.lazy z) := hz
          rw [hc2, hp] at hz'
          exact hz'
        rw [hop] at hop'
        cases hop'
      · have he' : e ∈ w.events := by rw [← hev]; exact he
        have hz' : (w.prog.threads.getD e.tid [])[e.pc]? = some (.lazy z) := by rw [← hp]; exact hz
        exact hR.ev e he' z hz'
  · rw [events_complete', hev, ht]
    have : w2.ctlOf w.tid = w.ctlOf w.tid := by
      simp only [World.ctlOf, hc]
      exact getD_append_left _ _ _ _ hact
    rw [this, h2]
    rfl

end

/-! ### `tlsGet` -/

/-- what `tlsGet` keeps of the world -/
structure Same (w w1 : World) : Prop where
  prog : w1.prog = w.prog
  exec : w1.exec = w.exec
  events : w1.events = w.events
  len : w1.ctl.length = w.ctl.length
  body : (w1.ctlOf w.tid).body = (w.ctlOf w.tid).body
  pc : (w1.ctlOf w.tid).pc = (w.ctlOf w.tid).pc

theorem Same.tid {w w1 : World} (h : Same w w1) : w1.tid = w.tid := by
  show w1.exec.threads.activeId = _
  rw [h.exec]; rfl

theorem Same.opAt {w w1 : World} (h : Same w w1) : opAt w1 = opAt w := by
  unfold Refine.opAt
  rw [h.tid, h.body, h.pc, h.prog]

section
variable {w : World} {s : SCData5}

theorem tlsGet_sim (hR : R5 w s) (hact : w.tid < w.ctl.length) {op : Op} (hop : opAt w = some op)
    (k : Nat) (hk : k < 2) (htb : w.tid = (w.ctlOf w.tid).body) :
    R5 (w.tlsGet k).1 (SCData5.tlsGet s (w.ctlOf w.tid).body k).1 ∧
    (w.tlsGet k).2 = some (SCData5.tlsGet s (w.ctlOf w.tid).body k).2 ∧ Same w (w.tlsGet k).1 := by
  obtain ⟨hbl, hrel, hof⟩ := base5 hR hact
  have hf0 := fin_zero5 hR hact hop
  have hfd : finD w.tid (w.ctlOf w.tid) = false := finD_fin_zero hf0
  obtain ⟨h1, h2, h3, h4, h5, h6, h7⟩ := hrel
  have hlive := h7.live hfd
  have hlk : (w.ctlOf w.tid).locals.lookup k = ((s.loc (w.ctlOf w.tid).body).lookup k).map some := by
    rw [hlive, lookup_map_some]
  cases hL : (s.loc (w.ctlOf w.tid).body).lookup k with
  | some id =>
    rw [hL] at hlk
    have e1 : w.tlsGet k = (w, some id) := C17.tlsGet_live hlk
    have e2 : SCData5.tlsGet s (w.ctlOf w.tid).body k = (s, id) := by
      unfold SCData5.tlsGet
      rw [hL]
    rw [e1, e2]
    exact ⟨hR, rfl, ⟨rfl, rfl, rfl, rfl, rfl, rfl⟩⟩
  | none =>
    rw [hL] at hlk
    have e1 := C17.tlsGet_fresh hlk
    have e2 : SCData5.tlsGet s (w.ctlOf w.tid).body k =
        (({ s with tlsInits := s.tlsInits.set k (s.tlsInits.getD k 0 + 1) } : SCData5).modLoc (w.ctlOf w.tid).body
          (fun l => (k, (w.ctlOf w.tid).body * 10 + 1) :: l), (w.ctlOf w.tid).body * 10 + 1) := by
      unfold SCData5.tlsGet
      rw [hL]
    rw [e1, e2]
    let f : TCtl → TCtl := fun c => { c with locals := (k, some (w.tid * 10 + 1)) :: c.locals }
    have hfin : ∀ i, ((w.ctl.modify w.tid f).getD i {}).fin = (w.ctl.getD i {}).fin :=
      fun i => fin_getD_modify _ _ _ _ rfl
    have hkI : k < w.tlsInits.length := by rw [hR.t.eI, hR.t.lI]; exact hk
    refine ⟨⟨?_, ?_, ?_, ?_, ?_, ?_, ?_, hR.ev⟩, by rw [← htb], ⟨rfl, rfl, rfl, by simp [World.modCtl], ?_, ?_⟩⟩
    · show (w.ctl.modify w.tid f).length = w.exec.threads.threads.length
      rw [← hR.lenCtl]; simp
    · show RX5 w.prog (w.ctl.modify w.tid f) s.ths (s.locals.modify _ _)
      have := hR.x.modify hact f id (fun l => (k, (w.ctlOf w.tid).body * 10 + 1) :: l) rfl (Nat.le_refl _)
        (by
          refine ⟨h1, h2, h3, h4, h5, h6, ?_⟩
          show LocRel _ (finD w.tid (w.ctlOf w.tid)) ((k, some (w.tid * 10 + 1)) :: (w.ctlOf w.tid).locals)
            ((k, (w.ctlOf w.tid).body * 10 + 1) :: s.loc (w.ctlOf w.tid).body)
          rw [hfd]
          refine ⟨fun _ => ?_, fun e => (by cases e), ?_, ?_, ?_⟩
          · rw [hlive, ← htb]; rfl
          · intro e he
            rcases List.mem_cons.1 he with rfl | he
            · exact hk
            · exact h7.keys e he
          · rw [List.map_cons, List.nodup_cons]
            exact ⟨lookup_none_not_mem _ _ hL, h7.nodup⟩
          · rw [List.map_cons, List.map_cons, h7.keysEq])
        (by intro hne; exact absurd hf0 hne)
      rwa [modify_id' _ _ id (fun _ => rfl)] at this
    · exact hR.y.ctl (CtlLe.modify _ _ _ rfl id)
    · show RT (w.ctl.modify w.tid f) (w.tlsInits.set k (w.tlsInits.getD k 0 + 1)) w.tlsObs
        (s.tlsInits.set k (s.tlsInits.getD k 0 + 1)) s.tlsDrops s.tlsObs
      refine ⟨by rw [hR.t.eI], hR.t.eO, by rw [List.length_set]; exact hR.t.lI, hR.t.lD, fun k' hk' => ?_⟩
      rw [hR.t.cD k' hk', countP_modify_same _ _ _ _ {}]
      intro _
      have hb : finB (w.ctl.getD w.tid {}) = false := by
        unfold finB
        rw [show (w.ctl.getD w.tid {}).fin = 0 from hf0]
        split <;> rfl
      have hb' : finB (f (w.ctl.getD w.tid {})) = false := hb
      rw [hb, hb']
      rfl
    · show RLazy w.prog w.exec.objs w.exec.lazyStatics w.lazyInits ((w.ctl.modify w.tid f).getD 0 {}).fin _ _
      rw [hfin]; exact hR.z
    · show RCnt (w.ctl.modify w.tid f) (w.tlsInits.set k (w.tlsInits.getD k 0 + 1)) w.tlsDrops
      have hlk' : (w.ctl.getD w.tid {}).locals.lookup k = none := by
        have := hlk; simp only [Option.map_none] at this; exact this
      refine ⟨fun k' hk' => ?_, fun k' hk' => ?_, hR.c.lenD⟩
      · by_cases e : k' = k
        · subst e
          rw [C17.getD_set_self _ _ hkI, hR.c.inits k' hk', countP_modify_up _ _ _ _ {} hact]
          · unfold touched; rw [hlk']; rfl
          · unfold touched
            show (List.lookup k' ((k', _) :: _)).isSome = true
            rw [lookup_cons_self]; rfl
        · rw [C17.getD_set_ne _ _ (fun e' => e e'.symm), hR.c.inits k' hk', countP_modify_same _ _ _ _ {}]
          intro _
          unfold touched
          show (List.lookup k' ((k, _) :: _)).isSome = _
          rw [lookup_cons_ne _ _ _ _ e]
      · rw [hR.c.drops k' hk', countP_modify_same _ _ _ _ {}]
        intro _
        unfold destroyed
        show (List.lookup k' ((k, _) :: _) == some none) = _
        by_cases e : k' = k
        · subst e
          rw [lookup_cons_self, hlk']
          rfl
        · rw [lookup_cons_ne _ _ _ _ e]
    · show ((w.ctl.modify w.tid f).getD 0 {}).fin = 10 → _
      rw [hfin]; exact hR.lag
    · show ((w.ctl.modify w.tid f).getD w.tid {}).body = _
      rw [getD_modify_self _ _ _ _ hact]; rfl
    · show ((w.ctl.modify w.tid f).getD w.tid {}).pc = _
      rw [getD_modify_self _ _ _ _ hact]; rfl

end

/-! ### the run-level hypothesis; the twin's drop counter -/

/-- **the run-level hypothesis** at one step:
* a thread-local is accessed only by a loom thread whose id is the index of the body it runs (the instance id names
  the owning thread: the twin uses the loom thread id, the reference the body index);
* `tlsStat k` is not executed while a thread that has taken its `finish` step still owns a live value of key `k`
  (`tlsdtor=2`: a value of key 1 re-initialised by the destructor of key 0; the twin destroys it one `drop_locals`
  pass later than the reference, after the thread has been reported finished — never, for the main thread). -/
def resumeOk5 (w : World) : Bool :=
  match opAt w with
  | some (.tls _) | some (.tlsTry _) | some (.tlsNest ..) => w.tid == (w.ctlOf w.tid).body
  | some (.tlsStat k) => noStale w.ctl k
  | _ => true

theorem getD_len2 (l : List Nat) (k : Nat) (hl : l.length = 2) (hk : ¬ k < 2) : l.getD k 0 = 0 := by
  simp [List.getD, List.getElem?_eq_none (show l.length ≤ k by omega)]

/-- when no finished thread owns a live value of key `k`, the twin's `tlsDrops[k]` is the reference's -/
theorem drops_eq_of_noStale {w : World} {s : SCData5} (hR : R5 w s) (k : Nat) (hns : noStale w.ctl k = true) :
    w.tlsDrops.getD k 0 = s.tlsDrops.getD k 0 := by
  by_cases hk : k < 2
  · rw [hR.c.drops k hk, hR.t.cD k hk]
    apply List.countP_congr
    intro c hc
    obtain ⟨i, hi, e⟩ := List.getElem_of_mem hc
    have ec : w.ctl.getD i {} = c := by simp [List.getD, List.getElem?_eq_getElem hi, e]
    obtain ⟨_, hth⟩ := hR.x.thr i hi
    rw [ec] at hth
    have hloc := hth.2.2.2.2.2.2
    have hz0 : c.body = 0 ↔ i = 0 := by rw [← ec]; exact hR.x.body_zero hi
    rw [finB_eq_finD hz0]
    have hst : (finB c && liveK k c) = false := by
      have := List.all_eq_true.1 hns c hc
      cases h1 : finB c <;> cases h2 : liveK k c <;> simp [h1, h2] at this ⊢
    rw [finB_eq_finD hz0] at hst
    cases hf : finD i c with
    | false =>
      have hl := hloc.live hf
      unfold destroyed
      rw [hl, lookup_map_some]
      cases (s.locals.getD c.body []).lookup k <;> simp
    | true =>
      rw [hf] at hst
      simp only [Bool.true_and] at hst ⊢
      unfold destroyed touched
      unfold liveK at hst
      rcases hq : c.locals.lookup k with _ | _ | v
      · simp
      · simp
      · rw [hq] at hst; cases hst
  · rw [getD_len2 _ _ hR.c.lenD hk, getD_len2 _ _ hR.t.lD hk]

/-! ### the operations -/

section
variable {w w' : World} {s : SCData5}

/-- the event `complete r` logs -/
theorem events_of_same {w1 : World} (hs : Same w w1) (hR : R5 w s) (hact : w.tid < w.ctl.length) (r : Ret) :
    (w1.complete r).events.map triple =
      ((w.ctlOf w.tid).body, (s.th (w.ctlOf w.tid).body).pc, r) :: w.events.map triple := by
  rw [events_complete', hs.tid, hs.body, hs.pc, hs.events, (base5 hR hact).2.1.2.1]

theorem inRange_of_same {w1 : World} (hs : Same w w1) (hR : R5 w s) (hact : w.tid < w.ctl.length) (r : Ret) :
    InRange (w1.complete r) := by
  have hin : w.tid < w.exec.threads.threads.length := by rw [← hR.lenCtl]; exact hact
  refine inRange_of (w' := w1.complete r) hs.tid ?_ hin
  show _ ≤ w1.exec.threads.threads.length
  rw [hs.exec]; exact Nat.le_refl _

theorem sim_tls5 (hR : R5 w s) (hact : w.tid < w.ctl.length) {k : Nat}
    (hop : opAt w = some (.tls k)) (hk : k < 2) (htb : w.tid = (w.ctlOf w.tid).body)
    (h : w.runOp (w.ctlOf w.tid) (.tls k) = .ok w') : SimI w s w' := by
  obtain ⟨_, hrel, hof⟩ := base5 hR hact
  obtain ⟨hR1, hid, hs⟩ := tlsGet_sim hR hact hop k hk htb
  have hpair : w.tlsGet k = ((w.tlsGet k).1, some (SCData5.tlsGet s (w.ctlOf w.tid).body k).2) := by
    rw [← hid]
  rw [C17.runOp_tls_of _ hpair] at h
  cases h
  refine ⟨⟨hs.prog, .inr ⟨some ((s.th (w.ctlOf w.tid).body).pc, .val (SCData5.tlsGet s (w.ctlOf w.tid).body k).2),
    (SCData5.tlsGet s (w.ctlOf w.tid).body k).1.ret (w.ctlOf w.tid).body
      (.val (SCData5.tlsGet s (w.ctlOf w.tid).body k).2),
    enabled_plain5 hR hact hop (by simp) (by simp), ?_, ?_, ?_⟩⟩,
    inRange_of_same hs hR hact _⟩
  · unfold SCData5.stepL
    rw [hof, hop]
    exact List.mem_singleton.2 rfl
  · have := hR1.complete (by rw [hs.tid, hs.len]; exact hact) (hs.opAt.trans hop)
      (.val (SCData5.tlsGet s (w.ctlOf w.tid).body k).2) (by intro z e; cases e)
    rw [hs.tid, hs.body] at this
    exact this
  · exact events_of_same hs hR hact _

theorem sim_tlsTry5 (hR : R5 w s) (hact : w.tid < w.ctl.length) {k : Nat}
    (hop : opAt w = some (.tlsTry k)) (hk : k < 2) (htb : w.tid = (w.ctlOf w.tid).body)
    (h : w.runOp (w.ctlOf w.tid) (.tlsTry k) = .ok w') : SimI w s w' := by
  obtain ⟨_, hrel, hof⟩ := base5 hR hact
  obtain ⟨hR1, hid, hs⟩ := tlsGet_sim hR hact hop k hk htb
  have hpair : w.tlsGet k = ((w.tlsGet k).1, some (SCData5.tlsGet s (w.ctlOf w.tid).body k).2) := by
    rw [← hid]
  rw [C17.runOp_tlsTry_of _ hpair] at h
  cases h
  refine ⟨⟨hs.prog, .inr ⟨some ((s.th (w.ctlOf w.tid).body).pc, .val (SCData5.tlsGet s (w.ctlOf w.tid).body k).2),
    (SCData5.tlsGet s (w.ctlOf w.tid).body k).1.ret (w.ctlOf w.tid).body
      (.val (SCData5.tlsGet s (w.ctlOf w.tid).body k).2),
    enabled_plain5 hR hact hop (by simp) (by simp), ?_, ?_, ?_⟩⟩,
    inRange_of_same hs hR hact _⟩
  · unfold SCData5.stepL
    rw [hof, hop]
    exact List.mem_singleton.2 rfl
  · have := hR1.complete (by rw [hs.tid, hs.len]; exact hact) (hs.opAt.trans hop)
      (.val (SCData5.tlsGet s (w.ctlOf w.tid).body k).2) (by intro z e; cases e)
    rw [hs.tid, hs.body] at this
    exact this
  · exact events_of_same hs hR hact _

theorem Same.trans {w w1 w2 : World} (h1 : Same w w1) (h2 : Same w1 w2) : Same w w2 := by
  have ht := h1.tid
  refine ⟨h2.prog.trans h1.prog, h2.exec.trans h1.exec, h2.events.trans h1.events, h2.len.trans h1.len, ?_, ?_⟩
  · have := h2.body; rw [ht] at this; exact this.trans h1.body
  · have := h2.pc; rw [ht] at this; exact this.trans h1.pc

theorem sim_tlsNest5 (hR : R5 w s) (hact : w.tid < w.ctl.length) {k j : Nat}
    (hop : opAt w = some (.tlsNest k j)) (hk : k < 2) (hj : j < 2) (htb : w.tid = (w.ctlOf w.tid).body)
    (h : w.runOp (w.ctlOf w.tid) (.tlsNest k j) = .ok w') : SimI w s w' := by
  obtain ⟨_, hrel, hof⟩ := base5 hR hact
  obtain ⟨hR1, hid, hs⟩ := tlsGet_sim hR hact hop k hk htb
  have hact1 : (w.tlsGet k).1.tid < (w.tlsGet k).1.ctl.length := by rw [hs.tid, hs.len]; exact hact
  have hb1 : ((w.tlsGet k).1.ctlOf (w.tlsGet k).1.tid).body = (w.ctlOf w.tid).body := by rw [hs.tid, hs.body]
  have htb1 : (w.tlsGet k).1.tid = ((w.tlsGet k).1.ctlOf (w.tlsGet k).1.tid).body := by
    rw [hb1, hs.tid]; exact htb
  obtain ⟨hR2, hid2, hs2⟩ := tlsGet_sim hR1 hact1 (hs.opAt.trans hop) j hj htb1
  rw [hb1] at hR2 hid2
  have hss := hs.trans hs2
  have hpair : w.tlsGet k = ((w.tlsGet k).1, some (SCData5.tlsGet s (w.ctlOf w.tid).body k).2) := by
    rw [← hid]
  have hpair2 : (w.tlsGet k).1.tlsGet j = (((w.tlsGet k).1.tlsGet j).1,
      some (SCData5.tlsGet (SCData5.tlsGet s (w.ctlOf w.tid).body k).1 (w.ctlOf w.tid).body j).2) := by
    rw [← hid2]
  rw [C17.runOp_tlsNest_of _ hpair hpair2] at h
  cases h
  refine ⟨⟨hss.prog, .inr ⟨some ((s.th (w.ctlOf w.tid).body).pc,
      .val (SCData5.tlsGet (SCData5.tlsGet s (w.ctlOf w.tid).body k).1 (w.ctlOf w.tid).body j).2),
    (SCData5.tlsGet (SCData5.tlsGet s (w.ctlOf w.tid).body k).1 (w.ctlOf w.tid).body j).1.ret (w.ctlOf w.tid).body
      (.val (SCData5.tlsGet (SCData5.tlsGet s (w.ctlOf w.tid).body k).1 (w.ctlOf w.tid).body j).2),
    enabled_plain5 hR hact hop (by simp) (by simp), ?_, ?_, ?_⟩⟩,
    inRange_of_same hss hR hact _⟩
  · unfold SCData5.stepL
    rw [hof, hop]
    exact List.mem_singleton.2 rfl
  · have := hR2.complete (by rw [hss.tid, hss.len]; exact hact) (hss.opAt.trans hop)
      (.val (SCData5.tlsGet (SCData5.tlsGet s (w.ctlOf w.tid).body k).1 (w.ctlOf w.tid).body j).2)
      (by intro z e; cases e)
    rw [hss.tid, hss.body] at this
    exact this
  · exact events_of_same hss hR hact _

theorem same_refl (w : World) : Same w w := ⟨rfl, rfl, rfl, rfl, rfl, rfl⟩

theorem sim_tlsStat5 (hR : R5 w s) (hact : w.tid < w.ctl.length) {k : Nat}
    (hop : opAt w = some (.tlsStat k)) (hns : noStale w.ctl k = true)
    (h : w.runOp (w.ctlOf w.tid) (.tlsStat k) = .ok w') : SimI w s w' := by
  obtain ⟨_, hrel, hof⟩ := base5 hR hact
  rw [runOp_tlsStat, hR.t.eI, drops_eq_of_noStale hR k hns] at h
  cases h
  refine ⟨⟨rfl, .inr ⟨some ((s.th (w.ctlOf w.tid).body).pc, .val (s.tlsInits.getD k 0 * 100 + s.tlsDrops.getD k 0)),
    s.ret (w.ctlOf w.tid).body (.val (s.tlsInits.getD k 0 * 100 + s.tlsDrops.getD k 0)),
    enabled_plain5 hR hact hop (by simp) (by simp), ?_, ?_, ?_⟩⟩,
    inRange_of_same (same_refl w) hR hact _⟩
  · unfold SCData5.stepL
    rw [hof, hop]
    exact List.mem_singleton.2 rfl
  · exact hR.complete hact hop _ (by intro z e; cases e)
  · exact events_of_same (same_refl w) hR hact _

theorem sim_tlsObs5 (hR : R5 w s) (hact : w.tid < w.ctl.length) {k : Nat}
    (hop : opAt w = some (.tlsObs k))
    (h : w.runOp (w.ctlOf w.tid) (.tlsObs k) = .ok w') : SimI w s w' := by
  obtain ⟨_, hrel, hof⟩ := base5 hR hact
  rw [runOp_tlsObs, hR.t.eO] at h
  cases h
  refine ⟨⟨rfl, .inr ⟨some ((s.th (w.ctlOf w.tid).body).pc, .val (s.tlsObs.getD k 0)),
    s.ret (w.ctlOf w.tid).body (.val (s.tlsObs.getD k 0)),
    enabled_plain5 hR hact hop (by simp) (by simp), ?_, ?_, ?_⟩⟩,
    inRange_of_same (same_refl w) hR hact _⟩
  · unfold SCData5.stepL
    rw [hof, hop]
    exact List.mem_singleton.2 rfl
  · exact hR.complete hact hop _ (by intro z e; cases e)
  · exact events_of_same (same_refl w) hR hact _

theorem sim_lazyStat5 (hR : R5 w s) (hact : w.tid < w.ctl.length) {z : Nat}
    (hop : opAt w = some (.lazyStat z))
    (h : w.runOp (w.ctlOf w.tid) (.lazyStat z) = .ok w') : SimI w s w' := by
  obtain ⟨_, hrel, hof⟩ := base5 hR hact
  rw [runOp_lazyStat] at h
  have hval : (match w.exec.lazyStatics with
      | some l => if (l.lookup z).isSome then (1 : Int) else 0
      | none => 0) = (if s.lazyDropped then 0 else s.lazyInit.getD z 0 : Int) := by
    cases hst : w.exec.lazyStatics with
    | some l =>
      obtain ⟨hd, hl⟩ := hR.z.live l hst
      rw [hd, hl z]
      simp only [Bool.false_eq_true, if_false]
      split <;> rfl
    | none =>
      rcases hR.z.gone hst with hd | hf
      · rw [hd]; rfl
      · exact absurd hf (fin0_ne_10 hR hact hop)
  rw [hval] at h
  cases h
  refine ⟨⟨rfl, .inr ⟨some ((s.th (w.ctlOf w.tid).body).pc, .val (if s.lazyDropped then 0 else s.lazyInit.getD z 0)),
    s.ret (w.ctlOf w.tid).body (.val (if s.lazyDropped then 0 else s.lazyInit.getD z 0)),
    enabled_plain5 hR hact hop (by simp) (by simp), ?_, ?_, ?_⟩⟩,
    inRange_of_same (same_refl w) hR hact _⟩
  · unfold SCData5.stepL
    rw [hof, hop]
    exact List.mem_singleton.2 rfl
  · exact hR.complete hact hop _ (by intro z e; cases e)
  · exact events_of_same (same_refl w) hR hact _

end

end Refine5
end LoomVerif

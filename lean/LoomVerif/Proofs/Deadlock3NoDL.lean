/-
Deadlock soundness, FUTURES fragment, part 2: the helpers of the interpreter that do not call `Exec.schedule`
never raise the panic "deadlock".  A syntactic fact about `Model/*.lean`, proved by walking the `Except`-valued
functions the stages of the fragment call (the pattern of `Proofs/C10NoLeak.lean`).
-/
import LoomVerif.Proofs.Deadlock3Defs
import LoomVerif.Proofs.Deadlock3Attr

namespace LoomVerif
namespace Deadlock3

/-- every panic but "deadlock" -/
def notDL : Panic → Bool
  | .deadlock => false
  | _ => true

theorem ne_of_notDL {e : Panic} (h : notDL e = true) : e ≠ .deadlock := by
  intro h'; subst h'; cases h

/-- a computation that cannot end with the panic "deadlock" -/
structure NoDL {α : Type} (m : Except Panic α) : Prop where
  h : ∀ e, m = .error e → e ≠ .deadlock

theorem NoDL.ok {α : Type} (a : α) : NoDL (Except.ok a : Except Panic α) := by
  constructor; intro e h; cases h

theorem NoDL.pure {α : Type} (a : α) : NoDL (Pure.pure a : Except Panic α) := NoDL.ok a

theorem NoDL.error {α : Type} (e : Panic) (h : notDL e = true) :
    NoDL (Except.error e : Except Panic α) := by
  constructor; intro e' h'; cases h'; exact ne_of_notDL h

theorem NoDL.throw {α : Type} (e : Panic) (h : notDL e = true) :
    NoDL (throw e : Except Panic α) := NoDL.error e h

theorem NoDL.bind {α β : Type} {m : Except Panic α} {f : α → Except Panic β}
    (hm : NoDL m) (hf : ∀ a, NoDL (f a)) : NoDL (m >>= f) := by
  constructor
  intro e h
  rcases WB.bind_eq_error h with h' | ⟨a, _, h'⟩
  · exact hm.h e h'
  · exact (hf a).h e h'

theorem NoDL.map {α β : Type} {m : Except Panic α} (f : α → β) (hm : NoDL m) :
    NoDL (Except.map f m) := by
  constructor
  intro e h
  cases m with
  | error e' => cases h; exact hm.h _ rfl
  | ok a => cases h

/-- close a goal `NoDL (f x)` by a fact already proved (collected in the simp set `nodl`) -/
macro "nodl_call" : tactic => `(tactic| (simp only [nodl]; done))

macro "nodl_step" : tactic => `(tactic| first
  | exact NoDL.ok _
  | exact NoDL.pure _
  | exact NoDL.error _ rfl
  | exact NoDL.throw _ rfl
  | assumption
  | nodl_call
  | refine NoDL.map _ ?_
  | refine NoDL.bind ?_ ?_
  | intro _
  | split)

macro "nodl" : tactic => `(tactic| ((try dsimp only); repeat' nodl_step))

/-! ### `Path` -/

@[nodl] theorem Path.assertLen_noDL (p : Path) (b : Bool) : NoDL (p.assertLen b) := by
  unfold Path.assertLen; nodl

@[nodl] theorem Path.pushLoad_noDL (p : Path) (l : List Nat) (b : Bool) : NoDL (p.pushLoad l b) := by
  unfold Path.pushLoad; nodl

@[nodl] theorem Path.branchLoad_noDL (p : Path) : NoDL p.branchLoad := by
  unfold Path.branchLoad; nodl

@[nodl] theorem Path.branchSpurious_noDL (p : Path) (b : Bool) : NoDL (p.branchSpurious b) := by
  unfold Path.branchSpurious; nodl

/-! ### `Threads`, `Exec` -/

@[nodl] theorem Threads.newThread_noDL (s : Threads) : NoDL s.newThread := by
  unfold Threads.newThread; nodl

@[nodl] theorem Exec.newThread_noDL (e : Exec) : NoDL e.newThread := by
  unfold Exec.newThread; nodl

/-! ### atomics -/

@[nodl] theorem Atomic.mutatingCheck_noDL (a : Atomic) : NoDL a.mutatingCheck := by
  unfold Atomic.mutatingCheck; nodl

@[nodl] theorem Atomic.trackLoad_noDL (a : Atomic) (ths : Threads) : NoDL (a.trackLoad ths) := by
  unfold Atomic.trackLoad; nodl

@[nodl] theorem Atomic.trackUnsyncLoad_noDL (a : Atomic) (ths : Threads) :
    NoDL (a.trackUnsyncLoad ths) := by
  unfold Atomic.trackUnsyncLoad; nodl

@[nodl] theorem Atomic.trackStore_noDL (a : Atomic) (ths : Threads) : NoDL (a.trackStore ths) := by
  unfold Atomic.trackStore; nodl

@[nodl] theorem Atomic.trackUnsyncMut_noDL (a : Atomic) (ths : Threads) :
    NoDL (a.trackUnsyncMut ths) := by
  unfold Atomic.trackUnsyncMut; nodl

@[nodl] theorem Atomic.load_noDL (a : Atomic) (ths : Threads) (idx : Nat) (o : Ord) :
    NoDL (a.load ths idx o) := by
  unfold Atomic.load; nodl

@[nodl] theorem Atomic.rmw_noDL (a : Atomic) (ths : Threads) (idx : Nat) (so fo : Ord)
    (f : Nat → Option Nat) : NoDL (a.rmw ths idx so fo f) := by
  unfold Atomic.rmw; nodl

@[nodl] theorem Atomic.matchInner_noDL (a : Atomic) (blocked : Nat → Nat → Bool) (i : Nat)
    (l : List Nat) : NoDL (a.matchInner blocked i l) := by
  induction l with
  | nil => unfold Atomic.matchInner; nodl
  | cons j js ih => unfold Atomic.matchInner; nodl <;> exact ih

@[nodl] theorem Atomic.matchOuter_noDL (a : Atomic) (blocked : Nat → Nat → Bool) (l : List Nat) :
    NoDL (a.matchOuter blocked l) := by
  induction l with
  | nil => unfold Atomic.matchOuter; nodl
  | cons i is ih =>
    unfold Atomic.matchOuter
    nodl
    all_goals first
      | exact ih
      | (constructor; intro e' h'; cases h'
         rename_i herr
         exact (Atomic.matchInner_noDL _ _ _ _).h _ herr)
      | (constructor; intro e' h'; cases h'
         rename_i herr
         exact ih.h _ herr)

@[nodl] theorem Atomic.matchLoadToStores_noDL (a : Atomic) (ths : Threads) (o : Ord) :
    NoDL (a.matchLoadToStores ths o) := Atomic.matchOuter_noDL _ _ _

@[nodl] theorem Atomic.matchRmwToStores_noDL (a : Atomic) : NoDL a.matchRmwToStores :=
  Atomic.matchOuter_noDL _ _ _

@[nodl] theorem Prim.candidates_noDL (a : Atomic) (ths : Threads) (p : Prim) :
    NoDL (p.candidates a ths) := by
  unfold Prim.candidates; nodl

@[nodl] theorem Prim.effect_noDL (t : ATy) (a : Atomic) (ths : Threads) (p : Prim) (idx : Nat) :
    NoDL (p.effect t a ths idx) := by
  unfold Prim.effect; nodl

/-! ### the interpreter -/

open World

@[nodl] theorem getAtomic_noDL (w : World) (o : Nat) : NoDL (w.getAtomic o) := by
  unfold World.getAtomic; nodl
@[nodl] theorem getMutex_noDL (w : World) (o : Nat) : NoDL (w.getMutex o) := by
  unfold World.getMutex; nodl
@[nodl] theorem getNotify_noDL (w : World) (o : Nat) : NoDL (w.getNotify o) := by
  unfold World.getNotify; nodl
@[nodl] theorem getArc_noDL (w : World) (o : Nat) : NoDL (w.getArc o) := by
  unfold World.getArc; nodl

@[nodl] theorem primEffect_noDL (w : World) (x : Nat) (p : Prim) : NoDL (w.primEffect x p) := by
  unfold World.primEffect; nodl

@[nodl] theorem postAcquire_noDL (w : World) (o : Nat) : NoDL (w.postAcquire o) := by
  unfold World.postAcquire; nodl

@[nodl] theorem releaseLock_noDL (w : World) (o : Nat) : NoDL (w.releaseLock o) := by
  unfold World.releaseLock; nodl

@[nodl] theorem notifyWait2_noDL (w : World) (o : Nat) : NoDL (w.notifyWait2 o) := by
  unfold World.notifyWait2; nodl

@[nodl] theorem notifyEffect_noDL (w : World) (o : Nat) : NoDL (w.notifyEffect o) := by
  unfold World.notifyEffect; nodl

@[nodl] theorem refDecEffect_noDL (w : World) (o : Nat) : NoDL (w.refDecEffect o) := by
  unfold World.refDecEffect; nodl

@[nodl] theorem afterDec_noDL (w : World) (a : Nat) (last : Bool) : NoDL (w.afterDec a last) := by
  unfold World.afterDec; nodl

@[nodl] theorem lookupSpawn_noDL (w : World) (b : Nat) : NoDL (w.lookupSpawn b) := by
  unfold World.lookupSpawn; nodl

@[nodl] theorem wakerClone_noDL (w : World) (a : Nat) : NoDL (w.wakerClone a) := by
  unfold World.wakerClone; nodl

@[nodl] theorem wakerDrop_noDL (w : World) (a : Nat) : NoDL (w.wakerDrop a) := by
  unfold World.wakerDrop; nodl

end Deadlock3
end LoomVerif

/-
Refinement, FUTURES fragment: the simulation for `wakeRef f` (wake by reference: stage 0 the branch point of the flag
store, 1 its effect, 2 the slot's mutex is locked and the slot is looked at — the reference step —, 5 the notification
with the mutex still held, unlock, completion) and `wakeQ f` (the same without the flag store: stages 0, 2, 5).
-/
import LoomVerif.Proofs.Refine4Ok

set_option linter.unusedSimpArgs false
set_option linter.unusedVariables false

namespace LoomVerif
namespace Refine4
open Refine Sy Refine2 C20

/-- a slot mutex (not an `AtomicWaker`'s) changes hands: the futures part is kept -/
theorem RF.setSlotMutex {p : Prog} {ctl : List TCtl} {futs : List FutSt} {objs : List OV4} {d : SCData4}
    (h : RF p ctl futs objs d) {f : Nat} {l l' : Option Nat} (hvo : objs[mbase p + 2 * f]? = some (.mutex l)) :
    RF p ctl futs (objs.set (mbase p + 2 * f) (.mutex l')) d := by
  have hset := view_set_mutex (l' := l') hvo
  refine ⟨?_, ?_, ?_, ?_⟩
  · rw [hset.2.1]; exact h.s
  · rw [hset.2.1]; exact h.c
  · rw [hset.2.2]; exact h.a
  · rw [hset.1]; exact h.w.other _

/-- `wakeRefF` keeps the fields the registration group reads -/
theorem wakeRefF_static (u : DFut) :
    (wakeRefF u).slot = u.slot ∧ (wakeRefF u).gen = u.gen ∧ (wakeRefF u).slotGen = u.slotGen := by
  unfold wakeRefF
  split <;> exact ⟨rfl, rfl, rfl⟩

theorem wakeRefF_keep (u : DFut) :
    (wakeRefF u).spurUsed = u.spurUsed ∧ (wakeRefF u).polled = u.polled := by
  unfold wakeRefF
  split <;> exact ⟨rfl, rfl⟩

theorem wakeRefF_none {u : DFut} (h : u.slot = false) : wakeRefF u = u := by
  unfold wakeRefF
  rw [if_neg (by rw [h]; exact Bool.false_ne_true)]

section
variable {w w' : World} {s : SC.St}

theorem sim_wakeRef0 (hR : R4 w s) (hact : w.tid < w.ctl.length) {f : Nat}
    (hop : opAt w = some (.wakeRef f)) (hst : (w.ctlOf w.tid).stage = 0)
    (h : w.stepActive = .ok w') : Sim4 w s w' := by
  rw [stepActive_op hop] at h
  have h' : w.primStart f (.store 1 .rel) = .ok w' := by
    simp only [World.runOp, World.wakeStage, hst] at h
    exact h
  obtain ⟨hp, hr, hv⟩ := primStart_view (act := .atomStore) rfl h'
  refine ⟨hp, ⟨s, .nil s, ?_⟩, hr⟩
  have hopc : opOfCtl w.prog (w.ctlOf w.tid) = some (.wakeRef f) := hop
  refine R4_quiet hR hact _ hv rfl rfl rfl rfl rfl rfl ?_ ?_ ?_ ?_ ?_
  · rw [hop]; rfl
  · rw [hop, hst]; rfl
  · rw [hop]; rfl
  · have hopc' : opOfCtl w.prog { w.ctlOf w.tid with prim := some (.store 1 .rel), stage := 1 } = some (.wakeRef f) := hop
    simp only [fattr, inflS, pendN, callOf, aw25, hopc, hopc', hst]
  · intro x hx; rw [hop] at hx; cases hx

/-- stage 1: the flag store takes effect; the reference step is still to come -/
theorem sim_wakeRef1 (hwf : WF4 w.prog) (hR : R4 w s) (hact : w.tid < w.ctl.length) {f : Nat}
    (hop : opAt w = some (.wakeRef f)) (hst : (w.ctlOf w.tid).stage = 1)
    (h : w.stepActive = .ok w') : Sim4 w s w' := by
  rw [stepActive_op hop] at h
  simp only [World.runOp, World.wakeStage, hst] at h
  obtain ⟨⟨w1, r⟩, h1, h2⟩ := Refine.bind_ok h
  obtain ⟨m, h3, h4⟩ := Refine.bind_ok h2
  clear h h2
  obtain ⟨hf, hfa⟩ := fut_lt hwf hop rfl
  -- the store
  obtain ⟨l, full, c0, hvo, hk1, _, hv1⟩ := primEffect_store_view h1
  obtain ⟨v0, c1, hav, _⟩ := hR.f.a.atom f hfa
  have hfull : full = true := by
    rw [avOf_some] at hav
    rw [hav] at hvo
    cases hvo; rfl
  have hv1' := hv1 hfull
  -- the branch point
  have hs := branch_sched h4
  have hp : w'.prog = w.prog := hs.fr.1.trans hk1.1.1
  refine ⟨hp, ⟨s, .nil s, ?_⟩, hs.inRange⟩
  have hv : view4 w' = { view4 w with
      ctl := w.ctl.modify w.tid (fun c => { c with stage := 2 }),
      objs := (view4 w).objs.set f (.atomic (w.cfg.ty.intoU64 1) true (c0 + 1)) } := by
    rw [hs.view, view4_setStage, hv1', hk1.1.2.1, hk1.2.1]
  have hopc : opOfCtl w.prog (w.ctlOf w.tid) = some (.wakeRef f) := hop
  have hopc' : opOfCtl w.prog { w.ctlOf w.tid with stage := 2 } = some (.wakeRef f) := hop
  have hrel := rel4 hR hact
  have hset := view_set_atomic (v' := w.cfg.ty.intoU64 1) (b' := true) (c' := c0 + 1) hvo
  refine R4_step hR hact (fun c => { c with stage := 2 }) id (view4 w).futs _ hv
    (by rw [modify_id' _ _ id (fun _ => rfl)]) hR.verdict rfl (Nat.le_refl _) ?_ ?_ id
    (notify_kept_set _ hvo (by intro nt ds e; cases e)) ?_
  · refine hrel.of rfl rfl rfl rfl rfl rfl rfl (by rw [hopc']; rfl) (by rw [hopc']; intro x hx; cases hx) ?_
    have r9 := hrel.2.2.2.2.2.2.2.2
    rw [hopc, hst] at r9
    rw [hopc']
    exact r9
  · intro hne
    exact absurd (fin_zero4 hR hact hop) hne
  · refine RF.ofGroups' (x1 := some f) (x2 := none) (x3 := none) (x4 := none) hact _
      (by show inflS w.prog { w.ctlOf w.tid with stage := 2 } = _; simp only [inflS, hopc'])
      (by show pendN w.prog { w.ctlOf w.tid with stage := 2 } = _; simp only [pendN, hopc'])
      (by show callOf w.prog { w.ctlOf w.tid with stage := 2 } = _; simp only [callOf, hopc'])
      (by show aw25 w.prog { w.ctlOf w.tid with stage := 2 } = _; simp only [aw25, hopc']) ?_ ?_ ?_ ?_
    · rw [hset.2.1]; exact hR.f.s
    · rw [hset.2.1]
      exact hR.f.c.same (by show pendN w.prog (w.ctlOf w.tid) = none; simp only [pendN, hopc, hst])
        (by show callOf w.prog (w.ctlOf w.tid) = none; simp only [callOf, hopc])
    · rw [hset.1]
      exact hR.f.a.enter hact hfa (by show inflS w.prog (w.ctlOf w.tid) = none; simp only [inflS, hopc, hst])
        (avOf_some.2 hvo)
    · rw [hset.2.2]
      exact hR.f.w.same (by show aw25 w.prog (w.ctlOf w.tid) = none; simp only [aw25, hopc, hst])

/-- stage 2: the slot's mutex is locked, the slot is looked at: THE REFERENCE STEP of `wakeRef` -/
theorem sim_wakeRef2 (hwf : WF4 w.prog) (hR : R4 w s) (hact : w.tid < w.ctl.length) {f : Nat}
    (hop : opAt w = some (.wakeRef f)) (hst : (w.ctlOf w.tid).stage = 2)
    (h : w.stepActive = .ok w') : Sim4 w s w' := by
  rw [stepActive_op hop] at h
  have h' : w.wakeStage (w.ctlOf w.tid) f false true = .ok w' := by
    simp only [World.runOp] at h; exact h
  rw [wake_stage2 w _ f false true hst] at h'
  clear h
  obtain ⟨⟨w1, okk⟩, h1, h2⟩ := Refine.bind_ok h'
  clear h'
  obtain ⟨hf, hfa⟩ := fut_lt hwf hop rfl
  have hnoaw := noAw hwf hR hop rfl (by decide)
  have hmtx : (w.futs.getD f {}).slotMutex = mbase w.prog + 2 * f := (hR.f.s.mtx f hf).1
  -- the lock
  obtain ⟨l, hvo, hokk, hk1, _, hv1⟩ := postAcquire_view h1
  cases okk with
  | false => simp [bind, Except.bind, throw, throwThe, MonadExceptOf.throw] at h2
  | true =>
  simp only [Bool.not_true, Bool.false_eq_true, if_false, if_true, bind, Except.bind, pure, Except.pure] at h2
  have hl : l = none := by cases l <;> simp at hokk ⊢
  subst hl
  have hv1' := hv1 rfl
  have hslot1 : (w1.futs.getD f {}).slot = (w.futs.getD f {}).slot := by rw [hk1.1.2.2.2.1]
  rw [hslot1] at h2
  have hctl1 : w1.ctl = w.ctl := hk1.1.2.1
  have htid1 : w1.tid = w.tid := hk1.2.1
  have hfuts1 : w1.futs = w.futs := hk1.1.2.2.2.1
  rw [hmtx] at hvo hv1' h2
  generalize hw2 : (w1.modCtl w1.tid fun c =>
      { c with taken := (w.futs.getD f {}).arc, takenNotify := (w.futs.getD f {}).notify }) = w2 at h2
  have hv2 : view4 w2 = { view4 w with
      ctl := w.ctl.modify w.tid
        (fun c => { c with taken := (w.futs.getD f {}).arc, takenNotify := (w.futs.getD f {}).notify }),
      objs := (view4 w).objs.set (mbase w.prog + 2 * f) (.mutex (some w.tid)) } := by
    rw [← hw2, view4_modCtl, hv1', hctl1, htid1]
  have hctl2 : w2.ctl = w.ctl.modify w.tid
      (fun c => { c with taken := (w.futs.getD f {}).arc, takenNotify := (w.futs.getD f {}).notify }) :=
    congrArg View.ctl hv2
  have htid2 : w2.tid = w.tid := by rw [← hw2]; exact htid1
  have hprog2 : w2.prog = w.prog := by rw [← hw2]; exact hk1.1.1
  have hlen2 : w2.exec.threads.threads.length = w.exec.threads.threads.length := by rw [← hw2]; exact hk1.2.2
  have hlen4 : w.ctl.length = w.exec.threads.threads.length := hR.lenCtl
  have hopc : opOfCtl w.prog (w.ctlOf w.tid) = some (.wakeRef f) := hop
  have hrel := rel4 hR hact
  obtain ⟨_, _, hpl, hstd, hfinr⟩ := act4 hR hact
  have hsy := sync4 hR hact (by rw [hop, hst]; rfl)
  obtain ⟨hrun1, hrun2⟩ := running4 hR hact hop
  -- the reference step
  obtain ⟨s', hstep, hdata⟩ := sc_step_wakeRef (f := f) hpl (hsy.1.trans hop)
  have hen : SC.enabled w.prog s (w.ctlOf w.tid).body = true :=
    sc_enabled_op hR.verdict hpl hrun1 hrun2 (hsy.1.trans hop) (hwf.opOk hop) rfl
  have hex : SCExec2 w.prog s s' := exec_step hen hstep
  have hia : iaOf w.prog w.ctl w.tid = some f := by
    show inflS w.prog (w.ctlOf w.tid) = some f
    simp only [inflS, hopc, hst]
  have hGA := hR.f.a.lin hact hfa hia
  have hdf : (data4 s').futs = (data4 s).futs.modify f wakeRefF := by rw [hdata]; rfl
  have hda : (data4 s').atoms = (data4 s).atoms.set f 1 := by rw [hdata]; rfl
  have hdt : (data4 s').ths = (data4 s).ths.modify (w.ctlOf w.tid).body
      (fun h => { h with rets := (h.pc, Ret.unit) :: h.rets, pc := h.pc + 1 }) := by rw [hdata]; rfl
  have hdv : (data4 s').verdict = none := by rw [hdata]; exact hR.verdict
  have huslot : ((data4 s).futs.getD f {}).slot = (w.futs.getD f {}).slot := by
    have := hR.f.s.slot f hf
    rw [show (view4 w).futs = w.futs from rfl, hnoaw, Bool.or_false] at this
    exact this
  have r9 := hrel.2.2.2.2.2.2.2.2
  rw [hopc, hst] at r9
  have r9' : ((data4 s).ths.getD (w.ctlOf w.tid).body {}).pc = (w.ctlOf w.tid).pc ∧
      ((data4 s).ths.getD (w.ctlOf w.tid).body {}).rets = (w.ctlOf w.tid).results ∧
      ((data4 s).ths.getD (w.ctlOf w.tid).body {}).phase = 0 := r9
  -- the registration
  have hGS : GS w.prog w.futs (nvOf (view4 w).objs) ((data4 s).futs.modify f wakeRefF) :=
    hR.f.s.df f wakeRefF (wakeRefF_static _)
  have hpa0 : paOf w.prog w.ctl w.tid = none := by
    show pendN w.prog (w.ctlOf w.tid) = none
    simp only [pendN, hopc, hst]
  have hca0 : caOf w.prog w.ctl w.tid = none := by
    show callOf w.prog (w.ctlOf w.tid) = none
    simp only [callOf, hopc]
  have hwa0 : waOf w.prog w.ctl w.tid = none := by
    show aw25 w.prog (w.ctlOf w.tid) = none
    simp only [aw25, hopc, hst]
  cases hhad : (w.futs.getD f {}).slot with
  | true =>
    -- a waker is registered: the notification is still to come, the mutex stays held
    rw [hhad] at h2
    simp only [if_true] at h2
    have hs := branch_sched h2
    refine ⟨hs.fr.1.trans hprog2, ⟨s', hex, ?_⟩, hs.inRange⟩
    have hv : view4 w' = { view4 w with
        ctl := w.ctl.modify w.tid
          (fun c => { c with taken := (w.futs.getD f {}).arc, takenNotify := (w.futs.getD f {}).notify, stage := 5 }),
        objs := (view4 w).objs.set (mbase w.prog + 2 * f) (.mutex (some w.tid)) } := by
      rw [hs.view, view4_setStage, hv2, hctl2, htid2, modify_modify']
    have hopc' : opOfCtl w.prog
        { w.ctlOf w.tid with taken := (w.futs.getD f {}).arc, takenNotify := (w.futs.getD f {}).notify, stage := 5 } =
        some (.wakeRef f) := hop
    have hset := view_set_mutex (l' := some w.tid) hvo
    -- the call the waker belongs to
    obtain ⟨i0, m0, b0, hi0, hc0⟩ := hR.f.c.slotCall f hf hhad
    obtain ⟨_, nt0, ds0, hnv0, _⟩ := hR.f.c.call i0 f m0 b0 hi0 hc0
    unfold R4
    refine R4_step hR hact _ (fun h => { h with rets := (h.pc, Ret.unit) :: h.rets, pc := h.pc + 1 })
      (view4 w).futs _ hv hdt hdv rfl (Nat.le_refl _) ?_ ?_ id
      (notify_kept_set _ hvo (by intro nt ds e; cases e)) ?_
    · refine hrel.of rfl rfl rfl rfl rfl rfl rfl (by rw [hopc']; rfl) (by rw [hopc']; intro x hx; cases hx) ?_
      rw [hopc']
      show _ = (w.ctlOf w.tid).pc + 1 ∧ _ = ((w.ctlOf w.tid).pc, Ret.unit) :: (w.ctlOf w.tid).results ∧ _ = 0
      rw [r9'.1, r9'.2.1]
      exact ⟨rfl, rfl, r9'.2.2⟩
    · intro hne
      exact absurd (fin_zero4 hR hact hop) hne
    · refine RF.ofGroups' (x1 := none) (x2 := some (w.futs.getD f {}).notify) (x3 := none) (x4 := none) hact _
        (by show inflS w.prog { w.ctlOf w.tid with taken := _, takenNotify := _, stage := 5 } = _
            simp only [inflS, hopc'])
        (by show pendN w.prog { w.ctlOf w.tid with taken := _, takenNotify := _, stage := 5 } = _
            simp only [pendN, hopc'])
        (by show callOf w.prog { w.ctlOf w.tid with taken := _, takenNotify := _, stage := 5 } = _
            simp only [callOf, hopc'])
        (by show aw25 w.prog { w.ctlOf w.tid with taken := _, takenNotify := _, stage := 5 } = _
            simp only [aw25, hopc']) ?_ ?_ ?_ ?_
      · rw [hdf, hset.2.1]; exact hGS
      · rw [hdf, hset.2.1]
        have : upd (caOf w.prog w.ctl) w.tid none = caOf w.prog w.ctl := by rw [← hca0]; exact upd_same _ _
        rw [this]
        have hlin := hR.f.c.linNotify (k := (w.futs.getD f {}).notify) hact hf hR.f.s.lenF hR.f.s.lenDF hpa0
          (fun u => u) wakeRefF ⟨nt0, ds0, hnv0⟩ rfl (wakeRefF_keep _) ?_ ?_ ?_ (fun e => e) (fun e => ⟨e, rfl⟩)
        · rw [modify_id' _ _ (fun u => u) (fun _ => rfl)] at hlin
          exact hlin
        · intro _
          have hus : ((data4 s).futs.getD f {}).slot = true := by rw [huslot]; exact hhad
          have hg := hR.f.s.genS f hf hhad
          unfold wakeRefF
          rw [if_pos hus]
          show (_ || ((data4 s).futs.getD f {}).slotGen == ((data4 s).futs.getD f {}).gen) = true
          rw [hg]; simp
        · intro hne; exact absurd rfl hne
        · intro i f' m b hi hc hn
          exact hR.f.c.callInj i i0 f' f m m0 b b0 hi hi0 hc hc0 hn
      · rw [hda, hset.2.2]; exact hGA
      · rw [hset.1]
        exact (hR.f.w.same hwa0).other _
  | false =>
    -- nothing is registered: unlock, the operation completes
    rw [hhad] at h2
    simp only [Bool.false_eq_true, if_false] at h2
    obtain ⟨w4, h3, h4⟩ := Refine.bind_ok h2
    clear h2
    cases h4
    obtain ⟨l2, _, hk4, hv4⟩ := releaseLock_view h3
    have htid4 : w4.tid = w.tid := hk4.2.1.trans htid2
    refine ⟨hk4.1.1.trans hprog2, ⟨s', hex, ?_⟩,
      inRange_of (w := w) htid4 (Nat.le_of_eq (hk4.2.2.trans hlen2).symm) (by
        rw [← hlen4]; exact hact)⟩
    have hv4' : view4 w4 = { view4 w with
        ctl := w.ctl.modify w.tid
          (fun c => { c with taken := (w.futs.getD f {}).arc, takenNotify := (w.futs.getD f {}).notify }) } := by
      rw [hv4, hv2]
      show ({ view4 w with ctl := _, objs := (((view4 w).objs.set _ _).set _ _) } : View) = _
      rw [lock_unlock_objs hvo]
    have hctl4 : w4.ctl = w.ctl.modify w.tid
        (fun c => { c with taken := (w.futs.getD f {}).arc, takenNotify := (w.futs.getD f {}).notify }) :=
      congrArg View.ctl hv4'
    have hv : view4 (w4.complete .unit) = { view4 w with
        ctl := w.ctl.modify w.tid
          (fun c => completeF .unit { c with taken := (w.futs.getD f {}).arc, takenNotify := (w.futs.getD f {}).notify }) } := by
      rw [view4_complete, hv4', hctl4, htid4, modify_modify']
    unfold R4
    refine R4_step hR hact _ (fun h => { h with rets := (h.pc, Ret.unit) :: h.rets, pc := h.pc + 1 })
      (view4 w).futs (view4 w).objs hv hdt hdv rfl (Nat.le_succ _) ?_ ?_ id (fun _ _ _ h => h) ?_
    · refine hrel.of rfl rfl rfl rfl rfl rfl rfl (stageOk_zero _) (by intro x _ h1; cases h1) ?_
      show match aheadOf _ 0 with | none => _ | some r => _
      rw [aheadOf_zero]
      show _ = (w.ctlOf w.tid).pc + 1 ∧ _ = ((w.ctlOf w.tid).pc, Ret.unit) :: (w.ctlOf w.tid).results ∧ _ = phaseOf _ 0
      rw [r9'.1, r9'.2.1, phaseOf_zero]
      exact ⟨rfl, rfl, r9'.2.2⟩
    · intro hne
      exact absurd (fin_zero4 hR hact hop) hne
    · obtain ⟨e1, e2, e3, e4⟩ := fattr_stage0 w.prog (completeF .unit
        { w.ctlOf w.tid with taken := (w.futs.getD f {}).arc, takenNotify := (w.futs.getD f {}).notify }) rfl
      have hus : ((data4 s).futs.getD f {}).slot = false := by rw [huslot]; exact hhad
      have hdf' : (data4 s').futs = (data4 s).futs := by
        rw [hdf]
        apply modify_eq_self
        intro a ha
        have : (data4 s).futs.getD f {} = a := getD_of_getElem? ha
        rw [this] at hus
        exact wakeRefF_none hus
      refine RF.ofGroups' hact _ e1 e2 e3 e4 ?_ ?_ ?_ ?_
      · rw [hdf']; exact hR.f.s
      · rw [hdf']; exact hR.f.c.same hpa0 hca0
      · rw [hda]; exact hGA
      · exact hR.f.w.same hwa0

/-- stage 5: the notification lands with the slot's mutex still held, the mutex is released, the operation completes
(the reference has notified and recorded the result at stage 2) -/
theorem sim_wakeRef5 (hwf : WF4 w.prog) (hR : R4 w s) (hact : w.tid < w.ctl.length) {f : Nat}
    (hop : opAt w = some (.wakeRef f)) (hst : (w.ctlOf w.tid).stage = 5)
    (h : w.stepActive = .ok w') : Sim4 w s w' := by
  rw [stepActive_op hop] at h
  have h' : w.wakeStage (w.ctlOf w.tid) f false true = .ok w' := by
    simp only [World.runOp] at h; exact h
  rw [wake_stage5 w _ f false true (Nat.le_of_eq hst.symm)] at h'
  clear h
  obtain ⟨w1, h1, h2⟩ := Refine.bind_ok h'
  obtain ⟨w2, h3, h4⟩ := Refine.bind_ok h2
  clear h' h2
  simp only [pure, Except.pure] at h4
  cases h4
  obtain ⟨hf, hfa⟩ := fut_lt hwf hop rfl
  have hmtx : (w.futs.getD f {}).slotMutex = mbase w.prog + 2 * f := (hR.f.s.mtx f hf).1
  rw [hmtx] at h3
  obtain ⟨sp, nt, ds, hvo, hk1, hv1⟩ := notifyEffect_view h1
  obtain ⟨l2, hvo2, hk2, hv2⟩ := releaseLock_view h3
  rw [hv1] at hvo2
  have hvo2' : ((view4 w).objs.set (w.ctlOf w.tid).takenNotify (.notify sp true ds))[mbase w.prog + 2 * f]? =
      some (.mutex l2) := hvo2
  have hlen : w.ctl.length = w.exec.threads.threads.length := hR.lenCtl
  have htid2 : w2.tid = w.tid := hk2.2.1.trans hk1.2.1
  refine ⟨hk2.1.1.trans hk1.1.1, ⟨s, .nil s, ?_⟩,
    inRange_of (w := w) htid2 (Nat.le_of_eq (hk2.2.2.trans hk1.2.2).symm) (by rw [← hlen]; exact hact)⟩
  have hv : view4 (w2.complete .unit) = { view4 w with
      ctl := w.ctl.modify w.tid (completeF .unit),
      objs := ((view4 w).objs.set (w.ctlOf w.tid).takenNotify (.notify sp true ds)).set
        (mbase w.prog + 2 * f) (.mutex none) } := by
    rw [view4_complete, hv2, hv1, hk2.1.2.1, hk2.2.1, hk1.1.2.1, hk1.2.1]
  have hopc : opOfCtl w.prog (w.ctlOf w.tid) = some (.wakeRef f) := hop
  have hrel := rel4 hR hact
  have hah : aheadOf (opAt w) (w.ctlOf w.tid).stage = some .unit := by rw [hop, hst]; rfl
  have r9 := hrel.2.2.2.2.2.2.2.2
  rw [opOfCtl_active, hah] at r9
  obtain ⟨e1, e2, e3, e4⟩ := fattr_stage0 w.prog (completeF .unit (w.ctlOf w.tid)) rfl
  obtain ⟨hsp, hRF⟩ := hR.f.land hact (completeF .unit)
    (by show pendN w.prog (w.ctlOf w.tid) = _; simp only [pendN, hopc, hst])
    ⟨by show inflS w.prog (w.ctlOf w.tid) = _; simp only [inflS, hopc, hst],
     by show callOf w.prog (w.ctlOf w.tid) = _; simp only [callOf, hopc],
     by show aw25 w.prog (w.ctlOf w.tid) = _; simp only [aw25, hopc, hst]⟩
    (by show fattr w.prog (completeF .unit (w.ctlOf w.tid)) = _
        simp only [fattr, e1, e2, e3, e4]) hvo
  subst hsp
  unfold R4
  refine R4_step hR hact (completeF .unit) id (view4 w).futs _ hv
    (by rw [modify_id' _ _ id (fun _ => rfl)]) hR.verdict rfl (Nat.le_succ _) ?_ ?_ id
    (fun n nt' ds' hn => notify_kept_set _ hvo2' (by intro _ _ e; cases e) n nt' ds'
      (notify_kept_set _ hvo (by intro _ _ e; cases e) n nt' ds' hn))
    (hRF.setSlotMutex hvo2')
  · refine hrel.of rfl rfl rfl rfl rfl rfl rfl (stageOk_zero _) (by intro x _ h1; cases h1) ?_
    show match aheadOf _ 0 with | none => _ | some r => _
    rw [aheadOf_zero]
    show _ = (w.ctlOf w.tid).pc + 1 ∧ _ = ((w.ctlOf w.tid).pc, Ret.unit) :: (w.ctlOf w.tid).results ∧ _ = phaseOf _ 0
    rw [phaseOf_zero]
    exact r9
  · intro hne
    exact absurd (fin_zero4 hR hact hop) hne

/-! ### `wakeQ f`: `wakeRef f` without the flag store -/

/-- `wakeQ`, stage 0: the branch point of the lock of the slot's mutex (no flag store) -/
theorem sim_wakeQ0 (hR : R4 w s) (hact : w.tid < w.ctl.length) {f : Nat}
    (hop : opAt w = some (.wakeQ f)) (hst : (w.ctlOf w.tid).stage = 0)
    (h : w.stepActive = .ok w') : Sim4 w s w' := by
  rw [stepActive_op hop, wakeQ_eq, wake_stage0_quiet w _ f false hst] at h
  obtain ⟨m, h3, h4⟩ := Refine.bind_ok h
  clear h
  have hs := branch_sched h4
  refine ⟨hs.fr.1, ⟨s, .nil s, ?_⟩, hs.inRange⟩
  have hv : view4 w' = { view4 w with ctl := w.ctl.modify w.tid (fun c => { c with stage := 2 }) } := by
    rw [hs.view, view4_setStage]
  have hopc : opOfCtl w.prog (w.ctlOf w.tid) = some (.wakeQ f) := hop
  refine R4_quiet hR hact _ hv rfl rfl rfl rfl rfl rfl ?_ ?_ ?_ ?_ ?_
  · rw [hop]; rfl
  · rw [hop, hst]; rfl
  · rw [hop]; rfl
  · have hopc' : opOfCtl w.prog { w.ctlOf w.tid with stage := 2 } = some (.wakeQ f) := hop
    simp only [fattr, inflS, pendN, callOf, aw25, hopc, hopc', hst]
  · intro x hx; rw [hop] at hx; cases hx

/-- stage 2: the slot's mutex is locked, the slot is looked at: THE REFERENCE STEP of `wakeQ` -/
theorem sim_wakeQ2 (hwf : WF4 w.prog) (hR : R4 w s) (hact : w.tid < w.ctl.length) {f : Nat}
    (hop : opAt w = some (.wakeQ f)) (hst : (w.ctlOf w.tid).stage = 2)
    (h : w.stepActive = .ok w') : Sim4 w s w' := by
  rw [stepActive_op hop] at h
  have h' : w.wakeStage (w.ctlOf w.tid) f false false = .ok w' := by
    simp only [World.runOp] at h; exact h
  rw [wake_stage2 w _ f false false hst] at h'
  clear h
  obtain ⟨⟨w1, okk⟩, h1, h2⟩ := Refine.bind_ok h'
  clear h'
  obtain ⟨hf, hfa⟩ := fut_lt hwf hop rfl
  have hnoaw := noAw hwf hR hop rfl (by decide)
  have hmtx : (w.futs.getD f {}).slotMutex = mbase w.prog + 2 * f := (hR.f.s.mtx f hf).1
  -- the lock
  obtain ⟨l, hvo, hokk, hk1, _, hv1⟩ := postAcquire_view h1
  cases okk with
  | false => simp [bind, Except.bind, throw, throwThe, MonadExceptOf.throw] at h2
  | true =>
  simp only [Bool.not_true, Bool.false_eq_true, if_false, if_true, bind, Except.bind, pure, Except.pure] at h2
  have hl : l = none := by cases l <;> simp at hokk ⊢
  subst hl
  have hv1' := hv1 rfl
  have hslot1 : (w1.futs.getD f {}).slot = (w.futs.getD f {}).slot := by rw [hk1.1.2.2.2.1]
  rw [hslot1] at h2
  have hctl1 : w1.ctl = w.ctl := hk1.1.2.1
  have htid1 : w1.tid = w.tid := hk1.2.1
  have hfuts1 : w1.futs = w.futs := hk1.1.2.2.2.1
  rw [hmtx] at hvo hv1' h2
  generalize hw2 : (w1.modCtl w1.tid fun c =>
      { c with taken := (w.futs.getD f {}).arc, takenNotify := (w.futs.getD f {}).notify }) = w2 at h2
  have hv2 : view4 w2 = { view4 w with
      ctl := w.ctl.modify w.tid
        (fun c => { c with taken := (w.futs.getD f {}).arc, takenNotify := (w.futs.getD f {}).notify }),
      objs := (view4 w).objs.set (mbase w.prog + 2 * f) (.mutex (some w.tid)) } := by
    rw [← hw2, view4_modCtl, hv1', hctl1, htid1]
  have hctl2 : w2.ctl = w.ctl.modify w.tid
      (fun c => { c with taken := (w.futs.getD f {}).arc, takenNotify := (w.futs.getD f {}).notify }) :=
    congrArg View.ctl hv2
  have htid2 : w2.tid = w.tid := by rw [← hw2]; exact htid1
  have hprog2 : w2.prog = w.prog := by rw [← hw2]; exact hk1.1.1
  have hlen2 : w2.exec.threads.threads.length = w.exec.threads.threads.length := by rw [← hw2]; exact hk1.2.2
  have hlen4 : w.ctl.length = w.exec.threads.threads.length := hR.lenCtl
  have hopc : opOfCtl w.prog (w.ctlOf w.tid) = some (.wakeQ f) := hop
  have hrel := rel4 hR hact
  obtain ⟨_, _, hpl, hstd, hfinr⟩ := act4 hR hact
  have hsy := sync4 hR hact (by rw [hop, hst]; rfl)
  obtain ⟨hrun1, hrun2⟩ := running4 hR hact hop
  -- the reference step
  obtain ⟨s', hstep, hdata⟩ := sc_step_wakeQ (f := f) hpl (hsy.1.trans hop)
  have hen : SC.enabled w.prog s (w.ctlOf w.tid).body = true :=
    sc_enabled_op hR.verdict hpl hrun1 hrun2 (hsy.1.trans hop) (hwf.opOk hop) rfl
  have hex : SCExec2 w.prog s s' := exec_step hen hstep
  have hia : iaOf w.prog w.ctl w.tid = none := by
    show inflS w.prog (w.ctlOf w.tid) = none
    simp only [inflS, hopc, hst]
  have hGA := hR.f.a.same hia
  have hdf : (data4 s').futs = (data4 s).futs.modify f wakeRefF := by rw [hdata]; rfl
  have hda : (data4 s').atoms = (data4 s).atoms := by rw [hdata]; rfl
  have hdt : (data4 s').ths = (data4 s).ths.modify (w.ctlOf w.tid).body
      (fun h => { h with rets := (h.pc, Ret.unit) :: h.rets, pc := h.pc + 1 }) := by rw [hdata]; rfl
  have hdv : (data4 s').verdict = none := by rw [hdata]; exact hR.verdict
  have huslot : ((data4 s).futs.getD f {}).slot = (w.futs.getD f {}).slot := by
    have := hR.f.s.slot f hf
    rw [show (view4 w).futs = w.futs from rfl, hnoaw, Bool.or_false] at this
    exact this
  have r9 := hrel.2.2.2.2.2.2.2.2
  rw [hopc, hst] at r9
  have r9' : ((data4 s).ths.getD (w.ctlOf w.tid).body {}).pc = (w.ctlOf w.tid).pc ∧
      ((data4 s).ths.getD (w.ctlOf w.tid).body {}).rets = (w.ctlOf w.tid).results ∧
      ((data4 s).ths.getD (w.ctlOf w.tid).body {}).phase = 0 := r9
  -- the registration
  have hGS : GS w.prog w.futs (nvOf (view4 w).objs) ((data4 s).futs.modify f wakeRefF) :=
    hR.f.s.df f wakeRefF (wakeRefF_static _)
  have hpa0 : paOf w.prog w.ctl w.tid = none := by
    show pendN w.prog (w.ctlOf w.tid) = none
    simp only [pendN, hopc, hst]
  have hca0 : caOf w.prog w.ctl w.tid = none := by
    show callOf w.prog (w.ctlOf w.tid) = none
    simp only [callOf, hopc]
  have hwa0 : waOf w.prog w.ctl w.tid = none := by
    show aw25 w.prog (w.ctlOf w.tid) = none
    simp only [aw25, hopc, hst]
  cases hhad : (w.futs.getD f {}).slot with
  | true =>
    -- a waker is registered: the notification is still to come, the mutex stays held
    rw [hhad] at h2
    simp only [if_true] at h2
    have hs := branch_sched h2
    refine ⟨hs.fr.1.trans hprog2, ⟨s', hex, ?_⟩, hs.inRange⟩
    have hv : view4 w' = { view4 w with
        ctl := w.ctl.modify w.tid
          (fun c => { c with taken := (w.futs.getD f {}).arc, takenNotify := (w.futs.getD f {}).notify, stage := 5 }),
        objs := (view4 w).objs.set (mbase w.prog + 2 * f) (.mutex (some w.tid)) } := by
      rw [hs.view, view4_setStage, hv2, hctl2, htid2, modify_modify']
    have hopc' : opOfCtl w.prog
        { w.ctlOf w.tid with taken := (w.futs.getD f {}).arc, takenNotify := (w.futs.getD f {}).notify, stage := 5 } =
        some (.wakeQ f) := hop
    have hset := view_set_mutex (l' := some w.tid) hvo
    -- the call the waker belongs to
    obtain ⟨i0, m0, b0, hi0, hc0⟩ := hR.f.c.slotCall f hf hhad
    obtain ⟨_, nt0, ds0, hnv0, _⟩ := hR.f.c.call i0 f m0 b0 hi0 hc0
    unfold R4
    refine R4_step hR hact _ (fun h => { h with rets := (h.pc, Ret.unit) :: h.rets, pc := h.pc + 1 })
      (view4 w).futs _ hv hdt hdv rfl (Nat.le_refl _) ?_ ?_ id
      (notify_kept_set _ hvo (by intro nt ds e; cases e)) ?_
    · refine hrel.of rfl rfl rfl rfl rfl rfl rfl (by rw [hopc']; rfl) (by rw [hopc']; intro x hx; cases hx) ?_
      rw [hopc']
      show _ = (w.ctlOf w.tid).pc + 1 ∧ _ = ((w.ctlOf w.tid).pc, Ret.unit) :: (w.ctlOf w.tid).results ∧ _ = 0
      rw [r9'.1, r9'.2.1]
      exact ⟨rfl, rfl, r9'.2.2⟩
    · intro hne
      exact absurd (fin_zero4 hR hact hop) hne
    · refine RF.ofGroups' (x1 := none) (x2 := some (w.futs.getD f {}).notify) (x3 := none) (x4 := none) hact _
        (by show inflS w.prog { w.ctlOf w.tid with taken := _, takenNotify := _, stage := 5 } = _
            simp only [inflS, hopc'])
        (by show pendN w.prog { w.ctlOf w.tid with taken := _, takenNotify := _, stage := 5 } = _
            simp only [pendN, hopc'])
        (by show callOf w.prog { w.ctlOf w.tid with taken := _, takenNotify := _, stage := 5 } = _
            simp only [callOf, hopc'])
        (by show aw25 w.prog { w.ctlOf w.tid with taken := _, takenNotify := _, stage := 5 } = _
            simp only [aw25, hopc']) ?_ ?_ ?_ ?_
      · rw [hdf, hset.2.1]; exact hGS
      · rw [hdf, hset.2.1]
        have : upd (caOf w.prog w.ctl) w.tid none = caOf w.prog w.ctl := by rw [← hca0]; exact upd_same _ _
        rw [this]
        have hlin := hR.f.c.linNotify (k := (w.futs.getD f {}).notify) hact hf hR.f.s.lenF hR.f.s.lenDF hpa0
          (fun u => u) wakeRefF ⟨nt0, ds0, hnv0⟩ rfl (wakeRefF_keep _) ?_ ?_ ?_ (fun e => e) (fun e => ⟨e, rfl⟩)
        · rw [modify_id' _ _ (fun u => u) (fun _ => rfl)] at hlin
          exact hlin
        · intro _
          have hus : ((data4 s).futs.getD f {}).slot = true := by rw [huslot]; exact hhad
          have hg := hR.f.s.genS f hf hhad
          unfold wakeRefF
          rw [if_pos hus]
          show (_ || ((data4 s).futs.getD f {}).slotGen == ((data4 s).futs.getD f {}).gen) = true
          rw [hg]; simp
        · intro hne; exact absurd rfl hne
        · intro i f' m b hi hc hn
          exact hR.f.c.callInj i i0 f' f m m0 b b0 hi hi0 hc hc0 hn
      · rw [hda, hset.2.2]; exact hGA
      · rw [hset.1]
        exact (hR.f.w.same hwa0).other _
  | false =>
    -- nothing is registered: unlock, the operation completes
    rw [hhad] at h2
    simp only [Bool.false_eq_true, if_false] at h2
    obtain ⟨w4, h3, h4⟩ := Refine.bind_ok h2
    clear h2
    cases h4
    obtain ⟨l2, _, hk4, hv4⟩ := releaseLock_view h3
    have htid4 : w4.tid = w.tid := hk4.2.1.trans htid2
    refine ⟨hk4.1.1.trans hprog2, ⟨s', hex, ?_⟩,
      inRange_of (w := w) htid4 (Nat.le_of_eq (hk4.2.2.trans hlen2).symm) (by
        rw [← hlen4]; exact hact)⟩
    have hv4' : view4 w4 = { view4 w with
        ctl := w.ctl.modify w.tid
          (fun c => { c with taken := (w.futs.getD f {}).arc, takenNotify := (w.futs.getD f {}).notify }) } := by
      rw [hv4, hv2]
      show ({ view4 w with ctl := _, objs := (((view4 w).objs.set _ _).set _ _) } : View) = _
      rw [lock_unlock_objs hvo]
    have hctl4 : w4.ctl = w.ctl.modify w.tid
        (fun c => { c with taken := (w.futs.getD f {}).arc, takenNotify := (w.futs.getD f {}).notify }) :=
      congrArg View.ctl hv4'
    have hv : view4 (w4.complete .unit) = { view4 w with
        ctl := w.ctl.modify w.tid
          (fun c => completeF .unit { c with taken := (w.futs.getD f {}).arc, takenNotify := (w.futs.getD f {}).notify }) } := by
      rw [view4_complete, hv4', hctl4, htid4, modify_modify']
    unfold R4
    refine R4_step hR hact _ (fun h => { h with rets := (h.pc, Ret.unit) :: h.rets, pc := h.pc + 1 })
      (view4 w).futs (view4 w).objs hv hdt hdv rfl (Nat.le_succ _) ?_ ?_ id (fun _ _ _ h => h) ?_
    · refine hrel.of rfl rfl rfl rfl rfl rfl rfl (stageOk_zero _) (by intro x _ h1; cases h1) ?_
      show match aheadOf _ 0 with | none => _ | some r => _
      rw [aheadOf_zero]
      show _ = (w.ctlOf w.tid).pc + 1 ∧ _ = ((w.ctlOf w.tid).pc, Ret.unit) :: (w.ctlOf w.tid).results ∧ _ = phaseOf _ 0
      rw [r9'.1, r9'.2.1, phaseOf_zero]
      exact ⟨rfl, rfl, r9'.2.2⟩
    · intro hne
      exact absurd (fin_zero4 hR hact hop) hne
    · obtain ⟨e1, e2, e3, e4⟩ := fattr_stage0 w.prog (completeF .unit
        { w.ctlOf w.tid with taken := (w.futs.getD f {}).arc, takenNotify := (w.futs.getD f {}).notify }) rfl
      have hus : ((data4 s).futs.getD f {}).slot = false := by rw [huslot]; exact hhad
      have hdf' : (data4 s').futs = (data4 s).futs := by
        rw [hdf]
        apply modify_eq_self
        intro a ha
        have : (data4 s).futs.getD f {} = a := getD_of_getElem? ha
        rw [this] at hus
        exact wakeRefF_none hus
      refine RF.ofGroups' hact _ e1 e2 e3 e4 ?_ ?_ ?_ ?_
      · rw [hdf']; exact hR.f.s
      · rw [hdf']; exact hR.f.c.same hpa0 hca0
      · rw [hda]; exact hGA
      · exact hR.f.w.same hwa0

/-- stage 5: the notification lands with the slot's mutex still held, the mutex is released, the operation completes
(the reference has notified and recorded the result at stage 2) -/
theorem sim_wakeQ5 (hwf : WF4 w.prog) (hR : R4 w s) (hact : w.tid < w.ctl.length) {f : Nat}
    (hop : opAt w = some (.wakeQ f)) (hst : (w.ctlOf w.tid).stage = 5)
    (h : w.stepActive = .ok w') : Sim4 w s w' := by
  rw [stepActive_op hop] at h
  have h' : w.wakeStage (w.ctlOf w.tid) f false false = .ok w' := by
    simp only [World.runOp] at h; exact h
  rw [wake_stage5 w _ f false false (Nat.le_of_eq hst.symm)] at h'
  clear h
  obtain ⟨w1, h1, h2⟩ := Refine.bind_ok h'
  obtain ⟨w2, h3, h4⟩ := Refine.bind_ok h2
  clear h' h2
  simp only [pure, Except.pure] at h4
  cases h4
  obtain ⟨hf, hfa⟩ := fut_lt hwf hop rfl
  have hmtx : (w.futs.getD f {}).slotMutex = mbase w.prog + 2 * f := (hR.f.s.mtx f hf).1
  rw [hmtx] at h3
  obtain ⟨sp, nt, ds, hvo, hk1, hv1⟩ := notifyEffect_view h1
  obtain ⟨l2, hvo2, hk2, hv2⟩ := releaseLock_view h3
  rw [hv1] at hvo2
  have hvo2' : ((view4 w).objs.set (w.ctlOf w.tid).takenNotify (.notify sp true ds))[mbase w.prog + 2 * f]? =
      some (.mutex l2) := hvo2
  have hlen : w.ctl.length = w.exec.threads.threads.length := hR.lenCtl
  have htid2 : w2.tid = w.tid := hk2.2.1.trans hk1.2.1
  refine ⟨hk2.1.1.trans hk1.1.1, ⟨s, .nil s, ?_⟩,
    inRange_of (w := w) htid2 (Nat.le_of_eq (hk2.2.2.trans hk1.2.2).symm) (by rw [← hlen]; exact hact)⟩
  have hv : view4 (w2.complete .unit) = { view4 w with
      ctl := w.ctl.modify w.tid (completeF .unit),
      objs := ((view4 w).objs.set (w.ctlOf w.tid).takenNotify (.notify sp true ds)).set
        (mbase w.prog + 2 * f) (.mutex none) } := by
    rw [view4_complete, hv2, hv1, hk2.1.2.1, hk2.2.1, hk1.1.2.1, hk1.2.1]
  have hopc : opOfCtl w.prog (w.ctlOf w.tid) = some (.wakeQ f) := hop
  have hrel := rel4 hR hact
  have hah : aheadOf (opAt w) (w.ctlOf w.tid).stage = some .unit := by rw [hop, hst]; rfl
  have r9 := hrel.2.2.2.2.2.2.2.2
  rw [opOfCtl_active, hah] at r9
  obtain ⟨e1, e2, e3, e4⟩ := fattr_stage0 w.prog (completeF .unit (w.ctlOf w.tid)) rfl
  obtain ⟨hsp, hRF⟩ := hR.f.land hact (completeF .unit)
    (by show pendN w.prog (w.ctlOf w.tid) = _; simp only [pendN, hopc, hst])
    ⟨by show inflS w.prog (w.ctlOf w.tid) = _; simp only [inflS, hopc, hst],
     by show callOf w.prog (w.ctlOf w.tid) = _; simp only [callOf, hopc],
     by show aw25 w.prog (w.ctlOf w.tid) = _; simp only [aw25, hopc, hst]⟩
    (by show fattr w.prog (completeF .unit (w.ctlOf w.tid)) = _
        simp only [fattr, e1, e2, e3, e4]) hvo
  subst hsp
  unfold R4
  refine R4_step hR hact (completeF .unit) id (view4 w).futs _ hv
    (by rw [modify_id' _ _ id (fun _ => rfl)]) hR.verdict rfl (Nat.le_succ _) ?_ ?_ id
    (fun n nt' ds' hn => notify_kept_set _ hvo2' (by intro _ _ e; cases e) n nt' ds'
      (notify_kept_set _ hvo (by intro _ _ e; cases e) n nt' ds' hn))
    (hRF.setSlotMutex hvo2')
  · refine hrel.of rfl rfl rfl rfl rfl rfl rfl (stageOk_zero _) (by intro x _ h1; cases h1) ?_
    show match aheadOf _ 0 with | none => _ | some r => _
    rw [aheadOf_zero]
    show _ = (w.ctlOf w.tid).pc + 1 ∧ _ = ((w.ctlOf w.tid).pc, Ret.unit) :: (w.ctlOf w.tid).results ∧ _ = phaseOf _ 0
    rw [phaseOf_zero]
    exact r9
  · intro hne
    exact absurd (fin_zero4 hR hact hop) hne

end

end Refine4
end LoomVerif

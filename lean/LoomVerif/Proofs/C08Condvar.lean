/-
C08, `rt::Condvar` (`wait`, `notify_one`, `notify_all`): queue discipline, release-park-reacquire.
-/
import LoomVerif.Proofs.C08Park
import LoomVerif.Proofs.SyncRunOp

namespace LoomVerif
namespace C08
open C12 Sy C07

/-! ### `notify_one` -/

/-- no waiter: `notify_one` changes nothing (besides completing) -/
theorem cvOne_empty {w : World} {c : TCtl} {vi : Nat} {s : CondvarSt}
    (h : w.exec.objs[w.cvObj vi]? = some (.condvar s)) (hs : c.stage ≠ 0) (hw : s.waiters = []) :
    w.runOp c (.cvOne vi) = .ok (w.complete .unit) := by
  rw [runOp_cvOne]
  simp [hs, getCv_of h, hw, bind, Except.bind, pure, Except.pure]

/-- the FIRST waiter is removed and woken (`Set::wake`, not `unpark`); the rest of the queue keeps its order -/
theorem cvOne_first {w : World} {c : TCtl} {vi t : Nat} {rest : List Nat} {s : CondvarSt}
    (h : w.exec.objs[w.cvObj vi]? = some (.condvar s)) (hs : c.stage ≠ 0)
    (hw : s.waiters = t :: rest) :
    w.runOp c (.cvOne vi) = .ok
      (((w.setObj (w.cvObj vi) (.condvar { s with waiters := rest })).setThs
        (w.ths.wake t)).complete .unit) := by
  rw [runOp_cvOne]
  simp only [hs, getCv_of h, hw, bind, Except.bind, pure, Except.pure, beq_iff_eq, if_false]
  rfl

/-! ### `notify_all` -/

/-- the queue is drained; the former waiters are woken one after the other in queue order -/
theorem cvAll_eq {w : World} {c : TCtl} {vi : Nat} {s : CondvarSt}
    (h : w.exec.objs[w.cvObj vi]? = some (.condvar s)) (hs : c.stage ≠ 0) :
    w.runOp c (.cvAll vi) = .ok
      (((w.setObj (w.cvObj vi) (.condvar { s with waiters := [] })).setThs
        (s.waiters.foldl (fun ths t => ths.wake t) w.ths)).complete .unit) := by
  rw [runOp_cvAll]
  simp only [hs, getCv_of h, bind, Except.bind, pure, Except.pure, beq_iff_eq, if_false]
  rfl

theorem unpark_length (s : Threads) (id : Nat) : (s.unpark id).threads.length = s.threads.length := by
  unfold Threads.unpark
  split <;> simp [Threads.modifyActive, Threads.modify]

theorem unpark_activeId (s : Threads) (id : Nat) : (s.unpark id).activeId = s.activeId := by
  unfold Threads.unpark
  split <;> rfl

theorem unpark_activeT {s : Threads} {id : Nat} (h : id ≠ s.activeId) :
    (s.unpark id).activeT = s.activeT := by
  unfold Threads.activeT
  rw [unpark_activeId, unpark_other h]
  exact get_modify_ne _ _ _ _ (fun e => h e.symm)

theorem wake_length (s : Threads) (id : Nat) : (s.wake id).threads.length = s.threads.length := by
  unfold Threads.wake
  split <;> simp [Threads.modify]

theorem wake_activeId (s : Threads) (id : Nat) : (s.wake id).activeId = s.activeId := by
  unfold Threads.wake
  split <;> rfl

theorem wake_active (s : Threads) (id : Nat) : (s.wake id).active = s.active := by
  unfold Threads.wake
  split <;> rfl

theorem wake_activeT (s : Threads) (id : Nat) : (s.wake id).activeT = s.activeT := by
  by_cases h : id = s.activeId
  · rw [h, wake_self]
  · unfold Threads.activeT
    rw [wake_activeId, wake_other h]
    exact get_modify_ne _ _ _ _ (fun e => h e.symm)

/-- every former waiter other than the notifier (no duplicates in the queue) has been woken exactly once by the
notifier; all other threads — the notifier itself included, even if it is in the queue — are unchanged -/
theorem foldl_wake (l : List Nat) (s : Threads) (hnd : l.Nodup) :
    (∀ t, t ∈ l → t ≠ s.activeId → t < s.threads.length →
      (l.foldl (fun ths t => ths.wake t) s).get t = (s.get t).wakeFrom s.activeT) ∧
    (∀ j, j ∉ l ∨ j = s.activeId → (l.foldl (fun ths t => ths.wake t) s).get j = s.get j) := by
  induction l generalizing s with
  | nil => exact ⟨fun t ht _ _ => (by cases ht), fun j _ => rfl⟩
  | cons a l ih =>
    rw [List.nodup_cons] at hnd
    obtain ⟨ih1, ih2⟩ := ih (s.wake a) hnd.2
    simp only [List.foldl_cons]
    constructor
    · intro t ht hta hin
      rcases List.mem_cons.1 ht with rfl | ht
      · rw [ih2 t (.inl hnd.1)]
        exact (wake_other_get hta hin).1
      · have hne : t ≠ a := fun e => hnd.1 (e ▸ ht)
        rw [ih1 t ht (by rw [wake_activeId]; exact hta) (by rw [wake_length]; exact hin), wake_activeT]
        by_cases ha : a = s.activeId
        · rw [ha, wake_self]
        · rw [wake_other ha, get_modify_ne _ _ _ _ hne]
    · intro j hj
      rw [ih2 j (by
        rcases hj with hj | hj
        · exact .inl (fun hm => hj (List.mem_cons_of_mem _ hm))
        · exact .inr (by rw [wake_activeId]; exact hj))]
      by_cases ha : a = s.activeId
      · rw [ha, wake_self]
      · rw [wake_other ha]
        apply get_modify_ne
        rcases hj with hj | hj
        · exact fun e => hj (by rw [e]; exact List.mem_cons_self)
        · rw [hj]; exact fun e => ha e.symm

/-! ### `wait` -/

/-- stage 1 of `wait`: the caller is appended at the END of the queue, the mutex is released
(`release_lock`), then the caller blocks itself with `rt::block` (NOT `rt::park`: the unpark token is not
looked at) -/
theorem cvWait_stage1 {w : World} {c : TCtl} {vi mi : Nat} {s : CondvarSt}
    (h : w.exec.objs[w.cvObj vi]? = some (.condvar s)) (hs : c.stage = 1) :
    w.runOp c (.cvWait vi mi) = (do
      let w2 ← (w.setObj (w.cvObj vi)
        (.condvar { s with waiters := s.waiters ++ [w.tid] })).releaseLock (w.mutexObj mi)
      (w2.setStage 2).blockNow) := by
  rw [runOp_cvWait, hs]
  simp only [getCv_of h, bind, Except.bind]

/-- stage 2 of `wait`: `acquire_lock`'s branch point, blocked exactly when the mutex is held -/
theorem cvWait_stage2 {w : World} {c : TCtl} {vi mi : Nat} {m : MutexSt}
    (h : w.exec.objs[w.mutexObj mi]? = some (.mutex m)) (hs : c.stage = 2) :
    w.runOp c (.cvWait vi mi) =
      (w.setStage 3).branch (w.mutexObj mi) .opaque (block := m.lock.isSome) (wait := true) := by
  rw [runOp_cvWait, hs]
  simp only [getMutex_of h, bind, Except.bind]

/-- last stage of `wait`: the operation completes only through a successful `post_acquire` -/
theorem cvWait_stage3 {w : World} {c : TCtl} {vi mi : Nat} {m : MutexSt}
    (h : w.exec.objs[w.mutexObj mi]? = some (.mutex m)) (hs : 3 ≤ c.stage) :
    (m.lock.isSome = true → w.runOp c (.cvWait vi mi) = .error .expectedLock) ∧
    (m.lock = none → ∃ w1, w.postAcquire (w.mutexObj mi) = .ok (w1, true) ∧
      w.runOp c (.cvWait vi mi) = .ok (w1.complete .unit) ∧
      (w1.complete .unit).exec.objs[w.mutexObj mi]? = some (.mutex { m with lock := some w.tid })) := by
  have hrun : w.runOp c (.cvWait vi mi) = (do
      let (w', okk) ← w.postAcquire (w.mutexObj mi)
      if !okk then throw .expectedLock
      pure (w'.complete .unit)) := by
    rw [runOp_cvWait]
    split
    · next h0 => omega
    · next h0 => omega
    · next h0 => omega
    · rfl
  constructor
  · intro hl
    rw [hrun, postAcquire_held h hl]; rfl
  · intro hl
    refine ⟨_, postAcquire_free h hl, ?_, ?_⟩
    · rw [hrun, postAcquire_free h hl]; rfl
    · exact getElem?_set_self' _ _ _ _ h

/-! ### `wait` completes only through the re-acquisition -/

theorem pc_modCtl (w : World) (t t' : Nat) (f : TCtl → TCtl) (hf : ∀ c, (f c).pc = c.pc) :
    ((w.modCtl t f).ctlOf t').pc = (w.ctlOf t').pc := by
  simp only [World.modCtl, World.ctlOf, List.getD, List.getElem?_modify]
  cases h : w.ctl[t']? with
  | none => simp
  | some c => by_cases e : t = t' <;> simp [e, hf]

theorem pc_setStage (w : World) (n t' : Nat) : ((w.setStage n).ctlOf t').pc = (w.ctlOf t').pc :=
  pc_modCtl w _ _ _ (fun _ => rfl)

theorem releaseLock_ctl {w w' : World} {o : Nat} (h : w.releaseLock o = .ok w') : w'.ctl = w.ctl := by
  unfold World.releaseLock at h
  simp only [bind, Except.bind, pure, Except.pure] at h
  split at h
  · cases h
  · split at h <;> (cases h; rfl)

/-- the program counter of the caller moves (the `wait` completes) only in the last stage, i.e.
only through `post_acquire` returning `true`: when `wait` returns the caller owns the mutex -/
theorem cvWait_completes_only_locked {w w' : World} {c : TCtl} {vi mi : Nat} {m : MutexSt}
    (h : w.exec.objs[w.mutexObj mi]? = some (.mutex m))
    (hr : w.runOp c (.cvWait vi mi) = .ok w')
    (hpc : (w'.ctlOf w.tid).pc ≠ (w.ctlOf w.tid).pc) :
    3 ≤ c.stage ∧ m.lock = none ∧
      w'.exec.objs[w.mutexObj mi]? = some (.mutex { m with lock := some w.tid }) := by
  rcases Nat.lt_or_ge c.stage 3 with hlt | hge
  · exfalso
    apply hpc
    rw [runOp_cvWait] at hr
    have : c.stage = 0 ∨ c.stage = 1 ∨ c.stage = 2 := by omega
    rcases this with h0 | h0 | h0 <;> simp only [h0] at hr
    · obtain ⟨e, rfl⟩ := branch_rest hr
      exact pc_setStage w 1 _
    · simp only [bind, Except.bind] at hr
      split at hr
      · cases hr
      · next s hs =>
        split at hr
        · cases hr
        · next w2 h2 =>
          obtain ⟨e, rfl⟩ := blockNow_rest hr
          have hc := releaseLock_ctl h2
          show ((w2.setStage 2).ctlOf w.tid).pc = _
          rw [pc_setStage]
          simp only [World.ctlOf, hc]
          rfl
    · simp only [bind, Except.bind] at hr
      split at hr
      · cases hr
      · obtain ⟨e, rfl⟩ := branch_rest hr
        exact pc_setStage w 3 _
  · refine ⟨hge, ?_⟩
    cases hl : m.lock with
    | some t =>
      rw [(cvWait_stage3 h hge).1 (by simp [hl])] at hr; cases hr
    | none =>
      obtain ⟨w1, _, hrun, hobj⟩ := (cvWait_stage3 (vi := vi) h hge).2 hl
      rw [hrun] at hr; cases hr
      exact ⟨rfl, hobj⟩

end C08
end LoomVerif

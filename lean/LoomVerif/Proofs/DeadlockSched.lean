/-
Deadlock soundness, part 2: `Exec.schedule` seen from the thread states.

* a successful `schedule` changes the state of no thread (no thread of the fragment is ever in `yield` state), and keeps
  `ReplayOK`;
* `schedule` fails with `Panic.deadlock` ONLY at its own deadlock test — the DPOR loop, `branch_thread` and the
  access bookkeeping never produce that panic — and, when what is left of the path to replay names a thread at every
  scheduling point (`ReplayOK`), only when no thread is runnable or yielded and some thread is not terminated;
* the same for the two scheduling points of the fragment, `World.branch` and `World.threadDone`.
-/
import LoomVerif.Proofs.DeadlockDefs
import LoomVerif.Proofs.C01Backtrack

namespace LoomVerif
namespace Deadlock
open Refine Sy

/-! ### no part of `schedule` but its deadlock test panics with "deadlock" -/

theorem sched_backtrack_notDL {s : Sched} {tid : Nat} {b : Option Nat} {e : Panic}
    (h : s.backtrack tid b = .error e) : e ≠ .deadlock := by
  rcases (Sched.backtrack_error s tid b e).1 h with ⟨_, rfl⟩ | ⟨_, _, _, _, rfl⟩ <;> simp

theorem bind_pure_error {α β} {m : Except Panic α} {f : α → β} {e : Panic}
    (h : (m >>= fun a => (pure (f a) : Except Panic β)) = .error e) : m = .error e := by
  cases m with
  | error e' => simp only [bind, Except.bind] at h; cases h; rfl
  | ok a => cases h

theorem backtrackConservative_notDL {p : Path} {tid fuel curr : Nat} {e : Panic}
    (h : p.backtrackConservative tid fuel curr = .error e) : e ≠ .deadlock := by
  induction fuel generalizing curr with
  | zero => unfold Path.backtrackConservative at h; cases h
  | succ fuel ih =>
    unfold Path.backtrackConservative at h
    split at h
    · cases h; simp
    · split at h
      · split at h
        · cases h; simp
        · split at h
          · exact sched_backtrack_notDL (bind_pure_error h)
          · exact ih h
      · split at h
        · exact sched_backtrack_notDL (bind_pure_error h)
        · cases h

theorem path_backtrack_notDL {p : Path} {point tid : Nat} {e : Panic}
    (h : p.backtrack point tid = .error e) : e ≠ .deadlock := by
  unfold Path.backtrack at h
  split at h
  · cases h; simp
  · split at h
    · cases h
    · rename_i i s hf
      cases hbt : s.backtrack tid p.bound with
      | error e' =>
        rw [hbt] at h
        cases h
        exact sched_backtrack_notDL hbt
      | ok s' =>
        rw [hbt] at h
        simp only [bind, Except.bind] at h
        split at h
        · cases h
        · split at h
          · exact backtrackConservative_notDL h
          · cases h

theorem dporStep_notDL {e : Exec} {p : Path} {x : Thread × Nat} {err : Panic}
    (h : Exec.dporStep e p x = .error err) : err ≠ .deadlock := by
  unfold Exec.dporStep at h
  split at h
  · rename_i err' hr
    cases h
    unfold Exec.raceOf at hr
    split at hr
    · cases hr
    · split at hr
      · rename_i hl; cases hr; rw [Exec.lastDependentAccess_error hl]; simp
      · cases hr
      · split at hr <;> cases hr
  · cases h
  · exact path_backtrack_notDL h

theorem foldlM_dporStep_notDL {e : Exec} (l : List (Thread × Nat)) {p : Path} {err : Panic}
    (h : l.foldlM (Exec.dporStep e) p = .error err) : err ≠ .deadlock := by
  induction l generalizing p with
  | nil => cases h
  | cons x xs ih =>
    simp only [List.foldlM_cons, bind, Except.bind] at h
    split at h
    · rename_i err' hq; cases h; exact dporStep_notDL hq
    · exact ih h

theorem dporMarks_notDL {e : Exec} {err : Panic} (h : e.dporMarks = .error err) : err ≠ .deadlock := by
  rw [Exec.dporMarks_eq] at h
  exact foldlM_dporStep_notDL _ h

theorem readSched_notDL {p : Path} {err : Panic} (h : p.readSched = .error err) : err ≠ .deadlock := by
  unfold Path.readSched at h
  split at h
  · cases h
  · cases h; simp

theorem branchThread_notDL {p : Path} {seed : List ThSt} {pk : Bool} {err : Panic}
    (h : p.branchThread seed pk = .error err) : err ≠ .deadlock := by
  rw [Path.branchThread_eq] at h
  split at h
  · split at h
    · split at h
      · cases h; simp
      · split at h
        · cases h; simp
        · exact readSched_notDL h
    · cases h; simp
  · exact readSched_notDL h

/-! ### `ReplayOK` along `schedule` -/

theorem ReplayOK.frame {p q : Path} (hf : Path.Frame p q) (hl : q.branches.length = p.branches.length)
    (hpos : q.pos = p.pos) (h : ReplayOK p) : ReplayOK q := by
  intro i hi hpi
  have hi' : i < p.branches.length := by omega
  have hs := hf.same i hi'
  have := h i hi' (by omega)
  rw [List.getElem?_eq_getElem hi'] at this
  rw [List.getElem?_eq_getElem hi]
  simp only [Option.all_some] at this ⊢
  unfold entryOK at this ⊢
  rw [hs.kind, hs.dec]; exact this

theorem ReplayOK.advance {p : Path} (h : ReplayOK p) : ReplayOK { p with pos := p.pos + 1 } := by
  intro i hi hpi
  exact h i hi (by simp only at hpi; omega)

theorem branchThread_replayOK {p p' : Path} {seed : List ThSt} {pk : Bool} {r : Option Nat}
    (h : p.branchThread seed pk = .ok (p', r)) (hp : ReplayOK p) : ReplayOK p' := by
  rw [Path.branchThread_eq] at h
  split at h
  · rename_i ht
    have hpos : p.pos = p.branches.length := by simpa [Path.isTraversed] using ht
    split at h
    · split at h
      · cases h
      · split at h
        · cases h
        · rw [Path.readSched_ok h]
          intro i hi hpi
          simp only [List.length_append, List.length_singleton] at hi hpi
          omega
    · cases h
  · rw [Path.readSched_ok h]
    exact hp.advance

/-- `branch_thread` answers "no thread" only for an entry it has just pushed, when what is left to replay names a
thread at every scheduling point -/
theorem branchThread_none {p p' : Path} {seed : List ThSt} {pk : Bool}
    (h : p.branchThread seed pk = .ok (p', none)) (hp : ReplayOK p) :
    p.isTraversed = true ∧ (p.newSched seed).activeIdx = none := by
  rw [Path.branchThread_eq] at h
  split at h
  · rename_i ht
    refine ⟨ht, ?_⟩
    have hpos : p.pos = p.branches.length := by simpa [Path.isTraversed] using ht
    split at h
    · split at h
      · cases h
      · split at h
        · cases h
        · unfold Path.readSched at h
          simp only [hpos, List.getElem?_append_right (Nat.le_refl _), Nat.sub_self,
            List.getElem?_cons_zero, Except.ok.injEq, Prod.mk.injEq] at h
          exact h.2
    · cases h
  · exfalso
    unfold Path.readSched at h
    split at h
    · rename_i s hs
      simp only [Except.ok.injEq, Prod.mk.injEq] at h
      have hnone := h.2
      have hlt : p.pos < p.branches.length := (List.getElem?_eq_some_iff.1 hs).1
      have := hp p.pos hlt (Nat.le_refl _)
      rw [hs] at this
      simp [entryOK, Entry.kind, Entry.dec, hnone] at this
    · cases h

theorem dporMarks_replayOK {e : Exec} {p1 : Path} (hd : e.dporMarks = .ok p1) (hp : ReplayOK e.path) :
    ReplayOK p1 := by
  obtain ⟨hf, hl, he, _⟩ := Exec.dporMarks_frame hd
  exact hp.frame hf hl (by rw [he])

theorem schedule_replayOK {e e' : Exec} {pk b : Bool} (h : e.schedule pk = .ok (e', b))
    (hp : ReplayOK e.path) : ReplayOK e'.path := by
  obtain ⟨_, p1, next, hd, hb, _, _⟩ := Exec.schedule_ok h
  exact branchThread_replayOK hb (dporMarks_replayOK hd hp)

/-! ### the deadlock test -/

/-- **`schedule` panics with "deadlock" only when no thread is runnable or yielded and some thread is not
terminated** (the active thread is in the thread table; what is left to replay names a thread at every scheduling
point) -/
theorem schedule_deadlock {e : Exec} {pk : Bool} (h : e.schedule pk = .error .deadlock)
    (hp : ReplayOK e.path) (hc : e.threads.activeId < e.threads.threads.length) :
    (∀ th ∈ e.threads.threads, th.isRunnable = false ∧ th.isYield = false) ∧
    e.threads.threads.all Thread.isTerminated = false := by
  rw [Exec.schedule_eq] at h
  split at h
  · cases h
  · split at h
    · rename_i err hd
      cases h
      exact absurd rfl (dporMarks_notDL hd)
    · rename_i p1 hd
      split at h
      · rename_i err hb
        cases h
        exact absurd rfl (branchThread_notDL hb)
      · rename_i p2 hb
        split at h
        · cases h
        · rename_i hall
          obtain ⟨_, hidx⟩ := branchThread_none hb (dporMarks_replayOK hd hp)
          have hch : Exec.choice e.threads = none := by
            rw [← (Exec.newThreads_seed e hc).2, ← Path.newSched_threads p1]
            exact hidx
          refine ⟨(Exec.choice_eq_none_iff hc).1 hch, ?_⟩
          cases hh : e.threads.threads.all Thread.isTerminated with
          | true => exact absurd hh hall
          | false => rfl
      · rename_i p2 nid hb
        split at h
        · cases h
        · rcases Exec.finish_error h with h' | h' <;> cases h'

/-! ### the states of the threads across `schedule` -/

theorem reactivate_state (l : List Thread) (nid i : Nat) (h : (l.getD i {}).state ≠ .yield) :
    ((Exec.reactivate l nid).getD i {}).state = (l.getD i {}).state := by
  unfold Exec.reactivate
  simp only [List.getD, List.getElem?_mapIdx] at h ⊢
  cases hh : l[i]? with
  | none => rfl
  | some th =>
    simp only [hh, Option.map_some, Option.getD_some] at h ⊢
    split
    · next hy =>
      simp only [Bool.and_eq_true, Thread.isYield, beq_iff_eq] at hy
      exact absurd hy.1 h
    · rfl

theorem getD_modify_state (l : List Thread) (nid i : Nat) (g : Thread → Thread)
    (hg : ∀ t, (g t).state = t.state) :
    ((l.modify nid g).getD i {}).state = (l.getD i {}).state := by
  simp only [List.getD, List.getElem?_modify]
  cases h : l[i]? with
  | none => rfl
  | some th =>
    by_cases e : nid = i
    · simp [e, hg]
    · simp [e]

/-- a successful `schedule` changes the state of no thread that is not in `yield` state -/
theorem schedule_state {e e' : Exec} {pk b : Bool} (h : e.schedule pk = .ok (e', b)) (i : Nat)
    (hny : (e.threads.get i).state ≠ .yield) : (e'.threads.get i).state = (e.threads.get i).state := by
  obtain ⟨_, p1, next, _, _, _, hm⟩ := Exec.schedule_ok h
  cases next with
  | none =>
    obtain ⟨_, _, he⟩ := hm
    rw [he]; rfl
  | some nid =>
    obtain ⟨ths, objs, hf, he, _⟩ := Exec.finish_ok hm
    obtain ⟨_, _, _, hcase⟩ := Exec.finishOp_ok hf
    rw [he]
    show ((Exec.reactivate ths.threads nid).getD i {}).state = (e.threads.threads.getD i {}).state
    rcases hcase with ⟨ht, _, _⟩ | ⟨op, d, _, ht, _⟩
    · rw [ht]
      exact reactivate_state _ _ _ hny
    · rw [ht]
      have hm' : ((e.threads.threads.modify nid fun t => { t with dporVV := d }).getD i {}).state =
          (e.threads.threads.getD i {}).state := getD_modify_state _ _ _ _ (fun _ => rfl)
      rw [reactivate_state _ _ _ (by rw [hm']; exact hny), hm']

/-! ### the scheduling points of the twin -/

/-- the common shape of `World.branch` and `World.threadDone`: the active thread's entry is rewritten by `f`, then
`schedule` -/
def schedOn (w : World) (f : Thread → Thread) : Except Panic (Exec × Bool) :=
  ({ w.exec with threads := w.ths.modifyActive f }).schedule w.panicking

theorem branch_schedOn (w : World) (o : Nat) (a : Action) (blk wt : Bool) :
    w.branch o a blk wt =
      (schedOn w fun t =>
        let t := { t with operation := some ⟨o, a, wt⟩ }
        if blk then t.setBlocked else t) >>= fun x => pure { w with exec := x.1 } := rfl

theorem threadDone_schedOn (w : World) :
    w.threadDone =
      (schedOn w fun th => { th.setTerminated with operation := none }) >>= fun x =>
        pure { w with exec := x.1 } := rfl

/-- thread `i` as `schedule` sees it -/
def entryOn (w : World) (f : Thread → Thread) (i : Nat) : Thread :=
  if i = w.tid then f (w.ths.get i) else w.ths.get i

theorem get_modifyActive (w : World) (f : Thread → Thread) (i : Nat)
    (hin : w.tid < w.exec.threads.threads.length) :
    (w.ths.modifyActive f).get i = entryOn w f i := by
  unfold Threads.modifyActive entryOn
  rw [WB.get_modify]
  by_cases hi : i = w.tid
  · subst hi
    rw [if_pos ⟨rfl, hin⟩, if_pos rfl]
  · rw [if_neg (fun hh => hi hh.1.symm), if_neg hi]

theorem schedOn_ok {w : World} {f : Thread → Thread} {e : Exec} {b : Bool} (h : schedOn w f = .ok (e, b))
    (hin : w.tid < w.exec.threads.threads.length) :
    (∀ i, (entryOn w f i).state ≠ .yield → (e.threads.get i).state = (entryOn w f i).state) ∧
    (∀ i, (e.threads.get i).operation = (entryOn w f i).operation) ∧
    (ReplayOK w.exec.path → ReplayOK e.path) := by
  refine ⟨fun i hny => ?_, fun i => ?_, fun hp => schedule_replayOK h hp⟩
  · have := schedule_state h i (by
      show ((w.ths.modifyActive f).get i).state ≠ .yield
      rw [get_modifyActive w f i hin]; exact hny)
    rw [this]
    show ((w.ths.modifyActive f).get i).state = _
    rw [get_modifyActive w f i hin]
  · rw [C07.schedule_operation h i]
    show ((w.ths.modifyActive f).get i).operation = _
    rw [get_modifyActive w f i hin]

/-- **a scheduling point of the twin panics with "deadlock" only when, the active thread's entry rewritten, no
thread is runnable and some thread is not terminated** -/
theorem schedOn_deadlock {w : World} {f : Thread → Thread} (h : schedOn w f = .error .deadlock)
    (hp : ReplayOK w.exec.path) (hin : w.tid < w.exec.threads.threads.length) :
    (∀ i, i < w.exec.threads.threads.length → (entryOn w f i).state ≠ .runnable) ∧
    ∃ i, i < w.exec.threads.threads.length ∧ (entryOn w f i).state ≠ .terminated := by
  have hlen : (w.ths.modifyActive f).threads.length = w.exec.threads.threads.length := by
    simp [Threads.modifyActive, Threads.modify, World.ths]
  obtain ⟨h1, h2⟩ := schedule_deadlock h hp (by
    show (w.ths.modifyActive f).activeId < (w.ths.modifyActive f).threads.length
    rw [hlen]; exact hin)
  have hget : ∀ i, i < w.exec.threads.threads.length →
      (w.ths.modifyActive f).threads[i]? = some (entryOn w f i) := by
    intro i hi
    rw [← get_modifyActive w f i hin]
    unfold Threads.get
    rw [List.getD_eq_getElem?_getD, List.getElem?_eq_getElem (by rw [hlen]; exact hi)]
    rfl
  refine ⟨fun i hi hr => ?_, ?_⟩
  · have := (h1 _ (List.mem_of_getElem? (hget i hi))).1
    simp [Thread.isRunnable, hr] at this
  · have h2' : ¬ ∀ th ∈ (w.ths.modifyActive f).threads, Thread.isTerminated th = true := by
      rw [← List.all_eq_true]
      show ¬ (w.ths.modifyActive f).threads.all Thread.isTerminated = true
      rw [show (w.ths.modifyActive f).threads.all Thread.isTerminated = false from h2]
      simp
    apply Classical.byContradiction
    intro hn
    apply h2'
    intro th hth
    obtain ⟨i, hi, rfl⟩ := List.getElem_of_mem hth
    rw [hlen] at hi
    have hg := hget i hi
    rw [List.getElem?_eq_getElem (by rw [hlen]; exact hi)] at hg
    rw [Option.some.inj hg]
    apply Classical.byContradiction
    intro hnt
    apply hn
    refine ⟨i, hi, fun ht => hnt ?_⟩
    simp [Thread.isTerminated, ht]

theorem bind_pure_ok {α β} {m : Except Panic α} {f : α → β} {y : β}
    (h : (m >>= fun a => (pure (f a) : Except Panic β)) = .ok y) : ∃ a, m = .ok a ∧ y = f a := by
  cases m with
  | error e' => cases h
  | ok a => cases h; exact ⟨a, rfl, rfl⟩

end Deadlock
end LoomVerif

/-
Refinement, WAIT fragment, part 2: what the abstraction relation sees of an object (`OV2`, `view2`), the
scheduler only touches access records (`Touched2`), and the control part `RX2` of the relation (twin thread ↔
DSL body ↔ reference thread) with its transport lemmas.
-/
import LoomVerif.Proofs.Refine2Data
import LoomVerif.Proofs.RefineTwin

namespace LoomVerif
namespace Refine2
open Refine Sy

/-! ### what the relation sees of an object -/

inductive OV2
  | cell (v : Int)
  | mutex (l : Option Nat)
  | notify (spurious notified didSpur : Bool)
  | chan (cnt : Nat) (queue : List Int)
  | condvar (waiters : List Nat)
  | other
deriving DecidableEq, Repr

def view2 : Obj → OV2
  | .cell s => .cell s.value
  | .mutex s => .mutex s.lock
  | .notify s => .notify s.spurious s.notified s.didSpur
  | .chan s => .chan s.msgCnt s.queue
  | .condvar s => .condvar s.waiters
  | _ => .other

def objView2 (os : List Obj) (n : Nat) : Option OV2 := os[n]?.map view2

/-- every object of `os` is still in `os'` and looks the same -/
def ViewLe2 (os os' : List Obj) : Prop := ∀ n v, objView2 os n = some v → objView2 os' n = some v

theorem ViewLe2.refl (os : List Obj) : ViewLe2 os os := fun _ _ h => h

theorem ViewLe2.trans {a b c : List Obj} (h1 : ViewLe2 a b) (h2 : ViewLe2 b c) : ViewLe2 a c :=
  fun n v h => h2 n v (h1 n v h)

/-- `x'` is `x` up to access tracking -/
inductive Touched2 : Obj → Obj → Prop
  | refl (x : Obj) : Touched2 x x
  | mutex (s : MutexSt) (a : Option Access) : Touched2 (.mutex s) (.mutex { s with lastAccess := a })
  | rwlock (s : RwSt) (a : Option Access) : Touched2 (.rwlock s) (.rwlock { s with lastAccess := a })
  | condvar (s : CondvarSt) (a : Option Access) : Touched2 (.condvar s) (.condvar { s with lastAccess := a })
  | notify (s : NotifySt) (a : Option Access) : Touched2 (.notify s) (.notify { s with lastAccess := a })
  | arc (s s' : ArcSt) : Touched2 (.arc s) (.arc s')
  | atomic (s s' : Atomic) : Touched2 (.atomic s) (.atomic s')
  | chan (s : ChanSt) (a b : Option Access) : Touched2 (.chan s) (.chan { s with lastSend := a, lastRecv := b })

theorem view2_touched {x x' : Obj} (h : Touched2 x x') : view2 x' = view2 x := by
  cases h <;> rfl

def ObjsTouched2 (os os' : List Obj) : Prop :=
  ∀ (n : Nat) (x : Obj), os[n]? = some x → ∃ x', os'[n]? = some x' ∧ Touched2 x x'

theorem ObjsTouched2.refl (os : List Obj) : ObjsTouched2 os os := fun _ x h => ⟨x, h, .refl x⟩

theorem objsTouched2_set {os : List Obj} {o : Nat} {x x' : Obj} (h : os[o]? = some x)
    (ht : Touched2 x x') : ObjsTouched2 os (os.set o x') := by
  intro n y hy
  by_cases hn : n = o
  · subst hn
    rw [h] at hy; cases hy
    exact ⟨x', getElem?_set_self' _ _ _ _ h, ht⟩
  · exact ⟨y, by rw [getElem?_set_ne' _ _ _ _ hn]; exact hy, .refl y⟩

theorem chan_setLastAccess_touched (s : ChanSt) (act : Action) (pid : Nat) (v : VV) :
    Touched2 (.chan s) (.chan (s.setLastAccess act pid v)) := by
  unfold ChanSt.setLastAccess
  split
  · exact Touched2.chan s (some ⟨pid, v⟩) s.lastRecv
  · exact Touched2.chan s s.lastSend (some ⟨pid, v⟩)
  · exact .refl _

theorem setLastAccess_touched2 {os os' : Objs} {op : Operation} {pid : Nat} {d : VV}
    (h : os.setLastAccess op pid d = .ok os') : ObjsTouched2 os os' := by
  unfold Objs.setLastAccess at h
  split at h
  all_goals first
    | (cases h; done)
    | (cases h; exact objsTouched2_set ‹_› (chan_setLastAccess_touched _ _ _ _))
    | (cases h; exact objsTouched2_set ‹_› (by constructor))

theorem schedule_objs2 {e e' : Exec} {b : Bool} {p : Bool} (h : e.schedule p = .ok (e', b)) :
    ObjsTouched2 e.objs e'.objs := by
  unfold Exec.schedule at h
  simp only [bind, Except.bind, pure, Except.pure] at h
  repeat' split at h
  all_goals first
    | (cases h; done)
    | (cases h; exact ObjsTouched2.refl _)
    | (cases h; exact setLastAccess_touched2 ‹_›)

theorem ViewLe2.of_touched {os os' : List Obj} (h : ObjsTouched2 os os') : ViewLe2 os os' := by
  intro n v hv
  unfold objView2 at hv ⊢
  cases hx : os[n]? with
  | none => rw [hx] at hv; cases hv
  | some x =>
    rw [hx] at hv
    obtain ⟨x', hx', ht⟩ := h n x hx
    rw [hx']
    simp only [Option.map_some] at hv ⊢
    rw [view2_touched ht]; exact hv

theorem ViewLe2.append (os x : List Obj) : ViewLe2 os (os ++ x) := by
  intro n v hv
  unfold objView2 at hv ⊢
  have hn : n < os.length := by
    apply Classical.byContradiction
    intro hn
    rw [List.getElem?_eq_none (by omega)] at hv
    cases hv
  rw [List.getElem?_append_left hn]; exact hv

theorem objView2_lt {os : List Obj} {n : Nat} {v : OV2} (h : objView2 os n = some v) : n < os.length := by
  apply Classical.byContradiction
  intro hn
  unfold objView2 at h
  rw [List.getElem?_eq_none (by omega)] at h
  cases h

theorem objView2_set_self {os : List Obj} {o : Nat} (x : Obj) (h : o < os.length) :
    objView2 (os.set o x) o = some (view2 x) := by
  simp [objView2, h]

theorem objView2_set_ne (os : List Obj) {o n : Nat} (x : Obj) (h : n ≠ o) :
    objView2 (os.set o x) n = objView2 os n := by
  have : ¬ o = n := fun e => h e.symm
  simp [objView2, List.getElem?_set, this]

theorem objView2_of {os : List Obj} {n : Nat} {x : Obj} (h : os[n]? = some x) :
    objView2 os n = some (view2 x) := by simp [objView2, h]

theorem objView2_cell {os : List Obj} {n : Nat} {v : Int} (h : objView2 os n = some (.cell v)) :
    ∃ cs, os[n]? = some (.cell cs) ∧ cs.value = v := by
  unfold objView2 at h
  cases hx : os[n]? with
  | none => rw [hx] at h; cases h
  | some x =>
    rw [hx] at h
    cases x <;> simp [view2] at h
    exact ⟨_, rfl, h⟩

theorem objView2_mutex {os : List Obj} {n : Nat} {l : Option Nat} (h : objView2 os n = some (.mutex l)) :
    ∃ ms, os[n]? = some (.mutex ms) ∧ ms.lock = l := by
  unfold objView2 at h
  cases hx : os[n]? with
  | none => rw [hx] at h; cases h
  | some x =>
    rw [hx] at h
    cases x <;> simp [view2] at h
    exact ⟨_, rfl, h⟩

theorem objView2_notify {os : List Obj} {n : Nat} {a b c : Bool}
    (h : objView2 os n = some (.notify a b c)) :
    ∃ ns, os[n]? = some (.notify ns) ∧ ns.spurious = a ∧ ns.notified = b ∧ ns.didSpur = c := by
  unfold objView2 at h
  cases hx : os[n]? with
  | none => rw [hx] at h; cases h
  | some x =>
    rw [hx] at h
    cases x <;> simp [view2] at h
    exact ⟨_, rfl, h.1, h.2.1, h.2.2⟩

theorem objView2_chan {os : List Obj} {n cnt : Nat} {q : List Int} (h : objView2 os n = some (.chan cnt q)) :
    ∃ cs, os[n]? = some (.chan cs) ∧ cs.msgCnt = cnt ∧ cs.queue = q := by
  unfold objView2 at h
  cases hx : os[n]? with
  | none => rw [hx] at h; cases h
  | some x =>
    rw [hx] at h
    cases x <;> simp [view2] at h
    exact ⟨_, rfl, h.1, h.2⟩

theorem objView2_condvar {os : List Obj} {n : Nat} {ws : List Nat} (h : objView2 os n = some (.condvar ws)) :
    ∃ cs, os[n]? = some (.condvar cs) ∧ cs.waiters = ws := by
  unfold objView2 at h
  cases hx : os[n]? with
  | none => rw [hx] at h; cases h
  | some x =>
    rw [hx] at h
    cases x <;> simp [view2] at h
    exact ⟨_, rfl, h⟩

/-- replacing object `o` leaves every other view; at `o` itself the view is the new one -/
theorem objView2_set (os : List Obj) (o n : Nat) (x : Obj) (ho : o < os.length) :
    objView2 (os.set o x) n = if n = o then some (view2 x) else objView2 os n := by
  by_cases e : n = o
  · subst e; rw [if_pos rfl]; exact objView2_set_self _ ho
  · rw [if_neg e]; exact objView2_set_ne _ _ e

/-! ### the control part of the relation -/

/-- the operation a control record is at -/
def opOfCtl (p : Prog) (c : TCtl) : Option Op := (p.threads.getD c.body [])[c.pc]?

/-- the last stage of an operation -/
def maxStage : Option Op → Nat
  | some (.nWait _) => 2
  | some (.cvWait ..) => 3
  | some (.ifEq ..) => 0
  | _ => 1

/-- twin control record `c` of a thread ↔ data `h` of the body it runs: started; same pc and recorded results;
finished ↔ the epilogue has passed its notification (`fin ≥ 10`).  A thread that is mid-operation
(`stage ≠ 0`) has not yet taken its reference step (the first half of `cvWait` excepted: see `RCv`) -/
def ThRel2 (p : Prog) (c : TCtl) (h : DTh2) : Prop :=
  h.started = true ∧ h.pc = c.pc ∧ h.rets = c.results ∧ h.finished = decide (10 ≤ c.fin) ∧
    c.stage ≤ maxStage (opOfCtl p c) ∧ c.locals = [] ∧ c.dtorQueue = []

structure RX2 (p : Prog) (ctl : List TCtl) (ths : List DTh2) : Prop where
  len : ths.length = p.threads.length
  main : 0 < ctl.length ∧ (ctl.getD 0 {}).body = 0
  thr : ∀ i, i < ctl.length →
    (ctl.getD i {}).body < p.threads.length ∧ ThRel2 p (ctl.getD i {}) (ths.getD (ctl.getD i {}).body {})
  epi : ∀ i, i < ctl.length → (ctl.getD i {}).fin ≠ 0 → opOfCtl p (ctl.getD i {}) = none
  inj : ∀ i j, i < ctl.length → j < ctl.length → (ctl.getD i {}).body = (ctl.getD j {}).body → i = j
  idle : ∀ b, b < p.threads.length → (∀ i, i < ctl.length → (ctl.getD i {}).body ≠ b) → ths.getD b {} = {}
  past : ∀ i, 0 < i → i < ctl.length → ∃ j k, j < ctl.length ∧ k < (ctl.getD j {}).pc ∧
    (p.threads.getD (ctl.getD j {}).body [])[k]? = some (.spawn (ctl.getD i {}).body)

theorem RX2.modify {p : Prog} {ctl : List TCtl} {ths : List DTh2} (h : RX2 p ctl ths) {t : Nat}
    (ht : t < ctl.length) (f : TCtl → TCtl) (g : DTh2 → DTh2)
    (hbody : (f (ctl.getD t {})).body = (ctl.getD t {}).body)
    (hpc : (ctl.getD t {}).pc ≤ (f (ctl.getD t {})).pc)
    (hrel : ThRel2 p (f (ctl.getD t {})) (g (ths.getD (ctl.getD t {}).body {})))
    (hepi : (f (ctl.getD t {})).fin ≠ 0 → opOfCtl p (f (ctl.getD t {})) = none) :
    RX2 p (ctl.modify t f) (ths.modify (ctl.getD t {}).body g) := by
  have hlen : (ctl.modify t f).length = ctl.length := by simp
  have hbl : (ctl.getD t {}).body < ths.length := by rw [h.len]; exact (h.thr t ht).1
  have body_eq : ∀ i, ((ctl.modify t f).getD i {}).body = (ctl.getD i {}).body := by
    intro i
    by_cases hi : i = t
    · subst hi; rw [getD_modify_self _ _ _ _ ht]; exact hbody
    · rw [getD_modify_ne _ _ _ _ _ hi]
  have pc_le : ∀ i, (ctl.getD i {}).pc ≤ ((ctl.modify t f).getD i {}).pc := by
    intro i
    by_cases hi : i = t
    · subst hi; rw [getD_modify_self _ _ _ _ ht]; exact hpc
    · rw [getD_modify_ne _ _ _ _ _ hi]; exact Nat.le_refl _
  refine ⟨by simpa using h.len, ⟨by rw [hlen]; exact h.main.1, by rw [body_eq]; exact h.main.2⟩, ?_, ?_, ?_, ?_, ?_⟩
  · intro i hi
    rw [hlen] at hi
    rw [body_eq]
    refine ⟨(h.thr i hi).1, ?_⟩
    by_cases hit : i = t
    · subst hit
      rw [getD_modify_self _ _ _ _ ht, getD_modify_self _ _ _ _ hbl]
      exact hrel
    · have hne : (ctl.getD i {}).body ≠ (ctl.getD t {}).body := fun e => hit (h.inj i t hi ht e)
      rw [getD_modify_ne _ _ _ _ _ hit, getD_modify_ne _ _ _ _ _ hne]
      exact (h.thr i hi).2
  · intro i hi
    rw [hlen] at hi
    by_cases hit : i = t
    · subst hit
      rw [getD_modify_self _ _ _ _ ht]
      exact hepi
    · rw [getD_modify_ne _ _ _ _ _ hit]
      exact h.epi i hi
  · intro i j hi hj
    rw [hlen] at hi hj
    rw [body_eq, body_eq]
    exact h.inj i j hi hj
  · intro b hb hidle
    have hidle' : ∀ i, i < ctl.length → (ctl.getD i {}).body ≠ b := by
      intro i hi
      have := hidle i (by rw [hlen]; exact hi)
      rw [body_eq] at this; exact this
    have hne : b ≠ (ctl.getD t {}).body := fun e => hidle' t ht e.symm
    rw [getD_modify_ne _ _ _ _ _ hne]
    exact h.idle b hb hidle'
  · intro i hi0 hi
    rw [hlen] at hi
    obtain ⟨j, k, hj, hk, hop⟩ := h.past i hi0 hi
    refine ⟨j, k, by rw [hlen]; exact hj, Nat.lt_of_lt_of_le hk (pc_le j), ?_⟩
    rw [body_eq, body_eq]; exact hop

theorem RX2.stutter {p : Prog} {ctl : List TCtl} {ths : List DTh2} (h : RX2 p ctl ths) {t : Nat}
    (ht : t < ctl.length) (f : TCtl → TCtl)
    (hbody : (f (ctl.getD t {})).body = (ctl.getD t {}).body)
    (hpc : (ctl.getD t {}).pc ≤ (f (ctl.getD t {})).pc)
    (hrel : ThRel2 p (f (ctl.getD t {})) (ths.getD (ctl.getD t {}).body {}))
    (hepi : (f (ctl.getD t {})).fin ≠ 0 → opOfCtl p (f (ctl.getD t {})) = none) :
    RX2 p (ctl.modify t f) ths := by
  have := h.modify ht f id hbody hpc hrel hepi
  rwa [modify_id' _ _ id (fun _ => rfl)] at this

/-- the reference thread of the body run by twin thread `j` changes in fields the control part does not read
(`cvWaiting`, `cvNotified`, `token`) -/
theorem RX2.modRef {p : Prog} {ctl : List TCtl} {ths : List DTh2} (h : RX2 p ctl ths) {j : Nat}
    (hj : j < ctl.length) (g : DTh2 → DTh2)
    (hg : ∀ x, (g x).pc = x.pc ∧ (g x).started = x.started ∧ (g x).finished = x.finished ∧ (g x).rets = x.rets) :
    RX2 p ctl (ths.modify (ctl.getD j {}).body g) := by
  have hbl : (ctl.getD j {}).body < ths.length := by rw [h.len]; exact (h.thr j hj).1
  refine ⟨by simpa using h.len, h.main, ?_, h.epi, h.inj, ?_, h.past⟩
  · intro i hi
    refine ⟨(h.thr i hi).1, ?_⟩
    by_cases e : (ctl.getD i {}).body = (ctl.getD j {}).body
    · rw [e, getD_modify_self _ _ _ _ hbl]
      have := (h.thr i hi).2
      rw [e] at this
      obtain ⟨h1, h2, h3, h4, h5⟩ := this
      obtain ⟨g1, g2, g3, g4⟩ := hg (ths.getD (ctl.getD j {}).body {})
      exact ⟨by rw [g2]; exact h1, by rw [g1]; exact h2, by rw [g4]; exact h3, by rw [g3]; exact h4, h5⟩
    · rw [getD_modify_ne _ _ _ _ _ e]
      exact (h.thr i hi).2
  · intro b hb hidle
    have hne : b ≠ (ctl.getD j {}).body := fun e => hidle j hj e.symm
    rw [getD_modify_ne _ _ _ _ _ hne]
    exact h.idle b hb hidle

/-- `spawn b`: a new twin thread running body `b`, which no thread ran before -/
theorem RX2.append {p : Prog} {ctl : List TCtl} {ths : List DTh2} (h : RX2 p ctl ths) {b : Nat}
    (hb0 : 0 < b) (hb : b < p.threads.length)
    (hidle : ∀ i, i < ctl.length → (ctl.getD i {}).body ≠ b)
    (hpast : ∃ j k, j < ctl.length ∧ k < (ctl.getD j {}).pc ∧
      (p.threads.getD (ctl.getD j {}).body [])[k]? = some (.spawn b)) :
    RX2 p (ctl ++ [({ body := b } : TCtl)]) (ths.modify b fun h => { h with started := true }) := by
  have hlen : (ctl ++ [({ body := b } : TCtl)]).length = ctl.length + 1 := by simp
  have old : ∀ i, i < ctl.length → (ctl ++ [({ body := b } : TCtl)]).getD i {} = ctl.getD i {} :=
    fun i hi => getD_append_left _ _ _ _ hi
  have new : (ctl ++ [({ body := b } : TCtl)]).getD ctl.length {} = { body := b } := getD_append_new _ _ _
  have hbl : b < ths.length := by rw [h.len]; exact hb
  refine ⟨by simpa using h.len, ⟨by omega, by rw [old 0 h.main.1]; exact h.main.2⟩, ?_, ?_, ?_, ?_, ?_⟩
  · intro i hi
    rw [hlen] at hi
    by_cases hin : i < ctl.length
    · rw [old i hin]
      refine ⟨(h.thr i hin).1, ?_⟩
      rw [getD_modify_ne _ _ _ _ _ (hidle i hin)]
      exact (h.thr i hin).2
    · have : i = ctl.length := by omega
      subst this
      rw [new]
      refine ⟨hb, ?_⟩
      rw [getD_modify_self _ _ _ _ hbl, h.idle b hb hidle]
      exact ⟨rfl, rfl, rfl, rfl, Nat.zero_le _, rfl, rfl⟩
  · intro i hi
    rw [hlen] at hi
    by_cases hin : i < ctl.length
    · rw [old i hin]; exact h.epi i hin
    · have : i = ctl.length := by omega
      subst this
      rw [new]
      intro hne; exact absurd rfl hne
  · intro i j hi hj
    rw [hlen] at hi hj
    by_cases hin : i < ctl.length <;> by_cases hjn : j < ctl.length
    · rw [old i hin, old j hjn]; exact h.inj i j hin hjn
    · have : j = ctl.length := by omega
      subst this
      rw [old i hin, new]; intro e; exact absurd e (hidle i hin)
    · have : i = ctl.length := by omega
      subst this
      rw [old j hjn, new]; intro e; exact absurd e.symm (hidle j hjn)
    · omega
  · intro b' hb' hidle'
    have hne : b' ≠ b := by
      intro e
      have := hidle' ctl.length (by omega)
      rw [new] at this; exact this e.symm
    rw [getD_modify_ne _ _ _ _ _ hne]
    apply h.idle b' hb'
    intro i hi
    have := hidle' i (by omega)
    rwa [old i hi] at this
  · intro i hi0 hi
    rw [hlen] at hi
    by_cases hin : i < ctl.length
    · obtain ⟨j, k, hj, hk, hop⟩ := h.past i hi0 hin
      refine ⟨j, k, by omega, ?_, ?_⟩
      · rw [old j hj]; exact hk
      · rw [old j hj, old i hin]; exact hop
    · have : i = ctl.length := by omega
      subst this
      obtain ⟨j, k, hj, hk, hop⟩ := hpast
      refine ⟨j, k, by omega, ?_, ?_⟩
      · rw [old j hj]; exact hk
      · rw [old j hj, new]; exact hop

theorem RX2.spawn_fresh {p : Prog} {ctl : List TCtl} {ths : List DTh2} (h : RX2 p ctl ths) (hwf : WF2 p)
    {t b : Nat} (ht : t < ctl.length)
    (hop : opOfCtl p (ctl.getD t {}) = some (.spawn b)) :
    0 < b ∧ b < p.threads.length ∧ ∀ i, i < ctl.length → (ctl.getD i {}).body ≠ b := by
  have hok := hwf.opOk hop
  simp only [opOk, Bool.and_eq_true, decide_eq_true_eq] at hok
  refine ⟨hok.1, hok.2, ?_⟩
  intro i hi e
  by_cases hi0 : i = 0
  · subst hi0
    rw [h.main.2] at e
    omega
  · obtain ⟨j, k, hj, hk, hop'⟩ := h.past i (by omega) hi
    rw [e] at hop'
    obtain ⟨e1, e2⟩ := hwf.spawn_unique hop hop'
    have := h.inj t j ht hj e1
    subst this
    omega

end Refine2
end LoomVerif

/-
C01 pillars 2 and 3, C05.1, C18.1/2: `Exec.schedule` — race detection (`dporMarks`), the choice
of the next thread (`pickInitial`, `seed`, `branchThread`'s toggle), deadlock detection and the
re-activation of yielded threads.
-/
import LoomVerif.Proofs.C01Backtrack
import LoomVerif.Model.Exec

namespace LoomVerif

/-! ### list helpers -/

theorem findIdx?_congr {α β} (p : α → Bool) (q : β → Bool) (l : List α) (l' : List β)
    (hlen : l.length = l'.length)
    (h : ∀ i (h1 : i < l.length) (h2 : i < l'.length), p l[i] = q l'[i]) :
    findIdx? p l = findIdx? q l' := by
  induction l generalizing l' with
  | nil =>
    cases l' with
    | nil => rfl
    | cons _ _ => simp at hlen
  | cons x xs ih =>
    cases l' with
    | nil => simp at hlen
    | cons y ys =>
      have h0 : p x = q y := h 0 (by simp) (by simp)
      have := ih ys (by simpa using hlen) (fun i h1 h2 =>
        h (i + 1) (by simp; omega) (by simp; omega))
      simp [findIdx?, h0, this]

theorem findIdx?_padTo {α} (p : α → Bool) (l : List α) (n : Nat) (d : α) (hd : p d = false) :
    findIdx? p (Path.padTo l n d) = findIdx? p l := by
  unfold Path.padTo
  induction l with
  | nil =>
    simp only [List.nil_append, List.length_nil, Nat.sub_zero]
    exact (findIdx?_eq_none _ _).2 (fun a ha => by rw [(List.mem_replicate.1 ha).2]; exact hd)
  | cons x xs ih =>
    simp only [List.cons_append, findIdx?, List.length_cons]
    split
    · rfl
    · have : n - (xs.length + 1) = (n - 1) - xs.length := by omega
      rw [this]
      -- the induction hypothesis is for `n`; restate for arbitrary count
      have key : ∀ k, findIdx? p (xs ++ List.replicate k d) = findIdx? p xs := by
        intro k
        clear ih this
        induction xs with
        | nil =>
          exact (findIdx?_eq_none _ _).2
            (fun a ha => by rw [(List.mem_replicate.1 ha).2]; exact hd)
        | cons y ys ih2 => simp [findIdx?, ih2]
      rw [key]

theorem padTo_set {α} (l : List α) (n : Nat) (d v : α) (i : Nat) :
    (Path.padTo l n d).set i v = if i < l.length then Path.padTo (l.set i v) n d
      else l ++ (List.replicate (n - l.length) d).set (i - l.length) v := by
  unfold Path.padTo
  split
  · rename_i h; rw [List.set_append_left _ _ h]; simp
  · rename_i h; rw [List.set_append_right _ _ (by omega)]

/-! ### pillar 2: `dporMarks` -/

namespace Path

theorem setSched_fields (p : Path) (i : Nat) (s : Sched) :
    p.setSched i s = { p with branches := (p.setSched i s).branches } := rfl

/-- `backtrack` changes nothing but `branches` -/
theorem backtrackConservative_fields {p p' : Path} {tid fuel curr : Nat}
    (h : p.backtrackConservative tid fuel curr = .ok p') :
    p' = { p with branches := p'.branches } := by
  induction fuel generalizing curr with
  | zero => unfold backtrackConservative at h; cases h; rfl
  | succ fuel ih =>
    unfold backtrackConservative at h
    split at h
    · cases h
    · split at h
      · split at h
        · cases h
        · split at h
          · obtain ⟨cs', _, rfl⟩ := bindSet_ok h; rfl
          · exact ih h
      · split at h
        · obtain ⟨cs', _, rfl⟩ := bindSet_ok h; rfl
        · cases h; rfl

theorem backtrack_fields {p p' : Path} {point tid : Nat} (h : p.backtrack point tid = .ok p') :
    p' = { p with branches := p'.branches } := by
  unfold backtrack at h
  split at h
  · cases h
  · split at h
    · cases h; rfl
    · rename_i i s hf
      cases hbt : s.backtrack tid p.bound with
      | error e => rw [hbt] at h; cases h
      | ok s' =>
        rw [hbt] at h
        simp only [bind, Except.bind] at h
        split at h
        · cases h; rfl
        · split at h
          · have := backtrackConservative_fields h
            exact this
          · cases h; rfl

end Path

namespace Exec

/-- the backtrack point requested on behalf of thread `th`: the path id of the last access that
is dependent with `th`'s pending operation, unless there is none or it happens-before `th` -/
def raceOf (e : Exec) (th : Thread) : Except Panic (Option Nat) :=
  match th.operation with
  | none => .ok none
  | some op =>
    match e.objs.lastDependentAccess op with
    | .error err => .error err
    | .ok none => .ok none
    | .ok (some acc) => if acc.happensBefore th.dporVV then .ok none else .ok (some acc.pathId)

/-- one round of the DPOR loop -/
def dporStep (e : Exec) (p : Path) (x : Thread × Nat) : Except Panic Path :=
  match e.raceOf x.1 with
  | .error err => .error err
  | .ok none => .ok p
  | .ok (some point) => p.backtrack point x.2

/-- the DPOR loop as a monadic left fold over the indexed thread list -/
def dporSpec (e : Exec) : Except Panic Path :=
  e.threads.threads.zipIdx.foldlM (dporStep e) e.path

theorem dporMarks_go_eq (e : Exec) (ths : List Thread) (i : Nat) (p : Path) :
    dporMarks.go e ths i p = (ths.zipIdx i).foldlM (dporStep e) p := by
  induction ths generalizing i p with
  | nil => rfl
  | cons th rest ih =>
    simp only [List.zipIdx_cons, List.foldlM_cons]
    unfold dporMarks.go
    unfold dporStep raceOf
    simp only
    cases hop : th.operation with
    | none => simp only [bind, Except.bind]; exact ih _ _
    | some op =>
      simp only
      cases hl : e.objs.lastDependentAccess op with
      | error err => rfl
      | ok oa =>
        cases oa with
        | none => simp only [bind, Except.bind]; exact ih _ _
        | some acc =>
          simp only
          by_cases hh : acc.happensBefore th.dporVV = true
          · simp only [hh, if_true, bind, Except.bind]; exact ih _ _
          · simp only [hh, Bool.false_eq_true, if_false, bind, Except.bind]
            cases hb : p.backtrack acc.pathId i with
            | error err => rfl
            | ok p' => simp only; exact ih _ _

theorem dporMarks_eq (e : Exec) : e.dporMarks = e.dporSpec :=
  dporMarks_go_eq e _ 0 _

theorem dporMarks_go_no_race (e : Exec) (ths : List Thread) (i : Nat) (p : Path)
    (h : ∀ th ∈ ths, e.raceOf th = .ok none) : dporMarks.go e ths i p = .ok p := by
  rw [dporMarks_go_eq]
  induction ths generalizing i with
  | nil => rfl
  | cons th rest ih =>
    simp only [List.zipIdx_cons, List.foldlM_cons]
    have : dporStep e p (th, i) = .ok p := by
      unfold dporStep; rw [h th (by simp)]
    rw [this]
    simp only [bind, Except.bind]
    exact ih _ (fun t ht => h t (by simp [ht]))

theorem dporMarks_no_race (e : Exec) (h : ∀ th ∈ e.threads.threads, e.raceOf th = .ok none) :
    e.dporMarks = .ok e.path :=
  dporMarks_go_no_race e _ 0 _ h

theorem dporStep_frame {e : Exec} {p p' : Path} {x : Thread × Nat} (h : dporStep e p x = .ok p') :
    Path.Frame p p' ∧ p'.branches.length = p.branches.length ∧
      p' = { p with branches := p'.branches } ∧ (Path.PrevDecr p → Path.PrevDecr p') := by
  unfold dporStep at h
  split at h
  · cases h
  · cases h; exact ⟨Path.Frame.refl _, rfl, rfl, id⟩
  · have := Path.backtrack_frame h
    exact ⟨this.1, this.2, Path.backtrack_fields h, fun hp => hp.backtrack h⟩

theorem foldlM_dporStep_frame {e : Exec} (l : List (Thread × Nat)) {p p' : Path}
    (h : l.foldlM (dporStep e) p = .ok p') :
    Path.Frame p p' ∧ p'.branches.length = p.branches.length ∧
      p' = { p with branches := p'.branches } ∧ (Path.PrevDecr p → Path.PrevDecr p') := by
  induction l generalizing p with
  | nil => cases h; exact ⟨Path.Frame.refl _, rfl, rfl, id⟩
  | cons x xs ih =>
    simp only [List.foldlM_cons, bind, Except.bind] at h
    split at h
    · cases h
    · rename_i q hq
      obtain ⟨f1, l1, e1, d1⟩ := dporStep_frame hq
      obtain ⟨f2, l2, e2, d2⟩ := ih h
      refine ⟨f1.trans f2, l2.trans l1, ?_, fun hp => d2 (d1 hp)⟩
      rw [e2, e1]

/-- the DPOR loop only marks: it is a frame step that keeps length, cursor and flags -/
theorem dporMarks_frame {e : Exec} {p' : Path} (h : e.dporMarks = .ok p') :
    Path.Frame e.path p' ∧ p'.branches.length = e.path.branches.length ∧
      p' = { e.path with branches := p'.branches } ∧
      (Path.PrevDecr e.path → Path.PrevDecr p') := by
  rw [dporMarks_eq] at h
  exact foldlM_dporStep_frame _ h

/-! ### the shape of `schedule` -/

/-- the thread `schedule` would like to run: the active one if runnable, else `pickInitial` -/
def initial (e : Exec) : Option Nat :=
  if e.threads.activeT.isRunnable then some e.threads.activeId
  else pickInitial e.threads.threads

/-- DPOR bookkeeping for the pending operation of the chosen thread `nid`: its DPOR clock is
joined with the clock of the last dependent access and incremented, and the access is recorded
with path id `pathId` -/
def finishOp (e : Exec) (pathId nid : Nat) : Except Panic (Threads × Objs) :=
  let ths : Threads := { e.threads with active := some nid }
  let act := ths.get nid
  match act.operation with
  | none => pure (ths, e.objs)
  | some op => do
    let acc ← e.objs.lastDependentAccess op
    let d := match acc with | some a => act.dporVV.join a.vv | none => act.dporVV
    let d := d.inc nid
    let objs ← e.objs.setLastAccess op pathId d
    pure (ths.modify nid (fun t => { t with dporVV := d }), objs)

/-- the last loop of `schedule`: yielded threads other than the chosen one become runnable -/
def reactivate (ths : List Thread) (nid : Nat) : List Thread :=
  ths.mapIdx fun i th => if th.isYield && i != nid then th.setRunnable else th

/-- the tail of `schedule` once thread `nid` has been chosen -/
def finish (e : Exec) (path : Path) (pathId nid : Nat) : Except Panic (Exec × Bool) :=
  match e.finishOp pathId nid with
  | .error err => .error err
  | .ok (ths, objs) =>
    .ok ({ e with path, threads := { ths with threads := reactivate ths.threads nid }, objs },
      e.threads.activeId != nid)

theorem schedule_eq (e : Exec) (pk : Bool) :
    e.schedule pk =
      if !e.threads.isActive then .error (.internal 30) else
      match e.dporMarks with
      | .error err => .error err
      | .ok p1 =>
        match p1.branchThread (seed e.threads.threads e.initial) pk with
        | .error err => .error err
        | .ok (p2, none) =>
          if e.threads.threads.all Thread.isTerminated then
            .ok ({ e with path := p2, threads := { e.threads with active := none } }, true)
          else .error .deadlock
        | .ok (p2, some nid) =>
          if nid ≥ e.threads.threads.length then .error (.internal 31) else e.finish p2 p1.pos nid := by
  unfold schedule
  by_cases ha : e.threads.isActive = true
  · simp only [ha, Bool.not_true, Bool.false_eq_true, if_false]
    cases hd : e.dporMarks with
    | error err => rfl
    | ok p1 =>
      simp only [bind, Except.bind, pure, Except.pure]
      unfold initial
      generalize p1.branchThread _ pk = r
      cases r with
      | error err => rfl
      | ok v =>
        obtain ⟨p2, next⟩ := v
        cases next with
        | none =>
          simp only
          split <;> rfl
        | some nid =>
          simp only
          by_cases hn : nid ≥ e.threads.threads.length
          · simp only [hn, if_true]; rfl
          simp only [hn, if_false]
          unfold finish finishOp reactivate
          simp only [bind, Except.bind, pure, Except.pure]
          generalize (Threads.get _ nid).operation = o
          cases o with
          | none => rfl
          | some op =>
            simp only
            cases e.objs.lastDependentAccess op with
            | error err => rfl
            | ok acc =>
              simp only
              cases e.objs.setLastAccess op _ _ with
              | error err => rfl
              | ok objs => rfl
  · simp only [ha, Bool.not_false, if_true]
    rfl

end Exec
end LoomVerif

/-
Refinement, part 5: the simulation for `lock`, `tryLock`, `unlock`, `spawn`, `join` and the thread epilogue,
and the one-step simulation theorem.
-/
import LoomVerif.Proofs.RefineStep

namespace LoomVerif
namespace Refine
open Sy C07 C08

theorem modify_append_left' {α} (l x : List α) (t : Nat) (f : α → α) (h : t < l.length) :
    (l ++ x).modify t f = l.modify t f ++ x := by
  apply List.ext_getElem?
  intro i
  simp only [List.getElem?_modify]
  by_cases hi : i < l.length
  · rw [List.getElem?_append_left hi, List.getElem?_append_left (by simpa using hi), List.getElem?_modify]
  · have hi' : l.length ≤ i := by omega
    have hne : ¬ t = i := by omega
    rw [List.getElem?_append_right hi', List.getElem?_append_right (by simpa using hi')]
    simp [hne]

theorem modify_comm' {α} (l : List α) (a b : Nat) (f g : α → α) (h : a ≠ b) :
    (l.modify a f).modify b g = (l.modify b g).modify a f := by
  apply List.ext_getElem?
  intro i
  simp only [List.getElem?_modify]
  cases l[i]? with
  | none => rfl
  | some x =>
    by_cases ha : a = i <;> by_cases hb : b = i
    · omega
    · simp [ha, hb]
    · simp [ha, hb]
    · simp [ha, hb]

section
variable {w w' : World} {s : SCData}

theorem quiet_setStage {n : Nat} (h : Quiet (w.setStage n) w') : Quiet w w' :=
  ⟨h.prog, h.spawned, h.events, h.len, h.view⟩

/-- a stage that only moves the active thread's `stage` to 1 -/
theorem sim_stage1 (hR : R w s) (hact : w.tid < w.ctl.length) {op : Op} (hop : opAt w = some op)
    (hq : Quiet w w') (hctl : w'.ctl = w.ctl.modify w.tid fun c => { c with stage := 1 }) : Sim w s w' := by
  refine ⟨hq.prog, .inl ⟨?_, hq.events⟩⟩
  refine R_stutter hR hact _ hq hctl rfl rfl rfl rfl rfl (Nat.le_refl _) Iff.rfl ?_
  intro hne
  exact absurd (fin_zero hR hact hop) hne

theorem sim_lock (hR : R w s) (hact : w.tid < w.ctl.length) {mi : Nat}
    (hop : opAt w = some (.lock mi)) (hmi : mi < w.prog.cfg.nMutexes)
    (h : w.runOp (w.ctlOf w.tid) (.lock mi) = .ok w') : Sim w s w' := by
  obtain ⟨_, hrel, hof⟩ := base hR hact
  obtain ⟨l, hv, hmap, hown⟩ := hR.y.mtx mi hmi
  obtain ⟨ms, hobj, hlock⟩ := objView_mutex hv
  have hobj' : w.exec.objs[w.mutexObj mi]? = some (.mutex ms) := hobj
  rw [runOp_lock] at h
  split at h
  · -- the branch point
    simp only [getMutex_of hobj', bind, Except.bind] at h
    obtain ⟨hq, hc⟩ := branch_quiet h
    exact sim_stage1 hR hact hop (quiet_setStage hq) hc
  · obtain ⟨⟨w1, okk⟩, hpa, h⟩ := bind_ok h
    obtain ⟨hk, hc1, ht1, hp1, hs1, he1, hl1, _, hobjs⟩ := postAcquire_obs hobj' hpa
    cases okk with
    | false => simp [bind, Except.bind, throw, throwThe, MonadExceptOf.throw] at h
    | true =>
      simp only [Bool.not_true, Bool.false_eq_true, if_false, bind, Except.bind, pure, Except.pure] at h
      cases h
      have hl0 : l = none := by
        rw [← hlock]
        cases hh : ms.lock with
        | none => rfl
        | some i => rw [hh] at hk; cases hk
      subst hl0
      obtain ⟨h1, h2⟩ := started_running hR hact (by rw [fin_zero hR hact hop]; omega)
      refine ⟨hp1, .inr ⟨some ((s.th (w.ctlOf w.tid).body).pc, .unit),
        ({ s with mutex := s.mutex.set mi (some (w.ctlOf w.tid).body) } : SCData).ret (w.ctlOf w.tid).body .unit,
        ?_, ?_, ?_, ?_⟩⟩
      · unfold SCData.enabled
        rw [hof, hop, h1, h2]
        simp only [Option.map_none] at hmap
        show (true && !false && (s.mutex.getD mi none).isNone) = true
        rw [← hmap]; rfl
      · unfold SCData.stepL
        rw [hof, hop]
        simp
      · refine R_complete (s := s) (cells' := s.cells) (w0 := w1) hR hact hop hc1 ht1 hp1 hs1 hl1 ?_ _
        rw [hobjs rfl]
        exact hR.y.setMutex hmi _ (some w.tid) rfl (by intro i hi; cases hi; exact hact)
      · rw [events_complete', he1, ht1]
        show ((w1.ctlOf w.tid).body, (w1.ctlOf w.tid).pc, Ret.unit) :: _ = _
        rw [show w1.ctlOf w.tid = w.ctlOf w.tid by simp only [World.ctlOf, hc1], hrel.2.1]
        rfl

theorem sim_tryLock (hR : R w s) (hact : w.tid < w.ctl.length) {mi : Nat}
    (hop : opAt w = some (.tryLock mi)) (hmi : mi < w.prog.cfg.nMutexes)
    (h : w.runOp (w.ctlOf w.tid) (.tryLock mi) = .ok w') : Sim w s w' := by
  obtain ⟨_, hrel, hof⟩ := base hR hact
  obtain ⟨l, hv, hmap, hown⟩ := hR.y.mtx mi hmi
  obtain ⟨ms, hobj, hlock⟩ := objView_mutex hv
  have hobj' : w.exec.objs[w.mutexObj mi]? = some (.mutex ms) := hobj
  rw [runOp_tryLock] at h
  split at h
  · obtain ⟨hq, hc⟩ := branch_quiet h
    exact sim_stage1 hR hact hop (quiet_setStage hq) hc
  · obtain ⟨⟨w1, okk⟩, hpa, h⟩ := bind_ok h
    obtain ⟨hk, hc1, ht1, hp1, hs1, he1, hl1, hsame, hobjs⟩ := postAcquire_obs hobj' hpa
    simp only [pure, Except.pure] at h
    cases h
    have hev : (w1.complete (World.boolRet okk)).events.map triple =
        ((w.ctlOf w.tid).body, (s.th (w.ctlOf w.tid).body).pc, World.boolRet okk) :: w.events.map triple := by
      rw [events_complete', he1, ht1,
        show w1.ctlOf w.tid = w.ctlOf w.tid by simp only [World.ctlOf, hc1], hrel.2.1]
    cases okk with
    | false =>
      have hw : w1 = w := hsame rfl
      rw [hw] at hev ⊢
      have hl0 : (s.mutex.getD mi none).isNone = false := by
        rw [← hmap, ← hlock]
        cases hh : ms.lock with
        | none => rw [hh] at hk; cases hk
        | some i => rfl
      refine ⟨rfl, .inr ⟨some ((s.th (w.ctlOf w.tid).body).pc, SC.bool01 false),
        s.ret (w.ctlOf w.tid).body (SC.bool01 false), enabled_plain hR hact hop (by simp) (by simp), ?_, ?_, hev⟩⟩
      · unfold SCData.stepL
        rw [hof, hop]
        simp only []
        rw [hl0]
        simp
      · exact R_complete (s := s) (cells' := s.cells) (mutex' := s.mutex) (w0 := w) hR hact hop rfl rfl rfl rfl rfl
          hR.y _
    | true =>
      have hl0 : l = none := by
        rw [← hlock]
        cases hh : ms.lock with
        | none => rfl
        | some i => rw [hh] at hk; cases hk
      subst hl0
      simp only [Option.map_none] at hmap
      refine ⟨hp1, .inr ⟨some ((s.th (w.ctlOf w.tid).body).pc, SC.bool01 true),
        ({ s with mutex := s.mutex.set mi (some (w.ctlOf w.tid).body) } : SCData).ret (w.ctlOf w.tid).body
          (SC.bool01 true),
        enabled_plain hR hact hop (by simp) (by simp), ?_, ?_, hev⟩⟩
      · unfold SCData.stepL
        rw [hof, hop]
        simp only []
        rw [← hmap]
        simp
      · refine R_complete (s := s) (cells' := s.cells) (w0 := w1) hR hact hop hc1 ht1 hp1 hs1 hl1 ?_ _
        rw [hobjs rfl]
        exact hR.y.setMutex hmi _ (some w.tid) rfl (by intro i hi; cases hi; exact hact)

theorem sim_unlock (hR : R w s) (hact : w.tid < w.ctl.length) {mi : Nat}
    (hop : opAt w = some (.unlock mi)) (hmi : mi < w.prog.cfg.nMutexes)
    (h : w.runOp (w.ctlOf w.tid) (.unlock mi) = .ok w') : Sim w s w' := by
  obtain ⟨_, hrel, hof⟩ := base hR hact
  obtain ⟨l, hv, hmap, hown⟩ := hR.y.mtx mi hmi
  obtain ⟨ms, hobj, hlock⟩ := objView_mutex hv
  have hobj' : w.exec.objs[w.mutexObj mi]? = some (.mutex ms) := hobj
  rw [runOp_unlock] at h
  obtain ⟨w1, hrl, h⟩ := bind_ok h
  obtain ⟨hc1, ht1, hp1, hs1, he1, hl1, m', hm', hobjs⟩ := releaseLock_obs hobj' hrl
  simp only [pure, Except.pure] at h
  cases h
  refine ⟨hp1, .inr ⟨some ((s.th (w.ctlOf w.tid).body).pc, .unit),
    ({ s with mutex := s.mutex.set mi none } : SCData).ret (w.ctlOf w.tid).body .unit,
    enabled_plain hR hact hop (by simp) (by simp), ?_, ?_, ?_⟩⟩
  · unfold SCData.stepL
    rw [hof, hop]
    simp
  · refine R_complete (s := s) (cells' := s.cells) (w0 := w1) hR hact hop hc1 ht1 hp1 hs1 hl1 ?_ _
    rw [hobjs]
    exact hR.y.setMutex hmi (.mutex m') none (by simp [view, hm']) (by intro i hi; cases hi)
  · rw [events_complete', he1, ht1,
      show w1.ctlOf w.tid = w.ctlOf w.tid by simp only [World.ctlOf, hc1], hrel.2.1]
    rfl

theorem sim_spawn (hwf : WF w.prog) (hR : R w s) (hact : w.tid < w.ctl.length) {b : Nat}
    (hop : opAt w = some (.spawn b))
    (h : w.runOp (w.ctlOf w.tid) (.spawn b) = .ok w') : Sim w s w' := by
  obtain ⟨_, hrel, hof⟩ := base hR hact
  have hf0 := fin_zero hR hact hop
  obtain ⟨hb0, hb, hidle⟩ := hR.x.spawn_fresh hwf hact hop
  obtain ⟨w2, rfl, hp, ht, hev, hc, hsp, hobjs, hlen⟩ := spawn_obs h
  obtain ⟨h1, h2, h3, h4, h5, h6, h7⟩ := hrel
  have hne : (w.ctlOf w.tid).body ≠ b := hidle w.tid hact
  refine ⟨hp, .inr ⟨some ((s.th (w.ctlOf w.tid).body).pc, .unit),
    (s.modTh b fun h => { h with started := true }).ret (w.ctlOf w.tid).body .unit,
    enabled_plain hR hact hop (by simp) (by simp), ?_, ?_, ?_⟩⟩
  · unfold SCData.stepL
    rw [hof, hop]
    simp
  · refine R.mk' (p := w.prog) (ctl := (w.ctl ++ [({ body := b } : TCtl)]).modify w.tid (completeF .unit))
      (sp := (b, w.ctl.length, w.exec.objs.length) :: w.spawned) hp (by rw [ctl_complete', hc, ht])
      (by show w2.spawned = _; rw [hsp, hR.lenCtl]) ?_ ?_ ?_
    · show _ = w2.exec.threads.threads.length
      rw [hlen, ← hR.lenCtl]; simp
    · -- control part
      have X1 := hR.x.modify hact (completeF .unit)
        (fun h => { h with rets := (h.pc, Ret.unit) :: h.rets, pc := h.pc + 1 }) rfl (Nat.le_succ _)
        (by
          refine ⟨h1, ?_, ?_, h4, Nat.zero_le _, h6, h7⟩
          · show (s.th (w.ctlOf w.tid).body).pc + 1 = (w.ctlOf w.tid).pc + 1
            rw [h2]
          · show ((s.th (w.ctlOf w.tid).body).pc, Ret.unit) :: (s.th (w.ctlOf w.tid).body).rets = _
            rw [h2, h3]; rfl)
        (by intro hne'; exact absurd hf0 hne')
      have hlenm : (w.ctl.modify w.tid (completeF .unit)).length = w.ctl.length := by simp
      have body_eq : ∀ i, ((w.ctl.modify w.tid (completeF .unit)).getD i {}).body = (w.ctl.getD i {}).body := by
        intro i
        by_cases hi : i = w.tid
        · subst hi; rw [getD_modify_self _ _ _ _ hact]; rfl
        · rw [getD_modify_ne _ _ _ _ _ hi]
      have X2 := X1.append hb0 hb
        (by intro i hi; rw [body_eq]; exact hidle i (by rw [hlenm] at hi; exact hi))
        ⟨w.tid, (w.ctlOf w.tid).pc, by rw [hlenm]; exact hact,
          by rw [getD_modify_self _ _ _ _ hact]; exact Nat.lt_succ_self _,
          by rw [body_eq]; exact hop⟩
      rw [modify_append_left' _ _ _ _ hact]
      have e : (s.modTh b fun h => { h with started := true }).ret (w.ctlOf w.tid).body .unit =
          { s with ths := ((s.ths.modify (w.ctl.getD w.tid {}).body
              (fun h => { h with rets := (h.pc, Ret.unit) :: h.rets, pc := h.pc + 1 })).modify b
              fun h => { h with started := true }) } := by
        simp only [SCData.ret, SCData.modTh]
        rw [modify_comm' _ _ _ _ _ (Ne.symm hne)]
        rfl
      rw [e]
      exact X2
    · have Y1 := hR.y.spawn b ({ body := b } : TCtl) rfl (.notify { seqCst := true, spurious := false }) rfl
      show RY _ _ _ w2.exec.objs s.cells s.mutex
      rw [hobjs]
      exact Y1.ctl (CtlLe.modify _ _ _ (by
        rw [getD_append_left _ _ _ _ hact]; rfl) (by
        rw [getD_append_left _ _ _ _ hact]; exact id))
  · rw [events_complete', hev, ht]
    have : w2.ctlOf w.tid = w.ctlOf w.tid := by
      simp only [World.ctlOf, hc]
      exact getD_append_left _ _ _ _ hact
    rw [this, h2]
    rfl

theorem sim_join (hR : R w s) (hact : w.tid < w.ctl.length) {b : Nat}
    (hop : opAt w = some (.join b))
    (h : w.runOp (w.ctlOf w.tid) (.join b) = .ok w') : Sim w s w' := by
  obtain ⟨_, hrel, hof⟩ := base hR hact
  rw [runOp_join] at h
  obtain ⟨⟨tid', n⟩, hl, h2⟩ := bind_ok h
  clear h
  have h := h2
  clear h2
  -- the entry of `spawned`
  have hent : ∃ b'', (b'', tid', n) ∈ w.spawned ∧ b'' = b := by
    unfold World.lookupSpawn at hl
    split at hl
    · next b'' t'' n'' hf =>
      cases hl
      have := List.find?_some hf
      exact ⟨b'', List.mem_of_find?_eq_some hf, by simpa using this⟩
    · cases hl
  obtain ⟨b'', hmem, hbb⟩ := hent
  obtain ⟨hlt, hbody, nt, hv, hnt⟩ := hR.y.sp _ tid' n hmem
  rw [hbb] at hbody
  obtain ⟨ns, hobj, hspur, hnotified⟩ := objView_notify hv
  have hst : (w.ctlOf w.tid).stage = 0 ∨ (w.ctlOf w.tid).stage = 1 := by
    have := hrel.2.2.2.2.1; omega
  rcases hst with hst | hst
  · simp only [hst] at h
    obtain ⟨⟨w1, st⟩, h1, h⟩ := bind_ok h
    obtain ⟨rfl, hq, hc, _⟩ := notifyWait1_obs hobj hspur h1
    simp only [pure, Except.pure] at h
    cases h
    refine sim_stage1 hR hact hop ⟨hq.prog, hq.spawned, hq.events, hq.len, hq.view⟩ ?_
    show w1.ctl.modify _ _ = _
    rw [hc]
  · simp only [hst] at h
    obtain ⟨w1, h1, h⟩ := bind_ok h
    obtain ⟨hn1, hc1, ht1, hp1, hs1, he1, hl1, hobjs⟩ := notifyWait2_obs hobj h1
    simp only [pure, Except.pure] at h
    cases h
    obtain ⟨e1, e2⟩ := started_running hR hact (by rw [fin_zero hR hact hop]; omega)
    have hfinished : (s.th (w.ctl.getD tid' {}).body).finished = true := by
      have := (hR.x.thr tid' hlt).2.2.2.2.1
      rw [show s.th (w.ctl.getD tid' {}).body = s.ths.getD (w.ctl.getD tid' {}).body {} from rfl, this]
      simp only [decide_eq_true_eq]
      exact hnt (by rw [← hnotified]; exact hn1)
    refine ⟨hp1, .inr ⟨some ((s.th (w.ctlOf w.tid).body).pc, .unit),
      s.ret (w.ctlOf w.tid).body .unit, ?_, ?_, ?_, ?_⟩⟩
    · unfold SCData.enabled
      rw [hof, hop, e1, e2]
      show (true && !false && (s.th b).finished) = true
      rw [← hbody, hfinished]; rfl
    · unfold SCData.stepL
      rw [hof, hop]
      simp
    · refine R_complete (s := s) (cells' := s.cells) (mutex' := s.mutex) (w0 := w1) hR hact hop hc1 ht1 hp1 hs1 hl1
        ?_ _
      rw [hobjs]
      exact hR.y.setNotify hv _ false (by simp [view, hspur]) (by intro e; cases e)
    · rw [events_complete', he1, ht1,
        show w1.ctlOf w.tid = w.ctlOf w.tid by simp only [World.ctlOf, hc1], hrel.2.1]
      rfl

/-! ### the epilogue -/

theorem enabled_end (hR : R w s) (hact : w.tid < w.ctl.length) (hnone : opAt w = none)
    (hfin : (w.ctlOf w.tid).fin < 10) : SCData.enabled w.prog s (w.ctlOf w.tid).body = true := by
  obtain ⟨_, _, hof⟩ := base hR hact
  obtain ⟨h1, h2⟩ := started_running hR hact hfin
  unfold SCData.enabled
  rw [hof, hnone, h1, h2]
  rfl

theorem stepL_end (hR : R w s) (hact : w.tid < w.ctl.length) (hnone : opAt w = none) :
    (none, s.modTh (w.ctlOf w.tid).body fun h => { h with finished := true }) ∈
      SCData.stepL w.prog s (w.ctlOf w.tid).body := by
  obtain ⟨_, _, hof⟩ := base hR hact
  unfold SCData.stepL
  rw [hof, hnone]
  simp

/-- an epilogue stage that only moves `fin`, on the same side of the notification -/
theorem sim_fin (hR : R w s) (hact : w.tid < w.ctl.length) (hnone : opAt w = none) (k : Nat)
    (hq : Quiet w w') (hctl : w'.ctl = w.ctl.modify w.tid fun c => { c with fin := k })
    (hk : 10 ≤ k ↔ 10 ≤ (w.ctlOf w.tid).fin) : Sim w s w' := by
  refine ⟨hq.prog, .inl ⟨?_, hq.events⟩⟩
  exact R_stutter hR hact _ hq hctl rfl rfl rfl rfl rfl (base hR hact).2.1.2.2.2.2.1 hk (fun _ => hnone)

theorem quiet_modCtl (t : Nat) (f : TCtl → TCtl) : Quiet w (w.modCtl t f) :=
  ⟨rfl, rfl, rfl, rfl, ViewLe.refl _⟩

theorem sim_epilogue (hR : R w s) (hact : w.tid < w.ctl.length) (hnone : opAt w = none)
    (h : w.runEpilogue (w.ctlOf w.tid) = .ok w') : Sim w s w' := by
  obtain ⟨_, hrel, hof⟩ := base hR hact
  have hloc := hrel.2.2.2.2.2.1
  have hdq := hrel.2.2.2.2.2.2
  have hdl : w.dropLocals = w := dropLocals_frag w hloc hdq
  by_cases h10 : 10 ≤ (w.ctlOf w.tid).fin
  · -- the common tail
    rw [runEpilogue_finish w _ h10] at h
    unfold World.finishThread at h
    split at h
    · cases h
    · next hrange =>
      rw [dropPass_eq, hdl] at h
      split at h
      · next e =>
        cases h
        exact sim_fin hR hact hnone 11 (quiet_modCtl _ _) rfl (by omega)
      · split at h
        · next e =>
          rw [hdq] at h
          simp only at h
          obtain ⟨hq, hc⟩ := threadDone_quiet h
          refine sim_fin hR hact hnone 99 ⟨hq.prog, hq.spawned, hq.events, hq.len, hq.view⟩ ?_ (by omega)
          rw [hc]; rfl
        · rw [hdq] at h
          cases h
  · have hlt : (w.ctlOf w.tid).fin < 10 := by omega
    by_cases ht0 : w.tid = 0
    · -- the main thread
      rw [runEpilogue_main w _ ht0 hlt] at h
      cases h
      refine ⟨rfl, .inr ⟨none, _, enabled_end hR hact hnone hlt, stepL_end hR hact hnone, ?_, rfl⟩⟩
      refine R_finish (w0 := { w with exec := { w.exec with lazyStatics := none } }) hR hact hnone rfl rfl rfl rfl ?_
      exact hR.y.ctl (CtlLe.modify _ _ _ rfl (fun _ => Nat.le_refl _))
    · -- a spawned thread
      have hfind : ∃ b n, w.spawned.find? (·.2.1 == w.tid) = some (b, w.tid, n) := by
        cases hf : w.spawned.find? (·.2.1 == w.tid) with
        | none =>
          unfold World.runEpilogue at h
          simp [h10, ht0, hf, bind, Except.bind, throw, throwThe, MonadExceptOf.throw] at h
        | some e =>
          obtain ⟨b, t, n⟩ := e
          have := List.find?_some hf
          simp only [beq_iff_eq] at this
          subst this
          exact ⟨b, n, rfl⟩
      obtain ⟨b, n, hf⟩ := hfind
      have hmem := List.mem_of_find?_eq_some hf
      rw [runEpilogue_spawned w _ b n ht0 hf hlt] at h
      split at h
      · next e =>
        rw [hdl] at h
        cases h
        exact sim_fin hR hact hnone 4 (quiet_modCtl _ _) rfl (by omega)
      · split at h
        · next e3 =>
          rw [dropPass_eq, hdl] at h
          split at h
          · cases h
            exact sim_fin hR hact hnone 4 (quiet_modCtl _ _) rfl (by omega)
          · split at h
            · rw [hdq] at h
              simp only at h
              obtain ⟨hq, hc⟩ := branch_quiet h
              refine sim_fin hR hact hnone 1 ⟨hq.prog, hq.spawned, hq.events, hq.len, hq.view⟩ ?_ (by omega)
              rw [hc]; rfl
            · rw [hdq] at h
              cases h
        · -- the notification: the thread becomes joinable
          obtain ⟨hlt', hbody, nt, hv, hnt⟩ := hR.y.sp b w.tid n hmem
          obtain ⟨ns, hobj, hspur, hnotified⟩ := objView_notify hv
          obtain ⟨w1, h1, h⟩ := bind_ok h
          obtain ⟨hc1, ht1, hp1, hs1, he1, hl1, ns', hsp', hnt', hobjs⟩ := notifyEffect_obs hobj h1
          simp only [pure, Except.pure] at h
          cases h
          refine ⟨hp1, .inr ⟨none, _, enabled_end hR hact hnone hlt, stepL_end hR hact hnone, ?_, ?_⟩⟩
          · refine R_finish (w0 := w1) hR hact hnone hc1 hp1 hs1 hl1 ?_
            rw [hobjs]
            refine (hR.y.ctl (CtlLe.modify _ _ _ rfl (fun _ => Nat.le_refl _))).setNotify hv _ true
              (by simp [view, hsp', hspur, hnt']) ?_
            intro _ b' i hmem'
            have := hR.y.spn _ _ hmem' hmem rfl
            simp only at this
            subst this
            rw [getD_modify_self _ _ _ _ hact]
            exact Nat.le_refl _
          · show (w1.events).map triple = _
            rw [he1]; rfl

/-! ### the one-step simulation -/

/-- **one-step simulation**: a successful stage of the active thread of the twin, from a world related to the
reference data `s`, leads to a world related to `s` again (stuttering: the event log is unchanged), or to a world
related to a successor `s'` of `s` by a step of the body `t` the active thread runs — a step of `SCData.stepL`,
enabled in `s`, whose label is exactly the event the twin logs (`complete r`) -/
theorem step_sim (hwf : WF w.prog) (hR : R w s) (hact : w.tid < w.ctl.length)
    (h : w.stepActive = .ok w') : Sim w s w' := by
  unfold World.stepActive at h
  simp only at h
  cases hop : opAt w with
  | none =>
    unfold opAt at hop
    rw [hop] at h
    exact sim_epilogue hR hact hop h
  | some op =>
    have hop' := hop
    unfold opAt at hop'
    rw [hop'] at h
    simp only at h
    have hok := hwf.opOk hop'
    cases op <;> simp only [opOk, Bool.false_eq_true, Bool.and_eq_true, decide_eq_true_eq] at hok
    case cellRead c => exact sim_cellRead hR hact hop hok h
    case cellWrite c v => exact sim_cellWrite hR hact hop hok h
    case lock m => exact sim_lock hR hact hop hok h
    case tryLock m => exact sim_tryLock hR hact hop hok h
    case unlock m => exact sim_unlock hR hact hop hok h
    case spawn b => exact sim_spawn hwf hR hact hop h
    case join b => exact sim_join hR hact hop h
    case ifEq i r n => exact sim_ifEq hR hact hop h

/-! ### the active thread stays in the thread table -/

/-- after a successful stage of a fragment operation (or of the epilogue) the active thread, if there is one,
is in the thread table: the scheduling points establish it (`Exec.schedule` fails with `.internal 31` when the
path names a thread that does not exist), the other stages keep the active thread and do not shrink the table -/
theorem step_inRange (hwf : WF w.prog) (hR : R w s) (hact : w.tid < w.ctl.length)
    (h : w.stepActive = .ok w') : InRange w' := by
  have hin : w.tid < w.exec.threads.threads.length := by rw [← hR.lenCtl]; exact hact
  obtain ⟨_, hrel, hof⟩ := base hR hact
  unfold World.stepActive at h
  simp only at h
  cases hop : opAt w with
  | none =>
    unfold opAt at hop
    rw [hop] at h
    replace h : w.runEpilogue (w.ctlOf w.tid) = .ok w' := h
    have hloc := hrel.2.2.2.2.2.1
    have hdq := hrel.2.2.2.2.2.2
    have hdl : w.dropLocals = w := dropLocals_frag w hloc hdq
    by_cases h10 : 10 ≤ (w.ctlOf w.tid).fin
    · rw [runEpilogue_finish w _ h10] at h
      unfold World.finishThread at h
      split at h
      · cases h
      · rw [dropPass_eq, hdl] at h
        split at h
        · cases h
          exact inRange_of rfl (Nat.le_refl _) hin
        · split at h
          · rw [hdq] at h
            simp only at h
            exact threadDone_inRange h
          · rw [hdq] at h
            cases h
    · have hlt : (w.ctlOf w.tid).fin < 10 := by omega
      by_cases ht0 : w.tid = 0
      · rw [runEpilogue_main w _ ht0 hlt] at h
        cases h
        exact inRange_of rfl (Nat.le_refl _) hin
      · have hfind : ∃ b n, w.spawned.find? (·.2.1 == w.tid) = some (b, w.tid, n) := by
          cases hf : w.spawned.find? (·.2.1 == w.tid) with
          | none =>
            unfold World.runEpilogue at h
            simp [h10, ht0, hf, bind, Except.bind, throw, throwThe, MonadExceptOf.throw] at h
          | some e =>
            obtain ⟨b, t, n⟩ := e
            have := List.find?_some hf
            simp only [beq_iff_eq] at this
            subst this
            exact ⟨b, n, rfl⟩
        obtain ⟨b, n, hf⟩ := hfind
        have hmem := List.mem_of_find?_eq_some hf
        rw [runEpilogue_spawned w _ b n ht0 hf hlt] at h
        split at h
        · rw [hdl] at h
          cases h
          exact inRange_of rfl (Nat.le_refl _) hin
        · split at h
          · rw [dropPass_eq, hdl] at h
            split at h
            · cases h
              exact inRange_of rfl (Nat.le_refl _) hin
            · split at h
              · rw [hdq] at h
                simp only at h
                exact branch_inRange h
              · rw [hdq] at h
                cases h
          · obtain ⟨hlt', hbody, nt, hv, hnt⟩ := hR.y.sp b w.tid n hmem
            obtain ⟨ns, hobj, hspur, hnotified⟩ := objView_notify hv
            obtain ⟨w1, h1, h⟩ := bind_ok h
            obtain ⟨hc1, ht1, hp1, hs1, he1, hl1, _⟩ := notifyEffect_obs hobj h1
            simp only [pure, Except.pure] at h
            cases h
            exact inRange_of (w' := w1.modCtl w.tid _) ht1 (Nat.le_of_eq hl1.symm) hin
  | some op =>
    have hop' := hop
    unfold opAt at hop'
    rw [hop'] at h
    simp only at h
    have hok := hwf.opOk hop'
    cases op <;> simp only [opOk, Bool.false_eq_true, Bool.and_eq_true, decide_eq_true_eq] at hok
    case cellRead c =>
      rw [runOp_cellRead] at h
      obtain ⟨cs, hg, h⟩ := bind_ok h
      simp only [bind, Except.bind, pure, Except.pure, throw, throwThe, MonadExceptOf.throw] at h
      repeat' split at h
      all_goals try (cases h; done)
      cases h
      refine inRange_of (w := w) rfl ?_ hin
      show _ ≤ w.sync.exec.threads.threads.length
      rw [sync_len]; exact Nat.le_refl _
    case cellWrite c v =>
      rw [runOp_cellWrite] at h
      obtain ⟨cs, hg, h⟩ := bind_ok h
      simp only [bind, Except.bind, pure, Except.pure, throw, throwThe, MonadExceptOf.throw] at h
      repeat' split at h
      all_goals try (cases h; done)
      cases h
      refine inRange_of (w := w) rfl ?_ hin
      show _ ≤ w.sync.exec.threads.threads.length
      rw [sync_len]; exact Nat.le_refl _
    case lock mi =>
      obtain ⟨l, hv, hmap, hown⟩ := hR.y.mtx mi hok
      obtain ⟨ms, hobj, hlock⟩ := objView_mutex hv
      have hobj' : w.exec.objs[w.mutexObj mi]? = some (.mutex ms) := hobj
      rw [runOp_lock] at h
      split at h
      · simp only [getMutex_of hobj', bind, Except.bind] at h
        exact branch_inRange h
      · obtain ⟨⟨w1, okk⟩, hpa, h⟩ := bind_ok h
        obtain ⟨hk, hc1, ht1, hp1, hs1, he1, hl1, _, hobjs⟩ := postAcquire_obs hobj' hpa
        cases okk with
        | false => simp [bind, Except.bind, throw, throwThe, MonadExceptOf.throw] at h
        | true =>
          simp only [Bool.not_true, Bool.false_eq_true, if_false, bind, Except.bind, pure, Except.pure] at h
          cases h
          exact inRange_of (w' := w1.complete .unit) ht1 (Nat.le_of_eq hl1.symm) hin
    case tryLock mi =>
      obtain ⟨l, hv, hmap, hown⟩ := hR.y.mtx mi hok
      obtain ⟨ms, hobj, hlock⟩ := objView_mutex hv
      have hobj' : w.exec.objs[w.mutexObj mi]? = some (.mutex ms) := hobj
      rw [runOp_tryLock] at h
      split at h
      · exact branch_inRange h
      · obtain ⟨⟨w1, okk⟩, hpa, h⟩ := bind_ok h
        obtain ⟨hk, hc1, ht1, hp1, hs1, he1, hl1, _, hobjs⟩ := postAcquire_obs hobj' hpa
        simp only [pure, Except.pure] at h
        cases h
        exact inRange_of (w' := w1.complete _) ht1 (Nat.le_of_eq hl1.symm) hin
    case unlock mi =>
      obtain ⟨l, hv, hmap, hown⟩ := hR.y.mtx mi hok
      obtain ⟨ms, hobj, hlock⟩ := objView_mutex hv
      have hobj' : w.exec.objs[w.mutexObj mi]? = some (.mutex ms) := hobj
      rw [runOp_unlock] at h
      obtain ⟨w1, hrl, h⟩ := bind_ok h
      obtain ⟨hc1, ht1, hp1, hs1, he1, hl1, _⟩ := releaseLock_obs hobj' hrl
      simp only [pure, Except.pure] at h
      cases h
      exact inRange_of (w' := w1.complete .unit) ht1 (Nat.le_of_eq hl1.symm) hin
    case spawn b =>
      obtain ⟨w2, rfl, hp, ht, hev, hc, hsp, hobjs, hlen⟩ := spawn_obs h
      refine inRange_of (w' := w2.complete .unit) ht ?_ hin
      show _ ≤ w2.exec.threads.threads.length
      rw [hlen]; omega
    case join b =>
      rw [runOp_join] at h
      obtain ⟨⟨tid', n⟩, hl, h⟩ := bind_ok h
      have hent : ∃ b'', (b'', tid', n) ∈ w.spawned := by
        unfold World.lookupSpawn at hl
        split at hl
        · next b'' t'' n'' hf =>
          cases hl
          exact ⟨b'', List.mem_of_find?_eq_some hf⟩
        · cases hl
      obtain ⟨b'', hmem⟩ := hent
      obtain ⟨hlt, hbody, nt, hv, hnt⟩ := hR.y.sp _ tid' n hmem
      obtain ⟨ns, hobj, hspur, hnotified⟩ := objView_notify hv
      have hst : (w.ctlOf w.tid).stage = 0 ∨ (w.ctlOf w.tid).stage = 1 := by
        have := hrel.2.2.2.2.1; omega
      rcases hst with hst | hst
      · simp only [hst] at h
        obtain ⟨⟨w1, st⟩, h1, h⟩ := bind_ok h
        obtain ⟨rfl, hq, hc, hr⟩ := notifyWait1_obs hobj hspur h1
        simp only [pure, Except.pure] at h
        cases h
        exact hr
      · simp only [hst] at h
        obtain ⟨w1, h1, h⟩ := bind_ok h
        obtain ⟨hn1, hc1, ht1, hp1, hs1, he1, hl1, hobjs⟩ := notifyWait2_obs hobj h1
        simp only [pure, Except.pure] at h
        cases h
        exact inRange_of (w' := w1.complete .unit) ht1 (Nat.le_of_eq hl1.symm) hin
    case ifEq i r n =>
      rw [runOp_ifEq] at h
      split at h <;> (cases h; exact inRange_of rfl (Nat.le_refl _) hin)

end

end Refine
end LoomVerif

/-
Refinement, FUTURES fragment, part 10: the run-level hypothesis `resumeOk4` (computable), what it gives to the
simulation (the poll load reads the reference's value; no notification is in flight when a `block_on` consumes one),
and the facts about the one `block_on` body of a future.
-/
import LoomVerif.Proofs.Refine4Wake

set_option linter.unusedSimpArgs false
set_option linter.unusedVariables false

namespace LoomVerif
namespace Refine4
open Refine Sy Refine2 C20

/-- no thread is about to notify the `Notify` `k` -/
def noPending (w : World) (k : Nat) : Bool :=
  (List.range w.ctl.length).all fun j => pendN w.prog (w.ctlOf j) != some k

/-- the number of stores to atomic `x` so far (the initial one included) -/
def cntOf (w : World) (x : Nat) : Option Nat :=
  match w.exec.objs[x]? with
  | some (.atomic a) => some a.cnt
  | _ => none

/-- the number of threads between the flag store of a `wake` / `wakeRef` / `awWake` on `f` and the stage that takes the
waker under the mutex -/
def nInflW (w : World) (f : Nat) : Nat := nInfl (iaOf w.prog w.ctl) f w.ctl.length

/-- the value of the flag of future `f` in the reference semantics, computed from the twin's world: every store to a
flag stores 1, and the reference performs the store of a wake at the stage that takes the waker, so the flag is 1 iff
more stores have been performed than are still in flight -/
def refFlag (w : World) (f : Nat) : Option Int :=
  (cntOf w f).map fun c => if nInflW w f < c - 1 then 1 else 0

/-- **the run-level hypothesis**, for one step.

* The flag load of a poll of `blockOn f mode` (stages 11, 15) reads THE VALUE THE REFERENCE READS (`refFlag`).  It
  fails in two ways: the twin's Acquire load reads an older store although a more recent one has been performed and
  linearised (the reference's flag reads are sequentially consistent; the twin's load may read any store that is not
  ordered before a store the reader has seen); or it reads the 1 of a store that is still "in flight": its thread has
  not reached the stage that takes the waker under the mutex, where the reference performs the WHOLE wake (store
  included) in one step.
* The second half of the `Notify::wait` of a `block_on` (stages 16, 53) does not consume the notification while
  another notification to the same `Notify` is still in flight (between the stage that takes the waker and the stage
  that notifies). -/
def resumeOk4 (w : World) : Bool :=
  match opAt w with
  | some (.blockOn f mode) =>
    let st := (w.ctlOf w.tid).stage
    if st == 11 || st == 15 then
      (match w.primEffect f (World.pollPrim mode), refFlag w f with
       | .ok (_, r), some v => r == .val v
       | _, _ => true)
    else if st == 16 || st == 53 then noPending w (w.futs.getD f {}).notify
    else true
  | _ => true

theorem noPending_spec {w : World} {k : Nat} (h : noPending w k = true) :
    ∀ j, j < w.ctl.length → paOf w.prog w.ctl j ≠ some k := by
  intro j hj
  unfold noPending at h
  rw [List.all_eq_true] at h
  have := h j (List.mem_range.2 hj)
  simpa [paOf, World.ctlOf] using this

section
variable {w w' : World} {s : SC.St}

/-- **the poll load reads the reference's value** (under `resumeOk4`) -/
theorem poll_read (hwf : WF4 w.prog) (hR : R4 w s) {f mode : Nat} (hop : opAt w = some (.blockOn f mode))
    (hst : (w.ctlOf w.tid).stage = 11 ∨ (w.ctlOf w.tid).stage = 15) (hok : resumeOk4 w = true)
    {w1 : World} {r : Ret} (h1 : w.primEffect f (World.pollPrim mode) = .ok (w1, r)) :
    r = .val ((data4 s).atom f) := by
  obtain ⟨hf, hfa⟩ := fut_lt hwf hop rfl
  unfold resumeOk4 at hok
  rw [hop] at hok
  have hst' : ((w.ctlOf w.tid).stage == 11 || (w.ctlOf w.tid).stage == 15) = true := by
    rcases hst with e | e <;> simp [e]
  simp only [hst', if_true, h1] at hok
  obtain ⟨v, c, hav, _⟩ := hR.f.a.atom f hfa
  have hobj : ∃ a, w.exec.objs[f]? = some (.atomic a) ∧ a.cnt = c := by
    rw [avOf_some] at hav
    have : (w.exec.objs.map ov4)[f]? = some (.atomic v true c) := hav
    rw [List.getElem?_map] at this
    cases hx : w.exec.objs[f]? with
    | none => rw [hx] at this; cases this
    | some x =>
      rw [hx] at this
      cases x <;> simp [ov4] at this
      exact ⟨_, rfl, this.2.2⟩
  obtain ⟨a, ha, hc⟩ := hobj
  have hcnt : cntOf w f = some c := by unfold cntOf; rw [ha]; simp only [hc]
  have hrf : refFlag w f = some (if nInflW w f < c - 1 then 1 else 0) := by
    unfold refFlag; rw [hcnt]; rfl
  rw [hrf] at hok
  have hr : r = .val (if nInflW w f < c - 1 then 1 else 0) := by simpa using hok
  rw [hr]
  have := hR.f.a.read hfa hav
  show Ret.val _ = Ret.val ((data4 s).atoms.getD f 0)
  rw [this]
  rfl

/-- a thread in a call on the future the active thread blocks on IS the active thread -/
theorem call_unique (hwf : WF4 w.prog) (hR : R4 w s) (hact : w.tid < w.ctl.length) {f mode : Nat}
    (hop : opAt w = some (.blockOn f mode)) :
    ∀ i m b, i < w.ctl.length → caOf w.prog w.ctl i = some (f, m, b) → i = w.tid := by
  intro i m b hi hc
  have hop_i : ∃ m', opOfCtl w.prog (w.ctl.getD i {}) = some (.blockOn f m') := by
    unfold caOf callOf at hc
    cases ho : opOfCtl w.prog (w.ctl.getD i {}) with
    | none => rw [ho] at hc; cases hc
    | some op =>
      rw [ho] at hc
      cases op <;> simp only at hc <;> try (cases hc; done)
      case blockOn f' m' =>
        split at hc
        · cases hc; exact ⟨_, rfl⟩
        · cases hc
  obtain ⟨m', hm'⟩ := hop_i
  have hb := hwf.blockOn_body hm' hop
  exact hR.x.inj i w.tid hi hact hb

/-- … so no OTHER thread is in a call on it -/
theorem no_other_call (hwf : WF4 w.prog) (hR : R4 w s) (hact : w.tid < w.ctl.length) {f mode : Nat}
    (hop : opAt w = some (.blockOn f mode)) (hca : caOf w.prog w.ctl w.tid = none) :
    ∀ i m b, i < w.ctl.length → caOf w.prog w.ctl i ≠ some (f, m, b) := by
  intro i m b hi hc
  have := call_unique hwf hR hact hop i m b hi hc
  subst this
  rw [hca] at hc; cases hc

end

/-! ### reading a reference state through its data -/

theorem SCData4.th_modTh_self (d : SCData4) (b : Nat) (g : DTh4 → DTh4) (hb : b < d.ths.length) :
    (d.modTh b g).th b = g (d.th b) := getD_modify_self _ _ _ _ hb

theorem SCData4.th_modTh_ne (d : SCData4) {b b' : Nat} (g : DTh4 → DTh4) (h : b' ≠ b) :
    (d.modTh b g).th b' = d.th b' := getD_modify_ne _ _ _ _ _ h

theorem SCData4.fut_modFut_self (d : SCData4) (f : Nat) (g : DFut → DFut) (hf : f < d.futs.length) :
    (d.modFut f g).fut f = g (d.fut f) := getD_modify_self _ _ _ _ hf

theorem SCData4.fut_modFut_ne (d : SCData4) {f f' : Nat} (g : DFut → DFut) (h : f' ≠ f) :
    (d.modFut f g).fut f' = d.fut f' := getD_modify_ne _ _ _ _ _ h

@[simp] theorem SCData4.th_modFut (d : SCData4) (f : Nat) (g : DFut → DFut) (b : Nat) :
    (d.modFut f g).th b = d.th b := rfl
@[simp] theorem SCData4.fut_modTh (d : SCData4) (b : Nat) (g : DTh4 → DTh4) (f : Nat) :
    (d.modTh b g).fut f = d.fut f := rfl
@[simp] theorem SCData4.atom_modTh (d : SCData4) (b : Nat) (g : DTh4 → DTh4) (x : Nat) :
    (d.modTh b g).atom x = d.atom x := rfl
@[simp] theorem SCData4.atom_modFut (d : SCData4) (f : Nat) (g : DFut → DFut) (x : Nat) :
    (d.modFut f g).atom x = d.atom x := rfl
@[simp] theorem SCData4.verdict_modTh (d : SCData4) (b : Nat) (g : DTh4 → DTh4) :
    (d.modTh b g).verdict = d.verdict := rfl
@[simp] theorem SCData4.verdict_modFut (d : SCData4) (f : Nat) (g : DFut → DFut) :
    (d.modFut f g).verdict = d.verdict := rfl

/-- the thread `b` of a reference state whose data is known -/
theorem th_of_data {s1 : SC.St} {d : SCData4} (h : data4 s1 = d) (b : Nat) : dth4 (s1.th b) = d.th b := by
  rw [← h, data4_th]

theorem fut_of_data {s1 : SC.St} {d : SCData4} (h : data4 s1 = d) (f : Nat) :
    dfut (s1.futs.getD f {}) = d.fut f := by
  rw [← h, data4_fut]

/-- the operation thread `b` is at, in a reference state whose data is known -/
theorem opOf_of_data {p : Prog} {s1 : SC.St} {d : SCData4} (h : data4 s1 = d) (b : Nat) :
    SC.opOf p s1 b = SCData4.opOf p d b := by
  rw [← h, data4_opOf]

/-- the verdict of a reference state whose data is known -/
theorem verdict_of_data {s1 : SC.St} {d : SCData4} (h : data4 s1 = d) : s1.verdict = d.verdict := by
  rw [← h]; rfl

/-- the number of reference threads is the number of bodies -/
theorem ths_len {w : World} {s : SC.St} (hR : R4 w s) : (data4 s).ths.length = w.prog.threads.length := hR.x.len

/-- the body the active thread runs is a reference thread -/
theorem body_lt {w : World} {s : SC.St} (hR : R4 w s) (hact : w.tid < w.ctl.length) :
    (w.ctlOf w.tid).body < (data4 s).ths.length := by
  rw [ths_len hR]; exact (act4 hR hact).1

end Refine4
end LoomVerif

/-
Refinement, WAIT fragment, part 25: every step of the data semantics from the data of a reference state is the data
of the step of `SC.step` / `SC.spurious`, unless that step stops with a race verdict; runs lift.
-/
import LoomVerif.Proofs.Refine2Lift

set_option linter.unusedSimpArgs false
set_option linter.unusedVariables false

namespace LoomVerif
namespace Refine2
open Refine

/-- the successor `s'` of `SC.step`, a singleton: it carries no verdict, keeps the invariant, and its data is `d'` -/
macro "lift_one" hv:ident hth:ident : tactic => `(tactic|
  refine ⟨_, List.mem_singleton.2 rfl, Or.inl ⟨⟨$hv, by frag_all $hth⟩, ?_⟩⟩)

/-- **`SCData2.stepL` is the data of `SC.step`, unless `SC.step` stops with a race verdict** -/
theorem SC.step_lift2 {p : Prog} {s : SC.St} {t : Nat} {l : Option (Nat × Ret)} {d' : SCData2}
    (hs : FragSt2 s) (h : (l, d') ∈ SCData2.stepL p (data2 s) t) :
    ∃ s', s' ∈ SC.step p s t ∧ ((FragSt2 s' ∧ data2 s' = d') ∨ ∃ k, s'.verdict = some (.race k)) := by
  obtain ⟨hv, hth⟩ := hs
  have hft := hth t
  unfold SCData2.stepL at h
  rw [data2_opOf, data2_th] at h
  cases hn : (s.th t).cvNotified with
  | some m =>
    have hn' : (dth2 (s.th t)).cvNotified = some m := hn
    simp only [hn', List.mem_singleton, Prod.mk.injEq] at h
    obtain ⟨_, rfl⟩ := h
    unfold SC.step
    simp only [hn]
    lift_one hv hth
    rw [data2_ret, data2_modTh _ _ _ (fun h => { h with cvNotified := none }) (fun _ => rfl), data2_acquire,
      data2_setMutex, data2_tick]
    rfl
  | none =>
    have hn' : (dth2 (s.th t)).cvNotified = none := hn
    simp only [hn'] at h
    cases ho : SC.opOf p s t with
    | none =>
      rw [ho] at h
      simp only [List.mem_singleton, Prod.mk.injEq] at h
      obtain ⟨_, rfl⟩ := h
      have key : SC.finish p s t =
          [(if t == 0 then { s with lazyDropped := true } else s).modTh t fun h => { h with finished := true }] := by
        unfold SC.finish
        simp only [hft.1, hft.2, List.map_nil, List.contains_nil, List.filter_cons, List.filter_nil,
          Bool.false_eq_true, if_false, List.isEmpty_nil, if_true, SC.perms2, List.map_cons, List.foldl_nil]
        split
        · simp
        · rfl
      refine ⟨(if t == 0 then { s with lazyDropped := true } else s).modTh t fun h => { h with finished := true },
        by unfold SC.step; simp only [hn, ho, key, List.mem_singleton], .inl ⟨⟨?_, ?_⟩, ?_⟩⟩
      · simp only [verdict_modTh]; split <;> exact hv
      · have h' : FragAll (if t == 0 then { s with lazyDropped := true } else s) := by
          split
          · exact FragAll.fields rfl hth
          · exact hth
        exact FragAll.modTh (fun _ => ⟨rfl, rfl⟩) h'
      · rw [data2_modTh _ _ _ (fun h => { h with finished := true }) (fun _ => rfl)]
        congr 1
        split <;> rfl
    | some op =>
      rw [ho] at h
      cases op <;> simp only [List.not_mem_nil] at h
      case cellRead c =>
        simp only [List.mem_singleton, Prod.mk.injEq] at h
        obtain ⟨_, rfl⟩ := h
        unfold SC.step
        simp only [hn, ho]
        split
        · exact ⟨_, List.mem_singleton.2 rfl, .inr ⟨9, rfl⟩⟩
        · split
          · exact ⟨_, List.mem_singleton.2 rfl, .inr ⟨9, rfl⟩⟩
          · lift_one hv hth
            rw [data2_ret, data2_setCellR, data2_tick]; rfl
      case cellWrite c v =>
        simp only [List.mem_singleton, Prod.mk.injEq] at h
        obtain ⟨_, rfl⟩ := h
        unfold SC.step
        simp only [hn, ho]
        repeat' split
        all_goals first
          | exact ⟨_, List.mem_singleton.2 rfl, .inr ⟨_, rfl⟩⟩
          | (lift_one hv hth
             rw [data2_ret, data2_setCells, data2_tick]; rfl)
      case lock m =>
        simp only [List.mem_singleton, Prod.mk.injEq] at h
        obtain ⟨_, rfl⟩ := h
        unfold SC.step
        simp only [hn, ho]
        lift_one hv hth
        rw [data2_ret, data2_acquire, data2_setMutex, data2_tick]; rfl
      case tryLock m =>
        have e2 : (data2 s).mutex = s.mutex := rfl
        rw [e2] at h
        unfold SC.step
        simp only [hn, ho]
        have e : (s.tick t).mutex = s.mutex := rfl
        rw [e]
        split at h
        · next hm =>
          simp only [List.mem_singleton, Prod.mk.injEq] at h
          obtain ⟨_, rfl⟩ := h
          rw [if_pos hm]
          lift_one hv hth
          rw [data2_ret, data2_acquire, data2_setMutex, data2_tick]
        · next hm =>
          simp only [List.mem_singleton, Prod.mk.injEq] at h
          obtain ⟨_, rfl⟩ := h
          rw [if_neg hm]
          lift_one hv hth
          rw [data2_ret, data2_tick]
      case unlock m =>
        simp only [List.mem_singleton, Prod.mk.injEq] at h
        obtain ⟨_, rfl⟩ := h
        unfold SC.step
        simp only [hn, ho]
        lift_one hv hth
        rw [data2_ret, data2_setMutexRel, data2_tick]; rfl
      case spawn b =>
        simp only [List.mem_singleton, Prod.mk.injEq] at h
        obtain ⟨_, rfl⟩ := h
        unfold SC.step
        simp only [hn, ho]
        lift_one hv hth
        rw [data2_ret, data2_modTh _ _ _ (fun h => { h with started := true }) (fun _ => rfl), data2_tick]
      case join b =>
        simp only [List.mem_singleton, Prod.mk.injEq] at h
        obtain ⟨_, rfl⟩ := h
        unfold SC.step
        simp only [hn, ho]
        lift_one hv hth
        rw [data2_ret, data2_acquire, data2_tick]
      case ifEq i r n =>
        unfold SC.step
        simp only [hn, ho]
        have e1 : (dth2 (s.th t)).rets = (s.th t).rets := rfl
        have e2 : (dth2 (s.th t)).pc = (s.th t).pc := rfl
        rw [e1, e2] at h
        split at h
        · next hc =>
          simp only [List.mem_singleton, Prod.mk.injEq] at h
          obtain ⟨_, rfl⟩ := h
          rw [if_pos hc]
          lift_one hv hth
          exact data2_modTh _ _ _ (fun h => { h with pc := h.pc + 1 }) (fun _ => rfl)
        · next hc =>
          simp only [List.mem_singleton, Prod.mk.injEq] at h
          obtain ⟨_, rfl⟩ := h
          rw [if_neg hc]
          lift_one hv hth
          exact data2_modTh _ _ _ (fun h => { h with pc := h.pc + 1 + n }) (fun _ => rfl)
      case send q v =>
        unfold SC.step
        simp only [hn, ho]
        cases hd : s.rxDropped.getD q false with
        | true =>
          have hd1 : (data2 s).rxDropped.getD q false = true := hd
          have hd2 : (s.tick t).rxDropped.getD q false = true := hd
          rw [if_pos hd1] at h
          simp only [List.mem_singleton, Prod.mk.injEq] at h
          obtain ⟨_, rfl⟩ := h
          rw [if_pos hd2]
          lift_one hv hth
          rw [data2_ret, data2_setChanLeft, data2_tick]; rfl
        | false =>
          have hd1 : ¬ (data2 s).rxDropped.getD q false = true := by
            show ¬ s.rxDropped.getD q false = true
            rw [hd]; simp
          have hd2 : ¬ (s.tick t).rxDropped.getD q false = true := hd1
          rw [if_neg hd1] at h
          simp only [List.mem_singleton, Prod.mk.injEq] at h
          obtain ⟨_, rfl⟩ := h
          rw [if_neg hd2]
          lift_one hv hth
          rw [data2_ret, data2_setChanRel (s.tick t), data2_tick]
          have : (data2 s).chan.getD q [] = ((s.tick t).chan.getD q []).map (·.1) := data2_chan_getD s q
          rw [this]
          simp
      case recv q =>
        unfold SC.step
        simp only [hn, ho]
        cases hc : s.chan.getD q [] with
        | nil =>
          have hc2 : (data2 s).chan.getD q [] = [] := by rw [data2_chan_getD, hc]; rfl
          rw [hc2] at h; simp at h
        | cons m rest =>
          obtain ⟨v, c⟩ := m
          have hc1 : (s.tick t).chan.getD q [] = (v, c) :: rest := hc
          have hc2 : (data2 s).chan.getD q [] = v :: rest.map (·.1) := by rw [data2_chan_getD, hc]; rfl
          rw [hc2] at h
          simp only [List.mem_singleton, Prod.mk.injEq] at h
          obtain ⟨_, rfl⟩ := h
          rw [hc1]
          simp only
          lift_one hv hth
          rw [data2_ret, data2_acquire, data2_setChan (s.tick t), data2_tick]
      case tryRecv q =>
        unfold SC.step
        simp only [hn, ho]
        cases hc : s.chan.getD q [] with
        | nil =>
          have hc1 : (s.tick t).chan.getD q [] = [] := hc
          have hc2 : (data2 s).chan.getD q [] = [] := by rw [data2_chan_getD, hc]; rfl
          rw [hc2] at h
          simp only [List.mem_singleton, Prod.mk.injEq] at h
          obtain ⟨_, rfl⟩ := h
          rw [hc1]
          simp only
          lift_one hv hth
          rw [data2_ret, data2_tick]
        | cons m rest =>
          obtain ⟨v, c⟩ := m
          have hc1 : (s.tick t).chan.getD q [] = (v, c) :: rest := hc
          have hc2 : (data2 s).chan.getD q [] = v :: rest.map (·.1) := by rw [data2_chan_getD, hc]; rfl
          rw [hc2] at h
          simp only [List.mem_singleton, Prod.mk.injEq] at h
          obtain ⟨_, rfl⟩ := h
          rw [hc1]
          simp only
          lift_one hv hth
          rw [data2_ret, data2_acquire, data2_setChan (s.tick t), data2_tick]
      case dropRx q =>
        simp only [List.mem_singleton, Prod.mk.injEq] at h
        obtain ⟨_, rfl⟩ := h
        unfold SC.step
        simp only [hn, ho]
        obtain ⟨f1, f2, f3, f4, f5⟩ := verdict_foldl_acquire ((s.tick t).chan.getD q []) t (s.tick t)
        refine ⟨_, List.mem_singleton.2 rfl, .inl ⟨⟨?_, ?_⟩, ?_⟩⟩
        · show (List.foldl (fun (s : SC.St) (m : Int × VV) => s.acquire t m.2) (s.tick t)
            ((s.tick t).chan.getD q [])).verdict = none
          rw [f1]; exact hv
        · apply FragAll.ret
          refine FragAll.fields rfl ?_
          exact f3 (FragAll.tick hth)
        · rw [data2_ret, data2_setChanDrop, f2, f5, data2_tick]
          rfl
      case nWait n =>
        simp only [List.mem_singleton, Prod.mk.injEq] at h
        obtain ⟨_, rfl⟩ := h
        unfold SC.step
        simp only [hn, ho]
        lift_one hv hth
        rw [data2_ret, data2_acquire, data2_setNFlag, data2_tick]; rfl
      case nNotify n =>
        simp only [List.mem_singleton, Prod.mk.injEq] at h
        obtain ⟨_, rfl⟩ := h
        unfold SC.step
        simp only [hn, ho]
        lift_one hv hth
        rw [data2_ret, data2_setNFlagRel, data2_tick]; rfl
      case park =>
        simp only [List.mem_singleton, Prod.mk.injEq] at h
        obtain ⟨_, rfl⟩ := h
        unfold SC.step
        simp only [hn, ho]
        lift_one hv hth
        rw [data2_ret, data2_modTh _ _ _ (fun h => { h with token := false }) (fun _ => rfl), data2_acquire,
          data2_tick]
      case unpark u =>
        unfold SC.step
        simp only [hn, ho]
        have e : ((s.tick t).th u).finished = (s.th u).finished := by
          unfold SC.St.tick
          rw [st_th_modTh]
          split <;> rfl
        have e2 : ((data2 s).th u).finished = (s.th u).finished := by rw [data2_th]; rfl
        cases hf : (s.th u).finished with
        | true =>
          have hf1 : ((data2 s).th u).finished = true := by rw [e2]; exact hf
          have hf2 : ((s.tick t).th u).finished = true := by rw [e]; exact hf
          rw [if_pos hf1] at h
          simp only [List.mem_singleton, Prod.mk.injEq] at h
          obtain ⟨_, rfl⟩ := h
          rw [if_pos hf2]
          lift_one hv hth
          rw [data2_ret, data2_tick]
        | false =>
          have hf1 : ¬ ((data2 s).th u).finished = true := by rw [e2, hf]; simp
          have hf2 : ¬ ((s.tick t).th u).finished = true := by rw [e, hf]; simp
          rw [if_neg hf1] at h
          simp only [List.mem_singleton, Prod.mk.injEq] at h
          obtain ⟨_, rfl⟩ := h
          rw [if_neg hf2]
          lift_one hv hth
          rw [data2_ret, data2_modTh _ _ _ (fun h => { h with token := true }) (fun _ => rfl), data2_tick]
      case cvWait v m =>
        simp only [List.mem_singleton, Prod.mk.injEq] at h
        obtain ⟨_, rfl⟩ := h
        unfold SC.step
        simp only [hn, ho]
        lift_one hv hth
        rw [data2_modTh _ _ _ (fun h => { h with cvWaiting := some (v, m) }) (fun _ => rfl), data2_setCvWait,
          data2_tick]
        rfl
      case cvOne v =>
        have e2 : (data2 s).cvQueue = s.cvQueue := rfl
        rw [e2] at h
        unfold SC.step
        simp only [hn, ho]
        have e : (s.tick t).cvQueue = s.cvQueue := rfl
        rw [e]
        cases hq : s.cvQueue.getD v [] with
        | nil =>
          rw [hq] at h
          simp only [List.mem_singleton, Prod.mk.injEq] at h
          obtain ⟨_, rfl⟩ := h
          simp only
          lift_one hv hth
          rw [data2_ret, data2_tick]
        | cons w0 rest =>
          rw [hq] at h
          simp only [List.mem_singleton, Prod.mk.injEq] at h
          obtain ⟨_, rfl⟩ := h
          simp only
          lift_one hv hth
          rw [data2_ret, data2_modTh _ _ _ SCData2.notifyTh (fun _ => rfl), data2_setCvQueue, data2_tick]
      case cvAll v =>
        simp only [List.mem_singleton, Prod.mk.injEq] at h
        obtain ⟨_, rfl⟩ := h
        unfold SC.step
        simp only [hn, ho]
        obtain ⟨f1, f2, f3, f4⟩ := data2_foldl_notify ((s.tick t).cvQueue.getD v []) ((s.tick t).vc t) (s.tick t)
        refine ⟨_, List.mem_singleton.2 rfl, .inl ⟨⟨?_, ?_⟩, ?_⟩⟩
        · exact f2.trans hv
        · apply FragAll.ret
          refine FragAll.fields rfl ?_
          exact f3 (FragAll.tick hth)
        · rw [data2_ret, data2_setCvQueue, f1, f4, data2_tick]
          simp only [foldl_modTh_eq]
          rfl

/-- `SCData2.spuriousL` is the data of `SC.spurious` -/
theorem SC.spurious_lift2 {p : Prog} {s : SC.St} {t : Nat} {l : Option (Nat × Ret)} {d' : SCData2}
    (hs : FragSt2 s) (h : (l, d') ∈ SCData2.spuriousL p (data2 s) t) :
    ∃ s', s' ∈ SC.spurious p s t ∧ FragSt2 s' ∧ data2 s' = d' := by
  obtain ⟨hv, hth⟩ := hs
  unfold SCData2.spuriousL at h
  rw [data2_opOf, data2_th] at h
  unfold SC.spurious
  have hvs : s.verdict.isSome = false := by rw [hv]; rfl
  dsimp only at h ⊢
  cases ho : SC.opOf p s t with
  | none => rw [ho] at h; simp at h
  | some op =>
    rw [ho] at h
    cases op
    case nWait n =>
      dsimp only at h ⊢
      by_cases hc : (!(dth2 (s.th t)).started || (dth2 (s.th t)).finished || (dth2 (s.th t)).cvWaiting.isSome ||
          (dth2 (s.th t)).cvNotified.isSome) = true
      · rw [if_pos hc] at h; simp at h
      · rw [if_neg hc] at h
        have hc' : ¬ (s.verdict.isSome || !(s.th t).started || (s.th t).finished || (s.th t).cvWaiting.isSome ||
            (s.th t).cvNotified.isSome) = true := by
          rw [hvs]
          simpa [dth2] using hc
        rw [if_neg hc']
        by_cases hu : (!(data2 s).nSpurUsed.getD n true) = true
        · have hu' : (!s.nSpurUsed.getD n true) = true := hu
          rw [if_pos hu] at h
          simp only [List.mem_singleton, Prod.mk.injEq] at h
          obtain ⟨_, rfl⟩ := h
          rw [if_pos hu']
          refine ⟨_, List.mem_singleton.2 rfl, ⟨hv, by frag_all hth⟩, ?_⟩
          rw [data2_ret, data2_tick, data2_setNSpur]
          rfl
        · rw [if_neg hu] at h; simp at h
    all_goals (simp at h)

/-- executions of the reference semantics proper: every step is a step of an enabled thread (`SC.step`) or a
spurious return (`SC.spurious`) -/
inductive SCExec2 (p : Prog) : SC.St → SC.St → Prop
  | nil (s : SC.St) : SCExec2 p s s
  | step {s s1 s2 : SC.St} {t : Nat} :
      SCExec2 p s s1 → SC.enabled p s1 t = true → s2 ∈ SC.step p s1 t → SCExec2 p s s2
  | spur {s s1 s2 : SC.St} {t : Nat} :
      SCExec2 p s s1 → s2 ∈ SC.spurious p s1 t → SCExec2 p s s2

/-- the operations of a program are all in the fragment -/
def FragProg2 (p : Prog) : Prop :=
  ∀ (a k : Nat) (op : Op), (p.threads.getD a [])[k]? = some op → isFrag2 op = true

theorem WF2.fragProg {p : Prog} (h : WF2 p) : FragProg2 p := by
  intro a k op hop
  have := h.opOk hop
  cases op <;> first | rfl | (simp [Refine2.opOk] at this)

/-- **a run of the data semantics is the data of an execution of `Spec/SC.lean`**, or a prefix of it is an
execution that ends in a data-race verdict -/
theorem Run2.lift {p : Prog} (hp : FragProg2 p) {tr : List (Nat × Nat × Ret)} {d : SCData2}
    (h : SCData2.Run2 p (data2 (SC.init p)) tr d) :
    ∃ s, SCExec2 p (SC.init p) s ∧ ((FragSt2 s ∧ data2 s = d) ∨ ∃ k, s.verdict = some (.race k)) := by
  generalize hd0 : data2 (SC.init p) = d0 at h
  induction h with
  | nil => exact ⟨SC.init p, .nil _, .inl ⟨fragSt2_init p, hd0⟩⟩
  | step hrun hen hst ih =>
    rename_i t _
    obtain ⟨s1, hex, hcase⟩ := ih
    rcases hcase with ⟨hfs, hdata⟩ | hrace
    · subst hdata
      obtain ⟨s2, hmem, hres⟩ := SC.step_lift2 hfs hst
      have hen' : SC.enabled p s1 t = true := by
        rw [SC.enabled_data2 hfs.1 (fun op ho => hp _ _ _ ho)]
        exact hen
      exact ⟨s2, .step hex hen' hmem, hres⟩
    · exact ⟨s1, hex, .inr hrace⟩
  | spur hrun hsp ih =>
    obtain ⟨s1, hex, hcase⟩ := ih
    rcases hcase with ⟨hfs, hdata⟩ | hrace
    · subst hdata
      obtain ⟨s2, hmem, hres⟩ := SC.spurious_lift2 hfs hsp
      exact ⟨s2, .spur hex hmem, .inl hres⟩
    · exact ⟨s1, hex, .inr hrace⟩

end Refine2
end LoomVerif

/-
Refinement, WAIT fragment, part 14: `cvOne v` and `cvAll v`.
-/
import LoomVerif.Proofs.Refine2Cv

namespace LoomVerif
namespace Refine2
open Refine Sy C07 C08

section
variable {w w' : World} {s : SCData2}

theorem sim_cvOne (hR : R2c w s) (hact : w.tid < w.ctl.length) {vi : Nat}
    (hop : opAt2 w = some (.cvOne vi)) (hv : vi < w.prog.cfg.nCondvars)
    (h : w.runOp (w.ctlOf w.tid) (.cvOne vi) = .ok w') : Sim2c w s w' := by
  obtain ⟨_, hrel, hof⟩ := base2 hR hact
  obtain ⟨hN, hC, hD⟩ := plain_pend (c := w.ctlOf w.tid) hop rfl
  obtain ⟨c1, c2⟩ := cv_none hR hact hC
  obtain ⟨ws, hws, hcq, hnd, hmem⟩ := hR.o.cv.q vi hv
  obtain ⟨cs, hcobj, hcws⟩ := objView2_condvar hws
  have hcobj' : w.exec.objs[w.cvObj vi]? = some (.condvar cs) := hcobj
  have hen := enabled_plain2 hR hact hop hC (by simp) (by simp) (by simp) (by simp) (by simp)
  rw [runOp_cvOne] at h
  split at h
  · obtain ⟨hqt, hc, _⟩ := branch_quiet2 h
    exact sim_stage (k := 1) hR hact hop (by simp) hC (Nat.le_refl _) (by omega) (quiet2_setStage hqt) hc
  · simp only [getCv_of hcobj', bind, Except.bind, pure, Except.pure] at h
    split at h
    · next hw0 =>
      -- nobody waits
      cases h
      have hwse : ws = [] := by rw [← hcws]; exact hw0
      subst hwse
      have hR' := R2c_complete (s := s) (d := s) (w0 := w) hR hact hop rfl rfl rfl rfl rfl rfl rfl hR.o .unit
      refine ⟨rfl, hR'.2, .inr ⟨some ((s.th (w.ctlOf w.tid).body).pc, .unit), s.ret (w.ctlOf w.tid).body .unit,
        .inl ⟨hen, ?_⟩, hR'.1, ?_⟩⟩
      · unfold SCData2.stepL
        simp only [c2, hof, hop]
        rw [hcq]
        simp
      · rw [events_complete2, hrel.2.1]
        rfl
    · next t0 rest hw0 =>
      cases h
      have hwse : ws = t0 :: rest := by rw [← hcws]; exact hw0
      subst hwse
      have ht0 : t0 < w.ctl.length := (hmem t0 List.mem_cons_self).1
      let b0 := (w.ctl.getD t0 {}).body
      let rest' := rest.map fun i => (w.ctl.getD i {}).body
      let d : SCData2 := ({ s with cvQueue := s.cvQueue.set vi rest' }).modTh b0 SCData2.notifyTh
      let w0 : World := (w.setObj (w.cvObj vi) (.condvar { cs with waiters := rest })).setThs
        ((w.setObj (w.cvObj vi) (.condvar { cs with waiters := rest })).ths.wake t0)
      have hRO : RO w.prog (w.ctl.modify w.tid (completeF .unit)) w.spawned
          (w.exec.objs.set (cvIdx w.prog vi) (.condvar { cs with waiters := rest })) w.notifyWaiting
          (d.ret (w.ctlOf w.tid).body .unit) := by
        refine ⟨?_, ?_, ?_, ?_⟩
        · exact (hR.o.y.setOther hws _ (by intro _ e; cases e) (by intro _ e; cases e)
            (by intro _ _ e; cases e)).modify w.tid _ rfl id
        · exact (hR.o.ch.setOther hws _ (by intro _ _ e; cases e)).modify w.tid _ rfl (Nat.le_succ _)
            (by intro q hq; rw [show w.ctl.getD w.tid {} = w.ctlOf w.tid from rfl, hD] at hq; cases hq)
        · exact (hR.o.n.setOther hws _ (by intro _ _ e; cases e)).modify w.tid _
            ((pendN_stage0 _ _ rfl).trans hN.symm)
        · exact ((hR.o.cv.dequeue hR.x.inj (hbl_of hR) hv hws (.condvar { cs with waiters := rest }) rfl).modifyPlain
            w.tid _ rfl hC (pendCv_stage0 _ _ rfl)).same
            (CvSame.modify _ (w.ctlOf w.tid).body
              (fun h => { h with rets := (h.pc, Ret.unit) :: h.rets, pc := h.pc + 1 }) fun _ => ⟨rfl, rfl⟩)
      have hR' := R2c_complete'' (s := s) (d := d) (w0 := w0) hR hact hop rfl
        (by show (Threads.wake _ t0).activeId = _; rw [wake_activeId]; rfl) rfl rfl
        (by show (Threads.wake _ t0).threads.length = _; rw [wake_length]; rfl)
        (hR.x.modRef ht0 SCData2.notifyTh (fun _ => ⟨rfl, rfl, rfl, rfl⟩)) .unit hRO
      refine ⟨rfl, hR'.2, .inr ⟨some ((s.th (w.ctlOf w.tid).body).pc, .unit), d.ret (w.ctlOf w.tid).body .unit,
        .inl ⟨hen, ?_⟩, hR'.1, ?_⟩⟩
      · unfold SCData2.stepL
        simp only [c2, hof, hop]
        rw [hcq]
        simp [d, b0, rest']
      · rw [events_complete2]
        show ((w.ctlOf (Threads.wake _ t0).activeId).body, (w.ctlOf (Threads.wake _ t0).activeId).pc, Ret.unit) ::
          w.events.map triple = _
        rw [wake_activeId, hrel.2.1]
        rfl

theorem sim_cvAll (hR : R2c w s) (hact : w.tid < w.ctl.length) {vi : Nat}
    (hop : opAt2 w = some (.cvAll vi)) (hv : vi < w.prog.cfg.nCondvars)
    (h : w.runOp (w.ctlOf w.tid) (.cvAll vi) = .ok w') : Sim2c w s w' := by
  obtain ⟨_, hrel, hof⟩ := base2 hR hact
  obtain ⟨hN, hC, hD⟩ := plain_pend (c := w.ctlOf w.tid) hop rfl
  obtain ⟨c1, c2⟩ := cv_none hR hact hC
  obtain ⟨ws, hws, hcq, hnd, hmem⟩ := hR.o.cv.q vi hv
  obtain ⟨cs, hcobj, hcws⟩ := objView2_condvar hws
  have hcobj' : w.exec.objs[w.cvObj vi]? = some (.condvar cs) := hcobj
  have hen := enabled_plain2 hR hact hop hC (by simp) (by simp) (by simp) (by simp) (by simp)
  rw [runOp_cvAll] at h
  split at h
  · obtain ⟨hqt, hc, _⟩ := branch_quiet2 h
    exact sim_stage (k := 1) hR hact hop (by simp) hC (Nat.le_refl _) (by omega) (quiet2_setStage hqt) hc
  · simp only [getCv_of hcobj', bind, Except.bind, pure, Except.pure] at h
    cases h
    let bs := ws.map fun i => (w.ctl.getD i {}).body
    let ths' := bs.foldl (fun ths b => ths.modify b SCData2.notifyTh) s.ths
    let d : SCData2 := { s with ths := ths', cvQueue := s.cvQueue.set vi [] }
    let T : Threads := cs.waiters.foldl (fun ths t => ths.wake t)
        (w.setObj (w.cvObj vi) (.condvar { cs with waiters := [] })).ths
    let w0 : World := (w.setObj (w.cvObj vi) (.condvar { cs with waiters := [] })).setThs T
    have hRO : RO w.prog (w.ctl.modify w.tid (completeF .unit)) w.spawned
        (w.exec.objs.set (cvIdx w.prog vi) (.condvar { cs with waiters := [] })) w.notifyWaiting
        (d.ret (w.ctlOf w.tid).body .unit) := by
      refine ⟨?_, ?_, ?_, ?_⟩
      · exact (hR.o.y.setOther hws _ (by intro _ e; cases e) (by intro _ e; cases e)
          (by intro _ _ e; cases e)).modify w.tid _ rfl id
      · exact (hR.o.ch.setOther hws _ (by intro _ _ e; cases e)).modify w.tid _ rfl (Nat.le_succ _)
          (by intro q hq; rw [show w.ctl.getD w.tid {} = w.ctlOf w.tid from rfl, hD] at hq; cases hq)
      · exact (hR.o.n.setOther hws _ (by intro _ _ e; cases e)).modify w.tid _
          ((pendN_stage0 _ _ rfl).trans hN.symm)
      · exact ((RCv.dequeueAll hR.x.inj hv ws _ _ _ hR.o.cv (hbl_of hR) hws
            (.condvar { cs with waiters := [] }) rfl).modifyPlain
          w.tid _ rfl hC (pendCv_stage0 _ _ rfl)).same
          (CvSame.modify _ (w.ctlOf w.tid).body
            (fun h => { h with rets := (h.pc, Ret.unit) :: h.rets, pc := h.pc + 1 }) fun _ => ⟨rfl, rfl⟩)
    have hfw := foldl_wake_len cs.waiters (w.setObj (w.cvObj vi) (.condvar { cs with waiters := [] })).ths
    have hR' := R2c_complete'' (s := s) (d := d) (w0 := w0) hR hact hop rfl
      (by show T.activeId = _; rw [hfw.2]; rfl) rfl rfl
      (by show T.threads.length = _; rw [hfw.1]; rfl)
      (RX2.modRefAll SCData2.notifyTh (fun _ => ⟨rfl, rfl, rfl, rfl⟩) ws _ hR.x (fun i hi => (hmem i hi).1))
      .unit hRO
    refine ⟨rfl, hR'.2, .inr ⟨some ((s.th (w.ctlOf w.tid).body).pc, .unit), d.ret (w.ctlOf w.tid).body .unit,
      .inl ⟨hen, ?_⟩, hR'.1, ?_⟩⟩
    · unfold SCData2.stepL
      simp only [c2, hof, hop]
      rw [hcq, foldl_modTh]
      simp [d, ths', bs]
    · rw [events_complete2]
      show ((w.ctlOf T.activeId).body, (w.ctlOf T.activeId).pc, Ret.unit) :: w.events.map triple = _
      rw [hfw.2]
      show ((w.ctlOf w.tid).body, (w.ctlOf w.tid).pc, Ret.unit) :: w.events.map triple = _
      rw [hrel.2.1]
      rfl

end

end Refine2
end LoomVerif

/-
Part A of C14: what `Entry.advance` and `Path.step` do.
-/
import LoomVerif.Proofs.PathDefs

namespace LoomVerif

/-! ### `Sched.advance` -/

namespace Sched

/-- thread states after the first half of `advance` (active thread marked visited) -/
def mid (s : Sched) : List ThSt :=
  match s.activeIdx with
  | some a => s.threads.set a .visited
  | none => s.threads

theorem advance_eq (s : Sched) :
    s.advance = (findIdx? ThSt.isPending s.mid).map
      (fun i => { s with threads := s.mid.set i .active }) := by
  have hmid : (setFirst? ThSt.isActive .visited s.threads).getD s.threads = s.mid := by
    rw [setFirst?_eq, mid, activeIdx]
    cases findIdx? ThSt.isActive s.threads <;> rfl
  show (setFirst? ThSt.isPending .active
      ((setFirst? ThSt.isActive .visited s.threads).getD s.threads)).map _ = _
  rw [hmid, setFirst?_eq, Option.map_map]
  rfl

theorem mid_length (s : Sched) : s.mid.length = s.threads.length := by
  unfold mid; split <;> simp

theorem mid_visited (s : Sched) (j : Nat) (h : s.threads[j]? = some .visited) :
    s.mid[j]? = some .visited := by
  unfold mid; split
  · rename_i a _
    rw [List.getElem?_set]
    split
    · have : j < s.threads.length := by
        rcases Nat.lt_or_ge j s.threads.length with h' | h'
        · exact h'
        · rw [List.getElem?_eq_none h'] at h; cases h
      subst_vars; simp [this]
    · exact h
  · exact h

theorem mid_active (s : Sched) (a : Nat) (h : s.activeIdx = some a) :
    s.mid[a]? = some .visited := by
  have hlt : a < s.threads.length := findIdx?_lt h
  unfold mid; rw [h]; simp [hlt]

/-- nothing but the active thread becomes visited in the first half -/
theorem mid_visited_inv (s : Sched) (j : Nat) (h : s.mid[j]? = some .visited) :
    s.threads[j]? = some .visited ∨ s.activeIdx = some j := by
  unfold mid at h; split at h
  · rename_i a ha
    rw [List.getElem?_set] at h
    split at h
    · subst_vars; exact Or.inr ha
    · exact Or.inl h
  · exact Or.inl h

theorem mid_open (s : Sched) : s.mid.countP ThSt.isOpen = s.threads.countP ThSt.isOpen := by
  unfold mid; split
  · rename_i a ha
    obtain ⟨hlt, hact, _⟩ := (findIdx?_eq_some _ _ _).1 ha
    apply countP_set_same _ _ _ _ hlt
    revert hact; cases s.threads[a] <;> simp [ThSt.isActive, ThSt.isOpen]
  · rfl

theorem mid_pending (s : Sched) :
    findIdx? ThSt.isPending s.mid = findIdx? ThSt.isPending s.threads := by
  unfold mid; split
  · rename_i a ha
    obtain ⟨hlt, hact, _⟩ := (findIdx?_eq_some _ _ _).1 ha
    have h1 : ∀ l : List ThSt, findIdx? ThSt.isPending l = findIdx? id (l.map ThSt.isPending) := by
      intro l; rw [findIdx?_map]; rfl
    rw [h1, h1 s.threads, List.map_set]
    congr 1
    have : ThSt.isPending .visited = (s.threads.map ThSt.isPending)[a]'(by simpa using hlt) := by
      revert hact; simp only [List.getElem_map]
      cases s.threads[a] <;> simp [ThSt.isActive, ThSt.isPending]
    rw [this, List.set_getElem_self]
  · rfl

theorem mid_noActive (s : Sched) (h : s.activeCount ≤ 1) : s.mid.countP ThSt.isActive = 0 := by
  unfold mid; split
  · rename_i a ha
    obtain ⟨hlt, hact, _⟩ := (findIdx?_eq_some _ _ _).1 ha
    have := countP_set_drop ThSt.isActive s.threads a .visited hlt hact rfl
    unfold activeCount at h; omega
  · rename_i ha
    rw [List.countP_eq_zero]
    intro x hx
    have := (findIdx?_eq_none _ _).1 ha x hx
    simp [this]

/-- the shape of a successful `advance`: `i` is the first pending thread -/
theorem advance_some {s s' : Sched} (h : s.advance = some s') :
    ∃ i, findIdx? ThSt.isPending s.mid = some i ∧ s' = { s with threads := s.mid.set i .active } := by
  rw [advance_eq] at h
  cases hi : findIdx? ThSt.isPending s.mid with
  | none => rw [hi] at h; cases h
  | some i => rw [hi] at h; exact ⟨i, rfl, by cases h; rfl⟩

theorem advance_none {s : Sched} : s.advance = none ↔ findIdx? ThSt.isPending s.threads = none := by
  rw [advance_eq, ← mid_pending]; simp

theorem advance_activeIdx_isSome {s s' : Sched} (h : s.advance = some s') :
    s'.activeIdx.isSome = true := by
  obtain ⟨i, hi, rfl⟩ := advance_some h
  have hlt : i < s.mid.length := findIdx?_lt hi
  cases hn : activeIdx { s with threads := s.mid.set i .active } with
  | some _ => rfl
  | none =>
    have := (findIdx?_eq_none _ _).1 hn .active
      (by simp only; exact List.mem_iff_getElem.2 ⟨i, by simpa using hlt, by simp⟩)
    cases this

theorem advance_visited {s s' : Sched} (h : s.advance = some s') (j : Nat)
    (hj : s.threads[j]? = some .visited ∨ s.activeIdx = some j) :
    s'.threads[j]? = some .visited := by
  obtain ⟨i, hi, rfl⟩ := advance_some h
  obtain ⟨hlt, hp, _⟩ := (findIdx?_eq_some _ _ _).1 hi
  have hm : s.mid[j]? = some .visited := by
    rcases hj with hj | hj
    · exact mid_visited s j hj
    · exact mid_active s j hj
  simp only
  rw [List.getElem?_set]
  split
  · subst_vars
    rw [List.getElem?_eq_getElem hlt] at hm
    rw [Option.some.inj hm] at hp; cases hp
  · exact hm

theorem advance_visited_inv {s s' : Sched} (h : s.advance = some s') (j : Nat)
    (hj : s'.threads[j]? = some .visited) :
    s.threads[j]? = some .visited ∨ s.activeIdx = some j := by
  obtain ⟨i, hi, rfl⟩ := advance_some h
  simp only at hj
  rw [List.getElem?_set] at hj
  split at hj
  · split at hj <;> cases hj
  · exact mid_visited_inv s j hj

theorem advance_open {s s' : Sched} (h : s.advance = some s') :
    s'.openCount + 1 = s.openCount := by
  obtain ⟨i, hi, rfl⟩ := advance_some h
  obtain ⟨hlt, hp, _⟩ := (findIdx?_eq_some _ _ _).1 hi
  unfold openCount
  rw [← mid_open s]
  apply countP_set_drop _ _ _ _ hlt _ rfl
  revert hp; cases s.mid[i] <;> simp [ThSt.isPending, ThSt.isOpen]

theorem advance_fields {s s' : Sched} (h : s.advance = some s') :
    s'.exploring = s.exploring ∧ s'.prev = s.prev ∧ s'.preemptions = s.preemptions ∧
      s'.initialActive = s.initialActive := by
  obtain ⟨i, _, rfl⟩ := advance_some h
  exact ⟨rfl, rfl, rfl, rfl⟩

theorem advance_wf {s s' : Sched} (h : s.advance = some s') (hw : s.WF) : s'.WF := by
  obtain ⟨i, hi, rfl⟩ := advance_some h
  constructor
  · simp [mid_length, hw.len]
  · have h0 := mid_noActive s hw.oneActive
    have := countP_set_le ThSt.isActive s.mid i .active
    unfold activeCount; simp only; omega

/-- with at most one active thread, the thread scheduled next is the first pending one -/
theorem advance_activeIdx {s s' : Sched} (h : s.advance = some s') (hw : s.activeCount ≤ 1) :
    s'.activeIdx = findIdx? ThSt.isPending s.threads := by
  obtain ⟨i, hi, rfl⟩ := advance_some h
  rw [← mid_pending, hi]
  obtain ⟨hlt, hp, _⟩ := (findIdx?_eq_some _ _ _).1 hi
  have h0 := mid_noActive s hw
  rw [List.countP_eq_zero] at h0
  unfold activeIdx
  rw [findIdx?_eq_some]
  refine ⟨by simpa using hlt, by simp [ThSt.isActive], ?_⟩
  intro j hj
  have hjl : j < s.mid.length := by omega
  have : (s.mid.set i .active)[j]'(by simpa using hjl) = s.mid[j] := by
    rw [List.getElem_set]; simp; omega
  simp only [this]
  have := h0 s.mid[j] (List.getElem_mem hjl)
  simpa using this

end Sched

/-! ### `Entry.advance` -/

namespace Entry

theorem mem_visitedIdx (s : Sched) (j : Nat) :
    j ∈ s.visitedIdx ↔ s.threads[j]? = some .visited := by
  unfold Sched.visitedIdx
  rw [mem_idxsOf]
  constructor
  · rintro ⟨a, ha, hv⟩; cases a <;> first | exact ha | cases hv
  · intro h; exact ⟨_, h, rfl⟩

/-- a well-formed entry's current decision is not among the excluded ones -/
theorem dec_not_mem_excl {e : Entry} (hw : e.WF) : e.dec ∉ e.excl := by
  cases e with
  | sched s =>
    have hw : s.WF := hw
    simp only [dec, excl]
    cases ha : s.activeIdx with
    | none =>
      simp only [Option.getD_none, Option.isSome_none, Bool.false_eq_true, if_false,
        mem_visitedIdx]
      rw [List.getElem?_eq_none (by rw [hw.len]; exact Nat.le_refl _)]
      simp
    | some a =>
      obtain ⟨hlt, hact, _⟩ := (findIdx?_eq_some _ _ _).1 ha
      simp only [Option.getD_some, Option.isSome_some, if_true, List.mem_cons, mem_visitedIdx]
      rintro (h | h)
      · rw [hw.len] at hlt; omega
      · rw [List.getElem?_eq_getElem hlt] at h
        rw [Option.some.inj h] at hact; cases hact
  | load l => simp [dec, excl, tried]
  | spur p => cases p with | mk sp ex => cases sp <;> simp [dec, excl, tried]

theorem dec_not_mem_tried {e : Entry} (hw : e.WF) : e.dec ∉ e.tried :=
  fun h => dec_not_mem_excl hw (tried_subset_excl e _ h)

/-- shape of `advance` on a schedule entry -/
theorem advance_sched {s : Sched} {e' : Entry} (h : (sched s).advance = some e') :
    s.exploring = true ∧ ∃ s', s.advance = some s' ∧ e' = sched s' := by
  simp only [advance] at h
  split at h
  · rename_i hx
    cases hs : s.advance with
    | none => rw [hs] at h; cases h
    | some s' => rw [hs] at h; cases h; exact ⟨hx, s', rfl, rfl⟩
  · cases h

theorem advance_load {l : Load} {e' : Entry} (h : (load l).advance = some e') :
    l.exploring = true ∧ l.pos + 1 < l.len ∧ e' = load { l with pos := l.pos + 1 } := by
  simp only [advance] at h
  split at h
  · split at h
    · cases h; exact ⟨by assumption, by assumption, rfl⟩
    · cases h
  · cases h

theorem advance_spur {p : Spur} {e' : Entry} (h : (spur p).advance = some e') :
    p.exploring = true ∧ p.spur = false ∧ e' = spur { p with spur := true } := by
  simp only [advance] at h
  split at h
  · split at h
    · cases h; rename_i h1 h2; exact ⟨h1, by simpa using h2, rfl⟩
    · cases h
  · cases h

/-- an entry that can be advanced is exploring -/
theorem advance_exploring {e e' : Entry} (h : e.advance = some e') : e.exploring = true := by
  cases e with
  | sched s => exact (advance_sched h).1
  | load l => exact (advance_load h).1
  | spur p => exact (advance_spur h).1

theorem advance_kind {e e' : Entry} (h : e.advance = some e') : e'.kind = e.kind := by
  cases e with
  | sched s => obtain ⟨_, s', _, rfl⟩ := advance_sched h; rfl
  | load l => obtain ⟨_, _, rfl⟩ := advance_load h; rfl
  | spur p => obtain ⟨_, _, rfl⟩ := advance_spur h; rfl

theorem advance_exploring_eq {e e' : Entry} (h : e.advance = some e') :
    e'.exploring = e.exploring := by
  cases e with
  | sched s =>
    obtain ⟨_, s', hs, rfl⟩ := advance_sched h
    exact (Sched.advance_fields hs).1
  | load l => obtain ⟨_, _, rfl⟩ := advance_load h; rfl
  | spur p => obtain ⟨_, _, rfl⟩ := advance_spur h; rfl

theorem advance_wf {e e' : Entry} (h : e.advance = some e') (hw : e.WF) : e'.WF := by
  cases e with
  | sched s =>
    obtain ⟨_, s', hs, rfl⟩ := advance_sched h
    exact Sched.advance_wf hs hw
  | load l =>
    obtain ⟨_, hlt, rfl⟩ := advance_load h
    have hw : l.WF := hw
    exact ⟨hw.len, Or.inl hlt⟩
  | spur p => obtain ⟨_, _, rfl⟩ := advance_spur h; trivial

/-- the old decision and everything excluded before are excluded afterwards -/
theorem advance_excl {e e' : Entry} (h : e.advance = some e') :
    ∀ d, d = e.dec ∨ d ∈ e.excl → d ∈ e'.excl := by
  intro d hd
  cases e with
  | sched s =>
    obtain ⟨_, s', hs, rfl⟩ := advance_sched h
    have hsome := Sched.advance_activeIdx_isSome hs
    simp only [excl, hsome, if_true, List.mem_cons, mem_visitedIdx]
    simp only [dec, excl] at hd
    cases ha : s.activeIdx with
    | none =>
      simp only [ha, Option.getD_none, Option.isSome_none, Bool.false_eq_true, if_false,
        mem_visitedIdx] at hd
      rcases hd with hd | hd
      · exact Or.inl hd
      · exact Or.inr (Sched.advance_visited hs d (Or.inl hd))
    | some a =>
      simp only [ha, Option.getD_some, Option.isSome_some, if_true, List.mem_cons,
        mem_visitedIdx] at hd
      rcases hd with rfl | hd | hd
      · exact Or.inr (Sched.advance_visited hs d (Or.inr ha))
      · exact Or.inl hd
      · exact Or.inr (Sched.advance_visited hs d (Or.inl hd))
  | load l =>
    obtain ⟨_, _, rfl⟩ := advance_load h
    simp only [dec, excl, tried, List.mem_range] at hd ⊢
    omega
  | spur p =>
    obtain ⟨_, hsp, rfl⟩ := advance_spur h
    simp only [dec, excl, tried, hsp] at hd ⊢
    simpa using hd

/-- exhausted alternatives only grow -/
theorem advance_tried_mono {e e' : Entry} (h : e.advance = some e') :
    ∀ d, d ∈ e.tried → d ∈ e'.tried := by
  intro d hd
  cases e with
  | sched s =>
    obtain ⟨_, s', hs, rfl⟩ := advance_sched h
    simp only [tried, mem_visitedIdx] at hd ⊢
    exact Sched.advance_visited hs d (Or.inl hd)
  | load l =>
    obtain ⟨_, _, rfl⟩ := advance_load h
    simp only [tried, List.mem_range] at hd ⊢
    omega
  | spur p =>
    obtain ⟨_, hsp, rfl⟩ := advance_spur h
    simp [tried, hsp] at hd

/-- the decision that was current becomes exhausted (for a schedule: provided a thread was
active) -/
theorem advance_dec_tried {e e' : Entry} (h : e.advance = some e')
    (hact : ∀ s, e = sched s → s.activeIdx.isSome = true) : e.dec ∈ e'.tried := by
  cases e with
  | sched s =>
    obtain ⟨_, s', hs, rfl⟩ := advance_sched h
    have := hact s rfl
    cases ha : s.activeIdx with
    | none => rw [ha] at this; cases this
    | some a =>
      simp only [tried, dec, ha, Option.getD_some, mem_visitedIdx]
      exact Sched.advance_visited hs a (Or.inr ha)
  | load l =>
    obtain ⟨_, _, rfl⟩ := advance_load h
    simp [tried, dec]
  | spur p =>
    obtain ⟨_, hsp, rfl⟩ := advance_spur h
    simp [tried, dec, hsp]

/-- nothing but the decision that was current becomes exhausted -/
theorem advance_tried_inv {e e' : Entry} (h : e.advance = some e') :
    ∀ d, d ∈ e'.tried → d = e.dec ∨ d ∈ e.tried := by
  intro d hd
  cases e with
  | sched s =>
    obtain ⟨_, s', hs, rfl⟩ := advance_sched h
    simp only [tried, mem_visitedIdx] at hd ⊢
    rcases Sched.advance_visited_inv hs d hd with h1 | h1
    · exact Or.inr h1
    · exact Or.inl (by simp [dec, h1])
  | load l =>
    obtain ⟨_, _, rfl⟩ := advance_load h
    simp only [tried, dec, List.mem_range] at hd ⊢
    omega
  | spur p =>
    obtain ⟨_, hsp, rfl⟩ := advance_spur h
    simp only [tried, dec, hsp] at hd ⊢
    simpa using hd

/-- `advance` consumes exactly one open alternative -/
theorem advance_alt {e e' : Entry} (h : e.advance = some e') : e'.alt + 1 = e.alt := by
  cases e with
  | sched s =>
    obtain ⟨hx, s', hs, rfl⟩ := advance_sched h
    have := Sched.advance_open hs
    simp only [alt, (Sched.advance_fields hs).1, hx, if_true]
    exact this
  | load l =>
    obtain ⟨hx, hlt, rfl⟩ := advance_load h
    simp only [alt, hx, if_true]
    omega
  | spur p =>
    obtain ⟨hx, hsp, rfl⟩ := advance_spur h
    simp [alt, hx, hsp]

/-- the new decision differs from the old one and from every decision excluded before -/
theorem advance_dec_new {e e' : Entry} (h : e.advance = some e') (hw : e.WF) :
    e'.dec ≠ e.dec ∧ e'.dec ∉ e.excl ∧ e'.dec ∉ e.tried ∧ e'.dec ∉ e'.excl := by
  have hw' := advance_wf h hw
  have hn := dec_not_mem_excl hw'
  refine ⟨?_, ?_, ?_, hn⟩
  · intro heq; exact hn (advance_excl h _ (Or.inl heq))
  · intro hm; exact hn (advance_excl h _ (Or.inr hm))
  · intro hm; exact hn (advance_excl h _ (Or.inr (tried_subset_excl _ _ hm)))

/-- for a well-formed schedule the new decision is the leftmost pending thread -/
theorem advance_sched_dec {s s' : Sched} (h : s.advance = some s') (hw : s.WF) :
    (sched s').dec = (findIdx? ThSt.isPending s.threads).getD NT := by
  simp only [dec, Sched.advance_activeIdx h hw.oneActive]

end Entry

/-! ### `Path.step` -/

namespace Path

theorem stepR_eq_none (r : List Entry) : stepR r = none ↔ ∀ e ∈ r, e.advance = none := by
  induction r with
  | nil => simp [stepR]
  | cons e rest ih =>
    simp only [stepR]
    cases he : e.advance with
    | none => simp [ih, he]
    | some e' => simp [he]

theorem stepR_eq_some (r r' : List Entry) :
    stepR r = some r' ↔ ∃ suf e e' rest, r = suf ++ e :: rest ∧
      (∀ x ∈ suf, x.advance = none) ∧ e.advance = some e' ∧ r' = e' :: rest := by
  induction r with
  | nil => simp [stepR]
  | cons x xs ih =>
    simp only [stepR]
    cases hx : x.advance with
    | some x' =>
      simp only [Option.some.injEq]
      constructor
      · rintro rfl; exact ⟨[], x, x', xs, rfl, by simp, hx, rfl⟩
      · rintro ⟨suf, e, e', rest, h1, h2, h3, rfl⟩
        cases suf with
        | nil =>
          simp only [List.nil_append, List.cons.injEq] at h1
          obtain ⟨rfl, rfl⟩ := h1
          rw [hx] at h3; cases h3; rfl
        | cons y ys =>
          simp only [List.cons_append, List.cons.injEq] at h1
          obtain ⟨rfl, _⟩ := h1
          have := h2 x (by simp)
          rw [hx] at this; cases this
    | none =>
      simp only
      rw [ih]
      constructor
      · rintro ⟨suf, e, e', rest, rfl, h2, h3, rfl⟩
        refine ⟨x :: suf, e, e', rest, rfl, ?_, h3, rfl⟩
        intro y hy
        rcases List.mem_cons.1 hy with rfl | hy
        · exact hx
        · exact h2 y hy
      · rintro ⟨suf, e, e', rest, h1, h2, h3, rfl⟩
        cases suf with
        | nil =>
          simp only [List.nil_append, List.cons.injEq] at h1
          obtain ⟨rfl, rfl⟩ := h1
          rw [hx] at h3; cases h3
        | cons y ys =>
          simp only [List.cons_append, List.cons.injEq] at h1
          obtain ⟨rfl, rfl⟩ := h1
          exact ⟨ys, e, e', rest, rfl, fun z hz => h2 z (by simp [hz]), h3, rfl⟩

/-- the path produced by `step` when entry `e'` replaces the entry after the prefix `pre` -/
def restart (q : Path) (bs : List Entry) : Path :=
  { q with pos := 0, exploring := q.exploringOnStart, skipping := false, branches := bs }

/-- `step` pops the deepest entries that cannot be advanced and advances the one below. -/
theorem step_eq_some (q p' : Path) :
    q.step = some p' ↔ ∃ pre e suf e', q.branches = pre ++ e :: suf ∧
      e.advance = some e' ∧ (∀ x ∈ suf, x.advance = none) ∧ p' = q.restart (pre ++ [e']) := by
  unfold step
  rw [Option.map_eq_some_iff]
  constructor
  · rintro ⟨r, hr, rfl⟩
    obtain ⟨suf, e, e', rest, h1, h2, h3, rfl⟩ := (stepR_eq_some _ _).1 hr
    refine ⟨rest.reverse, e, suf.reverse, e', ?_, h3, ?_, ?_⟩
    · have := congrArg List.reverse h1
      simpa using this
    · intro x hx; exact h2 x (by simpa using hx)
    · simp [restart]
  · rintro ⟨pre, e, suf, e', h1, h2, h3, rfl⟩
    refine ⟨e' :: pre.reverse, ?_, by simp [restart]⟩
    rw [stepR_eq_some]
    refine ⟨suf.reverse, e, e', pre.reverse, by simp [h1], ?_, h2, rfl⟩
    intro x hx; exact h3 x (by simpa using hx)

theorem step_eq_none (q : Path) : q.step = none ↔ ∀ e ∈ q.branches, e.advance = none := by
  unfold step
  rw [Option.map_eq_none_iff, stepR_eq_none]
  simp

/-- index form of `step_eq_some`: `m` is the deepest index whose entry can be advanced -/
theorem step_eq_some_idx (q p' : Path) :
    q.step = some p' ↔ ∃ (m : Nat) (hm : m < q.branches.length) (e' : Entry),
      q.branches[m].advance = some e' ∧
      (∀ j (hj : j < q.branches.length), m < j → q.branches[j].advance = none) ∧
      p' = q.restart (q.branches.take m ++ [e']) := by
  rw [step_eq_some]
  constructor
  · rintro ⟨pre, e, suf, e', h1, h2, h3, rfl⟩
    refine ⟨pre.length, by simp [h1], e', by simp [h1, h2], ?_, by simp [h1]⟩
    intro j hj hmj
    apply h3
    have : q.branches[j] = suf[j - pre.length - 1]'(by simp [h1] at hj; omega) := by
      simp only [h1]
      rw [List.getElem_append_right (by omega)]
      rw [List.getElem_cons]
      simp [show ¬ j - pre.length = 0 by omega]
    rw [this]; exact List.getElem_mem _
  · rintro ⟨m, hm, e', h1, h2, rfl⟩
    refine ⟨q.branches.take m, q.branches[m], q.branches.drop (m + 1), e', ?_, h1, ?_, rfl⟩
    · simp
    · intro x hx
      obtain ⟨k, hk, rfl⟩ := List.mem_iff_getElem.1 hx
      simp only [List.getElem_drop]
      exact h2 _ _ (by omega)

end Path
end LoomVerif

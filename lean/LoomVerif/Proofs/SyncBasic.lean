/-
C07/C08, shared layer: normal forms of the `World` helpers used by the lock and wait operations
(`forOthers`, `setObj`, `syncLoad`, `syncStore`) and the clock facts about `Sync.load`/`Sync.store`.
-/
import LoomVerif.Model.Interp
import LoomVerif.Proofs.C12VV

namespace LoomVerif
namespace Sy
open C12

/-! ### lists -/

theorem mapIdx_modify {α β} (l : List α) (a : Nat) (g : α → α) (F : Nat → α → β) :
    (l.modify a g).mapIdx F = l.mapIdx fun i x => if i = a then F i (g x) else F i x := by
  apply List.ext_getElem?
  intro i
  simp only [List.getElem?_mapIdx, List.getElem?_modify]
  cases l[i]? with
  | none => simp
  | some v =>
    by_cases h : a = i
    · subst h; simp
    · have h' : ¬ i = a := fun e => h e.symm
      simp [h, h']

theorem mapIdx_congr' {α β} (l : List α) (F G : Nat → α → β) (h : ∀ i x, F i x = G i x) :
    l.mapIdx F = l.mapIdx G := by
  have : F = G := by funext i x; exact h i x
  rw [this]

theorem mapIdx_congr_get {α β} (l : List α) (F G : Nat → α → β)
    (h : ∀ i x, l[i]? = some x → F i x = G i x) : l.mapIdx F = l.mapIdx G := by
  apply List.ext_getElem?
  intro i
  simp only [List.getElem?_mapIdx]
  cases hx : l[i]? with
  | none => rfl
  | some x => simp [h i x hx]

/-- pointwise reading of a thread table given by `mapIdx` -/
theorem getD_mapIdx {α} (l : List α) (F : Nat → α → α) (i : Nat) (d : α) (h : i < l.length) :
    (l.mapIdx F).getD i d = F i (l.getD i d) := by
  simp [List.getD, List.getElem?_mapIdx, List.getElem?_eq_getElem h]

theorem set_self_of_getElem? {α} (l : List α) (i : Nat) (x : α) (h : l[i]? = some x) :
    l.set i x = l := by
  apply List.ext_getElem?
  intro j
  by_cases hj : i = j
  · subst hj
    have : i < l.length := by
      rcases Nat.lt_or_ge i l.length with hlt | hge
      · exact hlt
      · rw [List.getElem?_eq_none hge] at h; cases h
    rw [List.getElem?_eq_getElem this] at h
    simp [this]; cases h; rfl
  · simp [hj]

theorem getElem?_set_self' {α} (l : List α) (i : Nat) (x y : α) (h : l[i]? = some y) :
    (l.set i x)[i]? = some x := by
  have : i < l.length := by
    rcases Nat.lt_or_ge i l.length with hlt | hge
    · exact hlt
    · rw [List.getElem?_eq_none hge] at h; cases h
  simp [this]

theorem getElem?_set_ne' {α} (l : List α) (i j : Nat) (x : α) (h : j ≠ i) :
    (l.set i x)[j]? = l[j]? := by
  have : ¬ i = j := fun e => h e.symm
  simp [this]

/-! ### `Sync` -/

theorem load_acq (s : Sync) (c : VV) : s.load c .acq = c.join s.hb := by
  simp [Sync.load, Ord.acquires]

theorem store_rel (s : Sync) (r c : VV) : s.store r c .rel = ⟨(s.hb.join r).join c⟩ := by
  simp [Sync.store, Ord.releases]

/-- acquire: the new causality is above the old one and above the object's clock -/
theorem le_load_acq (s : Sync) (c : VV) : c.le (s.load c .acq) ∧ s.hb.le (s.load c .acq) := by
  rw [load_acq]; exact ⟨VV.le_join_left _ _, VV.le_join_right _ _⟩

/-- release: the object's new clock is above its old clock, the released clock and the causality
of the releasing thread -/
theorem le_store_rel (s : Sync) (r c : VV) :
    s.hb.le (s.store r c .rel).hb ∧ r.le (s.store r c .rel).hb ∧ c.le (s.store r c .rel).hb := by
  rw [store_rel]
  exact ⟨VV.le_trans (VV.le_join_left _ _) (VV.le_join_left _ _),
    VV.le_trans (VV.le_join_right _ _) (VV.le_join_left _ _), VV.le_join_right _ _⟩

/-! ### `World` helpers -/

theorem getMutex_of {w : World} {o m} (h : w.exec.objs[o]? = some (.mutex m)) :
    w.getMutex o = .ok m := by simp [World.getMutex, h]
theorem getRw_of {w : World} {o m} (h : w.exec.objs[o]? = some (.rwlock m)) :
    w.getRw o = .ok m := by simp [World.getRw, h]
theorem getCv_of {w : World} {o m} (h : w.exec.objs[o]? = some (.condvar m)) :
    w.getCv o = .ok m := by simp [World.getCv, h]
theorem getNotify_of {w : World} {o m} (h : w.exec.objs[o]? = some (.notify m)) :
    w.getNotify o = .ok m := by simp [World.getNotify, h]
theorem getChan_of {w : World} {o m} (h : w.exec.objs[o]? = some (.chan m)) :
    w.getChan o = .ok m := by simp [World.getChan, h]
theorem getArc_of {w : World} {o m} (h : w.exec.objs[o]? = some (.arc m)) :
    w.getArc o = .ok m := by simp [World.getArc, h]

/-- `forOthers` as one pass over the thread table -/
theorem forOthers_eq (w : World) (p : Operation → Bool) (f : Thread → Thread) :
    w.forOthers p f = { w with exec := { w.exec with threads := { w.exec.threads with threads :=
      (w.exec.threads.threads.mapIdx fun i th =>
        if i = w.tid then th else if th.operation.any p then f th else th) } } } := by
  simp only [World.forOthers, World.setThs, World.ths]
  rw [mapIdx_congr' w.exec.threads.threads _
    (fun i th => if i = w.tid then th else if th.operation.any p then f th else th)]
  intro i th
  cases h : th.operation <;> simp

/-- writing back the object that is already there changes nothing -/
theorem setObj_self (w : World) (o : Nat) (x : Obj) (h : w.exec.objs[o]? = some x) :
    w.setObj o x = w := by
  simp [World.setObj, World.setObjs, set_self_of_getElem? _ _ _ h]

/-- reading a thread of a `mapIdx`-ed table -/
theorem get_mapIdx (s : Threads) (F : Nat → Thread → Thread) (i : Nat)
    (h : i < s.threads.length) :
    ({ s with threads := s.threads.mapIdx F } : Threads).get i = F i (s.get i) := by
  unfold Threads.get
  exact getD_mapIdx _ _ _ _ h

end Sy
end LoomVerif

/-
Soundness of the vector clocks of the reference semantics, part 4b: counting the messages of a channel
(`chanCount`): how an event changes the counts, monotonicity along prefixes.
-/
import LoomVerif.Proofs.VCSoundNext

namespace LoomVerif
namespace VCSound
open Race (upd upd_self upd_ne get_zero zero_join join_zero)
open Clocks

theorem chanCount_snoc (q : Nat) (evs : List Event) (e : Event) :
    chanCount q (evs ++ [e]) = (chanCount q evs).step q e := by
  unfold chanCount
  rw [List.foldl_append]; rfl

theorem not_send_of_drop {e : Event} {q q' : Nat} (h : e.dropOn q) : ¬ e.sendOn q' := by
  rintro ⟨x, hx⟩; unfold Event.dropOn at h; rw [h] at hx; cases hx
theorem not_take_of_drop {e : Event} {q q' : Nat} (h : e.dropOn q) : ¬ e.takeOn q' := by
  unfold Event.dropOn at h
  rintro (hx | ⟨hx, _⟩) <;> (rw [h] at hx; cases hx)
theorem not_take_of_send {e : Event} {q q' : Nat} (h : e.sendOn q) : ¬ e.takeOn q' := by
  obtain ⟨x, h⟩ := h
  rintro (hx | ⟨hx, _⟩) <;> (rw [h] at hx; cases hx)
theorem not_drop_of_send {e : Event} {q q' : Nat} (h : e.sendOn q) : ¬ e.dropOn q' := by
  obtain ⟨x, h⟩ := h
  intro hx; unfold Event.dropOn at hx; rw [h] at hx; cases hx
theorem not_send_of_take {e : Event} {q q' : Nat} (h : e.takeOn q) : ¬ e.sendOn q' :=
  fun h' => not_take_of_send h' h
theorem not_drop_of_take {e : Event} {q q' : Nat} (h : e.takeOn q) : ¬ e.dropOn q' :=
  fun h' => not_take_of_drop h' h

theorem cstep_drop {q : Nat} (c : ChanCount) {e : Event} (h : e.dropOn q) :
    c.step q e = { c with dropped := true } := by
  unfold ChanCount.step; rw [if_pos h]

theorem cstep_send {q : Nat} (c : ChanCount) {e : Event} (h : e.sendOn q) :
    c.step q e = if c.dropped then c else { c with sends := c.sends + 1 } := by
  unfold ChanCount.step; rw [if_neg (not_drop_of_send h), if_pos h]

theorem cstep_take {q : Nat} (c : ChanCount) {e : Event} (h : e.takeOn q) :
    c.step q e = { c with takes := c.takes + 1 } := by
  unfold ChanCount.step; rw [if_neg (not_drop_of_take h), if_neg (not_send_of_take h), if_pos h]

theorem cstep_none {q : Nat} (c : ChanCount) {e : Event} (h1 : ¬ e.dropOn q) (h2 : ¬ e.sendOn q) (h3 : ¬ e.takeOn q) :
    c.step q e = c := by
  unfold ChanCount.step; rw [if_neg h1, if_neg h2, if_neg h3]

theorem step_sends_le (q : Nat) (c : ChanCount) (e : Event) : c.sends ≤ (c.step q e).sends := by
  unfold ChanCount.step
  split
  · exact Nat.le_refl _
  · split
    · split
      · exact Nat.le_refl _
      · exact Nat.le_succ _
    · split <;> exact Nat.le_refl _

theorem step_takes_le (q : Nat) (c : ChanCount) (e : Event) : c.takes ≤ (c.step q e).takes := by
  unfold ChanCount.step
  split
  · exact Nat.le_refl _
  · split
    · split <;> exact Nat.le_refl _
    · split
      · exact Nat.le_succ _
      · exact Nat.le_refl _

theorem step_dropped_mono (q : Nat) (c : ChanCount) (e : Event) (h : c.dropped = true) :
    (c.step q e).dropped = true := by
  by_cases h1 : e.dropOn q
  · rw [cstep_drop _ h1]
  · by_cases h2 : e.sendOn q
    · rw [cstep_send _ h2, h]; exact h
    · by_cases h3 : e.takeOn q
      · rw [cstep_take _ h3]; exact h
      · rw [cstep_none _ h1 h2 h3]; exact h

theorem chanCount_take_succ (q : Nat) (evs : List Event) {i : Nat} {e : Event} (hi : evs[i]? = some e) :
    chanCount q (evs.take (i + 1)) = (chanCount q (evs.take i)).step q e := by
  rw [List.take_add_one, hi]
  exact chanCount_snoc q _ e

/-- the counts only grow along prefixes -/
theorem chanCount_mono (q : Nat) (evs : List Event) {i n : Nat} (h : i ≤ n) :
    (chanCount q (evs.take i)).sends ≤ (chanCount q (evs.take n)).sends ∧
    (chanCount q (evs.take i)).takes ≤ (chanCount q (evs.take n)).takes ∧
    ((chanCount q (evs.take i)).dropped = true → (chanCount q (evs.take n)).dropped = true) := by
  induction n with
  | zero =>
    have : i = 0 := by omega
    subst this
    exact ⟨Nat.le_refl _, Nat.le_refl _, id⟩
  | succ n ih =>
    by_cases hin : i = n + 1
    · subst hin; exact ⟨Nat.le_refl _, Nat.le_refl _, id⟩
    · obtain ⟨h1, h2, h3⟩ := ih (by omega)
      cases he : evs[n]? with
      | none =>
        have : evs.take (n + 1) = evs.take n := by
          rw [List.take_add_one, he]; simp
        rw [this]; exact ⟨h1, h2, h3⟩
      | some e =>
        rw [chanCount_take_succ q evs he]
        exact ⟨Nat.le_trans h1 (step_sends_le _ _ _), Nat.le_trans h2 (step_takes_le _ _ _),
          fun hd => step_dropped_mono _ _ _ (h3 hd)⟩

/-- an effective `send` at position `i` is counted by every later prefix -/
theorem sends_lt_of_send (q : Nat) (evs : List Event) {i n : Nat} {e : Event} (hi : evs[i]? = some e)
    (hs : e.sendOn q) (hd : (chanCount q (evs.take i)).dropped = false) (hin : i < n) :
    (chanCount q (evs.take i)).sends < (chanCount q (evs.take n)).sends := by
  have h1 := (chanCount_mono q evs (i := i + 1) (n := n) hin).1
  rw [chanCount_take_succ q evs hi, cstep_send _ hs, hd] at h1
  simp only [Bool.false_eq_true, if_false] at h1
  omega

theorem take_length_snoc (evs : List Event) (e : Event) : (evs ++ [e]).take evs.length = evs := by
  rw [List.take_append_of_le_length (Nat.le_refl _), List.take_length]

/-- `X ∈ l → X ≤ ⊔ l` -/
theorem le_foldl_join {l : List VV} {X : VV} (h : X ∈ l) (a : VV) : X.le (l.foldl VV.join a) := by
  induction l generalizing a with
  | nil => cases h
  | cons y l ih =>
    simp only [List.foldl_cons]
    rcases List.mem_cons.1 h with rfl | h
    · rw [foldl_join]; exact le_trans (le_join_right _ _) (le_join_left _ _)
    · exact ih h _

/-- a positive component of `⊔ l` comes from a member of `l` -/
theorem get_foldl_join {l : List VV} {x w : Nat} (hx : 1 ≤ x) (h : x ≤ (l.foldl VV.join VV.zero).get w) :
    ∃ X ∈ l, x ≤ X.get w := by
  induction l with
  | nil => simp only [List.foldl_nil, get_zero] at h; omega
  | cons y l ih =>
    simp only [List.foldl_cons] at h
    rw [foldl_join, zero_join, get_join] at h
    by_cases hy : x ≤ y.get w
    · exact ⟨y, List.mem_cons_self, hy⟩
    · obtain ⟨X, hX, hXx⟩ := ih (by omega)
      exact ⟨X, List.mem_cons_of_mem _ hX, hXx⟩

end VCSound
end LoomVerif

/-
Refinement, WAIT fragment, part 22: the one-step simulation for the full relation `R2` (core + tokens).
-/
import LoomVerif.Proofs.Refine2Tok2

set_option linter.unusedSimpArgs false
set_option linter.unusedVariables false

namespace LoomVerif
namespace Refine2
open Refine Sy C07 C08 Foot

/-- the conclusion of the simulation -/
def Sim2 (w : World) (s : SCData2) (w' : World) : Prop :=
  w'.prog = w.prog ∧
  ((R2 w' s ∧ w'.events = w.events) ∨
   ∃ l s', RefStep w.prog s (w.ctlOf w.tid).body l s' ∧ R2 w' s' ∧
     w'.events.map triple = SCData.label (w.ctlOf w.tid).body l ++ w.events.map triple)

/-- **the run-level side condition, per step**: the thread the schedule resumes is not still blocked in `park`
or queued on a condvar, and no second `unpark` has arrived for a thread woken from `park` that has not resumed
yet (see `cvResumeOk`, `parkResumeOk`).  Computable. -/
def resumeOk (w : World) : Bool := cvResumeOk w && parkResumeOk w

section
variable {w w' : World} {s s' : SCData2}

/-- a reference step of an operation other than `park`, `unpark` writes no token -/
theorem tokSame_of_refStep (hR : R2c w s) (hact : w.tid < w.ctl.length)
    (hnp : opAt2 w ≠ some .park) (hnu : ∀ u, opAt2 w ≠ some (.unpark u)) {l : Option (Nat × Ret)}
    (hrs : RefStep w.prog s (w.ctlOf w.tid).body l s') : SCData2.TokSame s s' := by
  obtain ⟨_, _, hof⟩ := base2 hR hact
  rcases hrs with ⟨_, hst⟩ | hsp
  · cases hcv : (s.th (w.ctlOf w.tid).body).cvNotified with
    | some m => exact SCData2.stepL_token_cv hcv hst
    | none =>
      exact SCData2.stepL_token_keep hcv (by rw [hof]; exact hnp) (by intro u; rw [hof]; exact hnu u) hst
  · exact SCData2.spuriousL_token_keep hsp

/-- **one-step simulation** for the full relation -/
theorem step_sim2 (hwf : WF2 w.prog) (hR : R2 w s) (hact : w.tid < w.ctl.length)
    (hok : resumeOk w = true) (h : w.stepActive = .ok w') : Sim2 w s w' ∧ InRange w' := by
  have hokc : cvResumeOk w = true := by
    unfold resumeOk at hok; simp only [Bool.and_eq_true] at hok; exact hok.1
  have hokp : parkResumeOk w = true := by
    unfold resumeOk at hok; simp only [Bool.and_eq_true] at hok; exact hok.2
  have hu := actUnparked hR.p hokp
  have hpt := parkTok hR.c hR.p hact hokp
  have hin : w.tid < w.exec.threads.threads.length := by rw [← hR.c.lenCtl]; exact hact
  obtain ⟨hprog, hc, hsim⟩ := step_sim2c hwf hR.c hact hokc hpt h
  obtain ⟨_, hrel, hof⟩ := base2 hR.c hact
  have hcvn := fun hC => cv_none hR.c hact hC
  -- it suffices to re-establish the token relation in both cases
  suffices hP : (∀ hR' : R2c w' s, w'.events = w.events → RPk w' s) ∧
      (∀ l s', RefStep w.prog s (w.ctlOf w.tid).body l s' → R2c w' s' → RPk w' s') by
    rcases hsim with ⟨hR', hev⟩ | ⟨l, s1, hrs, hR', hev⟩
    · exact ⟨⟨hprog, .inl ⟨⟨hR', hP.1 hR' hev⟩, hev⟩⟩, step_inRange2 hwf hR.c hact h hR' hc⟩
    · exact ⟨⟨hprog, .inr ⟨l, s1, hrs, ⟨hR', hP.2 l s1 hrs hR'⟩, hev⟩⟩, step_inRange2 hwf hR.c hact h hR' hc⟩
  have h0 := h
  unfold World.stepActive at h
  simp only at h
  cases hop : opAt2 w with
  | none =>
    have hop' := hop
    unfold opAt2 opOfCtl at hop'
    rw [hop'] at h
    have hk : Tok.Keep w w' := Tok.stepActive_keep h0 (by
      intro op ho
      have : opAt2 w = some op := ho
      rw [hop] at this; cases this)
    have ht : ThrStep w w' := runEpilogue_thr hu hrel.2.2.2.2.2.2 h
    have hnp : opAt2 w ≠ some .park := by rw [hop]; intro e; cases e
    have hnu : ∀ u, opAt2 w ≠ some (.unpark u) := by intro u; rw [hop]; intro e; cases e
    exact ⟨fun hR' _ => RPk_generic hR.c hR.p hact hu hR' hprog hc hk ht (SCData2.TokSame.refl _) hnp,
      fun l s1 hrs hR' => RPk_generic hR.c hR.p hact hu hR' hprog hc hk ht
        (tokSame_of_refStep hR.c hact hnp hnu hrs) hnp⟩
  | some op =>
    have hop' := hop
    unfold opAt2 opOfCtl at hop'
    rw [hop'] at h
    simp only at h
    have hok' := hwf.opOk hop'
    by_cases hpk : op = .park
    · -- `park`
      subst hpk
      have hC : pendCv w.prog (w.ctlOf w.tid) = none := pendCv_of_op hop (by simp)
      have hcn := (hcvn hC).2
      have hbl : (w.ctlOf w.tid).body < s.ths.length := hbl_of hR.c _ hact
      rw [runOp_park] at h
      split at h
      · next hs =>
        have hs0 : (w.ctlOf w.tid).stage = 0 := by simpa using hs
        have hctl : w'.ctl = w.ctl.modify w.tid fun c => { c with stage := 1 } := by
          rw [parkNow_ctl h]; rfl
        refine ⟨fun hR' _ => RPk_park0 hR.c hR.p hact hu hop hs0 hprog hctl h, ?_⟩
        intro l s1 hrs hR'
        exfalso
        -- the reference cannot have moved: the twin's pc has not
        have hpc1 : (s1.th (w.ctlOf w.tid).body).pc = (s.th (w.ctlOf w.tid).body).pc + 1 := by
          rcases hrs with ⟨_, hst⟩ | hsp
          · exact SCData2.stepL_pc_succ hcn (.inl (by rw [hof]; exact hop)) hbl hst
          · rw [SCData2.spuriousL_nil (.inl (by rw [hof]; exact hop))] at hsp; cases hsp
        have h1 := (hR.c.x.thr w.tid hact).2.2.1
        have h2 := (hR'.x.thr w.tid (Nat.lt_of_lt_of_le hact hc.len)).2.2.1
        rw [hc.body] at h2
        have hpcw : (w'.ctl.getD w.tid {}).pc = (w.ctl.getD w.tid {}).pc := by
          rw [hctl, getD_modify_self _ _ _ _ hact]
        have e1 : (s1.th (w.ctlOf w.tid).body).pc = (w'.ctl.getD w.tid {}).pc := h2
        have e2 : (s.th (w.ctlOf w.tid).body).pc = (w.ctl.getD w.tid {}).pc := h1
        omega
      · next hs =>
        have hs1 : (w.ctlOf w.tid).stage ≠ 0 := by simpa using hs
        simp only [pure, Except.pure] at h
        cases h
        refine ⟨?_, ?_⟩
        · intro hR' _
          exfalso
          have := pc_same hR.c hR' hact hc
          simp only [ctl_complete'] at this
          rw [getD_modify_self _ _ _ _ hact] at this
          simp [completeF] at this
        · intro l s1 hrs _
          rcases hrs with ⟨_, hst⟩ | hsp
          · exact RPk_park1 hR.c hR.p hact hop hokp hs1
              (SCData2.stepL_token_park hcn (by rw [hof]; exact hop) hbl hst)
          · rw [SCData2.spuriousL_nil (.inl (by rw [hof]; exact hop))] at hsp; cases hsp
    · by_cases hup : ∃ u, op = .unpark u
      · -- `unpark`
        obtain ⟨u, rfl⟩ := hup
        have hC : pendCv w.prog (w.ctlOf w.tid) = none := pendCv_of_op hop (by simp)
        have hcn := (hcvn hC).2
        have hbl : (w.ctlOf w.tid).body < s.ths.length := hbl_of hR.c _ hact
        rw [runOp_unpark] at h
        obtain ⟨t, hto, h⟩ := bind_ok h
        simp only [pure, Except.pure] at h
        cases h
        obtain ⟨htl, htb⟩ := threadOf_ok hR.c hto
        have hul : u < s.ths.length := by rw [← htb]; exact hbl_of hR.c _ htl
        refine ⟨?_, ?_⟩
        · intro hR' _
          exfalso
          have := pc_same hR.c hR' hact hc
          have htid : (w.setThs (w.ths.unpark t)).tid = w.tid := by
            show (w.ths.unpark t).activeId = _; rw [unpark_activeId]; rfl
          simp only [ctl_complete', htid] at this
          rw [show (w.setThs (w.ths.unpark t)).ctl = w.ctl from rfl, getD_modify_self _ _ _ _ hact] at this
          simp [completeF] at this
        · intro l s1 hrs _
          rcases hrs with ⟨_, hst⟩ | hsp
          · exact RPk_unpark hR.c hR.p hact hu hop htl htb
              (SCData2.stepL_token_unpark hcn (by rw [hof]; exact hop) hul hst)
          · rw [SCData2.spuriousL_nil (.inr ⟨u, by rw [hof]; exact hop⟩)] at hsp; cases hsp
      · -- every other operation
        have hnp : opAt2 w ≠ some .park := by rw [hop]; intro e; cases e; exact hpk rfl
        have hnu : ∀ u, opAt2 w ≠ some (.unpark u) := by
          intro u; rw [hop]; intro e; cases e; exact hup ⟨u, rfl⟩
        have hk : Tok.Keep w w' := Tok.stepActive_keep h0 (by
          intro op' ho
          have : opAt2 w = some op' := ho
          rw [hop] at this; cases this
          cases hto : Tok.tokenOp op with
          | false => rfl
          | true =>
            exfalso
            cases op <;> simp only [Tok.tokenOp, Bool.false_eq_true] at hto
            · exact hpk rfl
            · exact hup ⟨_, rfl⟩)
        have ht : ThrStep w w' := by
          by_cases htk : tkOp op = true
          · exact .of_tk (runOp_tk hok' htk hu h)
          · cases op <;> simp only [tkOp, not_true_eq_false] at htk
            case park => exact absurd rfl hpk
            case unpark u => exact absurd ⟨_, rfl⟩ hup
            case cvWait v m => exact .of_tk (runOp_cvWait_tk hu h)
            case cvOne v => exact .of_tk (runOp_cvOne_tk hu h)
            case cvAll v => exact .of_tk (runOp_cvAll_tk hu h)
        exact ⟨fun hR' _ => RPk_generic hR.c hR.p hact hu hR' hprog hc hk ht (SCData2.TokSame.refl _) hnp,
          fun l s1 hrs hR' => RPk_generic hR.c hR.p hact hu hR' hprog hc hk ht
            (tokSame_of_refStep hR.c hact hnp hnu hrs) hnp⟩

end

end Refine2
end LoomVerif

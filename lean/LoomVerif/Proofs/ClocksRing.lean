/-
Clocks, store ring and acquire fence: `index`, `range`, `stores_mut` order; a run of stores into a
ring that is not yet full; `fence_acq` on one cell.
-/
import LoomVerif.Proofs.ClocksMatch

namespace LoomVerif
namespace Clocks

open Atomic

/-! ### `index`, `range`, `stores_mut` -/

theorem index_of_lt {n : Nat} (h : n < NH) : index n = n := Nat.mod_eq_of_lt h

theorem storesMutOrder_small : ∀ cnt, cnt ≤ 7 → 1 ≤ cnt → storesMutOrder cnt = List.range cnt := by
  decide

theorem storesMutOrder_big (cnt : Nat) (h : 7 ≤ cnt) :
    storesMutOrder cnt =
      List.range' ((cnt - 7) % 7) (7 - (cnt - 7) % 7) ++ List.range ((cnt - 7) % 7) := by
  have hmin : min cnt NH = 7 := by show min cnt 7 = 7; omega
  unfold storesMutOrder Atomic.range
  simp only [hmin]
  rfl

theorem rot_perm : ∀ s, s < 7 → (List.range' s (7 - s) ++ List.range s).Perm (List.range 7) := by
  decide

theorem storesMutOrder_perm (cnt : Nat) (h : 1 ≤ cnt) :
    (storesMutOrder cnt).Perm (List.range (min cnt 7)) := by
  by_cases h7 : cnt ≤ 7
  · rw [storesMutOrder_small cnt h7 h, Nat.min_eq_left h7]
  · rw [storesMutOrder_big cnt (by omega), Nat.min_eq_right (by omega)]
    exact rot_perm _ (Nat.mod_lt _ (by decide))

theorem mem_storesMutOrder (cnt : Nat) (h : 1 ≤ cnt) (i : Nat) :
    i ∈ storesMutOrder cnt ↔ i < min cnt 7 := by
  rw [(storesMutOrder_perm cnt h).mem_iff, List.mem_range]

/-! ### a run of stores -/

theorem trackUnsyncMut_ok {a a1 : Atomic} {ths : Threads} (h : a.trackUnsyncMut ths = .ok a1) :
    a1 = { a with unsyncMutAt := a.unsyncMutAt.join ths.caus } := by
  rcases Bool.eq_false_or_eq_true a.isMutating with hm | hm
  · rw [(track_mutating a ths hm).2.2.2] at h; cases h
  · rw [trackUnsyncMut_eq a ths hm] at h
    by_cases h1 : a.loadedAt.le ths.caus
    · by_cases h2 : a.unsyncLoadedAt.le ths.caus
      · by_cases h3 : a.storedAt.le ths.caus
        · by_cases h4 : a.unsyncMutAt.le ths.caus
          · rw [if_neg (by simpa using h1), if_neg (by simpa using h2),
              if_neg (by simpa using h3), if_neg (by simpa using h4)] at h
            exact (Except.ok.inj h).symm
          · rw [if_neg (by simpa using h1), if_neg (by simpa using h2),
              if_neg (by simpa using h3), if_pos h4] at h; cases h
        · rw [if_neg (by simpa using h1), if_neg (by simpa using h2), if_pos h3] at h; cases h
      · rw [if_neg (by simpa using h1), if_pos h2] at h; cases h
    · rw [if_pos h1] at h; cases h

/-- `Atomic::new`: one store, in slot 0 -/
theorem new_ok {ths : Threads} {v : Nat} {a : Atomic} (h : Atomic.new ths v = .ok a) :
    a.cnt = 1 ∧ a.stores.length = NH ∧ (a.storeAt 0).value = v ∧ (a.storeAt 0).hb = ths.caus := by
  cases h1 : Atomic.trackUnsyncMut {} ths with
  | error e =>
    have : Atomic.new ths v = .error e := by unfold Atomic.new; rw [h1]; rfl
    rw [this] at h; cases h
  | ok a1 =>
    have e1 := trackUnsyncMut_ok h1
    have : Atomic.new ths v = .ok (a1.store ths Sync.new v .rel) := by
      unfold Atomic.new; rw [h1]; rfl
    rw [this] at h
    have ha := (Except.ok.inj h).symm
    have hlen : a1.stores.length = NH := by rw [e1]; rfl
    have hcnt : a1.cnt = 0 := by rw [e1]
    have hnew := C12.storeAt_store_new a1 ths Sync.new v .rel hlen
    rw [hcnt] at hnew
    subst ha
    refine ⟨by rw [store_cnt, hcnt], by rw [store_length, hlen], ?_, ?_⟩
    · show ((a1.store ths Sync.new v .rel).storeAt (index 0)).value = v
      rw [hnew]
    · show ((a1.store ths Sync.new v .rel).storeAt (index 0)).hb = ths.caus
      rw [hnew]

/-- stores into a ring that does not fill up: earlier slots are untouched, the k-th new store
sits in slot `cnt + k` -/
theorem storeSeq_spec (l : List (Threads × Sync × Nat × Ord)) (a : Atomic)
    (hlen : a.stores.length = NH) (h : a.cnt + l.length ≤ NH) :
    (l.foldl (fun a r => a.store r.1 r.2.1 r.2.2.1 r.2.2.2) a).cnt = a.cnt + l.length ∧
    (∀ i, i < a.cnt →
      (l.foldl (fun a r => a.store r.1 r.2.1 r.2.2.1 r.2.2.2) a).storeAt i = a.storeAt i) ∧
    (∀ k (hk : k < l.length),
      ((l.foldl (fun a r => a.store r.1 r.2.1 r.2.2.1 r.2.2.2) a).storeAt (a.cnt + k)).value
        = (l[k]).2.2.1) := by
  induction l generalizing a with
  | nil =>
    refine ⟨rfl, fun _ _ => rfl, ?_⟩
    intro k hk; cases hk
  | cons r rs ih =>
    simp only [List.length_cons] at h
    have hc : a.cnt < NH := by omega
    have hidx : index a.cnt = a.cnt := index_of_lt hc
    have ih1 := ih (a.store r.1 r.2.1 r.2.2.1 r.2.2.2) (by rw [store_length, hlen])
      (by rw [store_cnt]; omega)
    rw [store_cnt] at ih1
    obtain ⟨i1, i2, i3⟩ := ih1
    simp only [List.foldl_cons, List.length_cons]
    refine ⟨by omega, ?_, ?_⟩
    · intro i hi
      rw [i2 i (by omega), C12.storeAt_store_ne]
      rw [hidx]; omega
    · intro k hk
      cases k with
      | zero =>
        rw [Nat.add_zero, i2 _ (by omega)]
        have := C12.storeAt_store_new a r.1 r.2.1 r.2.2.1 r.2.2.2 hlen
        rw [hidx] at this
        rw [this]; rfl
      | succ k =>
        have := i3 k (by simpa using hk)
        rw [show a.cnt + (k + 1) = a.cnt + 1 + k by omega, this]
        rfl

/-! ### rewriting the active thread's causality -/

theorem setCaus_self (ths : Threads) : ths.setCaus ths.caus = ths := by
  cases ths with | mk threads active seqCst max =>
  unfold Threads.setCaus Threads.modifyActive Threads.modify
  simp only [Threads.mk.injEq, and_true]
  apply List.ext_getElem?
  intro j
  rw [List.getElem?_modify]
  split
  · rename_i hj
    cases hget : threads[j]? with
    | none => rfl
    | some t =>
      have : Threads.caus ⟨threads, active, seqCst, max⟩ = t.causality := by
        unfold Threads.caus Threads.activeT Threads.get
        show (threads.getD (Threads.activeId ⟨threads, active, seqCst, max⟩) {}).causality = _
        rw [hj, List.getD_eq_getElem?_getD, hget]; rfl
      rw [this]; rfl
  · cases threads[j]? <;> rfl

theorem setCaus_setCaus (ths : Threads) (v w : VV) : (ths.setCaus v).setCaus w = ths.setCaus w := by
  cases ths with | mk threads active seqCst max =>
  unfold Threads.setCaus Threads.modifyActive Threads.modify
  simp only [Threads.mk.injEq, and_true]
  show (threads.modify (Threads.activeId ⟨threads, active, seqCst, max⟩) _).modify
    (Threads.activeId ⟨threads, active, seqCst, max⟩) _ = _
  apply List.ext_getElem?
  intro j
  simp only [List.getElem?_modify]
  split
  · cases threads[j]? <;> rfl
  · cases threads[j]? <;> rfl

/-! ### `fence_acq` on one cell -/

theorem isSeenBy_mono (fs : FirstSeen) {c c' : VV} (h : c.le c') (hs : fs.isSeenBy c = true) :
    fs.isSeenBy c' = true := by
  unfold FirstSeen.isSeenBy at hs ⊢
  rw [List.any_eq_true] at hs ⊢
  obtain ⟨i, hi, hv⟩ := hs
  refine ⟨i, hi, ?_⟩
  cases hg : fs.getD i none with
  | none => rw [hg] at hv; cases hv
  | some v =>
    rw [hg] at hv
    have := get_mono h i
    simp only [decide_eq_true_eq] at hv ⊢
    omega

/-- the causality computed by `fence_acq` on cell `a`, visiting slots in `order` -/
def acqFold (a : Atomic) (order : List Nat) (c : VV) : VV :=
  order.foldl (fun c i =>
    if (a.storeAt i).firstSeen.isSeenBy c then c.join (a.storeAt i).sync.hb else c) c

theorem acqFold_cons (a : Atomic) (i : Nat) (rest : List Nat) (c : VV) :
    acqFold a (i :: rest) c = acqFold a rest
      (if (a.storeAt i).firstSeen.isSeenBy c then c.join (a.storeAt i).sync.hb else c) := rfl

theorem fenceAcq_fold (a : Atomic) (order : List Nat) (ths : Threads) (h : ActiveOk ths) :
    order.foldl (fun ths i =>
      if (a.storeAt i).firstSeen.isSeenBy ths.caus then ths.syncLoad (a.storeAt i).sync .acq
      else ths) ths
      = ths.setCaus (acqFold a order ths.caus) := by
  induction order generalizing ths with
  | nil => exact (setCaus_self ths).symm
  | cons i rest ih =>
    rw [List.foldl_cons, acqFold_cons]
    by_cases hs : (a.storeAt i).firstSeen.isSeenBy ths.caus = true
    · rw [if_pos hs, if_pos hs, ih _ (h.syncLoad _ _), caus_syncLoad h]
      unfold Threads.syncLoad
      rw [setCaus_setCaus]
      rfl
    · rw [if_neg hs, if_neg hs, ih _ h]

theorem fenceAcq_eq (a : Atomic) (ths : Threads) (h : ActiveOk ths) :
    a.fenceAcq ths = ths.setCaus (acqFold a (storesMutOrder a.cnt) ths.caus) :=
  fenceAcq_fold a _ ths h

theorem le_acqFold (a : Atomic) (order : List Nat) (c : VV) : c.le (acqFold a order c) := by
  unfold acqFold
  apply foldl_join_ge
  intro m i; split
  · exact le_join_left _ _
  · exact le_refl _

/-- only slots seen (by the final causality `R`, hence at the latest when visited) contribute -/
theorem acqFold_le_of (a : Atomic) (order : List Nat) (R u : VV)
    (hu : ∀ i ∈ order, (a.storeAt i).firstSeen.isSeenBy R = true → (a.storeAt i).sync.hb.le u)
    (c : VV) (hc : c.le u) (hR : (acqFold a order c).le R) : (acqFold a order c).le u := by
  induction order generalizing c with
  | nil => exact hc
  | cons i rest ih =>
    rw [acqFold_cons] at hR ⊢
    apply ih (fun j hj => hu j (List.mem_cons_of_mem _ hj)) _ _ hR
    split
    · rename_i hs
      have h1 : c.le R := le_trans (le_trans (by rw [if_pos hs]; exact le_join_left _ _)
        (le_acqFold a rest _)) hR
      exact join_le hc (hu i List.mem_cons_self (isSeenBy_mono _ h1 hs))
    · exact hc

/-- every slot already seen when the fence starts is acquired -/
theorem seen_le_acqFold (a : Atomic) (order : List Nat) (i : Nat) (hi : i ∈ order) (c : VV)
    (hs : (a.storeAt i).firstSeen.isSeenBy c = true) :
    (a.storeAt i).sync.hb.le (acqFold a order c) := by
  induction order generalizing c with
  | nil => cases hi
  | cons j rest ih =>
    rw [acqFold_cons]
    rcases List.mem_cons.1 hi with rfl | hm
    · rw [if_pos hs]
      exact le_trans (le_join_right _ _) (le_acqFold a rest _)
    · apply ih hm
      apply isSeenBy_mono _ _ hs
      split
      · exact le_join_left _ _
      · exact le_refl _

/-- if nothing is seen, nothing is acquired -/
theorem acqFold_none (a : Atomic) (order : List Nat) (c : VV)
    (h : ∀ i ∈ order, (a.storeAt i).firstSeen.isSeenBy c = false) : acqFold a order c = c := by
  induction order with
  | nil => rfl
  | cons j rest ih =>
    rw [acqFold_cons, h j List.mem_cons_self]
    exact ih (fun i hi => h i (List.mem_cons_of_mem _ hi))

end Clocks
end LoomVerif

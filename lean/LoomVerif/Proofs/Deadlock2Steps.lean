/-
Deadlock soundness, WAIT fragment, part 5: the twin-side invariant `JB2` along the kinds of effects a stage has
on the other threads:

* `JB2.quiet`: no other thread is touched (objects may change as long as every view whose awaited condition does
  not hold is kept);
* `JB2.wake_step`: object `o` becomes available; the threads whose pending operation is on `o` are woken
  (`release_lock`, `Notify::notify`, a `send` into an empty channel);
* `JB2.acquire_step`: a mutex is acquired; the other threads WAITING on it are blocked;
* `JB2.target_step`: one thread is unparked / woken by id (`unpark`, `notify_one`), `JB2.wakeAll_step`
  (`notify_all`).
-/
import LoomVerif.Proofs.Deadlock2Act

namespace LoomVerif
namespace Deadlock2
open Refine Refine2 Sy Deadlock C07 C08

/-- the fields of an entry the invariant reads -/
structure Same4 (t t' : Thread) : Prop where
  st : t'.state = t.state
  op : t'.operation = t.operation
  pk : t'.parked = t.parked
  tk : t'.token = t.token

theorem Same4.refl (t : Thread) : Same4 t t := ⟨rfl, rfl, rfl, rfl⟩
theorem Same4.of_eq {t t' : Thread} (h : t' = t) : Same4 t t' := by rw [h]; exact Same4.refl t
theorem Same4.caus (t : Thread) (v : VV) : Same4 t { t with causality := v } := ⟨rfl, rfl, rfl, rfl⟩
theorem Same4.trans {a b c : Thread} (h1 : Same4 a b) (h2 : Same4 b c) : Same4 a c :=
  ⟨h2.st.trans h1.st, h2.op.trans h1.op, h2.pk.trans h1.pk, h2.tk.trans h1.tk⟩

/-- replacing object `o`: the views elsewhere are kept; at `o` it suffices to look at the old view -/
theorem vkeep_set {objs : List Obj} {o : Nat} {x : Obj} {v0 : OV2} (h0 : objView2 objs o = some v0)
    {i : Nat} {np : Prop} (hk : Stuck v0 → VKeep i np v0 (view2 x)) :
    ∀ n v, objView2 objs n = some v → Stuck v →
      ∃ v', objView2 (objs.set o x) n = some v' ∧ VKeep i np v v' := by
  intro n v hv hs
  by_cases e : n = o
  · subst e
    rw [h0] at hv; cases hv
    exact ⟨_, objView2_set_self _ (objView2_lt h0), hk hs⟩
  · exact ⟨v, by rw [objView2_set_ne _ _ e]; exact hv, .inl rfl⟩

section
variable {w w' : World}

/-- **no other thread is touched** -/
theorem JB2.quiet (hJ : JB2 w) (hact : w.tid < w.ctl.length)
    (hrun : (w.ths.get w.tid).state ≠ .blocked ∧ (w.ths.get w.tid).state ≠ .terminated) {g : TCtl → TCtl}
    (hprog : w'.prog = w.prog) (hsp : w'.spawned = w.spawned) (htid : w'.tid = w.tid)
    (hctl : w'.ctl = w.ctl.modify w.tid g)
    (hself : (w'.ths.get w.tid).state = (w.ths.get w.tid).state)
    (hths : ∀ i, i < w.ctl.length → i ≠ w.tid → Same4 (w.ths.get i) (w'.ths.get i))
    (hv : ∀ i n v, objView2 w.exec.objs n = some v → Stuck v →
      ∃ v', objView2 w'.exec.objs n = some v' ∧ VKeep i ((w.ths.get i).parked = false) v v')
    (hjnd : Jnd w') : JB2 w' := by
  refine JB2.local hJ hact hprog hsp htid hctl (by rw [hself]; exact hrun) (fun i hi e => ?_) hjnd
  have hs := hths i hi e
  refine ⟨hs.op, fun ht => by rw [← hs.st]; exact ht, fun hb => ?_⟩
  exact ((hJ.thr i hi).blk (by rw [← hs.st]; exact hb)).frame (fun _ h => h) hs.op hs.pk (fun _ => hs.tk)
    (hv i)

theorem wake_same {t : Thread} (h : t.state ≠ .blocked) (v : VV) :
    Same4 t ({ t with causality := v } : Thread).wake := by
  rw [wake_of_not_blocked (t := ({ t with causality := v } : Thread)) h]
  exact Same4.caus t v

/-- **object `o` becomes available**: every other thread whose pending operation is on `o` is woken (if it is
blocked), nobody else is touched; `o` is not a condvar -/
theorem JB2.wake_step (hJ : JB2 w) (hact : w.tid < w.ctl.length)
    (hrun : (w.ths.get w.tid).state ≠ .blocked ∧ (w.ths.get w.tid).state ≠ .terminated) {g : TCtl → TCtl}
    {o : Nat} (hprog : w'.prog = w.prog) (hsp : w'.spawned = w.spawned) (htid : w'.tid = w.tid)
    (hctl : w'.ctl = w.ctl.modify w.tid g)
    (hself : (w'.ths.get w.tid).state = (w.ths.get w.tid).state)
    (hths : ∀ i, i < w.ctl.length → i ≠ w.tid →
      ((¬ ∃ op, (w.ths.get i).operation = some op ∧ op.obj = o) ∧ w'.ths.get i = w.ths.get i) ∨
      ((∃ op, (w.ths.get i).operation = some op ∧ op.obj = o) ∧
        ∃ v, w'.ths.get i = ({ w.ths.get i with causality := v } : Thread).wake))
    (hcv : ∀ ws, objView2 w.exec.objs o ≠ some (.condvar ws))
    (hv : ∀ n v, n ≠ o → objView2 w.exec.objs n = some v → objView2 w'.exec.objs n = some v)
    (hjnd : Jnd w') : JB2 w' := by
  refine JB2.local hJ hact hprog hsp htid hctl (by rw [hself]; exact hrun) (fun i hi e => ?_) hjnd
  rcases hths i hi e with ⟨hno, heq⟩ | ⟨_, v, heq⟩
  · rw [heq]
    refine ⟨rfl, id, fun hb => ?_⟩
    exact ((hJ.thr i hi).blk hb).frame_at o (fun _ h => h) rfl rfl (fun _ => rfl)
      (fun op ho hobj => hno ⟨op, ho, hobj⟩) (fun ws hws => absurd hws (hcv ws)) hv
  · rw [heq]
    by_cases hb : (w.ths.get i).state = .blocked
    · have hb0 : (({ w.ths.get i with causality := v } : Thread)).state = .blocked := hb
      have hst : (({ w.ths.get i with causality := v } : Thread).wake).state = .runnable := by
        rw [wake_state, if_pos hb0]
      refine ⟨wake_operation _, ?_, ?_⟩
      · intro ht; rw [hst] at ht; cases ht
      · intro hb'; rw [hst] at hb'; cases hb'
    · have hs := wake_same hb v
      refine ⟨hs.op, ?_, ?_⟩
      · intro ht; rw [← hs.st]; exact ht
      · intro hb'; exact absurd (by rw [← hs.st]; exact hb') hb

/-- **a mutex is acquired**: the other threads WAITING on it are blocked, nobody else is touched -/
theorem JB2.acquire_step (hJ : JB2 w) (hact : w.tid < w.ctl.length)
    (hrun : (w.ths.get w.tid).state ≠ .blocked ∧ (w.ths.get w.tid).state ≠ .terminated) {g : TCtl → TCtl}
    {m l : Nat} (hm : m < w.prog.cfg.nMutexes)
    (hprog : w'.prog = w.prog) (hsp : w'.spawned = w.spawned) (htid : w'.tid = w.tid)
    (hctl : w'.ctl = w.ctl.modify w.tid g)
    (hself : (w'.ths.get w.tid).state = (w.ths.get w.tid).state)
    (hths : ∀ i, i < w.ctl.length → i ≠ w.tid → w'.ths.get i =
      if (w.ths.get i).operation.any (fun op => op.obj == mutexIdx w.prog m && op.blocking) then
        (w.ths.get i).setBlocked else w.ths.get i)
    (hold : objView2 w.exec.objs (mutexIdx w.prog m) = some (.mutex none))
    (hnew : objView2 w'.exec.objs (mutexIdx w.prog m) = some (.mutex (some l)))
    (hsep : ∀ b t n, (b, t, n) ∈ w.spawned → n ≠ mutexIdx w.prog m)
    (hv : ∀ n v, n ≠ mutexIdx w.prog m → objView2 w.exec.objs n = some v → objView2 w'.exec.objs n = some v)
    (hjnd : Jnd w') : JB2 w' := by
  refine JB2.local hJ hact hprog hsp htid hctl (by rw [hself]; exact hrun) (fun i hi e => ?_) hjnd
  rw [hths i hi e]
  have h0 := hJ.thr i hi
  split
  · next hc =>
    refine ⟨rfl, fun ht => by simp [Thread.setBlocked] at ht, fun _ => ?_⟩
    cases hop : (w.ths.get i).operation with
    | none => rw [hop] at hc; cases hc
    | some op' =>
      rw [hop] at hc
      simp only [Option.any_some, Bool.and_eq_true, beq_iff_eq] at hc
      have hO := h0.opn e
      rw [hop] at hO
      exact hO.blk_mutex hc.2 hc.1 hm hsep (th := (w.ths.get i).setBlocked) hop hnew
  · refine ⟨rfl, id, fun hb => ?_⟩
    refine (h0.blk hb).frame (fun _ h => h) rfl rfl (fun _ => rfl) (fun n v hvw hs => ?_)
    by_cases en : n = mutexIdx w.prog m
    · subst en
      rw [hold] at hvw; cases hvw
      exact absurd hs (by simp [Stuck])
    · exact ⟨v, hv n v en hvw, .inl rfl⟩

/-- **one thread `t` is unparked or woken by id**: its entry becomes `G` of its old entry, where `G` keeps the
pending operation, terminates nobody, and blocks nobody; if the thread stays blocked, `G` has kept `parked` and
(for a parked thread) `token`.  Objects: every view whose awaited condition does not hold is kept (`VKeep`). -/
theorem JB2.target_step (hJ : JB2 w) (hact : w.tid < w.ctl.length)
    (hrun : (w.ths.get w.tid).state ≠ .blocked ∧ (w.ths.get w.tid).state ≠ .terminated) {g : TCtl → TCtl}
    {G : Nat → Thread → Thread}
    (hprog : w'.prog = w.prog) (hsp : w'.spawned = w.spawned) (htid : w'.tid = w.tid)
    (hctl : w'.ctl = w.ctl.modify w.tid g)
    (hself : (w'.ths.get w.tid).state = (w.ths.get w.tid).state)
    (hths : ∀ i, i < w.ctl.length → i ≠ w.tid → w'.ths.get i = G i (w.ths.get i))
    (hGop : ∀ i th, (G i th).operation = th.operation)
    (hGterm : ∀ i th, (G i th).state = .terminated → th.state = .terminated)
    (hGblk : ∀ i th, (G i th).state = .blocked →
      th.state = .blocked ∧ (G i th).parked = th.parked ∧ (th.parked = true → (G i th).token = th.token))
    (hv : ∀ i n v, (G i (w.ths.get i)).state = .blocked → objView2 w.exec.objs n = some v → Stuck v →
      ∃ v', objView2 w'.exec.objs n = some v' ∧ VKeep i ((w.ths.get i).parked = false) v v')
    (hjnd : Jnd w') : JB2 w' := by
  refine JB2.local hJ hact hprog hsp htid hctl (by rw [hself]; exact hrun) (fun i hi e => ?_) hjnd
  rw [hths i hi e]
  refine ⟨hGop _ _, hGterm _ _, fun hb => ?_⟩
  obtain ⟨h1, h2, h3⟩ := hGblk _ _ hb
  exact ((hJ.thr i hi).blk h1).frame (fun _ h => h) (hGop _ _) h2 h3 (hv i · · hb)

end

/-! ### the entry functions of `unpark` and `wake` -/

theorem unpark_operation (t u : Thread) : (t.unpark u).operation = t.operation := by
  unfold Thread.unpark Thread.setUnparked
  simp only
  split
  · rfl
  · split <;> rfl

theorem unpark_blocked {t u : Thread} (h : (t.unpark u).state = .blocked) :
    t.state = .blocked ∧ (t.unpark u).parked = t.parked ∧ (t.parked = true → (t.unpark u).token = t.token) := by
  rw [unpark_state] at h
  rw [unpark_parked]
  cases hp : t.parked with
  | true =>
    rw [setUnparked_parked hp] at h
    cases h
  | false =>
    rw [(setUnparked_state_of_not_parked hp).1] at h
    exact ⟨h, (setUnparked_state_of_not_parked hp).2.1, fun hh => by cases hh⟩

theorem unpark_terminated {t u : Thread} (h : (t.unpark u).state = .terminated) : t.state = .terminated := by
  rw [unpark_state] at h
  cases hp : t.parked with
  | true =>
    rw [setUnparked_parked hp] at h
    cases h
  | false =>
    rw [(setUnparked_state_of_not_parked hp).1] at h
    exact h

theorem wakeFrom_operation (t u : Thread) : (t.wakeFrom u).operation = t.operation := by
  unfold Thread.wakeFrom
  simp only
  split <;> rfl

theorem wakeFrom_blocked {t u : Thread} (h : (t.wakeFrom u).state = .blocked) :
    t.state = .blocked ∧ t.parked = true ∧ (t.wakeFrom u).parked = t.parked := by
  by_cases hc : t.state = .blocked ∧ t.parked = false
  · rw [C08.wakeFrom_blocked hc.1 hc.2] at h
    simp at h
  · have hc' : t.state ≠ .blocked ∨ t.parked = true := by
      by_cases hb : t.state = .blocked
      · right
        cases hp : t.parked with
        | true => rfl
        | false => exact absurd ⟨hb, hp⟩ hc
      · exact .inl hb
    rw [wakeFrom_other hc'] at h ⊢
    have hb : t.state = .blocked := h
    rcases hc' with h1 | h1
    · exact absurd hb h1
    · exact ⟨hb, h1, rfl⟩

theorem wakeFrom_terminated {t u : Thread} (h : (t.wakeFrom u).state = .terminated) : t.state = .terminated := by
  by_cases hc : t.state = .blocked ∧ t.parked = false
  · rw [C08.wakeFrom_blocked hc.1 hc.2] at h
    simp at h
  · have hc' : t.state ≠ .blocked ∨ t.parked = true := by
      by_cases hb : t.state = .blocked
      · right
        cases hp : t.parked with
        | true => rfl
        | false => exact absurd ⟨hb, hp⟩ hc
      · exact .inl hb
    rw [wakeFrom_other hc'] at h
    exact h

end Deadlock2
end LoomVerif

/-
Deadlock soundness, FUTURES fragment, part 7: the branch point of an atomic primitive; the first half of
`Notify::wait` (the one scheduling point of the fragment at which a deadlock can be reported, besides `thread_done`);
and the deadlocked reference state in the three cases: the active thread blocks in `join` (the joined thread has not
finished), in the `Notify::wait` of a `block_on` (after the poll that found the future pending: the reference takes
the step phase 3 → 4 and is not notified), or terminates while other threads are blocked.
-/
import LoomVerif.Proofs.Deadlock3Fin

set_option linter.unusedSimpArgs false
set_option linter.unusedVariables false

namespace LoomVerif
namespace Deadlock3
open Refine Refine4 Deadlock Deadlock2

section
variable {w w1 : World} {s : SC.St} {G : TCtl → TCtl} {H : Option Nat} {K : List Nat} {Fu : List FutSt}

/-! ### the branch point of an atomic primitive -/

theorem out_primStart (c : Ctx w s) (m : Mid w w1 G H K Fu) (x : Nat) (p : Prim) (next : Nat)
    (P : Pos w (fun c => { { G c with prim := some p } with stage := next }) H K Fu (ovW w1))
    (hw : wpos w.prog ({ { G (w.ctlOf w.tid) with prim := some p } with stage := next }) = none) :
    Out w s (w1.primStart x p next) := by
  unfold World.primStart
  split
  · exact out_branch c ((m.modCtl fun c => { c with prim := some p }).setStage next) P _ _ hw
  · exact out_ok c ((m.modCtl fun c => { c with prim := some p }).setStage next) P

/-! ### the path, the `did_spur` flag -/

theorem Mid.setPath (m : Mid w w1 G H K Fu) (p : Path)
    (hp : w1.exec.path.WF ∧ AllOK w1.exec.path → p.WF ∧ AllOK p) (hrp : ReplayOK w1.exec.path → ReplayOK p) :
    Mid w (w1.setPath p) G H K Fu :=
  m.same rfl rfl rfl rfl rfl (TSame.refl _) (OvEq.refl _) hp hrp

theorem Mid.didSpur (m : Mid w w1 G H K Fu) {o : Nat} {ns : NotifySt} (hn : w1.exec.objs[o]? = some (.notify ns)) :
    Mid w (w1.setObj o (.notify { ns with didSpur := true })) G H K Fu := by
  refine m.same rfl rfl rfl rfl rfl (TSame.refl _) ?_ id id
  show OvEq (w1.exec.objs.map ov4) ((w1.exec.objs.set o _).map ov4)
  rw [ov_set]
  exact ovEq_set_didSpur (x := ns.spurious) (y := ns.notified) (z := ns.didSpur)
    (by rw [List.getElem?_map, hn]; rfl)

/-! ### the first half of `Notify::wait` -/

/-- the branch point of the wait, followed by the record of the next stage -/
theorem out_waitBranch (c : Ctx w s) (m : Mid w w1 G none [] Fu) {o : Nat} (b : Bool) (g : TCtl → TCtl)
    (P : Pos w (fun c => g (G c)) none [] Fu (ovW w1))
    (hO : OpAt4 w.prog w.spawned Fu (g (G (w.ctlOf w.tid))) (some ⟨o, .opaque, b⟩))
    (hb : b = true → Unavail (ovW w1) o) (hnb : b = false → ¬ Unavail (ovW w1) o)
    (hD : Unavail (ovW w1) o →
      (∀ j, j < w.ctl.length → j ≠ w.tid →
        (w1.ths.get j).state = .blocked ∨ (w1.ths.get j).state = .terminated) → DeadFrom w.prog s)
    (st : Nat) (k : World × Nat → Except Panic World) (hk : ∀ w2, k (w2, st) = pure (w2.modCtl w1.tid g)) :
    Out w s ((w1.branch o .opaque b b).map (·, st) >>= k) := by
  rw [branch_point]
  have m' := m.modCtl g
  have hsame : schedOn (w1.modCtl w1.tid g) (branchF o .opaque b b) = schedOn w1 (branchF o .opaque b b) := rfl
  cases hs : schedOn w1 (branchF o .opaque b b) with
  | error e =>
    show Out w s (Except.error e)
    intro he
    subst he
    cases b with
    | false =>
      exfalso
      refine no_dl_of_state c m ?_ hs
      have : (branchF o .opaque false false (w1.ths.get w.tid)).state = (w1.ths.get w.tid).state := by
        rw [branchF_state]; rfl
      rw [this]; exact m.run
    | true => exact hD (hb rfl) (stuck_of_dl c m hs).1
  | ok x =>
    show Out w s (k ({ w1 with exec := x.1 }, st))
    rw [hk]
    have := sched_ok c m' P (F := branchF o .opaque b b) (x := x) (by rw [hsame]; exact hs)
      (by rw [branchF_operation]; exact hO)
      (by
        intro hbl
        rw [branchF_state] at hbl
        rw [branchF_operation]
        cases b with
        | false => exact absurd hbl m.run.1
        | true => exact ⟨_, rfl, rfl, hb rfl⟩)
      (by
        intro ht
        rw [branchF_state] at ht
        cases b with
        | false => exact absurd ht m.run.2
        | true => cases ht)
      (by
        intro _ hs' op hop
        rw [branchF_state] at hs'
        rw [branchF_operation] at hop
        cases hop
        cases b with
        | false => exact hnb rfl
        | true => exact absurd rfl hs')
    exact this

/-- **the first half of `Notify::wait`**, followed by the record of the next stage (`stg 1`: the second half of the
wait; `stg 2`: after the one spurious return) -/
theorem out_wait1 (c : Ctx w s) (m : Mid w w1 G none [] Fu) {o : Nat} (stg : Nat → Nat)
    (P : ∀ st ov1, Pos w (fun c => { G c with stage := stg st }) none [] Fu ov1)
    (hO : ∀ bl, OpAt4 w.prog w.spawned Fu { G (w.ctlOf w.tid) with stage := stg 1 } (some ⟨o, .opaque, bl⟩))
    (hw2 : wpos w.prog { G (w.ctlOf w.tid) with stage := stg 2 } = none)
    (hD : ∀ w2 : World, Mid w w2 G none [] Fu → ovW w2 = ovW w1 → Unavail (ovW w2) o →
      (∀ j, j < w.ctl.length → j ≠ w.tid →
        (w2.ths.get j).state = .blocked ∨ (w2.ths.get j).state = .terminated) → DeadFrom w.prog s)
    (k : World × Nat → Except Panic World)
    (hk : ∀ w2 st, k (w2, st) = pure (w2.modCtl w1.tid fun c => { c with stage := stg st })) :
    Out w s (w1.notifyWait1 o >>= k) := by
  cases hg : w1.getNotify o with
  | error e =>
    have : w1.notifyWait1 o = .error e := by
      unfold World.notifyWait1
      simp [hg, bind, Except.bind]
    rw [this]
    exact out_of_ne rfl ((getNotify_noDL w1 o).h e hg)
  | ok ns =>
    have hn := getNotify_ok4 hg
    have hv : (ovW w1)[o]? = some (.notify ns.spurious ns.notified ns.didSpur) := by
      show (w1.exec.objs.map ov4)[o]? = _
      rw [List.getElem?_map, hn]; rfl
    have hun : (!ns.notified) = true → Unavail (ovW w1) o := by
      intro h
      have : ns.notified = false := by simpa using h
      exact .inr ⟨_, _, by rw [hv, this]⟩
    have hav : (!ns.notified) = false → ¬ Unavail (ovW w1) o := by
      intro h
      have : ns.notified = true := by simpa using h
      rw [this] at hv
      rintro (⟨l, hl⟩ | ⟨sp, ds, hn⟩)
      · rw [hv] at hl; cases hl
      · rw [hv] at hn; cases hn
    by_cases hsp : (ns.spurious && !ns.didSpur) = false
    · rw [C08.notifyWait1_plain hn hsp]
      exact out_waitBranch c m (!ns.notified) (fun c => { c with stage := stg 1 }) (P 1 _) (hO _) hun hav
        (hD w1 m rfl) 1 k (fun w2 => hk w2 1)
    · have h1 : ns.spurious = true := by cases hh : ns.spurious <;> simp [hh] at hsp ⊢
      have h2 : ns.didSpur = false := by cases hh : ns.didSpur <;> simp [hh] at hsp ⊢
      rw [C08.notifyWait1_maySpur hn h1 h2]
      cases hb : w1.exec.path.branchSpurious w1.panicking with
      | error e =>
        show Out w s (Except.error e)
        exact out_of_ne rfl ((Path.branchSpurious_noDL _ _).h e hb)
      | ok r =>
        obtain ⟨p, bs⟩ := r
        have hp : w1.exec.path.WF ∧ AllOK w1.exec.path → p.WF ∧ AllOK p :=
          fun h => branchSpurious_allOK hb h.1 h.2
        have hrp : ReplayOK w1.exec.path → ReplayOK p := branchSpurious_replayOK hb
        cases bs with
        | false =>
          simp only
          have m2 := m.setPath p hp hrp
          exact out_waitBranch c m2 (!ns.notified) (fun c => { c with stage := stg 1 }) (P 1 _) (hO _) hun hav
            (hD _ m2 rfl) 1 k (fun w2 => hk w2 1)
        | true =>
          simp only
          -- the spurious return: `did_spur` is set, the thread yields
          have m3 := (m.setPath p hp hrp).didSpur (o := o) (ns := ns) hn
          have m3' := m3.modCtl fun c => { c with stage := stg 2 }
          rw [yield_point]
          cases hs : schedOn ((w1.setPath p).setObj o (.notify { ns with didSpur := true }))
              (yieldF ((w1.setPath p).setObj o (.notify { ns with didSpur := true })).tid) with
          | error e =>
            show Out w s (Except.error e)
            intro he
            subst he
            exfalso
            refine no_dl_of_state c m3 ?_ hs
            exact ⟨by show TState.yield ≠ _; simp, by show TState.yield ≠ _; simp⟩
          | ok x =>
            show Out w s (k ({ ((w1.setPath p).setObj o (.notify { ns with didSpur := true })) with
              exec := x.1 }, 2))
            rw [hk]
            exact sched_ok c m3' (P 2 _) (x := x) hs
              (by
                show OpAt4 _ _ _ _ none
                unfold OpAt4; rw [hw2]
                intro op e; cases e)
              (by intro hbl; cases hbl) (by intro ht; cases ht)
              (by intro h; rw [hw2] at h; cases h)

/-! ### the deadlocked reference state -/

theorem pendN_none_of_op {p : Prog} {c : TCtl} (h : opOfCtl p c = none) : pendN p c = none := by
  unfold pendN; rw [h]

/-- **the active thread blocks in `join b`**: the joined thread has not finished -/
theorem dead_join (c : Ctx w s) (m : Mid w w1 G none [] Fu) {b t n : Nat} (hop : opAt w = some (.join b))
    (hst : (w.ctlOf w.tid).stage = 0) (hmem : (b, t, n) ∈ w.spawned) (hun : Unavail (ovW w1) n)
    (hstuck : ∀ j, j < w.ctl.length → j ≠ w.tid →
      (w1.ths.get j).state = .blocked ∨ (w1.ths.get j).state = .terminated) : DeadFrom w.prog s := by
  have hopc : opOfCtl w.prog (w.ctlOf w.tid) = some (.join b) := hop
  obtain ⟨_, _, hpl, _, _⟩ := act4 c.r c.act
  have hsy := sync4 c.r c.act (by rw [hop, hst]; rfl)
  refine ⟨s, .inl rfl, dead_of_stuck c m (PhaseOnly.refl _ _) ?_ hstuck ?_ (fun _ => running4 c.r c.act hop)⟩
  · simp only [pendN, hopc]
  · exact en_join hpl (hsy.1.trans hop) (join_unfinished c m c.act hopc hmem hun)

/-- **the active thread terminates** while every other thread is blocked or terminated, and one of them is
blocked -/
theorem dead_done (c : Ctx w s) (m : Mid w w1 G none [] Fu) (hop : opAt w = none)
    (h10 : 10 ≤ (w.ctlOf w.tid).fin)
    (hstuck : ∀ j, j < w.ctl.length → j ≠ w.tid →
      (w1.ths.get j).state = .blocked ∨ (w1.ths.get j).state = .terminated)
    (hnot : ¬ ∀ j, j < w.ctl.length → j ≠ w.tid → (w1.ths.get j).state = .terminated) :
    DeadFrom w.prog s := by
  obtain ⟨_, _, _, _, hfin⟩ := act4 c.r c.act
  refine ⟨s, .inl rfl, dead_of_stuck c m (PhaseOnly.refl _ _) (pendN_none_of_op hop) hstuck ?_
    (fun hall => absurd hall hnot)⟩
  refine en_finished ?_
  rw [hfin]
  simpa using h10

/-- **the active thread blocks in the `Notify::wait` of `blockOn f mode`** after the poll (stage 15) that found the
future pending: the reference takes the step phase 3 → 4; its call is not notified -/
theorem dead_call (c : Ctx w s) (m : Mid w w1 G none [] Fu) {f mode : Nat} (hop : opAt w = some (.blockOn f mode))
    (hst : (w.ctlOf w.tid).stage = 15) (h4 : mode ≠ 4) (hat : (data4 s).atom f ≠ 1)
    (hun : Unavail (ovW w1) (w.futs.getD f {}).notify)
    (hstuck : ∀ j, j < w.ctl.length → j ≠ w.tid →
      (w1.ths.get j).state = .blocked ∨ (w1.ths.get j).state = .terminated) : DeadFrom w.prog s := by
  have hopc : opOfCtl w.prog (w.ctlOf w.tid) = some (.blockOn f mode) := hop
  have hsok := stage_ok c.r c.act hop
  rw [hst] at hsok
  have h5 : mode ≠ 5 := by simpa [boStageOk] using hsok
  have hmc := mode_cases c.wf.1 hop h5
  have h2' : mode ≠ 2 := by rcases hmc with e | e | e | e <;> omega
  obtain ⟨_, _, hpl, _, _⟩ := act4 c.r c.act
  have hsy := sync4 c.r c.act (by rw [hop, hst]; rfl)
  obtain ⟨hrun1, hrun2⟩ := running4 c.r c.act hop
  have hph : (s.th (w.ctlOf w.tid).body).phase = 3 := by rw [hsy.2.2.2, hop, hst]; rfl
  obtain ⟨s1, hstep, hdata⟩ := sc_step_bo3 (f := f) (mode := mode) hpl (hsy.1.trans hop) hph h2'
  have hen : SC.enabled w.prog s (w.ctlOf w.tid).body = true :=
    sc_enabled_op c.r.verdict hpl hrun1 hrun2 (hsy.1.trans hop) (c.wf.1.opOk hop) (by
      show ((s.th _).phase != 4 || _) = true
      rw [hph]; rfl)
  have e : ((data4 s).atom f == 1) = false := by simpa using hat
  have e4 : (mode == 4) = false := by simpa using h4
  have hdata' : data4 s1 = (data4 s).modTh (w.ctlOf w.tid).body fun h => { h with phase := 4 } := by
    rw [hdata, e]; simp [e4]
  have hp : PhaseOnly s s1 (w.ctlOf w.tid).body := phaseOnly_of_data hdata' (fun _ => ⟨rfl, rfl⟩)
  have hpend : pendN w.prog (w.ctlOf w.tid) = none := by simp only [pendN, hopc, hst]
  -- the call of the active thread
  have hca : caOf w.prog w.ctl w.tid = some (f, mode, false) :=
    callOf_in hopc h5 (by show phaseOfStage (w.ctlOf w.tid).stage ≠ 0; rw [hst]; decide)
  obtain ⟨hf, nt, ds, hnv, _, hiff, _⟩ := c.r.f.c.call w.tid f mode false c.act hca
  have hv : (ovW w)[(w.futs.getD f {}).notify]? = some (.notify true nt ds) := nvOf_some.1 hnv
  have hnt : nt = false := by
    cases nt with
    | false => rfl
    | true =>
      obtain ⟨ds', h'⟩ := m.nmono _ true ds (by simp) hv
      rcases hun with ⟨l, hl⟩ | ⟨sp, d2, hn⟩
      · rw [h'] at hl; cases hl
      · rw [h'] at hn; cases hn
  have hnf : (s.futs.getD f {}).notified = false := by
    cases hh : (s.futs.getD f {}).notified with
    | false => rfl
    | true =>
      exfalso
      have hh' : ((data4 s).futs.getD f {}).notified = true := by
        have := data4_fut s f
        show ((data4 s).fut f).notified = true
        rw [this]; exact hh
      rcases hiff.1 hh' with e' | ⟨j, hj, hpj⟩
      · rw [hnt] at e'; cases e'
      · have hpj' : pendN w.prog (w.ctlOf j) = some (w.futs.getD f {}).notify := hpj
        by_cases hjt : j = w.tid
        · subst hjt; rw [hpend] at hpj'; cases hpj'
        · rcases stuck_pos c m hj hjt (hstuck j hj hjt) with h | h
          · exact h (wpos_of_pendN hpj')
          · exact pendN_op hpj' h
  have hb := body_lt c.r c.act
  have hth : dth4 (s1.th (w.ctlOf w.tid).body) =
      { dth4 (s.th (w.ctlOf w.tid).body) with phase := 4 } := by
    rw [th_of_data hdata' _, SCData4.th_modTh_self _ _ _ hb, data4_th]
  refine ⟨s1, .inr ⟨_, hen, by rw [hstep]; exact List.mem_singleton.2 rfl⟩,
    dead_of_stuck c m hp hpend hstuck ?_ (fun _ => ⟨by rw [hp.started]; exact hrun1, by rw [hp.fin]; exact hrun2⟩)⟩
  have hpl1 : Plain (s1.th (w.ctlOf w.tid).body) := plain_of (by
    rw [hth]
    obtain ⟨_, hrel, _⟩ := act4 c.r c.act
    exact hrel.2.2.1)
  have hpc1 : (s1.th (w.ctlOf w.tid).body).pc = (s.th (w.ctlOf w.tid).body).pc := congrArg DTh4.pc hth
  have hop1 : SC.opOf w.prog s1 (w.ctlOf w.tid).body = some (.blockOn f mode) := by
    unfold SC.opOf
    rw [hpc1]
    exact hsy.1.trans hop
  have hph1 : (s1.th (w.ctlOf w.tid).body).phase = 4 := congrArg DTh4.phase hth
  have hnf1 : (s1.futs.getD f {}).notified = false := (congrArg DFut.notified (hp.futs f)).trans hnf
  exact en_bo4 hpl1 hop1 hph1 hnf1

end

end Deadlock3
end LoomVerif

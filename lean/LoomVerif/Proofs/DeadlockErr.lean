/-
Deadlock soundness, part 8: what the states of the loom threads mean in the reference state (`blocked_disabled`,
`runnable_enabled`), and **a stage that panics with "deadlock" does so in a deadlocked reference state**
(`step_deadlock`).
-/
import LoomVerif.Proofs.DeadlockPres

namespace LoomVerif
namespace Deadlock
open Refine Sy C07 C08

/-- a deadlocked state of the reference semantics: no thread is enabled, some started thread has not finished -/
def Dead (p : Prog) (s : SCData) : Prop :=
  (∀ t, SCData.enabled p s t = false) ∧ ∃ t, (s.th t).started = true ∧ (s.th t).finished = false

section
variable {w : World} {s : SCData}

theorem opOf_body (hR : R w s) {i : Nat} (hi : i < w.ctl.length) :
    SCData.opOf w.prog s (w.ctlOf i).body = opAtOf w i := by
  have h2 := (hR.x.thr i hi).2
  unfold SCData.opOf opAtOf opOfC
  have : (s.th (w.ctlOf i).body).pc = (w.ctlOf i).pc := h2.2.1
  rw [this]

theorem fin_zero_of_op (hR : R w s) {i : Nat} (hi : i < w.ctl.length) {op : Op}
    (hop : opAtOf w i = some op) : (w.ctlOf i).fin = 0 := by
  apply Classical.byContradiction
  intro hne
  have := hR.x.epi i hi hne
  unfold opAtOf opOfC at hop
  rw [show w.ctl.getD i {} = w.ctlOf i from rfl] at this
  rw [this] at hop; cases hop

theorem alive_of_op (hR : R w s) {i : Nat} (hi : i < w.ctl.length) {op : Op} (hop : opAtOf w i = some op) :
    (s.th (w.ctlOf i).body).started = true ∧ (s.th (w.ctlOf i).body).finished = false := by
  have h2 := (hR.x.thr i hi).2
  refine ⟨h2.1, ?_⟩
  have hf : (s.th (w.ctlOf i).body).finished = decide (10 ≤ (w.ctlOf i).fin) := h2.2.2.2.1
  rw [hf, fin_zero_of_op hR hi hop]; rfl

/-- a held mutex: the reference `lock` is disabled -/
theorem lock_disabled (hwf : WF w.prog) (hR : R w s) {i m : Nat} {l : Option Nat} (hi : i < w.ctl.length)
    (hop : opAtOf w i = some (.lock m)) (hv : objView w.exec.objs (mobj w.prog m) = some (.mutex l))
    (hl : l.isSome = true) : SCData.enabled w.prog s (w.ctlOf i).body = false := by
  have hok := hwf.1.opOk (show (w.prog.threads.getD (w.ctlOf i).body [])[(w.ctlOf i).pc]? = _ from hop)
  simp only [opOk, decide_eq_true_eq] at hok
  obtain ⟨l', hv', hmap, _⟩ := hR.y.mtx m hok
  have : l' = l := by
    have e : objView w.exec.objs (mobj w.prog m) = some (.mutex l') := hv'
    rw [hv] at e; cases e; rfl
  subst this
  unfold SCData.enabled
  rw [opOf_body hR hi, hop]
  simp only [← hmap]
  cases l' with
  | none => cases hl
  | some x => simp

/-- an unfinished joined thread: the reference `join` is disabled -/
theorem finished_iff (hR : R w s) {b t n : Nat} (hm : (b, t, n) ∈ w.spawned) :
    (s.th b).finished = decide (10 ≤ (w.ctlOf t).fin) := by
  obtain ⟨ht, hb, _⟩ := hR.y.sp b t n hm
  have := (hR.x.thr t ht).2.2.2.2.1
  rw [← hb]; exact this

theorem join_disabled (hR : R w s) {i b t n : Nat} (hi : i < w.ctl.length)
    (hop : opAtOf w i = some (.join b)) (hm : (b, t, n) ∈ w.spawned) (hlt : (w.ctlOf t).fin < 10) :
    SCData.enabled w.prog s (w.ctlOf i).body = false := by
  unfold SCData.enabled
  rw [opOf_body hR hi, hop]
  simp only [finished_iff hR hm]
  have : decide (10 ≤ (w.ctlOf t).fin) = false := by simp; omega
  rw [this]; simp

/-- **blocked / terminated means disabled**: a loom thread that is not runnable is not enabled in the reference
state; if it is blocked it is a started thread that has not finished, pending on a `lock` of a held mutex or on a
`join` of an unfinished thread (never on a `tryLock`) -/
theorem not_runnable_disabled (hwf : WF w.prog) (hRB : RB w s) {i : Nat} (hi : i < w.ctl.length)
    (hnr : (w.ths.get i).state ≠ .runnable) :
    SCData.enabled w.prog s (w.ctlOf i).body = false ∧
    ((w.ths.get i).state ≠ .terminated →
      (s.th (w.ctlOf i).body).started = true ∧ (s.th (w.ctlOf i).body).finished = false) := by
  have hJ : JTd w.prog w.spawned w.exec.objs (fun t => (w.ctlOf t).fin) (i = w.tid) (w.ths.get i) (w.ctlOf i) :=
    hRB.j.thr i hi
  have hR := hRB.r
  have h2 := (hR.x.thr i hi).2
  cases hst : (w.ths.get i).state with
  | runnable => exact absurd hst hnr
  | yield => exact absurd hst hJ.noYield
  | terminated =>
    refine ⟨?_, fun hne => absurd rfl hne⟩
    have hf : (s.th (w.ctlOf i).body).finished = decide (10 ≤ (w.ctlOf i).fin) := h2.2.2.2.1
    unfold SCData.enabled
    rw [hf, hJ.term hst]
    simp
  | blocked =>
    by_cases h1 : (w.ctlOf i).stage = 1
    · cases hJ.st1 h1 with
      | lock m l a b x d =>
        exact ⟨lock_disabled hwf hR hi a x (d.1 hst), fun _ => alive_of_op hR hi a⟩
      | tryLock m a b x => exact absurd hst x
      | join b t n wt a e f g =>
        exact ⟨join_disabled hR hi a e (g.1 hst), fun _ => alive_of_op hR hi a⟩
    · exact absurd hst (hJ.st0 h1).1

/-- **blocked means disabled** -/
theorem blocked_disabled (hwf : WF w.prog) (hRB : RB w s) {i : Nat} (hi : i < w.ctl.length)
    (hb : (w.ths.get i).state = .blocked) :
    SCData.enabled w.prog s (w.ctlOf i).body = false ∧
    (s.th (w.ctlOf i).body).started = true ∧ (s.th (w.ctlOf i).body).finished = false ∧
    ((∃ m, opAtOf w i = some (.lock m) ∧ (s.mutex.getD m none).isSome = true) ∨
     (∃ b, opAtOf w i = some (.join b) ∧ (s.th b).finished = false)) := by
  obtain ⟨h1, h2⟩ := not_runnable_disabled hwf hRB hi (by rw [hb]; simp)
  obtain ⟨h3, h4⟩ := h2 (by rw [hb]; simp)
  refine ⟨h1, h3, h4, ?_⟩
  have hJ : JTd w.prog w.spawned w.exec.objs (fun t => (w.ctlOf t).fin) (i = w.tid) (w.ths.get i) (w.ctlOf i) :=
    hRB.j.thr i hi
  have hR := hRB.r
  by_cases hs1 : (w.ctlOf i).stage = 1
  · cases hJ.st1 hs1 with
    | lock m l a b x d =>
      refine .inl ⟨m, a, ?_⟩
      have hok := hwf.1.opOk (show (w.prog.threads.getD (w.ctlOf i).body [])[(w.ctlOf i).pc]? = _ from a)
      simp only [opOk, decide_eq_true_eq] at hok
      obtain ⟨l', hv', hmap, _⟩ := hR.y.mtx m hok
      have : l' = l := by
        have e : objView w.exec.objs (mobj w.prog m) = some (.mutex l') := hv'
        rw [x] at e; cases e; rfl
      subst this
      rw [← hmap]
      have := d.1 hb
      cases l' with
      | none => cases this
      | some x => rfl
    | tryLock m a b x => exact absurd hb x
    | join b t n wt a e f g =>
      refine .inr ⟨b, a, ?_⟩
      rw [finished_iff hR e]
      have := g.1 hb
      simp; omega
  · exact absurd hb (hJ.st0 hs1).1

/-- **runnable past the branch point means enabled**: a loom thread that is runnable after the branch point of its
`lock` / `tryLock` / `join` is enabled in the reference state (the mutex is free, the joined thread has finished) -/
theorem runnable_enabled (hwf : WF w.prog) (hRB : RB w s) {i : Nat} (hi : i < w.ctl.length)
    (hr : (w.ths.get i).state = .runnable) (hs1 : (w.ctlOf i).stage = 1) :
    SCData.enabled w.prog s (w.ctlOf i).body = true := by
  have hJ : JTd w.prog w.spawned w.exec.objs (fun t => (w.ctlOf t).fin) (i = w.tid) (w.ths.get i) (w.ctlOf i) :=
    hRB.j.thr i hi
  have hR := hRB.r
  have hnb : ¬ (w.ths.get i).state = .blocked := by rw [hr]; simp
  cases hJ.st1 hs1 with
  | lock m l a b x d =>
    obtain ⟨h3, h4⟩ := alive_of_op hR hi a
    have hok := hwf.1.opOk (show (w.prog.threads.getD (w.ctlOf i).body [])[(w.ctlOf i).pc]? = _ from a)
    simp only [opOk, decide_eq_true_eq] at hok
    obtain ⟨l', hv', hmap, _⟩ := hR.y.mtx m hok
    have : l' = l := by
      have e : objView w.exec.objs (mobj w.prog m) = some (.mutex l') := hv'
      rw [x] at e; cases e; rfl
    subst this
    unfold SCData.enabled
    rw [opOf_body hR hi, show opAtOf w i = _ from a, h3, h4]
    simp only [← hmap]
    cases l' with
    | none => rfl
    | some y => exact absurd (d.2 rfl) hnb
  | tryLock m a b x =>
    obtain ⟨h3, h4⟩ := alive_of_op hR hi a
    unfold SCData.enabled
    rw [opOf_body hR hi, show opAtOf w i = _ from a, h3, h4]; rfl
  | join b t n wt a e f g =>
    obtain ⟨h3, h4⟩ := alive_of_op hR hi a
    unfold SCData.enabled
    rw [opOf_body hR hi, show opAtOf w i = _ from a, h3, h4]
    simp only [finished_iff hR e]
    have : ¬ (w.ctlOf t).fin < 10 := fun hlt => hnb (g.2 hlt)
    simp; omega

/-- no thread enabled, as soon as no body run by a loom thread is -/
theorem none_enabled (hR : R w s)
    (h : ∀ i, i < w.ctl.length → SCData.enabled w.prog s (w.ctlOf i).body = false) :
    ∀ t, SCData.enabled w.prog s t = false := by
  intro t
  by_cases hex : ∃ i, i < w.ctl.length ∧ (w.ctlOf i).body = t
  · obtain ⟨i, hi, rfl⟩ := hex
    exact h i hi
  · have hdef : s.th t = {} := by
      by_cases ht : t < w.prog.threads.length
      · exact hR.x.idle t ht (fun i hi e => hex ⟨i, hi, e⟩)
      · unfold SCData.th
        have : s.ths[t]? = none := List.getElem?_eq_none (by rw [hR.x.len]; omega)
        simp [List.getD, this]
    unfold SCData.enabled
    rw [hdef]; rfl

/-- **the deadlock test of a scheduling point, in the reference state**: if, the active thread's entry rewritten by
`F`, no thread is runnable and some thread is not terminated, and the rewritten entry of the active thread (when it
is not runnable) stands for a disabled reference thread, alive unless terminated, then the reference state is
deadlocked -/
theorem dead_of_schedOn (hwf : WF w.prog) (hRB : RB w s) (hact : w.tid < w.ctl.length) {F : Thread → Thread}
    (hs : schedOn w F = .error .deadlock)
    (hF : (F (w.ths.get w.tid)).state ≠ .runnable →
      (F (w.ths.get w.tid)).state ≠ (w.ths.get w.tid).state →
      SCData.enabled w.prog s (w.ctlOf w.tid).body = false ∧
      ((F (w.ths.get w.tid)).state ≠ .terminated →
        (s.th (w.ctlOf w.tid).body).started = true ∧ (s.th (w.ctlOf w.tid).body).finished = false)) :
    Dead w.prog s := by
  have hR := hRB.r
  have hin : w.tid < w.exec.threads.threads.length := by rw [← hR.lenCtl]; exact hact
  obtain ⟨hno, i0, hi0, hnt⟩ := schedOn_deadlock hs hRB.path hin
  have key : ∀ i, i < w.ctl.length →
      SCData.enabled w.prog s (w.ctlOf i).body = false ∧
      ((entryOn w F i).state ≠ .terminated →
        (s.th (w.ctlOf i).body).started = true ∧ (s.th (w.ctlOf i).body).finished = false) := by
    intro i hi
    have hnr := hno i (by rw [← hR.lenCtl]; exact hi)
    by_cases e : i = w.tid
    · subst e
      have hE : entryOn w F w.tid = F (w.ths.get w.tid) := by unfold entryOn; rw [if_pos rfl]
      rw [hE] at hnr ⊢
      by_cases hsame : (F (w.ths.get w.tid)).state = (w.ths.get w.tid).state
      · rw [hsame] at hnr ⊢
        exact not_runnable_disabled hwf hRB hi hnr
      · exact hF hnr hsame
    · have hE : entryOn w F i = w.ths.get i := by unfold entryOn; rw [if_neg e]
      rw [hE] at hnr ⊢
      exact not_runnable_disabled hwf hRB hi hnr
  refine ⟨none_enabled hR (fun i hi => (key i hi).1), ?_⟩
  have hi0' : i0 < w.ctl.length := by rw [hR.lenCtl]; exact hi0
  exact ⟨_, (key i0 hi0').2 hnt⟩

theorem branch_error {w : World} {o : Nat} {a : Action} {blk wt : Bool} {e : Panic}
    (h : w.branch o a blk wt = .error e) : schedOn w (branchF o a blk wt) = .error e := by
  rw [branch_schedOn] at h
  exact bind_pure_error h

theorem threadDone_error {w : World} {e : Panic} (h : w.threadDone = .error e) :
    schedOn w (fun th => { th.setTerminated with operation := none }) = .error e := by
  rw [threadDone_schedOn] at h
  exact bind_pure_error h

end

end Deadlock
end LoomVerif

import LoomVerif.Proofs.Race2Rel

namespace LoomVerif
namespace Race2
open Refine Refine2 Sy C07 C08 Clocks Race

/-!
Race exactness on the WAIT fragment: `nNotify n` / `nWait n` (user-level `rt::Notify`, slot `nI w.prog n`) keep `RC2`.

* `nNotify`: the branch point is quiet; the effect is THE reference step: a release into the slot; no other thread's
  clocks change (`Notify::notify` only wakes: repair of finding F26), and the pending clock of a waiter (the slot
  of the NEW system) only grows.
* `nWait`: stage 0 (registration, spurious decision, scheduling point) is quiet; stage 1 is THE reference step (the
  pending acquisition becomes official: `sandwich_join`); stage 2 is the spurious return (`SC.spurious`).
-/

/-! ### the data semantics at `nWait` -/

theorem spuriousL_nFlag {p : Prog} {d d' : SCData2} {t : Nat} {l : Option (Nat × Ret)}
    (h : (l, d') ∈ SCData2.spuriousL p d t) : d'.nFlag = d.nFlag := by
  unfold SCData2.spuriousL at h
  dsimp only at h
  by_cases hc : (!(d.th t).started || (d.th t).finished || (d.th t).cvWaiting.isSome ||
      (d.th t).cvNotified.isSome) = true
  · rw [if_pos hc] at h; cases h
  · rw [if_neg hc] at h
    cases ho : SCData2.opOf p d t with
    | none => rw [ho] at h; cases h
    | some op =>
      rw [ho] at h
      cases op
      case nWait n =>
        dsimp only at h
        split at h
        · simp only [List.mem_singleton, Prod.mk.injEq] at h
          rw [h.2]; rfl
        · cases h
      all_goals (cases h)

theorem stepL_nWait_nFlag {p : Prog} {d d' : SCData2} {t n : Nat} {l : Option (Nat × Ret)}
    (hcv : (d.th t).cvNotified = none) (ho : SCData2.opOf p d t = some (.nWait n))
    (h : (l, d') ∈ SCData2.stepL p d t) : d'.nFlag = d.nFlag.set n false := by
  unfold SCData2.stepL at h
  simp only [hcv, ho, List.mem_singleton, Prod.mk.injEq] at h
  rw [h.2]; rfl

theorem enabled_nWait_flag {p : Prog} {d : SCData2} {t n : Nat}
    (hcw : (d.th t).cvWaiting = none) (hcv : (d.th t).cvNotified = none)
    (ho : SCData2.opOf p d t = some (.nWait n)) (h : SCData2.enabled p d t = true) :
    d.nFlag.getD n false = true := by
  unfold SCData2.enabled at h
  simp only [hcw, hcv, ho, Bool.and_eq_true] at h
  exact h.2

theorem getD_set_false (l : List Bool) (n : Nat) : (l.set n false).getD n false = false := by
  rw [List.getD_eq_getElem?_getD]
  by_cases h : n < l.length
  · simp [h]
  · simp [h]

section
variable {w w' : World} {s : SC.St}

/-- the facts about the reference thread of the active thread at `nWait` -/
theorem nWait_ref (hRC : RC2 w s) (hact : w.tid < w.ctl.length) {ni : Nat}
    (hop : opAt2 w = some (.nWait ni)) :
    (s.th (body w w.tid)).started = true ∧ (s.th (body w w.tid)).finished = false ∧
    (s.th (body w w.tid)).cvWaiting = none ∧ (s.th (body w w.tid)).cvNotified = none ∧
    SC.opOf w.prog s (body w w.tid) = some (.nWait ni) ∧
    ((data2 s).th (body w w.tid)).cvWaiting = none ∧ ((data2 s).th (body w w.tid)).cvNotified = none ∧
    SCData2.opOf w.prog (data2 s) (body w w.tid) = some (.nWait ni) := by
  have hC : pendCv w.prog (w.ctlOf w.tid) = none := pendCv_of_op hop (by simp)
  obtain ⟨hcw, hcv⟩ := frag_cv hRC hact hC
  obtain ⟨c1, c2⟩ := cv_none hRC.r.c hact hC
  have ho : SC.opOf w.prog s (body w w.tid) = some (.nWait ni) := (opOf_eq2 hRC.r hact).trans hop
  have hf0 := fin0 hRC hact hop
  obtain ⟨e1, e2⟩ := started_running2 hRC.r.c hact (by rw [show (w.ctlOf w.tid).fin = fin w w.tid from rfl, hf0]; omega)
  rw [show (w.ctlOf w.tid).body = body w w.tid from rfl, data2_th] at e1 e2
  exact ⟨e1, e2, hcw, hcv, ho, c1, c2, by rw [data2_opOf]; exact ho⟩

theorem pendN_tid {ni : Nat} (hop : opAt2 w = some (.nWait ni)) :
    pendN w.prog (w.ctl.getD w.tid {}) =
      if (w.ctlOf w.tid).stage = 0 then none else some (ni, (w.ctlOf w.tid).stage) := by
  have hop' : opOfCtl w.prog (w.ctl.getD w.tid {}) = some (.nWait ni) := hop
  unfold pendN
  rw [hop']
  rfl

/-! ### `nWait`, stage 2: the spurious return -/

theorem clk_nWait2_s2 (hRC : RC2 w s) (hact : w.tid < w.ctl.length) {ni : Nat}
    (hop : opAt2 w = some (.nWait ni)) (hn : ni < w.prog.cfg.nNotifies)
    (hst : (w.ctlOf w.tid).stage = 2) :
    SpurOut2 w s (({ w with notifyWaiting := w.notifyWaiting.set ni false } : World).complete .unit) := by
  obtain ⟨σT, σR, mT, mR, hc⟩ := hRC.clk
  have ht := nthr_tid2 hRC hact
  have hbt := body_lt_ths2 hRC.r hact
  obtain ⟨e1, e2, hcw, hcv, ho, c1, c2, hod⟩ := nWait_ref hRC hact hop
  have hcur : pendN w.prog (w.ctl.getD w.tid {}) = some (ni, 2) := by
    rw [pendN_tid hop, hst]; rfl
  obtain ⟨ds0, hv, a2, a3, a4, a5⟩ := hRC.r.c.o.n.n ni hn
  obtain ⟨hdt, hus⟩ := a4 w.tid hact hcur
  have hus' : s.nSpurUsed.getD ni true = false := hus
  have hpc : pendClk w σT w.tid = VV.zero := pendClk_stage0 (by rw [hst]; decide)
  have hI := complete_core2 (w' := ({ w with notifyWaiting := w.notifyWaiting.set ni false } : World).complete .unit)
    hRC hact hop hc.lt (σT' := σT) (mT' := mT)
    ({ w with notifyWaiting := w.notifyWaiting.set ni false } : World) .unit rfl rfl rfl rfl rfl rfl rfl
    (fun i _ => ⟨⟨rfl, rfl, rfl, rfl⟩, rfl⟩) rfl rfl rfl rfl (le_refl _)
    (fun _ _ => rfl) (eq_caus2 hc.lt ht hpc) (fun _ => le_refl _) (fun _ => rfl)
    (by intro n hn'; rw [pend_stage0 (by rw [hst]; decide)] at hn'; cases hn')
    (fun _ _ _ _ => rfl)
    (fun _ _ => .inl ⟨SameObj.refl _ _, rfl⟩) (fun _ _ => .inl ⟨SameObj.refl _ _, rfl⟩)
    (fun _ _ => .inl ⟨SameObj.refl _ _, rfl, rfl⟩) (fun _ _ => .inl ⟨SameObj.refl _ _, fun _ => rfl⟩)
  have hX1 := hc.x.tickR hc.gt hc.gr (inj_body2 hRC.r) w.tid hact
  refine ⟨rfl, fun _ => complete_not_stutter _ .unit rfl, ?_, _,
    spurious_nWait hRC.fs.1 e1 e2 hcw hcv ho hus', ?_⟩
  · -- an enabled proper step clears the flag; the twin keeps it
    intro l d' hen hstep hR'
    have hfl := enabled_nWait_flag c1 c2 hod hen
    have hd' := stepL_nWait_nFlag c2 hod hstep
    obtain ⟨ns, hobj, _, hnot⟩ := ntf_obj2 hRC.r hn
    obtain ⟨ns', hobj', _, hnot'⟩ := ntf_obj2 hR' (n := ni) hn
    have hobj'' : w.exec.objs[w.notifyObj ni]? = some (.notify ns') := hobj'
    rw [hobj] at hobj''
    cases hobj''
    rw [hd', getD_set_false] at hnot'
    rw [hnot'] at hnot
    rw [← hnot] at hfl
    cases hfl
  · refine newSt_complete hact _ .unit rfl rfl hRC.fs.1 hRC.nd ⟨hI.1, hI.2.1⟩ hI.2.2
      (((hc.lr.fields ({ s with nSpurUsed := s.nSpurUsed.set ni true } : SC.St)
        rfl rfl rfl rfl rfl rfl rfl rfl rfl).tick hbt).ret _ _)
      hc.gt (hc.gr.tick _) hX1 ?_ hc.mgt ?_
    · intro q hq
      exact (hc.mx q hq).imp fun _ _ hh => hh.ev rfl rfl
    · intro q Z hq hZ
      exact (hc.mgr q Z hq hZ).tick _

/-! ### `nWait`, stage 1: the notification is consumed -/

theorem pendClk_nWait1 {σ : CS} {ni : Nat} (hop : opAt2 w = some (.nWait ni)) (hst : (w.ctlOf w.tid).stage = 1) :
    pendClk w σ w.tid = σ.mtx (nI w.prog ni) := by
  unfold pendClk
  rw [opAtI_tid2, hop]
  simp only
  rw [if_pos hst]

theorem clk_nWait2_s1 (hRC : RC2 w s) (hact : w.tid < w.ctl.length) {ni : Nat}
    (hop : opAt2 w = some (.nWait ni)) (hn : ni < w.prog.cfg.nNotifies)
    (hst : (w.ctlOf w.tid).stage = 1) {w1 : World}
    (h1 : w.notifyWait2 (w.notifyObj ni) = .ok w1) :
    RealOut2 w s (({ w1 with notifyWaiting := w1.notifyWaiting.set ni false } : World).complete .unit) := by
  obtain ⟨σT, σR, mT, mR, hc⟩ := hRC.clk
  have ht := nthr_tid2 hRC hact
  have hbt := body_lt_ths2 hRC.r hact
  obtain ⟨e1, e2, hcw, hcv, ho, c1, c2, hod⟩ := nWait_ref hRC hact hop
  obtain ⟨ns, hobj, _, hnot⟩ := ntf_obj2 hRC.r hn
  have hn1 : ns.notified = true := by
    cases hnt' : ns.notified with
    | false => rw [notifyWait2_unnotified hobj hnt'] at h1; cases h1
    | true => rfl
  rw [notifyWait2_notified hobj hn1] at h1
  obtain rfl : w1 = (w.setThs (w.ths.setCaus (w.ths.caus.join ns.sync.hb))).setObj (w.notifyObj ni)
      (.notify { ns with notified := false }) := by cases h1; rfl
  have hK : σT.mtx (nI w.prog ni) = ns.sync.hb := by
    rw [hc.lt.ntf ni hn, objHb_of hobj]; rfl
  have hpc : pendClk w σT w.tid = σT.mtx (nI w.prog ni) := pendClk_nWait1 hop hst
  have hget : ∀ i, (({ (w.setThs (w.ths.setCaus (w.ths.caus.join ns.sync.hb))).setObj (w.notifyObj ni)
        (.notify { ns with notified := false }) with
        notifyWaiting := w.notifyWaiting.set ni false } : World)).ths.get i =
      if i = w.tid ∧ i < nthr w then { w.ths.get i with causality := w.ths.caus.join ns.sync.hb }
      else w.ths.get i := fun i => Clocks.get_setCaus w.ths _ i
  have hsame : ∀ n, SameObj w.exec.objs (w.exec.objs.set (w.notifyObj ni) (.notify { ns with notified := false })) n :=
    fun n => SameObj.set_same hobj (x' := .notify { ns with notified := false }) rfl rfl rfl (fun _ => rfl) (by intro cs; simp) (by intro cs; simp) n
  have hcaus : (σT.thr w.tid).join (σT.mtx (nI w.prog ni)) = (tcaus w w.tid).join ns.sync.hb := by
    have h2 := hc.lt.hi w.tid ht
    rw [hpc] at h2
    rw [sandwich_join (hc.lt.lo w.tid ht) h2, hK]
  have hI := complete_core2
    (w' := (({ (w.setThs (w.ths.setCaus (w.ths.caus.join ns.sync.hb))).setObj (w.notifyObj ni)
        (.notify { ns with notified := false }) with
        notifyWaiting := w.notifyWaiting.set ni false } : World)).complete .unit)
    hRC hact hop hc.lt (σT' := σT.acq w.tid (σT.mtx (nI w.prog ni))) (mT' := mT)
    _ .unit rfl rfl rfl rfl rfl
    (by show (w.ths.setCaus _).threads.length = _; simp [nthr, World.ths])
    (by show (w.exec.objs.set _ _).length = _; simp)
    (by
      intro i hi
      apply sameThr_of_key5
      rw [hget, if_neg (fun hh => hi hh.1)])
    (by unfold trel; rw [hget]; split <;> rfl)
    (by unfold topo; rw [hget]; split <;> rfl)
    (by unfold tuc; rw [hget]; split <;> rfl)
    (by unfold ttok; rw [hget]; split <;> rfl)
    (by
      unfold tcaus; rw [hget, if_pos ⟨rfl, ht⟩]
      exact le_join_left _ _)
    (by
      intro i hi
      show upd σT.thr w.tid _ i = _
      rw [upd_ne _ _ hi])
    (by
      show upd σT.thr w.tid _ w.tid = _
      rw [upd_self, hcaus]
      unfold tcaus; rw [hget, if_pos ⟨rfl, ht⟩]
      rfl)
    (fun _ => le_refl _) (fun _ => rfl)
    (by intro n hn'; rw [pend_none_of_op2 hop (by intro b; simp)] at hn'; cases hn')
    (fun b j n _ => (hsame n).hb)
    (fun m' _ => .inl ⟨hsame _, rfl⟩) (fun n _ => .inl ⟨hsame _, rfl⟩) (fun q _ => .inl ⟨hsame _, rfl, rfl⟩)
    (fun c _ => .inl ⟨hsame _, fun _ => rfl⟩)
  have hX1 := hc.x.tickR hc.gt hc.gr (inj_body2 hRC.r) w.tid hact
  have hLR : LinkR2 w.prog
      ((({ s.tick (body w w.tid) with nFlag := s.nFlag.set ni false } : SC.St).acquire (body w w.tid)
        (s.nRel.getD ni VV.zero)).ret (body w w.tid) .unit)
      ((σR.tick (body w w.tid)).acq (body w w.tid) ((σR.tick (body w w.tid)).mtx (nI w.prog ni))) mR := by
    have e : (σR.tick (body w w.tid)).mtx (nI w.prog ni) = s.nRel.getD ni VV.zero := hc.lr.ntf ni hn
    rw [e]
    refine LinkR2.ret ?_ _ _
    exact LinkR2.acquire (s := { s.tick (body w w.tid) with nFlag := s.nFlag.set ni false })
      ((hc.lr.tick hbt).fields _ rfl rfl rfl rfl rfl rfl rfl rfl rfl)
      (by show body w w.tid < (s.tick (body w w.tid)).ths.length; rw [tick_len2]; exact hbt) _
  refine ⟨rfl, fun _ => complete_not_stutter _ .unit rfl, ?_, _, step_nWait hcv ho, ?_⟩
  · -- a spurious return keeps the flag; the twin has cleared it
    intro l d' hsp hR'
    have hd' := spuriousL_nFlag hsp
    obtain ⟨ns', hobj', _, hnot'⟩ := ntf_obj2 hR' (n := ni) hn
    have hobj'' : (w.exec.objs.set (w.notifyObj ni) (.notify { ns with notified := false }))[w.notifyObj ni]? =
        some (.notify ns') := hobj'
    rw [getElem?_set_self' _ _ _ _ hobj] at hobj''
    cases hobj''
    rw [hd', ← hnot, hn1] at hnot'
    cases hnot'
  · refine newSt_complete hact _ .unit rfl rfl hRC.fs.1 hRC.nd ⟨hI.1, hI.2.1⟩ hI.2.2 hLR
      (hc.gt.acqM _ _) ((hc.gr.tick _).acqM _ _) (hX1.acqM (inj_body2 hRC.r) w.tid hact _) ?_ ?_ ?_
    · intro q hq
      exact (hc.mx q hq).imp fun _ _ hh => hh.ev rfl rfl
    · intro q Z hq hZ
      exact (hc.mgt q Z hq hZ).acq _ _
    · intro q Z hq hZ
      exact ((hc.mgr q Z hq hZ).tick _).acq _ _

/-! ### `nWait`, stage 0: the waiter registers, decides about the spurious return, reaches its scheduling point -/

theorem nWait_s0_core (hRC : RC2 w s) (hact : w.tid < w.ctl.length) {ni : Nat}
    (hop : opAt2 w = some (.nWait ni)) (hn : ni < w.prog.cfg.nNotifies)
    (hst : (w.ctlOf w.tid).stage = 0) {wX w1 : World} {op' : Option Nat} (st : Nat)
    (hso : SchedOut wX w1 op') (hths : wX.exec.threads = w.exec.threads)
    (hlen : wX.exec.objs.length = w.exec.objs.length)
    (hobjs : ∀ n, n < w.exec.objs.length → SameObj w.exec.objs wX.exec.objs n)
    (hp : w1.prog = w.prog) (hs : w1.spawned = w.spawned) (hev : w1.events = w.events) (hc : w1.ctl = w.ctl)
    (hop' : op' = some (w.notifyObj ni) ∨ op' = none) :
    QuietOut2 w s (w1.modCtl w.tid fun c => { c with stage := st }) := by
  have hso' : SchedOut wX (w1.modCtl w.tid fun c => { c with stage := st }) op' := hso.exec_congr rfl
  refine quiet_core2' hRC hact (fun c => { c with stage := st }) (fun σ => pendClk_stage0 (by rw [hst]; decide))
    (pend_none_of_op2 hop (by intro b; simp)) (QuietEx.trans_objs hso' hths hlen hobjs) hp hs hev
    (by show w1.ctl.modify _ _ = _; rw [hc]) rfl Iff.rfl ?_ ?_
  · intro o ho
    rcases hop' with e | e
    · rw [e] at ho
      cases ho
      exact ⟨ntf_lt2 hRC.r hn, .inr fun b j n hm e' => absurd e' (Ne.symm (sp_ne_ntf2 hRC.r hm hn))⟩
    · rw [e] at ho; cases ho
  · intro d' _ hst' _
    exact no_silent hRC hact hop (by intro i r n; simp) (by intro v m; simp) d' hst'

theorem clk_nWait2_s0 (hRC : RC2 w s) (hact : w.tid < w.ctl.length) {ni : Nat}
    (hop : opAt2 w = some (.nWait ni)) (hn : ni < w.prog.cfg.nNotifies)
    (hst : (w.ctlOf w.tid).stage = 0) {w1 : World} {st : Nat}
    (hv1 : ({ w with notifyWaiting := w.notifyWaiting.set ni true } : World).notifyWait1 (w.notifyObj ni) =
      .ok (w1, st)) :
    QuietOut2 w s (w1.modCtl w.tid fun c => { c with stage := st }) := by
  have ht := nthr_tid2 hRC hact
  obtain ⟨ns, hobj, _, _⟩ := ntf_obj2 hRC.r hn
  have hobj0 : ({ w with notifyWaiting := w.notifyWaiting.set ni true } : World).exec.objs[w.notifyObj ni]? =
      some (.notify ns) := hobj
  obtain ⟨hc, hp, hsp, hev, _, _, _, _⟩ := notifyWait1_obs2 hobj0 hv1
  by_cases hs : (ns.spurious && !ns.didSpur) = false
  · rw [notifyWait1_plain hobj0 hs] at hv1
    obtain ⟨w2, hb, he⟩ := map_ok hv1
    rw [Prod.mk.injEq] at he
    obtain ⟨rfl, rfl⟩ := he
    exact nWait_s0_core hRC hact hop hn hst 1 (branch_sched hb ht) rfl rfl (fun n _ => SameObj.refl _ n)
      hp hsp hev hc (.inl rfl)
  · have hspu : ns.spurious = true := by cases hh : ns.spurious <;> simp [hh] at hs ⊢
    have hd : ns.didSpur = false := by cases hh : ns.didSpur <;> simp [hh] at hs ⊢
    rw [notifyWait1_maySpur hobj0 hspu hd] at hv1
    split at hv1
    · cases hv1
    · next p hp' =>
      obtain ⟨w2, hb, he⟩ := map_ok hv1
      rw [Prod.mk.injEq] at he
      obtain ⟨rfl, rfl⟩ := he
      refine nWait_s0_core hRC hact hop hn hst 2 (yieldNow_sched hb ht) rfl
        (by show (w.exec.objs.set _ _).length = _; simp) ?_ hp hsp hev hc (.inr rfl)
      intro n _
      exact SameObj.set_same hobj (x' := .notify { ns with didSpur := true }) rfl rfl rfl (fun _ => rfl)
        (by intro cs; simp) (by intro cs; simp) n
    · next p hp' =>
      obtain ⟨w2, hb, he⟩ := map_ok hv1
      rw [Prod.mk.injEq] at he
      obtain ⟨rfl, rfl⟩ := he
      exact nWait_s0_core hRC hact hop hn hst 1 (branch_sched hb ht) rfl rfl (fun n _ => SameObj.refl _ n)
        hp hsp hev hc (.inl rfl)

/-- **`nWait` keeps `RC2`** -/
theorem clk_nWait2 (hRC : RC2 w s) (hact : w.tid < w.ctl.length) {ni : Nat}
    (hop : opAt2 w = some (.nWait ni)) (hn : ni < w.prog.cfg.nNotifies)
    (h : w.runOp (w.ctlOf w.tid) (.nWait ni) = .ok w') :
    QuietOut2 w s w' ∨ RealOut2 w s w' ∨ SpurOut2 w s w' := by
  obtain ⟨_, hrel, _⟩ := base2 hRC.r.c hact
  have hst : (w.ctlOf w.tid).stage = 0 ∨ (w.ctlOf w.tid).stage = 1 ∨ (w.ctlOf w.tid).stage = 2 := by
    have := hrel.2.2.2.2.1
    rw [show opOfCtl w.prog (w.ctlOf w.tid) = some (.nWait ni) from hop] at this
    simp only [maxStage] at this
    omega
  rw [runOp_nWait] at h
  rcases hst with hst | hst | hst
  · left
    simp only [hst] at h
    simp only [bind, Except.bind, pure, Except.pure, throw, throwThe, MonadExceptOf.throw] at h
    split at h
    · cases h
    · split at h
      · cases h
      · next v hv1 =>
        obtain ⟨w1, st⟩ := v
        cases h
        exact clk_nWait2_s0 hRC hact hop hn hst hv1
  · right; left
    simp only [hst] at h
    obtain ⟨w1, h1, h⟩ := bind_ok h
    simp only [pure, Except.pure] at h
    cases h
    exact clk_nWait2_s1 hRC hact hop hn hst h1
  · right; right
    simp only [hst] at h
    simp only [pure, Except.pure] at h
    cases h
    exact clk_nWait2_s2 hRC hact hop hn hst

/-! ### `nNotify` -/

/-- the thread entries after `Notify::notify` on object `o` -/
def ntfF (w : World) (o : Nat) : Nat → Thread → Thread := fun i th =>
  if i = w.tid then th
  else if th.operation.any (fun op => op.obj == o) then th.wake
  else th

theorem any_obj_iff (t : Thread) (o : Nat) :
    t.operation.any (fun op => op.obj == o) = true ↔ t.operation.map (·.obj) = some o := by
  cases t.operation with
  | none => simp
  | some op => simp

/-- the twin side of the effect of `nNotify`, for a world given by its components -/
theorem nNotify_twin (hRC : RC2 w s) (hact : w.tid < w.ctl.length) {ni : Nat}
    (hop : opAt2 w = some (.nNotify ni)) (hn : ni < w.prog.cfg.nNotifies) {σT : CS} {mT : Nat → List VV} (hLT : LinkT2 w σT mT) (x' : Obj)
    (hx' : hbOf x' = (σT.mtx (nI w.prog ni)).join (σT.thr w.tid))
    (hp : w'.prog = w.prog) (hs : w'.spawned = w.spawned) (hnt : nthr w' = nthr w)
    (hobjs : w'.exec.objs = w.exec.objs.set (w.notifyObj ni) x')
    (hctl : ∀ i, w'.ctlOf i = if i = w.tid then completeF .unit (w.ctlOf w.tid) else w.ctlOf i)
    (hget : ∀ i, w'.ths.get i = if i < nthr w then ntfF w (w.notifyObj ni) i (w.ths.get i) else w.ths.get i) :
    TwinInv w' ∧ TwinInv2 w' ∧ LinkT2 w' (σT.rel w.tid (nI w.prog ni)) mT := by
  have ht := nthr_tid2 hRC hact
  have hf0 := fin0 hRC hact hop
  obtain ⟨hT, hO⟩ := unpack hRC.inv hRC.inv2 hLT
  have hTt := hT w.tid ht
  have hpc : pendClk w σT w.tid = VV.zero :=
    pendClk_of_op (by rw [opAtI_tid2]; exact hop) (by intro n; simp) (by simp) (by intro b; simp)
  have hA : σT.thr w.tid = tcaus w w.tid := eq_caus2 hLT ht hpc
  have holt := ntf_lt2 hRC.r hn
  have hctlne : ∀ i, i ≠ w.tid → w'.ctlOf i = w.ctlOf i := fun i hi => by rw [hctl, if_neg hi]
  have hbodyT : body w' w.tid = body w w.tid := by unfold body; rw [hctl, if_pos rfl]; rfl
  have hfinT : fin w' w.tid = 0 := by unfold fin; rw [hctl, if_pos rfl]; exact hf0
  have hfinne : ∀ j, j ≠ w.tid → fin w' j = fin w j := fun j hj => by unfold fin; rw [hctlne j hj]
  have holen : w'.exec.objs.length = w.exec.objs.length := by rw [hobjs, List.length_set]
  -- the slots
  have hslot_ne : ∀ m, m ≠ nI w.prog ni → (σT.rel w.tid (nI w.prog ni)).mtx m = σT.mtx m := fun m hm => by
    show upd σT.mtx _ _ m = _
    rw [upd_ne _ _ hm]
  have hkI : ∀ b, (σT.rel w.tid (nI w.prog ni)).mtx (kI w.prog b) = σT.mtx (kI w.prog b) :=
    fun b => hslot_ne _ (Ne.symm (nI_ne_kI w.prog hn b))
  have hslot_self : (σT.rel w.tid (nI w.prog ni)).mtx (nI w.prog ni) =
      (σT.mtx (nI w.prog ni)).join (σT.thr w.tid) := by
    show upd σT.mtx _ _ _ = _
    rw [upd_self]
  -- the thread entries
  have hkeep : ∀ i, key5 (w'.ths.get i) = key5 (w.ths.get i) := by
    intro i
    rw [hget]
    split
    · unfold ntfF
      split
      · rfl
      · split
        · exact key5_wake _
        · rfl
    · rfl
  refine assemble hRC hLT hp hs hnt (by rw [holen]; exact Nat.le_refl _) hctlne hbodyT
    (by intro h; rw [hf0] at h; omega) ?_ ?_ ?_ ?_ ?_ ?_ ?_ ?_ ?_ ?_
  · -- the notifier
    obtain ⟨hsm, htp⟩ := sameThr_of_key5 (hkeep w.tid)
    refine ThrInv.exact ?_ ?_ ?_ ?_ ?_ ?_
    · rw [hsm.rel]; exact hTt.rel
    · intro o ho
      rw [htp] at ho
      rw [holen]; exact hTt.ob o ho
    · intro b j n ho hm hij
      rw [htp] at ho
      rw [hs] at hm
      right
      rcases hTt.jo b j n ho hm hij with h | h
      · rw [pend_none_of_op2 hop (by intro b; simp)] at h; cases h
      · rw [hfinne j (Ne.symm hij)]; exact h
    · show σT.thr w.tid = _
      rw [hA, hsm.caus]
    · intro _
      have hk := hTt.tok (by rw [hf0]; omega)
      rw [hp, hbodyT, hkI, hsm.uc, hsm.caus]
      exact hk
    · intro _ htk
      rw [hsm.uc]
      exact hTt.tokz (by rw [hf0]; omega) (by rw [← hsm.tok]; exact htk)
  · -- the other threads: nothing the invariant reads changes (a waiter is only woken)
    intro i hi hne
    left
    obtain ⟨hsm, htp'⟩ := sameThr_of_key5 (hkeep i)
    exact ⟨hsm, htp', rfl, fun _ => hkI _⟩
  · intro m
    show (σT.mtx m).le (upd σT.mtx (nI w.prog ni) _ m)
    by_cases e : m = nI w.prog ni
    · subst e; rw [upd_self]; exact le_join_left _ _
    · rw [upd_ne _ _ e]; exact le_refl _
  · intro b j n hm
    rw [hobjs, objHb_set_ne _ _ (sp_ne_ntf2 hRC.r hm hn)]; exact le_refl _
  · intro m hm
    left
    rw [hobjs]
    exact ⟨SameObj.set_ne _ _ (Ne.symm (mtx_ne_ntf hRC.r hm hn)), hslot_ne _ (m_ne_nI w.prog hm ni)⟩
  · intro n hn'
    by_cases e : n = ni
    · subst e
      right
      rw [hslot_self, hobjs, objHb_set_self _ _ holt, hx']
    · left
      rw [hobjs]
      refine ⟨SameObj.set_ne _ _ ?_, hslot_ne _ (fun hh => e (nI_inj w.prog hh))⟩
      unfold World.notifyObj; omega
  · intro q hq
    left
    rw [hobjs]
    exact ⟨SameObj.set_ne _ _ (ntf_ne_chan hRC.r hn hq), hslot_ne _ (Ne.symm (nI_ne_cI w.prog hn q)), rfl⟩
  · intro c hc'
    left
    rw [hobjs]
    exact ⟨SameObj.set_ne _ _ (Ne.symm (cell_ne_ntf w hc' ni)), fun _ => rfl⟩
  · refine nhb_frame hO ?_ ?_ ?_
    · intro b j n hm
      rw [hobjs]; exact objHb_set_ne _ _ (sp_ne_ntf2 hRC.r hm hn)
    · intro j
      by_cases e : j = w.tid
      · subst e; rw [hfinT, hf0]
      · rw [hfinne j e]
    · intro j h10
      have e : j ≠ w.tid := by intro e; subst e; rw [hf0] at h10; omega
      exact (sameThr_of_key5 (hkeep j)).1.caus
  · intro b _; exact hkI b

theorem clk_nNotify2 (hRC : RC2 w s) (hact : w.tid < w.ctl.length) {ni : Nat}
    (hop : opAt2 w = some (.nNotify ni)) (hn : ni < w.prog.cfg.nNotifies)
    (h : w.runOp (w.ctlOf w.tid) (.nNotify ni) = .ok w') : QuietOut2 w s w' ∨ RealOut2 w s w' := by
  rw [runOp_nNotify] at h
  split at h
  · next hs0 =>
    left
    have hs0' : (w.ctlOf w.tid).stage = 0 := by simpa using hs0
    exact quiet_branch2 hRC hact hop (by intro b; simp) (by intro i r n; simp) (by intro v m; simp)
      (by rw [hs0']; decide) 1 h (ntf_lt2 hRC.r hn) (fun b j n hm e => sp_ne_ntf2 hRC.r hm hn e.symm)
  · next hs0 =>
    right
    obtain ⟨w1, hne, h⟩ := bind_ok h
    simp only [pure, Except.pure] at h
    cases h
    obtain ⟨ns, hobj, _, _⟩ := ntf_obj2 hRC.r hn
    rw [notifyEffect_eq hobj] at hne
    obtain rfl : w1 = W2 w (w.exec.objs.set (w.notifyObj ni) (.notify { ns with
        sync := ns.sync.store w.ths.activeT.released w.ths.caus .rel, notified := true }))
        (ntfF w (w.notifyObj ni)) := by
      cases hne; rfl
    obtain ⟨σT, σR, mT, mR, hc⟩ := hRC.clk
    have ht := nthr_tid2 hRC hact
    have hbt := body_lt_ths2 hRC.r hact
    have hC : pendCv w.prog (w.ctlOf w.tid) = none := pendCv_of_op hop (by simp)
    have hcv : (s.th (body w w.tid)).cvNotified = none := (frag_cv hRC hact hC).2
    have ho : SC.opOf w.prog s (body w w.tid) = some (.nNotify ni) := (opOf_eq2 hRC.r hact).trans hop
    have hpc : pendClk w σT w.tid = VV.zero :=
      pendClk_of_op (by rw [opAtI_tid2]; exact hop) (by intro n; simp) (by simp) (by intro b; simp)
    have hnew : hbOf (.notify { ns with
        sync := ns.sync.store w.ths.activeT.released w.ths.caus .rel, notified := true }) =
        (σT.mtx (nI w.prog ni)).join (σT.thr w.tid) := by
      show (ns.sync.store w.ths.activeT.released w.ths.caus .rel).hb = _
      rw [Clocks.Sync.store_of_releases _ _ _ (by rfl)]
      have hr : w.ths.activeT.released = VV.zero := hRC.inv.rel w.tid ht
      rw [hr, join_zero, hc.lt.ntf ni hn, objHb_of hobj, eq_caus2 hc.lt ht hpc]
      rfl
    have hI := nNotify_twin (w' := (W2 w (w.exec.objs.set (w.notifyObj ni) (.notify { ns with
        sync := ns.sync.store w.ths.activeT.released w.ths.caus .rel, notified := true }))
        (ntfF w (w.notifyObj ni))).complete .unit) hRC hact hop hn hc.lt _ hnew rfl rfl (W2_nthr _ _ _) rfl
      (fun i => complete_ctlOf w _ .unit i rfl rfl hact) (fun i => W2c_get w _ _ .unit i)
    have hX1 := hc.x.tickR hc.gt hc.gr (inj_body2 hRC.r) w.tid hact
    refine realOut_complete hRC hact hop (by intro n; simp) _ _ rfl rfl (step_nNotify hcv ho) ?_
    refine newSt_complete hact _ .unit rfl rfl hRC.fs.1 hRC.nd ⟨hI.1, hI.2.1⟩ hI.2.2
      (((hc.lr.tick hbt).relN hn _).ret _ _) (hc.gt.rel _ _) ((hc.gr.tick _).rel _ _)
      (hX1.rel w.tid hact (nI w.prog ni)) ?_ ?_ ?_
    · intro q hq
      exact (hc.mx q hq).imp fun _ _ hh => hh.ev rfl rfl
    · intro q Z hq hZ
      exact (hc.mgt q Z hq hZ).rel _ _
    · intro q Z hq hZ
      exact ((hc.mgr q Z hq hZ).tick _).rel _ _

end
end Race2
end LoomVerif

/-
Refinement, STATICS fragment, part 8: the initial world is related to the initial reference state, and the one-step
simulation lifts to whole runs of `World.runLoop`.
-/
import LoomVerif.Proofs.Refine5Fin
import LoomVerif.Proofs.RefineRun

namespace LoomVerif
namespace Refine5
open Refine

/-- the execution record at the start of an iteration (`Exec.new`, `Exec.step`): the main thread alone, active; the
lazy-statics table exists and is empty -/
def FreshExec5 (e : Exec) : Prop := FreshExec e ∧ e.lazyStatics = some []

theorem freshExec5_new (mt mb : Nat) (b : Option Nat) (x : Bool) : FreshExec5 (Exec.new mt mb b x) :=
  ⟨freshExec_new _ _ _ _, rfl⟩

theorem freshExec5_step {e e' : Exec} (h : e.step = some e') : FreshExec5 e' := by
  refine ⟨freshExec_step h, ?_⟩
  unfold Exec.step at h
  cases hp : e.path.step with
  | none => rw [hp] at h; cases h
  | some p => rw [hp] at h; cases h; rfl

/-- **the initial world is related to the initial reference state** -/
theorem init_R5 {prog : Prog} {e : Exec} {w : World} (hwf : WF5 prog) (hf : FreshExec5 e)
    (h : World.init prog e = .ok w) :
    R5 w (data5 (SC.init prog)) ∧ w.prog = prog ∧ w.events = [] := by
  obtain ⟨hp, hc, hs, hev, hth, A, rest, hA, hobjs⟩ := init_shape h
  obtain ⟨q1, _, q3, q4, q5, q6, _, _⟩ := C17.init_facts h
  refine ⟨?_, hp, hev⟩
  have hths : (data5 (SC.init prog)).ths =
      (List.range prog.threads.length).map fun i => ({ started := i == 0 } : DTh) := by
    simp [data5, SC.init, dth, List.map_map, Function.comp_def]
  have hlocs : (data5 (SC.init prog)).locals = (List.range prog.threads.length).map fun _ => [] := by
    simp [data5, SC.init, List.map_map, Function.comp_def]
  have hget : ∀ b, b < prog.threads.length →
      (data5 (SC.init prog)).ths.getD b {} = ({ started := b == 0 } : DTh) := by
    intro b hb
    rw [hths]
    simp [List.getD, hb]
  have hgetl : ∀ b, (data5 (SC.init prog)).locals.getD b [] = [] := by
    intro b
    rw [hlocs]
    by_cases hb : b < prog.threads.length
    · simp [List.getD, hb]
    · simp [List.getD, hb]
  have hc0 : w.ctlOf 0 = {} := by simp [World.ctlOf, hc]
  refine ⟨?_, ?_, ?_, ?_, ?_, ?_, ?_, ?_⟩
  · rw [hc, hth, hf.1.1]; rfl
  · rw [hp, hc]
    refine ⟨by rw [hths]; simp, by rw [hlocs]; simp, ⟨by simp, rfl⟩, ?_, ?_, ?_, ?_, ?_⟩
    · intro i hi
      have : i = 0 := by simpa using hi
      subst this
      refine ⟨hwf.1, ?_⟩
      show ThRel5 prog 0 ({} : TCtl) ((data5 (SC.init prog)).ths.getD 0 {}) ((data5 (SC.init prog)).locals.getD 0 [])
      rw [hget 0 hwf.1, hgetl]
      exact ⟨rfl, rfl, rfl, rfl, Nat.zero_le _, rfl, LocRel.nil _⟩
    · intro i hi hne
      have : i = 0 := by simpa using hi
      subst this
      exact absurd rfl hne
    · intro i j hi hj _
      have : i = 0 := by simpa using hi
      have : j = 0 := by simpa using hj
      omega
    · intro b hb hidle
      have hb0 : b ≠ 0 := by
        intro e0
        exact hidle 0 (by simp) (by rw [e0]; rfl)
      rw [hget b hb, hgetl]
      have : (b == 0) = false := by simpa using hb0
      rw [this]
      exact ⟨rfl, rfl⟩
    · intro i hi0 hi
      have : i = 0 := by simpa using hi
      omega
  · rw [hp, hc, hs]
    have hcells : (data5 (SC.init prog)).cells = List.replicate prog.cfg.nCells 0 := rfl
    have hmutex : (data5 (SC.init prog)).mutex = List.replicate prog.cfg.nMutexes none := rfl
    rw [hcells, hmutex, hobjs]
    refine ⟨by simp, by simp, ?_, ?_, ?_, ?_⟩
    · intro c hc'
      rw [getD_replicate' _ _ _ _ hc']
      unfold objView
      rw [List.append_assoc, List.append_assoc, List.getElem?_append_right (by omega)]
      rw [List.getElem?_append_left (by simp; omega)]
      simp [hA, hc', view]
    · intro m hm
      refine ⟨none, ?_, ?_, by intro i hi; cases hi⟩
      · unfold objView
        rw [List.append_assoc, List.append_assoc, List.getElem?_append_right (by omega)]
        rw [List.getElem?_append_right (by simp; omega)]
        rw [List.getElem?_append_left (by simp; omega)]
        simp [List.getElem?_replicate, hA, view]
        omega
      · rw [getD_replicate' _ _ _ _ hm]; rfl
    · intro b i n hmem; cases hmem
    · intro e1 e2 h1; cases h1
  · rw [hc, q4, q6]
    refine ⟨rfl, rfl, rfl, rfl, fun k hk => ?_⟩
    match k, hk with
    | 0, _ => rfl
    | 1, _ => rfl
  · rw [hp, q1, q3, hc0, hf.2]
    refine ⟨rfl, rfl, ?_, ?_, fun e => (by cases e), fun e => (by cases e)⟩
    · intro l e
      cases e
      refine ⟨rfl, fun z => ?_⟩
      show (SC.init prog).lazyInit.getD z 0 = _
      simp only [List.lookup, Option.isSome_none, Bool.false_eq_true, if_false]
      show ([0, 0] : List Nat).getD z 0 = 0
      match z with
      | 0 => rfl
      | 1 => rfl
      | _ + 2 => rfl
    · intro l z sv e hz
      cases e
      cases hz
  · rw [hc, q4, q5]
    refine ⟨fun k hk => ?_, fun k hk => ?_, rfl⟩
    · match k, hk with
      | 0, _ => rfl
      | 1, _ => rfl
    · match k, hk with
      | 0, _ => rfl
      | 1, _ => rfl
  · rw [hc0]; intro e; cases e
  · rw [hev]; intro e he; cases he

/-! ### runs -/

/-- **the run-level hypothesis**: `resumeOk5` holds at every step the run takes.  Computable (by running the twin). -/
def okRun5 : Nat → World → Bool
  | 0, _ => true
  | fuel + 1, w =>
    if !w.ths.isActive then true
    else resumeOk5 w &&
      match w.stepActive with
      | .error _ => true
      | .ok w' => okRun5 fuel w'

/-- the simulation along `runLoop` -/
theorem runLoop_sim5 (p : Prog) (d0 : SCData5) (hwf : WF5 p) :
    ∀ (fuel : Nat) (w w' : World) (s : SCData5), w.prog = p → R5 w s → InRange w →
      SCData5.Run p d0 (w.events.reverse.map triple) s → okRun5 fuel w = true →
      World.runLoop fuel w = (w', none) →
      ∃ s', SCData5.Run p d0 (w'.events.reverse.map triple) s' ∧ R5 w' s' ∧ w'.prog = p := by
  intro fuel
  induction fuel with
  | zero =>
    intro w w' s _ _ _ _ _ h
    simp [World.runLoop] at h
  | succ fuel ih =>
    intro w w' s hp hR hrange hrun hok h
    unfold World.runLoop at h
    unfold okRun5 at hok
    split at h
    · cases h
      exact ⟨s, hrun, hR, hp⟩
    · next hact =>
      have hact' : w.ths.isActive = true := by simpa using hact
      have hin : w.tid < w.ctl.length := by rw [hR.lenCtl]; exact hrange hact'
      rw [if_neg hact] at hok
      simp only [Bool.and_eq_true] at hok
      obtain ⟨hok1, hok2⟩ := hok
      split at h
      · cases h
      · next w1 hstep =>
        rw [hstep] at hok2
        obtain ⟨⟨hp1, hsim⟩, hr1⟩ := step_sim5 (by rw [hp]; exact hwf) hR hin hok1 hstep
        rcases hsim with ⟨hR1, hev⟩ | ⟨l, s1, hen, hst, hR1, hev⟩
        · exact ih w1 w' s (hp1.trans hp) hR1 hr1 (by rw [hev]; exact hrun) hok2 h
        · rw [hp] at hen hst
          refine ih w1 w' s1 (hp1.trans hp) hR1 hr1 ?_ hok2 h
          rw [triple_step hev]
          exact SCData5.Run.step hrun hen hst

end Refine5
end LoomVerif

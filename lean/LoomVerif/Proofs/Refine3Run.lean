/-
Refinement, RESOURCE fragment, part 8: the initial world is related to the initial reference state, and the
one-step simulation lifts to whole runs of `World.runLoop`.
-/
import LoomVerif.Proofs.Refine3Arc2
import LoomVerif.Proofs.RefineRun

namespace LoomVerif
namespace Refine3
open Refine

/-! ### the objects `World.init` creates are no resources -/

/-- neither an `rt::Arc`, nor an allocation, nor a channel with messages -/
def Plain (o : Obj) : Prop := aview o = .other ∨ aview o = .chan 0

theorem forIn_try_all {α β γ} (l : List α) (init : List β) (f : Except Panic γ) (g : γ → β) (r : List β)
    (P : β → Prop) (hg : ∀ a, P (g a)) (hi : ∀ x ∈ init, P x)
    (h : (forIn l init (fun _ s => do let a ← f; pure (ForInStep.yield (s ++ [g a])))) = .ok r) :
    ∀ x ∈ r, P x := by
  cases f with
  | error e =>
    cases l with
    | nil => simp [pure, Except.pure] at h; rw [← h]; exact hi
    | cons a l => rw [List.forIn_cons] at h; simp [bind, Except.bind] at h
  | ok v =>
    have : (fun (_ : α) (s : List β) =>
        (do let a ← (Except.ok v : Except Panic γ); pure (ForInStep.yield (s ++ [g a])) :
          Except Panic (ForInStep (List β)))) = fun _ s => pure (ForInStep.yield (s ++ [g v])) := rfl
    rw [this, forIn_pure] at h
    cases h
    intro x hx
    rcases List.mem_append.1 hx with hx | hx
    · exact hi x hx
    · rw [List.eq_of_mem_replicate hx]; exact hg v

theorem forIn_pair_all {α β γ} (l : List α) (init : List β × List γ) (F : List β → List β)
    (G : List β × List γ → List γ) (P : β → Prop) (hF : ∀ s, (∀ x ∈ s, P x) → ∀ x ∈ F s, P x)
    (hi : ∀ x ∈ init.1, P x) (r : List β × List γ)
    (h : (forIn l init (fun _ s => (pure (ForInStep.yield (F s.1, G s)) : Except Panic _))) = .ok r) :
    ∀ x ∈ r.1, P x := by
  induction l generalizing init with
  | nil => simp [pure, Except.pure] at h; rw [← h]; exact hi
  | cons a l ih =>
    rw [List.forIn_cons] at h
    simp only [pure, Except.pure, bind, Except.bind] at h
    exact ih _ (hF _ hi) h

theorem plain_append {l : List Obj} (n : Nat) (x : Obj) (hl : ∀ o ∈ l, Plain o) (hx : Plain x) :
    ∀ o ∈ l ++ List.replicate n x, Plain o := by
  intro o ho
  rcases List.mem_append.1 ho with ho | ho
  · exact hl o ho
  · rw [List.eq_of_mem_replicate ho]; exact hx

/-- the initial world has empty resource tables and no resource object -/
theorem init_plain {prog : Prog} {e : Exec} {w : World} (h : World.init prog e = .ok w) :
    w.handles = [] ∧ w.arcs = [] ∧ w.tracks = [] ∧ w.rawAllocs = [] ∧ ∀ o ∈ w.exec.objs, Plain o := by
  unfold World.init at h
  simp only [Except.bind_eq_ok'] at h
  obtain ⟨a1, h1, a2, h2, a3, h3, a4, h4, a5, h5, a6, h6, a7, h7, a8, h8, h⟩ := h
  cases h
  refine ⟨rfl, rfl, rfl, rfl, ?_⟩
  have p1 : ∀ o ∈ a1, Plain o :=
    forIn_try_all _ _ _ _ _ Plain (fun _ => .inl rfl) (by intro x hx; cases hx) h1
  rw [forIn_pure] at h2 h3 h4 h5 h6 h7
  cases h2; cases h3; cases h4; cases h5; cases h6; cases h7
  refine forIn_pair_all _ _ (fun s => s ++ [Obj.mutex { seqCst := true }, Obj.mutex { seqCst := false }])
    (fun s => s.2 ++ [({ slotMutex := s.1.length, awMutex := s.1.length + 1 } : FutSt)]) Plain ?_ ?_ _ h8
  · intro s hs x hx
    rcases List.mem_append.1 hx with hx | hx
    · exact hs x hx
    · simp only [List.mem_cons, List.not_mem_nil, or_false] at hx
      rcases hx with rfl | rfl <;> exact .inl rfl
  · refine plain_append _ _ (plain_append _ _ (plain_append _ _ (plain_append _ _ (plain_append _ _
      (plain_append _ _ p1 (.inl rfl)) (.inl rfl)) (.inl rfl)) (.inl rfl)) (.inl rfl)) (.inr rfl)

theorem av_plain {os : List Obj} (h : ∀ o ∈ os, Plain o) (n : Nat) : av os n = .other ∨ av os n = .chan 0 := by
  unfold av
  cases hx : os[n]? with
  | none => exact .inl rfl
  | some x => exact h x (List.mem_of_getElem? hx)

/-! ### the initial world is related to the initial reference state -/

theorem init_R3 {prog : Prog} {e : Exec} {w : World} (hwf : WF3 prog) (hf : FreshExec e)
    (h : World.init prog e = .ok w) :
    R3 w (data3 (SC.init prog)) ∧ w.prog = prog ∧ w.events = [] := by
  obtain ⟨hp, hc, hs, hev, hth, A, rest, hA, hobjs⟩ := init_shape h
  obtain ⟨q1, q2, q3, q4, hplain⟩ := init_plain h
  refine ⟨?_, hp, hev⟩
  have hths : (data3 (SC.init prog)).ths =
      (List.range prog.threads.length).map fun i => ({ started := i == 0 } : DTh) := by
    simp [data3, SC.init, dth, List.map_map, Function.comp_def]
  have hget : ∀ b, b < prog.threads.length →
      (data3 (SC.init prog)).ths.getD b {} = ({ started := b == 0 } : DTh) := by
    intro b hb
    rw [hths]
    simp [List.getD, hb]
  refine R3.mk' (p := prog) (ctl := [{}]) (sp := []) hp hc hs ?_ ?_ ?_ ?_ ?_
  · rw [hth, hf.1]; rfl
  · refine ⟨by rw [hths]; simp, ⟨by simp, rfl⟩, ?_, ?_, ?_, ?_, ?_⟩
    · intro i hi
      have : i = 0 := by simpa using hi
      subst this
      refine ⟨hwf.1, ?_⟩
      show ThRel3 prog ({} : TCtl) ((data3 (SC.init prog)).ths.getD 0 {})
      rw [hget 0 hwf.1]
      exact ⟨rfl, rfl, rfl, rfl, Nat.zero_le _, rfl, rfl⟩
    · intro i hi hne
      have : i = 0 := by simpa using hi
      subst this
      exact absurd rfl hne
    · intro i j hi hj _
      have : i = 0 := by simpa using hi
      have : j = 0 := by simpa using hj
      omega
    · intro b hb hidle
      have hb0 : b ≠ 0 := by
        intro e0
        exact hidle 0 (by simp) (by rw [e0]; rfl)
      rw [hget b hb]
      have : (b == 0) = false := by simpa using hb0
      rw [this]
    · intro i hi0 hi
      have : i = 0 := by simpa using hi
      omega
  · have hcells : (data3 (SC.init prog)).cells = List.replicate prog.cfg.nCells 0 := rfl
    have hmutex : (data3 (SC.init prog)).mutex = List.replicate prog.cfg.nMutexes none := rfl
    rw [hcells, hmutex, hobjs]
    refine ⟨by simp, by simp, ?_, ?_, ?_, ?_⟩
    · intro c hc'
      rw [getD_replicate' _ _ _ _ hc']
      unfold objView
      rw [List.append_assoc, List.append_assoc, List.getElem?_append_right (by omega)]
      rw [List.getElem?_append_left (by simp; omega)]
      simp [hA, hc', view]
    · intro m hm
      refine ⟨none, ?_, ?_, by intro i hi; cases hi⟩
      · unfold objView
        rw [List.append_assoc, List.append_assoc, List.getElem?_append_right (by omega)]
        rw [List.getElem?_append_right (by simp; omega)]
        rw [List.getElem?_append_left (by simp; omega)]
        simp [List.getElem?_replicate, hA, view]
        omega
      · rw [getD_replicate' _ _ _ _ hm]; rfl
    · intro b i n hmem; cases hmem
    · intro e1 e2 h1; cases h1
  · rw [q1, q2]
    have hav := av_plain hplain
    refine ⟨rfl, ?_, ?_, ?_, fun _ => rfl, ?_, ?_⟩
    · intro a ha; cases ha
    · intro a b ha; cases ha
    · intro n k hk
      rcases hav n with e | e <;> rw [e] at hk <;> cases hk
    · intro h' hs' hl; cases hl
    · intro n k hk
      rcases hav n with e | e <;> rw [e] at hk <;> cases hk
      rfl
  · rw [q3, q4]
    have hav := av_plain hplain
    refine ⟨?_, ?_, ?_, ?_, ?_, ?_, ?_, ?_, ?_, List.nodup_nil⟩
    · intro n hn
      rcases hav n with e | e <;> rw [e] at hn <;> cases hn
    all_goals (intros; rename_i hl; first | cases hl | (rename_i hl2 _; cases hl2))

/-! ### runs -/

/-- **the run-level hypothesis**: `resumeOk3` holds at every step the run takes.  Computable (by running the twin). -/
def okRun3 : Nat → World → Bool
  | 0, _ => true
  | fuel + 1, w =>
    if !w.ths.isActive then true
    else resumeOk3 w &&
      match w.stepActive with
      | .error _ => true
      | .ok w' => okRun3 fuel w'

/-- the simulation along `runLoop` -/
theorem runLoop_sim3 (p : Prog) (d0 : SCData3) (hwf : WF3 p) :
    ∀ (fuel : Nat) (w w' : World) (s : SCData3), w.prog = p → R3 w s → InRange w →
      SCData3.Run p d0 (w.events.reverse.map triple) s → okRun3 fuel w = true →
      World.runLoop fuel w = (w', none) →
      ∃ s', SCData3.Run p d0 (w'.events.reverse.map triple) s' ∧ R3 w' s' ∧ w'.prog = p := by
  intro fuel
  induction fuel with
  | zero =>
    intro w w' s _ _ _ _ _ h
    simp [World.runLoop] at h
  | succ fuel ih =>
    intro w w' s hp hR hrange hrun hok h
    unfold World.runLoop at h
    unfold okRun3 at hok
    split at h
    · cases h
      exact ⟨s, hrun, hR, hp⟩
    · next hact =>
      have hact' : w.ths.isActive = true := by simpa using hact
      have hin : w.tid < w.ctl.length := by rw [hR.lenCtl]; exact hrange hact'
      rw [if_neg hact] at hok
      simp only [Bool.and_eq_true] at hok
      obtain ⟨hok1, hok2⟩ := hok
      split at h
      · cases h
      · next w1 hstep =>
        rw [hstep] at hok2
        obtain ⟨⟨hp1, hsim⟩, hr1⟩ := step_sim3 (by rw [hp]; exact hwf) hR hin hok1 hstep
        rcases hsim with ⟨hR1, hev⟩ | ⟨l, s1, hen, hst, hR1, hev⟩
        · exact ih w1 w' s (hp1.trans hp) hR1 hr1 (by rw [hev]; exact hrun) hok2 h
        · rw [hp] at hen hst
          refine ih w1 w' s1 (hp1.trans hp) hR1 hr1 ?_ hok2 h
          rw [triple_step hev]
          exact SCData3.Run.step hrun hen hst

end Refine3
end LoomVerif

/-
C08, repair of finding F17, the run-level law: what a thread knows or WILL know at its next `park` — its
`causality` joined with the stored unpark causality `unparkCaus` — never shrinks, whatever any thread does.  Hence
the causality an unparker had at its `unpark` is below the target's causality after the `park` that consumes the
unpark (or after the wake-up of the parked target), however many stages of whatever threads run in between.

`Cov u w w'`: every thread whose `causality ⊔ unparkCaus` is above `u` in `w` still has it above `u` in `w'`.  Proved
for every helper of `Model/Interp.lean`, `Exec.schedule`, `Exec.newThread`, the atomics, and hence for every stage of
every operation and of the epilogue (`stepActive_cov`).
-/
import LoomVerif.Proofs.C08Token
import LoomVerif.Proofs.C01Choice

set_option linter.unusedSimpArgs false
set_option linter.unusedVariables false

namespace LoomVerif
namespace Hb
open C12 Tok

/-- `u` is below what the thread knows or will know at its next `park` -/
def covT (u : VV) (t : Thread) : Prop := u.le (t.causality.join t.unparkCaus)

theorem covT_of_le {u : VV} {t t' : Thread} (hc : t.causality.le t'.causality)
    (hu : t.unparkCaus.le t'.unparkCaus) (h : covT u t) : covT u t' :=
  VV.le_trans h (VV.join_le (VV.le_trans hc (VV.le_join_left _ _)) (VV.le_trans hu (VV.le_join_right _ _)))

theorem covT_caus {u : VV} {t : Thread} {v : VV} (hc : t.causality.le v) (h : covT u t) :
    covT u { t with causality := v } :=
  covT_of_le (t' := { t with causality := v }) hc (VV.le_refl _) h

theorem covT_acquire {u : VV} {t : Thread} (h : covT u t) : covT u t.acquireUnpark :=
  VV.le_trans h (VV.le_join_left _ _)

theorem covT_setUnparked {u : VV} {t : Thread} (h : covT u t) : covT u t.setUnparked := by
  unfold Thread.setUnparked
  split
  · exact covT_acquire (t := t.setRunnable) h
  · split
    · exact h
    · exact h

theorem covT_unpark {u : VV} {t : Thread} (x : Thread) (h : covT u t) : covT u (t.unpark x) := by
  unfold Thread.unpark
  apply covT_setUnparked
  exact covT_of_le (t := t) (t' := { t with unparkCaus := t.unparkCaus.join x.causality }) (VV.le_refl _)
    (VV.le_join_left _ _) h

theorem covT_wakeFrom {u : VV} {t : Thread} (x : Thread) (h : covT u t) : covT u (t.wakeFrom x) := by
  unfold Thread.wakeFrom
  have h' : covT u { t with causality := t.causality.join x.causality } := covT_caus (VV.le_join_left _ _) h
  simp only
  split
  · exact h'
  · exact h'

theorem covT_wake {u : VV} {t : Thread} (h : covT u t) : covT u t.wake := by
  unfold Thread.wake; split <;> exact h

/-! ### thread tables -/

/-- every thread covered in `s` is covered in `s'` -/
def Le (u : VV) (s s' : Threads) : Prop := ∀ i, covT u (s.get i) → covT u (s'.get i)

theorem Le.refl (u : VV) (s : Threads) : Le u s s := fun _ h => h
theorem Le.trans {u : VV} {a b c : Threads} (h1 : Le u a b) (h2 : Le u b c) : Le u a c :=
  fun i h => h2 i (h1 i h)

theorem le_modify_at {u : VV} {a s : Threads} (i : Nat) (f : Thread → Thread)
    (hf : covT u (s.get i) → covT u (f (s.get i))) (ha : Le u a s) : Le u a (s.modify i f) := by
  intro j hj
  have := ha j hj
  rw [WB.get_modify]
  split
  · next e => rw [← e.1]; exact hf (by rw [e.1]; exact this)
  · exact this

theorem le_modify {u : VV} {a s : Threads} (i : Nat) (f : Thread → Thread)
    (hf : ∀ t, covT u t → covT u (f t)) (ha : Le u a s) : Le u a (s.modify i f) :=
  le_modify_at i f (hf _) ha

theorem le_modifyActive {u : VV} {a s : Threads} (f : Thread → Thread)
    (hf : ∀ t, covT u t → covT u (f t)) (ha : Le u a s) : Le u a (s.modifyActive f) :=
  le_modify _ f hf ha

theorem get_mapIdx' (s : Threads) (F : Nat → Thread → Thread) (i : Nat) :
    ({ s with threads := s.threads.mapIdx F } : Threads).get i =
      if i < s.threads.length then F i (s.get i) else s.get i := by
  simp only [Threads.get, List.getD_eq_getElem?_getD, List.getElem?_mapIdx]
  by_cases hi : i < s.threads.length
  · simp [hi]
  · have : s.threads[i]? = none := by simp; omega
    simp [this, hi]

theorem le_mapIdx {u : VV} {a s : Threads} (F : Nat → Thread → Thread)
    (hF : ∀ i t, covT u t → covT u (F i t)) (ha : Le u a s) :
    Le u a { s with threads := s.threads.mapIdx F } := by
  intro j hj
  have := ha j hj
  rw [get_mapIdx']
  split
  · exact hF _ _ this
  · exact this

theorem le_active {u : VV} {a s : Threads} (n : Option Nat) (ha : Le u a s) :
    Le u a { s with active := n } := ha

theorem le_seqCst {u : VV} {a s : Threads} (v : VV) (ha : Le u a s) :
    Le u a { s with seqCst := v } := ha

theorem le_setCaus {u : VV} {a s : Threads} (v : VV) (hv : s.caus.le v) (ha : Le u a s) :
    Le u a (s.setCaus v) :=
  le_modify_at _ _ (fun h => covT_caus (t := s.get s.activeId) hv h) ha

theorem sync_le_load (sy : Sync) (c : VV) (o : Ord) : c.le (sy.load c o) := by
  unfold Sync.load; split
  · exact VV.le_join_left _ _
  · exact VV.le_refl _

theorem le_syncLoad {u : VV} {a s : Threads} (sy : Sync) (o : Ord) (ha : Le u a s) :
    Le u a (s.syncLoad sy o) :=
  le_setCaus _ (sync_le_load _ _ _) ha

theorem le_inc {u : VV} {a s : Threads} (ha : Le u a s) : Le u a s.activeCausalityInc :=
  le_modifyActive _ (fun t h => covT_caus (VV.le_inc _ _) h) ha

theorem le_seqCstFence {u : VV} {a s : Threads} (ha : Le u a s) : Le u a s.seqCstFence := by
  unfold Threads.seqCstFence
  exact le_seqCst _ (le_setCaus _ (VV.le_join_left _ _) ha)

theorem le_unpark {u : VV} {a s : Threads} (t : Nat) (ha : Le u a s) : Le u a (s.unpark t) := by
  unfold Threads.unpark
  split
  · exact le_modifyActive _ (fun _ h => covT_setUnparked h) ha
  · exact le_modify _ _ (fun _ h => covT_unpark _ h) ha

theorem le_wake {u : VV} {a s : Threads} (t : Nat) (ha : Le u a s) : Le u a (s.wake t) := by
  unfold Threads.wake
  split
  · exact ha
  · exact le_modify _ _ (fun _ h => covT_wakeFrom _ h) ha

theorem le_foldl_wake {u : VV} {a : Threads} (l : List Nat) (s : Threads) (ha : Le u a s) :
    Le u a (l.foldl (fun ths t => ths.wake t) s) := by
  induction l generalizing s with
  | nil => exact ha
  | cons t l ih => rw [List.foldl_cons]; exact ih _ (le_wake t ha)

/-! ### `Exec.schedule`, `Exec.newThread`, the atomics -/

theorem le_congr_threads {u : VV} {a s s' : Threads} (h : s'.threads = s.threads) (ha : Le u a s) :
    Le u a s' := by
  intro i hi
  have := ha i hi
  unfold Threads.get at *
  rw [h]; exact this

theorem schedule_le {e : Exec} {pk : Bool} {r : Exec × Bool} (h : e.schedule pk = .ok r)
    {u : VV} {a : Threads} (ha : Le u a e.threads) : Le u a r.1.threads := by
  obtain ⟨e', b⟩ := r
  obtain ⟨_, p1, next, _, _, _, hm⟩ := Exec.schedule_ok h
  cases next with
  | none =>
    obtain ⟨_, _, he'⟩ := hm
    show Le u a e'.threads
    rw [he']
    exact ha
  | some nid =>
    simp only at hm
    obtain ⟨ths, objs, hf, he', _⟩ := Exec.finish_ok hm
    obtain ⟨_, _, _, hc⟩ := Exec.finishOp_ok hf
    show Le u a e'.threads
    rw [he']
    show Le u a { ths with threads := Exec.reactivate ths.threads nid }
    unfold Exec.reactivate
    refine le_mapIdx _ (fun i t ht => by split <;> exact ht) ?_
    rcases hc with ⟨h1, _, _⟩ | ⟨op, d, _, h1, _⟩
    · exact le_congr_threads h1 ha
    · exact le_congr_threads (s := e.threads.modify nid fun t => { t with dporVV := d }) h1
        (le_modify _ _ (fun _ ht => ht) ha)

theorem get_append_new (s : Threads) (x : Thread) (j : Nat) :
    ({ s with threads := s.threads ++ [x] } : Threads).get j =
      if j = s.threads.length then x else s.get j := by
  simp only [Threads.get, List.getD_eq_getElem?_getD]
  by_cases hj : j < s.threads.length
  · rw [List.getElem?_append_left hj]; simp [Nat.ne_of_lt hj]
  · by_cases hj' : j = s.threads.length
    · subst hj'; simp
    · have : s.threads.length < j := by omega
      rw [List.getElem?_eq_none (by simp; omega), List.getElem?_eq_none (by omega)]
      simp [hj']

theorem newThread_le {e : Exec} {r : Exec × Nat} (h : e.newThread = .ok r)
    {u : VV} {a : Threads} (ha : Le u a e.threads) : Le u a r.1.threads := by
  unfold Exec.newThread at h
  simp only [bind, Except.bind, pure, Except.pure] at h
  split at h
  · cases h
  · next v hv =>
    cases h
    unfold Threads.newThread at hv
    split at hv
    · cases hv
      dsimp only
      refine le_modify _ _ (fun t ht => covT_caus (VV.le_inc _ _) ht) ?_
      refine le_modify_at _ _ ?_ ?_
      · intro ht
        exact covT_caus (VV.le_trans (VV.le_join_left _ _) (VV.le_inc _ _)) ht
      · intro j hj
        have := ha j hj
        rw [get_append_new]
        split
        · next e1 =>
          -- the default record outside the table
          have : e.threads.get j = {} := by
            simp only [Threads.get, List.getD_eq_getElem?_getD]
            rw [List.getElem?_eq_none (by omega)]; rfl
          rw [← this]; assumption
        · exact this
    · cases hv

theorem atomic_fenceAcq_le (at' : Atomic) {u : VV} {a : Threads} (ths : Threads) (ha : Le u a ths) :
    Le u a (at'.fenceAcq ths) := by
  unfold Atomic.fenceAcq
  generalize Atomic.storesMutOrder at'.cnt = l
  induction l generalizing ths with
  | nil => exact ha
  | cons i l ih =>
    simp only [List.foldl_cons]
    apply ih
    split
    · exact le_syncLoad _ _ ha
    · exact ha

theorem Atomic.load_le {at' : Atomic} {ths : Threads} {idx : Nat} {o : Ord} {r : Atomic × Threads × Nat}
    (h : at'.load ths idx o = .ok r) {u : VV} {a : Threads} (ha : Le u a ths) : Le u a r.2.1 := by
  unfold Atomic.load at h
  mt_split h
  all_goals first | (cases h; done) | (cases h; exact le_syncLoad _ _ ha)

theorem Atomic.rmw_le {at' : Atomic} {ths : Threads} {idx : Nat} {so fo : Ord} {f : Nat → Option Nat}
    {r : Atomic × Threads × Nat × Bool} (h : at'.rmw ths idx so fo f = .ok r)
    {u : VV} {a : Threads} (ha : Le u a ths) : Le u a r.2.1 := by
  unfold Atomic.rmw at h
  mt_split h
  all_goals first | (cases h; done) | (cases h; exact le_syncLoad _ _ ha)

theorem Prim.effect_le {t : ATy} {at' : Atomic} {ths : Threads} {p : Prim} {idx : Nat}
    {r : Atomic × Threads × Ret} (h : p.effect t at' ths idx = .ok r)
    {u : VV} {a : Threads} (ha : Le u a ths) : Le u a r.2.1 := by
  unfold Prim.effect at h
  mt_split h
  all_goals first
    | (cases h; done)
    | (cases h; exact ha)
    | (have := Atomic.load_le ‹Atomic.load _ _ _ _ = Except.ok _› ha; cases h; simp_all; done)
    | (have := Atomic.rmw_le ‹Atomic.rmw _ _ _ _ _ _ = Except.ok _› ha; cases h; simp_all; done)

/-! ### the helpers of the interpreter -/

theorem le_forOthers {u : VV} {a : Threads} (w : World) (p : Operation → Bool) (f : Thread → Thread)
    (hf : ∀ t, covT u t → covT u (f t)) (ha : Le u a w.exec.threads) :
    Le u a (w.forOthers p f).exec.threads := by
  unfold World.forOthers
  exact le_mapIdx _ (fun i t ht => by
    split
    · exact ht
    · split
      · split
        · exact hf _ ht
        · exact ht
      · exact ht) ha

theorem le_forOthers_wake {u : VV} {a : Threads} (w : World) (p : Operation → Bool)
    (ha : Le u a w.exec.threads) : Le u a (w.forOthers p Thread.wake).exec.threads :=
  le_forOthers w p _ (fun _ h => covT_wake h) ha
theorem le_forOthers_setBlocked {u : VV} {a : Threads} (w : World) (p : Operation → Bool)
    (ha : Le u a w.exec.threads) : Le u a (w.forOthers p Thread.setBlocked).exec.threads :=
  le_forOthers w p _ (fun _ h => h) ha
theorem le_forOthers_notify {u : VV} {a : Threads} (w : World) (p : Operation → Bool) (v : VV)
    (ha : Le u a w.exec.threads) :
    Le u a (w.forOthers p fun th => ({ th with causality := th.causality.join v }).wake).exec.threads :=
  le_forOthers w p _ (fun t h => covT_wake (covT_caus (t := t) (VV.le_join_left _ _) h)) ha

theorem le_fenceAcq {u : VV} {a : Threads} (w : World) (ha : Le u a w.exec.threads) :
    Le u a w.fenceAcq.exec.threads := by
  unfold World.fenceAcq
  show Le u a (w.exec.objs.foldl _ w.ths)
  have ha' : Le u a w.ths := ha
  revert ha'
  generalize w.ths = ths
  generalize w.exec.objs = os
  intro ha'
  induction os generalizing ths with
  | nil => exact ha'
  | cons o os ih =>
    simp only [List.foldl_cons]
    apply ih
    split
    · exact atomic_fenceAcq_le _ _ ha'
    · exact ha'

theorem le_fenceRel {u : VV} {a : Threads} (w : World) (ha : Le u a w.exec.threads) :
    Le u a w.fenceRel.exec.threads :=
  le_modifyActive _ (fun _ h => h) ha

theorem le_sync {u : VV} {a : Threads} (w : World) (ha : Le u a w.exec.threads) :
    Le u a w.sync.exec.threads := le_inc ha

theorem le_fenceSC {u : VV} {a : Threads} (w : World) (ha : Le u a w.exec.threads) :
    Le u a w.fenceSC.exec.threads := by
  unfold World.fenceSC
  show Le u a (Threads.seqCstFence _)
  exact le_seqCstFence (le_fenceRel _ (le_fenceAcq _ (le_sync _ ha)))

theorem le_tlsGet {u : VV} {a : Threads} (w : World) (k : Nat) (ha : Le u a w.exec.threads) :
    Le u a (w.tlsGet k).1.exec.threads := by rw [threads_tlsGet]; exact ha

theorem le_dropLocals {u : VV} {a : Threads} (w : World) (ha : Le u a w.exec.threads) :
    Le u a w.dropLocals.exec.threads := by rw [threads_dropLocals]; exact ha

/-- the scheduling points: the caller is blocked / yielded / parked / terminated, then `schedule` runs -/
theorem sched_le {w : World} {f : Thread → Thread} {r : Exec × Bool} {u : VV} {a : Threads}
    (h : ({ w.exec with threads := w.ths.modifyActive f } : Exec).schedule w.panicking = .ok r)
    (hf : ∀ t, covT u t → covT u (f t))
    (ha : Le u a w.exec.threads) : Le u a r.1.threads :=
  schedule_le h (le_modifyActive f hf ha)

theorem branch_le {w w' : World} {o : Nat} {act : Action} {b wt : Bool} (h : w.branch o act b wt = .ok w')
    {u : VV} {a : Threads} (ha : Le u a w.exec.threads) : Le u a w'.exec.threads := by
  unfold World.branch at h
  mt_split h
  · cases h
  · next v hv =>
    cases h
    exact sched_le hv (fun t ht => by split <;> exact ht) ha

theorem yieldNow_le {w w' : World} (h : w.yieldNow = .ok w')
    {u : VV} {a : Threads} (ha : Le u a w.exec.threads) : Le u a w'.exec.threads := by
  unfold World.yieldNow at h
  mt_split h
  · cases h
  · next v hv =>
    cases h
    exact sched_le hv (fun t ht => ht) ha

theorem blockNow_le {w w' : World} (h : w.blockNow = .ok w')
    {u : VV} {a : Threads} (ha : Le u a w.exec.threads) : Le u a w'.exec.threads := by
  unfold World.blockNow at h
  mt_split h
  · cases h
  · next v hv =>
    cases h
    exact sched_le hv (fun t ht => ht) ha

theorem threadDone_le {w w' : World} (h : w.threadDone = .ok w')
    {u : VV} {a : Threads} (ha : Le u a w.exec.threads) : Le u a w'.exec.threads := by
  unfold World.threadDone at h
  mt_split h
  · cases h
  · next v hv =>
    cases h
    exact sched_le hv (fun t ht => ht) ha

theorem parkNow_le {w w' : World} (h : w.parkNow = .ok w')
    {u : VV} {a : Threads} (ha : Le u a w.exec.threads) : Le u a w'.exec.threads := by
  unfold World.parkNow at h
  mt_split h
  · cases h
    exact le_modifyActive _ (fun t ht => covT_acquire (t := { t with token := false }) ht) ha
  · cases h
  · next v hv =>
    cases h
    exact sched_le hv (fun t ht => ht) ha

/-- normalise the thread table of a world expression -/
macro "le_norm" : tactic => `(tactic|
  (try simp only [threads_setThs, threads_setObj, threads_setObjs, threads_setPath, threads_pushObj,
    threads_modCtl, threads_setStage, threads_complete, threads_modArc, threads_modFut, threads_setHandle,
    threads_ths]))

/-- one backward step towards `Le u a X`: by the structure of `X`, or by a helper call recorded in the context
(extensible) -/
syntax "le_rule" : tactic
macro_rules | `(tactic| le_rule) => `(tactic| with_reducible apply le_foldl_wake)
macro_rules | `(tactic| le_rule) => `(tactic| with_reducible apply le_wake)
macro_rules | `(tactic| le_rule) => `(tactic| with_reducible apply le_unpark)
macro_rules | `(tactic| le_rule) => `(tactic| with_reducible apply le_seqCstFence)
macro_rules | `(tactic| le_rule) => `(tactic| with_reducible apply le_inc)
macro_rules | `(tactic| le_rule) => `(tactic| with_reducible apply le_syncLoad)
macro_rules | `(tactic| le_rule) => `(tactic| with_reducible apply le_dropLocals)
macro_rules | `(tactic| le_rule) => `(tactic| with_reducible apply le_tlsGet)
macro_rules | `(tactic| le_rule) => `(tactic| with_reducible apply le_fenceSC)
macro_rules | `(tactic| le_rule) => `(tactic| with_reducible apply le_sync)
macro_rules | `(tactic| le_rule) => `(tactic| with_reducible apply le_fenceRel)
macro_rules | `(tactic| le_rule) => `(tactic| with_reducible apply le_fenceAcq)
macro_rules | `(tactic| le_rule) => `(tactic| with_reducible apply le_forOthers_notify)
macro_rules | `(tactic| le_rule) => `(tactic| with_reducible apply le_forOthers_setBlocked)
macro_rules | `(tactic| le_rule) => `(tactic| with_reducible apply le_forOthers_wake)
macro_rules | `(tactic| le_rule) =>
                `(tactic| with_reducible refine Prim.effect_le ‹Prim.effect _ _ _ _ _ = Except.ok _› ?_)
macro_rules | `(tactic| le_rule) =>
                `(tactic| with_reducible refine newThread_le ‹Exec.newThread _ = Except.ok _› ?_)
macro_rules | `(tactic| le_rule) =>
                `(tactic| with_reducible refine parkNow_le ‹World.parkNow _ = Except.ok _› ?_)
macro_rules | `(tactic| le_rule) =>
                `(tactic| with_reducible refine threadDone_le ‹World.threadDone _ = Except.ok _› ?_)
macro_rules | `(tactic| le_rule) =>
                `(tactic| with_reducible refine blockNow_le ‹World.blockNow _ = Except.ok _› ?_)
macro_rules | `(tactic| le_rule) =>
                `(tactic| with_reducible refine yieldNow_le ‹World.yieldNow _ = Except.ok _› ?_)
macro_rules | `(tactic| le_rule) =>
                `(tactic| with_reducible refine branch_le ‹World.branch _ _ _ _ _ = Except.ok _› ?_)
macro_rules | `(tactic| le_rule) => `(tactic| with_reducible assumption)
macro_rules | `(tactic| le_rule) => `(tactic| with_reducible exact Le.refl _ _)

/-- close `Le u a X.exec.threads` by backward chaining through the structure of `X` and the helper calls
recorded in the context -/
macro "le_close" : tactic => `(tactic| (le_norm; repeat (le_rule; le_norm)))

macro "le_auto" h:ident : tactic => `(tactic|
  (mt_split $h
   all_goals first
     | (cases $h:ident; done)
     | (cases $h:ident; le_close; done)
     | (le_close; done)))

theorem postAcquire_le {w : World} {o : Nat} {r : World × Bool} (h : w.postAcquire o = .ok r)
    {u : VV} {a : Threads} (ha : Le u a w.exec.threads) : Le u a r.1.exec.threads := by
  unfold World.postAcquire at h; le_auto h
theorem releaseLock_le {w w' : World} {o : Nat} (h : w.releaseLock o = .ok w')
    {u : VV} {a : Threads} (ha : Le u a w.exec.threads) : Le u a w'.exec.threads := by
  unfold World.releaseLock at h; le_auto h

macro_rules | `(tactic| le_rule) =>
                `(tactic| with_reducible refine postAcquire_le ‹World.postAcquire _ _ = Except.ok _› ?_)
macro_rules | `(tactic| le_rule) =>
                `(tactic| with_reducible refine releaseLock_le ‹World.releaseLock _ _ = Except.ok _› ?_)
theorem postAcquireRead_le {w : World} {o : Nat} {r : World × Bool} (h : w.postAcquireRead o = .ok r)
    {u : VV} {a : Threads} (ha : Le u a w.exec.threads) : Le u a r.1.exec.threads := by
  unfold World.postAcquireRead at h; le_auto h
macro_rules | `(tactic| le_rule) =>
                `(tactic| with_reducible refine postAcquireRead_le ‹World.postAcquireRead _ _ = Except.ok _› ?_)
theorem postAcquireWrite_le {w : World} {o : Nat} {r : World × Bool} (h : w.postAcquireWrite o = .ok r)
    {u : VV} {a : Threads} (ha : Le u a w.exec.threads) : Le u a r.1.exec.threads := by
  unfold World.postAcquireWrite at h; le_auto h
macro_rules | `(tactic| le_rule) =>
                `(tactic| with_reducible refine postAcquireWrite_le ‹World.postAcquireWrite _ _ = Except.ok _› ?_)
theorem releaseRead_le {w w' : World} {o : Nat} (h : w.releaseRead o = .ok w')
    {u : VV} {a : Threads} (ha : Le u a w.exec.threads) : Le u a w'.exec.threads := by
  unfold World.releaseRead at h; le_auto h
macro_rules | `(tactic| le_rule) =>
                `(tactic| with_reducible refine releaseRead_le ‹World.releaseRead _ _ = Except.ok _› ?_)
theorem releaseWrite_le {w w' : World} {o : Nat} (h : w.releaseWrite o = .ok w')
    {u : VV} {a : Threads} (ha : Le u a w.exec.threads) : Le u a w'.exec.threads := by
  unfold World.releaseWrite at h; le_auto h
macro_rules | `(tactic| le_rule) =>
                `(tactic| with_reducible refine releaseWrite_le ‹World.releaseWrite _ _ = Except.ok _› ?_)
theorem notifyWait2_le {w w' : World} {o : Nat} (h : w.notifyWait2 o = .ok w')
    {u : VV} {a : Threads} (ha : Le u a w.exec.threads) : Le u a w'.exec.threads := by
  unfold World.notifyWait2 at h; le_auto h
macro_rules | `(tactic| le_rule) =>
                `(tactic| with_reducible refine notifyWait2_le ‹World.notifyWait2 _ _ = Except.ok _› ?_)
theorem notifyEffect_le {w w' : World} {o : Nat} (h : w.notifyEffect o = .ok w')
    {u : VV} {a : Threads} (ha : Le u a w.exec.threads) : Le u a w'.exec.threads := by
  unfold World.notifyEffect at h; le_auto h
macro_rules | `(tactic| le_rule) =>
                `(tactic| with_reducible refine notifyEffect_le ‹World.notifyEffect _ _ = Except.ok _› ?_)
theorem sendEffect_le {w w' : World} {o : Nat} {v : Int} (h : w.sendEffect o v = .ok w')
    {u : VV} {a : Threads} (ha : Le u a w.exec.threads) : Le u a w'.exec.threads := by
  unfold World.sendEffect at h; le_auto h
macro_rules | `(tactic| le_rule) =>
                `(tactic| with_reducible refine sendEffect_le ‹World.sendEffect _ _ _ = Except.ok _› ?_)
theorem recvEffect_le {w : World} {o : Nat} {r : World × Int} (h : w.recvEffect o = .ok r)
    {u : VV} {a : Threads} (ha : Le u a w.exec.threads) : Le u a r.1.exec.threads := by
  unfold World.recvEffect at h; le_auto h
macro_rules | `(tactic| le_rule) =>
                `(tactic| with_reducible refine recvEffect_le ‹World.recvEffect _ _ = Except.ok _› ?_)
theorem refDecEffect_le {w : World} {o : Nat} {r : World × Bool} (h : w.refDecEffect o = .ok r)
    {u : VV} {a : Threads} (ha : Le u a w.exec.threads) : Le u a r.1.exec.threads := by
  unfold World.refDecEffect at h; le_auto h
macro_rules | `(tactic| le_rule) =>
                `(tactic| with_reducible refine refDecEffect_le ‹World.refDecEffect _ _ = Except.ok _› ?_)
theorem afterDec_le {w w' : World} {x : Nat} {l : Bool} (h : w.afterDec x l = .ok w')
    {u : VV} {a : Threads} (ha : Le u a w.exec.threads) : Le u a w'.exec.threads := by
  unfold World.afterDec at h; le_auto h
macro_rules | `(tactic| le_rule) =>
                `(tactic| with_reducible refine afterDec_le ‹World.afterDec _ _ _ = Except.ok _› ?_)
theorem primEffect_le {w : World} {x : Nat} {p : Prim} {r : World × Ret} (h : w.primEffect x p = .ok r)
    {u : VV} {a : Threads} (ha : Le u a w.exec.threads) : Le u a r.1.exec.threads := by
  unfold World.primEffect at h
  cases hs : p.synchronizes <;> simp only [hs, if_true, if_false, Bool.false_eq_true] at h <;> le_auto h
macro_rules | `(tactic| le_rule) =>
                `(tactic| with_reducible refine primEffect_le ‹World.primEffect _ _ _ = Except.ok _› ?_)
theorem wakerClone_le {w w' : World} {x : Nat} (h : w.wakerClone x = .ok w')
    {u : VV} {a : Threads} (ha : Le u a w.exec.threads) : Le u a w'.exec.threads := by
  unfold World.wakerClone at h; le_auto h
macro_rules | `(tactic| le_rule) =>
                `(tactic| with_reducible refine wakerClone_le ‹World.wakerClone _ _ = Except.ok _› ?_)
theorem lazyRead_le {w : World} {sv : LazyVal} {r : World × Int} (h : w.lazyRead sv = .ok r)
    {u : VV} {a : Threads} (ha : Le u a w.exec.threads) : Le u a r.1.exec.threads := by
  unfold World.lazyRead at h; le_auto h
macro_rules | `(tactic| le_rule) =>
                `(tactic| with_reducible refine lazyRead_le ‹World.lazyRead _ _ = Except.ok _› ?_)
theorem wakerDrop_le {w w' : World} {x : Nat} (h : w.wakerDrop x = .ok w')
    {u : VV} {a : Threads} (ha : Le u a w.exec.threads) : Le u a w'.exec.threads := by
  unfold World.wakerDrop at h; le_auto h
macro_rules | `(tactic| le_rule) =>
                `(tactic| with_reducible refine wakerDrop_le ‹World.wakerDrop _ _ = Except.ok _› ?_)
theorem lazyInitFinish_le {w : World} {z id : Nat} {r : World × Int} (h : w.lazyInitFinish z id = .ok r)
    {u : VV} {a : Threads} (ha : Le u a w.exec.threads) : Le u a r.1.exec.threads := by
  unfold World.lazyInitFinish at h; le_auto h
macro_rules | `(tactic| le_rule) =>
                `(tactic| with_reducible refine lazyInitFinish_le ‹World.lazyInitFinish _ _ _ = Except.ok _› ?_)
theorem notifyWait1_le {w : World} {o : Nat} {r : World × Nat} (h : w.notifyWait1 o = .ok r)
    {u : VV} {a : Threads} (ha : Le u a w.exec.threads) : Le u a r.1.exec.threads := by
  unfold World.notifyWait1 at h; le_auto h
macro_rules | `(tactic| le_rule) =>
                `(tactic| with_reducible refine notifyWait1_le ‹World.notifyWait1 _ _ = Except.ok _› ?_)
theorem primStart_le {w w' : World} {x : Nat} {p : Prim} {next : Nat} (h : w.primStart x p next = .ok w')
    {u : VV} {a : Threads} (ha : Le u a w.exec.threads) : Le u a w'.exec.threads := by
  unfold World.primStart at h; le_auto h
macro_rules | `(tactic| le_rule) =>
                `(tactic| with_reducible refine primStart_le ‹World.primStart _ _ _ _ = Except.ok _› ?_)
theorem lazyStage_le {w w' : World} {c : TCtl} {z : Nat} (h : w.lazyStage c z = .ok w')
    {u : VV} {a : Threads} (ha : Le u a w.exec.threads) : Le u a w'.exec.threads := by
  unfold World.lazyStage at h; le_auto h
macro_rules | `(tactic| le_rule) =>
                `(tactic| with_reducible refine lazyStage_le ‹World.lazyStage _ _ _ = Except.ok _› ?_)
theorem blockOnStage_le {w w' : World} {c : TCtl} {f mode : Nat} (h : w.blockOnStage c f mode = .ok w')
    {u : VV} {a : Threads} (ha : Le u a w.exec.threads) : Le u a w'.exec.threads := by
  unfold World.blockOnStage at h; le_auto h
macro_rules | `(tactic| le_rule) =>
                `(tactic| with_reducible refine blockOnStage_le ‹World.blockOnStage _ _ _ _ = Except.ok _› ?_)
theorem wakeStage_le {w w' : World} {c : TCtl} {f : Nat} {b store : Bool} (h : w.wakeStage c f b store = .ok w')
    {u : VV} {a : Threads} (ha : Le u a w.exec.threads) : Le u a w'.exec.threads := by
  unfold World.wakeStage at h; le_auto h
macro_rules | `(tactic| le_rule) =>
                `(tactic| with_reducible refine wakeStage_le ‹World.wakeStage _ _ _ _ _ = Except.ok _› ?_)
theorem awTakeStage_le {w w' : World} {c : TCtl} {f : Nat} (h : w.awTakeStage c f = .ok w')
    {u : VV} {a : Threads} (ha : Le u a w.exec.threads) : Le u a w'.exec.threads := by
  unfold World.awTakeStage at h; le_auto h
macro_rules | `(tactic| le_rule) =>
                `(tactic| with_reducible refine awTakeStage_le ‹World.awTakeStage _ _ _ = Except.ok _› ?_)

/-! ### one stage of an operation, of the epilogue -/

theorem tlsGet_le {w : World} {k : Nat} {r : World × Option Nat} (h : w.tlsGet k = r)
    {u : VV} {a : Threads} (ha : Le u a w.exec.threads) : Le u a r.1.exec.threads := by
  subst h; exact le_tlsGet w k ha
macro_rules | `(tactic| le_rule) =>
                `(tactic| with_reducible refine tlsGet_le ‹World.tlsGet _ _ = _› ?_)

set_option maxHeartbeats 1600000 in
/-- every stage of every operation keeps every thread covered -/
theorem runOp_le {w w' : World} {c : TCtl} {op : Op} (h : w.runOp c op = .ok w')
    {u : VV} {a : Threads} (ha : Le u a w.exec.threads) : Le u a w'.exec.threads := by
  cases op
  case «lazy» => exact lazyStage_le h ha
  case blockOn => exact blockOnStage_le h ha
  case wake => exact wakeStage_le h ha
  case wakeRef => exact wakeStage_le h ha
  case wakeQ => exact wakeStage_le h ha
  case awTake => exact awTakeStage_le h ha
  case tlsNest k j =>
    simp only [World.runOp] at h
    split at h
    · cases h
    · next h1 =>
      split at h
      · cases h
      · next h2 =>
        cases h
        exact tlsGet_le h2 (tlsGet_le h1 ha)
  all_goals (simp only [World.runOp] at h; le_auto h)

theorem dropPass_le {w w' : World} {c : TCtl} {base : Nat} {done : World → Except Panic World}
    {u : VV} {a : Threads}
    (hd : ∀ w2, done w = .ok w2 → Le u a w.exec.threads → Le u a w2.exec.threads)
    (h : w.dropPass c base done = .ok w') (ha : Le u a w.exec.threads) : Le u a w'.exec.threads := by
  unfold World.dropPass at h
  mt_split h
  all_goals first
    | (cases h; done)
    | exact hd _ h ha
    | (cases h; le_close; done)
    | (le_close; done)

theorem finishThread_le {w w' : World} {c : TCtl} (h : w.finishThread c = .ok w')
    {u : VV} {a : Threads} (ha : Le u a w.exec.threads) : Le u a w'.exec.threads := by
  unfold World.finishThread at h
  split at h
  · cases h
  · refine dropPass_le ?_ h ha
    intro w2 h2 ha2
    le_close

theorem runEpilogue_le {w w' : World} {c : TCtl} (h : w.runEpilogue c = .ok w')
    {u : VV} {a : Threads} (ha : Le u a w.exec.threads) : Le u a w'.exec.threads := by
  unfold World.runEpilogue at h
  mt_split h
  all_goals first
    | (cases h; done)
    | exact finishThread_le h ha
    | (cases h; exact ha)
    | (refine dropPass_le ?_ h ha
       intro w2 h2 ha2
       first
         | (cases h2; exact ha2)
         | (le_close; done))
    | (cases h; le_close; done)
    | (le_close; done)

/-- **one stage of the active thread** (`World.stepActive`: any stage of any operation, or of the epilogue), in any
world: every thread whose `causality ⊔ unparkCaus` is above `u` still has it above `u` -/
theorem stepActive_le {w w' : World} (h : w.stepActive = .ok w')
    {u : VV} {a : Threads} (ha : Le u a w.exec.threads) : Le u a w'.exec.threads := by
  unfold World.stepActive at h
  simp only [] at h
  split at h
  · exact runOp_le h ha
  · exact runEpilogue_le h ha

/-! ### runs -/

/-- any number of stages of the twin (of whatever thread is active at each point) -/
inductive Steps : World → World → Prop
  | refl (w : World) : Steps w w
  | step {w w1 w2 : World} : Steps w w1 → w1.stepActive = .ok w2 → Steps w w2

theorem Steps.le {w w' : World} (h : Steps w w') {u : VV} {a : Threads} (ha : Le u a w.exec.threads) :
    Le u a w'.exec.threads := by
  induction h with
  | refl => exact ha
  | step _ hs ih => exact stepActive_le hs ih

/-- along any run, a thread that is covered stays covered -/
theorem Steps.covT {w w' : World} (h : Steps w w') {u : VV} {t : Nat}
    (ht : covT u (w.exec.threads.get t)) : covT u (w'.exec.threads.get t) :=
  h.le (Le.refl u _) t ht

/-- after `Set::unpark t` the target is covered by the unparker's causality (whether `t` is another thread — the
unpark stores or hands over the causality — or the unparker itself) -/
theorem covT_after_unpark {s : Threads} {t : Nat} (hin : t < s.threads.length) :
    covT s.caus ((s.unpark t).get t) := by
  by_cases h : t = s.activeId
  · have h0 : covT s.caus (s.get t) := by
      rw [h]; exact VV.le_join_left _ _
    exact le_unpark t (Le.refl _ s) t h0
  · unfold Threads.unpark
    have : (t == s.activeId) = false := by simpa using h
    rw [this]
    simp only [Bool.false_eq_true, if_false]
    rw [WB.get_modify, if_pos ⟨rfl, hin⟩]
    -- `Thread::unpark`: the unparker's causality goes into `unparkCaus`, or into `causality` if `t` is parked
    show s.activeT.causality.le _
    unfold Thread.unpark
    apply covT_setUnparked (u := s.activeT.causality)
    exact VV.le_trans (VV.le_join_right _ _) (VV.le_join_right _ _)

theorem get_parked_lt {s : Threads} {t : Nat} (h : (s.get t).parked = true) : t < s.threads.length := by
  apply Classical.byContradiction
  intro hn
  have : s.get t = {} := by
    simp only [Threads.get, List.getD_eq_getElem?_getD]
    rw [List.getElem?_eq_none (by omega)]; rfl
  rw [this] at h
  cases h

/-- a covered thread that is blocked in `park` and is unparked (by anybody) wakes up with a causality above `u` -/
theorem covT_unpark_parked {s : Threads} {t : Nat} {u : VV} (hc : covT u (s.get t))
    (hp : (s.get t).parked = true) : u.le ((s.unpark t).get t).causality := by
  have hin := get_parked_lt hp
  have key : ∀ th : Thread, covT u th → th.parked = true → u.le th.setUnparked.causality := by
    intro th h1 h2
    unfold Thread.setUnparked
    rw [h2]
    exact h1
  unfold Threads.unpark
  split
  · next e =>
    have e' : t = s.activeId := by simpa using e
    show u.le ((s.modify s.activeId _).get t).causality
    rw [WB.get_modify, if_pos ⟨e'.symm, hin⟩]
    exact key _ hc hp
  · rw [WB.get_modify, if_pos ⟨rfl, hin⟩]
    unfold Thread.unpark
    apply key
    · exact covT_of_le (t := s.get t)
        (t' := { s.get t with unparkCaus := (s.get t).unparkCaus.join s.activeT.causality })
        (VV.le_refl _) (VV.le_join_left _ _) hc
    · exact hp

end Hb
end LoomVerif

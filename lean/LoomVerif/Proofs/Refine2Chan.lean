/-
Refinement, WAIT fragment, part 9: channels.  `send q v`, `recv q` (blocks while empty), `tryRecv q`,
`dropRx q` (the twin drains the queue message by message; the reference drops receiver and queue in one step,
when the twin's `dropRx` completes).
-/
import LoomVerif.Proofs.Refine2Ops2

namespace LoomVerif
namespace Refine2
open Refine Sy C07 C08

theorem set_getD_self {α} (l : List α) (i : Nat) (d : α) : l.set i (l.getD i d) = l := by
  apply List.ext_getElem?
  intro j
  by_cases e : i = j
  · subst e
    by_cases hi : i < l.length
    · simp [List.getD, List.getElem?_set, hi]
    · have hi' : l.length ≤ i := Nat.le_of_not_lt hi
      rw [List.getElem?_eq_none (by simpa using hi'), List.getElem?_eq_none hi']
  · simp [List.getElem?_set, e]

/-- channel `q` changes on both sides while the control record of thread `t` changes too (`dropRx`) -/
theorem RCh.setChanM {p ctl objs chan rx cl} (h : RCh p ctl objs chan rx cl) {q : Nat} (hq : q < p.cfg.nChans)
    (t : Nat) (f : TCtl → TCtl)
    (hbody : (f (ctl.getD t {})).body = (ctl.getD t {}).body)
    (hpc : (ctl.getD t {}).pc ≤ (f (ctl.getD t {})).pc)
    (hd : ∀ q', q' ≠ q → pendD p (ctl.getD t {}) = some q' → pendD p (f (ctl.getD t {})) = some q')
    (x : Obj) (queue' : List Int) (hx : view2 x = .chan queue'.length queue')
    (chq : List Int) (rxq : Bool) (clq : Nat)
    (h2 : rxq = true → chq = [] ∧ queue'.length = clq ∧
      ∃ i k, i < ctl.length ∧ k < ((ctl.modify t f).getD i {}).pc ∧
        (p.threads.getD ((ctl.modify t f).getD i {}).body [])[k]? = some (.dropRx q))
    (h3 : rxq = false → clq = 0 ∧ ∃ pre, chq = pre ++ queue' ∧
      (pre ≠ [] → ∃ i, i < ctl.length ∧ pendD p ((ctl.modify t f).getD i {}) = some q)) :
    RCh p (ctl.modify t f) (objs.set (chanIdx p q) x) (chan.set q chq) (rx.set q rxq) (cl.set q clq) := by
  obtain ⟨queue0, hv0, _, _⟩ := h.q q hq
  have hlt : chanIdx p q < objs.length := objView2_lt hv0
  have hlen : (ctl.modify t f).length = ctl.length := by simp
  refine ⟨by simpa using h.lenC, by simpa using h.lenD, by simpa using h.lenL, fun q' hq' => ?_⟩
  by_cases e : q' = q
  · subst e
    have lD : q' < rx.length := by rw [h.lenD]; exact hq'
    have lC : q' < chan.length := by rw [h.lenC]; exact hq'
    have lL : q' < cl.length := by rw [h.lenL]; exact hq'
    refine ⟨queue', by rw [objView2_set_self _ hlt, hx], ?_, ?_⟩
    · rw [getD_set_self' _ _ _ _ lD, getD_set_self' _ _ _ _ lC, getD_set_self' _ _ _ _ lL]
      intro e
      obtain ⟨a1, a2, i, k, a3, a4, a5⟩ := h2 e
      exact ⟨a1, a2, i, k, by rw [hlen]; exact a3, a4, a5⟩
    · rw [getD_set_self' _ _ _ _ lD, getD_set_self' _ _ _ _ lC, getD_set_self' _ _ _ _ lL]
      intro e
      obtain ⟨a1, pre, a2, a3⟩ := h3 e
      refine ⟨a1, pre, a2, fun hne => ?_⟩
      obtain ⟨i, b1, b2⟩ := a3 hne
      exact ⟨i, by rw [hlen]; exact b1, b2⟩
  · obtain ⟨queue, a1, a2, a3⟩ := h.q q' hq'
    refine ⟨queue, by rw [objView2_set_ne _ _ (by unfold chanIdx; omega)]; exact a1, ?_, ?_⟩
    · rw [getD_set_ne _ _ _ _ _ e, getD_set_ne _ _ _ _ _ e, getD_set_ne _ _ _ _ _ e]
      intro e'
      obtain ⟨b1, b2, i, k, hi, hk, hop⟩ := a2 e'
      refine ⟨b1, b2, i, k, by simpa using hi, ?_, ?_⟩
      · by_cases hit : i = t
        · subst hit; rw [getD_modify_self _ _ _ _ hi]; omega
        · rw [getD_modify_ne _ _ _ _ _ hit]; exact hk
      · by_cases hit : i = t
        · subst hit; rw [getD_modify_self _ _ _ _ hi, hbody]; exact hop
        · rw [getD_modify_ne _ _ _ _ _ hit]; exact hop
    · rw [getD_set_ne _ _ _ _ _ e, getD_set_ne _ _ _ _ _ e, getD_set_ne _ _ _ _ _ e]
      intro e'
      obtain ⟨b1, pre, b2, b3⟩ := a3 e'
      refine ⟨b1, pre, b2, fun hne => ?_⟩
      obtain ⟨i, hi, hp⟩ := b3 hne
      refine ⟨i, by simpa using hi, ?_⟩
      by_cases hit : i = t
      · subst hit; rw [getD_modify_self _ _ _ _ hi]; exact hd q' e hp
      · rw [getD_modify_ne _ _ _ _ _ hit]; exact hp

/-- channel `q` changes on both sides (the control table does not) -/
theorem RO.setChan {p ctl sp objs nw s} (h : RO p ctl sp objs nw s) {q : Nat} (hq : q < p.cfg.nChans)
    (x : Obj) (queue' : List Int) (hx : view2 x = .chan queue'.length queue')
    (chq : List Int) (rxq : Bool) (clq : Nat)
    (h2 : rxq = true → chq = [] ∧ queue'.length = clq ∧
      ∃ i k, i < ctl.length ∧ k < (ctl.getD i {}).pc ∧
        (p.threads.getD (ctl.getD i {}).body [])[k]? = some (.dropRx q))
    (h3 : rxq = false → clq = 0 ∧ ∃ pre, chq = pre ++ queue' ∧
      (pre ≠ [] → ∃ i, i < ctl.length ∧ pendD p (ctl.getD i {}) = some q)) :
    RO p ctl sp (objs.set (chanIdx p q) x) nw
      { s with chan := s.chan.set q chq, rxDropped := s.rxDropped.set q rxq, chanLeft := s.chanLeft.set q clq } := by
  obtain ⟨queue0, hv0, _, _⟩ := h.ch.q q hq
  exact ⟨h.y.setOther hv0 x (by intro _ e; cases e) (by intro _ e; cases e) (by intro _ _ e; cases e),
    h.ch.setChan hq x queue' hx chq rxq clq h2 h3,
    h.n.setOther hv0 x (by intro _ _ e; cases e), h.cv.setOther hv0 x (by intro _ e; cases e)⟩

/-- … and the control record of thread `t` moves too -/
theorem RO.setChanM {p ctl sp objs nw s} (h : RO p ctl sp objs nw s) {q : Nat} (hq : q < p.cfg.nChans)
    (t : Nat) (f : TCtl → TCtl)
    (hbody : (f (ctl.getD t {})).body = (ctl.getD t {}).body)
    (hpc : (ctl.getD t {}).pc ≤ (f (ctl.getD t {})).pc)
    (hfin : 10 ≤ (ctl.getD t {}).fin → 10 ≤ (f (ctl.getD t {})).fin)
    (hN : pendN p (f (ctl.getD t {})) = pendN p (ctl.getD t {}))
    (hC0 : pendCv p (ctl.getD t {}) = none) (hC1 : pendCv p (f (ctl.getD t {})) = none)
    (hd : ∀ q', q' ≠ q → pendD p (ctl.getD t {}) = some q' → pendD p (f (ctl.getD t {})) = some q')
    (x : Obj) (queue' : List Int) (hx : view2 x = .chan queue'.length queue')
    (chq : List Int) (rxq : Bool) (clq : Nat)
    (h2 : rxq = true → chq = [] ∧ queue'.length = clq ∧
      ∃ i k, i < ctl.length ∧ k < ((ctl.modify t f).getD i {}).pc ∧
        (p.threads.getD ((ctl.modify t f).getD i {}).body [])[k]? = some (.dropRx q))
    (h3 : rxq = false → clq = 0 ∧ ∃ pre, chq = pre ++ queue' ∧
      (pre ≠ [] → ∃ i, i < ctl.length ∧ pendD p ((ctl.modify t f).getD i {}) = some q)) :
    RO p (ctl.modify t f) sp (objs.set (chanIdx p q) x) nw
      { s with chan := s.chan.set q chq, rxDropped := s.rxDropped.set q rxq, chanLeft := s.chanLeft.set q clq } := by
  obtain ⟨queue0, hv0, _, _⟩ := h.ch.q q hq
  exact ⟨(h.y.modify t f hbody hfin).setOther hv0 x (by intro _ e; cases e) (by intro _ e; cases e)
      (by intro _ _ e; cases e),
    h.ch.setChanM hq t f hbody hpc hd x queue' hx chq rxq clq h2 h3,
    (h.n.modify t f hN).setOther hv0 x (by intro _ _ e; cases e),
    (h.cv.modifyPlain t f hbody hC0 hC1).setOther hv0 x (by intro _ e; cases e)⟩

section
variable {w w' : World} {s : SCData2}

/-- the thread at a receiver-side operation on `q` shows that the receiver has not been dropped and that no
`dropRx q` is in progress (single consumer) -/
theorem rx_live (hwf : WF2 w.prog) (hR : R2c w s) (hact : w.tid < w.ctl.length) {op : Op} {q : Nat}
    (hop : opAt2 w = some op) (hrx : rxChan op = some q) (hq : q < w.prog.cfg.nChans) :
    s.rxDropped.getD q false = false ∧
    ((∀ q', op ≠ .dropRx q') → ∃ queue : List Int,
      objView2 w.exec.objs (chanIdx w.prog q) = some (.chan queue.length queue) ∧
      s.chan.getD q [] = queue ∧ s.chanLeft.getD q 0 = 0) := by
  obtain ⟨queue, hv, hdrop, hlive⟩ := hR.o.ch.q q hq
  have hop' : (w.prog.threads.getD (w.ctl.getD w.tid {}).body [])[(w.ctl.getD w.tid {}).pc]? = some op := hop
  have hnd : s.rxDropped.getD q false = false := by
    cases hd : s.rxDropped.getD q false with
    | false => rfl
    | true =>
      exfalso
      obtain ⟨_, _, i, k, hi, hk, hopd⟩ := hdrop hd
      obtain ⟨e1, e2⟩ := hwf.rx_before_drop hopd hop' hrx
      have := hR.x.inj i w.tid hi hact e1
      subst this
      omega
  refine ⟨hnd, fun hne => ?_⟩
  obtain ⟨hcl, pre, hch, hpre⟩ := hlive hnd
  have : pre = [] := by
    apply Classical.byContradiction
    intro hp
    obtain ⟨i, hi, hpd⟩ := hpre hp
    unfold pendD at hpd
    split at hpd
    · next q' heq =>
      cases hpd
      have heq' : (w.prog.threads.getD (w.ctl.getD i {}).body [])[(w.ctl.getD i {}).pc]? = some (.dropRx q) := heq
      have e1 := hwf.rx_same_body heq' hop' rfl hrx
      have := hR.x.inj i w.tid hi hact e1
      subst this
      rw [hop'] at heq'
      cases heq'
      exact hne q rfl
    · cases hpd
  subst this
  exact ⟨queue, hv, by simpa using hch, hcl⟩

theorem sim_send (hR : R2c w s) (hact : w.tid < w.ctl.length) {qi : Nat} {v : Int}
    (hop : opAt2 w = some (.send qi v)) (hq : qi < w.prog.cfg.nChans)
    (h : w.runOp (w.ctlOf w.tid) (.send qi v) = .ok w') : Sim2c w s w' := by
  obtain ⟨_, hrel, hof⟩ := base2 hR hact
  obtain ⟨_, hC, _⟩ := plain_pend (c := w.ctlOf w.tid) hop rfl
  obtain ⟨c1, c2⟩ := cv_none hR hact hC
  obtain ⟨queue, hv, hdrop, hlive⟩ := hR.o.ch.q qi hq
  obtain ⟨cs, hobj, hcnt, hqu⟩ := objView2_chan hv
  have hobj' : w.exec.objs[w.chanObj qi]? = some (.chan cs) := hobj
  have hen := enabled_plain2 hR hact hop hC (by simp) (by simp) (by simp) (by simp) (by simp)
  simp only [World.runOp] at h
  split at h
  · obtain ⟨hqt, hc, _⟩ := branch_quiet2 h
    exact sim_stage (k := 1) hR hact hop (by simp) hC (Nat.le_refl _) (by omega) (quiet2_setStage hqt) hc
  · obtain ⟨w1, hse, h⟩ := bind_ok h
    obtain ⟨hc1, ht1, hp1, hs1, he1, hnw, hl1, cs', hcnt', hqu', hobjs⟩ := sendEffect_obs hobj' hse
    simp only [pure, Except.pure] at h
    cases h
    have hx : view2 (.chan cs') = .chan (queue ++ [v]).length (queue ++ [v]) := by
      simp [view2, hcnt', hqu', hcnt, hqu]
    have hev : (w1.complete .unit).events.map triple =
        SCData.label (w.ctlOf w.tid).body (some ((s.th (w.ctlOf w.tid).body).pc, .unit)) ++ w.events.map triple := by
      rw [events_complete2, he1, ht1,
        show w1.ctlOf w.tid = w.ctlOf w.tid by simp only [World.ctlOf, hc1], hrel.2.1]
      rfl
    cases hd : s.rxDropped.getD qi false with
    | true =>
      obtain ⟨a1, a2, a3⟩ := hdrop hd
      have hR' := R2c_complete (s := s)
        (d := { s with chan := s.chan.set qi (s.chan.getD qi []), rxDropped := s.rxDropped.set qi true,
                       chanLeft := s.chanLeft.set qi (s.chanLeft.getD qi 0 + 1) }) (w0 := w1)
        hR hact hop rfl hc1 ht1 hp1 hs1 hl1 rfl
        (by
          rw [hobjs, hnw]
          refine hR.o.setChan hq _ (queue ++ [v]) hx _ true _ (fun _ => ⟨a1, by simp [a2], a3⟩)
            (by intro e; cases e)) .unit
      rw [set_getD_self, ← hd, set_getD_self] at hR'
      refine ⟨hp1, hR'.2, .inr ⟨_, _, .inl ⟨hen, ?_⟩, hR'.1, hev⟩⟩
      unfold SCData2.stepL
      simp only [c2, hof, hop]
      rw [hd]
      simp
    | false =>
      obtain ⟨a1, pre, a2, a3⟩ := hlive hd
      have hR' := R2c_complete (s := s)
        (d := { s with chan := s.chan.set qi (s.chan.getD qi [] ++ [v]), rxDropped := s.rxDropped.set qi false,
                       chanLeft := s.chanLeft.set qi (s.chanLeft.getD qi 0) }) (w0 := w1)
        hR hact hop rfl hc1 ht1 hp1 hs1 hl1 rfl
        (by
          rw [hobjs, hnw]
          refine hR.o.setChan hq _ (queue ++ [v]) hx _ false _ (by intro e; cases e)
            (fun _ => ⟨a1, pre, by rw [a2, List.append_assoc], a3⟩)) .unit
      rw [set_getD_self, ← hd, set_getD_self] at hR'
      refine ⟨hp1, hR'.2, .inr ⟨_, _, .inl ⟨hen, ?_⟩, hR'.1, hev⟩⟩
      unfold SCData2.stepL
      simp only [c2, hof, hop]
      rw [hd]
      simp

/-- the completing stage of `recv` / `tryRecv`: a message is taken -/
theorem sim_take (hwf : WF2 w.prog) (hR : R2c w s) (hact : w.tid < w.ctl.length) {op : Op} {qi : Nat}
    (hop : opAt2 w = some op) (hopr : op = .recv qi ∨ op = .tryRecv qi) (hq : qi < w.prog.cfg.nChans)
    {w1 : World} {v : Int} (hre : w.recvEffect (w.chanObj qi) = .ok (w1, v)) :
    Sim2c w s (w1.complete (.val v)) := by
  obtain ⟨_, hrel, hof⟩ := base2 hR hact
  have hpl : plainOp op = true := by rcases hopr with rfl | rfl <;> rfl
  obtain ⟨_, hC, _⟩ := plain_pend (c := w.ctlOf w.tid) hop hpl
  obtain ⟨c1, c2⟩ := cv_none hR hact hC
  have hrx : rxChan op = some qi := by rcases hopr with rfl | rfl <;> rfl
  obtain ⟨hnd, hl⟩ := rx_live hwf hR hact hop hrx hq
  obtain ⟨queue, hv, hch, hcl⟩ := hl (by intro q' e; rcases hopr with rfl | rfl <;> cases e)
  obtain ⟨cs, hobj, hcnt, hqu⟩ := objView2_chan hv
  have hobj' : w.exec.objs[w.chanObj qi]? = some (.chan cs) := hobj
  obtain ⟨hne, hc1, ht1, hp1, hs1, he1, hnw, hl1, cs', rest, hqueue, hcnt', hqu', hobjs⟩ :=
    recvEffect_obs hobj' hre
  have hqr : queue = v :: rest := by rw [← hqu]; exact hqueue
  have hx : view2 (.chan cs') = .chan rest.length rest := by
    have : cs.msgCnt = rest.length + 1 := by rw [hcnt, hqr]; rfl
    simp [view2, hcnt', hqu', this]
  have hev : (w1.complete (.val v)).events.map triple =
      SCData.label (w.ctlOf w.tid).body (some ((s.th (w.ctlOf w.tid).body).pc, .val v)) ++ w.events.map triple := by
    rw [events_complete2, he1, ht1,
      show w1.ctlOf w.tid = w.ctlOf w.tid by simp only [World.ctlOf, hc1], hrel.2.1]
    rfl
  obtain ⟨e1, e2⟩ := started_running2 hR hact (by rw [fin_zero2 hR hact hop]; omega)
  have hR' := R2c_complete (s := s)
    (d := { s with chan := s.chan.set qi rest, rxDropped := s.rxDropped.set qi false,
                   chanLeft := s.chanLeft.set qi (s.chanLeft.getD qi 0) }) (w0 := w1)
    hR hact hop hpl hc1 ht1 hp1 hs1 hl1 rfl
    (by
      rw [hobjs, hnw]
      exact hR.o.setChan hq _ rest hx _ false _ (by intro e; cases e)
        (fun _ => ⟨hcl, [], rfl, fun hh => absurd rfl hh⟩)) (.val v)
  rw [← hnd, set_getD_self, set_getD_self] at hR'
  have hchq : s.chan.getD qi [] = v :: rest := by rw [hch, hqr]
  refine ⟨hp1, hR'.2, .inr ⟨_, _, .inl ⟨?_, ?_⟩, hR'.1, hev⟩⟩
  · unfold SCData2.enabled
    rw [hof, hop, e1, e2, c1, c2]
    rcases hopr with rfl | rfl
    · show (true && !false && !(s.chan.getD qi []).isEmpty) = true
      rw [hchq]; rfl
    · rfl
  · unfold SCData2.stepL
    simp only [c2, hof, hop]
    rcases hopr with rfl | rfl
    · simp only [hchq]
      simp
    · simp only [hchq]
      simp

theorem sim_recv (hwf : WF2 w.prog) (hR : R2c w s) (hact : w.tid < w.ctl.length) {qi : Nat}
    (hop : opAt2 w = some (.recv qi)) (hq : qi < w.prog.cfg.nChans)
    (h : w.runOp (w.ctlOf w.tid) (.recv qi) = .ok w') : Sim2c w s w' := by
  obtain ⟨_, hC, _⟩ := plain_pend (c := w.ctlOf w.tid) hop rfl
  simp only [World.runOp] at h
  split at h
  · obtain ⟨cs, _, h⟩ := bind_ok h
    obtain ⟨hqt, hc, _⟩ := branch_quiet2 h
    exact sim_stage (k := 1) hR hact hop (by simp) hC (Nat.le_refl _) (by omega) (quiet2_setStage hqt) hc
  · obtain ⟨⟨w1, v⟩, hre, h⟩ := bind_ok h
    simp only [pure, Except.pure] at h
    cases h
    exact sim_take hwf hR hact hop (.inl rfl) hq hre

theorem sim_tryRecv (hwf : WF2 w.prog) (hR : R2c w s) (hact : w.tid < w.ctl.length) {qi : Nat}
    (hop : opAt2 w = some (.tryRecv qi)) (hq : qi < w.prog.cfg.nChans)
    (h : w.runOp (w.ctlOf w.tid) (.tryRecv qi) = .ok w') : Sim2c w s w' := by
  obtain ⟨_, hrel, hof⟩ := base2 hR hact
  obtain ⟨_, hC, _⟩ := plain_pend (c := w.ctlOf w.tid) hop rfl
  obtain ⟨c1, c2⟩ := cv_none hR hact hC
  simp only [World.runOp] at h
  split at h
  · obtain ⟨cs, hg, h⟩ := bind_ok h
    have hobj := getChan_ok2 hg
    split at h
    · next hz =>
      -- the channel is empty
      simp only [pure, Except.pure] at h
      cases h
      obtain ⟨hnd, hl⟩ := rx_live hwf hR hact hop rfl hq
      obtain ⟨queue, hv, hch, hcl⟩ := hl (by intro q' e; cases e)
      obtain ⟨cs', hobj', hcnt, hqu⟩ := objView2_chan hv
      rw [show w.exec.objs[chanIdx w.prog qi]? = w.exec.objs[w.chanObj qi]? from rfl, hobj] at hobj'
      cases hobj'
      have hz' : cs.msgCnt = 0 := by simpa using hz
      have hqe : queue = [] := by
        rw [hz'] at hcnt
        exact List.eq_nil_of_length_eq_zero hcnt.symm
      have hR' := R2c_complete (s := s) (d := s) (w0 := w) hR hact hop rfl rfl rfl rfl rfl rfl rfl hR.o .empty
      refine ⟨rfl, hR'.2, .inr ⟨some ((s.th (w.ctlOf w.tid).body).pc, .empty), s.ret (w.ctlOf w.tid).body .empty,
        .inl ⟨enabled_plain2 hR hact hop hC (by simp) (by simp) (by simp) (by simp) (by simp), ?_⟩, hR'.1, ?_⟩⟩
      · unfold SCData2.stepL
        simp only [c2, hof, hop]
        rw [hch, hqe]
        simp
      · rw [events_complete2, hrel.2.1]
        rfl
    · obtain ⟨hqt, hc, _⟩ := branch_quiet2 h
      exact sim_stage (k := 1) hR hact hop (by simp) hC (Nat.le_refl _) (by omega) (quiet2_setStage hqt) hc
  · obtain ⟨⟨w1, v⟩, hre, h⟩ := bind_ok h
    simp only [pure, Except.pure] at h
    cases h
    exact sim_take hwf hR hact hop (.inr rfl) hq hre

end

end Refine2
end LoomVerif

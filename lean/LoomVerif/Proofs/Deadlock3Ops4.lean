/-
Deadlock soundness, FUTURES fragment, part 11: the flag store, `ifEq`, `join`, `spawn` and the epilogue of a
thread; the case analysis over the operation and the stage of the active thread (`stage_out`).
-/
import LoomVerif.Proofs.Deadlock3Ops3

set_option linter.unusedSimpArgs false
set_option linter.unusedVariables false

namespace LoomVerif
namespace Deadlock3
open Refine Refine4 Deadlock Deadlock2

section
variable {w w1 w2 : World} {s : SC.St} {G : TCtl → TCtl} {Fu : List FutSt}

/-- the control record of the active thread, named by the thread of the start of the stage -/
theorem Mid.modCtlW {H : Option Nat} {K : List Nat} (m : Mid w w1 G H K Fu) (g : TCtl → TCtl) :
    Mid w (w1.modCtl w.tid g) (fun c => g (G c)) H K Fu := by
  have := m.modCtl g
  rw [m.tid] at this
  exact this

/-! ### the flag store -/

theorem st_store0 (c : Ctx w s) {x : Nat} (hop : opAt w = some (.atom x (.store 1 .rel)))
    (hst : (w.ctlOf w.tid).stage = 0) : Out w s w.stepActive := by
  rw [Refine4.stepActive_op hop]
  have e : w.runOp (w.ctlOf w.tid) (.atom x (.store 1 .rel)) = w.primStart x (.store 1 .rel) := by
    simp only [World.runOp, hst]
    rfl
  rw [e]
  exact out_storeStart c hop hst rfl x

theorem st_store1 (c : Ctx w s) {x : Nat} (hop : opAt w = some (.atom x (.store 1 .rel)))
    (hst : (w.ctlOf w.tid).stage = 1) : Out w s w.stepActive := by
  rw [Refine4.stepActive_op hop]
  have hrel := rel4 c.r c.act
  have hopc : opOfCtl w.prog (w.ctlOf w.tid) = some (.atom x (.store 1 .rel)) := hop
  have hprim : (w.ctlOf w.tid).prim = some (.store 1 .rel) := hrel.2.2.2.2.2.2.2.1 x hopc hst
  have e : w.runOp (w.ctlOf w.tid) (.atom x (.store 1 .rel)) =
      (w.primEffect x (.store 1 .rel) >>= fun y => (pure (y.1.complete y.2) : Except Panic World)) := by
    simp only [World.runOp, hst, hprim]
    rfl
  rw [e]
  have m0 := Mid.start' c (H := none) (by rw [holdsAt_of hop, hst]; rfl)
  refine out_bind (primEffect_noDL _ _ _) ?_
  rintro ⟨w1, r⟩ h1
  have m1 := m0.prim h1
  refine out_pure c (m1.complete r) ?_
  exact Pos.simple rfl (Nat.le_succ _) rfl (fun _ h => by cases h) (fun _ => rfl)

/-! ### `ifEq` -/

theorem st_ifEq (c : Ctx w s) {i n : Nat} {r : Ret} (hop : opAt w = some (.ifEq i r n))
    (hst : (w.ctlOf w.tid).stage = 0) : Out w s w.stepActive := by
  rw [Refine4.stepActive_op hop, Refine.runOp_ifEq]
  have m0 := Mid.start' c (H := none) (by rw [holdsAt_of hop, hst]; rfl)
  split
  · refine out_pure c (m0.modCtl fun c => { c with pc := c.pc + 1 }) ?_
    exact Pos.simple rfl (Nat.le_succ _) rfl (fun _ h => by cases h) (fun _ => rfl)
  · refine out_pure c (m0.modCtl fun c => { c with pc := c.pc + 1 + n }) ?_
    exact Pos.simple rfl (by show (w.ctlOf w.tid).pc ≤ (w.ctlOf w.tid).pc + 1 + n; omega) rfl (fun _ h => by cases h) (fun _ => rfl)

/-! ### `join b` -/

theorem st_join0 (c : Ctx w s) {b : Nat} (hop : opAt w = some (.join b)) (hst : (w.ctlOf w.tid).stage = 0) :
    Out w s w.stepActive := by
  rw [Refine4.stepActive_op hop, Sy.runOp_join]
  have m0 := Mid.start' c (H := none) (by rw [holdsAt_of hop, hst]; rfl)
  refine out_bind (lookupSpawn_noDL _ _) ?_
  rintro ⟨t', n⟩ hl
  have hmem := Refine4.lookupSpawn_mem hl
  dsimp only
  simp only [hst]
  refine out_wait1 c m0 (fun st => st)
    (fun _ _ => Pos.simple rfl (Nat.le_refl _) rfl (fun _ h => by cases h) (fun _ => rfl))
    (fun bl => opAt4_join (op := .join b) hop rfl hmem)
    (wpos_stage (op := .join b) hop rfl)
    (fun w2 m2 _ hun hstuck => dead_join c m2 hop hst hmem hun hstuck) _ (fun _ _ => rfl)

theorem st_join1 (c : Ctx w s) {b : Nat} (hop : opAt w = some (.join b)) (hst : (w.ctlOf w.tid).stage = 1) :
    Out w s w.stepActive := by
  rw [Refine4.stepActive_op hop, Sy.runOp_join]
  have m0 := Mid.start' c (H := none) (by rw [holdsAt_of hop, hst]; rfl)
  refine out_bind (lookupSpawn_noDL _ _) ?_
  rintro ⟨t', n⟩ hl
  have hmem := Refine4.lookupSpawn_mem hl
  dsimp only
  simp only [hst]
  refine out_bind (notifyWait2_noDL _ _) fun w1 h1 => ?_
  have m1 := m0.consume h1
  -- the handle belongs to the thread that runs body `b`
  have hsame : ∀ b' i, (b', i, n) ∈ w.spawned → b' = b := by
    intro b' i hmem'
    have ht := c.r.sp.spn _ _ hmem' hmem rfl
    simp only at ht
    subst ht
    obtain ⟨_, hb1, _⟩ := c.r.sp.sp b' _ _ hmem'
    obtain ⟨_, hb2, _⟩ := c.r.sp.sp b _ _ hmem
    exact hb1.symm.trans hb2
  refine out_pure c (m1.complete .unit) ⟨rfl, Nat.le_succ _, fun _ h => (by cases h), fun _ _ _ _ _ => rfl,
    fun _ _ _ h => .inl h, ?_, ?_⟩
  · intro n' hn b' i hmem'
    simp only [List.mem_singleton] at hn
    subst hn
    have := hsame b' i hmem'
    subst this
    exact ⟨(w.ctlOf w.tid).pc, Nat.lt_succ_self _, hop⟩
  · -- no other thread waits on this join handle
    intro n' hn i hi hne hw op hopi e
    simp only [List.mem_singleton] at hn
    subst hn
    have hO := (c.j.thr i hi).opn hne
    rw [hopi] at hO
    unfold OpAt4 at hO
    cases hx : wpos w.prog (w.ctlOf i) with
    | none => rw [hx] at hw; cases hw
    | some x =>
      rw [hx] at hO hw
      cases x with
      | join b' =>
        obtain ⟨t, n2, bl, hmem', e'⟩ := hO
        cases e'
        have e2 : n2 = n' := e
        subst e2
        have hbb := hsame b' t hmem'
        subst hbb
        obtain ⟨hopi', _⟩ := wpos_join hx
        obtain ⟨e1, _⟩ := c.wf.join_unique hopi'
          (show (w.prog.threads.getD (w.ctlOf w.tid).body [])[(w.ctlOf w.tid).pc]? = _ from hop)
        exact hne (c.r.x.inj i w.tid hi c.act e1)
      | call f' =>
        obtain ⟨bl, e'⟩ := hO
        cases e'
        obtain ⟨md, hopc, hst'⟩ := wpos_call hx
        obtain ⟨_, nt, ds, hv, _⟩ := c.r.no_lost_wakeup c.wf.1 i hi hopc hst'
        obtain ⟨_, _, nt', ds', hv', _⟩ := c.r.sp.sp b _ _ hmem
        have e2 : (w.futs.getD f' {}).notify = n' := e
        rw [e2] at hv
        rw [hv] at hv'
        cases hv'
      | slotM f' => cases hw
      | awM f' => cases hw

/-! ### the end of a thread -/

/-- **`thread_done`** -/
theorem out_done (c : Ctx w s) (m : Mid w w1 G none [] Fu) (P : Pos w G none [] Fu (ovW w1))
    (hop : opAt w = none) (h10 : 10 ≤ (w.ctlOf w.tid).fin) (h99 : (G (w.ctlOf w.tid)).fin = 99)
    (hw : wpos w.prog (G (w.ctlOf w.tid)) = none) : Out w s w1.threadDone := by
  rw [done_point]
  have hst : (doneF (w1.ths.get w.tid)).state = .terminated := rfl
  refine out_sched c m P ?_ ?_ ?_ ?_ ?_
  · show OpAt4 _ _ _ _ none
    unfold OpAt4; rw [hw]
    intro op e; cases e
  · intro hb; rw [hst] at hb; cases hb
  · intro _; exact h99
  · intro h; rw [hw] at h; cases h
  · intro hs
    obtain ⟨hstuck, _, hnot⟩ := stuck_of_dl c m hs
    exact dead_done c m hop h10 hstuck (hnot hst)

theorem st_epilogue (c : Ctx w s) (hnone : opAt w = none) : Out w s w.stepActive := by
  rw [Refine4.stepActive_none hnone]
  have hrel := rel4 c.r c.act
  have hloc : (w.ctlOf w.tid).locals = [] := hrel.2.2.2.2.1
  have hdq : (w.ctlOf w.tid).dtorQueue = [] := hrel.2.2.2.2.2.1
  have hdl : w.dropLocals = w := dropLocals_frag w hloc hdq
  have hopc : opOfCtl w.prog (w.ctlOf w.tid) = none := hnone
  have m0 := Mid.start' c (H := none) (holdsAt_none hopc)
  have hwp : ∀ g : TCtl → TCtl, (∀ x, (g x).body = x.body ∧ (g x).pc = x.pc) →
      wpos w.prog (g (id (w.ctlOf w.tid))) = none := by
    intro g hg
    refine wpos_none ?_
    show (w.prog.threads.getD (g (w.ctlOf w.tid)).body [])[(g (w.ctlOf w.tid)).pc]? = none
    rw [(hg _).1, (hg _).2]; exact hnone
  by_cases h10 : 10 ≤ (w.ctlOf w.tid).fin
  · -- the common tail
    rw [Sy.runEpilogue_finish w _ h10]
    unfold World.finishThread
    split
    · exact out_throw _ rfl
    · rw [Sy.dropPass_eq, hdl]
      split
      · refine out_ok c (m0.modCtl fun c => { c with fin := 10 + 1 })
          ⟨rfl, Nat.le_refl _, fun _ h => (by cases h), fun _ _ _ _ _ => rfl, fun _ _ _ _ => .inl h10,
            fun n hn => (by cases hn), fun n hn => (by cases hn)⟩
      · split
        · rw [hdq]
          simp only
          refine out_done c (m0.modCtl fun c => { c with fin := 99 })
            ⟨rfl, Nat.le_refl _, fun _ h => (by cases h), fun _ _ _ _ _ => rfl, fun _ _ _ _ => .inl h10,
              fun n hn => (by cases hn), fun n hn => (by cases hn)⟩ hnone h10 rfl (hwp _ (fun _ => ⟨rfl, rfl⟩))
        · rw [hdq]
          exact out_error _ rfl
  · have hlt : (w.ctlOf w.tid).fin < 10 := by omega
    by_cases ht0 : w.tid = 0
    · -- the main thread
      rw [Sy.runEpilogue_main w _ ht0 hlt]
      refine out_ok c (m0.lazy.modCtl fun c => { c with fin := 10 })
        ⟨rfl, Nat.le_refl _, fun _ h => (by cases h), fun _ _ _ _ _ => rfl, ?_, fun n hn => (by cases hn), fun n hn => (by cases hn)⟩
      intro b n hmem _
      have := c.j.sp0 b _ n hmem
      omega
    · -- a spawned thread
      cases hf : w.spawned.find? (·.2.1 == w.tid) with
      | none =>
        have : w.runEpilogue (w.ctlOf w.tid) = .error (.internal 83) := by
          unfold World.runEpilogue
          simp [h10, ht0, hf, throw, throwThe, MonadExceptOf.throw]
        rw [this]
        exact out_error _ rfl
      | some e =>
        obtain ⟨b, t, n⟩ := e
        have ht : t = w.tid := by
          have := List.find?_some hf
          simpa using this
        subst ht
        have hmem := List.mem_of_find?_eq_some hf
        rw [Sy.runEpilogue_spawned w _ b n ht0 hf hlt]
        split
        · rw [hdl]
          refine out_ok c (m0.modCtl fun c => { c with fin := 4 })
            ⟨rfl, Nat.le_refl _, fun _ h => (by cases h), fun _ _ _ _ _ => rfl,
              fun _ _ _ h => (by simp at h), fun n hn => (by cases hn), fun n hn => (by cases hn)⟩
        · split
          · rw [Sy.dropPass_eq, hdl]
            split
            · refine out_ok c (m0.modCtl fun c => { c with fin := 3 + 1 })
                ⟨rfl, Nat.le_refl _, fun _ h => (by cases h), fun _ _ _ _ _ => rfl,
                  fun _ _ _ h => (by simp at h), fun n hn => (by cases hn), fun n hn => (by cases hn)⟩
            · split
              · rw [hdq]
                simp only
                refine out_branch c (m0.modCtl fun c => { c with fin := 1 })
                  ⟨rfl, Nat.le_refl _, fun _ h => (by cases h), fun _ _ _ _ _ => rfl,
                    fun _ _ _ h => (by simp at h), fun n hn => (by cases hn), fun n hn => (by cases hn)⟩ _ _
                  (hwp _ (fun _ => ⟨rfl, rfl⟩))
              · rw [hdq]
                exact out_error _ rfl
          · -- the notification: the thread becomes joinable
            refine out_bind (notifyEffect_noDL _ _) fun w1 h1 => ?_
            have m1 := m0.notify h1
            obtain ⟨sp, ds, hnt⟩ := notifyEffect_notified h1
            refine out_pure c (m1.modCtlW fun c => { c with fin := 10 })
              ⟨rfl, Nat.le_refl _, fun _ h => (by cases h), fun _ _ _ _ _ => rfl, ?_, fun n hn => (by cases hn), fun n hn => (by cases hn)⟩
            intro b' n' hmem' _
            -- the entry of this thread in `spawned` is unique
            obtain ⟨_, hb1, _⟩ := c.r.sp.sp b' _ _ hmem'
            obtain ⟨_, hb2, _⟩ := c.r.sp.sp b _ _ hmem
            have hbb : b' = b := hb1.symm.trans hb2
            have := c.j.spb _ _ hmem' hmem hbb
            simp only [Prod.mk.injEq] at this
            obtain ⟨_, _, rfl⟩ := this
            exact .inr ⟨sp, ds, hnt⟩

end

end Deadlock3
end LoomVerif

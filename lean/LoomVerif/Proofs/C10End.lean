/-
C10: when `runLoop` ends without a panic, every thread has terminated.  `Execution::schedule` is
the only place where the active thread becomes `None`, and it does so only when all threads are
`Terminated` (`schedule_none`); every other piece of a stage keeps the `active` field, and nothing
touches the thread table after the `schedule` call of a stage.  Proved by walking every function
reachable from `World.stepActive` with a small postcondition calculus.
-/
import LoomVerif.Proofs.C10NoLeak
import LoomVerif.Proofs.InterpMaxTh
namespace LoomVerif
namespace C10
open World

/-- some thread is active -/
def ActT (ths : Threads) : Prop := ths.active.isSome = true
/-- every thread has terminated -/
def AllTerm (ths : Threads) : Prop := ths.threads.all Thread.isTerminated = true
/-- no active thread only if every thread has terminated -/
def GoodT (ths : Threads) : Prop := ths.active = none → AllTerm ths

theorem GoodT.of_act {ths : Threads} (h : ActT ths) : GoodT ths := by
  intro hn; unfold ActT at h; rw [hn] at h; cases h

/-- postcondition of a computation that may panic -/
structure Post {α : Type} (m : Except Panic α) (Q : α → Prop) : Prop where
  h : ∀ a, m = .ok a → Q a

theorem Post.ok {α : Type} {Q : α → Prop} (a : α) (h : Q a) : Post (Except.ok a) Q := by
  constructor; intro b hb; cases hb; exact h
theorem Post.pure {α : Type} {Q : α → Prop} (a : α) (h : Q a) :
    Post (Pure.pure a : Except Panic α) Q := Post.ok a h
theorem Post.error {α : Type} {Q : α → Prop} (e : Panic) : Post (Except.error e : Except Panic α) Q := by
  constructor; intro b hb; cases hb
theorem Post.throw {α : Type} {Q : α → Prop} (e : Panic) : Post (throw e : Except Panic α) Q :=
  Post.error e
theorem Post.trivial {α : Type} (m : Except Panic α) : Post m (fun _ => True) := ⟨fun _ _ => True.intro⟩
theorem Post.bind {α β : Type} {m : Except Panic α} {f : α → Except Panic β} {Q : α → Prop}
    {R : β → Prop} (hm : Post m Q) (hf : ∀ a, Q a → Post (f a) R) : Post (m >>= f) R := by
  constructor
  intro b hb
  obtain ⟨a, ha, hfa⟩ := WB.bind_eq_ok hb
  exact (hf a (hm.h a ha)).h b hfa

/-! leaves -/
theorem active_unpark (ths : Threads) (t : Nat) : (ths.unpark t).active = ths.active := by
  unfold Threads.unpark; split <;> rfl

theorem active_foldl_unpark (l : List Nat) (ths : Threads) :
    (l.foldl (fun ths t => ths.unpark t) ths).active = ths.active := by
  induction l generalizing ths with
  | nil => rfl
  | cons t l ih => simp only [List.foldl_cons, ih, active_unpark]

theorem active_wake (ths : Threads) (t : Nat) : (ths.wake t).active = ths.active := by
  unfold Threads.wake; split <;> rfl

theorem active_foldl_wake (l : List Nat) (ths : Threads) :
    (l.foldl (fun ths t => ths.wake t) ths).active = ths.active := by
  induction l generalizing ths with
  | nil => rfl
  | cons t l ih => simp only [List.foldl_cons, ih, active_wake]

theorem active_atomic_fenceAcq (a : Atomic) (ths : Threads) :
    (a.fenceAcq ths).active = ths.active := by
  unfold Atomic.fenceAcq
  generalize Atomic.storesMutOrder a.cnt = l
  induction l generalizing ths with
  | nil => rfl
  | cons i l ih =>
    simp only [List.foldl_cons, ih]
    split <;> rfl

theorem active_world_fenceAcq (w : World) :
    w.fenceAcq.exec.threads.active = w.exec.threads.active := by
  unfold World.fenceAcq
  show (w.exec.objs.foldl _ w.ths).active = w.ths.active
  generalize w.ths = ths
  generalize w.exec.objs = os
  induction os generalizing ths with
  | nil => rfl
  | cons o os ih =>
    simp only [List.foldl_cons, ih]
    split
    · exact active_atomic_fenceAcq _ _
    · rfl

theorem active_world_fenceSC (w : World) :
    w.fenceSC.exec.threads.active = w.exec.threads.active := by
  show (World.fenceAcq _).exec.threads.active = _
  rw [active_world_fenceAcq]; rfl

theorem tlsGet_act {w w' : World} {k : Nat} {r : Option Nat} (h : ActT w.exec.threads)
    (e : w.tlsGet k = (w', r)) : ActT w'.exec.threads := by
  have := World.tlsGet_exec w k
  rw [e] at this
  show ActT w'.exec.threads
  rw [show w'.exec = w.exec from this]; exact h

theorem dropLocals_act {w : World} (h : ActT w.exec.threads) : ActT w.dropLocals.exec.threads := by
  rw [World.dropLocals_exec]; exact h

/-- leaves: the `active` field is reached through definitional unfolding, or through one of the
rewrite rules above -/
macro "post_leaf" : tactic => `(tactic| first
  | exact True.intro
  | rfl
  | assumption
  | (apply GoodT.of_act; assumption)
  | (apply GoodT.of_act; show (Threads.unpark _ _).active.isSome = true
     rw [active_unpark]; assumption)
  | (apply GoodT.of_act; show (Threads.active (List.foldl _ _ _)).isSome = true
     rw [active_foldl_unpark]; assumption)
  | (apply GoodT.of_act; show (Threads.wake _ _).active.isSome = true
     rw [active_wake]; assumption)
  | (apply GoodT.of_act; show (Threads.active (List.foldl _ _ _)).isSome = true
     rw [active_foldl_wake]; assumption)
  | (apply GoodT.of_act; show (World.fenceAcq _).exec.threads.active.isSome = true
     rw [active_world_fenceAcq]; assumption)
  | (apply GoodT.of_act; show (World.fenceSC _).exec.threads.active.isSome = true
     rw [active_world_fenceSC]; assumption)
  | (apply GoodT.of_act; exact tlsGet_act (by assumption) (by assumption))
  | (apply GoodT.of_act; exact tlsGet_act (tlsGet_act (by assumption) (by assumption)) (by assumption))
  | (apply GoodT.of_act; exact dropLocals_act (by assumption))
  | (show (World.fenceSC _).exec.threads.active.isSome = true
     rw [active_world_fenceSC]; assumption))

/-- extensible: the specification of a callee, `Post (f x) ?Q` -/
syntax "post_spec" : tactic
macro_rules | `(tactic| post_spec) => `(tactic| fail "no lemma")

macro "post_step" : tactic => `(tactic| first
  | exact Post.error _
  | exact Post.throw _
  | (refine Post.ok _ ?_; post_leaf)
  | (refine Post.pure _ ?_; post_leaf)
  | simp only [bind_assoc, pure_bind]
  | post_spec
  | (refine Post.bind (Q := ?Q) ?hm ?hf
     case hm => post_spec)
  | intro _
  | split
  | (refine Post.bind (Q := ?Q) ?hm ?hf
     case hm => exact Post.trivial _))

macro "post" : tactic => `(tactic| ((try dsimp only); repeat' post_step))

/-! `Exec.schedule` -/

theorem schedule_post (e : Exec) (b : Bool) :
    Post (e.schedule b) (fun r => GoodT r.1.threads) :=
  ⟨fun r hr hn => schedule_none e r.1 b r.2 hr hn⟩
macro_rules | `(tactic| post_spec) => `(tactic| with_reducible exact schedule_post ..)

theorem branch_post (w : World) (obj : Nat) (act : Action) (block wait : Bool) :
    Post (w.branch obj act block wait) (fun w' => GoodT w'.exec.threads) := by
  unfold World.branch; post
macro_rules | `(tactic| post_spec) => `(tactic| with_reducible exact branch_post ..)

theorem yieldNow_post (w : World) : Post w.yieldNow (fun w' => GoodT w'.exec.threads) := by
  unfold World.yieldNow; post
macro_rules | `(tactic| post_spec) => `(tactic| with_reducible exact yieldNow_post ..)

theorem blockNow_post (w : World) : Post w.blockNow (fun w' => GoodT w'.exec.threads) := by
  unfold World.blockNow; post
macro_rules | `(tactic| post_spec) => `(tactic| with_reducible exact blockNow_post ..)

theorem threadDone_post (w : World) : Post w.threadDone (fun w' => GoodT w'.exec.threads) := by
  unfold World.threadDone; post
macro_rules | `(tactic| post_spec) => `(tactic| with_reducible exact threadDone_post ..)

theorem primStart_post {w : World} (h : ActT w.exec.threads) (x : Nat) (p : Prim) (next : Nat) :
    Post (w.primStart x p next) (fun w' => GoodT w'.exec.threads) := by
  unfold World.primStart; post
macro_rules | `(tactic| post_spec) => `(tactic| ((with_reducible refine primStart_post ?_ ..); post_leaf))

theorem parkNow_post {w : World} (h : ActT w.exec.threads) :
    Post w.parkNow (fun w' => GoodT w'.exec.threads) := by
  unfold World.parkNow; post
macro_rules | `(tactic| post_spec) => `(tactic| ((with_reducible refine parkNow_post ?_); post_leaf))

/-! level 1: the active thread stays -/

theorem Atomic.load_post {ths : Threads} (h : ActT ths) (a : Atomic) (idx : Nat) (o : Ord) :
    Post (a.load ths idx o) (fun r => ActT r.2.1) := by
  unfold Atomic.load; post
macro_rules | `(tactic| post_spec) => `(tactic| ((with_reducible refine Atomic.load_post ?_ ..); post_leaf))

theorem Atomic.rmw_post {ths : Threads} (h : ActT ths) (a : Atomic) (idx : Nat) (so fo : Ord)
    (f : Nat → Option Nat) : Post (a.rmw ths idx so fo f) (fun r => ActT r.2.1) := by
  unfold Atomic.rmw; post
macro_rules | `(tactic| post_spec) => `(tactic| ((with_reducible refine Atomic.rmw_post ?_ ..); post_leaf))

theorem Prim.effect_post {ths : Threads} (h : ActT ths) (t : ATy) (a : Atomic) (p : Prim)
    (idx : Nat) : Post (p.effect t a ths idx) (fun r => ActT r.2.1) := by
  unfold Prim.effect; post
macro_rules | `(tactic| post_spec) => `(tactic| ((with_reducible refine Prim.effect_post ?_ ..); post_leaf))

theorem primEffect_post {w : World} (h : ActT w.exec.threads) (x : Nat) (p : Prim) :
    Post (w.primEffect x p) (fun r => ActT r.1.exec.threads) := by
  unfold World.primEffect; post
macro_rules | `(tactic| post_spec) => `(tactic| ((with_reducible refine primEffect_post ?_ ..); post_leaf))

theorem postAcquire_post {w : World} (h : ActT w.exec.threads) (o : Nat) :
    Post (w.postAcquire o) (fun r => ActT r.1.exec.threads) := by
  unfold World.postAcquire; post
macro_rules | `(tactic| post_spec) => `(tactic| ((with_reducible refine postAcquire_post ?_ ..); post_leaf))

theorem releaseLock_post {w : World} (h : ActT w.exec.threads) (o : Nat) :
    Post (w.releaseLock o) (fun w' => ActT w'.exec.threads) := by
  unfold World.releaseLock; post
macro_rules | `(tactic| post_spec) => `(tactic| ((with_reducible refine releaseLock_post ?_ ..); post_leaf))

theorem postAcquireRead_post {w : World} (h : ActT w.exec.threads) (o : Nat) :
    Post (w.postAcquireRead o) (fun r => ActT r.1.exec.threads) := by
  unfold World.postAcquireRead; post
macro_rules | `(tactic| post_spec) => `(tactic| ((with_reducible refine postAcquireRead_post ?_ ..); post_leaf))

theorem postAcquireWrite_post {w : World} (h : ActT w.exec.threads) (o : Nat) :
    Post (w.postAcquireWrite o) (fun r => ActT r.1.exec.threads) := by
  unfold World.postAcquireWrite; post
macro_rules | `(tactic| post_spec) => `(tactic| ((with_reducible refine postAcquireWrite_post ?_ ..); post_leaf))

theorem releaseRead_post {w : World} (h : ActT w.exec.threads) (o : Nat) :
    Post (w.releaseRead o) (fun w' => ActT w'.exec.threads) := by
  unfold World.releaseRead; post
macro_rules | `(tactic| post_spec) => `(tactic| ((with_reducible refine releaseRead_post ?_ ..); post_leaf))

theorem releaseWrite_post {w : World} (h : ActT w.exec.threads) (o : Nat) :
    Post (w.releaseWrite o) (fun w' => ActT w'.exec.threads) := by
  unfold World.releaseWrite; post
macro_rules | `(tactic| post_spec) => `(tactic| ((with_reducible refine releaseWrite_post ?_ ..); post_leaf))

theorem notifyWait1_post {w : World} (_h : ActT w.exec.threads) (o : Nat) :
    Post (w.notifyWait1 o) (fun r => GoodT r.1.exec.threads) := by
  unfold World.notifyWait1; post
macro_rules | `(tactic| post_spec) => `(tactic| ((with_reducible refine notifyWait1_post ?_ ..); post_leaf))

theorem notifyWait2_post {w : World} (h : ActT w.exec.threads) (o : Nat) :
    Post (w.notifyWait2 o) (fun w' => ActT w'.exec.threads) := by
  unfold World.notifyWait2; post
macro_rules | `(tactic| post_spec) => `(tactic| ((with_reducible refine notifyWait2_post ?_ ..); post_leaf))

theorem notifyEffect_post {w : World} (h : ActT w.exec.threads) (o : Nat) :
    Post (w.notifyEffect o) (fun w' => ActT w'.exec.threads) := by
  unfold World.notifyEffect; post
macro_rules | `(tactic| post_spec) => `(tactic| ((with_reducible refine notifyEffect_post ?_ ..); post_leaf))

theorem sendEffect_post {w : World} (h : ActT w.exec.threads) (o : Nat) (v : Int) :
    Post (w.sendEffect o v) (fun w' => ActT w'.exec.threads) := by
  unfold World.sendEffect; post
macro_rules | `(tactic| post_spec) => `(tactic| ((with_reducible refine sendEffect_post ?_ ..); post_leaf))

theorem recvEffect_post {w : World} (h : ActT w.exec.threads) (o : Nat) :
    Post (w.recvEffect o) (fun r => ActT r.1.exec.threads) := by
  unfold World.recvEffect; post
macro_rules | `(tactic| post_spec) => `(tactic| ((with_reducible refine recvEffect_post ?_ ..); post_leaf))

theorem refDecEffect_post {w : World} (h : ActT w.exec.threads) (o : Nat) :
    Post (w.refDecEffect o) (fun r => ActT r.1.exec.threads) := by
  unfold World.refDecEffect; post
macro_rules | `(tactic| post_spec) => `(tactic| ((with_reducible refine refDecEffect_post ?_ ..); post_leaf))

theorem afterDec_post {w : World} (h : ActT w.exec.threads) (a : Nat) (last : Bool) :
    Post (w.afterDec a last) (fun w' => ActT w'.exec.threads) := by
  unfold World.afterDec; post
macro_rules | `(tactic| post_spec) => `(tactic| ((with_reducible refine afterDec_post ?_ ..); post_leaf))

theorem Threads.newThread_post {s : Threads} (h : ActT s) :
    Post s.newThread (fun r => ActT r.1) := by
  unfold Threads.newThread; post
macro_rules | `(tactic| post_spec) => `(tactic| ((with_reducible refine Threads.newThread_post ?_); post_leaf))

theorem Exec.newThread_post {e : Exec} (h : ActT e.threads) :
    Post e.newThread (fun r => ActT r.1.threads) := by
  unfold Exec.newThread; post
macro_rules | `(tactic| post_spec) => `(tactic| ((with_reducible refine Exec.newThread_post ?_); post_leaf))

theorem lazyRead_post {w : World} (h : ActT w.exec.threads) (sv : LazyVal) :
    Post (w.lazyRead sv) (fun r => ActT r.1.exec.threads) := by
  unfold World.lazyRead; post
macro_rules | `(tactic| post_spec) => `(tactic| ((with_reducible refine lazyRead_post ?_ ..); post_leaf))

theorem lazyInitFinish_post {w : World} (h : ActT w.exec.threads) (z id : Nat) :
    Post (w.lazyInitFinish z id) (fun r => ActT r.1.exec.threads) := by
  unfold World.lazyInitFinish; post
macro_rules | `(tactic| post_spec) => `(tactic| ((with_reducible refine lazyInitFinish_post ?_ ..); post_leaf))

theorem lazyStage_post {w : World} (h : ActT w.exec.threads) (c : TCtl) (z : Nat) :
    Post (w.lazyStage c z) (fun w' => GoodT w'.exec.threads) := by
  unfold World.lazyStage; post

theorem wakerClone_post {w : World} (h : ActT w.exec.threads) (a : Nat) :
    Post (w.wakerClone a) (fun w' => ActT w'.exec.threads) := by
  unfold World.wakerClone; post
macro_rules | `(tactic| post_spec) => `(tactic| ((with_reducible refine wakerClone_post ?_ ..); post_leaf))

theorem wakerDrop_post {w : World} (h : ActT w.exec.threads) (a : Nat) :
    Post (w.wakerDrop a) (fun w' => ActT w'.exec.threads) := by
  unfold World.wakerDrop; post
macro_rules | `(tactic| post_spec) => `(tactic| ((with_reducible refine wakerDrop_post ?_ ..); post_leaf))

theorem blockOnStage_post {w : World} (h : ActT w.exec.threads) (c : TCtl) (f mode : Nat) :
    Post (w.blockOnStage c f mode) (fun w' => GoodT w'.exec.threads) := by
  unfold World.blockOnStage; post

theorem wakeStage_post {w : World} (h : ActT w.exec.threads) (c : TCtl) (f : Nat) (b : Bool)
    (store : Bool := true) :
    Post (w.wakeStage c f b store) (fun w' => GoodT w'.exec.threads) := by
  unfold World.wakeStage; post

theorem awTakeStage_post {w : World} (h : ActT w.exec.threads) (c : TCtl) (f : Nat) :
    Post (w.awTakeStage c f) (fun w' => GoodT w'.exec.threads) := by
  unfold World.awTakeStage; post

theorem dropPass_post {w : World} (h : ActT w.exec.threads) (c : TCtl) (base : Nat)
    (done : World → Except Panic World)
    (hd : ∀ w1, ActT w1.exec.threads → Post (done w1) (fun w' => GoodT w'.exec.threads)) :
    Post (w.dropPass c base done) (fun w' => GoodT w'.exec.threads) := by
  unfold World.dropPass
  dsimp only
  split
  · exact Post.pure _ (GoodT.of_act (dropLocals_act h))
  · split
    · split
      · exact hd _ h
      · post
    · post

theorem finishThread_post {w : World} (h : ActT w.exec.threads) (c : TCtl) :
    Post (w.finishThread c) (fun w' => GoodT w'.exec.threads) := by
  unfold World.finishThread
  split
  · exact Post.throw _
  · refine dropPass_post h _ _ _ ?_
    intro w1 _
    post

theorem runEpilogue_post {w : World} (h : ActT w.exec.threads) (c : TCtl) :
    Post (w.runEpilogue c) (fun w' => GoodT w'.exec.threads) := by
  unfold World.runEpilogue
  dsimp only
  split
  · exact finishThread_post h c
  · split
    · post
    · split
      · exact Post.throw _
      · split
        · refine dropPass_post h _ _ _ ?_
          intro w1 h1
          exact Post.pure _ (GoodT.of_act h1)
        · split
          · refine dropPass_post h _ _ _ ?_
            intro w1 _
            post
          · post

theorem runOp_post {w : World} (h : ActT w.exec.threads) (c : TCtl) (op : Op) :
    Post (w.runOp c op) (fun w' => GoodT w'.exec.threads) := by
  cases op
  case tls k =>
    simp only [World.runOp]
    split
    · exact Post.throw _
    · next e => have a := tlsGet_act h e; exact Post.pure _ (GoodT.of_act a)
  case tlsTry k =>
    simp only [World.runOp]
    split
    · next e => have a := tlsGet_act h e; exact Post.pure _ (GoodT.of_act a)
    · next e => have a := tlsGet_act h e; exact Post.pure _ (GoodT.of_act a)
  case tlsNest k j =>
    simp only [World.runOp]
    split
    · exact Post.throw _
    · next h1 =>
      split
      · exact Post.throw _
      · next h2 => have a := tlsGet_act (tlsGet_act h h1) h2; exact Post.pure _ (GoodT.of_act a)
  case blockOn => exact blockOnStage_post h _ _ _
  case «lazy» => exact lazyStage_post h _ _
  case wake => exact wakeStage_post h _ _ _
  case wakeRef => exact wakeStage_post h _ _ _
  case wakeQ => exact wakeStage_post h _ _ _ _
  case awTake => exact awTakeStage_post h _ _
  all_goals (simp only [World.runOp] <;> post)

theorem stepActive_post {w : World} (h : ActT w.exec.threads) :
    Post w.stepActive (fun w' => GoodT w'.exec.threads) := by
  unfold World.stepActive
  dsimp only
  split
  · exact runOp_post h _ _
  · exact runEpilogue_post h _

/-- `World.init` only creates objects: the thread table is the one it was given -/
theorem init_threads (prog : Prog) (exec : Exec) :
    Post (World.init prog exec) (fun w0 => w0.exec.threads = exec.threads) := by
  unfold World.init; post

/-- when `runLoop` ends without a panic no thread is active and every thread has terminated -/
theorem runLoop_allTerm (fuel : Nat) (w w' : World) (hg : GoodT w.exec.threads)
    (h : World.runLoop fuel w = (w', none)) :
    w'.exec.threads.active = none ∧ AllTerm w'.exec.threads := by
  induction fuel generalizing w with
  | zero => simp [World.runLoop] at h
  | succ n ih =>
    unfold World.runLoop at h
    cases ha : w.ths.isActive with
    | false =>
      simp only [ha, Bool.not_false, if_true, Prod.mk.injEq, and_true] at h
      subst h
      have hn : w.exec.threads.active = none := by
        simpa [Threads.isActive, World.ths] using ha
      exact ⟨hn, hg hn⟩
    | true =>
      simp only [ha, Bool.not_true, Bool.false_eq_true, if_false] at h
      cases hs : w.stepActive with
      | error e => rw [hs] at h; cases h
      | ok w1 =>
        rw [hs] at h
        exact ih w1 ((stepActive_post (w := w) ha).h w1 hs) h

end C10
end LoomVerif

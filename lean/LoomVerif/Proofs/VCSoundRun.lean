/-
Soundness of the vector clocks of the reference semantics, part 7: the invariant holds along every run of a
well-formed program of the lock fragment with at most five threads (`Run.inv`); prefixes of runs are runs
(`Run.take`).
-/
import LoomVerif.Proofs.VCSoundInvStep

namespace LoomVerif
namespace VCSound
open Race (upd upd_self upd_ne get_zero zero_join join_zero)
open Clocks
open Refine (WF)

theorem th_init (p : Prog) (t : Nat) :
    (SC.init p).th t = if t < p.threads.length then { started := t == 0 } else {} := by
  unfold SC.St.th SC.init
  simp only [List.getD, List.getElem?_map]
  by_cases h : t < p.threads.length
  · rw [if_pos h, List.getElem?_range h]; rfl
  · rw [if_neg h, List.getElem?_eq_none (by simpa using h)]; rfl

theorem view_init_vc (p : Prog) (t : Nat) : (view (SC.init p)).vc t = VV.zero := by
  show ((SC.init p).th t).vc = VV.zero
  rw [th_init]; split <;> rfl

theorem view_init_started (p : Prog) (t : Nat) (h : (view (SC.init p)).started t = true) : t = 0 := by
  have h' : ((SC.init p).th t).started = true := h
  rw [th_init] at h'
  split at h'
  · simpa using h'
  · cases h'

theorem view_init_finished (p : Prog) (t : Nat) : (view (SC.init p)).finished t = false := by
  show ((SC.init p).th t).finished = false
  rw [th_init]; split <;> rfl

theorem getD_replicate_zero (n m : Nat) : (List.replicate n VV.zero).getD m VV.zero = VV.zero := by
  simp only [List.getD]
  by_cases h : m < n
  · simp [h]
  · simp [List.getElem?_eq_none (l := List.replicate n VV.zero) (by simpa using h)]

theorem view_init_orel (p : Prog) (o : Obj) : (view (SC.init p)).orel o = VV.zero := by
  cases o with
  | mutex m => exact getD_replicate_zero _ _
  | rw l => exact getD_replicate_zero _ _
  | notify n => exact getD_replicate_zero _ _
  | token u =>
    show ((SC.init p).th u).tokenVC = VV.zero
    rw [th_init]; split <;> rfl
  | chan q => exact getD_replicate_zero _ _

theorem view_init_chq (p : Prog) (q : Nat) : (view (SC.init p)).chq q = [] := by
  show ((SC.init p).chan.getD q []).map (·.2) = []
  have : (SC.init p).chan.getD q [] = [] := getD_replicate _ _ _
  rw [this]; rfl

theorem view_init_rxd (p : Prog) (q : Nat) : (view (SC.init p)).rxd q = false := getD_replicate _ _ _
theorem view_init_cw (p : Prog) (c : Nat) : (view (SC.init p)).cw c = VV.zero :=
  getD_replicate_zero _ _
theorem view_init_cr (p : Prog) (c : Nat) : (view (SC.init p)).cr c = VV.zero :=
  getD_replicate_zero _ _

theorem inv_init (p : Prog) : Inv p [] [] (view (SC.init p)) := by
  refine ⟨rfl, ?_, ?_, ?_, ?_, ?_, ?_, ?_, ?_, ?_, ?_, ?_, ?_, ?_, ?_, ?_, ?_, ?_, ?_, ?_, ?_⟩
  · intro j e h; simp at h
  · intro b _; exact ⟨view_init_vc p b, fun j e h => by simp at h⟩
  · intro b hb; exact .inl (view_init_started p b hb)
  · intro b hb; rw [view_init_finished] at hb; cases hb
  · intro i f ei ef h; simp at h
  · intro x u; rw [view_init_vc, get_zero]; exact Nat.zero_le _
  · intro x m; rw [view_init_orel, get_zero]; exact Nat.zero_le _
  · intro j e c h; simp at h
  · intro j e c h; simp at h
  · intro j e c h; simp at h
  · intro j i cj ci h; exact absurd h.lt_length (by simp)
  · intro j e c h; simp at h
  · intro j e c b h; simp at h
  · intro j e c m h; simp at h
  · intro q; rw [view_init_rxd]; rfl
  · intro q _; rw [view_init_chq]; rfl
  · intro q _; exact view_init_chq p q
  · intro x q k X h; rw [view_init_chq] at h; simp at h
  · intro j e c h; simp at h
  · intro q k X h; rw [view_init_chq] at h; simp at h

/-- a `spawn` of a well-formed program starts a thread that is not started yet -/
theorem fresh_of_wf {p : Prog} {evs : List Event} {cl : List VV} {v v' : View} {e : Event} {live : Bool}
    (hwf : WFX p) (hI : Inv p evs cl v) (sf : SF p v e v' live) (b : Nat) (hb : e.forkOf = some b) : v.started b = false := by
  cases hs : v.started b with
  | false => rfl
  | true =>
    have hpos := sf.forkPos b hb
    rcases hI.spawned b hs with h | ⟨a, k, h1, h2⟩
    · omega
    · have h3 : opAt p e.thr (v.pc e.thr) = some (.spawn b) := by
        rw [sf.hop]; exact Event.forkOf_iff.1 hb
      obtain ⟨rfl, rfl⟩ := hwf.spawn_unique h1 h3
      exact absurd h2 (Nat.lt_irrefl _)

theorem events_snoc (p : Prog) (tr : List Step) (e : Step) : events p (tr ++ [e]) = events p tr ++ [e.ev p] := by
  simp [events]
theorem clocks_snoc (tr : List Step) (e : Step) : clocks (tr ++ [e]) = clocks tr ++ [e.clock] := by
  simp [clocks]

/-- the context of the last step of a run -/
theorem ctx_of_step {p : Prog} {tr : List Step} {s s' : SC.St} {t : Nat} (hwf : WFX p)
    (hlen : p.threads.length ≤ 5) (hs : Shape p s) (hI : Inv p (events p tr) (clocks tr) (view s))
    (hen : SC.enabled p s t = true) (h : s' ∈ SC.step p s t) :
    ∃ live, Shape p s' ∧ Ctx p (events p tr) (clocks tr) (view s) (Step.ev p ⟨t, s, s'⟩) (view s') live ∧
      Step.clock ⟨t, s, s'⟩ = newClock (view s) (Step.ev p ⟨t, s, s'⟩) ∧
      AStepE p t (view s) (SC.opOf p s t) (Step.res ⟨t, s, s'⟩) (view s') := by
  obtain ⟨hs', ha⟩ := step_view hwf hs hen h
  obtain ⟨live, sf⟩ := ha.facts hlen
  have c : Ctx p (events p tr) (clocks tr) (view s) (Step.ev p ⟨t, s, s'⟩) (view s') live :=
    ⟨hI, sf, fresh_of_wf hwf hI sf⟩
  exact ⟨live, hs', c, c.vc_self, ha⟩

/-- **the invariant holds along every run** -/
theorem Run.inv {p : Prog} {tr : List Step} {s : SC.St} (hwf : WFX p) (hlen : p.threads.length ≤ 5)
    (h : Run p tr s) : Shape p s ∧ Inv p (events p tr) (clocks tr) (view s) := by
  induction h with
  | nil => exact ⟨shape_init p, inv_init p⟩
  | snoc _ hen hstep ih =>
    obtain ⟨_, hs', c, hclk, _⟩ := ctx_of_step hwf hlen ih.1 ih.2 hen hstep
    refine ⟨hs', ?_⟩
    rw [events_snoc, clocks_snoc, hclk]
    exact c.step

/-- every prefix of a run is a run, and every step of a run is a step of the reference -/
theorem Run.take {p : Prog} {tr : List Step} {s : SC.St} (h : Run p tr s) (i : Nat) (e : Step)
    (hi : tr[i]? = some e) :
    Run p (tr.take i) e.s ∧ SC.enabled p e.s e.t = true ∧ e.s' ∈ SC.step p e.s e.t ∧
      Run p (tr.take (i + 1)) e.s' := by
  induction h with
  | nil => simp at hi
  | @snoc tr s s' t hr hen hstep ih =>
    rcases getElem?_snoc.1 hi with h | ⟨h1, h2⟩
    · have hlt := (List.getElem?_eq_some_iff.1 h).1
      rw [List.take_append_of_le_length (Nat.le_of_lt hlt), List.take_append_of_le_length hlt]
      exact ih h
    · subst h1 h2
      refine ⟨?_, hen, hstep, ?_⟩
      · rw [List.take_append_of_le_length (Nat.le_refl _), List.take_length]; exact hr
      · rw [List.take_of_length_le (by simp)]; exact .snoc hr hen hstep

end VCSound
end LoomVerif

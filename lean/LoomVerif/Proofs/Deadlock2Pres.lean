/-
Deadlock soundness, WAIT fragment, part 13: **`RB2` is preserved by every successful stage of the active thread**
over the WAIT fragment (lock fragment + channels + `Notify` + `park`/`unpark` + the condvar + the epilogue).
-/
import LoomVerif.Proofs.Deadlock2Ops6

namespace LoomVerif
namespace Deadlock2
open Refine Refine2 Sy Deadlock C07 C08

section
variable {w w' : World} {s : SCData2}

/-- the context of the case analysis -/
theorem ctx_of (hwf : WFD w.prog) (hRB : RB2 w s) (hactive : w.ths.isActive = true)
    (hact : w.tid < w.ctl.length) (hok : resumeOk w = true) (h : w.stepActive = .ok w') : Ctx w s := by
  have hokp : parkResumeOk w = true := by
    unfold resumeOk at hok; simp only [Bool.and_eq_true] at hok; exact hok.2
  exact ⟨hwf, hRB.r.c, hRB.r.p, hRB.j, hactive, hact, active_running hRB hact hok h, actUnparked hRB.r.p hokp⟩

/-- **the twin-side invariant is kept by every successful stage** of a fragment operation or of the epilogue;
the path moves by at most one scheduling decision (after at most one decision about a spurious return) -/
theorem step_JB2 (hwf : WFD w.prog) (hRB : RB2 w s) (hactive : w.ths.isActive = true)
    (hact : w.tid < w.ctl.length) (hok : resumeOk w = true) (h : w.stepActive = .ok w') :
    JB2 w' ∧ PStep w.exec.path w'.exec.path w'.ths.isActive := by
  have c := ctx_of hwf hRB hactive hact hok h
  cases hop : opAt2 w with
  | none =>
    rw [stepActive_none hop] at h
    exact step_epilogue c hop h
  | some op =>
    rw [stepActive_op hop] at h
    have hop' : (w.prog.threads.getD (w.ctlOf w.tid).body [])[(w.ctlOf w.tid).pc]? = some op := hop
    have hok' := hwf.1.opOk hop'
    cases op <;> simp only [Refine2.opOk, Bool.false_eq_true, Bool.and_eq_true, decide_eq_true_eq] at hok'
    case cellRead ci => exact step_cellRead c hok' h
    case cellWrite ci v => exact step_cellWrite c hok' h
    case lock mi => exact step_lock c hok' hop h
    case tryLock mi => exact step_tryLock c hok' hop h
    case unlock mi => exact step_unlock c hok' h
    case spawn b => exact step_spawn c h
    case join b => exact step_join c hop h
    case ifEq i r n => exact step_ifEq c h
    case send q v => exact step_send c hok' hop h
    case recv q => exact step_recv c hok' hop h
    case tryRecv q => exact step_tryRecv c hok' hop h
    case dropRx q => exact step_dropRx c hok' hop h
    case nWait n => exact step_nWait c hok' hop h
    case nNotify n => exact step_nNotify c hok' hop h
    case park => exact step_park c hop h
    case unpark b => exact step_unpark c h
    case cvWait v m => exact step_cvWait c hok'.1 hok'.2 hop h
    case cvOne v => exact step_cvOne c hok' hop h
    case cvAll v => exact step_cvAll c hok' hop h

/-- **`RB2` is preserved by every successful stage** (`Refine2.step_simulation` with `RB2` for `R2`): the world
reached is related (`RB2`) to the same reference state (a stuttering stage) or to its successor by a step of the
body the active thread runs — a step enabled in the reference state, or the spurious return of `nWait` -/
theorem step_pres2 (hwf : WFD w.prog) (hRB : RB2 w s) (hactive : w.ths.isActive = true)
    (hact : w.tid < w.ctl.length) (hok : resumeOk w = true) (h : w.stepActive = .ok w') :
    (w'.prog = w.prog ∧
     ((RB2 w' s ∧ w'.events = w.events) ∨
      ∃ l s',
        ((SCData2.enabled w.prog s (w.ctlOf w.tid).body = true ∧
            (l, s') ∈ SCData2.stepL w.prog s (w.ctlOf w.tid).body) ∨
          (l, s') ∈ SCData2.spuriousL w.prog s (w.ctlOf w.tid).body) ∧
        RB2 w' s' ∧
        w'.events.map triple = SCData.label (w.ctlOf w.tid).body l ++ w.events.map triple)) ∧
    InRange w' ∧ PStep w.exec.path w'.exec.path w'.ths.isActive := by
  obtain ⟨hJ', hP'⟩ := step_JB2 hwf hRB hactive hact hok h
  have hpath := hP'.replayOK hRB.path
  obtain ⟨⟨hp, hsim⟩, hr⟩ := step_sim2 hwf.1 hRB.r hact hok h
  refine ⟨⟨hp, ?_⟩, hr, hP'⟩
  rcases hsim with ⟨hR1, hev⟩ | ⟨l, s1, hrs, hR1, hev⟩
  · exact .inl ⟨⟨hR1, hJ', hpath⟩, hev⟩
  · exact .inr ⟨l, s1, hrs, ⟨hR1, hJ', hpath⟩, hev⟩

end

end Deadlock2
end LoomVerif

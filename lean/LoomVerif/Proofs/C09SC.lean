/-
C09: the channel steps of the reference machine `Spec/SC.lean` as equations, and the agreement of
the twin's `sendEffect` / `recvEffect` with them on the queue of values.
-/
import LoomVerif.Proofs.C09Run
import LoomVerif.Proofs.C11SC

namespace LoomVerif
namespace C09
open SC World WB

/-- the values queued in channel `q` of the reference machine -/
def scQueue (s : SC.St) (q : Nat) : List Int := (s.chan.getD q []).map (·.1)

theorem scQueue_of_chan {s s' : SC.St} {q : Nat} {l : List (Int × VV)}
    (h : s'.chan = s.chan.set q l) (hq : q < s.chan.length) : scQueue s' q = l.map (·.1) := by
  simp [scQueue, h, List.getD_eq_getElem?_getD, hq]

section steps
variable (p : Prog) (s : St) (t q : Nat)

theorem step_send (v : Int) (hn : (s.th t).cvNotified = none)
    (hop : opOf p s t = some (.send q v)) (hd : s.rxDropped.getD q false = false) :
    SC.step p s t =
      [({ (s.tick t) with
            chan := s.chan.set q (s.chan.getD q [] ++
              [(v, (s.chanRel.getD q VV.zero).join ((s.tick t).vc t))])
            chanRel := s.chanRel.set q ((s.chanRel.getD q VV.zero).join ((s.tick t).vc t)) }).ret
          t .unit] := by
  have hd' : (s.tick t).rxDropped.getD q false = false := hd
  unfold SC.step
  simp only [hn, hop, hd']
  rfl

theorem step_recv (hn : (s.th t).cvNotified = none) (hop : opOf p s t = some (.recv q)) :
    SC.step p s t =
      match s.chan.getD q [] with
      | (v, c) :: rest =>
        [(({ (s.tick t) with chan := s.chan.set q rest }).acquire t c).ret t (.val v)]
      | [] => [(s.tick t).stop (.misuse 3)] := by
  unfold SC.step
  simp only [hn, hop]
  rfl

theorem step_tryRecv (hn : (s.th t).cvNotified = none) (hop : opOf p s t = some (.tryRecv q)) :
    SC.step p s t =
      match s.chan.getD q [] with
      | (v, c) :: rest =>
        [(({ (s.tick t) with chan := s.chan.set q rest }).acquire t c).ret t (.val v)]
      | [] => [(s.tick t).ret t .empty] := by
  unfold SC.step
  simp only [hn, hop]
  rfl

/-- `recv` is enabled in the reference machine iff the queue is non-empty -/
theorem enabled_recv (hw : (s.th t).cvWaiting = none) (hn : (s.th t).cvNotified = none)
    (hop : opOf p s t = some (.recv q)) :
    SC.enabled p s t =
      (s.verdict.isNone && (s.th t).started && !(s.th t).finished && !(scQueue s q).isEmpty) := by
  unfold SC.enabled
  simp only [hw, hn, hop, scQueue, List.isEmpty_map]

end steps

/-! ### agreement -/

section agree
variable {p : Prog} {w : World} {sc : SC.St} {c : TCtl} {t qi : Nat} {s : ChanSt}

/-- `send` (receiver alive): both sides append the value -/
theorem send_agrees (v : Int) (hg : w.getChan (w.chanObj qi) = .ok s) (hc : c.stage ≠ 0)
    (hq : s.queue = scQueue sc qi) (hk : qi < sc.chan.length)
    (hd : sc.rxDropped.getD qi false = false) (at_ : C11.ScAt p sc t (.send qi v)) :
    ∃ w' sc' s', w.runOp c (.send qi v) = .ok w' ∧ SC.step p sc t = [sc'] ∧
      w'.getChan (w.chanObj qi) = .ok s' ∧
      s'.queue = s.queue ++ [v] ∧ s'.queue = scQueue sc' qi ∧
      C11.retOf w' = C11.scRet sc' t ∧ C11.retOf w' = some .unit := by
  have hst := step_send p sc t qi v at_.notified at_.op hd
  obtain ⟨w1, hs⟩ : ∃ w1, w.sendEffect (w.chanObj qi) v = .ok w1 :=
    ⟨_, sendEffect_eq w (w.chanObj qi) v s hg⟩
  refine ⟨w1.complete .unit, _, chanSend s w.ths.activeT.released w.ths.caus v, ?_, hst, ?_, rfl,
    ?_, ?_, rfl⟩
  · rw [runOp_send_stage1 w c qi v hc, hs]; rfl
  · rw [getChan_ok_iff, exec_complete, ← getChan_ok_iff]
    exact sendEffect_chan hg hs
  · rw [scQueue_of_chan (s := sc) rfl hk]
    simp [chanSend, hq, scQueue]
  · rw [C11.scRet_ret _ _ _ (by simpa using at_.thread)]; rfl

/-- `recv` / `try_recv` on a non-empty channel: both sides pop the head and return it -/
theorem recv_agrees (hg : w.getChan (w.chanObj qi) = .ok s) (hc : c.stage ≠ 0) (hi : ChanInv s)
    (hq : s.queue = scQueue sc qi) (hk : qi < sc.chan.length) (h0 : s.msgCnt ≠ 0)
    (at_ : C11.ScAt p sc t (.recv qi)) :
    ∃ w' sc' s' v, w.runOp c (.recv qi) = .ok w' ∧ SC.step p sc t = [sc'] ∧
      w'.getChan (w.chanObj qi) = .ok s' ∧
      s.queue = v :: s'.queue ∧ s'.queue = scQueue sc' qi ∧
      C11.retOf w' = C11.scRet sc' t ∧ C11.retOf w' = some (.val v) := by
  obtain ⟨sy, rest, v, q', hrs, hqq, hr⟩ := recvEffect_ok w _ s hg hi h0
  obtain ⟨w1, hr⟩ : ∃ w1, w.recvEffect (w.chanObj qi) = .ok (w1, v) := ⟨_, hr⟩
  have hst := step_recv p sc t qi at_.notified at_.op
  have hf := recvEffect_inv hg hr
  obtain ⟨sy', f⟩ := hf
  cases hsc : sc.chan.getD qi [] with
  | nil => rw [hqq, scQueue, hsc] at hq; cases hq
  | cons m rest' =>
    obtain ⟨v', c'⟩ := m
    have hv : v = v' ∧ q' = rest'.map (·.1) := by
      rw [hqq, scQueue, hsc] at hq; simpa using hq
    obtain ⟨hv, hq'⟩ := hv
    subst hv
    rw [hsc] at hst
    refine ⟨w1.complete (.val v), _, chanRecv s, v, ?_, hst, ?_, ?_, ?_, ?_, rfl⟩
    · rw [runOp_recv_stage1 w c qi hc, hr]; rfl
    · rw [getChan_ok_iff, exec_complete, ← getChan_ok_iff]; exact f.chan
    · exact f.queue
    · rw [scQueue_of_chan (s := sc) rfl hk]
      simp [chanRecv, hqq, hq']
    · rw [C11.scRet_ret _ _ _ (by simpa using at_.thread)]; rfl

/-- `try_recv` on an empty channel: `Empty` on both sides, the twin does nothing else -/
theorem tryRecv_empty_agrees (hg : w.getChan (w.chanObj qi) = .ok s) (hc : c.stage = 0)
    (hq : s.queue = scQueue sc qi) (hi : ChanInv s) (h0 : s.msgCnt = 0)
    (at_ : C11.ScAt p sc t (.tryRecv qi)) :
    ∃ w' sc', w.runOp c (.tryRecv qi) = .ok w' ∧ SC.step p sc t = [sc'] ∧
      w'.exec = w.exec ∧ sc'.chan = sc.chan ∧
      C11.retOf w' = C11.scRet sc' t ∧ C11.retOf w' = some .empty := by
  have hst := step_tryRecv p sc t qi at_.notified at_.op
  have he : sc.chan.getD qi [] = [] := by
    have : s.queue = [] := List.eq_nil_of_length_eq_zero (by rw [← hi.1]; exact h0)
    rw [this, scQueue] at hq
    simpa using hq.symm
  rw [he] at hst
  refine ⟨_, _, runOp_tryRecv_stage0_empty w c qi s hc hg h0, hst, rfl, rfl, ?_, rfl⟩
  rw [C11.scRet_ret _ _ _ (by simpa using at_.thread)]; rfl

/-- the twin blocks the receiver exactly when the reference machine disables it -/
theorem block_iff_disabled (hi : ChanInv s) (hq : s.queue = scQueue sc qi) :
    (s.msgCnt == 0) = (scQueue sc qi).isEmpty := by
  rw [← hq, hi.1]
  cases s.queue <;> simp

end agree

end C09
end LoomVerif

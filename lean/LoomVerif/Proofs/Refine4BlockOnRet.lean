/-
Refinement, FUTURES fragment: the simulation for the RETURN stages of `blockOn f mode`: 40 (the call's own handle is
dropped; modes 3, 4, 5 complete — the reference step, phase 5 → 0 —, modes 0 / 1 go on to 45 / 44), 45 / 44 (the
registration is taken back under the mutex — the reference step —; if a waker was there the thread is ahead at 43 / 46),
41, 43, 46 (the waker is dropped, the operation completes: catch-up).
-/
import LoomVerif.Proofs.Refine4BlockOn0

set_option linter.unusedSimpArgs false
set_option linter.unusedVariables false

namespace LoomVerif
namespace Refine4
open Refine Sy Refine2 C20

section
variable {w w' : World} {s : SC.St}

/-! ### the catch-up stages 41, 43, 46 -/

theorem sim_blockOn41 (hR : R4 w s) (hact : w.tid < w.ctl.length) {f mode : Nat}
    (hop : opAt w = some (.blockOn f mode)) (hst : (w.ctlOf w.tid).stage = 41)
    (h : w.stepActive = .ok w') : Sim4 w s w' := by
  rw [stepActive_op hop] at h
  have h' : w.blockOnStage (w.ctlOf w.tid) f mode = .ok w' := by
    simp only [World.runOp] at h; exact h
  rw [blockOn_stage41 w _ f mode hst] at h'
  have hopc : opOfCtl w.prog (w.ctlOf w.tid) = some (.blockOn f mode) := hop
  exact sim_dropComplete hR hact hop (by rw [hop, hst]; rfl)
    (by simp only [fattr, inflS, pendN, callOf, aw25, hopc, hst, phaseOfStage]; rfl) h'

theorem sim_blockOn43 (hR : R4 w s) (hact : w.tid < w.ctl.length) {f mode : Nat}
    (hop : opAt w = some (.blockOn f mode)) (hst : (w.ctlOf w.tid).stage = 43)
    (h : w.stepActive = .ok w') : Sim4 w s w' := by
  rw [stepActive_op hop] at h
  have h' : w.blockOnStage (w.ctlOf w.tid) f mode = .ok w' := by
    simp only [World.runOp] at h; exact h
  rw [blockOn_stage43 w _ f mode hst] at h'
  have hopc : opOfCtl w.prog (w.ctlOf w.tid) = some (.blockOn f mode) := hop
  exact sim_dropComplete hR hact hop (by rw [hop, hst]; rfl)
    (by simp only [fattr, inflS, pendN, callOf, aw25, hopc, hst, phaseOfStage]; rfl) h'

theorem sim_blockOn46 (hR : R4 w s) (hact : w.tid < w.ctl.length) {f mode : Nat}
    (hop : opAt w = some (.blockOn f mode)) (hst : (w.ctlOf w.tid).stage = 46)
    (h : w.stepActive = .ok w') : Sim4 w s w' := by
  rw [stepActive_op hop] at h
  have h' : w.blockOnStage (w.ctlOf w.tid) f mode = .ok w' := by
    simp only [World.runOp] at h; exact h
  rw [blockOn_stage46 w _ f mode hst] at h'
  have hopc : opOfCtl w.prog (w.ctlOf w.tid) = some (.blockOn f mode) := hop
  exact sim_dropComplete hR hact hop (by rw [hop, hst]; rfl)
    (by simp only [fattr, inflS, pendN, callOf, aw25, hopc, hst, phaseOfStage]; rfl) h'

/-! ### stage 40: the call's own handle is dropped -/

/-- the modes of the fragment -/
theorem bo_modes (hwf : WF4 w.prog) {f mode : Nat} (hop : opAt w = some (.blockOn f mode)) :
    mode = 0 ∨ mode = 1 ∨ mode = 3 ∨ mode = 4 ∨ mode = 5 := by
  have := hwf.opOk hop
  simp only [opOk4, Bool.and_eq_true, Bool.or_eq_true, beq_iff_eq, decide_eq_true_eq] at this
  omega

/-- stage 40, modes 0 / 1: on to the stage that takes the registration back (a stuttering stage) -/
theorem bo40_quiet (hR : R4 w s) (hact : w.tid < w.ctl.length) {f mode st' : Nat}
    (hop : opAt w = some (.blockOn f mode)) (hst : (w.ctlOf w.tid).stage = 40) (hm5 : mode ≠ 5)
    (hst' : st' = 45 ∨ st' = 44) (hok : boStageOk mode st' = true)
    (hv : view4 w' = { view4 w with ctl := w.ctl.modify w.tid fun c => { c with stage := st' } }) :
    R4 w' s := by
  have hopc : opOfCtl w.prog (w.ctlOf w.tid) = some (.blockOn f mode) := hop
  have hopc' : opOfCtl w.prog { w.ctlOf w.tid with stage := st' } = some (.blockOn f mode) := hop
  have e5 : (mode == 5) = false := by simpa using hm5
  refine R4_quiet hR hact _ hv rfl rfl rfl rfl rfl rfl ?_ ?_ ?_ ?_ ?_
  · rw [hop]; exact hok
  · rw [hop, hst]; rcases hst' with e | e <;> subst e <;> rfl
  · rw [hop, hst]; rcases hst' with e | e <;> subst e <;> rfl
  · rcases hst' with e | e <;> subst e <;>
      simp only [fattr, inflS, pendN, callOf, aw25, hopc, hopc', hst, e5, Bool.false_and, phaseOfStage]
  · intro x hx; rw [hop] at hx; cases hx

/-- stage 40, modes 3, 4, 5: the operation completes: THE REFERENCE STEP, phase 5 → 0 -/
theorem bo40_complete (hwf : WF4 w.prog) (hR : R4 w s) (hact : w.tid < w.ctl.length) {f mode : Nat}
    (hop : opAt w = some (.blockOn f mode)) (hst : (w.ctlOf w.tid).stage = 40)
    (hm : (mode == 3 || mode == 4 || mode == 5) = true)
    (hv : view4 w' = { view4 w with ctl := w.ctl.modify w.tid (completeF (.val 7)) }) :
    ∃ s', SCExec2 w.prog s s' ∧ R4 w' s' := by
  obtain ⟨hf, hfa⟩ := fut_lt hwf hop rfl
  have hopc : opOfCtl w.prog (w.ctlOf w.tid) = some (.blockOn f mode) := hop
  have hrel := rel4 hR hact
  obtain ⟨_, _, hpl, _, _⟩ := act4 hR hact
  have hsy := sync4 hR hact (by rw [hop, hst]; rfl)
  obtain ⟨hrun1, hrun2⟩ := running4 hR hact hop
  have hph : (s.th (w.ctlOf w.tid).body).phase = 5 := by rw [hsy.2.2.2, hop, hst]; rfl
  have h0 : mode ≠ 0 := by intro e; subst e; exact absurd hm (by decide)
  -- the reference step: phase 5 → 0
  obtain ⟨s', hstep, hdata⟩ := sc_step_bo5 (f := f) (mode := mode) hpl (hsy.1.trans hop) hph
  rw [hm, if_pos rfl] at hdata
  have hen : SC.enabled w.prog s (w.ctlOf w.tid).body = true :=
    sc_enabled_op hR.verdict hpl hrun1 hrun2 (hsy.1.trans hop) (hwf.opOk hop) (by
      show ((s.th _).phase != 4 || _) = true
      rw [hph]; rfl)
  refine ⟨s', exec_step hen hstep, ?_⟩
  have hdf : (data4 s').futs = (data4 s).futs.modify f decF := by rw [hdata]; rfl
  have hda : (data4 s').atoms = (data4 s).atoms := by rw [hdata]; rfl
  have hdt : (data4 s').ths = (data4 s).ths.modify (w.ctlOf w.tid).body
      (fun h => { h with phase := 0, rets := (h.pc, Ret.val 7) :: h.rets, pc := h.pc + 1 }) := by
    rw [hdata]
    show ((data4 s).ths.modify _ _).modify _ _ = _
    rw [modify_modify']
  have hdv : (data4 s').verdict = none := by rw [hdata]; exact hR.verdict
  have r9 := hrel.2.2.2.2.2.2.2.2
  rw [hopc, hst] at r9
  have r9' : ((data4 s).ths.getD (w.ctlOf w.tid).body {}).pc = (w.ctlOf w.tid).pc ∧
      ((data4 s).ths.getD (w.ctlOf w.tid).body {}).rets = (w.ctlOf w.tid).results ∧
      ((data4 s).ths.getD (w.ctlOf w.tid).body {}).phase = 5 := r9
  have hca : caOf w.prog w.ctl w.tid = some (f, mode, mode == 5 && polledSt 40) := by
    show callOf w.prog (w.ctlOf w.tid) = _
    simp only [callOf, hopc, hst]; rfl
  have hU := call_unique hwf hR hact hop
  have hS : (w.futs.getD f {}).slot = false := noSlot hwf hR hop rfl (by simp [h0]; split <;> omega)
  have hfid : w.futs.modify f (fun s => s) = w.futs := modify_id' _ _ _ (fun _ => rfl)
  have hv' : view4 w' = { view4 w with
      ctl := w.ctl.modify w.tid (completeF (.val 7)), futs := (view4 w).futs, objs := (view4 w).objs } := hv
  unfold R4
  refine R4_step hR hact _ (fun h => { h with phase := 0, rets := (h.pc, Ret.val 7) :: h.rets, pc := h.pc + 1 })
    _ _ hv' hdt hdv rfl (Nat.le_succ _) ?_ ?_ id (fun _ _ _ h => h) ?_
  · refine hrel.of rfl rfl rfl rfl rfl rfl rfl (stageOk_zero _) (by intro x _ h1; cases h1) ?_
    show match aheadOf _ 0 with | none => _ | some r => _
    rw [aheadOf_zero]
    show _ = (w.ctlOf w.tid).pc + 1 ∧ _ = ((w.ctlOf w.tid).pc, Ret.val 7) :: (w.ctlOf w.tid).results ∧ _ = phaseOf _ 0
    rw [r9'.1, r9'.2.1, phaseOf_zero]
    exact ⟨rfl, rfl, rfl⟩
  · intro hne
    exact absurd (fin_zero4 hR hact hop) hne
  · obtain ⟨e1, e2, e3, e4⟩ := fattr_stage0 w.prog (completeF (.val 7) (w.ctlOf w.tid)) rfl
    refine RF.ofGroups' hact _ e1 e2 e3 e4 ?_ ?_ ?_ ?_
    · rw [hdf]; exact hR.f.s.df f decF ⟨rfl, rfl, rfl⟩
    · rw [hdf]
      have hpa : upd (paOf w.prog w.ctl) w.tid none = paOf w.prog w.ctl := by
        have : paOf w.prog w.ctl w.tid = none := by
          show pendN w.prog (w.ctlOf w.tid) = none
          simp only [pendN, hopc, hst]
        rw [← this]; exact upd_same _ _
      rw [hpa]
      have := hR.f.c.leave hact hf hR.f.s.lenF hca hU (fun s => s) decF hS (fun e => ⟨e, rfl⟩)
      rw [show (view4 w).futs = w.futs from rfl, hfid] at this
      exact this
    · rw [hda]
      exact hR.f.a.same (by show inflS w.prog (w.ctlOf w.tid) = none; simp only [inflS, hopc, hst])
    · exact hR.f.w.same (by show aw25 w.prog (w.ctlOf w.tid) = none; simp only [aw25, hopc, hst])

theorem sim_blockOn40 (hwf : WF4 w.prog) (hR : R4 w s) (hact : w.tid < w.ctl.length) {f mode : Nat}
    (hop : opAt w = some (.blockOn f mode)) (hst : (w.ctlOf w.tid).stage = 40)
    (h : w.stepActive = .ok w') : Sim4 w s w' := by
  rw [stepActive_op hop] at h
  have h' : w.blockOnStage (w.ctlOf w.tid) f mode = .ok w' := by
    simp only [World.runOp] at h; exact h
  rw [blockOn_stage40 w _ f mode hst] at h'
  clear h
  obtain ⟨w1, h1, h2⟩ := Refine.bind_ok h'
  clear h'
  obtain ⟨hk1, hv1⟩ := wakerDrop_view h1
  have hlen : w.ctl.length = w.exec.threads.threads.length := hR.lenCtl
  -- modes 0 / 1: a stuttering stage
  have quiet : ∀ (o st' : Nat) (blk : Bool), (st' = 45 ∨ st' = 44) → mode ≠ 5 → boStageOk mode st' = true →
      (w1.setStage st').branch o .opaque blk true = .ok w' → Sim4 w s w' := by
    intro o st' blk hst' hm5 hok hb
    have hs := branch_sched hb
    refine ⟨hs.fr.1.trans hk1.1.1, ⟨s, .nil s, ?_⟩, hs.inRange⟩
    refine bo40_quiet hR hact hop hst hm5 hst' hok ?_
    rw [hs.view, view4_setStage, hv1, hk1.1.2.1, hk1.2.1]
  -- modes 3, 4, 5: the operation completes
  have compl : (mode == 3 || mode == 4 || mode == 5) = true → w' = w1.complete (.val 7) → Sim4 w s w' := by
    intro hm hw'
    subst hw'
    refine ⟨hk1.1.1, bo40_complete hwf hR hact hop hst hm ?_,
      inRange_of (w := w) hk1.2.1 (Nat.le_of_eq hk1.2.2.symm) (by rw [← hlen]; exact hact)⟩
    rw [view4_complete, hv1, hk1.1.2.1, hk1.2.1]
  rcases bo_modes hwf hop with rfl | rfl | rfl | rfl | rfl
  · have e : World.slotMode 0 = true := rfl
    simp only [e, if_true] at h2
    obtain ⟨m, _, h4⟩ := Refine.bind_ok h2
    exact quiet _ 45 _ (.inl rfl) (by decide) rfl h4
  · have e : World.slotMode 1 = false := rfl
    have e' : ((1 : Nat) == 3 || (1 : Nat) == 4 || (1 : Nat) == 5) = false := rfl
    simp only [e, e', Bool.false_eq_true, if_false] at h2
    obtain ⟨m, _, h4⟩ := Refine.bind_ok h2
    exact quiet _ 44 _ (.inr rfl) (by decide) rfl h4
  · have e : World.slotMode 3 = false := rfl
    have e' : ((3 : Nat) == 3 || (3 : Nat) == 4 || (3 : Nat) == 5) = true := rfl
    simp only [e, e', Bool.false_eq_true, if_false, if_true, pure, Except.pure] at h2
    exact compl rfl (Except.ok.inj h2).symm
  · have e : World.slotMode 4 = false := rfl
    have e' : ((4 : Nat) == 3 || (4 : Nat) == 4 || (4 : Nat) == 5) = true := rfl
    simp only [e, e', Bool.false_eq_true, if_false, if_true, pure, Except.pure] at h2
    exact compl rfl (Except.ok.inj h2).symm
  · have e : World.slotMode 5 = false := rfl
    have e' : ((5 : Nat) == 3 || (5 : Nat) == 4 || (5 : Nat) == 5) = true := rfl
    simp only [e, e', Bool.false_eq_true, if_false, if_true, pure, Except.pure] at h2
    exact compl rfl (Except.ok.inj h2).symm

/-! ### stages 45 / 44: the registration is taken back under the mutex -/

/-- the common part of the stages 45 and 44: THE REFERENCE STEP, phase 5 → 0 (`retF`); the future's record changes by
`G` (the registration is cleared), the control record by `F` (ahead at stage 43 / 46, or complete) -/
theorem bo_ret_core (hwf : WF4 w.prog) (hR : R4 w s) (hact : w.tid < w.ctl.length) {f mode : Nat}
    (hop : opAt w = some (.blockOn f mode))
    (hst : (w.ctlOf w.tid).stage = 45 ∨ (w.ctlOf w.tid).stage = 44) (hm : mode = 0 ∨ mode = 1)
    (G : FutSt → FutSt) (F : TCtl → TCtl)
    (hGS : GS w.prog (w.futs.modify f G) (nvOf (view4 w).objs) ((data4 s).futs.modify f retF))
    (hS : (G (w.futs.getD f {})).slot = false)
    (hA : (G (w.futs.getD f {})).awWaker = true →
      (w.futs.getD f {}).awWaker = true ∧ (G (w.futs.getD f {})).awNotify = (w.futs.getD f {}).awNotify)
    (hbody : (F (w.ctlOf w.tid)).body = (w.ctlOf w.tid).body)
    (hpc : (w.ctlOf w.tid).pc ≤ (F (w.ctlOf w.tid)).pc)
    (hfin : (F (w.ctlOf w.tid)).fin = (w.ctlOf w.tid).fin)
    (hrelF : ∀ h : DTh4, ThRel4 w.prog (w.ctlOf w.tid) h → h.pc = (w.ctlOf w.tid).pc →
      h.rets = (w.ctlOf w.tid).results →
      ThRel4 w.prog (F (w.ctlOf w.tid))
        { h with phase := 0, rets := (h.pc, Ret.val 7) :: h.rets, pc := h.pc + 1 })
    (hattr : fattr w.prog (F (w.ctlOf w.tid)) = (none, none, none, none))
    (hv : view4 w' = { view4 w with ctl := w.ctl.modify w.tid F, futs := w.futs.modify f G }) :
    ∃ s', SCExec2 w.prog s s' ∧ R4 w' s' := by
  obtain ⟨hf, hfa⟩ := fut_lt hwf hop rfl
  have hopc : opOfCtl w.prog (w.ctlOf w.tid) = some (.blockOn f mode) := hop
  have hrel := rel4 hR hact
  obtain ⟨_, _, hpl, _, _⟩ := act4 hR hact
  have hsy := sync4 hR hact (by rw [hop]; rcases hst with e | e <;> rw [e] <;> rfl)
  obtain ⟨hrun1, hrun2⟩ := running4 hR hact hop
  have hph : (s.th (w.ctlOf w.tid).body).phase = 5 := by
    rw [hsy.2.2.2, hop]; rcases hst with e | e <;> rw [e] <;> rfl
  -- the reference step: phase 5 → 0
  obtain ⟨s', hstep, hdata⟩ := sc_step_bo5 (f := f) (mode := mode) hpl (hsy.1.trans hop) hph
  have hif : (if (mode == 3 || mode == 4 || mode == 5) = true then decF else retF) = retF := by
    rcases hm with rfl | rfl <;> rfl
  rw [hif] at hdata
  have hen : SC.enabled w.prog s (w.ctlOf w.tid).body = true :=
    sc_enabled_op hR.verdict hpl hrun1 hrun2 (hsy.1.trans hop) (hwf.opOk hop) (by
      show ((s.th _).phase != 4 || _) = true
      rw [hph]; rfl)
  refine ⟨s', exec_step hen hstep, ?_⟩
  have hdf : (data4 s').futs = (data4 s).futs.modify f retF := by rw [hdata]; rfl
  have hda : (data4 s').atoms = (data4 s).atoms := by rw [hdata]; rfl
  have hdt : (data4 s').ths = (data4 s).ths.modify (w.ctlOf w.tid).body
      (fun h => { h with phase := 0, rets := (h.pc, Ret.val 7) :: h.rets, pc := h.pc + 1 }) := by
    rw [hdata]
    show ((data4 s).ths.modify _ _).modify _ _ = _
    rw [modify_modify']
  have hdv : (data4 s').verdict = none := by rw [hdata]; exact hR.verdict
  have r9 := hrel.2.2.2.2.2.2.2.2
  rw [hopc] at r9
  have r9' : ((data4 s).ths.getD (w.ctlOf w.tid).body {}).pc = (w.ctlOf w.tid).pc ∧
      ((data4 s).ths.getD (w.ctlOf w.tid).body {}).rets = (w.ctlOf w.tid).results := by
    rcases hst with e | e <;> rw [e] at r9 <;> exact ⟨r9.1, r9.2.1⟩
  have hca : caOf w.prog w.ctl w.tid = some (f, mode, mode == 5 && polledSt (w.ctlOf w.tid).stage) := by
    show callOf w.prog (w.ctlOf w.tid) = _
    simp only [callOf, hopc]
    rcases hst with e | e <;> rw [e] <;> rfl
  have hU := call_unique hwf hR hact hop
  have hv' : view4 w' = { view4 w with
      ctl := w.ctl.modify w.tid F, futs := w.futs.modify f G, objs := (view4 w).objs } := hv
  simp only [fattr, Prod.mk.injEq] at hattr
  obtain ⟨e1, e2, e3, e4⟩ := hattr
  unfold R4
  refine R4_step hR hact F (fun h => { h with phase := 0, rets := (h.pc, Ret.val 7) :: h.rets, pc := h.pc + 1 })
    _ _ hv' hdt hdv hbody hpc (hrelF _ hrel r9'.1 r9'.2) ?_ (by rw [hfin]; exact id) (fun _ _ _ h => h) ?_
  · intro hne
    rw [hfin] at hne
    exact absurd (fin_zero4 hR hact hop) hne
  · refine RF.ofGroups' hact _ e1 e2 e3 e4 ?_ ?_ ?_ ?_
    · rw [hdf]; exact hGS
    · rw [hdf]
      have hpa : upd (paOf w.prog w.ctl) w.tid none = paOf w.prog w.ctl := by
        have : paOf w.prog w.ctl w.tid = none := by
          show pendN w.prog (w.ctlOf w.tid) = none
          rcases hst with e | e <;> simp only [pendN, hopc, e]
        rw [← this]; exact upd_same _ _
      rw [hpa]
      exact hR.f.c.leave hact hf hR.f.s.lenF hca hU G retF hS hA
    · rw [hda]
      exact hR.f.a.same (by
        show inflS w.prog (w.ctlOf w.tid) = none
        rcases hst with e | e <;> simp only [inflS, hopc, e])
    · exact (hR.f.w.same (by
        show aw25 w.prog (w.ctlOf w.tid) = none
        rcases hst with e | e <;> simp only [aw25, hopc, e])).futs

/-- stage 45 (mode 0): the registration in the plain slot is taken back under the slot's mutex -/
theorem sim_blockOn45 (hwf : WF4 w.prog) (hR : R4 w s) (hact : w.tid < w.ctl.length) {f mode : Nat}
    (hop : opAt w = some (.blockOn f mode)) (hst : (w.ctlOf w.tid).stage = 45)
    (h : w.stepActive = .ok w') : Sim4 w s w' := by
  rw [stepActive_op hop] at h
  have h' : w.blockOnStage (w.ctlOf w.tid) f mode = .ok w' := by
    simp only [World.runOp] at h; exact h
  rw [blockOn_stage45 w _ f mode hst] at h'
  clear h
  obtain ⟨⟨w1, okk⟩, h1, h2⟩ := Refine.bind_ok h'
  clear h'
  have hopc : opOfCtl w.prog (w.ctlOf w.tid) = some (.blockOn f mode) := hop
  have hrel := rel4 hR hact
  -- the mode
  have hm0 : mode = 0 := by
    have := hrel.2.2.2.2.2.2.1
    rw [hopc, hst] at this
    have this' : (mode == 0) = true := this
    simpa using this'
  subst hm0
  obtain ⟨hf, hfa⟩ := fut_lt hwf hop rfl
  have hnoaw := noAw hwf hR hop rfl (by decide)
  -- the lock
  obtain ⟨l, hvo, hokk, hk1, _, hv1⟩ := postAcquire_view h1
  cases okk with
  | false => simp [bind, Except.bind, throw, throwThe, MonadExceptOf.throw] at h2
  | true =>
  simp only [Bool.not_true, Bool.false_eq_true, if_false, if_true, bind, Except.bind, pure, Except.pure] at h2
  have hl : l = none := by cases l <;> simp at hokk ⊢
  subst hl
  have hv1' := hv1 rfl
  -- the unlock
  obtain ⟨w3, h3, h4⟩ := Refine.bind_ok h2
  clear h2
  obtain ⟨l2, _, hk3, hv3⟩ := releaseLock_view h3
  have hctl1 : w1.ctl = w.ctl := hk1.1.2.1
  have htid1 : w1.tid = w.tid := hk1.2.1
  have hfuts1 : w1.futs = w.futs := hk1.1.2.2.2.1
  rw [hfuts1] at h4
  have hv3' : view4 w3 = { view4 w with futs := w.futs.modify f (fun s => { s with slot := false }) } := by
    rw [hv3, view4_modFut, hv1']
    show ({ view4 w with futs := w1.futs.modify f _, objs := (((view4 w).objs.set _ _).set _ _) } : View) = _
    rw [lock_unlock_objs hvo, hfuts1]
  have hctl3 : w3.ctl = w.ctl := congrArg View.ctl hv3'
  have htid3 : w3.tid = w.tid := hk3.2.1.trans htid1
  have hlen : w.ctl.length = w.exec.threads.threads.length := hR.lenCtl
  -- the registration
  have hGS : GS w.prog (w.futs.modify f fun s => { s with slot := false }) (nvOf (view4 w).objs)
      ((data4 s).futs.modify f retF) := by
    refine hR.f.s.step hf _ retF ⟨rfl, rfl⟩ ?_ (fun e => by cases e) (hR.f.s.kindA f hf) (hR.f.s.genLe f hf)
      (fun e => by cases e) ?_ (fun k nt ds hk => ⟨nt, ds, hk⟩)
    · show (retF _).slot = (false || (w.futs.getD f {}).awWaker)
      rw [hnoaw]; rfl
    · intro e
      have e' : (w.futs.getD f {}).awWaker = true := e
      rw [hnoaw] at e'; cases e'
  cases hhad : (w.futs.getD f {}).slot with
  | true =>
    -- a waker was registered: it is still to be dropped
    rw [hhad] at h4
    simp only [if_true] at h4
    have hs := branch_sched h4
    refine ⟨hs.fr.1.trans (hk3.1.1.trans hk1.1.1), ?_, hs.inRange⟩
    have hopc' : opOfCtl w.prog { w.ctlOf w.tid with stage := 43 } = some (.blockOn f 0) := hop
    refine bo_ret_core hwf hR hact hop (.inl hst) (.inl rfl) _ (fun c => { c with stage := 43 }) hGS rfl
      (fun e => ⟨e, rfl⟩) rfl (Nat.le_refl _) rfl ?_ ?_ ?_
    · intro h hr e1 e2
      refine hr.of rfl rfl rfl rfl rfl rfl rfl (by rw [hopc']; rfl) (by rw [hopc']; intro x hx; cases hx) ?_
      rw [hopc']
      show _ = (w.ctlOf w.tid).pc + 1 ∧ _ = ((w.ctlOf w.tid).pc, Ret.val 7) :: (w.ctlOf w.tid).results ∧ _ = 0
      rw [e1, e2]
      exact ⟨rfl, rfl, rfl⟩
    · show fattr w.prog { w.ctlOf w.tid with stage := 43 } = _
      simp only [fattr, inflS, pendN, callOf, aw25, hopc', phaseOfStage]; rfl
    · rw [hs.view, view4_setStage, hv3', hctl3, htid3]
  | false =>
    -- nothing was registered: the operation completes
    rw [hhad] at h4
    simp only [Bool.false_eq_true, if_false] at h4
    cases h4
    refine ⟨hk3.1.1.trans hk1.1.1, ?_,
      inRange_of (w := w) htid3 (Nat.le_of_eq (hk3.2.2.trans hk1.2.2).symm) (by rw [← hlen]; exact hact)⟩
    obtain ⟨e1, e2, e3, e4⟩ := fattr_stage0 w.prog (completeF (.val 7) (w.ctlOf w.tid)) rfl
    refine bo_ret_core hwf hR hact hop (.inl hst) (.inl rfl) _ (completeF (.val 7)) hGS rfl
      (fun e => ⟨e, rfl⟩) rfl (Nat.le_succ _) rfl ?_ ?_ ?_
    · intro h hr e1 e2
      refine hr.of rfl rfl rfl rfl rfl rfl rfl (stageOk_zero _) (by intro x _ h1; cases h1) ?_
      show match aheadOf _ 0 with | none => _ | some r => _
      rw [aheadOf_zero]
      show _ = (w.ctlOf w.tid).pc + 1 ∧ _ = ((w.ctlOf w.tid).pc, Ret.val 7) :: (w.ctlOf w.tid).results ∧ _ = phaseOf _ 0
      rw [e1, e2, phaseOf_zero]
      exact ⟨rfl, rfl, rfl⟩
    · simp only [fattr, e1, e2, e3, e4]
    · rw [view4_complete, hv3', hctl3, htid3]

/-- stage 44 (mode 1): the registration in the `AtomicWaker` is taken back under its mutex -/
theorem sim_blockOn44 (hwf : WF4 w.prog) (hR : R4 w s) (hact : w.tid < w.ctl.length) {f mode : Nat}
    (hop : opAt w = some (.blockOn f mode)) (hst : (w.ctlOf w.tid).stage = 44)
    (h : w.stepActive = .ok w') : Sim4 w s w' := by
  rw [stepActive_op hop] at h
  have h' : w.blockOnStage (w.ctlOf w.tid) f mode = .ok w' := by
    simp only [World.runOp] at h; exact h
  rw [blockOn_stage44 w _ f mode hst] at h'
  clear h
  obtain ⟨⟨w1, okk⟩, h1, h2⟩ := Refine.bind_ok h'
  clear h'
  have hopc : opOfCtl w.prog (w.ctlOf w.tid) = some (.blockOn f mode) := hop
  have hrel := rel4 hR hact
  -- the mode
  have hm1 : mode = 1 := by
    have := hrel.2.2.2.2.2.2.1
    rw [hopc, hst] at this
    have this' : (mode == 1) = true := this
    simpa using this'
  subst hm1
  obtain ⟨hf, hfa⟩ := fut_lt hwf hop rfl
  have hnoslot := noSlot hwf hR hop rfl (by decide)
  -- the lock
  obtain ⟨l, hvo, hokk, hk1, _, hv1⟩ := postAcquire_view h1
  cases okk with
  | false => simp [bind, Except.bind, throw, throwThe, MonadExceptOf.throw] at h2
  | true =>
  simp only [Bool.not_true, Bool.false_eq_true, if_false, if_true, bind, Except.bind, pure, Except.pure] at h2
  have hl : l = none := by cases l <;> simp at hokk ⊢
  subst hl
  have hv1' := hv1 rfl
  -- the unlock
  obtain ⟨w3, h3, h4⟩ := Refine.bind_ok h2
  clear h2
  obtain ⟨l2, _, hk3, hv3⟩ := releaseLock_view h3
  have hctl1 : w1.ctl = w.ctl := hk1.1.2.1
  have htid1 : w1.tid = w.tid := hk1.2.1
  have hfuts1 : w1.futs = w.futs := hk1.1.2.2.2.1
  rw [hfuts1] at h4
  have hv3' : view4 w3 = { view4 w with futs := w.futs.modify f (fun s => { s with awWaker := false }) } := by
    rw [hv3, view4_modFut, hv1']
    show ({ view4 w with futs := w1.futs.modify f _, objs := (((view4 w).objs.set _ _).set _ _) } : View) = _
    rw [lock_unlock_objs hvo, hfuts1]
  have hctl3 : w3.ctl = w.ctl := congrArg View.ctl hv3'
  have htid3 : w3.tid = w.tid := hk3.2.1.trans htid1
  have hlen : w.ctl.length = w.exec.threads.threads.length := hR.lenCtl
  -- the registration
  have hGS : GS w.prog (w.futs.modify f fun s => { s with awWaker := false }) (nvOf (view4 w).objs)
      ((data4 s).futs.modify f retF) := by
    refine hR.f.s.step hf _ retF ⟨rfl, rfl⟩ ?_ (hR.f.s.kindS f hf) (fun e => by cases e) (hR.f.s.genLe f hf)
      ?_ (fun e => by cases e) (fun k nt ds hk => ⟨nt, ds, hk⟩)
    · show (retF _).slot = ((w.futs.getD f {}).slot || false)
      rw [hnoslot]; rfl
    · intro e
      have e' : (w.futs.getD f {}).slot = true := e
      rw [hnoslot] at e'; cases e'
  cases hhad : (w.futs.getD f {}).awWaker with
  | true =>
    -- a waker was registered: it is still to be dropped
    rw [hhad] at h4
    simp only [if_true] at h4
    have hs := branch_sched h4
    refine ⟨hs.fr.1.trans (hk3.1.1.trans hk1.1.1), ?_, hs.inRange⟩
    have hopc' : opOfCtl w.prog { w.ctlOf w.tid with taken := (w.futs.getD f {}).awArc, stage := 46 } =
        some (.blockOn f 1) := hop
    refine bo_ret_core hwf hR hact hop (.inr hst) (.inr rfl) _
      (fun c => { c with taken := (w.futs.getD f {}).awArc, stage := 46 }) hGS hnoslot
      (fun e => by cases e) rfl (Nat.le_refl _) rfl ?_ ?_ ?_
    · intro h hr e1 e2
      refine hr.of rfl rfl rfl rfl rfl rfl rfl (by rw [hopc']; rfl) (by rw [hopc']; intro x hx; cases hx) ?_
      rw [hopc']
      show _ = (w.ctlOf w.tid).pc + 1 ∧ _ = ((w.ctlOf w.tid).pc, Ret.val 7) :: (w.ctlOf w.tid).results ∧ _ = 0
      rw [e1, e2]
      exact ⟨rfl, rfl, rfl⟩
    · show fattr w.prog { w.ctlOf w.tid with taken := _, stage := 46 } = _
      simp only [fattr, inflS, pendN, callOf, aw25, hopc', phaseOfStage]; rfl
    · have hv4 : view4 (w3.modCtl w3.tid fun c => { c with taken := (w.futs.getD f {}).awArc }) =
          { view4 w with
            ctl := w.ctl.modify w.tid (fun c => { c with taken := (w.futs.getD f {}).awArc }),
            futs := w.futs.modify f (fun s => { s with awWaker := false }) } := by
        rw [view4_modCtl, hv3', hctl3, htid3]
      have hctl4 : (w3.modCtl w3.tid fun c => { c with taken := (w.futs.getD f {}).awArc }).ctl =
          w.ctl.modify w.tid (fun c => { c with taken := (w.futs.getD f {}).awArc }) := congrArg View.ctl hv4
      rw [hs.view, view4_setStage, hv4, hctl4]
      show ({ view4 w with ctl := (w.ctl.modify w.tid _).modify w3.tid _, futs := _ } : View) = _
      rw [htid3, modify_modify']
  | false =>
    -- nothing was registered: the operation completes
    rw [hhad] at h4
    simp only [Bool.false_eq_true, if_false] at h4
    cases h4
    refine ⟨hk3.1.1.trans hk1.1.1, ?_,
      inRange_of (w := w) htid3 (Nat.le_of_eq (hk3.2.2.trans hk1.2.2).symm) (by rw [← hlen]; exact hact)⟩
    obtain ⟨e1, e2, e3, e4⟩ := fattr_stage0 w.prog (completeF (.val 7) (w.ctlOf w.tid)) rfl
    refine bo_ret_core hwf hR hact hop (.inr hst) (.inr rfl) _ (completeF (.val 7)) hGS hnoslot
      (fun e => by cases e) rfl (Nat.le_succ _) rfl ?_ ?_ ?_
    · intro h hr e1 e2
      refine hr.of rfl rfl rfl rfl rfl rfl rfl (stageOk_zero _) (by intro x _ h1; cases h1) ?_
      show match aheadOf _ 0 with | none => _ | some r => _
      rw [aheadOf_zero]
      show _ = (w.ctlOf w.tid).pc + 1 ∧ _ = ((w.ctlOf w.tid).pc, Ret.val 7) :: (w.ctlOf w.tid).results ∧ _ = phaseOf _ 0
      rw [e1, e2, phaseOf_zero]
      exact ⟨rfl, rfl, rfl⟩
    · simp only [fattr, e1, e2, e3, e4]
    · rw [view4_complete, hv3', hctl3, htid3]

end

end Refine4
end LoomVerif

/-
C08, `thread::park` / `unpark`: the decision tables of `Thread.setUnparked`, `World.parkNow`,
`Threads.unpark`, and the unparker → target ordering.
-/
import LoomVerif.Proofs.C08Notify

namespace LoomVerif
namespace C08
open C12 Sy C07

/-! ### `Thread::set_unparked` -/

/-- a thread blocked in `park` is woken: `runnable`, no longer `parked`, and it ACQUIRES what the unparkers
had done (`acquire_unpark`: `unparkCaus` is joined into `causality` and reset); the token field is not
touched -/
theorem setUnparked_parked {t : Thread} (h : t.parked = true) :
    t.setUnparked = { t with state := .runnable, parked := false,
                             causality := t.causality.join t.unparkCaus, unparkCaus := VV.zero } := by
  simp [Thread.setUnparked, Thread.setRunnable, Thread.acquireUnpark, h]

/-- any other live thread — running, yielded, blocked on a lock / join / receive / notify-wait / condvar —
keeps its state and stores the token, whether or not it already had one; its causality is NOT touched -/
theorem setUnparked_live {t : Thread} (hp : t.parked = false) (h : t.state ≠ .terminated) :
    t.setUnparked = { t with token := true } := by
  have : t.isTerminated = false := by
    unfold Thread.isTerminated
    cases hs : t.state <;> first | rfl | exact absurd hs h
  simp [Thread.setUnparked, hp, this]

theorem setUnparked_terminated {t : Thread} (hp : t.parked = false) (h : t.state = .terminated) :
    t.setUnparked = t := by
  simp [Thread.setUnparked, Thread.isTerminated, hp, h]

/-- `set_unparked` touches nothing but `state`, `parked`, `token` and (when it wakes a parked thread) the pair
`causality` / `unparkCaus` -/
theorem setUnparked_fields (t : Thread) :
    t.setUnparked = { t with state := t.setUnparked.state, parked := t.setUnparked.parked,
                             token := t.setUnparked.token, causality := t.setUnparked.causality,
                             unparkCaus := t.setUnparked.unparkCaus } := by
  unfold Thread.setUnparked
  split
  · rfl
  · split <;> rfl

/-- `set_unparked` changes the state only of a thread blocked in `park` -/
theorem setUnparked_state_ne {t : Thread} (h : t.setUnparked.state ≠ t.state) : t.parked = true := by
  cases hp : t.parked with
  | true => rfl
  | false =>
    exfalso; apply h
    unfold Thread.setUnparked
    rw [hp]
    simp only [Bool.false_eq_true, if_false]
    split <;> rfl

/-- a thread that is not parked keeps its state, its causality and its stored unpark causality -/
theorem setUnparked_state_of_not_parked {t : Thread} (hp : t.parked = false) :
    t.setUnparked.state = t.state ∧ t.setUnparked.parked = false ∧
    t.setUnparked.token = (t.token || !t.isTerminated) := by
  unfold Thread.setUnparked
  rw [hp]
  simp only [Bool.false_eq_true, if_false]
  cases ht : t.isTerminated <;> simp [hp]

theorem setUnparked_caus_of_not_parked {t : Thread} (hp : t.parked = false) :
    t.setUnparked.causality = t.causality ∧ t.setUnparked.unparkCaus = t.unparkCaus := by
  unfold Thread.setUnparked
  rw [hp]
  simp only [Bool.false_eq_true, if_false]
  split <;> exact ⟨rfl, rfl⟩

/-- `Thread::unpark` of a thread that is NOT blocked in `park`: its causality is unchanged; the unparker's
causality is only stored (`unparkCaus`) — repair of finding F17 -/
theorem unpark_causality_not_parked {t : Thread} (u : Thread) (hp : t.parked = false) :
    (t.unpark u).causality = t.causality ∧
    (t.unpark u).unparkCaus = t.unparkCaus.join u.causality := by
  unfold Thread.unpark
  exact setUnparked_caus_of_not_parked (t := { t with unparkCaus := t.unparkCaus.join u.causality }) hp

/-- `Thread::unpark` of a thread blocked in `park`: it is woken and acquires everything stored, the unparker's
causality included -/
theorem unpark_causality_parked {t : Thread} (u : Thread) (hp : t.parked = true) :
    (t.unpark u).causality = t.causality.join (t.unparkCaus.join u.causality) ∧
    (t.unpark u).unparkCaus = VV.zero := by
  unfold Thread.unpark
  rw [setUnparked_parked (t := { t with unparkCaus := t.unparkCaus.join u.causality }) hp]
  exact ⟨rfl, rfl⟩

/-- in either case nothing the target knew is lost, and the unparker's causality is in `causality ⊔ unparkCaus` -/
theorem unpark_causality_le (t u : Thread) :
    t.causality.le (t.unpark u).causality ∧
    u.causality.le ((t.unpark u).causality.join (t.unpark u).unparkCaus) := by
  cases hp : t.parked with
  | false =>
    obtain ⟨h1, h2⟩ := unpark_causality_not_parked u hp
    rw [h1, h2]
    exact ⟨VV.le_refl _, VV.le_trans (VV.le_join_right _ _) (VV.le_join_right _ _)⟩
  | true =>
    obtain ⟨h1, h2⟩ := unpark_causality_parked u hp
    rw [h1, h2]
    exact ⟨VV.le_join_left _ _,
      VV.le_trans (VV.le_trans (VV.le_join_right _ _) (VV.le_join_right _ _)) (VV.le_join_left _ _)⟩

theorem unpark_state (t u : Thread) : (t.unpark u).state = t.setUnparked.state := by
  unfold Thread.unpark Thread.setUnparked Thread.isTerminated
  simp only
  split
  · rfl
  · split <;> rfl

theorem unpark_parked (t u : Thread) : (t.unpark u).parked = t.setUnparked.parked := by
  unfold Thread.unpark Thread.setUnparked Thread.isTerminated
  simp only
  split
  · rfl
  · split <;> rfl

theorem unpark_token (t u : Thread) : (t.unpark u).token = t.setUnparked.token := by
  unfold Thread.unpark Thread.setUnparked Thread.isTerminated
  simp only
  split
  · rfl
  · split <;> rfl

/-! ### `Thread::acquire_unpark`, `Set::wake` on one thread -/

/-- `acquire_unpark` touches nothing but `causality` and `unparkCaus` -/
theorem acquireUnpark_eq (t : Thread) :
    t.acquireUnpark = { t with causality := t.causality.join t.unparkCaus, unparkCaus := VV.zero } := rfl

/-- `Thread.wakeFrom`, the decision table: the waker's causality is joined in any case; a thread that blocked
itself with `rt::block` (blocked, not parked) becomes runnable; any other thread keeps its state -/
theorem wakeFrom_blocked {t u : Thread} (hb : t.state = .blocked) (hp : t.parked = false) :
    t.wakeFrom u = { t with state := .runnable, parked := false,
                            causality := t.causality.join u.causality } := by
  simp [Thread.wakeFrom, Thread.isBlocked, Thread.setRunnable, hb, hp]

theorem wakeFrom_other {t u : Thread} (h : t.state ≠ .blocked ∨ t.parked = true) :
    t.wakeFrom u = { t with causality := t.causality.join u.causality } := by
  unfold Thread.wakeFrom Thread.isBlocked
  rcases h with h | h
  · have : (t.state == TState.blocked) = false := by
      cases hs : t.state <;> first | rfl | exact absurd hs h
    simp [this]
  · simp [h]

theorem wakeFrom_token (t u : Thread) : (t.wakeFrom u).token = t.token := by
  unfold Thread.wakeFrom
  simp only
  split <;> rfl

theorem wakeFrom_causality (t u : Thread) :
    (t.wakeFrom u).causality = t.causality.join u.causality := by
  unfold Thread.wakeFrom
  simp only
  split <;> rfl

theorem wakeFrom_unparkCaus (t u : Thread) : (t.wakeFrom u).unparkCaus = t.unparkCaus := by
  unfold Thread.wakeFrom
  simp only
  split <;> rfl

/-! ### `rt::park` -/

/-- a stored token is consumed: `token := false` and the stored unpark causality is acquired
(`acquire_unpark`); nothing else of the thread changes, `schedule` is NOT called (no branch point: path, objects
and all other threads are unchanged) -/
theorem parkNow_token {w : World} (h : w.ths.activeT.token = true) :
    w.parkNow = .ok (w.setThs (w.ths.modifyActive fun th =>
      ({ th with token := false }).acquireUnpark)) := by
  unfold World.parkNow
  rw [h]
  rfl

/-- no token: the thread is blocked in `park` (`set_parked`), its pending operation cleared, and the
scheduler runs -/
theorem parkNow_block {w : World} (h : w.ths.activeT.token = false) :
    w.parkNow = (do
      let (e, _) ← ({ w.exec with threads :=
          (w.ths.modifyActive fun th => { th.setParked with operation := none }) }).schedule
            w.panicking
      pure { w with exec := e }) := by
  unfold World.parkNow
  rw [h]
  rfl

/-- `rt::block`: whatever the token says, the thread blocks itself (NOT `parked`), its pending operation
cleared, and the scheduler runs -/
theorem blockNow_eq (w : World) :
    w.blockNow = (do
      let (e, _) ← ({ w.exec with threads :=
          (w.ths.modifyActive fun th => { th.setBlocked with operation := none }) }).schedule
            w.panicking
      pure { w with exec := e }) := rfl

/-! ### `Set::unpark` -/

theorem unpark_other {s : Threads} {id : Nat} (h : id ≠ s.activeId) :
    s.unpark id = s.modify id fun t => t.unpark s.activeT := by
  simp [Threads.unpark, h]

theorem unpark_self (s : Threads) : s.unpark s.activeId = s.modifyActive Thread.setUnparked := by
  simp [Threads.unpark]

theorem get_modify_self (s : Threads) (i : Nat) (f : Thread → Thread) (h : i < s.threads.length) :
    (s.modify i f).get i = f (s.get i) := by
  simp [Threads.modify, Threads.get, List.getD, h]

theorem get_modify_ne (s : Threads) (i j : Nat) (f : Thread → Thread) (h : j ≠ i) :
    (s.modify i f).get j = s.get j := by
  have : ¬ i = j := fun e => h e.symm
  simp [Threads.modify, Threads.get, List.getD, this]

/-- unparking another thread: its state follows the `set_unparked` table, nothing it knew is lost, and the
unparker's causality is in its `causality ⊔ unparkCaus` (in `causality` only if it was blocked in `park`); nobody
else changes -/
theorem unpark_other_get {s : Threads} {id : Nat} (h : id ≠ s.activeId)
    (hin : id < s.threads.length) :
    (s.unpark id).get id = (s.get id).unpark s.activeT ∧
    s.caus.le (((s.unpark id).get id).causality.join ((s.unpark id).get id).unparkCaus) ∧
    (∀ j, j ≠ id → (s.unpark id).get j = s.get j) := by
  rw [unpark_other h]
  refine ⟨get_modify_self _ _ _ hin, ?_, fun j hj => get_modify_ne _ _ _ _ hj⟩
  rw [get_modify_self _ _ _ hin]
  exact (unpark_causality_le _ _).2

/-! ### `Set::wake` -/

theorem wake_other {s : Threads} {id : Nat} (h : id ≠ s.activeId) :
    s.wake id = s.modify id fun t => t.wakeFrom s.activeT := by
  simp [Threads.wake, h]

theorem wake_self (s : Threads) : s.wake s.activeId = s := by
  simp [Threads.wake]

/-- waking another thread: its entry is `wakeFrom` the waker; nobody else changes -/
theorem wake_other_get {s : Threads} {id : Nat} (h : id ≠ s.activeId)
    (hin : id < s.threads.length) :
    (s.wake id).get id = (s.get id).wakeFrom s.activeT ∧
    s.caus.le ((s.wake id).get id).causality ∧
    (∀ j, j ≠ id → (s.wake id).get j = s.get j) := by
  rw [wake_other h]
  refine ⟨get_modify_self _ _ _ hin, ?_, fun j hj => get_modify_ne _ _ _ _ hj⟩
  rw [get_modify_self _ _ _ hin, wakeFrom_causality]
  exact VV.le_join_right _ _

/-- the target of `Set::unpark` (whether it is the active thread or another one): its `state`, `parked`,
`token` follow the `set_unparked` table -/
theorem unpark_get_fields (s : Threads) (id : Nat) (hin : id < s.threads.length) :
    ((s.unpark id).get id).state = (s.get id).setUnparked.state ∧
    ((s.unpark id).get id).parked = (s.get id).setUnparked.parked ∧
    ((s.unpark id).get id).token = (s.get id).setUnparked.token := by
  by_cases h : id = s.activeId
  · subst h
    rw [unpark_self]
    unfold Threads.modifyActive
    rw [get_modify_self _ _ _ hin]
    exact ⟨rfl, rfl, rfl⟩
  · rw [(unpark_other_get h hin).1]
    exact ⟨unpark_state _ _, unpark_parked _ _, unpark_token _ _⟩

end C08
end LoomVerif

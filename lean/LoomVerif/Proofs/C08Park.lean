/-
C08, `thread::park` / `unpark`: the decision tables of `Thread.setUnparked`, `World.parkNow`,
`Threads.unpark`, and the unparker → target ordering.
-/
import LoomVerif.Proofs.C08Notify

namespace LoomVerif
namespace C08
open C12 Sy C07

/-! ### `Thread::set_unparked` -/

/-- a thread blocked in `park` is woken: `runnable`, no longer `parked`; the token field is not
touched -/
theorem setUnparked_parked {t : Thread} (h : t.parked = true) :
    t.setUnparked = { t with state := .runnable, parked := false } := by
  simp [Thread.setUnparked, Thread.setRunnable, h]

/-- any other live thread — running, yielded, blocked on a lock / join / receive / notify-wait — keeps
its state and stores the token, whether or not it already had one -/
theorem setUnparked_live {t : Thread} (hp : t.parked = false) (h : t.state ≠ .terminated) :
    t.setUnparked = { t with token := true } := by
  have : t.isTerminated = false := by
    unfold Thread.isTerminated
    cases hs : t.state <;> first | rfl | exact absurd hs h
  simp [Thread.setUnparked, hp, this]

theorem setUnparked_terminated {t : Thread} (hp : t.parked = false) (h : t.state = .terminated) :
    t.setUnparked = t := by
  simp [Thread.setUnparked, Thread.isTerminated, hp, h]

/-- `set_unparked` touches nothing but `state`, `parked` and `token` -/
theorem setUnparked_fields (t : Thread) :
    t.setUnparked = { t with state := t.setUnparked.state, parked := t.setUnparked.parked,
                             token := t.setUnparked.token } := by
  unfold Thread.setUnparked
  split
  · rfl
  · split <;> rfl

/-- `set_unparked` changes the state only of a thread blocked in `park` -/
theorem setUnparked_state_ne {t : Thread} (h : t.setUnparked.state ≠ t.state) : t.parked = true := by
  cases hp : t.parked with
  | true => rfl
  | false =>
    exfalso; apply h
    unfold Thread.setUnparked
    rw [hp]
    simp only [Bool.false_eq_true, if_false]
    split <;> rfl

/-- a thread that is not parked keeps its state -/
theorem setUnparked_state_of_not_parked {t : Thread} (hp : t.parked = false) :
    t.setUnparked.state = t.state ∧ t.setUnparked.parked = false ∧
    t.setUnparked.token = (t.token || !t.isTerminated) := by
  unfold Thread.setUnparked
  rw [hp]
  simp only [Bool.false_eq_true, if_false]
  cases ht : t.isTerminated <;> simp [hp]

/-- `Thread::unpark`: the target's causality is joined with the unparker's -/
theorem unpark_causality (t u : Thread) : (t.unpark u).causality = t.causality.join u.causality := by
  unfold Thread.unpark
  rw [setUnparked_fields]

theorem unpark_state (t u : Thread) : (t.unpark u).state = t.setUnparked.state := by
  unfold Thread.unpark Thread.setUnparked Thread.isTerminated
  simp only
  split
  · rfl
  · split <;> rfl

theorem unpark_parked (t u : Thread) : (t.unpark u).parked = t.setUnparked.parked := by
  unfold Thread.unpark Thread.setUnparked Thread.isTerminated
  simp only
  split
  · rfl
  · split <;> rfl

theorem unpark_token (t u : Thread) : (t.unpark u).token = t.setUnparked.token := by
  unfold Thread.unpark Thread.setUnparked Thread.isTerminated
  simp only
  split
  · rfl
  · split <;> rfl

/-! ### `rt::park` -/

/-- a stored token is consumed: `token := false`, nothing else of the thread changes, `schedule` is NOT
called (no branch point: path, objects and all other threads are unchanged) -/
theorem parkNow_token {w : World} (h : w.ths.activeT.token = true) :
    w.parkNow = .ok (w.setThs (w.ths.modifyActive fun th => { th with token := false })) := by
  unfold World.parkNow
  rw [h]
  rfl

/-- no token: the thread is blocked in `park` (`set_parked`), its pending operation cleared, and the
scheduler runs -/
theorem parkNow_block {w : World} (h : w.ths.activeT.token = false) :
    w.parkNow = (do
      let (e, _) ← ({ w.exec with threads :=
          (w.ths.modifyActive fun th => { th.setParked with operation := none }) }).schedule
            w.panicking
      pure { w with exec := e }) := by
  unfold World.parkNow
  rw [h]
  rfl

/-! ### `Set::unpark` -/

theorem unpark_other {s : Threads} {id : Nat} (h : id ≠ s.activeId) :
    s.unpark id = s.modify id fun t => t.unpark s.activeT := by
  simp [Threads.unpark, h]

theorem unpark_self (s : Threads) : s.unpark s.activeId = s.modifyActive Thread.setUnparked := by
  simp [Threads.unpark]

theorem get_modify_self (s : Threads) (i : Nat) (f : Thread → Thread) (h : i < s.threads.length) :
    (s.modify i f).get i = f (s.get i) := by
  simp [Threads.modify, Threads.get, List.getD, h]

theorem get_modify_ne (s : Threads) (i j : Nat) (f : Thread → Thread) (h : j ≠ i) :
    (s.modify i f).get j = s.get j := by
  have : ¬ i = j := fun e => h e.symm
  simp [Threads.modify, Threads.get, List.getD, this]

/-- unparking another thread: its causality rises above the unparker's, its state follows the
`set_unparked` table; nobody else changes -/
theorem unpark_other_get {s : Threads} {id : Nat} (h : id ≠ s.activeId)
    (hin : id < s.threads.length) :
    (s.unpark id).get id = (s.get id).unpark s.activeT ∧
    s.caus.le ((s.unpark id).get id).causality ∧
    (∀ j, j ≠ id → (s.unpark id).get j = s.get j) := by
  rw [unpark_other h]
  refine ⟨get_modify_self _ _ _ hin, ?_, fun j hj => get_modify_ne _ _ _ _ hj⟩
  rw [get_modify_self _ _ _ hin, unpark_causality]
  exact VV.le_join_right _ _

/-- the target of `Set::unpark` (whether it is the active thread or another one): its `state`, `parked`,
`token` follow the `set_unparked` table -/
theorem unpark_get_fields (s : Threads) (id : Nat) (hin : id < s.threads.length) :
    ((s.unpark id).get id).state = (s.get id).setUnparked.state ∧
    ((s.unpark id).get id).parked = (s.get id).setUnparked.parked ∧
    ((s.unpark id).get id).token = (s.get id).setUnparked.token := by
  by_cases h : id = s.activeId
  · subst h
    rw [unpark_self]
    unfold Threads.modifyActive
    rw [get_modify_self _ _ _ hin]
    exact ⟨rfl, rfl, rfl⟩
  · rw [(unpark_other_get h hin).1]
    exact ⟨unpark_state _ _, unpark_parked _ _, unpark_token _ _⟩

end C08
end LoomVerif

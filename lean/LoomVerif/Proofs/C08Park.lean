/-
C08, `thread::park` / `unpark`: the decision tables of `Thread.setUnparked`, `World.parkNow`,
`Threads.unpark`, and the unparker → target ordering.
-/
import LoomVerif.Proofs.C08Notify

namespace LoomVerif
namespace C08
open C12 Sy C07

/-! ### `Thread::set_unparked` -/

theorem setUnparked_blocked {t : Thread} (h : t.state = .blocked) :
    t.setUnparked = { t with state := .runnable false } := by
  simp [Thread.setUnparked, Thread.isBlocked, Thread.setRunnable, h]

theorem setUnparked_yield {t : Thread} (h : t.state = .yield) :
    t.setUnparked = { t with state := .runnable false } := by
  simp [Thread.setUnparked, Thread.isBlocked, Thread.isYield, Thread.setRunnable, h]

/-- a runnable thread stores the token, whether or not it already had one -/
theorem setUnparked_runnable {t : Thread} {b : Bool} (h : t.state = .runnable b) :
    t.setUnparked = { t with state := .runnable true } := by
  simp [Thread.setUnparked, Thread.isBlocked, Thread.isYield, Thread.isRunnable, h]

theorem setUnparked_terminated {t : Thread} (h : t.state = .terminated) : t.setUnparked = t := by
  simp [Thread.setUnparked, Thread.isBlocked, Thread.isYield, Thread.isRunnable, h]

/-- `set_unparked` touches nothing but the state -/
theorem setUnparked_fields (t : Thread) :
    t.setUnparked = { t with state := t.setUnparked.state } := by
  unfold Thread.setUnparked
  split
  · rfl
  · split <;> rfl

/-- `Thread::unpark`: the target's causality is joined with the unparker's -/
theorem unpark_causality (t u : Thread) : (t.unpark u).causality = t.causality.join u.causality := by
  unfold Thread.unpark
  rw [setUnparked_fields]

theorem unpark_state (t u : Thread) : (t.unpark u).state = t.setUnparked.state := by
  unfold Thread.unpark Thread.setUnparked Thread.isBlocked Thread.isYield Thread.isRunnable
  simp only
  split
  · rfl
  · split <;> rfl

/-! ### `rt::park` -/

/-- a stored token is consumed: the state goes back to `runnable false`, `schedule` is NOT called
(no branch point: path, objects and all other threads are unchanged) -/
theorem parkNow_token {w : World} (h : w.ths.activeT.state = .runnable true) :
    w.parkNow = .ok (w.setThs (w.ths.modifyActive Thread.setRunnable)) := by
  unfold World.parkNow
  rw [h]
  rfl

/-- no token: the thread is blocked, its pending operation cleared, and the scheduler runs -/
theorem parkNow_block {w : World} (h : w.ths.activeT.state ≠ .runnable true) :
    w.parkNow = (do
      let (e, _) ← ({ w.exec with threads :=
          (w.ths.modifyActive fun th => { th.setBlocked with operation := none }) }).schedule
            w.panicking
      pure { w with exec := e }) := by
  unfold World.parkNow
  split
  · next h' => exact absurd h' h
  · rfl

/-! ### `Set::unpark` -/

theorem unpark_other {s : Threads} {id : Nat} (h : id ≠ s.activeId) :
    s.unpark id = s.modify id fun t => t.unpark s.activeT := by
  simp [Threads.unpark, h]

theorem unpark_self (s : Threads) : s.unpark s.activeId = s.modifyActive Thread.setUnparked := by
  simp [Threads.unpark]

theorem get_modify_self (s : Threads) (i : Nat) (f : Thread → Thread) (h : i < s.threads.length) :
    (s.modify i f).get i = f (s.get i) := by
  simp [Threads.modify, Threads.get, List.getD, h]

theorem get_modify_ne (s : Threads) (i j : Nat) (f : Thread → Thread) (h : j ≠ i) :
    (s.modify i f).get j = s.get j := by
  have : ¬ i = j := fun e => h e.symm
  simp [Threads.modify, Threads.get, List.getD, this]

/-- unparking another thread: its causality rises above the unparker's, its state follows the
`set_unparked` table; nobody else changes -/
theorem unpark_other_get {s : Threads} {id : Nat} (h : id ≠ s.activeId)
    (hin : id < s.threads.length) :
    (s.unpark id).get id = (s.get id).unpark s.activeT ∧
    s.caus.le ((s.unpark id).get id).causality ∧
    (∀ j, j ≠ id → (s.unpark id).get j = s.get j) := by
  rw [unpark_other h]
  refine ⟨get_modify_self _ _ _ hin, ?_, fun j hj => get_modify_ne _ _ _ _ hj⟩
  rw [get_modify_self _ _ _ hin, unpark_causality]
  exact VV.le_join_right _ _

end C08
end LoomVerif

/-
C08 / C07 / C09, the four release sites (`Mutex::release_lock`, `RwLock::release_read_lock`,
`RwLock::release_write_lock`, the send into an empty channel): since the repair of finding F18 they wake the
threads pending on the released object through `Thread.wake`, which touches BLOCKED threads only.  A thread
that is not blocked keeps its entry, and a woken thread keeps its `park` token (`Thread.token`, a field of its
own since the repair of findings F5/F6: no release site, no acquisition and no `notify` ever changes it).
-/
import LoomVerif.Proofs.WorldBasics
import LoomVerif.Proofs.C08Only

namespace LoomVerif
namespace C08
open WB

theorem wake_of_not_blocked {t : Thread} (h : t.state ≠ .blocked) : t.wake = t := by
  simp [Thread.wake, Thread.isBlocked, h]

theorem wake_of_blocked {t : Thread} (h : t.state = .blocked) :
    t.wake = { t with state := .runnable, parked := false } := by
  simp [Thread.wake, Thread.isBlocked, Thread.setRunnable, h]

/-- `Thread.wake`, `set_runnable`, `set_blocked` never touch the token -/
theorem wake_token (t : Thread) : t.wake.token = t.token := by
  unfold Thread.wake; split <;> rfl
theorem setRunnable_token (t : Thread) : t.setRunnable.token = t.token := rfl
theorem setBlocked_token (t : Thread) : t.setBlocked.token = t.token := rfl

/-- `forOthers p f` with `f` keeping the token keeps every thread's token -/
theorem forOthers_token (w : World) (p : Operation → Bool) (f : Thread → Thread)
    (hf : ∀ t, (f t).token = t.token) (i : Nat) :
    ((w.forOthers p f).ths.get i).token = (w.ths.get i).token := by
  rw [forOthers_get]
  split
  · rfl
  · split
    · split
      · exact hf _
      · rfl
    · rfl

/-- `forOthers … Thread.wake` leaves every thread that is not blocked alone -/
theorem forOthers_wake_get (w : World) (p : Operation → Bool) (i : Nat)
    (h : (w.ths.get i).state ≠ .blocked) :
    (w.forOthers p Thread.wake).ths.get i = w.ths.get i := by
  rw [forOthers_get]
  split
  · rfl
  · split
    · split
      · exact wake_of_not_blocked h
      · rfl
    · rfl

/-- … and makes a blocked thread other than the active one whose pending operation satisfies `p`
`runnable` (and no longer `parked`) -/
theorem forOthers_wake_blocked (w : World) (p : Operation → Bool) (i : Nat) (op : Operation)
    (hi : i ≠ w.tid) (hop : (w.ths.get i).operation = some op) (hp : p op = true)
    (h : (w.ths.get i).state = .blocked) :
    (w.forOthers p Thread.wake).ths.get i =
      { w.ths.get i with state := .runnable, parked := false } := by
  rw [forOthers_get, if_neg hi]
  split
  · next op' hop' =>
    rw [hop] at hop'; cases hop'
    rw [if_pos hp]
    exact wake_of_blocked h
  · next hn => rw [hop] at hn; cases hn

theorem releaseLock_keeps_unblocked {w w' : World} {o i : Nat}
    (hb : (w.ths.get i).state ≠ .blocked) (h : w.releaseLock o = .ok w') :
    w'.ths.get i = w.ths.get i := by
  unfold World.releaseLock at h
  simp only [bind, Except.bind, pure, Except.pure] at h
  split at h
  · cases h
  · split at h
    · cases h; rfl
    · cases h
      exact forOthers_wake_get _ _ i hb

theorem releaseRead_keeps_unblocked {w w' : World} {o i : Nat}
    (hb : (w.ths.get i).state ≠ .blocked) (h : w.releaseRead o = .ok w') :
    w'.ths.get i = w.ths.get i := by
  unfold World.releaseRead at h
  simp only [bind, Except.bind, pure, Except.pure] at h
  split at h
  · cases h
  · split at h
    · split at h
      · cases h
        exact forOthers_wake_get _ _ i hb
      · cases h; rfl
    · cases h

theorem releaseWrite_keeps_unblocked {w w' : World} {o i : Nat}
    (hb : (w.ths.get i).state ≠ .blocked) (h : w.releaseWrite o = .ok w') :
    w'.ths.get i = w.ths.get i := by
  unfold World.releaseWrite at h
  simp only [bind, Except.bind, pure, Except.pure] at h
  split at h
  · cases h
  · cases h
    exact forOthers_wake_get _ _ i hb

theorem sendEffect_keeps_unblocked {w w' : World} {o i : Nat} {v : Int}
    (hb : (w.ths.get i).state ≠ .blocked) (h : w.sendEffect o v = .ok w') :
    w'.ths.get i = w.ths.get i := by
  unfold World.sendEffect at h
  simp only [bind, Except.bind, pure, Except.pure] at h
  split at h
  · cases h
  · split at h
    · cases h
      exact forOthers_wake_get _ _ i hb
    · cases h; rfl

end C08
end LoomVerif

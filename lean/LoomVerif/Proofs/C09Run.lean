/-
C09, histories of one channel: the log of a run, the FIFO invariant and the clock invariant, and
their preservation by `chanSend` / `chanRecv` / the scheduler's `set_last_access`.
-/
import LoomVerif.Proofs.C09Chan

namespace LoomVerif
namespace C09
open World WB C12

/-- what happened on one channel, in the order the effects took place -/
structure ChanLog where
  /-- every send: the value and the sender's causality at the send -/
  sent : List (Int × VV) := []
  /-- the clock stored with the k-th message (`receiver_synchronize` entry pushed by send k) -/
  stamps : List VV := []
  /-- every successful receive: the value obtained and the receiver's causality afterwards -/
  recvd : List (Int × VV) := []

def ChanLog.send (l : ChanLog) (v : Int) (caus stamp : VV) : ChanLog :=
  { l with sent := l.sent ++ [(v, caus)], stamps := l.stamps ++ [stamp] }

def ChanLog.recv (l : ChanLog) (v : Int) (caus : VV) : ChanLog :=
  { l with recvd := l.recvd ++ [(v, caus)] }

theorem getElem?_concat {α} (l : List α) (x y : α) (k : Nat) :
    (l ++ [x])[k]? = some y ↔ l[k]? = some y ∨ (k = l.length ∧ x = y) := by
  rw [List.getElem?_append]
  split
  · next h =>
    constructor
    · intro h'; exact Or.inl h'
    · rintro (h' | ⟨h', _⟩)
      · exact h'
      · omega
  · next h =>
    have hn : l[k]? = none := List.getElem?_eq_none (by omega)
    rw [hn]
    by_cases hk : k = l.length
    · subst hk; simp
    · have : k - l.length ≠ 0 := by omega
      cases hkl : k - l.length with
      | zero => omega
      | succ n => simp [hk]

/-! ### FIFO -/

/-- the values received so far, followed by the queue, are the values sent so far -/
def FifoInv (s : ChanSt) (log : ChanLog) : Prop :=
  ChanInv s ∧ log.sent.map (·.1) = log.recvd.map (·.1) ++ s.queue

theorem FifoInv.fresh : FifoInv {} {} := ⟨ChanInv.fresh, rfl⟩

theorem FifoInv.send {s : ChanSt} {log : ChanLog} (h : FifoInv s log) (released caus : VV)
    (v : Int) (stamp : VV) :
    FifoInv (chanSend s released caus v) (log.send v caus stamp) := by
  refine ⟨h.1.send _ _ _, ?_⟩
  simp [ChanLog.send, chanSend, h.2]

theorem FifoInv.recv {s : ChanSt} {log : ChanLog} (h : FifoInv s log) (v : Int) (caus : VV)
    (hq : s.queue = v :: (chanRecv s).queue) :
    FifoInv (chanRecv s) (log.recv v caus) := by
  refine ⟨h.1.recv, ?_⟩
  have := h.2
  rw [hq] at this
  simp [ChanLog.recv, this]

theorem FifoInv.access {s : ChanSt} {log : ChanLog} (h : FifoInv s log) (act : Action) (pid : Nat)
    (v : VV) : FifoInv (s.setLastAccess act pid v) log := by
  cases act <;> exact h

/-- the k-th receive returned the k-th value sent -/
theorem FifoInv.kth {s : ChanSt} {log : ChanLog} (h : FifoInv s log) (k : Nat) (v : Int) (c : VV)
    (hk : log.recvd[k]? = some (v, c)) : ∃ c', log.sent[k]? = some (v, c') := by
  have h2 := congrArg (fun l => l[k]?) h.2
  simp only [List.getElem?_map] at h2
  have hlt : k < log.recvd.length := by
    rcases Nat.lt_or_ge k log.recvd.length with h' | h'
    · exact h'
    · rw [List.getElem?_eq_none h'] at hk; cases hk
  rw [List.getElem?_append_left (by simpa using hlt), List.getElem?_map, hk] at h2
  cases hs : log.sent[k]? with
  | none => rw [hs] at h2; cases h2
  | some p =>
    rw [hs] at h2
    simp only [Option.map_some, Option.some.injEq] at h2
    exact ⟨p.2, by rw [← h2]⟩

/-! ### clocks -/

structure ClockInv (s : ChanSt) (log : ChanLog) : Prop where
  len : log.stamps.length = log.sent.length
  rlen : log.recvd.length ≤ log.stamps.length
  /-- the clocks still in the channel are the stamps of the messages not yet received -/
  pending : s.receiverSync.map (·.hb) = log.stamps.drop log.recvd.length
  /-- `sender_synchronize` is above every stamp -/
  top : ∀ c ∈ log.stamps, c.le s.senderSync.hb
  /-- a stamp is above the sender's causality at that send -/
  stamp : ∀ (k : Nat) (v : Int) (c st : VV),
    log.sent[k]? = some (v, c) → log.stamps[k]? = some st → c.le st
  /-- stamps are monotone: a message's clock is above the clock of every earlier message -/
  mono : ∀ (j k : Nat) (a b : VV),
    j ≤ k → log.stamps[j]? = some a → log.stamps[k]? = some b → a.le b

theorem ClockInv.fresh : ClockInv {} {} where
  len := rfl
  rlen := Nat.le_refl _
  pending := rfl
  top := by intro c hc; cases hc
  stamp := by intro k v c st h; simp at h
  mono := by intro j k a b _ h; simp at h

theorem ClockInv.send {s : ChanSt} {log : ChanLog} (h : ClockInv s log) (released caus : VV)
    (v : Int) :
    ClockInv (chanSend s released caus v)
      (log.send v caus (chanSend s released caus v).senderSync.hb) where
  len := by simp [ChanLog.send, h.len]
  rlen := by have := h.rlen; simp [ChanLog.send]; omega
  pending := by
    have := h.rlen
    simp only [ChanLog.send, chanSend, List.map_append, List.map_cons, List.map_nil, h.pending]
    rw [List.drop_append_of_le_length this]
  top := by
    intro c hc
    simp only [ChanLog.send, List.mem_append, List.mem_singleton] at hc
    rcases hc with hc | hc
    · exact VV.le_trans (h.top c hc) (chanSend_stamp s released caus v).2
    · subst hc; exact VV.le_refl _
  stamp := by
    intro k v' c st hs hst
    simp only [ChanLog.send] at hs hst
    rw [getElem?_concat] at hs hst
    rcases hs with hs | ⟨hk, hs⟩
    · rcases hst with hst | ⟨hk', _⟩
      · exact h.stamp k v' c st hs hst
      · have : k < log.sent.length := by
          rcases Nat.lt_or_ge k log.sent.length with h' | h'
          · exact h'
          · rw [List.getElem?_eq_none h'] at hs; cases hs
        have := h.len; omega
    · rcases hst with hst | ⟨_, hst⟩
      · have : k < log.stamps.length := by
          rcases Nat.lt_or_ge k log.stamps.length with h' | h'
          · exact h'
          · rw [List.getElem?_eq_none h'] at hst; cases hst
        have := h.len; omega
      · cases hs; subst hst
        exact (chanSend_stamp s released caus v).1
  mono := by
    intro j k a b hjk ha hb
    simp only [ChanLog.send] at ha hb
    rw [getElem?_concat] at ha hb
    rcases hb with hb | ⟨hk, hb⟩
    · rcases ha with ha | ⟨hj, _⟩
      · exact h.mono j k a b hjk ha hb
      · have : k < log.stamps.length := by
          rcases Nat.lt_or_ge k log.stamps.length with h' | h'
          · exact h'
          · rw [List.getElem?_eq_none h'] at hb; cases hb
        omega
    · subst hb
      rcases ha with ha | ⟨_, ha⟩
      · exact VV.le_trans (h.top a (List.mem_of_getElem? ha)) (chanSend_stamp s released caus v).2
      · subst ha; exact VV.le_refl _

/-- the head of `receiver_synchronize` is the stamp of the next message to be received -/
theorem ClockInv.head {s : ChanSt} {log : ChanLog} (h : ClockInv s log) (sy : Sync)
    (rest : List Sync) (hr : s.receiverSync = sy :: rest) :
    log.stamps[log.recvd.length]? = some sy.hb := by
  have := congrArg (fun l => l[0]?) h.pending
  simp only [hr, List.map_cons, List.getElem?_cons_zero, List.getElem?_drop, Nat.add_zero] at this
  exact this.symm

theorem ClockInv.recv {s : ChanSt} {log : ChanLog} (h : ClockInv s log) (v : Int) (caus : VV)
    (sy : Sync) (hr : s.receiverSync = sy :: (chanRecv s).receiverSync) :
    ClockInv (chanRecv s) (log.recv v caus) where
  len := h.len
  rlen := by
    have := h.head sy _ hr
    have : log.recvd.length < log.stamps.length := by
      rcases Nat.lt_or_ge log.recvd.length log.stamps.length with h' | h'
      · exact h'
      · rw [List.getElem?_eq_none h'] at this; cases this
    simp [ChanLog.recv]; omega
  pending := by
    have := congrArg List.tail h.pending
    simp only [ChanLog.recv, List.length_append, List.length_cons, List.length_nil]
    rw [hr] at this
    simp only [List.map_cons, List.tail_cons, List.tail_drop] at this
    exact this
  top := h.top
  stamp := h.stamp
  mono := h.mono

theorem ClockInv.access {s : ChanSt} {log : ChanLog} (h : ClockInv s log) (act : Action)
    (pid : Nat) (v : VV) : ClockInv (s.setLastAccess act pid v) log := by
  cases act <;> exact ⟨h.len, h.rlen, h.pending, h.top, h.stamp, h.mono⟩

/-- every receive acquired the stamp of the message it obtained -/
def AcqInv (log : ChanLog) : Prop :=
  ∀ (k : Nat) (v : Int) (c st : VV),
    log.recvd[k]? = some (v, c) → log.stamps[k]? = some st → st.le c

theorem AcqInv.fresh : AcqInv {} := by
  intro k v c st h; simp at h

theorem AcqInv.send {log : ChanLog} (h : AcqInv log) (hl : log.recvd.length ≤ log.stamps.length)
    (v : Int) (caus stamp : VV) : AcqInv (log.send v caus stamp) := by
  intro k v' c st hr hst
  simp only [ChanLog.send] at hr hst
  rw [getElem?_concat] at hst
  rcases hst with hst | ⟨hk, _⟩
  · exact h k v' c st hr hst
  · have : k < log.recvd.length := by
      rcases Nat.lt_or_ge k log.recvd.length with h' | h'
      · exact h'
      · rw [List.getElem?_eq_none h'] at hr; cases hr
    omega

theorem AcqInv.recv {s : ChanSt} {log : ChanLog} (h : AcqInv log) (hc : ClockInv s log) (v : Int)
    (caus : VV) (sy : Sync) (rest : List Sync) (hr : s.receiverSync = sy :: rest)
    (hle : sy.hb.le caus) : AcqInv (log.recv v caus) := by
  intro k v' c st hrk hst
  simp only [ChanLog.recv] at hrk hst
  rw [getElem?_concat] at hrk
  rcases hrk with hrk | ⟨hk, hrk⟩
  · exact h k v' c st hrk hst
  · cases hrk
    subst hk
    rw [hc.head sy rest hr] at hst
    cases hst
    exact hle

/-- end to end: the receiver of message `k` has, afterwards, a causality above the causality every
sender of a message `j ≤ k` had at its send -/
theorem send_hb_recv_of_inv {s : ChanSt} {log : ChanLog} (hc : ClockInv s log) (ha : AcqInv log)
    (j k : Nat) (vj vk : Int) (cj ck : VV) (hjk : j ≤ k) (hs : log.sent[j]? = some (vj, cj))
    (hr : log.recvd[k]? = some (vk, ck)) : cj.le ck := by
  have hk : k < log.recvd.length := by
    rcases Nat.lt_or_ge k log.recvd.length with h' | h'
    · exact h'
    · rw [List.getElem?_eq_none h'] at hr; cases hr
  have hkl : k < log.stamps.length := Nat.lt_of_lt_of_le hk hc.rlen
  have hjl : j < log.stamps.length := by omega
  have h1 := hc.stamp j vj cj _ hs (List.getElem?_eq_getElem hjl)
  have h2 := hc.mono j k _ _ hjk (List.getElem?_eq_getElem hjl) (List.getElem?_eq_getElem hkl)
  have h3 := ha k vk ck _ hr (List.getElem?_eq_getElem hkl)
  exact VV.le_trans h1 (VV.le_trans h2 h3)

end C09
end LoomVerif

/-
C05.2: the notion of deadlock of the reference semantics `Spec/SC.lean`, unfolded.
-/
import LoomVerif.Spec.SC

namespace LoomVerif.SC

theorem finalVerdict_deadlock_iff (s : St) :
    finalVerdict s = .deadlock ↔
      s.verdict = some .deadlock ∨ (s.verdict = none ∧ allDone s = false) := by
  unfold finalVerdict
  cases hv : s.verdict with
  | some v => simp
  | none =>
    simp only [reduceCtorEq, false_or, true_and]
    cases hd : allDone s with
    | true => simp only [if_true]; split <;> simp
    | false => simp

theorem allDone_false_iff (s : St) :
    allDone s = false ↔ ∃ h ∈ s.ths, h.started = true ∧ h.finished = false := by
  unfold allDone
  constructor
  · intro h
    apply Classical.byContradiction
    intro hn
    have : s.ths.all (fun h => !h.started || h.finished) = true := by
      rw [List.all_eq_true]
      intro x hx
      cases hs : x.started with
      | false => rfl
      | true =>
        cases hf : x.finished with
        | true => rfl
        | false => exact absurd ⟨x, hx, hs, hf⟩ hn
    rw [this] at h; cases h
  · rintro ⟨x, hx, hs, hf⟩
    cases hall : s.ths.all (fun h => !h.started || h.finished) with
    | false => rfl
    | true =>
      have := (List.all_eq_true.1 hall) x hx
      simp [hs, hf] at this

end LoomVerif.SC

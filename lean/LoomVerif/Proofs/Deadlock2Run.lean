/-
Deadlock soundness, WAIT fragment, part 17: the initial world satisfies `RB2`; the one-stage results lift to
`World.runLoop`: a run that satisfies `okRun` and ends with the panic "deadlock" has reached a world related to a
DEADLOCKED state of the reference execution the run corresponds to.
-/
import LoomVerif.Proofs.Deadlock2Err3
import LoomVerif.Proofs.Refine2Run
import LoomVerif.Proofs.DeadlockRun

namespace LoomVerif
namespace Deadlock2
open Refine Refine2 Sy Deadlock

/-- **the initial world satisfies the strengthened relation** -/
theorem init_RB2 {prog : Prog} {e : Exec} {w : World} (hwf : WFD prog) (hf : FreshExec2 e)
    (hp : ReplayOK e.path) (h : World.init prog e = .ok w) :
    RB2 w (data2 (SC.init prog)) ∧ w.prog = prog ∧ w.events = [] := by
  obtain ⟨hR, hprog, hev⟩ := init_R2 hwf.1 hf h
  obtain ⟨_, hc, hs, _, hth, _⟩ := init_shape2 h
  refine ⟨⟨hR, ⟨fun i hi => ?_, ?_, ?_, ?_⟩, by rw [init_path h]; exact hp⟩, hprog, hev⟩
  · have hi0 : i = 0 := by rw [hc] at hi; simpa using hi
    subst hi0
    have htid : w.tid = 0 := by
      show w.exec.threads.activeId = 0
      rw [hth]; unfold Threads.activeId; rw [hf.2]; rfl
    have hst : (w.ths.get 0).state = .runnable := by
      show (w.exec.threads.get 0).state = _
      rw [hth]; unfold Threads.get; rw [hf.1]; rfl
    exact JT2.running (by rw [hst]; simp) (by rw [hst]; simp) htid.symm
  · rw [hs]; intro e1 e2 h1; cases h1
  · rw [hs]; intro b i n h1; cases h1
  · rw [Jnd, hs]; intro b i n h1; cases h1

/-- the simulation along `runLoop`, whatever the way the run ends (under `okRun`): the world returned is related
(`RB2`) to the end of a run of the reference whose trace is the event log; if the run ends with a panic other than
the exhaustion of the fuel, it is the panic of the next stage of the world returned -/
theorem runLoop_RB2 (p : Prog) (d0 : SCData2) (hwf : WFD p) :
    ∀ (fuel : Nat) (w w' : World) (r : Option Panic) (s : SCData2), w.prog = p → RB2 w s → InRange w →
      SCData2.Run2 p d0 (w.events.reverse.map triple) s → okRun fuel w = true →
      World.runLoop fuel w = (w', r) →
      ∃ s', SCData2.Run2 p d0 (w'.events.reverse.map triple) s' ∧ RB2 w' s' ∧ w'.prog = p ∧ InRange w' ∧
        (∀ e, r = some e → e ≠ .fuel → w'.ths.isActive = true ∧ w'.stepActive = .error e) := by
  intro fuel
  induction fuel with
  | zero =>
    intro w w' r s hp hRB hrange hrun _ h
    simp only [World.runLoop, Prod.mk.injEq] at h
    obtain ⟨rfl, rfl⟩ := h
    exact ⟨s, hrun, hRB, hp, hrange, fun e he hne => by cases he; exact absurd rfl hne⟩
  | succ fuel ih =>
    intro w w' r s hp hRB hrange hrun hok h
    unfold World.runLoop at h
    unfold okRun at hok
    split at h
    · simp only [Prod.mk.injEq] at h
      obtain ⟨rfl, rfl⟩ := h
      exact ⟨s, hrun, hRB, hp, hrange, fun e he => by cases he⟩
    · next hact =>
      have hact' : w.ths.isActive = true := by simpa using hact
      have hin : w.tid < w.ctl.length := by rw [hRB.r.c.lenCtl]; exact hrange hact'
      rw [if_neg hact] at hok
      simp only [Bool.and_eq_true] at hok
      split at h
      · next e hstep =>
        simp only [Prod.mk.injEq] at h
        obtain ⟨rfl, rfl⟩ := h
        exact ⟨s, hrun, hRB, hp, hrange, fun e' he _ => by cases he; exact ⟨hact', hstep⟩⟩
      · next w1 hstep =>
        have hok1 : okRun fuel w1 = true := by
          have := hok.2
          rw [hstep] at this
          exact this
        obtain ⟨⟨hp1, hsim⟩, hr1, _⟩ := step_pres2 (by rw [hp]; exact hwf) hRB hact' hin hok.1 hstep
        rcases hsim with ⟨hR1, hev⟩ | ⟨l, s1, hrs, hR1, hev⟩
        · exact ih w1 w' r s (hp1.trans hp) hR1 hr1 (by rw [hev]; exact hrun) hok1 h
        · rw [hp] at hrs
          refine ih w1 w' r s1 (hp1.trans hp) hR1 hr1 ?_ hok1 h
          rw [triple_step hev]
          rcases hrs with ⟨hen, hst⟩ | hsp
          · exact SCData2.Run2.step hrun hen hst
          · exact SCData2.Run2.spur hrun hsp

end Deadlock2
end LoomVerif

/-
Race exactness on the WAIT fragment, part 12: the stages of `park` and `unpark u` (the token slot `kI` of a body).
-/
import LoomVerif.Proofs.Race2Rel

namespace LoomVerif
namespace Race2
open Refine Refine2 Sy C07 C08 Clocks Race

/-! ### the thread table after `modifyActive` -/

theorem modAct_get (w : World) (g : Thread → Thread) (i : Nat) :
    (w.ths.modifyActive g).get i = if w.tid = i ∧ i < nthr w then g (w.ths.get i) else w.ths.get i :=
  WB.get_modify _ _ _ _

/-- `pendClk` of a thread at the second stage of `park` -/
theorem pendClk_park1 {w : World} {σ : CS} {i : Nat} (hop : opAtI w i = some .park) (hst : (w.ctlOf i).stage = 1) :
    pendClk w σ i = σ.mtx (kI w.prog (body w i)) := by
  unfold pendClk
  rw [hop]
  exact if_pos hst

/-! ### the thread table after `Set::unpark` -/

theorem setUnparked_rel_op (t : Thread) :
    t.setUnparked.released = t.released ∧ t.setUnparked.operation = t.operation := by
  unfold Thread.setUnparked
  split
  · exact ⟨rfl, rfl⟩
  · split <;> exact ⟨rfl, rfl⟩

theorem unpark_rel_op (t a : Thread) :
    (t.unpark a).released = t.released ∧ (t.unpark a).operation = t.operation :=
  setUnparked_rel_op _

/-- `Set::unpark` keeps `released` and the pending operation of every thread -/
theorem unpark_get_rel_op (s : Threads) (id i : Nat) :
    ((s.unpark id).get i).released = (s.get i).released ∧
    ((s.unpark id).get i).operation = (s.get i).operation := by
  unfold Threads.unpark
  split
  · unfold Threads.modifyActive
    rw [WB.get_modify]
    split
    · exact setUnparked_rel_op _
    · exact ⟨rfl, rfl⟩
  · rw [WB.get_modify]
    split
    · exact unpark_rel_op _ _
    · exact ⟨rfl, rfl⟩

/-- the active thread, neither parked nor terminated, unparks itself: it stores the token -/
theorem unpark_self_get (w : World) (hin : w.tid < nthr w) (hp : (w.ths.get w.tid).parked = false)
    (hl : (w.ths.get w.tid).isTerminated = false) :
    (w.ths.unpark w.tid).get w.tid = { w.ths.get w.tid with token := true } := by
  have hs : (w.ths.get w.tid).state ≠ .terminated := by
    intro e
    have hl' : (w.ths.get w.tid).isTerminated = false := hl
    unfold Thread.isTerminated at hl'
    rw [e] at hl'
    exact absurd hl' (by decide)
  rw [show w.ths.unpark w.tid = w.ths.modifyActive Thread.setUnparked from unpark_self w.ths, modAct_get,
    if_pos ⟨rfl, hin⟩, setUnparked_live hp hs]

theorem fin_tick (s : SC.St) (b u : Nat) : ((s.tick b).th u).finished = (s.th u).finished := by
  unfold SC.St.tick
  rw [Refine.th_modTh _ _ _ _ (.inr trivial)]
  split <;> rfl

section
variable {w w' : World} {s : SC.St}

/-! ### `park` -/

theorem clk_park2 (hRC : RC2 w s) (hact : w.tid < w.ctl.length) (hop : opAt2 w = some .park)
    (hok : resumeOk w = true) (h : w.runOp (w.ctlOf w.tid) .park = .ok w') :
    QuietOut2 w s w' ∨ RealOut2 w s w' := by
  have ht := nthr_tid2 hRC hact
  have hf0 := fin0 hRC hact hop
  have hin : w.tid < w.exec.threads.threads.length := ht
  have hpd : pend w w.tid = none := pend_none_of_op2 hop (by intro b; simp)
  rw [runOp_park] at h
  split at h
  · next hs0 =>
    left
    have hs0' : (w.ctlOf w.tid).stage = 0 := by simpa using hs0
    have hst1 : (w.ctlOf w.tid).stage ≠ 1 := by rw [hs0']; decide
    obtain ⟨hq, hc, _⟩ := parkNow_quiet2 (w := w.setStage 1) hin h
    have hno : ∀ d', SCData2.enabled w.prog (data2 s) (body w w.tid) = true →
        (none, d') ∈ SCData2.stepL w.prog (data2 s) (body w w.tid) → R2 w' d' → False :=
      fun d' _ hst' _ => no_silent hRC hact hop (by intro i r n; simp) (by intro v m; simp) d' hst'
    cases htok : w.ths.activeT.token with
    | false =>
      have hso : SchedOut w w' none :=
        (parkNow_sched (w := w.setStage 1) htok h ht).src_congr rfl
      exact quiet_core2 hRC hact (fun c => { c with stage := 1 }) (fun σ => pendClk_stage0 hst1) hpd hso
        hq.prog hq.spawned hq.events hc rfl Iff.rfl (by intro o ho; cases ho) hno
    | true =>
      rw [parkNow_token (w := w.setStage 1) htok] at h
      cases h
      -- the new world
      have hself : ((w.setStage 1).setThs ((w.setStage 1).ths.modifyActive fun th =>
          ({ th with token := false } : Thread).acquireUnpark)).ctlOf w.tid = { w.ctlOf w.tid with stage := 1 } :=
        ctlOf_modCtl_self w w.tid (fun c => { c with stage := 1 }) hact
      have hne : ∀ j, j ≠ w.tid → ((w.setStage 1).setThs ((w.setStage 1).ths.modifyActive fun th =>
          ({ th with token := false } : Thread).acquireUnpark)).ctlOf j = w.ctlOf j :=
        fun j hj => ctlOf_modCtl_ne w w.tid (fun c => { c with stage := 1 }) hj
      have hbody : ∀ j, body ((w.setStage 1).setThs ((w.setStage 1).ths.modifyActive fun th =>
          ({ th with token := false } : Thread).acquireUnpark)) j = body w j := by
        intro j
        unfold body
        by_cases e : j = w.tid
        · subst e; rw [hself]
        · rw [hne j e]
      have hfin : ∀ j, fin ((w.setStage 1).setThs ((w.setStage 1).ths.modifyActive fun th =>
          ({ th with token := false } : Thread).acquireUnpark)) j = fin w j := by
        intro j
        unfold fin
        by_cases e : j = w.tid
        · subst e; rw [hself]
        · rw [hne j e]
      have hget : ∀ j, ((w.setStage 1).setThs ((w.setStage 1).ths.modifyActive fun th =>
          ({ th with token := false } : Thread).acquireUnpark)).ths.get j =
          if w.tid = j ∧ j < nthr w then ({ w.ths.get j with token := false } : Thread).acquireUnpark
          else w.ths.get j := fun j => modAct_get w _ j
      have hgetT := hget w.tid
      rw [if_pos ⟨rfl, ht⟩] at hgetT
      have hoth : ∀ j, j ≠ w.tid → ((w.setStage 1).setThs ((w.setStage 1).ths.modifyActive fun th =>
          ({ th with token := false } : Thread).acquireUnpark)).ths.get j = w.ths.get j := by
        intro j hj
        rw [hget j, if_neg (fun e => hj e.1.symm)]
      have hopT : opAtI ((w.setStage 1).setThs ((w.setStage 1).ths.modifyActive fun th =>
          ({ th with token := false } : Thread).acquireUnpark)) w.tid = some .park := by
        unfold opAtI
        rw [hself]
        exact hop
      have key : ∀ σT mT, LinkT2 w σT mT →
          TwinInv ((w.setStage 1).setThs ((w.setStage 1).ths.modifyActive fun th =>
            ({ th with token := false } : Thread).acquireUnpark)) ∧
          TwinInv2 ((w.setStage 1).setThs ((w.setStage 1).ths.modifyActive fun th =>
            ({ th with token := false } : Thread).acquireUnpark)) ∧
          LinkT2 ((w.setStage 1).setThs ((w.setStage 1).ths.modifyActive fun th =>
            ({ th with token := false } : Thread).acquireUnpark)) σT mT := by
        intro σT mT hLT
        obtain ⟨hT, hO⟩ := unpack hRC.inv hRC.inv2 hLT
        have hTt := hT w.tid ht
        have hk := hTt.tok (by rw [hf0]; omega)
        have hhi := hTt.hi
        rw [pendClk_stage0 hst1, join_zero] at hhi
        refine assemble (w' := (w.setStage 1).setThs ((w.setStage 1).ths.modifyActive fun th =>
            ({ th with token := false } : Thread).acquireUnpark)) hRC hLT rfl rfl ?_ (Nat.le_refl _) hne (hbody _)
          (by intro h10; rw [hf0] at h10; omega) ?_ ?_ (fun _ => le_refl _) (fun _ _ _ _ => le_refl _)
          (fun _ _ => .inl ⟨SameObj.refl _ _, rfl⟩) (fun _ _ => .inl ⟨SameObj.refl _ _, rfl⟩)
          (fun _ _ => .inl ⟨SameObj.refl _ _, rfl, rfl⟩) (fun _ _ => .inl ⟨SameObj.refl _ _, fun _ => rfl⟩)
          ?_ (fun _ _ => rfl)
        · show ((w.ths.modifyActive _).threads.length) = _
          simp [nthr, World.ths, Threads.modifyActive, Threads.modify]
        · -- the active thread
          refine ⟨?_, ?_, ?_, ?_, ?_, ?_, ?_⟩
          · unfold trel; rw [hgetT]; exact hTt.rel
          · intro o ho
            unfold topo at ho; rw [hgetT] at ho
            exact hTt.ob o ho
          · intro b j n ho hm hij
            unfold topo at ho; rw [hgetT] at ho
            right
            rcases hTt.jo b j n ho hm hij with h1 | h1
            · rw [hpd] at h1; cases h1
            · rw [hfin]; exact h1
          · unfold tcaus; rw [hgetT]
            exact le_trans hTt.lo (le_join_left _ _)
          · rw [pendClk_park1 hopT (by rw [hself]), hbody]
            unfold tcaus; rw [hgetT]
            exact join_le (le_trans hhi (le_join_left _ _)) (le_trans hk.1 (le_join_right _ _))
          · intro _
            rw [hbody]
            unfold tuc tcaus; rw [hgetT]
            exact ⟨zero_le _, le_trans hk.2 (le_join_left _ _)⟩
          · intro _ _
            unfold tuc; rw [hgetT]; rfl
        · intro j _ e
          have := hoth j e
          refine .inl ⟨⟨?_, ?_, ?_, ?_⟩, ?_, rfl, fun _ => rfl⟩
          · unfold tcaus; rw [this]
          · unfold trel; rw [this]
          · unfold tuc; rw [this]
          · unfold ttok; rw [this]
          · unfold topo; rw [this]
        · refine nhb_frame hO (fun _ _ _ _ => rfl) (fun j => by rw [hfin]) ?_
          intro j h10
          have e : j ≠ w.tid := by intro e; subst e; rw [hf0] at h10; omega
          unfold tcaus; rw [hoth j e]
      obtain ⟨σT, _, mT, _, hclk⟩ := hRC.clk
      refine ⟨rfl, ?_, hbody, rfl, hno, (key σT mT hclk.lt).1, (key σT mT hclk.lt).2.1,
        fun σ m hσ => (key σ m hσ).2.2⟩
      show (w.ctl.modify _ _).length = _
      simp
  · next hs0 =>
    right
    have hs0' : (w.ctlOf w.tid).stage ≠ 0 := by simpa using hs0
    simp only [pure, Except.pure] at h
    cases h
    have hst1 : (w.ctlOf w.tid).stage = 1 := by
      have := (base2 hRC.r.c hact).2.1.2.2.2.2.1
      rw [show opOfCtl w.prog (w.ctlOf w.tid) = some .park from hop] at this
      simp only [maxStage] at this
      omega
    -- the run-level condition: the thread is not parked and holds no token
    have hpk : parkResumeOk w = true := by
      unfold resumeOk at hok
      simp only [Bool.and_eq_true] at hok
      exact hok.2
    unfold parkResumeOk at hpk
    rw [hop] at hpk
    simp only [hs0', if_false, Bool.and_eq_true, Bool.not_eq_true'] at hpk
    have hC : pendCv w.prog (w.ctlOf w.tid) = none := pendCv_of_op hop (by simp)
    have hcv : (s.th (body w w.tid)).cvNotified = none := (frag_cv hRC hact hC).2
    have ho : SC.opOf w.prog s (body w w.tid) = some .park := (opOf_eq2 hRC.r hact).trans hop
    have hbt := body_lt_ths2 hRC.r hact
    obtain ⟨σT, σR, mT, mR, hc⟩ := hRC.clk
    obtain ⟨hT, hO⟩ := unpack hRC.inv hRC.inv2 hc.lt
    have hTt := hT w.tid ht
    have huc : tuc w w.tid = VV.zero := hTt.tokz (by rw [hf0]; omega) hpk.2
    have hk := hTt.tok (by rw [hf0]; omega)
    rw [huc, join_zero] at hk
    have hhi := hTt.hi
    rw [pendClk_park1 (by rw [opAtI_tid2]; exact hop) hst1] at hhi
    have heq : (σT.thr w.tid).join (σT.mtx (kI w.prog (body w w.tid))) = tcaus w w.tid :=
      le_antisymm (join_le hTt.lo hk.2) hhi
    have hI := complete_core2 (w' := w.complete .unit) hRC hact hop hc.lt
      (σT' := σT.acq w.tid (σT.mtx (kI w.prog (body w w.tid)))) (mT' := mT)
      w .unit rfl rfl rfl rfl rfl rfl rfl (fun i _ => ⟨⟨rfl, rfl, rfl, rfl⟩, rfl⟩) rfl rfl rfl rfl (le_refl _)
      (by
        intro i hi
        show upd σT.thr w.tid _ i = _
        rw [upd_ne _ _ hi])
      (by
        show upd σT.thr w.tid _ w.tid = _
        rw [upd_self]; exact heq)
      (fun _ => le_refl _) (fun _ => rfl)
      (by intro n hn; rw [hpd] at hn; cases hn)
      (fun _ _ _ _ => rfl)
      (fun _ _ => .inl ⟨SameObj.refl _ _, rfl⟩) (fun _ _ => .inl ⟨SameObj.refl _ _, rfl⟩)
      (fun _ _ => .inl ⟨SameObj.refl _ _, rfl, rfl⟩) (fun _ _ => .inl ⟨SameObj.refl _ _, fun _ => rfl⟩)
    have hX1 := hc.x.tickR hc.gt hc.gr (inj_body2 hRC.r) w.tid hact
    have hLR : LinkR2 w.prog
        ((((s.tick (body w w.tid)).acquire (body w w.tid) (s.th (body w w.tid)).tokenVC).modTh (body w w.tid)
          fun h => { h with token := false }).ret (body w w.tid) .unit)
        ((σR.tick (body w w.tid)).acq (body w w.tid) ((σR.tick (body w w.tid)).mtx (kI w.prog (body w w.tid))))
        mR := by
      have e : (σR.tick (body w w.tid)).mtx (kI w.prog (body w w.tid)) = (s.th (body w w.tid)).tokenVC :=
        hc.lr.tok _
      rw [e]
      exact ((((hc.lr.tick hbt).acquire (by rw [tick_len2]; exact hbt) _).modTh _
        (fun h => { h with token := false }) (fun _ => rfl) (fun _ => rfl)).ret _ _)
    refine realOut_complete hRC hact hop (by intro n; simp) _ _ rfl rfl (step_park hcv ho) ?_
    refine newSt_complete hact _ .unit rfl rfl hRC.fs.1 hRC.nd ⟨hI.1, hI.2.1⟩ hI.2.2 hLR
      (hc.gt.acqM _ _) ((hc.gr.tick _).acqM _ _) (hX1.acqM (inj_body2 hRC.r) w.tid hact _) ?_ ?_ ?_
    · intro q hq
      exact (hc.mx q hq).imp fun _ _ hh => hh.ev rfl rfl
    · intro q Z hq hZ
      exact (hc.mgt q Z hq hZ).acq _ _
    · intro q Z hq hZ
      exact ((hc.mgr q Z hq hZ).tick _).acq _ _

/-! ### `unpark` -/

/-- the target of `unpark u`, the twin side: the ghost system `σT'` differs from `σT` at most in the token slot of
`u`, which has grown by at most the clock of the active thread, and by exactly that clock when the target has not
passed its notification -/
theorem unpark_twin (hRC : RC2 w s) (hact : w.tid < w.ctl.length) {u t : Nat}
    (hop : opAt2 w = some (.unpark u)) (hto : w.threadOf u = .ok t)
    {σT σT' : CS} {mT : Nat → List VV} (hLT : LinkT2 w σT mT)
    (hthr : ∀ i, σT'.thr i = σT.thr i) (hacc : ∀ k c, σT'.acc k c = σT.acc k c)
    (hslot : ∀ m, (σT.mtx m).le (σT'.mtx m))
    (hoth : ∀ m, m ≠ kI w.prog u → σT'.mtx m = σT.mtx m)
    (hKle : (σT'.mtx (kI w.prog u)).le ((σT.mtx (kI w.prog u)).join (σT.thr w.tid)))
    (hKge : fin w t < 10 → (σT.thr w.tid).le (σT'.mtx (kI w.prog u))) :
    TwinInv ((w.setThs (w.ths.unpark t)).complete .unit) ∧
    TwinInv2 ((w.setThs (w.ths.unpark t)).complete .unit) ∧
    LinkT2 ((w.setThs (w.ths.unpark t)).complete .unit) σT' mT := by
  have ht := nthr_tid2 hRC hact
  have hf0 := fin0 hRC hact hop
  obtain ⟨htl, htb⟩ := threadOf_ok hRC.r.c hto
  have htb' : body w t = u := htb
  have htn : t < nthr w := by rw [← nthr_eq2 hRC.r]; exact htl
  obtain ⟨hT, hO⟩ := unpack hRC.inv hRC.inv2 hLT
  have hTt := hT w.tid ht
  have hpd : pend w w.tid = none := pend_none_of_op2 hop (by intro b; simp)
  have hpc : pendClk w σT w.tid = VV.zero :=
    pendClk_of_op (by rw [opAtI_tid2]; exact hop) (by intro n; simp) (by simp) (by intro b; simp)
  have hcT : σT.thr w.tid = tcaus w w.tid := eq_caus2 hLT ht hpc
  have htid1 : (w.setThs (w.ths.unpark t)).tid = w.tid := unpark_activeId _ _
  have hctl := fun i => complete_ctlOf w (w.setThs (w.ths.unpark t)) .unit i htid1 rfl hact
  have hcne : ∀ i, i ≠ w.tid → ((w.setThs (w.ths.unpark t)).complete .unit).ctlOf i = w.ctlOf i := by
    intro i hi; rw [hctl, if_neg hi]
  have hbodyT : body ((w.setThs (w.ths.unpark t)).complete .unit) w.tid = body w w.tid := by
    unfold body; rw [hctl, if_pos rfl]; rfl
  have hfinne : ∀ j, j ≠ w.tid → fin ((w.setThs (w.ths.unpark t)).complete .unit) j = fin w j := by
    intro j hj; unfold fin; rw [hcne j hj]
  have hfinT : fin ((w.setThs (w.ths.unpark t)).complete .unit) w.tid = 0 := by
    unfold fin; rw [hctl, if_pos rfl]; exact hf0
  have hfin10 : ∀ j, 10 ≤ fin w j → 10 ≤ fin ((w.setThs (w.ths.unpark t)).complete .unit) j := by
    intro j hj
    have e : j ≠ w.tid := by intro e; subst e; rw [hf0] at hj; omega
    rw [hfinne j e]; exact hj
  -- the active thread is neither parked nor terminated
  have hnpA : (w.ths.get w.tid).parked = false := by
    cases hp : (w.ths.get w.tid).parked with
    | false => rfl
    | true =>
      obtain ⟨_, hpa, _⟩ := hRC.r.p.pk w.tid hp
      have := (parkedAt_true hpa).1
      rw [show opOfCtl w.prog (w.ctlOf w.tid) = opAt2 w from rfl, hop] at this
      cases this
  have hliveA : (w.ths.get w.tid).isTerminated = false :=
    hRC.r.p.live w.tid hact (by show fin w w.tid < 10; rw [hf0]; omega)
  -- the entries of the thread table
  have hgne : ∀ i, i ≠ t → (w.ths.unpark t).get i = w.ths.get i := fun i hi => unpark_get_ne _ _ _ hi
  have hro := fun i => unpark_get_rel_op w.ths t i
  have hA : ((w.ths.unpark t).get w.tid).causality = (w.ths.get w.tid).causality ∧
      ((w.ths.unpark t).get w.tid).unparkCaus = (w.ths.get w.tid).unparkCaus ∧
      (t = w.tid → ((w.ths.unpark t).get w.tid).token = true) ∧
      (t ≠ w.tid → ((w.ths.unpark t).get w.tid).token = (w.ths.get w.tid).token) := by
    by_cases e : t = w.tid
    · rw [e, unpark_self_get w ht hnpA hliveA]
      exact ⟨rfl, rfl, fun _ => rfl, fun h => absurd rfl h⟩
    · rw [hgne w.tid (Ne.symm e)]
      exact ⟨rfl, rfl, fun h => absurd h e, fun _ => rfl⟩
  have htopo : ∀ i, topo ((w.setThs (w.ths.unpark t)).complete .unit) i = topo w i := by
    intro i
    show ((w.ths.unpark t).get i).operation.map _ = _
    rw [(hro i).2]; rfl
  have htrel : ∀ i, trel ((w.setThs (w.ths.unpark t)).complete .unit) i = trel w i := fun i => (hro i).1
  have hcausA : tcaus ((w.setThs (w.ths.unpark t)).complete .unit) w.tid = tcaus w w.tid := hA.1
  have hucA : tuc ((w.setThs (w.ths.unpark t)).complete .unit) w.tid = tuc w w.tid := hA.2.1
  -- a thread that has passed its notification is not parked and keeps its causality
  have hcaus10 : ∀ j, 10 ≤ fin w j → tcaus ((w.setThs (w.ths.unpark t)).complete .unit) j = tcaus w j := by
    intro j h10
    by_cases ej : j = t
    · have hne : t ≠ w.tid := by intro e; rw [ej, e, hf0] at h10; omega
      have hnp : (w.ths.get t).parked = false := by
        cases hp : (w.ths.get t).parked with
        | false => rfl
        | true =>
          exfalso
          obtain ⟨_, hpa, _⟩ := hRC.r.p.pk t hp
          have h1 := (parkedAt_true hpa).1
          have h2 := hRC.r.c.x.epi t htl (by
            have : 10 ≤ (w.ctl.getD t {}).fin := by rw [ej] at h10; exact h10
            omega)
          rw [show opOfCtl w.prog (w.ctl.getD t {}) = opOfCtl w.prog (w.ctlOf t) from rfl, h1] at h2
          cases h2
      rw [ej]
      show ((w.ths.unpark t).get t).causality = _
      rw [(unpark_other_get (s := w.ths) hne htn).1]
      exact (unpark_causality_not_parked _ hnp).1
    · show ((w.ths.unpark t).get j).causality = _
      rw [hgne j ej]; rfl
  refine assemble (w' := (w.setThs (w.ths.unpark t)).complete .unit) hRC hLT rfl rfl (unpark_length _ _)
    (Nat.le_refl _) hcne hbodyT (by intro h10; rw [hf0] at h10; omega) ?_ ?_ hslot (fun _ _ _ _ => le_refl _)
    (fun m hm => .inl ⟨SameObj.refl _ _, hoth m (m_ne_kI w.prog hm u)⟩)
    (fun n hn => .inl ⟨SameObj.refl _ _, hoth _ (nI_ne_kI w.prog hn u)⟩)
    (fun q hq => .inl ⟨SameObj.refl _ _, hoth _ (cI_ne_kI w.prog hq u), rfl⟩)
    (fun c _ => .inl ⟨SameObj.refl _ _, fun k => hacc k c⟩)
    ?_ ?_
  · -- the active thread
    refine ThrInv.exact ?_ ?_ ?_ ?_ ?_ ?_
    · rw [htrel]; exact hTt.rel
    · intro o ho
      rw [htopo] at ho
      exact hTt.ob o ho
    · intro b j n ho hm hij
      rw [htopo] at ho
      right
      rcases hTt.jo b j n ho hm hij with h1 | h1
      · rw [hpd] at h1; cases h1
      · exact hfin10 j h1
    · rw [hthr, hcT, hcausA]
    · intro _
      have hk := hTt.tok (by rw [hf0]; omega)
      rw [hbodyT, hucA, hcausA]
      show (tuc w w.tid).le (σT'.mtx (kI w.prog (body w w.tid))) ∧
        (σT'.mtx (kI w.prog (body w w.tid))).le ((tcaus w w.tid).join (tuc w w.tid))
      by_cases e : body w w.tid = u
      · rw [e] at hk ⊢
        refine ⟨le_trans hk.1 (hslot _), le_trans hKle (join_le hk.2 ?_)⟩
        rw [hcT]; exact le_join_left _ _
      · rw [hoth _ (fun h => e (kI_inj w.prog h))]
        exact hk
    · intro _ htk
      rw [hucA]
      refine hTt.tokz (by rw [hf0]; omega) ?_
      by_cases e : t = w.tid
      · have h1 : ttok ((w.setThs (w.ths.unpark t)).complete .unit) w.tid = true := hA.2.2.1 e
        rw [h1] at htk; cases htk
      · have h1 : ttok ((w.setThs (w.ths.unpark t)).complete .unit) w.tid = ttok w w.tid := hA.2.2.2 e
        rw [← h1]; exact htk
  · -- the other threads
    intro i hi hne
    have hil : i < w.ctl.length := by rw [nthr_eq2 hRC.r]; exact hi
    by_cases ei : i = t
    · -- the target
      right
      rw [ei]
      have hnet : t ≠ w.tid := by rw [← ei]; exact hne
      have hTT := hT t htn
      have hc : ((w.setThs (w.ths.unpark t)).complete .unit).ctlOf t = w.ctlOf t := hcne t hnet
      have hfW : fin ((w.setThs (w.ths.unpark t)).complete .unit) t = fin w t := hfinne t hnet
      have hbW : body ((w.setThs (w.ths.unpark t)).complete .unit) t = u := by
        unfold body; rw [hc]; exact htb
      have hB : ((w.setThs (w.ths.unpark t)).complete .unit).ths.get t = (w.ths.get t).unpark w.ths.activeT :=
        (unpark_other_get (s := w.ths) hnet htn).1
      have hcA : w.ths.activeT.causality = σT.thr w.tid := hcT.symm
      have hmono : (tcaus w t).le (tcaus ((w.setThs (w.ths.unpark t)).complete .unit) t) := by
        unfold tcaus; rw [hB]
        exact (unpark_causality_le _ _).1
      refine ⟨?_, ?_, ?_, ?_, ?_, ?_, ?_⟩
      · rw [htrel]; exact hTT.rel
      · intro o ho
        rw [htopo] at ho
        exact hTT.ob o ho
      · intro b j n ho hm hij
        rw [htopo] at ho
        rw [pend_congr (w := w) (w' := (w.setThs (w.ths.unpark t)).complete .unit) rfl rfl hc]
        rcases hTT.jo b j n ho hm hij with h1 | h1
        · exact .inl h1
        · exact .inr (hfin10 j h1)
      · rw [hthr]; exact le_trans hTT.lo hmono
      · -- hi
        cases hp : (w.ths.get t).parked with
        | true =>
          obtain ⟨_, hpa, _⟩ := hRC.r.p.pk t hp
          obtain ⟨h1, h2⟩ := parkedAt_true hpa
          have hf : fin w t < 10 := by
            have h3 : fin w t = 0 := by
              apply Classical.byContradiction
              intro h0
              have h4 := hRC.r.c.x.epi t htl h0
              rw [show opOfCtl w.prog (w.ctl.getD t {}) = opOfCtl w.prog (w.ctlOf t) from rfl, h1] at h4
              cases h4
            omega
          have hk := hTT.tok hf
          rw [htb'] at hk
          have hhi := hTT.hi
          rw [pendClk_park1 (show opAtI w t = some .park from h1) h2, htb'] at hhi
          rw [pendClk_park1 (show opAtI ((w.setThs (w.ths.unpark t)).complete .unit) t = some .park by
            unfold opAtI; rw [hc]; exact h1) (by rw [hc]; exact h2), hbW, hthr]
          unfold tcaus; rw [hB, (unpark_causality_parked _ hp).1]
          refine join_le (le_trans hhi (join_mono (le_refl _) (hslot _))) (join_le ?_ ?_)
          · exact le_trans hk.1 (le_trans (hslot _) (le_join_right _ _))
          · rw [hcA]; exact le_trans (hKge hf) (le_join_right _ _)
        | false =>
          unfold tcaus; rw [hB, (unpark_causality_not_parked _ hp).1, hthr]
          exact le_trans hTT.hi (join_mono (le_refl _)
            (pendClk_mono (w' := (w.setThs (w.ths.unpark t)).complete .unit) rfl rfl hc hslot
              (fun _ _ _ _ => le_refl _)))
      · -- tok
        intro hf
        rw [hfW] at hf
        have hk := hTT.tok hf
        rw [htb'] at hk
        rw [hbW]
        show (tuc ((w.setThs (w.ths.unpark t)).complete .unit) t).le (σT'.mtx (kI w.prog u)) ∧
          (σT'.mtx (kI w.prog u)).le ((tcaus ((w.setThs (w.ths.unpark t)).complete .unit) t).join
            (tuc ((w.setThs (w.ths.unpark t)).complete .unit) t))
        unfold tuc tcaus
        rw [hB]
        cases hp : (w.ths.get t).parked with
        | true =>
          rw [(unpark_causality_parked _ hp).1, (unpark_causality_parked _ hp).2]
          refine ⟨zero_le _, le_trans hKle (le_trans (join_le ?_ ?_) (le_join_left _ _))⟩
          · exact le_trans hk.2 (join_mono (le_refl _) (le_join_left _ _))
          · rw [← hcA]; exact le_trans (le_join_right _ _) (le_join_right _ _)
        | false =>
          rw [(unpark_causality_not_parked _ hp).1, (unpark_causality_not_parked _ hp).2]
          refine ⟨join_le (le_trans hk.1 (hslot _)) ?_, le_trans hKle (join_le ?_ ?_)⟩
          · rw [hcA]; exact hKge hf
          · exact le_trans hk.2 (join_mono (le_refl _) (le_join_left _ _))
          · rw [← hcA]; exact le_trans (le_join_right _ _) (le_join_right _ _)
      · -- tokz
        intro hf htk
        rw [hfW] at hf
        unfold tuc; unfold ttok at htk
        rw [hB] at htk ⊢
        cases hp : (w.ths.get t).parked with
        | true => exact (unpark_causality_parked _ hp).2
        | false =>
          exfalso
          have hl := hRC.r.p.live t htl hf
          have h1 : ((w.ths.get t).unpark w.ths.activeT).token =
              ((w.ths.get t).token || !(w.ths.get t).isTerminated) :=
            (unpark_token _ _).trans (setUnparked_state_of_not_parked hp).2.2
          rw [h1] at htk
          have hl' : (w.ths.get t).isTerminated = false := hl
          rw [hl'] at htk
          simp at htk
    · -- the frame
      left
      have hg := hgne i ei
      have hib : body w i ≠ u := by
        intro e
        exact ei (inj_body2 hRC.r i t hil htl (e.trans htb'.symm))
      refine ⟨⟨?_, ?_, ?_, ?_⟩, htopo i, hthr i, fun _ => hoth _ (fun h => hib (kI_inj w.prog h))⟩
      · show ((w.ths.unpark t).get i).causality = _
        rw [hg]; rfl
      · exact htrel i
      · show ((w.ths.unpark t).get i).unparkCaus = _
        rw [hg]; rfl
      · show ((w.ths.unpark t).get i).token = _
        rw [hg]; rfl
  · refine nhb_frame (w' := (w.setThs (w.ths.unpark t)).complete .unit) hO (fun _ _ _ _ => rfl) ?_ hcaus10
    intro j
    by_cases e : j = w.tid
    · rw [e, hfinT, hf0]
    · rw [hfinne j e]
  · intro b hb
    refine hoth _ (fun h => hb t htn ?_)
    rw [htb']; exact (kI_inj w.prog h).symm

theorem clk_unpark2 (hRC : RC2 w s) (hact : w.tid < w.ctl.length) {u : Nat} (hop : opAt2 w = some (.unpark u))
    (h : w.runOp (w.ctlOf w.tid) (.unpark u) = .ok w') : RealOut2 w s w' := by
  rw [runOp_unpark] at h
  obtain ⟨t, hto, h⟩ := bind_ok h
  simp only [pure, Except.pure] at h
  cases h
  obtain ⟨htl, htb⟩ := threadOf_ok hRC.r.c hto
  have htb' : body w t = u := htb
  have ht := nthr_tid2 hRC hact
  have hC : pendCv w.prog (w.ctlOf w.tid) = none := pendCv_of_op hop (by simp)
  have hcv : (s.th (body w w.tid)).cvNotified = none := (frag_cv hRC hact hC).2
  have ho : SC.opOf w.prog s (body w w.tid) = some (.unpark u) := (opOf_eq2 hRC.r hact).trans hop
  have hbt := body_lt_ths2 hRC.r hact
  have hut : u < s.ths.length := by rw [← htb']; exact body_lt_ths2 hRC.r htl
  have htid1 : (w.setThs (w.ths.unpark t)).tid = w.tid := unpark_activeId _ _
  obtain ⟨σT, σR, mT, mR, hc⟩ := hRC.clk
  have hpc : pendClk w σT w.tid = VV.zero :=
    pendClk_of_op (by rw [opAtI_tid2]; exact hop) (by intro n; simp) (by simp) (by intro b; simp)
  have hstep := step_unpark hcv ho
  have hfu : ((s.tick (body w w.tid)).th u).finished = decide (10 ≤ fin w t) := by
    rw [fin_tick, ← htb']
    exact (pc_eq2 hRC.r htl).2.1
  rw [hfu] at hstep
  have hX1 := hc.x.tickR hc.gt hc.gr (inj_body2 hRC.r) w.tid hact
  by_cases h10 : 10 ≤ fin w t
  · rw [if_pos (decide_eq_true h10)] at hstep
    have hI := unpark_twin hRC hact hop hto hc.lt (σT' := σT) (fun _ => rfl) (fun _ _ => rfl)
      (fun _ => le_refl _) (fun _ _ => rfl) (le_join_left _ _) (by intro hf; omega)
    refine realOut_complete hRC hact hop (by intro n; simp) _ _ rfl rfl hstep ?_
    refine newSt_complete hact _ .unit htid1 rfl hRC.fs.1 hRC.nd ⟨hI.1, hI.2.1⟩ hI.2.2
      ((hc.lr.tick hbt).ret _ _) hc.gt (hc.gr.tick _) hX1 ?_ hc.mgt ?_
    · intro q hq
      exact (hc.mx q hq).imp fun _ _ hh => hh.ev rfl rfl
    · intro q Z hq hZ
      exact (hc.mgr q Z hq hZ).tick _
  · rw [if_neg (by simpa using h10)] at hstep
    have hI := unpark_twin hRC hact hop hto hc.lt (σT' := σT.rel w.tid (kI w.prog u)) (fun _ => rfl)
      (fun _ _ => rfl)
      (by
        intro m
        show (σT.mtx m).le (upd σT.mtx (kI w.prog u) _ m)
        by_cases e : m = kI w.prog u
        · subst e; rw [upd_self]; exact le_join_left _ _
        · rw [upd_ne _ _ e]; exact le_refl _)
      (by
        intro m hm
        show upd σT.mtx (kI w.prog u) _ m = _
        rw [upd_ne _ _ hm])
      (by
        show (upd σT.mtx (kI w.prog u) _ (kI w.prog u)).le _
        rw [upd_self]; exact le_refl _)
      (by
        intro _
        show (σT.thr w.tid).le (upd σT.mtx (kI w.prog u) _ (kI w.prog u))
        rw [upd_self]; exact le_join_right _ _)
    refine realOut_complete hRC hact hop (by intro n; simp) _ _ rfl rfl hstep ?_
    refine newSt_complete hact _ .unit htid1 rfl hRC.fs.1 hRC.nd ⟨hI.1, hI.2.1⟩ hI.2.2
      (((hc.lr.tick hbt).relK (t := body w w.tid) (u := u) (by rw [tick_len2]; exact hut)).ret _ _)
      (hc.gt.rel _ _) ((hc.gr.tick _).rel _ _) (hX1.rel w.tid hact (kI w.prog u)) ?_ ?_ ?_
    · intro q hq
      exact (hc.mx q hq).imp fun _ _ hh => hh.ev rfl rfl
    · intro q Z hq hZ
      exact (hc.mgt q Z hq hZ).rel _ _
    · intro q Z hq hZ
      exact ((hc.mgr q Z hq hZ).tick _).rel _ _

end

end Race2
end LoomVerif

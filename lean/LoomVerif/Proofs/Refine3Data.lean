/-
Refinement, RESOURCE fragment (lock fragment + the `Arc` API + `Track` / `alloc`), part 1: the data-only projection
`SCData3` of the reference semantics `Spec/SC.lean` — the data of the lock fragment (`Refine.SCData`) plus the
reference counts of the Arcs (`SC.St.arcs` without the release clocks), the handle table and the `tracks` table —,
its labelled step function `SCData3.stepL` (the lock-fragment operations and the end of a thread are those of
`Refine.SCData.stepL`), and the well-formedness predicate `WF3` on programs (decidable).

An Arc operation on an unknown handle, and a decrement of a count that is already 0, have NO successor in the data
semantics: the reference semantics stops with a `misuse` verdict there, the twin panics.
-/
import LoomVerif.Proofs.RefineData
import LoomVerif.Proofs.RefineLift

namespace LoomVerif
namespace Refine3
open Refine

/-! ### the fragment and the well-formedness of programs -/

/-- the `Arc` operations -/
def isArcOp : Op → Bool
  | .arcNew _ | .arcClone .. | .arcDrop _ | .arcCount _ | .arcGetMut _ | .arcUnwrap _ | .arcIntoRaw _
  | .arcFromRaw _ | .arcInc _ | .arcDec _ | .arcPtrEq .. => true
  | _ => false

/-- the `Track` / `alloc` operations -/
def isTrkOp : Op → Bool
  | .trackNew _ | .trackDrop _ | .alloc _ | .dealloc _ => true
  | _ => false

/-- the operations of the resource fragment -/
def isFrag3 (op : Op) : Bool := isFrag op || isArcOp op || isTrkOp op

/-- operation `op` is in the fragment and its arguments are in range for program `p` (handles and slots are
names: any number is fine) -/
def opOk3 (p : Prog) (op : Op) : Bool := opOk p op || isArcOp op || isTrkOp op

/-- the slot a `Track` operation names -/
def trackSlot : Op → Option Nat
  | .trackNew k | .trackDrop k => some k
  | _ => none

/-- the slot an `alloc` / `dealloc` names -/
def allocSlot : Op → Option Nat
  | .alloc k | .dealloc k => some k
  | _ => none

def allOps (p : Prog) : List Op := p.threads.flatten

/-- `k` is named by a `trackNew` / `trackDrop` of the program text -/
def isTrackSlot (p : Prog) (k : Nat) : Prop := ∃ op ∈ allOps p, trackSlot op = some k
/-- `k` is named by an `alloc` / `dealloc` of the program text -/
def isAllocSlot (p : Prog) (k : Nat) : Prop := ∃ op ∈ allOps p, allocSlot op = some k

/-- no slot number is used both for a `Track` value and for a raw allocation (the reference semantics keeps ONE
table `tracks` for both, the twin two: `World.tracks`, `World.rawAllocs`) -/
def SlotsDisjoint (p : Prog) : Prop :=
  ∀ op ∈ allOps p, ∀ op' ∈ allOps p, ((trackSlot op).isNone || trackSlot op != allocSlot op') = true

instance (p : Prog) : Decidable (SlotsDisjoint p) := by unfold SlotsDisjoint; infer_instance

/-- every operation of every body is a fragment operation with arguments in range -/
def OpsOk3 (p : Prog) : Prop :=
  ∀ a, a < p.threads.length → ∀ k, k < (p.threads.getD a []).length →
    ((p.threads.getD a [])[k]?.all (opOk3 p)) = true

instance (p : Prog) : Decidable (OpsOk3 p) := by unfold OpsOk3; infer_instance

/-- well-formed programs of the resource fragment: a main body; only fragment operations, with declared cells /
mutexes and `spawn t` naming an existing body `0 < t`; each body spawned by at most one operation of the text;
`Track` slots and raw-allocation slots are disjoint -/
def WF3 (p : Prog) : Prop := 0 < p.threads.length ∧ OpsOk3 p ∧ SpawnOnce p ∧ SlotsDisjoint p

instance (p : Prog) : Decidable (WF3 p) := by unfold WF3; infer_instance

theorem pos_bound {p : Prog} {a k : Nat} {op : Op} (hop : (p.threads.getD a [])[k]? = some op) :
    a < p.threads.length ∧ k < (p.threads.getD a []).length := by
  have hk : k < (p.threads.getD a []).length := (List.getElem?_eq_some_iff.1 hop).1
  refine ⟨?_, hk⟩
  apply Classical.byContradiction
  intro hn
  have : p.threads[a]? = none := List.getElem?_eq_none (by omega)
  simp [List.getD, this] at hk

theorem mem_allOps {p : Prog} {a k : Nat} {op : Op} (hop : (p.threads.getD a [])[k]? = some op) :
    op ∈ allOps p := by
  obtain ⟨ha, _⟩ := pos_bound hop
  unfold allOps
  rw [List.mem_flatten]
  refine ⟨p.threads.getD a [], ?_, List.mem_of_getElem? hop⟩
  have : p.threads.getD a [] = p.threads[a] := by simp [List.getD, List.getElem?_eq_getElem ha]
  rw [this]; exact List.getElem_mem ha

theorem WF3.opOk {p : Prog} (h : WF3 p) {a k : Nat} {op : Op}
    (hop : (p.threads.getD a [])[k]? = some op) : opOk3 p op = true := by
  obtain ⟨ha, hk⟩ := pos_bound hop
  have := h.2.1 a ha k hk
  rw [hop] at this
  simpa using this

theorem WF3.spawn_unique {p : Prog} (h : WF3 p) {a k a' k' b : Nat}
    (h1 : (p.threads.getD a [])[k]? = some (.spawn b))
    (h2 : (p.threads.getD a' [])[k']? = some (.spawn b)) : a = a' ∧ k = k' := by
  obtain ⟨ha, hk⟩ := pos_bound h1
  obtain ⟨ha', hk'⟩ := pos_bound h2
  have e1 : spawnAt p a k = some b := by simp only [spawnAt, h1]
  have e2 : spawnAt p a' k' = some b := by simp only [spawnAt, h2]
  have := h.2.2.1 a ha k hk a' ha' k' hk'
  simpa [spawnPairOk, e1, e2] using this

/-- a `Track` slot is not a raw-allocation slot -/
theorem WF3.disjoint {p : Prog} (h : WF3 p) {k : Nat} (h1 : isTrackSlot p k) (h2 : isAllocSlot p k) : False := by
  obtain ⟨op, hm, e⟩ := h1
  obtain ⟨op', hm', e'⟩ := h2
  have := h.2.2.2 op hm op' hm'
  rw [e, e'] at this
  simp at this

/-! ### the data of a reference state -/

/-- the data of a reference state the resource fragment can observe: no clocks -/
structure SCData3 where
  ths : List DTh
  cells : List Int
  mutex : List (Option Nat)
  /-- strong count of each Arc, in creation order -/
  arcs : List Nat
  /-- handle ↦ Arc -/
  handles : List (Nat × Nat)
  /-- slot ↦ dropped -/
  tracks : List (Nat × Bool)
deriving DecidableEq, Repr, Inhabited

/-- the data-only projection of a reference state -/
def data3 (s : SC.St) : SCData3 :=
  { ths := s.ths.map dth, cells := s.cells, mutex := s.mutex, arcs := s.arcs.map (·.1), handles := s.handles,
    tracks := s.tracks }

namespace SCData3

/-- the lock-fragment part -/
def base (d : SCData3) : SCData := { ths := d.ths, cells := d.cells, mutex := d.mutex }
def withBase (d : SCData3) (b : SCData) : SCData3 := { d with ths := b.ths, cells := b.cells, mutex := b.mutex }

def th (d : SCData3) (t : Nat) : DTh := d.ths.getD t {}
def modTh (d : SCData3) (t : Nat) (f : DTh → DTh) : SCData3 := { d with ths := d.ths.modify t f }
/-- the operation completes with result `r` (`SC.St.ret`) -/
def ret (d : SCData3) (t : Nat) (r : Ret) : SCData3 :=
  d.modTh t fun h => { h with rets := (h.pc, r) :: h.rets, pc := h.pc + 1 }
def opOf (p : Prog) (d : SCData3) (t : Nat) : Option Op := (p.threads.getD t [])[(d.th t).pc]?
def arcOf (d : SCData3) (h : Nat) : Option Nat := d.handles.lookup h
/-- the table after binding `k` to `v` (`(k, v) :: l.filter (·.1 != k)`) -/
def bind {β} (l : List (Nat × β)) (k : Nat) (v : β) : List (Nat × β) := (k, v) :: l.filter (·.1 != k)
def unbind {β} (l : List (Nat × β)) (k : Nat) : List (Nat × β) := l.filter (·.1 != k)

/-- `SC.enabled` on the data: only `lock` and `join` can be disabled -/
def enabled (p : Prog) (d : SCData3) (t : Nat) : Bool := SCData.enabled p d.base t

/-- `SC.step` on the data, for the operations of the resource fragment: the successor states, each with the
`(pc, result)` the step records -/
def stepL (p : Prog) (d : SCData3) (t : Nat) : List (Option (Nat × Ret) × SCData3) :=
  let pc := (d.th t).pc
  match opOf p d t with
  | some (.arcNew hd) =>
    [(some (pc, .unit), ({ d with arcs := d.arcs ++ [1], handles := bind d.handles hd d.arcs.length }).ret t .unit)]
  | some (.arcClone hd h2) =>
    match arcOf d hd with
    | none => []
    | some a =>
      [(some (pc, .unit),
        ({ d with arcs := d.arcs.set a (d.arcs.getD a 0 + 1), handles := bind d.handles h2 a }).ret t .unit)]
  | some (.arcDrop hd) =>
    match arcOf d hd with
    | none => []
    | some a =>
      match d.arcs[a]? with
      | none => []
      | some n =>
        if n == 0 then [] else
        [(some (pc, SC.bool01 (n == 1)),
          ({ d with arcs := d.arcs.set a (n - 1), handles := unbind d.handles hd }).ret t (SC.bool01 (n == 1)))]
  | some (.arcCount hd) =>
    match arcOf d hd with
    | none => []
    | some a => [(some (pc, .val (d.arcs.getD a 0)), d.ret t (.val (d.arcs.getD a 0)))]
  | some (.arcGetMut hd) =>
    match arcOf d hd with
    | none => []
    | some a => [(some (pc, SC.bool01 (d.arcs.getD a 0 == 1)), d.ret t (SC.bool01 (d.arcs.getD a 0 == 1)))]
  | some (.arcUnwrap hd) =>
    match arcOf d hd with
    | none => []
    | some a =>
      if d.arcs.getD a 0 == 1 then
        [(some (pc, .ok 0), ({ d with arcs := d.arcs.set a 0, handles := unbind d.handles hd }).ret t (.ok 0))]
      else [(some (pc, .err 0), d.ret t (.err 0))]
  | some (.arcIntoRaw _) | some (.arcFromRaw _) => [(some (pc, .unit), d.ret t .unit)]
  | some (.arcInc hd) =>
    match arcOf d hd with
    | none => []
    | some a => [(some (pc, .unit), ({ d with arcs := d.arcs.set a (d.arcs.getD a 0 + 1) }).ret t .unit)]
  | some (.arcDec hd) =>
    match arcOf d hd with
    | none => []
    | some a =>
      match d.arcs[a]? with
      | none => []
      | some n =>
        if n == 0 then [] else
        [(some (pc, SC.bool01 (n == 1)), ({ d with arcs := d.arcs.set a (n - 1) }).ret t (SC.bool01 (n == 1)))]
  | some (.arcPtrEq hd h2) =>
    [(some (pc, SC.bool01 (arcOf d hd == arcOf d h2)), d.ret t (SC.bool01 (arcOf d hd == arcOf d h2)))]
  | some (.trackNew k) | some (.alloc k) =>
    [(some (pc, .unit), ({ d with tracks := bind d.tracks k false }).ret t .unit)]
  | some (.trackDrop k) | some (.dealloc k) =>
    [(some (pc, .unit), ({ d with tracks := bind d.tracks k true }).ret t .unit)]
  | _ => (SCData.stepL p d.base t).map fun x => (x.1, d.withBase x.2)

def step (p : Prog) (d : SCData3) (t : Nat) : List SCData3 := (stepL p d t).map (·.2)

/-- executions of the data semantics with the trace of `(thread, pc, result)` triples they record, oldest first:
every step is a step of an enabled thread -/
inductive Run (p : Prog) : SCData3 → List (Nat × Nat × Ret) → SCData3 → Prop
  | nil (d : SCData3) : Run p d [] d
  | step {d d1 d2 : SCData3} {tr : List (Nat × Nat × Ret)} {t : Nat} {l : Option (Nat × Ret)} :
      Run p d tr d1 → enabled p d1 t = true → (l, d2) ∈ stepL p d1 t → Run p d (tr ++ SCData.label t l) d2

/-- `SC.leaks` on the data (the resource fragment has no futures and no channel messages) -/
def leaks (d : SCData3) : Bool := d.arcs.any (· != 0) || d.tracks.any (!·.2)

theorem base_th (d : SCData3) (t : Nat) : d.base.th t = d.th t := rfl
theorem base_opOf (p : Prog) (d : SCData3) (t : Nat) : SCData.opOf p d.base t = opOf p d t := rfl
theorem withBase_base (d : SCData3) : d.withBase d.base = d := rfl

theorem th_ret_self (d : SCData3) (t : Nat) (r : Ret) (ht : t < d.ths.length) :
    (d.ret t r).th t = { d.th t with rets := ((d.th t).pc, r) :: (d.th t).rets, pc := (d.th t).pc + 1 } := by
  simp [ret, modTh, th, List.getD, List.getElem?_eq_getElem ht]

end SCData3

theorem data3_base (s : SC.St) : (data3 s).base = data s := rfl

end Refine3
end LoomVerif

/-
Refinement, STATICS fragment, part 2: the components of the abstraction relation `R5`.

* `RX5`: the control part (that of `Refine.RX`), which now also relates the thread-locals of a twin thread
  (`TCtl.locals : List (Nat × Option Nat)`, `none` = destroyed) to the thread-locals of the reference thread of its
  body (`LocRel`): the two lists have the same keys in the same order at all times; while the thread has not reached
  the point of its epilogue that corresponds to the reference's `finish` step (`finD`) they agree entry by entry (same
  instance ids, all live); afterwards every entry of the twin is destroyed, except (`tlsdtor=2`) a value of key 1 that
  the destructor of key 0 re-initialised.
* `finD i c`: thread `i` has taken its `finish` step: a spawned thread when its first `drop_locals` pass has run
  (`fin ≠ 0`; the notification of the joiner follows), the main thread when its `drop_locals` has run (`11 ≤ fin`;
  `lazy_statics.drop()` comes one stage earlier, with no scheduling point in between).
* `RT`: the harness counters: `tlsInits` and `tlsObs` agree; the reference's `tlsDrops[k]` counts the threads that
  have taken their `finish` step and own key `k`.  `RCnt`: the twin's counters count threads (`tlsInits[k]`: the
  threads that have touched `k`; `tlsDrops[k]`: the destroyed values of key `k`).  `RLazy`: the lazy-statics table.
  `noStale`: no finished thread owns a live value of key `k` (then the two `tlsDrops[k]` agree).
* `Quiet5`: a step that changes nothing the relation reads.
-/
import LoomVerif.Proofs.Refine5Data
import LoomVerif.Proofs.RefineStep2
import LoomVerif.Proofs.C17Tls
import LoomVerif.Proofs.C17Lazy

namespace LoomVerif
namespace Refine5
open Refine Sy

/-! ### lists -/

theorem countP_modify {α} (p : α → Bool) (l : List α) (t : Nat) (f : α → α) (d : α) (ht : t < l.length) :
    (l.modify t f).countP p + (if p (l.getD t d) then 1 else 0) =
      l.countP p + (if p (f (l.getD t d)) then 1 else 0) := by
  induction l generalizing t with
  | nil => simp at ht
  | cons a l ih =>
    cases t with
    | zero =>
      simp only [List.modify_zero_cons, List.countP_cons, List.getD_cons_zero]
      omega
    | succ t =>
      have ht' : t < l.length := by simpa using ht
      have := ih t ht'
      simp only [List.modify_succ_cons, List.countP_cons, List.getD_cons_succ]
      omega

/-- the predicate has the same value on the rewritten element -/
theorem countP_modify_same {α} (p : α → Bool) (l : List α) (t : Nat) (f : α → α) (d : α)
    (h : t < l.length → p (f (l.getD t d)) = p (l.getD t d)) : (l.modify t f).countP p = l.countP p := by
  by_cases ht : t < l.length
  · have := countP_modify p l t f d ht
    rw [h ht] at this
    omega
  · rw [List.modify_eq_self (by omega)]

/-- the predicate becomes true on the rewritten element -/
theorem countP_modify_up {α} (p : α → Bool) (l : List α) (t : Nat) (f : α → α) (d : α) (ht : t < l.length)
    (h0 : p (l.getD t d) = false) (h1 : p (f (l.getD t d)) = true) :
    (l.modify t f).countP p = l.countP p + 1 := by
  have := countP_modify p l t f d ht
  rw [h0, h1] at this
  simpa using this

theorem lookup_map_some (L : List (Nat × Nat)) (k : Nat) :
    (L.map fun e => (e.1, some e.2)).lookup k = (L.lookup k).map some := by
  induction L with
  | nil => rfl
  | cons x xs ih =>
    obtain ⟨a, b⟩ := x
    simp only [List.map_cons, List.lookup]
    split
    · rfl
    · exact ih

theorem lookup_none_not_mem (L : List (Nat × Nat)) (k : Nat) (h : L.lookup k = none) : k ∉ L.map (·.1) := by
  induction L with
  | nil => simp
  | cons x xs ih =>
    obtain ⟨a, b⟩ := x
    simp only [List.lookup] at h
    split at h
    · cases h
    · next hne =>
      simp only [List.map_cons, List.mem_cons, not_or]
      refine ⟨?_, ih h⟩
      intro e
      subst e
      simp at hne

theorem lookup_isSome_iff (L : List (Nat × Nat)) (k : Nat) : (L.lookup k).isSome = (L.map (·.1)).contains k := by
  induction L with
  | nil => rfl
  | cons x xs ih =>
    obtain ⟨a, b⟩ := x
    simp only [List.lookup, List.map_cons, List.contains_cons]
    by_cases e : k = a
    · subst e; simp
    · have : (k == a) = false := by simpa using e
      simp only [this, Bool.false_or]
      exact ih

/-! ### the control part of the relation -/

/-- thread `i` has taken the step of its epilogue that corresponds to the reference's `finish` -/
def finD (i : Nat) (c : TCtl) : Bool := if i = 0 then decide (11 ≤ c.fin) else decide (c.fin ≠ 0)

/-- the operation a control record is at -/
def opOfCtl (p : Prog) (c : TCtl) : Option Op := (p.threads.getD c.body [])[c.pc]?

/-- the last stage of an operation -/
def maxStage5 : Option Op → Nat
  | some (.lock _) | some (.tryLock _) | some (.join _) => 1
  | _ => 0

/-- the thread-locals of a twin thread (`cl`) and of the reference thread of its body (`L`); `d2`: the destructor of
key 0 probes key 1 (`tlsdtor=2`) and may re-initialise it -/
structure LocRel (d2 : Bool) (fin : Bool) (cl : List (Nat × Option Nat)) (L : List (Nat × Nat)) : Prop where
  /-- before the `finish` step: the same entries, all live -/
  live : fin = false → cl = L.map fun e => (e.1, some e.2)
  /-- after it: every entry of the twin is destroyed, except (`tlsdtor=2`) a value of key 1 that the destructor of
  key 0 has initialised (the twin destroys it one `drop_locals` pass later — never, for the main thread) -/
  dead : fin = true → ∀ e ∈ cl, e.2 = none ∨ (d2 = true ∧ e.1 = 1)
  keys : ∀ e ∈ L, e.1 < 2
  nodup : (L.map (·.1)).Nodup
  /-- at all times: the same keys, in the same order -/
  keysEq : cl.map (·.1) = L.map (·.1)

theorem LocRel.nil (d2 : Bool) : LocRel d2 false [] [] :=
  ⟨fun _ => rfl, fun h => (by cases h), fun e he => (by cases he), List.nodup_nil, rfl⟩

/-- twin control record `c` of thread `i` ↔ data `h`, thread-locals `L` of the body it runs -/
def ThRel5 (p : Prog) (i : Nat) (c : TCtl) (h : DTh) (L : List (Nat × Nat)) : Prop :=
  h.started = true ∧ h.pc = c.pc ∧ h.rets = c.results ∧ h.finished = finD i c ∧
    c.stage ≤ maxStage5 (opOfCtl p c) ∧ c.dtorQueue = [] ∧ LocRel (p.cfg.tlsDtor == 2) (finD i c) c.locals L

structure RX5 (p : Prog) (ctl : List TCtl) (ths : List DTh) (locs : List (List (Nat × Nat))) : Prop where
  len : ths.length = p.threads.length
  lenL : locs.length = p.threads.length
  main : 0 < ctl.length ∧ (ctl.getD 0 {}).body = 0
  thr : ∀ i, i < ctl.length → (ctl.getD i {}).body < p.threads.length ∧
    ThRel5 p i (ctl.getD i {}) (ths.getD (ctl.getD i {}).body {}) (locs.getD (ctl.getD i {}).body [])
  epi : ∀ i, i < ctl.length → (ctl.getD i {}).fin ≠ 0 → opOfCtl p (ctl.getD i {}) = none
  inj : ∀ i j, i < ctl.length → j < ctl.length → (ctl.getD i {}).body = (ctl.getD j {}).body → i = j
  idle : ∀ b, b < p.threads.length → (∀ i, i < ctl.length → (ctl.getD i {}).body ≠ b) →
    ths.getD b {} = {} ∧ locs.getD b [] = []
  past : ∀ i, 0 < i → i < ctl.length → ∃ j k, j < ctl.length ∧ k < (ctl.getD j {}).pc ∧
    (p.threads.getD (ctl.getD j {}).body [])[k]? = some (.spawn (ctl.getD i {}).body)

theorem RX5.modify {p : Prog} {ctl : List TCtl} {ths : List DTh} {locs : List (List (Nat × Nat))}
    (h : RX5 p ctl ths locs) {t : Nat}
    (ht : t < ctl.length) (f : TCtl → TCtl) (g : DTh → DTh) (gl : List (Nat × Nat) → List (Nat × Nat))
    (hbody : (f (ctl.getD t {})).body = (ctl.getD t {}).body)
    (hpc : (ctl.getD t {}).pc ≤ (f (ctl.getD t {})).pc)
    (hrel : ThRel5 p t (f (ctl.getD t {})) (g (ths.getD (ctl.getD t {}).body {}))
      (gl (locs.getD (ctl.getD t {}).body [])))
    (hepi : (f (ctl.getD t {})).fin ≠ 0 → opOfCtl p (f (ctl.getD t {})) = none) :
    RX5 p (ctl.modify t f) (ths.modify (ctl.getD t {}).body g) (locs.modify (ctl.getD t {}).body gl) := by
  have hlen : (ctl.modify t f).length = ctl.length := by simp
  have hbl : (ctl.getD t {}).body < ths.length := by rw [h.len]; exact (h.thr t ht).1
  have hbl2 : (ctl.getD t {}).body < locs.length := by rw [h.lenL]; exact (h.thr t ht).1
  have body_eq : ∀ i, ((ctl.modify t f).getD i {}).body = (ctl.getD i {}).body := by
    intro i
    by_cases hi : i = t
    · subst hi; rw [getD_modify_self _ _ _ _ ht]; exact hbody
    · rw [getD_modify_ne _ _ _ _ _ hi]
  have pc_le : ∀ i, (ctl.getD i {}).pc ≤ ((ctl.modify t f).getD i {}).pc := by
    intro i
    by_cases hi : i = t
    · subst hi; rw [getD_modify_self _ _ _ _ ht]; exact hpc
    · rw [getD_modify_ne _ _ _ _ _ hi]; exact Nat.le_refl _
  refine ⟨by simpa using h.len, by simpa using h.lenL,
    ⟨by rw [hlen]; exact h.main.1, by rw [body_eq]; exact h.main.2⟩, ?_, ?_, ?_, ?_, ?_⟩
  · intro i hi
    rw [hlen] at hi
    rw [body_eq]
    refine ⟨(h.thr i hi).1, ?_⟩
    by_cases hit : i = t
    · subst hit
      rw [getD_modify_self _ _ _ _ ht, getD_modify_self _ _ _ _ hbl, getD_modify_self _ _ _ _ hbl2]
      exact hrel
    · have hne : (ctl.getD i {}).body ≠ (ctl.getD t {}).body := fun e => hit (h.inj i t hi ht e)
      rw [getD_modify_ne _ _ _ _ _ hit, getD_modify_ne _ _ _ _ _ hne, getD_modify_ne _ _ _ _ _ hne]
      exact (h.thr i hi).2
  · intro i hi
    rw [hlen] at hi
    by_cases hit : i = t
    · subst hit
      rw [getD_modify_self _ _ _ _ ht]
      exact hepi
    · rw [getD_modify_ne _ _ _ _ _ hit]
      exact h.epi i hi
  · intro i j hi hj
    rw [hlen] at hi hj
    rw [body_eq, body_eq]
    exact h.inj i j hi hj
  · intro b hb hidle
    have hidle' : ∀ i, i < ctl.length → (ctl.getD i {}).body ≠ b := by
      intro i hi
      have := hidle i (by rw [hlen]; exact hi)
      rw [body_eq] at this; exact this
    have hne : b ≠ (ctl.getD t {}).body := fun e => hidle' t ht e.symm
    rw [getD_modify_ne _ _ _ _ _ hne, getD_modify_ne _ _ _ _ _ hne]
    exact h.idle b hb hidle'
  · intro i hi0 hi
    rw [hlen] at hi
    obtain ⟨j, k, hj, hk, hop⟩ := h.past i hi0 hi
    refine ⟨j, k, by rw [hlen]; exact hj, Nat.lt_of_lt_of_le hk (pc_le j), ?_⟩
    rw [body_eq, body_eq]; exact hop

theorem RX5.stutter {p : Prog} {ctl : List TCtl} {ths : List DTh} {locs : List (List (Nat × Nat))}
    (h : RX5 p ctl ths locs) {t : Nat}
    (ht : t < ctl.length) (f : TCtl → TCtl)
    (hbody : (f (ctl.getD t {})).body = (ctl.getD t {}).body)
    (hpc : (ctl.getD t {}).pc ≤ (f (ctl.getD t {})).pc)
    (hrel : ThRel5 p t (f (ctl.getD t {})) (ths.getD (ctl.getD t {}).body {}) (locs.getD (ctl.getD t {}).body []))
    (hepi : (f (ctl.getD t {})).fin ≠ 0 → opOfCtl p (f (ctl.getD t {})) = none) :
    RX5 p (ctl.modify t f) ths locs := by
  have := h.modify ht f id id hbody hpc hrel hepi
  rwa [modify_id' _ _ id (fun _ => rfl), modify_id' _ _ id (fun _ => rfl)] at this

/-- `spawn b`: a new twin thread running body `b`, which no thread ran before -/
theorem RX5.append {p : Prog} {ctl : List TCtl} {ths : List DTh} {locs : List (List (Nat × Nat))}
    (h : RX5 p ctl ths locs) {b : Nat}
    (hb : b < p.threads.length)
    (hidle : ∀ i, i < ctl.length → (ctl.getD i {}).body ≠ b)
    (hpast : ∃ j k, j < ctl.length ∧ k < (ctl.getD j {}).pc ∧
      (p.threads.getD (ctl.getD j {}).body [])[k]? = some (.spawn b)) :
    RX5 p (ctl ++ [({ body := b } : TCtl)]) (ths.modify b fun h => { h with started := true }) locs := by
  have hlen : (ctl ++ [({ body := b } : TCtl)]).length = ctl.length + 1 := by simp
  have old : ∀ i, i < ctl.length → (ctl ++ [({ body := b } : TCtl)]).getD i {} = ctl.getD i {} :=
    fun i hi => getD_append_left _ _ _ _ hi
  have new : (ctl ++ [({ body := b } : TCtl)]).getD ctl.length {} = { body := b } := getD_append_new _ _ _
  have hbl : b < ths.length := by rw [h.len]; exact hb
  refine ⟨by simpa using h.len, h.lenL, ⟨by omega, by rw [old 0 h.main.1]; exact h.main.2⟩, ?_, ?_, ?_, ?_, ?_⟩
  · intro i hi
    rw [hlen] at hi
    by_cases hin : i < ctl.length
    · rw [old i hin]
      refine ⟨(h.thr i hin).1, ?_⟩
      rw [getD_modify_ne _ _ _ _ _ (hidle i hin)]
      exact (h.thr i hin).2
    · have : i = ctl.length := by omega
      subst this
      rw [new]
      refine ⟨hb, ?_⟩
      rw [getD_modify_self _ _ _ _ hbl, (h.idle b hb hidle).1, (h.idle b hb hidle).2]
      have hf : finD ctl.length ({ body := b } : TCtl) = false := by
        unfold finD
        split <;> rfl
      refine ⟨rfl, rfl, rfl, hf.symm, Nat.zero_le _, rfl, ?_⟩
      rw [hf]
      exact LocRel.nil _
  · intro i hi
    rw [hlen] at hi
    by_cases hin : i < ctl.length
    · rw [old i hin]; exact h.epi i hin
    · have : i = ctl.length := by omega
      subst this
      rw [new]
      intro hne; exact absurd rfl hne
  · intro i j hi hj
    rw [hlen] at hi hj
    by_cases hin : i < ctl.length <;> by_cases hjn : j < ctl.length
    · rw [old i hin, old j hjn]; exact h.inj i j hin hjn
    · have : j = ctl.length := by omega
      subst this
      rw [old i hin, new]; intro e; exact absurd e (hidle i hin)
    · have : i = ctl.length := by omega
      subst this
      rw [old j hjn, new]; intro e; exact absurd e.symm (hidle j hjn)
    · omega
  · intro b' hb' hidle'
    have hne : b' ≠ b := by
      intro e
      have := hidle' ctl.length (by omega)
      rw [new] at this; exact this e.symm
    rw [getD_modify_ne _ _ _ _ _ hne]
    apply h.idle b' hb'
    intro i hi
    have := hidle' i (by omega)
    rwa [old i hi] at this
  · intro i hi0 hi
    rw [hlen] at hi
    by_cases hin : i < ctl.length
    · obtain ⟨j, k, hj, hk, hop⟩ := h.past i hi0 hin
      refine ⟨j, k, by omega, ?_, ?_⟩
      · rw [old j hj]; exact hk
      · rw [old j hj, old i hin]; exact hop
    · have : i = ctl.length := by omega
      subst this
      obtain ⟨j, k, hj, hk, hop⟩ := hpast
      refine ⟨j, k, by omega, ?_, ?_⟩
      · rw [old j hj]; exact hk
      · rw [old j hj, new]; exact hop

theorem RX5.spawn_fresh {p : Prog} {ctl : List TCtl} {ths : List DTh} {locs : List (List (Nat × Nat))}
    (h : RX5 p ctl ths locs) (hwf : WF5 p)
    {t b : Nat} (ht : t < ctl.length)
    (hop : opOfCtl p (ctl.getD t {}) = some (.spawn b)) :
    0 < b ∧ b < p.threads.length ∧ ∀ i, i < ctl.length → (ctl.getD i {}).body ≠ b := by
  have hok := hwf.opOk hop
  simp only [opOk5, opOk, Bool.and_eq_true, decide_eq_true_eq] at hok
  refine ⟨hok.1, hok.2, ?_⟩
  intro i hi e
  by_cases hi0 : i = 0
  · subst hi0
    rw [h.main.2] at e
    omega
  · obtain ⟨j, k, hj, hk, hop'⟩ := h.past i (by omega) hi
    rw [e] at hop'
    obtain ⟨e1, e2⟩ := hwf.spawn_unique hop hop'
    have := h.inj t j ht hj e1
    subst this
    omega

/-- the main thread runs body 0 and no other thread does -/
theorem RX5.body_zero {p : Prog} {ctl : List TCtl} {ths : List DTh} {locs : List (List (Nat × Nat))}
    (h : RX5 p ctl ths locs) {i : Nat} (hi : i < ctl.length) : (ctl.getD i {}).body = 0 ↔ i = 0 := by
  constructor
  · intro e
    exact h.inj i 0 hi h.main.1 (e.trans h.main.2.symm)
  · intro e; subst e; exact h.main.2

/-! ### the counters -/

/-- thread `c` has initialised key `k` at some point -/
def touched (k : Nat) (c : TCtl) : Bool := (c.locals.lookup k).isSome
/-- the value of key `k` of thread `c` has been destroyed -/
def destroyed (k : Nat) (c : TCtl) : Bool := c.locals.lookup k == some none
/-- thread `c` has a live value of key `k` -/
def liveK (k : Nat) (c : TCtl) : Bool :=
  match c.locals.lookup k with
  | some (some _) => true
  | _ => false

/-- `finD` in terms of the body the thread runs (the main thread runs body 0, and only it) -/
def finB (c : TCtl) : Bool := if c.body = 0 then decide (11 ≤ c.fin) else decide (c.fin ≠ 0)

theorem finB_eq_finD {i : Nat} {c : TCtl} (h : c.body = 0 ↔ i = 0) : finB c = finD i c := by
  unfold finB finD
  by_cases e : i = 0
  · rw [if_pos (h.2 e), if_pos e]
  · rw [if_neg (fun e' => e (h.1 e')), if_neg e]

/-- the harness counters of the twin and of the reference state: `tlsInits` and `tlsObs` agree; the reference's
`tlsDrops[k]` counts the threads that have taken their `finish` step and own key `k` (the twin's `tlsDrops[k]` counts
the destroyed values, `RCnt`: it lags behind while a value re-initialised by a destructor is alive) -/
structure RT (ctl : List TCtl) (tI tO sI sD sO : List Nat) : Prop where
  eI : tI = sI
  eO : tO = sO
  lI : sI.length = 2
  lD : sD.length = 2
  cD : ∀ k, k < 2 → sD.getD k 0 = ctl.countP fun c => finB c && touched k c

/-- a rewrite of one control record that keeps `finB` and the keys it has touched -/
theorem RT.modify {ctl : List TCtl} {tI tO sI sD sO : List Nat} (h : RT ctl tI tO sI sD sO) (t : Nat)
    (f : TCtl → TCtl) (hf : finB (f (ctl.getD t {})) = finB (ctl.getD t {}))
    (ht : ∀ k, touched k (f (ctl.getD t {})) = touched k (ctl.getD t {})) : RT (ctl.modify t f) tI tO sI sD sO := by
  refine ⟨h.eI, h.eO, h.lI, h.lD, fun k hk => ?_⟩
  rw [h.cD k hk, countP_modify_same _ _ _ _ {}]
  intro _
  rw [hf, ht k]

theorem RT.append {ctl : List TCtl} {tI tO sI sD sO : List Nat} (h : RT ctl tI tO sI sD sO) (c : TCtl)
    (hc : c.locals = []) : RT (ctl ++ [c]) tI tO sI sD sO := by
  refine ⟨h.eI, h.eO, h.lI, h.lD, fun k hk => ?_⟩
  rw [h.cD k hk, List.countP_append]
  simp [touched, hc]

/-- the counters count threads: `tlsInits[k]` the threads that have initialised key `k`, `tlsDrops[k]` those whose
value of key `k` has been destroyed -/
structure RCnt (ctl : List TCtl) (tI tD : List Nat) : Prop where
  inits : ∀ k, k < 2 → tI.getD k 0 = ctl.countP (touched k)
  drops : ∀ k, k < 2 → tD.getD k 0 = ctl.countP (destroyed k)
  lenD : tD.length = 2

/-- a rewrite of one control record that keeps its thread-locals -/
theorem RCnt.modify {ctl : List TCtl} {tI tD : List Nat} (h : RCnt ctl tI tD) (t : Nat) (f : TCtl → TCtl)
    (hf : (f (ctl.getD t {})).locals = (ctl.getD t {}).locals) : RCnt (ctl.modify t f) tI tD := by
  refine ⟨fun k hk => ?_, fun k hk => ?_, h.lenD⟩
  · rw [h.inits k hk, countP_modify_same _ _ _ _ {}]
    intro _; unfold touched; rw [hf]
  · rw [h.drops k hk, countP_modify_same _ _ _ _ {}]
    intro _; unfold destroyed; rw [hf]

theorem RCnt.append {ctl : List TCtl} {tI tD : List Nat} (h : RCnt ctl tI tD) (c : TCtl) (hc : c.locals = []) :
    RCnt (ctl ++ [c]) tI tD := by
  refine ⟨fun k hk => ?_, fun k hk => ?_, h.lenD⟩
  · rw [h.inits k hk, List.countP_append]
    simp [touched, hc]
  · rw [h.drops k hk, List.countP_append]
    simp [destroyed, hc]

/-- no thread that has taken its `finish` step still owns a live value of key `k` (computable) -/
def noStale (ctl : List TCtl) (k : Nat) : Bool := ctl.all fun c => !(finB c && liveK k c)

/-! ### the lazy statics -/

/-- the cells of the lazy statics (they live beyond the cells the program declares) look the same -/
def LazyLe (p : Prog) (os os' : List Obj) : Prop :=
  ∀ n v, p.cfg.nAtomics + p.cfg.nCells ≤ n → objView os n = some (.cell v) → objView os' n = some (.cell v)

theorem LazyLe.refl (p : Prog) (os : List Obj) : LazyLe p os os := fun _ _ _ h => h

theorem LazyLe.of_viewLe {p : Prog} {os os' : List Obj} (h : ViewLe os os') : LazyLe p os os' :=
  fun n _ _ hv => h n _ hv

theorem LazyLe.trans {p : Prog} {a b c : List Obj} (h1 : LazyLe p a b) (h2 : LazyLe p b c) : LazyLe p a c :=
  fun n v hn hv => h2 n v hn (h1 n v hn hv)

/-- a declared cell is replaced -/
theorem LazyLe.set_low {p : Prog} (os : List Obj) {o : Nat} (x : Obj) (ho : o < p.cfg.nAtomics + p.cfg.nCells) :
    LazyLe p os (os.set o x) := by
  intro n _ hn hv
  rw [objView_set_ne _ _ (by omega)]; exact hv

/-- an object that is not a cell is replaced -/
theorem LazyLe.set_other {p : Prog} {os : List Obj} {o : Nat} {v0 : OV} (x : Obj) (ho : objView os o = some v0)
    (hv0 : ∀ c, v0 ≠ .cell c) : LazyLe p os (os.set o x) := by
  intro n v hn hv
  by_cases e : n = o
  · subst e
    rw [ho] at hv
    cases hv
    exact absurd rfl (hv0 v)
  · rw [objView_set_ne _ _ e]; exact hv

/-- the lazy-statics table of the twin ↔ `lazyInit` / `lazyDropped` of the reference state.  `fin0` is the epilogue
stage of the main thread: `lazy_statics.drop()` happens one stage (`fin0 = 10`) before the reference's `finish` step
of the main thread. -/
structure RLazy (p : Prog) (objs : List Obj) (statics : Option (List (Nat × LazyVal))) (lazyInits : List Nat)
    (fin0 : Nat) (sInit : List Nat) (sDropped : Bool) : Prop where
  len : sInit.length = 2
  eqI : lazyInits = sInit
  /-- while the table exists: a static is registered iff the reference has initialised it -/
  live : ∀ l, statics = some l → sDropped = false ∧ ∀ z, sInit.getD z 0 = if (l.lookup z).isSome then 1 else 0
  /-- a registered value is instance 1; its cell holds `40 + z` -/
  val : ∀ l z sv, statics = some l → l.lookup z = some sv → sv.inst = 1 ∧
    p.cfg.nAtomics + p.cfg.nCells ≤ sv.cell ∧ objView objs sv.cell = some (.cell (40 + (z : Int)))
  gone : statics = none → sDropped = true ∨ fin0 = 10
  shut : 10 ≤ fin0 → statics = none

theorem RLazy.le {p objs objs' st li f0 sI sD} (h : RLazy p objs st li f0 sI sD) (hl : LazyLe p objs objs') :
    RLazy p objs' st li f0 sI sD := by
  refine ⟨h.len, h.eqI, h.live, ?_, h.gone, h.shut⟩
  intro l z sv hs hz
  obtain ⟨h1, h2, h3⟩ := h.val l z sv hs hz
  exact ⟨h1, h2, hl _ _ h2 h3⟩

theorem RLazy.fin {p objs st li f0 f0' sI sD} (h : RLazy p objs st li f0 sI sD)
    (hg : f0 = 10 → f0' = 10) (hs : 10 ≤ f0' → 10 ≤ f0) : RLazy p objs st li f0' sI sD := by
  refine ⟨h.len, h.eqI, h.live, h.val, ?_, fun e => h.shut (hs e)⟩
  intro e
  rcases h.gone e with e' | e'
  · exact .inl e'
  · exact .inr (hg e')

/-! ### steps that change nothing the relation reads -/

/-- the harness counters and the lazy-statics table of the twin -/
def frame5 (w : World) : List Nat × List Nat × List Nat × List Nat × Option (List (Nat × LazyVal)) :=
  (w.tlsInits, w.tlsDrops, w.tlsObs, w.lazyInits, w.exec.lazyStatics)

/-- a step that changes nothing the relation reads, except (possibly) the control table -/
structure Quiet5 (w w' : World) : Prop where
  q : Quiet w w'
  frame : frame5 w' = frame5 w

theorem Quiet5.refl (w : World) : Quiet5 w w := ⟨Quiet.refl w, rfl⟩

theorem branch_quiet5 {w w' : World} {o : Nat} {a : Action} {blk wt : Bool}
    (h : w.branch o a blk wt = .ok w') : Quiet5 w w' ∧ w'.ctl = w.ctl := by
  obtain ⟨hq, hc⟩ := branch_quiet h
  obtain ⟨h1, h2⟩ := C17.branch_statics h
  refine ⟨⟨hq, ?_⟩, hc⟩
  unfold World.branch at h
  simp only [bind, Except.bind, pure, Except.pure] at h
  split at h
  · cases h
  · cases h
    simpa [frame5] using h1

theorem threadDone_quiet5 {w w' : World} (h : w.threadDone = .ok w') : Quiet5 w w' ∧ w'.ctl = w.ctl := by
  obtain ⟨hq, hc⟩ := threadDone_quiet h
  refine ⟨⟨hq, ?_⟩, hc⟩
  unfold World.threadDone at h
  simp only [bind, Except.bind, pure, Except.pure] at h
  split at h
  · cases h
  · next v hv =>
    cases h
    have := C17.schedule_statics hv
    simpa [frame5] using this

theorem quiet5_setStage {w w' : World} {n : Nat} (h : Quiet5 (w.setStage n) w') : Quiet5 w w' :=
  ⟨⟨h.q.prog, h.q.spawned, h.q.events, h.q.len, h.q.view⟩, h.frame⟩

theorem quiet5_modCtl (w : World) (t : Nat) (f : TCtl → TCtl) : Quiet5 w (w.modCtl t f) :=
  ⟨⟨rfl, rfl, rfl, rfl, ViewLe.refl _⟩, rfl⟩

end Refine5
end LoomVerif

/-
Race exactness, part 8: `join` keeps `RC` (the invariant `LinkT` allows the joiner to have acquired the clock of the
thread it joins already — before the repair of finding F26 `Notify::notify` let the waiting thread join the
notifier's causality at once; now it never has —; the second half of the wait acquires that clock).
-/
import LoomVerif.Proofs.RaceOps2

namespace LoomVerif
namespace Race
open Refine Sy C07 C08 Clocks

section
variable {w w' : World} {s : SC.St}

/-- what `lookupSpawn b` finds -/
theorem lookup_jn {b tid' n : Nat} (h : w.lookupSpawn b = .ok (tid', n)) :
    (b, tid', n) ∈ w.spawned ∧ jn w b = some n := by
  unfold World.lookupSpawn at h
  unfold jn
  split at h
  · next b'' t'' n'' hf =>
    cases h
    have h1 := List.find?_some hf
    simp only [beq_iff_eq] at h1
    subst h1
    exact ⟨List.mem_of_find?_eq_some hf, by rw [hf]; rfl⟩
  · cases h

/-- a thread whose epilogue has begun is not pending on anything -/
theorem pend_none_of_fin (hRC : RC w s) {j : Nat} (hj : j < w.ctl.length) (hf : fin w j ≠ 0) : pend w j = none := by
  apply pend_notJoin
  intro b hb
  have := hRC.r.x.epi j hj hf
  unfold opAtI at hb
  rw [show w.ctl.getD j {} = w.ctlOf j from rfl] at this
  rw [this] at hb; cases hb

theorem clk_join (hRC : RC w s) (hact : w.tid < w.ctl.length) {b : Nat}
    (hop : opAt w = some (.join b))
    (h : w.runOp (w.ctlOf w.tid) (.join b) = .ok w') : QuietOut w w' ∨ RealOut w s w' := by
  obtain ⟨_, hrel, _⟩ := base hRC.r hact
  have hcv : (s.th (body w w.tid)).cvNotified = none := (hRC.fs.2 _).2.1
  have ho : SC.opOf w.prog s (body w w.tid) = some (.join b) := (opOf_eq hRC.r hact).trans hop
  have hbt := body_lt_ths hRC.r hact
  have ht := nthr_tid hRC hact
  have hf0 : fin w w.tid = 0 := fin_zero hRC.r hact hop
  rw [runOp_join] at h
  obtain ⟨⟨j, n⟩, hl, h⟩ := bind_ok h
  obtain ⟨hmem, hjn⟩ := lookup_jn hl
  obtain ⟨hjlt, hjbody, nt, hv, hnt⟩ := hRC.r.y.sp b j n hmem
  obtain ⟨ns, hobj, hspur, hnotified⟩ := objView_notify hv
  have hst : (w.ctlOf w.tid).stage = 0 ∨ (w.ctlOf w.tid).stage = 1 := by
    have := hrel.2.2.2.2.1; omega
  rcases hst with hst | hst
  · left
    simp only [hst] at h
    obtain ⟨⟨w1, st⟩, h1, h⟩ := bind_ok h
    rw [notifyWait1_plain hobj (by rw [hspur]; rfl)] at h1
    obtain ⟨w2, hb, he⟩ := map_ok h1
    rw [Prod.mk.injEq] at he
    obtain ⟨e1, e2⟩ := he
    subst e1; subst e2
    simp only [pure, Except.pure] at h
    cases h
    obtain ⟨hq, hc⟩ := branch_quiet hb
    have hpn : pend w w.tid = none := pend_stage0 (by rw [hst]; decide)
    refine quiet_branch hRC hact hpn (fun c => { c with stage := 1 }) (w0 := w) rfl hb rfl
      hq.prog hq.spawned (by show w1.ctl.modify _ _ = _; rw [hc]) rfl rfl Iff.rfl (sp_lt hRC.r hmem) ?_
    intro b' j' n' _ e _
    subst e
    have hself : (w1.modCtl w.tid fun c => { c with stage := 1 }).ctlOf w.tid =
        { w.ctlOf w.tid with stage := 1 } := by
      have := ctlOf_modCtl_self w1 w.tid (fun c => { c with stage := 1 }) (by rw [hc]; exact hact)
      rw [this]
      unfold World.ctlOf; rw [hc]
    unfold pend
    rw [hself]
    simp only [if_true]
    have hop' : opAtI (w1.modCtl w.tid fun c => { c with stage := 1 }) w.tid = some (.join b) := by
      unfold opAtI
      rw [hself]
      show (w1.prog.threads.getD (w.ctlOf w.tid).body [])[(w.ctlOf w.tid).pc]? = _
      rw [hq.prog]; exact hop
    rw [hop']
    show jn (w1.modCtl w.tid fun c => { c with stage := 1 }) b = some n
    unfold jn
    show (w1.spawned.find? _).map _ = _
    rw [hq.spawned]
    exact hjn
  · right
    simp only [hst] at h
    obtain ⟨w1, h1, h⟩ := bind_ok h
    have hn1 : ns.notified = true := by
      cases hnt' : ns.notified with
      | false => rw [notifyWait2_unnotified hobj hnt'] at h1; cases h1
      | true => rfl
    rw [notifyWait2_notified hobj hn1] at h1
    obtain rfl : w1 = (w.setThs (w.ths.setCaus (w.ths.caus.join ns.sync.hb))).setObj n
        (.notify { ns with notified := false }) := by cases h1; rfl
    simp only [pure, Except.pure] at h
    cases h
    obtain ⟨σT, σR, hLT, hLR, hGT, hGR, hX⟩ := hRC.clk
    -- the joined thread has passed its notification; its clock is the clock of the notify
    have hfj : 10 ≤ fin w j := hnt (by rw [← hnotified]; exact hn1)
    have hjt : j ≠ w.tid := by intro e; rw [e, hf0] at hfj; omega
    have hpj : pend w j = none := pend_none_of_fin hRC hjlt (by omega)
    have hjn' : j < nthr w := by rw [← nthr_eq hRC.r]; exact hjlt
    have hhb : ns.sync.hb = σT.thr j := by
      have := hRC.inv.nhb b j n hmem
      rw [objHb_of hobj, if_pos hfj] at this
      rw [hLT.eq_of_pend_none hjn' hpj]
      exact this
    have hpt : pend w w.tid = some n := by
      unfold pend
      rw [if_pos hst, opAtI_tid, hop]
      exact hjn
    have hphb : pendHb w w.tid = ns.sync.hb := by
      unfold pendHb; rw [hpt]; exact objHb_of hobj
    -- the joiner's causality after the wait
    have hcaus : (tcaus w w.tid).join ns.sync.hb = (σT.thr w.tid).join (σT.thr j) := by
      rw [← hhb]
      have h1 := hLT.lo w.tid ht
      have h2 := hLT.hi w.tid ht
      rw [hphb] at h2
      exact le_antisymm (join_le h2 (le_join_right _ _))
        (join_le (le_trans h1 (le_join_left _ _)) (le_join_right _ _))
    have hbj : body w j = b := hjbody
    have hbne : b ≠ body w w.tid := by
      intro e
      exact hjt (inj_body hRC.r j w.tid hjlt hact (by rw [hbj, e]))
    obtain ⟨c1, c2, c3, c4, c5⟩ := complete_real w
      ((w.setThs (w.ths.setCaus (w.ths.caus.join ns.sync.hb))).setObj n (.notify { ns with notified := false }))
      .unit rfl rfl hact
    have hget : ∀ i, (((w.setThs (w.ths.setCaus (w.ths.caus.join ns.sync.hb))).setObj n
        (.notify { ns with notified := false })).complete .unit).ths.get i =
        if i = w.tid ∧ i < nthr w then { w.ths.get i with causality := w.ths.caus.join ns.sync.hb }
        else w.ths.get i := fun i => Clocks.get_setCaus w.ths _ i
    have hT : TwinInv (((w.setThs (w.ths.setCaus (w.ths.caus.join ns.sync.hb))).setObj n
        (.notify { ns with notified := false })).complete .unit) ∧
        LinkT (((w.setThs (w.ths.setCaus (w.ths.caus.join ns.sync.hb))).setObj n
        (.notify { ns with notified := false })).complete .unit) (σT.acq w.tid (σT.thr j)) := by
      refine active_transfer hRC.r hRC.inv hLT w.tid rfl rfl ?_ ?_ ?_ hf0 ?_ ?_ ?_ ?_ ?_ ?_ ?_ ?_ ?_ ?_ ?_ ?_
      · show (w.ths.setCaus _).threads.length = _
        simp [nthr, World.ths]
      · intro i hi
        rw [complete_ctlOf w _ .unit i (by rfl) (by rfl) hact, if_neg hi]
      · rw [complete_ctlOf w _ .unit w.tid (by rfl) (by rfl) hact, if_pos rfl]; rfl
      · unfold fin
        rw [complete_ctlOf w _ .unit w.tid (by rfl) (by rfl) hact, if_pos rfl]; exact hf0
      · intro i hi
        unfold tcaus; rw [hget, if_neg (fun hh => hi hh.1)]
      · intro i
        unfold trel; rw [hget]; split <;> rfl
      · intro i
        unfold topo; rw [hget]; split <;> rfl
      · show (w.exec.objs.set _ _).length = _
        simp
      · intro b' j' n' _
        exact objHb_set_same _ hobj (x' := .notify { ns with notified := false }) rfl n'
      · intro i hi
        show upd σT.thr w.tid _ i = _
        rw [upd_ne _ _ hi]
      · show upd σT.thr w.tid _ w.tid = _
        rw [upd_self, ← hcaus]
        unfold tcaus; rw [hget, if_pos ⟨rfl, ht⟩]
        rfl
      · intro m hm
        show σT.mtx m = objHb (w.exec.objs.set _ _) _
        rw [objHb_set_same _ hobj (x' := .notify { ns with notified := false }) rfl, hLT.mtx m hm]
      · intro k c hc
        show σT.acc k c = objAcc (w.exec.objs.set _ _) k _
        rw [objAcc_set_ne _ _ _ (Ne.symm (sp_ne_cell hRC.r hmem hc)), hLT.acc k c hc]
      · intro c hc
        exact cellIdle_set_ne _ _ (Ne.symm (sp_ne_cell hRC.r hmem hc)) (hRC.inv.cb c hc)
      · intro n' hn' b' j' hm'
        rw [hpt] at hn'
        cases hn'
        have := hRC.r.y.spn _ _ hm' hmem rfl
        simp only at this
        rw [this]; exact hfj
    have hX1 := hX.tickR hGT hGR (inj_body hRC.r) w.tid hact
    have hvb : (s.tick (body w w.tid)).vc b = (σR.tick (body w w.tid)).thr (body w j) := by
      rw [hbj]
      exact ((hLR.tick hbt).thr b).symm
    refine ⟨rfl, c1, c2, .inl c3, _, step_join hcv ho, hRC.fs.1, hT.1, σT.acq w.tid (σT.thr j),
      (σR.tick (body w w.tid)).acq (body w w.tid) ((σR.tick (body w w.tid)).thr (body w j)), hT.2, ?_,
      hGT.acqT _ _, (hGR.tick _).acqT _ _, ?_⟩
    · rw [← hvb]
      exact ((hLR.tick hbt).acquire (by rw [tick_len]; exact hbt) _).ret _ _
    · rw [c4]
      exact (hX1.acqT (inj_body hRC.r) w.tid hact j hjlt).congr (fun i _ => c5 i)

end

end Race
end LoomVerif

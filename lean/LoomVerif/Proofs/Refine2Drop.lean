/-
Refinement, WAIT fragment, part 10: `dropRx q`.  The twin drains the queue message by message (stage 0: test,
stage 1: take one message, back to stage 0) and completes on an empty queue; the reference drops the receiver
and the whole queue in one step, taken when the twin completes.
-/
import LoomVerif.Proofs.Refine2Chan

namespace LoomVerif
namespace Refine2
open Refine Sy C07 C08

section
variable {w w' : World} {s : SCData2}

theorem sim_dropRx (hwf : WF2 w.prog) (hR : R2c w s) (hact : w.tid < w.ctl.length) {qi : Nat}
    (hop : opAt2 w = some (.dropRx qi)) (hq : qi < w.prog.cfg.nChans)
    (h : w.runOp (w.ctlOf w.tid) (.dropRx qi) = .ok w') : Sim2c w s w' := by
  obtain ⟨_, hrel, hof⟩ := base2 hR hact
  have hop' : opOfCtl w.prog (w.ctlOf w.tid) = some (.dropRx qi) := hop
  have hN : pendN w.prog (w.ctlOf w.tid) = none := pendN_of_op hop' (by simp)
  have hC : pendCv w.prog (w.ctlOf w.tid) = none := pendCv_of_op hop' (by simp)
  have hD : pendD w.prog (w.ctlOf w.tid) = some qi := by unfold pendD; rw [hop']
  obtain ⟨c1, c2⟩ := cv_none hR hact hC
  obtain ⟨hnd, _⟩ := rx_live hwf hR hact hop rfl hq
  obtain ⟨queue, hv, _, hlive⟩ := hR.o.ch.q qi hq
  obtain ⟨hcl, pre, hch, hpre⟩ := hlive hnd
  obtain ⟨cs, hobj, hcnt, hqu⟩ := objView2_chan hv
  have hobj' : w.exec.objs[w.chanObj qi]? = some (.chan cs) := hobj
  simp only [World.runOp] at h
  split at h
  · obtain ⟨cs0, hg, h⟩ := bind_ok h
    have := getChan_ok2 hg
    rw [hobj'] at this
    cases this
    split at h
    · next hz =>
      -- the queue is empty: the operation completes, the reference drops the receiver
      simp only [pure, Except.pure] at h
      cases h
      have hz' : cs.msgCnt = 0 := by simpa using hz
      have hqe : queue = [] := by
        rw [hz'] at hcnt
        exact List.eq_nil_of_length_eq_zero hcnt.symm
      subst hqe
      have hself : w.exec.objs.set (chanIdx w.prog qi) (.chan cs) = w.exec.objs :=
        set_self_of_getElem? _ _ _ hobj
      have hopc : opOfCtl w.prog (completeF .unit (w.ctl.getD w.tid {})) ≠ none → True := fun _ => trivial
      have hRO := hR.o.setChanM hq w.tid (completeF .unit) rfl (Nat.le_succ _) id
        ((pendN_stage0 _ _ rfl).trans hN.symm) hC (pendCv_stage0 _ _ rfl)
        (by
          intro q' hne hq'
          rw [show w.ctl.getD w.tid {} = w.ctlOf w.tid from rfl, hD] at hq'
          cases hq'; exact absurd rfl hne)
        (.chan cs) [] (by simp [view2, hz', hqu]) [] true (s.chanLeft.getD qi 0)
        (fun _ => ⟨rfl, by rw [hcl]; rfl, w.tid, (w.ctlOf w.tid).pc, hact,
          by rw [getD_modify_self _ _ _ _ hact]; exact Nat.lt_succ_self _,
          by rw [getD_modify_self _ _ _ _ hact]; exact hop⟩)
        (by intro e; cases e)
      rw [hself, set_getD_self] at hRO
      have hR' := R2c_complete' (s := s)
        (d := { s with chan := s.chan.set qi [], rxDropped := s.rxDropped.set qi true }) (w0 := w)
        hR hact hop rfl rfl rfl rfl rfl rfl .unit
        (hRO.ths _ (CvSame.modify _ _ _ fun _ => ⟨rfl, rfl⟩))
      refine ⟨rfl, hR'.2, .inr ⟨some ((s.th (w.ctlOf w.tid).body).pc, .unit), _,
        .inl ⟨enabled_plain2 hR hact hop hC (by simp) (by simp) (by simp) (by simp) (by simp), ?_⟩, hR'.1, ?_⟩⟩
      · unfold SCData2.stepL
        simp only [c2, hof, hop]
        simp
      · rw [events_complete2, hrel.2.1]
        rfl
    · obtain ⟨hqt, hc, _⟩ := branch_quiet2 h
      exact sim_stage (k := 1) hR hact hop (by simp) hC (Nat.le_refl _) (by omega) (quiet2_setStage hqt) hc
  · -- one message is drained; the reference does not move
    obtain ⟨⟨w1, v⟩, hre, h⟩ := bind_ok h
    simp only [pure, Except.pure] at h
    cases h
    obtain ⟨hne, hc1, ht1, hp1, hs1, he1, hnw, hl1, cs', rest, hqueue, hcnt', hqu', hobjs⟩ :=
      recvEffect_obs hobj' hre
    have hqr : queue = v :: rest := by rw [← hqu]; exact hqueue
    have hx : view2 (.chan cs') = .chan rest.length rest := by
      have : cs.msgCnt = rest.length + 1 := by rw [hcnt, hqr]; rfl
      simp [view2, hcnt', hqu', this]
    have hop0 : opOfCtl w.prog { w.ctl.getD w.tid {} with stage := 0 } = some (.dropRx qi) := hop
    have hRO := hR.o.setChanM hq w.tid (fun c => { c with stage := 0 }) rfl (Nat.le_refl _) id
      ((pendN_of_op hop0 (by simp)).trans hN.symm) hC (pendCv_of_op hop0 (by simp))
      (by
        intro q' hne' hq'
        rw [show w.ctl.getD w.tid {} = w.ctlOf w.tid from rfl, hD] at hq'
        cases hq'; exact absurd rfl hne')
      (.chan cs') rest hx (s.chan.getD qi []) false (s.chanLeft.getD qi 0)
      (by intro e; cases e)
      (fun _ => ⟨hcl, pre ++ [v], by rw [hch, hqr]; simp, fun _ => ⟨w.tid, hact, by
        rw [getD_modify_self _ _ _ _ hact]
        unfold pendD
        rw [hop0]⟩⟩)
    rw [← hnd, set_getD_self, set_getD_self, set_getD_self] at hRO
    have hR' := R2c_stage' (s := s) (s' := s) (w' := w1.setStage 0) hR hact hop 0 (Nat.zero_le _)
      hp1 hs1 hl1 (by show w1.ctl.modify w1.tid _ = _; rw [hc1, ht1]) hR.x
      (by
        show RO _ _ _ w1.exec.objs w1.notifyWaiting s
        rw [hobjs, hnw]
        exact hRO)
    exact ⟨hp1, hR'.2, .inl ⟨hR'.1, he1⟩⟩

end

end Refine2
end LoomVerif

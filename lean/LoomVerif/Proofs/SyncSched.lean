/-
C07/C08: what the scheduler (`Execution::schedule`, reached through `branch`, `yieldNow`,
`parkNow`, `threadDone`) does to the object table: it only records an access
(`Store::set_last_access`); the lock / notify / condvar state proper is untouched.
-/
import LoomVerif.Proofs.SyncBasic

namespace LoomVerif
namespace Sy

/-- `x'` is `x` up to access tracking (`last_access` of mutex, rwlock, condvar, notify; the
access records of arc, atomic, channel objects, for which only the kind is retained here) -/
inductive Touched : Obj → Obj → Prop
  | refl (x : Obj) : Touched x x
  | mutex (s : MutexSt) (a : Option Access) : Touched (.mutex s) (.mutex { s with lastAccess := a })
  | rwlock (s : RwSt) (a : Option Access) : Touched (.rwlock s) (.rwlock { s with lastAccess := a })
  | condvar (s : CondvarSt) (a : Option Access) :
      Touched (.condvar s) (.condvar { s with lastAccess := a })
  | notify (s : NotifySt) (a : Option Access) :
      Touched (.notify s) (.notify { s with lastAccess := a })
  | arc (s s' : ArcSt) : Touched (.arc s) (.arc s')
  | atomic (s s' : Atomic) : Touched (.atomic s) (.atomic s')
  | chan (s s' : ChanSt) : Touched (.chan s) (.chan s')

/-- every object of `os` is still there in `os'`, up to access tracking -/
def ObjsTouched (os os' : List Obj) : Prop :=
  ∀ (n : Nat) (x : Obj), os[n]? = some x → ∃ x', os'[n]? = some x' ∧ Touched x x'

theorem ObjsTouched.refl (os : List Obj) : ObjsTouched os os := fun _ x h => ⟨x, h, .refl x⟩

theorem objsTouched_set {os : List Obj} {o : Nat} {x x' : Obj} (h : os[o]? = some x)
    (ht : Touched x x') : ObjsTouched os (os.set o x') := by
  intro n y hy
  by_cases hn : n = o
  · subst hn
    rw [h] at hy; cases hy
    exact ⟨x', getElem?_set_self' _ _ _ _ h, ht⟩
  · exact ⟨y, by rw [getElem?_set_ne' _ _ _ _ hn]; exact hy, .refl y⟩

theorem setLastAccess_touched {os os' : Objs} {op : Operation} {pid : Nat} {d : VV}
    (h : os.setLastAccess op pid d = .ok os') : ObjsTouched os os' := by
  unfold Objs.setLastAccess at h
  split at h
  all_goals first
    | (cases h; done)
    | (cases h; exact objsTouched_set ‹_› (by constructor))

theorem schedule_objs {e e' : Exec} {b : Bool} {p : Bool} (h : e.schedule p = .ok (e', b)) :
    ObjsTouched e.objs e'.objs := by
  unfold Exec.schedule at h
  simp only [bind, Except.bind, pure, Except.pure] at h
  repeat' split at h
  all_goals first
    | (cases h; done)
    | (cases h; exact ObjsTouched.refl _)
    | (cases h; exact setLastAccess_touched ‹_›)

/-! ### reading a `Touched` object -/

theorem Touched.mutex_inv {m : MutexSt} {x : Obj} (h : Touched (.mutex m) x) :
    ∃ a, x = .mutex { m with lastAccess := a } := by
  cases h with
  | refl => exact ⟨m.lastAccess, rfl⟩
  | mutex _ a => exact ⟨a, rfl⟩

theorem Touched.rwlock_inv {m : RwSt} {x : Obj} (h : Touched (.rwlock m) x) :
    ∃ a, x = .rwlock { m with lastAccess := a } := by
  cases h with
  | refl => exact ⟨m.lastAccess, rfl⟩
  | rwlock _ a => exact ⟨a, rfl⟩

theorem Touched.condvar_inv {m : CondvarSt} {x : Obj} (h : Touched (.condvar m) x) :
    ∃ a, x = .condvar { m with lastAccess := a } := by
  cases h with
  | refl => exact ⟨m.lastAccess, rfl⟩
  | condvar _ a => exact ⟨a, rfl⟩

theorem Touched.notify_inv {m : NotifySt} {x : Obj} (h : Touched (.notify m) x) :
    ∃ a, x = .notify { m with lastAccess := a } := by
  cases h with
  | refl => exact ⟨m.lastAccess, rfl⟩
  | notify _ a => exact ⟨a, rfl⟩

/-! ### the `World` transformers that end in `schedule` -/

theorem branch_objs {w w' : World} {o : Nat} {a : Action} {blk wt : Bool}
    (h : w.branch o a blk wt = .ok w') : ObjsTouched w.exec.objs w'.exec.objs := by
  unfold World.branch at h
  simp only [bind, Except.bind, pure, Except.pure] at h
  split at h
  · cases h
  · next v hv => cases h; have := @schedule_objs _ v.1 v.2 _ hv; exact this

theorem yieldNow_objs {w w' : World} (h : w.yieldNow = .ok w') :
    ObjsTouched w.exec.objs w'.exec.objs := by
  unfold World.yieldNow at h
  simp only [bind, Except.bind, pure, Except.pure] at h
  split at h
  · cases h
  · next v hv => cases h; have := @schedule_objs _ v.1 v.2 _ hv; exact this

theorem threadDone_objs {w w' : World} (h : w.threadDone = .ok w') :
    ObjsTouched w.exec.objs w'.exec.objs := by
  unfold World.threadDone at h
  simp only [bind, Except.bind, pure, Except.pure] at h
  split at h
  · cases h
  · next v hv => cases h; have := @schedule_objs _ v.1 v.2 _ hv; exact this

theorem parkNow_objs {w w' : World} (h : w.parkNow = .ok w') :
    ObjsTouched w.exec.objs w'.exec.objs := by
  unfold World.parkNow at h
  simp only [bind, Except.bind, pure, Except.pure] at h
  split at h
  · cases h; exact ObjsTouched.refl _
  · split at h
    · cases h
    · next v hv => cases h; have := @schedule_objs _ v.1 v.2 _ hv; exact this

theorem blockNow_objs {w w' : World} (h : w.blockNow = .ok w') :
    ObjsTouched w.exec.objs w'.exec.objs := by
  unfold World.blockNow at h
  simp only [bind, Except.bind, pure, Except.pure] at h
  split at h
  · cases h
  · next v hv => cases h; have := @schedule_objs _ v.1 v.2 _ hv; exact this

/-- the transformers that end in `schedule` change nothing of the world outside `exec` -/
theorem branch_rest {w w' : World} {o : Nat} {a : Action} {blk wt : Bool}
    (h : w.branch o a blk wt = .ok w') : ∃ e, w' = { w with exec := e } := by
  unfold World.branch at h
  simp only [bind, Except.bind, pure, Except.pure] at h
  split at h
  · cases h
  · cases h; exact ⟨_, rfl⟩

theorem parkNow_rest {w w' : World} (h : w.parkNow = .ok w') : ∃ e, w' = { w with exec := e } := by
  unfold World.parkNow at h
  simp only [bind, Except.bind, pure, Except.pure] at h
  split at h
  · cases h; exact ⟨_, rfl⟩
  · split at h
    · cases h
    · cases h; exact ⟨_, rfl⟩

theorem blockNow_rest {w w' : World} (h : w.blockNow = .ok w') : ∃ e, w' = { w with exec := e } := by
  unfold World.blockNow at h
  simp only [bind, Except.bind, pure, Except.pure] at h
  split at h
  · cases h
  · cases h; exact ⟨_, rfl⟩

theorem yieldNow_rest {w w' : World} (h : w.yieldNow = .ok w') : ∃ e, w' = { w with exec := e } := by
  unfold World.yieldNow at h
  simp only [bind, Except.bind, pure, Except.pure] at h
  split at h
  · cases h
  · cases h; exact ⟨_, rfl⟩

/-! ### `schedule` terminates nobody -/

theorem term_yield (l : List Thread) (nid i : Nat) :
    ((l.mapIdx fun i th => if th.isYield && i != nid then th.setRunnable else th).getD i {}).isTerminated
      = (l.getD i {}).isTerminated := by
  simp only [List.getD, List.getElem?_mapIdx]
  cases h : l[i]? with
  | none => rfl
  | some th =>
    simp only [Option.map_some, Option.getD_some]
    split
    · next hy =>
      simp only [Bool.and_eq_true] at hy
      have := hy.1
      simp [Thread.isYield] at this
      simp only [Thread.isTerminated, Thread.setRunnable, this]; rfl
    · rfl

theorem term_modify (l : List Thread) (nid i : Nat) (g : Thread → Thread)
    (hg : ∀ t, (g t).state = t.state) :
    ((l.modify nid g).getD i {}).isTerminated = (l.getD i {}).isTerminated := by
  simp only [List.getD, List.getElem?_modify]
  cases h : l[i]? with
  | none => rfl
  | some th =>
    by_cases e : nid = i
    · simp [e, Thread.isTerminated, hg]
    · simp [e]

theorem term_both (l : List Thread) (nid i : Nat) (g : Thread → Thread)
    (hg : ∀ t, (g t).state = t.state) :
    (((l.modify nid g).mapIdx fun i th => if th.isYield && i != nid then th.setRunnable else th).getD i {}).isTerminated
      = (l.getD i {}).isTerminated := by
  rw [term_yield, term_modify _ _ _ _ hg]

theorem schedule_terminated {e e' : Exec} {b : Bool} {p : Bool} (h : e.schedule p = .ok (e', b))
    (i : Nat) : (e'.threads.get i).isTerminated = (e.threads.get i).isTerminated := by
  unfold Exec.schedule at h
  simp only [bind, Except.bind, pure, Except.pure] at h
  repeat' split at h
  all_goals first
    | (cases h; done)
    | (cases h; rfl)
    | (cases h; exact term_yield _ _ _)
    | (cases h; exact term_both _ _ _ _ (fun _ => rfl))

/-- a branch point terminates nobody -/
theorem branch_terminated {w w' : World} {o : Nat} {a : Action} {blk wt : Bool}
    (h : w.branch o a blk wt = .ok w') (i : Nat)
    (ht : (w'.ths.get i).isTerminated = true) : (w.ths.get i).isTerminated = true := by
  unfold World.branch at h
  simp only [bind, Except.bind, pure, Except.pure] at h
  split at h
  · cases h
  · next v hv =>
    cases h
    have := @schedule_terminated _ v.1 v.2 _ hv i
    simp only [World.ths] at ht ⊢
    rw [this] at ht
    revert ht
    simp only [Threads.get, Threads.modifyActive, Threads.modify, List.getD, List.getElem?_modify,
      World.ths]
    cases hh : w.exec.threads.threads[i]? with
    | none => exact id
    | some th =>
      by_cases e : w.exec.threads.activeId = i
      · cases blk <;> simp [e, Thread.isTerminated, Thread.setBlocked]
      · simp [e]

end Sy
end LoomVerif

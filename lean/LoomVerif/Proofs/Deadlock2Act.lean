/-
Deadlock soundness, WAIT fragment, part 4: the thread that takes a successful stage is neither blocked nor
terminated.  (A path to replay can name a blocked thread; its stage then fails — `expectedLock`, `msgUnderflow`,
`notNotified` — or, for `park` and the first half of `cvWait`, is excluded by the run-level condition `resumeOk`
of `Props/Refine2.lean`.)
-/
import LoomVerif.Proofs.Deadlock2Inv
import LoomVerif.Proofs.DeadlockPres

namespace LoomVerif
namespace Deadlock2
open Refine Refine2 Sy Deadlock C07 C08

section
variable {w w' : World} {s : SCData2}

theorem stepActive_op {op : Op} (hop : opAt2 w = some op) : w.stepActive = w.runOp (w.ctlOf w.tid) op := by
  unfold World.stepActive
  simp only
  have : (w.prog.threads.getD (w.ctlOf w.tid).body [])[(w.ctlOf w.tid).pc]? = some op := hop
  rw [this]

theorem stepActive_none (hop : opAt2 w = none) : w.stepActive = w.runEpilogue (w.ctlOf w.tid) := by
  unfold World.stepActive
  simp only
  have : (w.prog.threads.getD (w.ctlOf w.tid).body [])[(w.ctlOf w.tid).pc]? = none := hop
  rw [this]

/-- the entries of `spawned` for one body coincide -/
theorem spawned_unique (hR : R2c w s) (hJ : JB2 w) {b t n t' n' : Nat} (h1 : (b, t, n) ∈ w.spawned)
    (h2 : (b, t', n') ∈ w.spawned) : t = t' ∧ n = n' := by
  obtain ⟨a1, a2, _⟩ := hR.o.y.sp b t n h1
  obtain ⟨b1, b2, _⟩ := hR.o.y.sp b t' n' h2
  have e : t = t' := hR.x.inj t t' a1 b1 (a2.trans b2.symm)
  subst e
  have := hJ.spt _ _ h1 h2 rfl
  simp only [Prod.mk.injEq] at this
  exact ⟨rfl, this.2.2⟩

/-- the objects of the program -/
theorem mutex_obj (hR : R2c w s) {m : Nat} (hm : m < w.prog.cfg.nMutexes) :
    ∃ ms, w.exec.objs[w.mutexObj m]? = some (.mutex ms) := by
  obtain ⟨l, hv, _⟩ := hR.o.y.mtx m hm
  obtain ⟨ms, h, _⟩ := objView2_mutex hv
  exact ⟨ms, h⟩

theorem chan_obj (hR : R2c w s) {q : Nat} (hq : q < w.prog.cfg.nChans) :
    ∃ cs, w.exec.objs[w.chanObj q]? = some (.chan cs) := by
  obtain ⟨qu, hv, _⟩ := hR.o.ch.q q hq
  obtain ⟨cs, h, _⟩ := objView2_chan hv
  exact ⟨cs, h⟩

theorem notify_obj (hR : R2c w s) {n : Nat} (hn : n < w.prog.cfg.nNotifies) :
    ∃ ns, w.exec.objs[w.notifyObj n]? = some (.notify ns) ∧ ns.spurious = true := by
  obtain ⟨ds, hv, _⟩ := hR.o.n.n n hn
  obtain ⟨ns, h, h1, _⟩ := objView2_notify hv
  exact ⟨ns, h, h1⟩

theorem cv_obj (hR : R2c w s) {v : Nat} (hv : v < w.prog.cfg.nCondvars) :
    ∃ cs, w.exec.objs[w.cvObj v]? = some (.condvar cs) := by
  obtain ⟨ws, hv', _⟩ := hR.o.cv.q v hv
  obtain ⟨cs, h, _⟩ := objView2_condvar hv'
  exact ⟨cs, h⟩

theorem join_obj (hR : R2c w s) {b t n : Nat} (h : (b, t, n) ∈ w.spawned) :
    ∃ ns, w.exec.objs[n]? = some (.notify ns) ∧ ns.spurious = false := by
  obtain ⟨_, _, nt, ds, hv, _⟩ := hR.o.y.sp b t n h
  obtain ⟨ns, h, h1, _⟩ := objView2_notify hv
  exact ⟨ns, h, h1⟩

/-- **the thread that takes a successful stage is neither blocked nor terminated** -/
theorem active_running (hRB : RB2 w s) (hact : w.tid < w.ctl.length)
    (hok : resumeOk w = true) (h : w.stepActive = .ok w') :
    (w.ths.get w.tid).state ≠ .blocked ∧ (w.ths.get w.tid).state ≠ .terminated := by
  have hR := hRB.r.c
  have hJ := hRB.j
  have h0 := hJ.thr _ hact
  have hokc : cvResumeOk w = true := by
    unfold resumeOk at hok; simp only [Bool.and_eq_true] at hok; exact hok.1
  have hokp : parkResumeOk w = true := by
    unfold resumeOk at hok; simp only [Bool.and_eq_true] at hok; exact hok.2
  constructor
  · intro hb
    cases h0.blk hb with
    | lock m l a b x d =>
      have a' : opAt2 w = some (.lock m) := a
      rw [stepActive_op a', runOp_lock] at h
      obtain ⟨ms, hobj, hl⟩ := objView2_mutex d
      have hobj' : w.exec.objs[w.mutexObj m]? = some (.mutex ms) := hobj
      simp [b, postAcquire_held hobj' (by rw [hl]; rfl), bind, Except.bind, throw, throwThe,
        MonadExceptOf.throw] at h
    | cvRe v m l a b x d =>
      have a' : opAt2 w = some (.cvWait v m) := a
      rw [stepActive_op a'] at h
      obtain ⟨ms, hobj, hl⟩ := objView2_mutex d
      have hobj' : w.exec.objs[w.mutexObj m]? = some (.mutex ms) := hobj
      rw [(cvWait_stage3 hobj' (by rw [b]; exact Nat.le_refl _)).1 (by rw [hl]; rfl)] at h
      cases h
    | recv q bl qu a b x d =>
      have a' : opAt2 w = some (.recv q) := a
      rw [stepActive_op a'] at h
      obtain ⟨cs, hobj, hcnt, _⟩ := objView2_chan d
      have hobj' : w.exec.objs[w.chanObj q]? = some (.chan cs) := hobj
      simp [World.runOp, b, World.recvEffect, getChan_of hobj', hcnt, bind, Except.bind, throw, throwThe,
        MonadExceptOf.throw] at h
    | nWait n bl a' d' a b x d =>
      have a'' : opAt2 w = some (.nWait n) := a
      rw [stepActive_op a'', runOp_nWait, b] at h
      obtain ⟨ns, hobj, _, hnt, _⟩ := objView2_notify d
      have hobj' : w.exec.objs[w.notifyObj n]? = some (.notify ns) := hobj
      simp [notifyWait2_unnotified hobj' hnt, bind, Except.bind] at h
    | join b t n bl a' d' a b' m x d =>
      have a'' : opAt2 w = some (.join b) := a
      rw [stepActive_op a'', runOp_join] at h
      obtain ⟨⟨t2, n2⟩, hl, h⟩ := Refine.bind_ok h
      obtain ⟨_, e2⟩ := spawned_unique hR hJ m (lookupSpawn_mem hl)
      subst e2
      obtain ⟨ns, hobj, _, hnt, _⟩ := objView2_notify d
      simp [b', notifyWait2_unnotified hobj hnt, bind, Except.bind] at h
    | park a b x y z =>
      have a' : opAt2 w = some .park := a
      unfold parkResumeOk at hokp
      rw [a'] at hokp
      have y' : (w.exec.threads.get w.tid).parked = true := y
      simp [b, y'] at hokp
    | cvQ v m ws a b x y d e =>
      have a' : opAt2 w = some (.cvWait v m) := a
      obtain ⟨cs, hobj, hws⟩ := objView2_condvar d
      have hobj' : w.exec.objs[w.cvObj v]? = some (.condvar cs) := hobj
      unfold cvResumeOk at hokc
      rw [a'] at hokc
      simp only [b, if_true, hobj'] at hokc
      have : cs.waiters.contains w.tid = true := List.contains_iff_mem.2 (by rw [hws]; exact e)
      rw [this] at hokc; cases hokc
  · intro ht
    have h99 := h0.term ht
    have hnone : opAt2 w = none := hR.x.epi w.tid hact (by
      show (w.ctlOf w.tid).fin ≠ 0
      omega)
    rw [stepActive_none hnone, runEpilogue_finish w _ (by omega)] at h
    unfold World.finishThread at h
    rw [if_pos (by omega)] at h
    cases h

end

end Deadlock2
end LoomVerif

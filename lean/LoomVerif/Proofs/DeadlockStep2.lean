/-
Deadlock soundness, part 5: the twin-side invariant `JB` along the notification of a `JoinHandle`, the completion
of a `join`, `spawn`, and the stages that only complete an operation of the active thread.
-/
import LoomVerif.Proofs.DeadlockStep

namespace LoomVerif
namespace Deadlock
open Refine Sy

section
variable {w : World} {s : SCData}

theorem setCaus_get (ths : Threads) (v : VV) (i : Nat) :
    ((ths.setCaus v).get i).state = (ths.get i).state ∧
    ((ths.setCaus v).get i).operation = (ths.get i).operation := by
  unfold Threads.setCaus Threads.modifyActive
  rw [WB.get_modify]
  split <;> exact ⟨rfl, rfl⟩

theorem notifyEffect_path {w1 : World} {o : Nat} {ns : NotifySt}
    (hn : w.exec.objs[o]? = some (.notify ns)) (h : w.notifyEffect o = .ok w1) :
    w1.exec.path = w.exec.path := by
  rw [C08.notifyEffect_eq hn] at h
  simp only [Except.ok.injEq] at h
  subst h
  rfl

theorem notifyWait2_ths {w1 : World} {o : Nat} {ns : NotifySt}
    (hn : w.exec.objs[o]? = some (.notify ns)) (hnt : ns.notified = true) (h : w.notifyWait2 o = .ok w1) :
    w1.exec.path = w.exec.path ∧ ∀ i, (w1.ths.get i).state = (w.ths.get i).state ∧
      (w1.ths.get i).operation = (w.ths.get i).operation := by
  rw [C08.notifyWait2_notified hn hnt] at h
  simp only [Except.ok.injEq] at h
  subst h
  exact ⟨rfl, fun i => setCaus_get _ _ i⟩

/-! ### the notification of a `JoinHandle` -/

/-- **the epilogue notifies the `JoinHandle`** (`fin := 10`): the threads blocked in the `join` of this thread are
woken, nobody else is touched; the notification flag is raised -/
theorem JB.notify_step (hJ : JB w) (hR : R w s) (hact : w.tid < w.ctl.length) {b0 n0 : Nat}
    (hmem : (b0, w.tid, n0) ∈ w.spawned) {ns : NotifySt} (hobj : w.exec.objs[n0]? = some (.notify ns))
    (hnone : opAt w = none) (hlt : (w.ctlOf w.tid).fin < 10) {w1 : World}
    (h1 : w.notifyEffect n0 = .ok w1) :
    JB (w1.modCtl w.tid fun c => { c with fin := 10 }) ∧
      (w1.modCtl w.tid fun c => { c with fin := 10 }).exec.path = w.exec.path := by
  obtain ⟨hc1, ht1, hp1, hs1, _, hl1, ns', hsp', hnt', hobjs⟩ := notifyEffect_obs hobj h1
  have hpath := notifyEffect_path hobj h1
  obtain ⟨_, _, nt0, hv0, _⟩ := hR.y.sp b0 w.tid n0 hmem
  have hspur : ns.spurious = false := by
    rw [objView_of hobj] at hv0
    simp only [view, Option.some.injEq, OV.notify.injEq] at hv0
    exact hv0.1
  have hlt0 : n0 < w.exec.objs.length := objView_lt hv0
  let w' := w1.modCtl w.tid fun c => { c with fin := 10 }
  have hctl : w'.ctl = w.ctl.modify w.tid fun c => { c with fin := 10 } := by
    show w1.ctl.modify _ _ = _; rw [hc1]
  have hs' : w'.spawned = w.spawned := hs1
  have hn : ∀ b t n, (b, t, n) ∈ w.spawned → n = n0 → t = w.tid := by
    intro b t n hm e
    exact hR.y.spn (b, t, n) (b0, w.tid, n0) hm hmem e
  have ht : ∀ b t n, (b, t, n) ∈ w.spawned → t = w.tid → n = n0 := by
    intro b t n hm e
    have := hJ.spt (b, t, n) (b0, w.tid, n0) hm hmem e
    simp only [Prod.mk.injEq] at this
    exact this.2.2
  have hsep : ∀ m l, objView w.exec.objs (mobj w.prog m) = some (.mutex l) → mobj w.prog m ≠ n0 :=
    fun m l hv => (notify_ne_mutex hv0 hv).symm
  have hfin0 : (w'.ctlOf w.tid).fin = 10 := by
    rw [ctlOf_of_modify hctl hact, if_pos rfl]
  have hfinne : ∀ t, t ≠ w.tid → (w'.ctlOf t).fin = (w.ctlOf t).fin := by
    intro t e; rw [ctlOf_of_modify hctl hact, if_neg e]
  have hnewview : objView w1.exec.objs n0 = some (.notify false true) := by
    rw [hobjs, objView_set_self _ hlt0]
    simp [view, hsp', hspur, hnt']
  refine ⟨⟨fun i hi => ?_, by rw [hs']; exact hJ.spt, by rw [hs']; exact hJ.sp0, ?_⟩, hpath⟩
  · have hi' : i < w.ctl.length := by rw [ctl_len_of_modify hctl] at hi; exact hi
    show JTd w1.prog w1.spawned w1.exec.objs (fun t => (w'.ctlOf t).fin) (i = w1.tid) (w1.ths.get i)
      (w'.ctlOf i)
    rw [hp1, hs1, ht1, ctlOf_of_modify hctl hact]
    have hg := C08.notifyEffect_get hobj h1 i
    by_cases e : i = w.tid
    · subst e
      rw [if_pos rfl]
      have hth : w1.ths.get w.tid = w.ths.get w.tid := by
        rw [hg, if_neg (fun hh => hh.1 rfl)]
      rw [hth]
      have h0 := hJ.thr _ hi'
      exact h0.after_plain (by show waits (opAt w) = false; rw [hnone]; rfl) rfl (.inl rfl)
        (fun htm => by have := h0.term htm; omega)
    · rw [if_neg e]
      have h0 : JTd w.prog w.spawned w.exec.objs (fun t => (w.ctlOf t).fin) False (w.ths.get i) (w.ctlOf i) :=
        (hJ.thr i hi').mono (fun _ h => h) (fun _ _ h => h) (fun _ _ _ _ => Iff.rfl) (fun f => e f) rfl rfl
      have h2 := h0.notify_other (th' := w1.ths.get i) (objs' := w1.exec.objs)
        (fin' := fun t => (w'.ctlOf t).fin) hn ht
        (fun m l hv => by rw [hobjs, objView_set_ne _ _ (hsep m l hv)]; exact hv) hsep
        (by show 10 ≤ (w'.ctlOf w.tid).fin; omega) hfinne
        (by
          rw [hg]; split
          · rw [wake_operation]
          · rfl)
        (by
          intro hex hbl
          rw [hg, if_pos ⟨e, hex⟩, wake_state]
          simp [hbl])
        (by
          intro hnc
          rw [hg]; split
          · next hc =>
            rw [wake_state]
            split
            · next hbl => exact absurd ⟨hc.2, hbl⟩ hnc
            · rfl
          · rfl)
      exact h2.mono (fun _ h => h) (fun _ _ h => h) (fun _ _ _ _ => Iff.rfl) (fun f => f.elim) rfl rfl
  · intro b i n hm h10
    rw [hs'] at hm
    by_cases e : i = w.tid
    · have := ht b i n hm e
      subst this
      exact .inl hnewview
    · have h10' : 10 ≤ (w.ctlOf i).fin := by rw [← hfinne i e]; exact h10
      rcases hJ.jnd b i n hm h10' with hv | ⟨j, k, hj, hk, hop⟩
      · refine .inl ?_
        show objView w1.exec.objs n = _
        rw [hobjs, objView_set_ne _ _ (fun en => e (hn b i n hm en))]; exact hv
      · refine .inr ⟨j, k, by rw [ctl_len_of_modify hctl]; exact hj, ?_, ?_⟩
        · rw [ctlOf_of_modify hctl hact]; split <;> exact hk
        · have : (w'.ctlOf j).body = (w.ctlOf j).body := by
            rw [ctlOf_of_modify hctl hact]; split <;> rfl
          rw [this]
          show (w1.prog.threads.getD _ [])[k]? = _
          rw [hp1]; exact hop

/-! ### stages that complete an operation of the active thread and touch no other thread -/

/-- `complete` after a change of objects that are neither mutexes nor raised `JoinHandle` notifies -/
theorem JB.complete_local (hJ : JB w) (hact : w.tid < w.ctl.length)
    (hnb : (w.ths.get w.tid).state ≠ .blocked) {w0 : World}
    (hc : w0.ctl = w.ctl) (ht : w0.tid = w.tid) (hp : w0.prog = w.prog) (hs : w0.spawned = w.spawned)
    (hths : ∀ i, (w0.ths.get i).state = (w.ths.get i).state ∧
      (w0.ths.get i).operation = (w.ths.get i).operation)
    (hmv : ∀ m l, objView w.exec.objs (mobj w.prog m) = some (.mutex l) →
      objView w0.exec.objs (mobj w.prog m) = some (.mutex l))
    (hnv : ∀ n, objView w.exec.objs n = some (.notify false true) →
      objView w0.exec.objs n = some (.notify false true)) (r : Ret) :
    JB (w0.complete r) := by
  have hctl : (w0.complete r).ctl = w.ctl.modify w.tid (completeF r) := by rw [ctl_complete', hc, ht]
  have h0 := hJ.thr _ hact
  refine JB.local_step hJ hact hp hs ht hths hctl (fun _ => Iff.rfl) hmv
    (JTd.mk_idle trivial h0.noYield (fun htm => by rw [completeF_fin]; exact h0.term htm)
      (completeF_stage r _) hnb) ?_
  refine jnd_frame hJ hp hs (by rw [ctl_len_of_modify hctl]; exact Nat.le_refl _) ?_ hnv ?_
  · intro b i n _ h10
    rw [ctlOf_of_modify hctl hact] at h10
    split at h10 <;> exact h10
  · intro j hj
    rw [ctlOf_of_modify hctl hact]
    split
    · exact ⟨rfl, Nat.le_succ _⟩
    · exact ⟨rfl, Nat.le_refl _⟩

/-- a stage that only rewrites the control record of the active thread, which is at an operation without a
waiting branch point or in its epilogue (`ifEq`, the counting stages of the epilogue) -/
theorem JB.ctl_local (hJ : JB w) (hact : w.tid < w.ctl.length) (hw : waits (opAt w) = false)
    {g : TCtl → TCtl} {w0 : World} (hc : w0.ctl = w.ctl) (ht : w0.tid = w.tid) (hp : w0.prog = w.prog)
    (hs : w0.spawned = w.spawned) (hth : w0.exec.threads = w.exec.threads) (ho : w0.exec.objs = w.exec.objs)
    (hbody : (g (w.ctlOf w.tid)).body = (w.ctlOf w.tid).body)
    (hpc : (w.ctlOf w.tid).pc ≤ (g (w.ctlOf w.tid)).pc)
    (hstage : (g (w.ctlOf w.tid)).stage = (w.ctlOf w.tid).stage)
    (hfin : (∃ b n, (b, w.tid, n) ∈ w.spawned) →
      ((g (w.ctlOf w.tid)).fin < 10 ↔ (w.ctlOf w.tid).fin < 10))
    (hterm : (w.ctlOf w.tid).fin = 99 → (g (w.ctlOf w.tid)).fin = 99) :
    JB (w0.modCtl w.tid g) := by
  have hctl : (w0.modCtl w.tid g).ctl = w.ctl.modify w.tid g := by
    show w0.ctl.modify _ _ = _; rw [hc]
  have h0 := hJ.thr _ hact
  have hths : ∀ i, ((w0.modCtl w.tid g).ths.get i).state = (w.ths.get i).state ∧
      ((w0.modCtl w.tid g).ths.get i).operation = (w.ths.get i).operation := by
    intro i
    have : (w0.modCtl w.tid g).ths = w.ths := hth
    rw [this]; exact ⟨rfl, rfl⟩
  have hobjs : (w0.modCtl w.tid g).exec.objs = w.exec.objs := ho
  refine JB.local_step hJ hact hp hs ht hths hctl hfin (fun m l h => by rw [hobjs]; exact h)
    (h0.after_plain hw trivial (.inl hstage) (fun htm => hterm (h0.term htm))) ?_
  refine jnd_frame hJ hp hs (by rw [ctl_len_of_modify hctl]; exact Nat.le_refl _) ?_
    (fun n h => by rw [hobjs]; exact h) ?_
  · intro b i n hm h10
    rw [ctlOf_of_modify hctl hact] at h10
    split at h10
    · next e =>
      subst e
      have := hfin ⟨b, n, hm⟩
      omega
    · exact h10
  · intro j hj
    rw [ctlOf_of_modify hctl hact]
    split
    · next e => subst e; exact ⟨hbody, hpc⟩
    · exact ⟨rfl, Nat.le_refl _⟩

/-! ### the completion of a `join` -/

/-- **the second half of `join`** consumes the notification: from now on the `join` of that body lies behind the pc
of the joiner -/
theorem JB.join_done_step (hJ : JB w) (hR : R w s) (hact : w.tid < w.ctl.length) {b t' n : Nat}
    (hmem : (b, t', n) ∈ w.spawned) (hop : opAt w = some (.join b)) {ns : NotifySt}
    (hobj : w.exec.objs[n]? = some (.notify ns)) (hnb : (w.ths.get w.tid).state ≠ .blocked) {w1 : World}
    (h1 : w.notifyWait2 n = .ok w1) :
    JB (w1.complete .unit) ∧ (w1.complete .unit).exec.path = w.exec.path := by
  obtain ⟨hn1, hc1, ht1, hp1, hs1, _, hl1, hobjs⟩ := notifyWait2_obs hobj h1
  obtain ⟨hpath, hths⟩ := notifyWait2_ths hobj hn1 h1
  have hvn : objView w.exec.objs n = some (view (.notify ns)) := objView_of hobj
  have hctl : (w1.complete .unit).ctl = w.ctl.modify w.tid (completeF .unit) := by
    rw [ctl_complete', hc1, ht1]
  have h0 := hJ.thr _ hact
  refine ⟨JB.local_step hJ hact hp1 hs1 ht1 hths hctl (fun _ => Iff.rfl) ?_
    (JTd.mk_idle trivial h0.noYield (fun htm => by rw [completeF_fin]; exact h0.term htm)
      (completeF_stage _ _) hnb) ?_, hpath⟩
  · intro m l hv
    show objView w1.exec.objs _ = _
    rw [hobjs, objView_set_ne _ _ (by intro e; rw [e, hvn] at hv; cases hv)]; exact hv
  · intro b2 i n2 hm2 h10
    have hm2' : (b2, i, n2) ∈ w.spawned := by
      have : (w1.complete .unit).spawned = w.spawned := hs1
      rw [this] at hm2; exact hm2
    have h10' : 10 ≤ (w.ctlOf i).fin := by
      rw [ctlOf_of_modify hctl hact] at h10
      split at h10 <;> exact h10
    have hbody : ∀ j, ((w1.complete .unit).ctlOf j).body = (w.ctlOf j).body := by
      intro j; rw [ctlOf_of_modify hctl hact]; split <;> rfl
    have hpcle : ∀ j, (w.ctlOf j).pc ≤ ((w1.complete .unit).ctlOf j).pc := by
      intro j; rw [ctlOf_of_modify hctl hact]; split
      · exact Nat.le_succ _
      · exact Nat.le_refl _
    have hlen : (w1.complete .unit).ctl.length = w.ctl.length := ctl_len_of_modify hctl
    have hprog : (w1.complete .unit).prog = w.prog := hp1
    by_cases en : n2 = n
    · subst en
      -- the entry consumed: its body is `b`
      have hi : i = t' := hR.y.spn (b2, i, n2) (b, t', n2) hm2' hmem rfl
      have hb2 : b2 = b := by
        have h1' := (hR.y.sp b2 i n2 hm2').2.1
        have h2' := (hR.y.sp b t' n2 hmem).2.1
        rw [← h1', ← h2', hi]
      refine .inr ⟨w.tid, (w.ctlOf w.tid).pc, by rw [hlen]; exact hact, ?_, ?_⟩
      · rw [ctlOf_of_modify hctl hact, if_pos rfl]; exact Nat.lt_succ_self _
      · rw [hprog, hbody, hb2]; exact hop
    · rcases hJ.jnd b2 i n2 hm2' h10' with hv | ⟨j, k, hj, hk, hop'⟩
      · refine .inl ?_
        show objView w1.exec.objs n2 = _
        rw [hobjs, objView_set_ne _ _ en]; exact hv
      · refine .inr ⟨j, k, by rw [hlen]; exact hj, Nat.lt_of_lt_of_le hk (hpcle j), ?_⟩
        rw [hprog, hbody]; exact hop'

end

end Deadlock
end LoomVerif

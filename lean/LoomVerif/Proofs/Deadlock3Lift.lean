/-
Deadlock soundness, FUTURES fragment, part 18: the run-level theorems (`runLoop`, `runIter`, the loop of
`Check.run`) and the converse on a path, in the form `Props/Deadlock3.lean` states them.
-/
import LoomVerif.Proofs.Deadlock3Self
import LoomVerif.Proofs.C10End

set_option linter.unusedSimpArgs false
set_option linter.unusedVariables false

namespace LoomVerif
namespace Deadlock3
open Refine Refine4 Deadlock

theorem runLoop_deadlock4 {prog : Prog} {exec : Exec} {w0 w : World} {fuel : Nat}
    (hwf : WFD prog) (hfresh : Refine2.FreshExec2 exec) (hpath : ReplayOK exec.path)
    (hinit : World.init prog exec = .ok w0) (hok : okRun4 fuel w0 = true)
    (hrun : World.runLoop fuel w0 = (w, some .deadlock)) :
    ∃ s0 s, Refine2.SCExec2 prog (SC.init prog) s0 ∧ R4 w s0 ∧
      (s = s0 ∨ ∃ t, SC.enabled prog s0 t = true ∧ s ∈ SC.step prog s0 t) ∧
      Refine2.SCExec2 prog (SC.init prog) s ∧ s.verdict = none ∧ (∀ t, SC.enabled prog s t = false) ∧
      (∃ t, (s.th t).started = true ∧ (s.th t).finished = false) ∧ SC.finalVerdict s = .deadlock := by
  obtain ⟨s0, s, hex, hR, _, hs, hd⟩ := runLoop_dead hwf hfresh hpath hinit hok hrun
  exact ⟨s0, s, hex, hR, hs, exec_of_dead hex hs, hd.1, hd.2.1, hd.2.2, hd.finalVerdict⟩

theorem runIter_deadlock4 {prog : Prog} {exec : Exec} {fuel : Nat}
    (hwf : WFD prog) (hfresh : Refine2.FreshExec2 exec) (hpath : ReplayOK exec.path)
    (hok : okIter4 prog exec fuel = true) (hterm : (runIter prog exec fuel).term = some .deadlock) :
    ∃ s, Refine2.SCExec2 prog (SC.init prog) s ∧ s.verdict = none ∧ (∀ t, SC.enabled prog s t = false) ∧
      (∃ t, (s.th t).started = true ∧ (s.th t).finished = false) ∧ SC.finalVerdict s = .deadlock := by
  unfold runIter at hterm
  unfold okIter4 at hok
  cases hinit : World.init prog exec with
  | error e => rw [hinit] at hok; cases hok
  | ok w0 =>
    rw [hinit] at hterm hok
    simp only at hterm hok
    generalize hr : World.runLoop fuel w0 = res at hterm
    obtain ⟨w, r⟩ := res
    cases r with
    | some e =>
      simp only at hterm
      cases hterm
      obtain ⟨_, s, _, _, _, h1, h2, h3, h4, h5⟩ := runLoop_deadlock4 hwf hfresh hpath hinit hok hr
      exact ⟨s, h1, h2, h3, h4, h5⟩
    | none =>
      simp only at hterm
      cases hc : w.exec.objs.checkForLeaks with
      | error e =>
        rw [hc] at hterm
        simp only [Option.some.injEq] at hterm
        exact absurd hterm (checkForLeaks_notDL hc)
      | ok u =>
        rw [hc] at hterm
        cases hterm

theorem okIter4_of_init {prog : Prog} {e : Exec} {fuel : Nat} {w0 : World} (hinit : World.init prog e = .ok w0)
    (h : okRun4 fuel w0 = true) : okIter4 prog e fuel = true := by
  unfold okIter4; rw [hinit]; exact h

/-- the loop of `Builder::check` -/
theorem loop_deadlock4 {prog : Prog} (hwf : WFD prog) :
    ∀ (fuel i : Nat) (e : Exec), Deadlock2.IterInv2 prog.cfg.maxThreads e → ∀ (its : List Iteration) (o : Outcome),
      Check.loop prog fuel i e = (its, o) →
      (∀ e' w0, Deadlock2.IterInv2 prog.cfg.maxThreads e' → e'.path ∈ its.map (·.start) →
        World.init prog e' = .ok w0 → okRun4 200000 w0 = true) →
      o = .panicked .deadlock →
      ∃ it ∈ its, it.result.term = some .deadlock ∧
        ∃ s, Refine2.SCExec2 prog (SC.init prog) s ∧ s.verdict = none ∧ (∀ t, SC.enabled prog s t = false) ∧
          (∃ t, (s.th t).started = true ∧ (s.th t).finished = false) ∧ SC.finalVerdict s = .deadlock := by
  intro fuel
  induction fuel with
  | zero =>
    intro i e _ its o h _ ho
    simp only [Check.loop, Prod.mk.injEq] at h
    rw [← h.2] at ho; cases ho
  | succ fuel ih =>
    intro i e hinv its o h hall ho
    unfold Check.loop at h
    split at h
    · simp only [Prod.mk.injEq] at h
      rw [← h.2] at ho; cases ho
    · simp only at h
      split at h
      · next p hterm =>
        simp only [Prod.mk.injEq] at h
        obtain ⟨rfl, rfl⟩ := h
        simp only [Outcome.panicked.injEq] at ho
        subst ho
        refine ⟨_, List.mem_singleton.2 rfl, hterm, ?_⟩
        cases hinit : World.init prog e with
        | error err =>
          exfalso
          unfold runIter at hterm
          rw [hinit] at hterm
          simp only [Option.some.injEq] at hterm
          exact init_notDL hinit hterm
        | ok w0 =>
          have hok := okIter4_of_init hinit (hall e w0 hinv (by simp) hinit)
          exact runIter_deadlock4 hwf hinv.fresh hinv.2.2.replayOK hok hterm
      · next hterm =>
        split at h
        · simp only [Prod.mk.injEq] at h
          rw [← h.2] at ho; cases ho
        · next e' hstep =>
          cases hl : Check.loop prog fuel (i + 1) e' with
          | mk rest o' =>
            rw [hl] at h
            simp only [Prod.mk.injEq] at h
            obtain ⟨rfl, rfl⟩ := h
            cases hinit : World.init prog e with
            | error err =>
              exfalso
              unfold runIter at hterm
              rw [hinit] at hterm
              cases hterm
            | ok w0 =>
              have hok := okIter4_of_init hinit (hall e w0 hinv (by simp) hinit)
              obtain ⟨it, hit, h1, h2⟩ := ih (i + 1) e' (runIter_iterInv4 hwf hinv hok hterm hstep) rest _ hl
                (fun e2 w2 hi2 hm2 => hall e2 w2 hi2 (by
                  simp only [List.map_cons, List.mem_cons]
                  exact .inr hm2)) ho
              exact ⟨it, List.mem_cons_of_mem _ hit, h1, h2⟩

theorem no_missed4 {prog : Prog} {exec : Exec} {w0 w : World} {fuel : Nat}
    (hwf : WFD prog) (hfresh : Refine2.FreshExec2 exec) (hpath : ReplayOK exec.path)
    (hinit : World.init prog exec = .ok w0) (hok : okRun4 fuel w0 = true)
    (hrun : World.runLoop fuel w0 = (w, none)) :
    ∃ s, Refine2.SCExec2 prog (SC.init prog) s ∧ R4 w s ∧ s.verdict = none ∧
      (∀ t, SC.enabled prog s t = false) ∧ (∀ t, (s.th t).started = true → (s.th t).finished = true) ∧
      SC.allDone s = true ∧ SC.finalVerdict s ≠ .deadlock := by
  obtain ⟨hRB, hp⟩ := init_RB4 hwf hfresh hpath hinit
  obtain ⟨s, hex, hRB', hp', _, _⟩ := runLoop_RB4 prog (SC.init prog) hwf fuel w0 w _ _ hp hRB
    (init_inRange hfresh.fresh hinit) (.nil _) hok hrun
  -- every loom thread has terminated
  have hthr : w0.exec.threads = exec.threads := (C10.init_threads prog exec).h w0 hinit
  have hgood : C10.GoodT w0.exec.threads := by
    apply C10.GoodT.of_act
    show w0.exec.threads.active.isSome = true
    rw [hthr, hfresh.2]; rfl
  obtain ⟨_, hall⟩ := C10.runLoop_allTerm fuel w0 w hgood hrun
  have hlen : w.ctl.length = w.exec.threads.threads.length := hRB'.r.lenCtl
  have hterm : ∀ i, i < w.ctl.length → (w.ths.get i).state = .terminated := by
    intro i hi
    have hi' : i < w.exec.threads.threads.length := by rw [← hlen]; exact hi
    unfold C10.AllTerm at hall
    rw [List.all_eq_true] at hall
    have := hall _ (List.getElem_mem hi')
    show (w.exec.threads.threads.getD i {}).state = _
    rw [List.getD_eq_getElem?_getD, List.getElem?_eq_getElem hi']
    simpa [Thread.isTerminated] using this
  have hfin : ∀ t, (s.th t).started = true → (s.th t).finished = true := by
    intro t hst
    by_cases hex' : ∃ i, i < w.ctl.length ∧ (w.ctlOf i).body = t
    · obtain ⟨i, hi, rfl⟩ := hex'
      have hf : (s.th (w.ctlOf i).body).finished = decide (10 ≤ (w.ctlOf i).fin) := (thr4 hRB'.r hi).2.1
      rw [hf, (hRB'.j.thr i hi).term (hterm i hi)]; rfl
    · have := idle_unstarted hRB'.r (fun i hi e => hex' ⟨i, hi, e⟩)
      rw [this] at hst; cases hst
  have hdone : SC.allDone s = true := by
    unfold SC.allDone
    rw [List.all_eq_true]
    intro h hm
    obtain ⟨t, ht, rfl⟩ := List.getElem_of_mem hm
    have e : s.th t = s.ths[t] := by
      unfold SC.St.th
      rw [List.getD_eq_getElem?_getD, List.getElem?_eq_getElem ht]; rfl
    cases hs : (s.ths[t]).started with
    | false => simp
    | true =>
      have := hfin t (by rw [e]; exact hs)
      rw [e] at this
      simp [this]
  refine ⟨s, hex, hRB'.r, hRB'.r.verdict, ?_, hfin, hdone, ?_⟩
  · intro t
    cases hs : (s.th t).started with
    | false => exact en_unstarted hs
    | true => exact en_finished (hfin t hs)
  · intro hd
    rw [SC.finalVerdict_deadlock_iff] at hd
    have hv : s.verdict = none := hRB'.r.verdict
    rcases hd with h | ⟨_, h⟩
    · rw [hv] at h; cases h
    · rw [hdone] at h; cases h

end Deadlock3
end LoomVerif

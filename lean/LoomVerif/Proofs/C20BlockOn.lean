/-
C20: the stage functions of the future protocol (`World.blockOnStage`, `World.wakeStage`, the
`.dropWaker` / `.awWake` cases of `World.runOp`): which stage writes which piece of the state.
-/
import LoomVerif.Proofs.C20Frame

set_option linter.unusedSimpArgs false
set_option linter.unusedVariables false

namespace LoomVerif
namespace C20

/-! ### what the wrappers do to `ctl`, `futs`, `events` -/

theorem ctl_setStage (w : World) (n : Nat) :
    (w.setStage n).ctl = w.ctl.modify w.tid (fun c => { c with stage := n }) := rfl
theorem ctl_modCtl (w : World) (t : Nat) (f : TCtl → TCtl) : (w.modCtl t f).ctl = w.ctl.modify t f := rfl
theorem ctl_modFut (w : World) (f : Nat) (g : FutSt → FutSt) : (w.modFut f g).ctl = w.ctl := rfl
theorem ctl_complete (w : World) (r : Ret) :
    (w.complete r).ctl = w.ctl.modify w.tid (fun c =>
      { c with
        pc := c.pc + 1
        stage := 0
        prim := none
        results := (c.pc, r) :: c.results }) := rfl
theorem futs_setStage (w : World) (n : Nat) : (w.setStage n).futs = w.futs := rfl
theorem futs_modCtl (w : World) (t : Nat) (f : TCtl → TCtl) : (w.modCtl t f).futs = w.futs := rfl
theorem futs_modFut (w : World) (f : Nat) (g : FutSt → FutSt) :
    (w.modFut f g).futs = w.futs.modify f g := rfl
theorem futs_complete (w : World) (r : Ret) : (w.complete r).futs = w.futs := rfl
theorem events_setStage (w : World) (n : Nat) : (w.setStage n).events = w.events := rfl
theorem events_modCtl (w : World) (t : Nat) (f : TCtl → TCtl) : (w.modCtl t f).events = w.events := rfl
theorem events_modFut (w : World) (f : Nat) (g : FutSt → FutSt) : (w.modFut f g).events = w.events := rfl
theorem events_complete (w : World) (r : Ret) :
    (w.complete r).events =
      ⟨(w.ctlOf w.tid).body, (w.ctlOf w.tid).pc, r, (w.ths.get w.tid).causality⟩ :: w.events := rfl

theorem ctl_setObj (w : World) (o : Nat) (v : Obj) : (w.setObj o v).ctl = w.ctl := rfl
theorem futs_setObj (w : World) (o : Nat) (v : Obj) : (w.setObj o v).futs = w.futs := rfl
theorem tid_setObj (w : World) (o : Nat) (v : Obj) : (w.setObj o v).tid = w.tid := rfl
theorem ctl_sync (w : World) : w.sync.ctl = w.ctl := rfl
theorem futs_sync (w : World) : w.sync.futs = w.futs := rfl
theorem tid_sync (w : World) : w.sync.tid = w.tid := rfl

theorem getD_modify {α} (l : List α) (i t : Nat) (f : α → α) (d : α) :
    (l.modify i f)[t]?.getD d = if i = t ∧ t < l.length then f (l[t]?.getD d) else l[t]?.getD d := by
  simp only [List.getElem?_modify]
  by_cases ht : t < l.length
  · by_cases e : i = t <;> simp [ht, e]
  · simp [ht]

theorem primStart_cf {w w' : World} {x : Nat} {p : Prim} {n : Nat}
    (h : w.primStart x p n = .ok w') :
    w'.ctl = (w.ctl.modify w.tid (fun c => { c with prim := some p })).modify w.tid
      (fun c => { c with stage := n }) ∧ w'.futs = w.futs ∧ w'.events = w.events := by
  unfold World.primStart at h
  split at h
  · have := branch_cf h
    exact this
  · cases h; exact ⟨rfl, rfl, rfl⟩

/-- forward saturation with the frame facts of the helpers -/
macro "bo_sat" : tactic => `(tactic|
  (try (have := branch_cf ‹World.branch _ _ _ _ _ = Except.ok _›)
   try (have := yieldNow_cf ‹World.yieldNow _ = Except.ok _›)
   try (have := primEffect_cf ‹World.primEffect _ _ _ = Except.ok _›)
   try (have := postAcquire_cf ‹World.postAcquire _ _ = Except.ok _›)
   try (have := releaseLock_cf ‹World.releaseLock _ _ = Except.ok _›)
   try (have := notifyEffect_cf ‹World.notifyEffect _ _ = Except.ok _›)
   try (have := notifyWait1_cf ‹World.notifyWait1 _ _ = Except.ok _›)
   try (have := notifyWait2_cf ‹World.notifyWait2 _ _ = Except.ok _›)
   try (have := wakerClone_cf ‹World.wakerClone _ _ = Except.ok _›)
   try (have := wakerDrop_cf ‹World.wakerDrop _ _ = Except.ok _›)
   try (have := primStart_cf ‹World.primStart _ _ _ _ = Except.ok _›)))

macro "bo_simp" : tactic => `(tactic|
  simp_all [CF, World.ctlOf, ctl_setStage, ctl_modCtl, ctl_modFut,
    ctl_complete, futs_setStage, futs_modCtl, futs_modFut, futs_complete, events_setStage,
    events_modCtl, events_modFut, events_complete, getD_modify, World.pushObj, World.setObjs,
    ctl_setObj, futs_setObj, tid_setObj, ctl_sync, futs_sync, tid_sync])

macro "bo_auto" h:ident : tactic => `(tactic|
  (mt_split $h
   all_goals first
     | (cases $h:ident; done)
     | (bo_sat; (try cases $h:ident)
        (try bo_simp)
        (try intro t)
        (repeat' split)
        all_goals (try bo_simp)
        all_goals (try omega)
        done)))

/-- no thread newly enters the poll stage 10 of `block_on` -/
def NoRepoll (w w' : World) : Prop := ∀ t, (w'.ctlOf t).stage = 10 → (w.ctlOf t).stage = 10

theorem blockOn_noRepoll {w w' : World} {c : TCtl} {f mode : Nat}
    (h : w.blockOnStage c f mode = .ok w') (h0 : c.stage ≠ 0) (h15 : c.stage ≠ 15)
    (h16 : c.stage ≠ 16) : NoRepoll w w' := by
  unfold NoRepoll
  unfold World.blockOnStage at h
  bo_auto h

/-- the `AtomicWaker` slots are as before -/
def AwKept (w w' : World) : Prop :=
  ∀ f', (w'.futs.getD f' {}).awWaker = (w.futs.getD f' {}).awWaker

/-- the plain waker slots are as before -/
def SlotKept (w w' : World) : Prop :=
  ∀ f', (w'.futs.getD f' {}).slot = (w.futs.getD f' {}).slot

/-- either no event was recorded, or exactly one: the completion with result `r` -/
def CompletesOnlyWith (r : Ret) (w w' : World) : Prop :=
  w'.events = w.events ∨ (w'.events.tail = w.events ∧ w'.events.head?.map (·.ret) = some r)

theorem blockOn_awKept {w w' : World} {c : TCtl} {f mode : Nat}
    (h : w.blockOnStage c f mode = .ok w') (h21 : c.stage ≠ 21) (h44 : c.stage ≠ 44) :
    AwKept w w' := by
  unfold AwKept
  unfold World.blockOnStage at h
  bo_auto h

theorem blockOn_slotKept {w w' : World} {c : TCtl} {f mode : Nat}
    (h : w.blockOnStage c f mode = .ok w') (h30 : c.stage ≠ 30) (h45 : c.stage ≠ 45) :
    SlotKept w w' := by
  unfold SlotKept
  unfold World.blockOnStage at h
  bo_auto h

theorem blockOn_events {w w' : World} {c : TCtl} {f mode : Nat}
    (h : w.blockOnStage c f mode = .ok w') :
    (c.stage ≠ 40 → c.stage ≠ 41 → c.stage ≠ 43 → c.stage ≠ 44 → c.stage ≠ 45 → c.stage ≠ 46 →
      w'.events = w.events) ∧
    (c.stage = 40 → mode ≠ 3 → mode ≠ 4 → mode ≠ 5 → w'.events = w.events) ∧
    (c.stage ≠ 41 → CompletesOnlyWith (.val 7) w w') ∧
    (c.stage = 41 → CompletesOnlyWith (.val 0) w w') := by
  unfold CompletesOnlyWith
  unfold World.blockOnStage at h
  bo_auto h

/-- no thread newly enters stage `n` -/
def NoEnter (n : Nat) (w w' : World) : Prop := ∀ t, (w'.ctlOf t).stage = n → (w.ctlOf t).stage = n

/-- the "pending" return stage 41 (result `.val 0`) is entered only from the second flag check (stage 15) of a
poll-once call (mode 4) -/
theorem blockOn_noPending {w w' : World} {c : TCtl} {f mode : Nat}
    (h : w.blockOnStage c f mode = .ok w') (h15 : c.stage ≠ 15 ∨ mode ≠ 4) : NoEnter 41 w w' := by
  unfold NoEnter
  unfold World.blockOnStage at h
  bo_auto h

/-- the second half of `Notify::wait` (stage 16) is entered only from stage 15 of a call that is not poll-once -/
theorem blockOn_noWait {w w' : World} {c : TCtl} {f mode : Nat}
    (h : w.blockOnStage c f mode = .ok w') (h15 : c.stage ≠ 15 ∨ mode = 4) : NoEnter 16 w w' := by
  unfold NoEnter
  unfold World.blockOnStage at h
  bo_auto h

/-- a poll-once call (mode 4) polls once: after the set-up it never moves a thread into the poll stage (stage 16,
the only other source, is not entered in mode 4: `blockOn_noWait`) -/
theorem blockOn_noRepoll4 {w w' : World} {c : TCtl} {f : Nat}
    (h : w.blockOnStage c f 4 = .ok w') (h0 : c.stage ≠ 0) (h16 : c.stage ≠ 16) : NoRepoll w w' := by
  unfold NoRepoll
  unfold World.blockOnStage at h
  bo_auto h

/-- which waker is registered in the `AtomicWaker`s (`awArc`, `awNotify`) is as before -/
def AwIdKept (w w' : World) : Prop :=
  ∀ f', (w'.futs.getD f' {}).awArc = (w.futs.getD f' {}).awArc ∧
    (w'.futs.getD f' {}).awNotify = (w.futs.getD f' {}).awNotify

theorem blockOn_awIdKept {w w' : World} {c : TCtl} {f mode : Nat}
    (h : w.blockOnStage c f mode = .ok w') (h21 : c.stage ≠ 21) : AwIdKept w w' := by
  unfold AwIdKept
  unfold World.blockOnStage at h
  bo_auto h

theorem wake_noRepoll {w w' : World} {c : TCtl} {f : Nat} {b st : Bool}
    (h : w.wakeStage c f b st = .ok w') : NoRepoll w w' := by
  unfold NoRepoll
  unfold World.wakeStage at h
  bo_auto h

theorem wake_awKept {w w' : World} {c : TCtl} {f : Nat} {b st : Bool}
    (h : w.wakeStage c f b st = .ok w') : AwKept w w' := by
  unfold AwKept
  unfold World.wakeStage at h
  bo_auto h

theorem wake_awIdKept {w w' : World} {c : TCtl} {f : Nat} {b st : Bool}
    (h : w.wakeStage c f b st = .ok w') : AwIdKept w w' := by
  unfold AwIdKept
  unfold World.wakeStage at h
  bo_auto h

theorem wake_slotKept {w w' : World} {c : TCtl} {f : Nat} {b st : Bool}
    (h : w.wakeStage c f b st = .ok w') (h2 : c.stage ≠ 2 ∨ b = false) : SlotKept w w' := by
  unfold SlotKept
  unfold World.wakeStage at h
  bo_auto h

theorem dropWaker_frames {w w' : World} {c : TCtl} {f : Nat}
    (h : w.runOp c (.dropWaker f) = .ok w') :
    NoRepoll w w' ∧ AwKept w w' ∧ (c.stage ≠ 1 → SlotKept w w') := by
  simp only [World.runOp] at h
  refine ⟨?_, ?_, ?_⟩
  · unfold NoRepoll; bo_auto h
  · unfold AwKept; bo_auto h
  · intro h1; unfold SlotKept; bo_auto h

theorem dropWaker_awIdKept {w w' : World} {c : TCtl} {f : Nat}
    (h : w.runOp c (.dropWaker f) = .ok w') : AwIdKept w w' := by
  simp only [World.runOp] at h
  unfold AwIdKept; bo_auto h

theorem awWake_frames {w w' : World} {c : TCtl} {f : Nat}
    (h : w.runOp c (.awWake f) = .ok w') :
    NoRepoll w w' ∧ SlotKept w w' ∧ (c.stage ≠ 2 → AwKept w w') := by
  simp only [World.runOp] at h
  refine ⟨?_, ?_, ?_⟩
  · unfold NoRepoll; bo_auto h
  · unfold SlotKept; bo_auto h
  · intro h1; unfold AwKept; bo_auto h

theorem awWake_awIdKept {w w' : World} {c : TCtl} {f : Nat}
    (h : w.runOp c (.awWake f) = .ok w') : AwIdKept w w' := by
  simp only [World.runOp] at h
  unfold AwIdKept; bo_auto h

theorem awTake_frames {w w' : World} {c : TCtl} {f : Nat}
    (h : w.awTakeStage c f = .ok w') :
    NoRepoll w w' ∧ SlotKept w w' ∧ (c.stage ≠ 1 → AwKept w w') ∧ AwIdKept w w' := by
  unfold World.awTakeStage at h
  refine ⟨?_, ?_, ?_, ?_⟩
  · unfold NoRepoll; bo_auto h
  · unfold SlotKept; bo_auto h
  · intro h1; unfold AwKept; bo_auto h
  · unfold AwIdKept; bo_auto h

theorem wClone_frames {w w' : World} {c : TCtl} {f : Nat}
    (h : w.runOp c (.wClone f) = .ok w') :
    NoRepoll w w' ∧ SlotKept w w' ∧ AwKept w w' ∧ AwIdKept w w' := by
  simp only [World.runOp] at h
  refine ⟨?_, ?_, ?_, ?_⟩
  · unfold NoRepoll; bo_auto h
  · unfold SlotKept; bo_auto h
  · unfold AwKept; bo_auto h
  · unfold AwIdKept; bo_auto h

theorem wakeH_frames {w w' : World} {c : TCtl} {f : Nat}
    (h : w.runOp c (.wakeH f) = .ok w') :
    NoRepoll w w' ∧ SlotKept w w' ∧ AwKept w w' ∧ AwIdKept w w' := by
  simp only [World.runOp] at h
  refine ⟨?_, ?_, ?_, ?_⟩
  · unfold NoRepoll; bo_auto h
  · unfold SlotKept; bo_auto h
  · unfold AwKept; bo_auto h
  · unfold AwIdKept; bo_auto h

/-- the four operations of a cell section -/
def IsCellOp : Op → Prop
  | .cellReadBegin _ | .cellReadEnd _ | .cellWriteBegin _ _ | .cellWriteEnd _ => True
  | _ => False

theorem cellOp_frames {w w' : World} {c : TCtl} {op : Op} (hop : IsCellOp op)
    (h : w.runOp c op = .ok w') :
    NoRepoll w w' ∧ SlotKept w w' ∧ AwKept w w' ∧ AwIdKept w w' := by
  cases op <;> simp only [IsCellOp] at hop
  all_goals
    simp only [World.runOp] at h
    refine ⟨?_, ?_, ?_, ?_⟩
    · unfold NoRepoll; bo_auto h
    · unfold SlotKept; bo_auto h
    · unfold AwKept; bo_auto h
    · unfold AwIdKept; bo_auto h

/-! ### the stages as equations (the defining equations of the twin, restated per stage) -/

section equations
variable (w : World) (c : TCtl) (f mode : Nat)

theorem blockOn_stage11 (hs : c.stage = 11) :
    w.blockOnStage c f mode = (do
      let (w1, r) ← w.primEffect f (World.pollPrim mode)
      if r == World.pollTarget mode then
        (w1.setStage 40).branch (w.arcInfo (w.futs.getD f {}).arc).obj .arcDec
      else
        (w1.setStage (if World.slotMode mode then 12 else 20)).branch
          (w.arcInfo (w.futs.getD f {}).arc).obj .arcInc) := by
  unfold World.blockOnStage; simp only [hs]

theorem blockOn_stage15 (hs : c.stage = 15) :
    w.blockOnStage c f mode = (do
      let (w1, r) ← w.primEffect f (World.pollPrim mode)
      if r == World.pollTarget mode then
        (w1.setStage 40).branch (w.arcInfo (w.futs.getD f {}).arc).obj .arcDec
      else if mode == 4 then
        (w1.setStage 41).branch (w.arcInfo (w.futs.getD f {}).arc).obj .arcDec
      else do
        let (w2, st) ← w1.notifyWait1 (w.futs.getD f {}).notify
        pure (w2.modCtl w1.tid fun c => { c with stage := if st == 1 then 16 else 10 })) := by
  unfold World.blockOnStage; simp only [hs]

theorem blockOn_stage16 (hs : c.stage = 16) :
    w.blockOnStage c f mode = (do
      let w1 ← w.notifyWait2 (w.futs.getD f {}).notify
      pure (w1.setStage 10)) := by
  unfold World.blockOnStage; simp only [hs]

theorem blockOn_stage20 (hs : c.stage = 20) :
    w.blockOnStage c f mode = (do
      let w1 ← w.wakerClone (w.futs.getD f {}).arc
      (w1.setStage 21).branch (w.futs.getD f {}).awMutex .opaque) := by
  unfold World.blockOnStage; simp only [hs]

theorem blockOn_stage21 (hs : c.stage = 21) :
    w.blockOnStage c f mode = (do
      let (w1, okk) ← w.postAcquire (w.futs.getD f {}).awMutex
      if !okk then (w1.setStage 22).branch (w.futs.getD f {}).notify .opaque
      else
        let w2 := w1.modFut f fun s => { s with awWaker := true, awArc := (w.futs.getD f {}).arc,
                                                awNotify := (w.futs.getD f {}).notify }
        if (w.futs.getD f {}).awWaker then
          let w3 := w2.modCtl w2.tid fun c => { c with taken := (w.futs.getD f {}).awArc }
          (w3.setStage 25).branch (w3.arcInfo (w.futs.getD f {}).awArc).obj .arcDec
        else do
          let w3 ← w2.releaseLock (w.futs.getD f {}).awMutex
          pure (w3.setStage 14)) := by
  unfold World.blockOnStage; simp only [hs]

theorem blockOn_stage22 (hs : c.stage = 22) :
    w.blockOnStage c f mode = (do
      let w1 ← w.notifyEffect (w.futs.getD f {}).notify
      (w1.setStage 23).branch (w.arcInfo (w.futs.getD f {}).arc).obj .arcDec) := by
  unfold World.blockOnStage; simp only [hs]

theorem blockOn_stage23 (hs : c.stage = 23) :
    w.blockOnStage c f mode = (do
      let w1 ← w.wakerDrop (w.futs.getD f {}).arc
      (w1.setStage 14).yieldNow) := by
  unfold World.blockOnStage; simp only [hs]

theorem blockOn_stage25 (hs : c.stage = 25) :
    w.blockOnStage c f mode = (do
      let w1 ← w.wakerDrop c.taken
      let w2 ← w1.releaseLock (w.futs.getD f {}).awMutex
      pure (w2.setStage 14)) := by
  unfold World.blockOnStage; simp only [hs]

theorem blockOn_stage12 (hs : c.stage = 12) :
    w.blockOnStage c f mode = (do
      let w1 ← w.wakerClone (w.futs.getD f {}).arc
      let m ← w1.getMutex (w.futs.getD f {}).slotMutex
      (w1.setStage 30).branch (w.futs.getD f {}).slotMutex .opaque (block := m.lock.isSome) (wait := true)) := by
  unfold World.blockOnStage; simp only [hs]

theorem blockOn_stage30 (hs : c.stage = 30) :
    w.blockOnStage c f mode = (do
      let (w1, okk) ← w.postAcquire (w.futs.getD f {}).slotMutex
      if !okk then throw .expectedLock
      let w2 := w1.modFut f fun s => { s with slot := true }
      if (w1.futs.getD f {}).slot then
        (w2.setStage 13).branch (w.arcInfo (w.futs.getD f {}).arc).obj .arcDec
      else do
        let w3 ← w2.releaseLock (w.futs.getD f {}).slotMutex
        pure (w3.setStage 14)) := by
  unfold World.blockOnStage; simp only [hs]

theorem blockOn_stage13 (hs : c.stage = 13) :
    w.blockOnStage c f mode = (do
      let w1 ← w.wakerDrop (w.futs.getD f {}).arc
      let w2 ← w1.releaseLock (w.futs.getD f {}).slotMutex
      pure (w2.setStage 14)) := by
  unfold World.blockOnStage; simp only [hs]

theorem blockOn_stage40 (hs : c.stage = 40) :
    w.blockOnStage c f mode = (do
      let w1 ← w.wakerDrop (w.futs.getD f {}).arc
      if World.slotMode mode then do
        let m ← w1.getMutex (w.futs.getD f {}).slotMutex
        (w1.setStage 45).branch (w.futs.getD f {}).slotMutex .opaque (block := m.lock.isSome) (wait := true)
      else if mode == 3 || mode == 4 || mode == 5 then pure (w1.complete (.val 7))
      else do
        let m ← w1.getMutex (w.futs.getD f {}).awMutex
        (w1.setStage 44).branch (w.futs.getD f {}).awMutex .opaque (block := m.lock.isSome) (wait := true)) := by
  unfold World.blockOnStage; simp only [hs]

theorem blockOn_stage41 (hs : c.stage = 41) :
    w.blockOnStage c f mode = (do
      let w1 ← w.wakerDrop (w.futs.getD f {}).arc
      pure (w1.complete (.val 0))) := by
  unfold World.blockOnStage; simp only [hs]

theorem blockOn_stage43 (hs : c.stage = 43) :
    w.blockOnStage c f mode = (do
      let w1 ← w.wakerDrop (w.futs.getD f {}).arc
      pure (w1.complete (.val 7))) := by
  unfold World.blockOnStage; simp only [hs]

theorem blockOn_stage44 (hs : c.stage = 44) :
    w.blockOnStage c f mode = (do
      let (w1, okk) ← w.postAcquire (w.futs.getD f {}).awMutex
      if !okk then throw .expectedLock
      let w2 := w1.modFut f fun s => { s with awWaker := false }
      let w3 ← w2.releaseLock (w.futs.getD f {}).awMutex
      if (w1.futs.getD f {}).awWaker then
        let w4 := w3.modCtl w3.tid fun c => { c with taken := (w.futs.getD f {}).awArc }
        (w4.setStage 46).branch (w4.arcInfo (w.futs.getD f {}).awArc).obj .arcDec
      else pure (w3.complete (.val 7))) := by
  unfold World.blockOnStage; simp only [hs]

theorem blockOn_stage46 (hs : c.stage = 46) :
    w.blockOnStage c f mode = (do
      let w1 ← w.wakerDrop c.taken
      pure (w1.complete (.val 7))) := by
  unfold World.blockOnStage; simp only [hs]

theorem blockOn_stage45 (hs : c.stage = 45) :
    w.blockOnStage c f mode = (do
      let (w1, okk) ← w.postAcquire (w.futs.getD f {}).slotMutex
      if !okk then throw .expectedLock
      let w2 := w1.modFut f fun s => { s with slot := false }
      let w3 ← w2.releaseLock (w.futs.getD f {}).slotMutex
      if (w1.futs.getD f {}).slot then
        (w3.setStage 43).branch (w.arcInfo (w.futs.getD f {}).arc).obj .arcDec
      else pure (w3.complete (.val 7))) := by
  unfold World.blockOnStage; simp only [hs]

theorem wake_stage0_quiet (b : Bool) (hs : c.stage = 0) :
    w.wakeStage c f b false = (do
      let m ← w.getMutex (w.futs.getD f {}).slotMutex
      (w.setStage 2).branch (w.futs.getD f {}).slotMutex .opaque (block := m.lock.isSome) (wait := true)) := by
  unfold World.wakeStage; simp only [hs]; rfl

theorem wake_stage2 (b st : Bool) (hs : c.stage = 2) :
    w.wakeStage c f b st = (do
      let (w1, okk) ← w.postAcquire (w.futs.getD f {}).slotMutex
      if !okk then throw .expectedLock
      let w2 := w1.modCtl w1.tid fun c =>
        { c with taken := (w.futs.getD f {}).arc, takenNotify := (w.futs.getD f {}).notify }
      if b then
        let w3 := w2.modFut f fun s => { s with slot := false }
        let w4 ← w3.releaseLock (w.futs.getD f {}).slotMutex
        if (w1.futs.getD f {}).slot then (w4.setStage 3).branch (w.futs.getD f {}).notify .opaque
        else pure (w4.complete .unit)
      else
        if (w1.futs.getD f {}).slot then (w2.setStage 5).branch (w.futs.getD f {}).notify .opaque
        else do
          let w4 ← w2.releaseLock (w.futs.getD f {}).slotMutex
          pure (w4.complete .unit)) := by
  unfold World.wakeStage; simp only [hs]

theorem wake_stage3 (b st : Bool) (hs : c.stage = 3) :
    w.wakeStage c f b st = (do
      let w1 ← w.notifyEffect c.takenNotify
      (w1.setStage 4).branch (w1.arcInfo c.taken).obj .arcDec) := by
  unfold World.wakeStage; simp only [hs]

theorem wake_stage4 (b st : Bool) (hs : c.stage = 4) :
    w.wakeStage c f b st = (do
      let w1 ← w.wakerDrop c.taken
      pure (w1.complete .unit)) := by
  unfold World.wakeStage; simp only [hs]

theorem wake_stage5 (b st : Bool) (hs : 5 ≤ c.stage) :
    w.wakeStage c f b st = (do
      let w1 ← w.notifyEffect c.takenNotify
      let w2 ← w1.releaseLock (w.futs.getD f {}).slotMutex
      pure (w2.complete .unit)) := by
  obtain ⟨n, hn⟩ : ∃ n, c.stage = n + 5 := ⟨c.stage - 5, by omega⟩
  unfold World.wakeStage; simp only [hn]

theorem wakeQ_eq : w.runOp c (.wakeQ f) = w.wakeStage c f false false := by
  simp only [World.runOp]

theorem awWake_stage2 (hs : c.stage = 2) :
    w.runOp c (.awWake f) = (do
      let (w1, okk) ← w.postAcquire (w.futs.getD f {}).awMutex
      if !okk then throw .expectedLock
      let w2 := w1.modFut f fun s => { s with awWaker := false }
      let w3 ← w2.releaseLock (w.futs.getD f {}).awMutex
      if (w1.futs.getD f {}).awWaker then
        let w4 := w3.modCtl w3.tid fun c =>
          { c with taken := (w.futs.getD f {}).awArc, takenNotify := (w.futs.getD f {}).awNotify }
        (w4.setStage 3).branch (w.futs.getD f {}).awNotify .opaque
      else pure (w3.complete .unit)) := by
  simp only [World.runOp, hs]

theorem awWake_stage3 (hs : c.stage = 3) :
    w.runOp c (.awWake f) = (do
      let w1 ← w.notifyEffect c.takenNotify
      (w1.setStage 4).branch (w1.arcInfo c.taken).obj .arcDec) := by
  simp only [World.runOp, hs]

theorem awWake_stage4 (hs : 4 ≤ c.stage) :
    w.runOp c (.awWake f) = (do
      let w1 ← w.wakerDrop c.taken
      pure (w1.complete .unit)) := by
  obtain ⟨n, hn⟩ : ∃ n, c.stage = n + 4 := ⟨c.stage - 4, by omega⟩
  simp only [World.runOp, hn]

theorem dropWaker_stage1 (hs : c.stage = 1) :
    w.runOp c (.dropWaker f) = (do
      let (w1, okk) ← w.postAcquire (w.futs.getD f {}).slotMutex
      if !okk then throw .expectedLock
      let w2 := w1.modFut f fun s => { s with slot := false }
      let w3 ← w2.releaseLock (w.futs.getD f {}).slotMutex
      if (w1.futs.getD f {}).slot then
        let w4 := w3.modCtl w3.tid fun c => { c with taken := (w.futs.getD f {}).arc }
        (w4.setStage 2).branch (w4.arcInfo (w.futs.getD f {}).arc).obj .arcDec
      else pure (w3.complete .unit)) := by
  simp only [World.runOp, hs]

theorem dropWaker_stage2 (hs : 2 ≤ c.stage) :
    w.runOp c (.dropWaker f) = (do
      let w1 ← w.wakerDrop c.taken
      pure (w1.complete .unit)) := by
  obtain ⟨n, hn⟩ : ∃ n, c.stage = n + 2 := ⟨c.stage - 2, by omega⟩
  simp only [World.runOp, hn]

theorem awTake_stage1 (hs : c.stage = 1) :
    w.runOp c (.awTake f) = (do
      let (w1, okk) ← w.postAcquire (w.futs.getD f {}).awMutex
      if !okk then throw .expectedLock
      let w2 := w1.modFut f fun s => { s with awWaker := false }
      let w3 ← w2.releaseLock (w.futs.getD f {}).awMutex
      if (w1.futs.getD f {}).awWaker then
        let w4 := w3.modCtl w3.tid fun c => { c with taken := (w.futs.getD f {}).awArc }
        (w4.setStage 2).branch (w4.arcInfo (w.futs.getD f {}).awArc).obj .arcDec
      else pure (w3.complete .unit)) := by
  simp only [World.runOp, World.awTakeStage, hs]

theorem awTake_stage2 (hs : 2 ≤ c.stage) :
    w.runOp c (.awTake f) = (do
      let w1 ← w.wakerDrop c.taken
      pure (w1.complete .unit)) := by
  obtain ⟨n, hn⟩ : ∃ n, c.stage = n + 2 := ⟨c.stage - 2, by omega⟩
  simp only [World.runOp, World.awTakeStage, hn]

theorem wClone_stage1 (hs : c.stage = 1) :
    w.runOp c (.wClone f) = (do
      let (w1, okk) ← w.postAcquire (w.futs.getD f {}).slotMutex
      if !okk then throw .expectedLock
      if (w1.futs.getD f {}).slot then
        (w1.setStage 2).branch (w1.arcInfo (w.futs.getD f {}).arc).obj .arcInc
      else do
        let w2 ← w1.releaseLock (w.futs.getD f {}).slotMutex
        pure (w2.complete (.val 0))) := by
  simp only [World.runOp, hs]

theorem wClone_stage2 (hs : 2 ≤ c.stage) :
    w.runOp c (.wClone f) = (do
      let w1 ← w.wakerClone (w.futs.getD f {}).arc
      let w2 := w1.modCtl w1.tid fun c =>
        { c with held := (f, (w.futs.getD f {}).arc, (w.futs.getD f {}).notify) :: c.held.filter (·.1 != f) }
      let w3 ← w2.releaseLock (w.futs.getD f {}).slotMutex
      pure (w3.complete (.val 1))) := by
  obtain ⟨n, hn⟩ : ∃ n, c.stage = n + 2 := ⟨c.stage - 2, by omega⟩
  simp only [World.runOp, hn]

theorem wakeH_none (hh : c.held.lookup f = none) :
    w.runOp c (.wakeH f) = pure (w.complete .unit) := by
  simp only [World.runOp, hh]

theorem wakeH_stage0 (a n : Nat) (hh : c.held.lookup f = some (a, n)) (hs : c.stage = 0) :
    w.runOp c (.wakeH f) = (w.setStage 1).branch n .opaque := by
  simp only [World.runOp, hh, hs]

theorem wakeH_stage1 (a n : Nat) (hh : c.held.lookup f = some (a, n)) (hs : c.stage = 1) :
    w.runOp c (.wakeH f) = (do
      let w1 ← w.notifyEffect n
      (w1.setStage 2).branch (w1.arcInfo a).obj .arcDec) := by
  simp only [World.runOp, hh, hs]

theorem wakeH_stage2 (a n : Nat) (hh : c.held.lookup f = some (a, n)) (hs : 2 ≤ c.stage) :
    w.runOp c (.wakeH f) = (do
      let w1 ← w.wakerDrop a
      let w2 := w1.modCtl w1.tid fun c => { c with held := c.held.filter (·.1 != f) }
      pure (w2.complete .unit)) := by
  obtain ⟨k, hk⟩ : ∃ k, c.stage = k + 2 := ⟨c.stage - 2, by omega⟩
  simp only [World.runOp, hh, hk]

end equations

end C20
end LoomVerif

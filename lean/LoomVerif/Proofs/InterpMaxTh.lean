/-
The interpreter never writes the two configuration constants of an execution: `Exec.maxThreads`
and the branch limit `Exec.path.cap`.  `runIter` returns an execution with the values it was given
(`runIter_maxThreads`, `runIter_cap`).

Every helper `f` of `Model/Interp.lean` that returns a world gets a lemma
`f w … = .ok w' → w'.exec.maxThreads = w.exec.maxThreads ∧ w'.exec.path.cap = w.exec.path.cap`,
proved by unfolding the `Except` monad, splitting every `match`/`if`, and closing each leaf with
the lemmas of the callees (collected by the `mt_sat*` macros).
-/
import LoomVerif.Model.Interp
import LoomVerif.Proofs.PathApi

set_option linter.unusedSimpArgs false
set_option linter.unusedVariables false

namespace LoomVerif

theorem Except.bind_eq_ok' {ε α β} {x : Except ε α} {f : α → Except ε β} {b : β} :
    (x >>= f) = .ok b ↔ ∃ a, x = .ok a ∧ f a = .ok b := by
  cases x with
  | error e => simp [bind, Except.bind]
  | ok a => simp [bind, Except.bind]

/-- unfold the `Except` monad in `h` and split every `match`/`if` -/
macro "mt_split" h:ident : tactic => `(tactic|
  (simp only [bind, Except.bind, pure, Except.pure, throw, throwThe, MonadExceptOf.throw] at $h:ident
   repeat' split at $h:ident))

/-! ### `Path`: the API functions keep `cap` -/

namespace Path

theorem branchThread_cap {p : Path} {seed : List ThSt} {pk : Bool} {r : Path × Option Nat}
    (h : p.branchThread seed pk = .ok r) : r.1.cap = p.cap :=
  (branchThread_frame (r := r.2) h).1.cap

theorem pushLoad_cap {p p' : Path} {seed : List Nat} {pk : Bool}
    (h : p.pushLoad seed pk = .ok p') : p'.cap = p.cap :=
  (pushLoad_frame h).1.cap

theorem branchLoad_cap {p : Path} {r : Path × Nat} (h : p.branchLoad = .ok r) : r.1.cap = p.cap :=
  (branchLoad_frame (v := r.2) h).1.cap

theorem branchSpurious_cap {p : Path} {pk : Bool} {r : Path × Bool}
    (h : p.branchSpurious pk = .ok r) : r.1.cap = p.cap :=
  (branchSpurious_frame (b := r.2) h).1.cap

theorem backtrack_cap {p p' : Path} {point tid : Nat} (h : p.backtrack point tid = .ok p') :
    p'.cap = p.cap :=
  (backtrack_frame h).1.cap

theorem exploreState_cap {p p' : Path} (h : p.exploreState = .ok p') : p'.cap = p.cap :=
  (exploreState_frame h).1.cap

theorem critical_cap {p p' : Path} (h : p.critical = .ok p') : p'.cap = p.cap :=
  (critical_frame h).1.cap

@[simp] theorem skipBranch_cap (p : Path) : p.skipBranch.cap = p.cap := rfl

end Path

/-- forward saturation with the lemmas about `Path` -/
macro "mt_satP" : tactic => `(tactic|
  (try (have := Path.branchThread_cap ‹Path.branchThread _ _ _ = Except.ok _›)
   try (have := Path.pushLoad_cap ‹Path.pushLoad _ _ _ = Except.ok _›)
   try (have := Path.branchLoad_cap ‹Path.branchLoad _ = Except.ok _›)
   try (have := Path.branchSpurious_cap ‹Path.branchSpurious _ _ = Except.ok _›)
   try (have := Path.exploreState_cap ‹Path.exploreState _ = Except.ok _›)
   try (have := Path.critical_cap ‹Path.critical _ = Except.ok _›)))

/-! ### `Exec` -/

theorem Exec.dporMarks_go_cap (e : Exec) (l : List Thread) (i : Nat) (p p' : Path)
    (h : Exec.dporMarks.go e l i p = .ok p') : p'.cap = p.cap := by
  induction l generalizing i p with
  | nil => unfold Exec.dporMarks.go at h; cases h; rfl
  | cons th rest ih =>
    unfold Exec.dporMarks.go at h
    repeat' split at h
    all_goals first
      | (cases h; done)
      | exact ih _ _ h
      | exact (ih _ _ h).trans (Path.backtrack_cap ‹_›)

theorem Exec.dporMarks_cap {e : Exec} {p : Path} (h : e.dporMarks = .ok p) : p.cap = e.path.cap :=
  Exec.dporMarks_go_cap e _ _ _ _ h

theorem Exec.schedule_mt {e : Exec} {p : Bool} {r : Exec × Bool} (h : e.schedule p = .ok r) :
    r.1.maxThreads = e.maxThreads ∧ r.1.path.cap = e.path.cap := by
  unfold Exec.schedule at h
  mt_split h
  all_goals first
    | (cases h; done)
    | (mt_satP
       have := Exec.dporMarks_cap ‹Exec.dporMarks _ = Except.ok _›
       cases h; simp_all; done)

theorem Exec.newThread_mt {e : Exec} {r : Exec × Nat} (h : e.newThread = .ok r) :
    r.1.maxThreads = e.maxThreads ∧ r.1.path.cap = e.path.cap := by
  unfold Exec.newThread at h
  mt_split h
  all_goals first | (cases h; done) | (cases h; exact ⟨rfl, rfl⟩)

/-- forward saturation with the lemmas about `Path` and `Exec` -/
macro "mt_sat0" : tactic => `(tactic|
  (mt_satP
   try (have := Exec.schedule_mt ‹Exec.schedule _ _ = Except.ok _›)
   try (have := Exec.newThread_mt ‹Exec.newThread _ = Except.ok _›)))


macro "mt_auto0" h:ident : tactic => `(tactic|
  (mt_split $h
   all_goals first
     | (cases $h:ident; done)
     | (mt_sat0; (try cases $h:ident); simp_all; done)))


/-! ### pure helpers of the interpreter -/

namespace World

@[simp] theorem setThs_mt (w : World) (t : Threads) :
    (w.setThs t).exec.maxThreads = w.exec.maxThreads := rfl
@[simp] theorem setThs_cap (w : World) (t : Threads) :
    (w.setThs t).exec.path.cap = w.exec.path.cap := rfl
@[simp] theorem setObjs_mt (w : World) (o : Objs) :
    (w.setObjs o).exec.maxThreads = w.exec.maxThreads := rfl
@[simp] theorem setObjs_cap (w : World) (o : Objs) :
    (w.setObjs o).exec.path.cap = w.exec.path.cap := rfl
@[simp] theorem setPath_mt (w : World) (p : Path) :
    (w.setPath p).exec.maxThreads = w.exec.maxThreads := rfl
@[simp] theorem setPath_cap (w : World) (p : Path) :
    (w.setPath p).exec.path.cap = p.cap := rfl
@[simp] theorem pushObj_mt (w : World) (o : Obj) :
    (w.pushObj o).1.exec.maxThreads = w.exec.maxThreads := rfl
@[simp] theorem pushObj_cap (w : World) (o : Obj) :
    (w.pushObj o).1.exec.path.cap = w.exec.path.cap := rfl
@[simp] theorem modCtl_mt (w : World) (t : Nat) (f : TCtl → TCtl) :
    (w.modCtl t f).exec.maxThreads = w.exec.maxThreads := rfl
@[simp] theorem modCtl_cap (w : World) (t : Nat) (f : TCtl → TCtl) :
    (w.modCtl t f).exec.path.cap = w.exec.path.cap := rfl
@[simp] theorem setStage_mt (w : World) (n : Nat) :
    (w.setStage n).exec.maxThreads = w.exec.maxThreads := rfl
@[simp] theorem setStage_cap (w : World) (n : Nat) :
    (w.setStage n).exec.path.cap = w.exec.path.cap := rfl
@[simp] theorem setObj_mt (w : World) (o : Nat) (v : Obj) :
    (w.setObj o v).exec.maxThreads = w.exec.maxThreads := rfl
@[simp] theorem setObj_cap (w : World) (o : Nat) (v : Obj) :
    (w.setObj o v).exec.path.cap = w.exec.path.cap := rfl
@[simp] theorem complete_mt (w : World) (r : Ret) :
    (w.complete r).exec.maxThreads = w.exec.maxThreads := rfl
@[simp] theorem complete_cap (w : World) (r : Ret) :
    (w.complete r).exec.path.cap = w.exec.path.cap := rfl
@[simp] theorem sync_mt (w : World) :
    w.sync.exec.maxThreads = w.exec.maxThreads := rfl
@[simp] theorem sync_cap (w : World) :
    w.sync.exec.path.cap = w.exec.path.cap := rfl
@[simp] theorem forOthers_mt (w : World) (p : Operation → Bool) (f : Thread → Thread) :
    (w.forOthers p f).exec.maxThreads = w.exec.maxThreads := rfl
@[simp] theorem forOthers_cap (w : World) (p : Operation → Bool) (f : Thread → Thread) :
    (w.forOthers p f).exec.path.cap = w.exec.path.cap := rfl
@[simp] theorem fenceAcq_mt (w : World) :
    w.fenceAcq.exec.maxThreads = w.exec.maxThreads := rfl
@[simp] theorem fenceAcq_cap (w : World) :
    w.fenceAcq.exec.path.cap = w.exec.path.cap := rfl
@[simp] theorem fenceRel_mt (w : World) :
    w.fenceRel.exec.maxThreads = w.exec.maxThreads := rfl
@[simp] theorem fenceRel_cap (w : World) :
    w.fenceRel.exec.path.cap = w.exec.path.cap := rfl
@[simp] theorem setHandle_mt (w : World) (h : Nat) (x : Option HandleSt) :
    (w.setHandle h x).exec.maxThreads = w.exec.maxThreads := rfl
@[simp] theorem setHandle_cap (w : World) (h : Nat) (x : Option HandleSt) :
    (w.setHandle h x).exec.path.cap = w.exec.path.cap := rfl
@[simp] theorem modArc_mt (w : World) (a : Nat) (f : ArcInfo → ArcInfo) :
    (w.modArc a f).exec.maxThreads = w.exec.maxThreads := rfl
@[simp] theorem modArc_cap (w : World) (a : Nat) (f : ArcInfo → ArcInfo) :
    (w.modArc a f).exec.path.cap = w.exec.path.cap := rfl

@[simp] theorem modFut_mt (w : World) (f : Nat) (g : FutSt → FutSt) :
    (w.modFut f g).exec.maxThreads = w.exec.maxThreads := rfl
@[simp] theorem modFut_cap (w : World) (f : Nat) (g : FutSt → FutSt) :
    (w.modFut f g).exec.path.cap = w.exec.path.cap := rfl
@[simp] theorem fenceSC_mt (w : World) :
    w.fenceSC.exec.maxThreads = w.exec.maxThreads := rfl
@[simp] theorem fenceSC_cap (w : World) :
    w.fenceSC.exec.path.cap = w.exec.path.cap := rfl

theorem tlsGet_exec (w : World) (k : Nat) : (w.tlsGet k).1.exec = w.exec := by
  unfold tlsGet
  dsimp only
  split <;> rfl

@[simp] theorem tlsGet_mt' (w : World) (k : Nat) :
    (w.tlsGet k).1.exec.maxThreads = w.exec.maxThreads := by rw [tlsGet_exec]
@[simp] theorem tlsGet_cap' (w : World) (k : Nat) :
    (w.tlsGet k).1.exec.path.cap = w.exec.path.cap := by rw [tlsGet_exec]

theorem tlsGet_mt {w : World} {k : Nat} {r : World × Option Nat} (h : w.tlsGet k = r) :
    r.1.exec.maxThreads = w.exec.maxThreads ∧ r.1.exec.path.cap = w.exec.path.cap := by
  subst h; exact ⟨tlsGet_mt' w k, tlsGet_cap' w k⟩

theorem foldl_exec {α} (f : World → α → World) (hf : ∀ w a, (f w a).exec = w.exec)
    (l : List α) (w : World) : (l.foldl f w).exec = w.exec := by
  induction l generalizing w with
  | nil => rfl
  | cons a l ih => rw [List.foldl_cons, ih, hf]

theorem dropLocals_exec (w : World) : w.dropLocals.exec = w.exec := by
  unfold dropLocals
  dsimp only
  have key : ∀ (l : List Nat) (w0 : World),
      (l.foldl (fun w k => { w with tlsDrops := w.tlsDrops.set k (w.tlsDrops.getD k 0 + 1) })
        w0).exec = w0.exec := by
    intro l w0; apply foldl_exec; intro _ _; rfl
  split
  · exact key _ _
  · split
    · split
      · exact key _ _
      · exact (tlsGet_exec _ _).trans (key _ _)
    · exact key _ _
  · exact key _ _

@[simp] theorem dropLocals_mt (w : World) :
    w.dropLocals.exec.maxThreads = w.exec.maxThreads := by rw [dropLocals_exec]
@[simp] theorem dropLocals_cap (w : World) :
    w.dropLocals.exec.path.cap = w.exec.path.cap := by rw [dropLocals_exec]

/-! ### effectful helpers -/

theorem branch_mt {w w' : World} {obj : Nat} {act : Action} {bl wt : Bool}
    (h : w.branch obj act bl wt = .ok w') :
    w'.exec.maxThreads = w.exec.maxThreads ∧ w'.exec.path.cap = w.exec.path.cap := by
  unfold branch at h
  mt_auto0 h

theorem yieldNow_mt {w w' : World}  (h : w.yieldNow = .ok w') :
    w'.exec.maxThreads = w.exec.maxThreads ∧ w'.exec.path.cap = w.exec.path.cap := by
  unfold yieldNow at h
  mt_auto0 h

theorem parkNow_mt {w w' : World}  (h : w.parkNow = .ok w') :
    w'.exec.maxThreads = w.exec.maxThreads ∧ w'.exec.path.cap = w.exec.path.cap := by
  unfold parkNow at h
  mt_auto0 h

theorem blockNow_mt {w w' : World}  (h : w.blockNow = .ok w') :
    w'.exec.maxThreads = w.exec.maxThreads ∧ w'.exec.path.cap = w.exec.path.cap := by
  unfold blockNow at h
  mt_auto0 h

theorem threadDone_mt {w w' : World}  (h : w.threadDone = .ok w') :
    w'.exec.maxThreads = w.exec.maxThreads ∧ w'.exec.path.cap = w.exec.path.cap := by
  unfold threadDone at h
  mt_auto0 h

theorem postAcquire_mt {w : World} {o : Nat} {r : World × Bool} (h : w.postAcquire o = .ok r) :
    r.1.exec.maxThreads = w.exec.maxThreads ∧ r.1.exec.path.cap = w.exec.path.cap := by
  unfold postAcquire at h
  mt_auto0 h

theorem releaseLock_mt {w w' : World} {o : Nat} (h : w.releaseLock o = .ok w') :
    w'.exec.maxThreads = w.exec.maxThreads ∧ w'.exec.path.cap = w.exec.path.cap := by
  unfold releaseLock at h
  mt_auto0 h

theorem postAcquireRead_mt {w : World} {o : Nat} {r : World × Bool} (h : w.postAcquireRead o = .ok r) :
    r.1.exec.maxThreads = w.exec.maxThreads ∧ r.1.exec.path.cap = w.exec.path.cap := by
  unfold postAcquireRead at h
  mt_auto0 h

theorem postAcquireWrite_mt {w : World} {o : Nat} {r : World × Bool} (h : w.postAcquireWrite o = .ok r) :
    r.1.exec.maxThreads = w.exec.maxThreads ∧ r.1.exec.path.cap = w.exec.path.cap := by
  unfold postAcquireWrite at h
  mt_auto0 h

theorem releaseRead_mt {w w' : World} {o : Nat} (h : w.releaseRead o = .ok w') :
    w'.exec.maxThreads = w.exec.maxThreads ∧ w'.exec.path.cap = w.exec.path.cap := by
  unfold releaseRead at h
  mt_auto0 h

theorem releaseWrite_mt {w w' : World} {o : Nat} (h : w.releaseWrite o = .ok w') :
    w'.exec.maxThreads = w.exec.maxThreads ∧ w'.exec.path.cap = w.exec.path.cap := by
  unfold releaseWrite at h
  mt_auto0 h

theorem notifyWait2_mt {w w' : World} {o : Nat} (h : w.notifyWait2 o = .ok w') :
    w'.exec.maxThreads = w.exec.maxThreads ∧ w'.exec.path.cap = w.exec.path.cap := by
  unfold notifyWait2 at h
  mt_auto0 h

theorem notifyEffect_mt {w w' : World} {o : Nat} (h : w.notifyEffect o = .ok w') :
    w'.exec.maxThreads = w.exec.maxThreads ∧ w'.exec.path.cap = w.exec.path.cap := by
  unfold notifyEffect at h
  mt_auto0 h

theorem sendEffect_mt {w w' : World} {o : Nat} {v : Int} (h : w.sendEffect o v = .ok w') :
    w'.exec.maxThreads = w.exec.maxThreads ∧ w'.exec.path.cap = w.exec.path.cap := by
  unfold sendEffect at h
  mt_auto0 h

theorem recvEffect_mt {w : World} {o : Nat} {r : World × Int} (h : w.recvEffect o = .ok r) :
    r.1.exec.maxThreads = w.exec.maxThreads ∧ r.1.exec.path.cap = w.exec.path.cap := by
  unfold recvEffect at h
  mt_auto0 h

theorem refDecEffect_mt {w : World} {o : Nat} {r : World × Bool} (h : w.refDecEffect o = .ok r) :
    r.1.exec.maxThreads = w.exec.maxThreads ∧ r.1.exec.path.cap = w.exec.path.cap := by
  unfold refDecEffect at h
  mt_auto0 h

theorem afterDec_mt {w w' : World} {a : Nat} {l : Bool} (h : w.afterDec a l = .ok w') :
    w'.exec.maxThreads = w.exec.maxThreads ∧ w'.exec.path.cap = w.exec.path.cap := by
  unfold afterDec at h
  mt_auto0 h

theorem primEffect_mt {w : World} {x : Nat} {p : Prim} {r : World × Ret} (h : w.primEffect x p = .ok r) :
    r.1.exec.maxThreads = w.exec.maxThreads ∧ r.1.exec.path.cap = w.exec.path.cap := by
  unfold primEffect at h
  mt_auto0 h

end World

macro "mt_sat1" : tactic => `(tactic|
  (mt_sat0
   try (have := World.branch_mt ‹World.branch _ _ _ _ _ = Except.ok _›)
   try (have := World.blockNow_mt ‹World.blockNow _ = Except.ok _›)
   try (have := World.yieldNow_mt ‹World.yieldNow _ = Except.ok _›)
   try (have := World.parkNow_mt ‹World.parkNow _ = Except.ok _›)
   try (have := World.threadDone_mt ‹World.threadDone _ = Except.ok _›)
   try (have := World.postAcquire_mt ‹World.postAcquire _ _ = Except.ok _›)
   try (have := World.releaseLock_mt ‹World.releaseLock _ _ = Except.ok _›)
   try (have := World.postAcquireRead_mt ‹World.postAcquireRead _ _ = Except.ok _›)
   try (have := World.postAcquireWrite_mt ‹World.postAcquireWrite _ _ = Except.ok _›)
   try (have := World.releaseRead_mt ‹World.releaseRead _ _ = Except.ok _›)
   try (have := World.releaseWrite_mt ‹World.releaseWrite _ _ = Except.ok _›)
   try (have := World.notifyWait2_mt ‹World.notifyWait2 _ _ = Except.ok _›)
   try (have := World.notifyEffect_mt ‹World.notifyEffect _ _ = Except.ok _›)
   try (have := World.sendEffect_mt ‹World.sendEffect _ _ _ = Except.ok _›)
   try (have := World.recvEffect_mt ‹World.recvEffect _ _ = Except.ok _›)
   try (have := World.refDecEffect_mt ‹World.refDecEffect _ _ = Except.ok _›)
   try (have := World.afterDec_mt ‹World.afterDec _ _ _ = Except.ok _›)
   try (have := World.primEffect_mt ‹World.primEffect _ _ _ = Except.ok _›)))


macro "mt_auto1" h:ident : tactic => `(tactic|
  (mt_split $h
   all_goals first
     | (cases $h:ident; done)
     | (mt_sat1; (try cases $h:ident); simp_all; done)))

namespace World

theorem primStart_mt {w w' : World} {x : Nat} {p : Prim} {next : Nat}
    (h : w.primStart x p next = .ok w') :
    w'.exec.maxThreads = w.exec.maxThreads ∧ w'.exec.path.cap = w.exec.path.cap := by
  unfold primStart at h
  mt_auto1 h

theorem notifyWait1_mt {w : World} {o : Nat} {r : World × Nat} (h : w.notifyWait1 o = .ok r) :
    r.1.exec.maxThreads = w.exec.maxThreads ∧ r.1.exec.path.cap = w.exec.path.cap := by
  unfold notifyWait1 at h
  mt_auto1 h

end World

macro "mt_sat2" : tactic => `(tactic|
  (mt_sat1
   try (have := World.primStart_mt ‹World.primStart _ _ _ _ = Except.ok _›)
   try (have := World.notifyWait1_mt ‹World.notifyWait1 _ _ = Except.ok _›)
   try (have := World.tlsGet_mt ‹World.tlsGet _ _ = _›)))


macro "mt_auto2" h:ident : tactic => `(tactic|
  (mt_split $h
   all_goals first
     | (cases $h:ident; done)
     | (mt_sat2; (try cases $h:ident); simp_all; done)))

namespace World

theorem lazyRead_mt {w : World} {sv : LazyVal} {r : World × Int} (h : w.lazyRead sv = .ok r) :
    r.1.exec.maxThreads = w.exec.maxThreads ∧ r.1.exec.path.cap = w.exec.path.cap := by
  unfold lazyRead at h
  mt_auto2 h

theorem lazyInitFinish_mt {w : World} {z id : Nat} {r : World × Int} (h : w.lazyInitFinish z id = .ok r) :
    r.1.exec.maxThreads = w.exec.maxThreads ∧ r.1.exec.path.cap = w.exec.path.cap := by
  unfold lazyInitFinish at h
  mt_split h
  all_goals first
    | (cases h; done)
    | (have := lazyRead_mt h; simp_all; done)

theorem wakerClone_mt {w w' : World} {a : Nat} (h : w.wakerClone a = .ok w') :
    w'.exec.maxThreads = w.exec.maxThreads ∧ w'.exec.path.cap = w.exec.path.cap := by
  unfold wakerClone at h
  mt_auto2 h

theorem wakerDrop_mt {w w' : World} {a : Nat} (h : w.wakerDrop a = .ok w') :
    w'.exec.maxThreads = w.exec.maxThreads ∧ w'.exec.path.cap = w.exec.path.cap := by
  unfold wakerDrop at h
  mt_auto2 h

end World

macro "mt_sat3" : tactic => `(tactic|
  (mt_sat2
   try (have := World.lazyRead_mt ‹World.lazyRead _ _ = Except.ok _›)
   try (have := World.lazyInitFinish_mt ‹World.lazyInitFinish _ _ _ = Except.ok _›)
   try (have := World.wakerClone_mt ‹World.wakerClone _ _ = Except.ok _›)
   try (have := World.wakerDrop_mt ‹World.wakerDrop _ _ = Except.ok _›)))

macro "mt_auto3" h:ident : tactic => `(tactic|
  (mt_split $h
   all_goals first
     | (cases $h:ident; done)
     | (mt_sat3; (try cases $h:ident); simp_all; done)))

namespace World

theorem blockOnStage_mt {w w' : World} {c : TCtl} {f mode : Nat}
    (h : w.blockOnStage c f mode = .ok w') :
    w'.exec.maxThreads = w.exec.maxThreads ∧ w'.exec.path.cap = w.exec.path.cap := by
  unfold blockOnStage at h
  mt_auto3 h

theorem wakeStage_mt {w w' : World} {c : TCtl} {f : Nat} {b store : Bool}
    (h : w.wakeStage c f b store = .ok w') :
    w'.exec.maxThreads = w.exec.maxThreads ∧ w'.exec.path.cap = w.exec.path.cap := by
  unfold wakeStage at h
  mt_auto3 h

theorem awTakeStage_mt {w w' : World} {c : TCtl} {f : Nat}
    (h : w.awTakeStage c f = .ok w') :
    w'.exec.maxThreads = w.exec.maxThreads ∧ w'.exec.path.cap = w.exec.path.cap := by
  unfold awTakeStage at h
  mt_auto3 h

theorem lazyStage_mt {w w' : World} {c : TCtl} {z : Nat} (h : w.lazyStage c z = .ok w') :
    w'.exec.maxThreads = w.exec.maxThreads ∧ w'.exec.path.cap = w.exec.path.cap := by
  unfold lazyStage at h
  mt_auto3 h

theorem dropPass_mt {w w' : World} {c : TCtl} {base : Nat} {done : World → Except Panic World}
    (hd : ∀ w w', done w = .ok w' →
      w'.exec.maxThreads = w.exec.maxThreads ∧ w'.exec.path.cap = w.exec.path.cap)
    (h : w.dropPass c base done = .ok w') :
    w'.exec.maxThreads = w.exec.maxThreads ∧ w'.exec.path.cap = w.exec.path.cap := by
  unfold dropPass at h
  mt_split h
  all_goals first
    | (cases h; done)
    | exact hd _ _ h
    | (mt_sat3; (try cases h); simp_all; done)

theorem finishThread_mt {w w' : World} {c : TCtl} (h : w.finishThread c = .ok w') :
    w'.exec.maxThreads = w.exec.maxThreads ∧ w'.exec.path.cap = w.exec.path.cap := by
  unfold finishThread at h
  split at h
  · cases h
  · refine dropPass_mt ?_ h
    intro w1 w2 h2
    have := threadDone_mt h2
    simp_all

end World

/-! ### `runOp`, one lemma per operation -/

namespace World

theorem runOp_atom_mt {w w' : World} {c : TCtl} (x : Nat) (aop : AOp) (h : w.runOp c (Op.atom x aop) = .ok w') :
    w'.exec.maxThreads = w.exec.maxThreads ∧ w'.exec.path.cap = w.exec.path.cap := by
  simp only [runOp] at h
  mt_auto2 h

theorem runOp_fence_mt {w w' : World} {c : TCtl} (o : Ord) (h : w.runOp c (Op.fence o) = .ok w') :
    w'.exec.maxThreads = w.exec.maxThreads ∧ w'.exec.path.cap = w.exec.path.cap := by
  simp only [runOp] at h
  mt_auto2 h

theorem runOp_cellRead_mt {w w' : World} {c : TCtl} (ci : Nat) (h : w.runOp c (Op.cellRead ci) = .ok w') :
    w'.exec.maxThreads = w.exec.maxThreads ∧ w'.exec.path.cap = w.exec.path.cap := by
  simp only [runOp] at h
  mt_auto2 h

theorem runOp_cellWrite_mt {w w' : World} {c : TCtl} (ci : Nat) (v : Int) (h : w.runOp c (Op.cellWrite ci v) = .ok w') :
    w'.exec.maxThreads = w.exec.maxThreads ∧ w'.exec.path.cap = w.exec.path.cap := by
  simp only [runOp] at h
  mt_auto2 h

theorem runOp_cellReadBegin_mt {w w' : World} {c : TCtl} (ci : Nat) (h : w.runOp c (Op.cellReadBegin ci) = .ok w') :
    w'.exec.maxThreads = w.exec.maxThreads ∧ w'.exec.path.cap = w.exec.path.cap := by
  simp only [runOp] at h
  mt_auto2 h

theorem runOp_cellReadEnd_mt {w w' : World} {c : TCtl} (ci : Nat) (h : w.runOp c (Op.cellReadEnd ci) = .ok w') :
    w'.exec.maxThreads = w.exec.maxThreads ∧ w'.exec.path.cap = w.exec.path.cap := by
  simp only [runOp] at h
  mt_auto2 h

theorem runOp_cellWriteBegin_mt {w w' : World} {c : TCtl} (ci : Nat) (v : Int) (h : w.runOp c (Op.cellWriteBegin ci v) = .ok w') :
    w'.exec.maxThreads = w.exec.maxThreads ∧ w'.exec.path.cap = w.exec.path.cap := by
  simp only [runOp] at h
  mt_auto2 h

theorem runOp_cellWriteEnd_mt {w w' : World} {c : TCtl} (ci : Nat) (h : w.runOp c (Op.cellWriteEnd ci) = .ok w') :
    w'.exec.maxThreads = w.exec.maxThreads ∧ w'.exec.path.cap = w.exec.path.cap := by
  simp only [runOp] at h
  mt_auto2 h

theorem runOp_lock_mt {w w' : World} {c : TCtl} (m : Nat) (h : w.runOp c (Op.lock m) = .ok w') :
    w'.exec.maxThreads = w.exec.maxThreads ∧ w'.exec.path.cap = w.exec.path.cap := by
  simp only [runOp] at h
  mt_auto2 h

theorem runOp_tryLock_mt {w w' : World} {c : TCtl} (m : Nat) (h : w.runOp c (Op.tryLock m) = .ok w') :
    w'.exec.maxThreads = w.exec.maxThreads ∧ w'.exec.path.cap = w.exec.path.cap := by
  simp only [runOp] at h
  mt_auto2 h

theorem runOp_unlock_mt {w w' : World} {c : TCtl} (m : Nat) (h : w.runOp c (Op.unlock m) = .ok w') :
    w'.exec.maxThreads = w.exec.maxThreads ∧ w'.exec.path.cap = w.exec.path.cap := by
  simp only [runOp] at h
  mt_auto2 h

theorem runOp_read_mt {w w' : World} {c : TCtl} (m : Nat) (h : w.runOp c (Op.read m) = .ok w') :
    w'.exec.maxThreads = w.exec.maxThreads ∧ w'.exec.path.cap = w.exec.path.cap := by
  simp only [runOp] at h
  mt_auto2 h

theorem runOp_tryRead_mt {w w' : World} {c : TCtl} (m : Nat) (h : w.runOp c (Op.tryRead m) = .ok w') :
    w'.exec.maxThreads = w.exec.maxThreads ∧ w'.exec.path.cap = w.exec.path.cap := by
  simp only [runOp] at h
  mt_auto2 h

theorem runOp_write_mt {w w' : World} {c : TCtl} (m : Nat) (h : w.runOp c (Op.write m) = .ok w') :
    w'.exec.maxThreads = w.exec.maxThreads ∧ w'.exec.path.cap = w.exec.path.cap := by
  simp only [runOp] at h
  mt_auto2 h

theorem runOp_tryWrite_mt {w w' : World} {c : TCtl} (m : Nat) (h : w.runOp c (Op.tryWrite m) = .ok w') :
    w'.exec.maxThreads = w.exec.maxThreads ∧ w'.exec.path.cap = w.exec.path.cap := by
  simp only [runOp] at h
  mt_auto2 h

theorem runOp_unread_mt {w w' : World} {c : TCtl} (m : Nat) (h : w.runOp c (Op.unread m) = .ok w') :
    w'.exec.maxThreads = w.exec.maxThreads ∧ w'.exec.path.cap = w.exec.path.cap := by
  simp only [runOp] at h
  mt_auto2 h

theorem runOp_unwrite_mt {w w' : World} {c : TCtl} (m : Nat) (h : w.runOp c (Op.unwrite m) = .ok w') :
    w'.exec.maxThreads = w.exec.maxThreads ∧ w'.exec.path.cap = w.exec.path.cap := by
  simp only [runOp] at h
  mt_auto2 h

theorem runOp_cvWait_mt {w w' : World} {c : TCtl} (v m : Nat) (h : w.runOp c (Op.cvWait v m) = .ok w') :
    w'.exec.maxThreads = w.exec.maxThreads ∧ w'.exec.path.cap = w.exec.path.cap := by
  simp only [runOp] at h
  mt_auto2 h

theorem runOp_cvOne_mt {w w' : World} {c : TCtl} (m : Nat) (h : w.runOp c (Op.cvOne m) = .ok w') :
    w'.exec.maxThreads = w.exec.maxThreads ∧ w'.exec.path.cap = w.exec.path.cap := by
  simp only [runOp] at h
  mt_auto2 h

theorem runOp_cvAll_mt {w w' : World} {c : TCtl} (m : Nat) (h : w.runOp c (Op.cvAll m) = .ok w') :
    w'.exec.maxThreads = w.exec.maxThreads ∧ w'.exec.path.cap = w.exec.path.cap := by
  simp only [runOp] at h
  mt_auto2 h

theorem runOp_nWait_mt {w w' : World} {c : TCtl} (m : Nat) (h : w.runOp c (Op.nWait m) = .ok w') :
    w'.exec.maxThreads = w.exec.maxThreads ∧ w'.exec.path.cap = w.exec.path.cap := by
  simp only [runOp] at h
  mt_auto2 h

theorem runOp_nNotify_mt {w w' : World} {c : TCtl} (m : Nat) (h : w.runOp c (Op.nNotify m) = .ok w') :
    w'.exec.maxThreads = w.exec.maxThreads ∧ w'.exec.path.cap = w.exec.path.cap := by
  simp only [runOp] at h
  mt_auto2 h

theorem runOp_park_mt {w w' : World} {c : TCtl}  (h : w.runOp c Op.park = .ok w') :
    w'.exec.maxThreads = w.exec.maxThreads ∧ w'.exec.path.cap = w.exec.path.cap := by
  simp only [runOp] at h
  mt_auto2 h

theorem runOp_unpark_mt {w w' : World} {c : TCtl} (m : Nat) (h : w.runOp c (Op.unpark m) = .ok w') :
    w'.exec.maxThreads = w.exec.maxThreads ∧ w'.exec.path.cap = w.exec.path.cap := by
  simp only [runOp] at h
  mt_auto2 h

theorem runOp_spawn_mt {w w' : World} {c : TCtl} (m : Nat) (h : w.runOp c (Op.spawn m) = .ok w') :
    w'.exec.maxThreads = w.exec.maxThreads ∧ w'.exec.path.cap = w.exec.path.cap := by
  simp only [runOp] at h
  mt_auto2 h

theorem runOp_join_mt {w w' : World} {c : TCtl} (m : Nat) (h : w.runOp c (Op.join m) = .ok w') :
    w'.exec.maxThreads = w.exec.maxThreads ∧ w'.exec.path.cap = w.exec.path.cap := by
  simp only [runOp] at h
  mt_auto2 h

theorem runOp_yield_mt {w w' : World} {c : TCtl}  (h : w.runOp c Op.yield = .ok w') :
    w'.exec.maxThreads = w.exec.maxThreads ∧ w'.exec.path.cap = w.exec.path.cap := by
  simp only [runOp] at h
  mt_auto2 h

theorem runOp_await_mt {w w' : World} {c : TCtl} (x : Nat) (v : Int) (o : Ord) (h : w.runOp c (Op.await x v o) = .ok w') :
    w'.exec.maxThreads = w.exec.maxThreads ∧ w'.exec.path.cap = w.exec.path.cap := by
  simp only [runOp] at h
  mt_auto2 h

theorem runOp_ifEq_mt {w w' : World} {c : TCtl} (i : Nat) (r : Ret) (n : Nat) (h : w.runOp c (Op.ifEq i r n) = .ok w') :
    w'.exec.maxThreads = w.exec.maxThreads ∧ w'.exec.path.cap = w.exec.path.cap := by
  simp only [runOp] at h
  mt_auto2 h

theorem runOp_send_mt {w w' : World} {c : TCtl} (q : Nat) (v : Int) (h : w.runOp c (Op.send q v) = .ok w') :
    w'.exec.maxThreads = w.exec.maxThreads ∧ w'.exec.path.cap = w.exec.path.cap := by
  simp only [runOp] at h
  mt_auto2 h

theorem runOp_recv_mt {w w' : World} {c : TCtl} (m : Nat) (h : w.runOp c (Op.recv m) = .ok w') :
    w'.exec.maxThreads = w.exec.maxThreads ∧ w'.exec.path.cap = w.exec.path.cap := by
  simp only [runOp] at h
  mt_auto2 h

theorem runOp_tryRecv_mt {w w' : World} {c : TCtl} (m : Nat) (h : w.runOp c (Op.tryRecv m) = .ok w') :
    w'.exec.maxThreads = w.exec.maxThreads ∧ w'.exec.path.cap = w.exec.path.cap := by
  simp only [runOp] at h
  mt_auto2 h

theorem runOp_dropRx_mt {w w' : World} {c : TCtl} (m : Nat) (h : w.runOp c (Op.dropRx m) = .ok w') :
    w'.exec.maxThreads = w.exec.maxThreads ∧ w'.exec.path.cap = w.exec.path.cap := by
  simp only [runOp] at h
  mt_auto2 h

theorem runOp_arcNew_mt {w w' : World} {c : TCtl} (m : Nat) (h : w.runOp c (Op.arcNew m) = .ok w') :
    w'.exec.maxThreads = w.exec.maxThreads ∧ w'.exec.path.cap = w.exec.path.cap := by
  simp only [runOp] at h
  mt_auto2 h

theorem runOp_arcClone_mt {w w' : World} {c : TCtl} (m m2 : Nat) (h : w.runOp c (Op.arcClone m m2) = .ok w') :
    w'.exec.maxThreads = w.exec.maxThreads ∧ w'.exec.path.cap = w.exec.path.cap := by
  simp only [runOp] at h
  mt_auto2 h

theorem runOp_arcDrop_mt {w w' : World} {c : TCtl} (m : Nat) (h : w.runOp c (Op.arcDrop m) = .ok w') :
    w'.exec.maxThreads = w.exec.maxThreads ∧ w'.exec.path.cap = w.exec.path.cap := by
  simp only [runOp] at h
  mt_auto2 h

theorem runOp_arcCount_mt {w w' : World} {c : TCtl} (m : Nat) (h : w.runOp c (Op.arcCount m) = .ok w') :
    w'.exec.maxThreads = w.exec.maxThreads ∧ w'.exec.path.cap = w.exec.path.cap := by
  simp only [runOp] at h
  mt_auto2 h

theorem runOp_arcGetMut_mt {w w' : World} {c : TCtl} (m : Nat) (h : w.runOp c (Op.arcGetMut m) = .ok w') :
    w'.exec.maxThreads = w.exec.maxThreads ∧ w'.exec.path.cap = w.exec.path.cap := by
  simp only [runOp] at h
  mt_auto2 h

theorem runOp_arcUnwrap_mt {w w' : World} {c : TCtl} (m : Nat) (h : w.runOp c (Op.arcUnwrap m) = .ok w') :
    w'.exec.maxThreads = w.exec.maxThreads ∧ w'.exec.path.cap = w.exec.path.cap := by
  simp only [runOp] at h
  mt_auto2 h

theorem runOp_arcIntoRaw_mt {w w' : World} {c : TCtl} (m : Nat) (h : w.runOp c (Op.arcIntoRaw m) = .ok w') :
    w'.exec.maxThreads = w.exec.maxThreads ∧ w'.exec.path.cap = w.exec.path.cap := by
  simp only [runOp] at h
  mt_auto2 h

theorem runOp_arcFromRaw_mt {w w' : World} {c : TCtl} (m : Nat) (h : w.runOp c (Op.arcFromRaw m) = .ok w') :
    w'.exec.maxThreads = w.exec.maxThreads ∧ w'.exec.path.cap = w.exec.path.cap := by
  simp only [runOp] at h
  mt_auto2 h

theorem runOp_arcInc_mt {w w' : World} {c : TCtl} (m : Nat) (h : w.runOp c (Op.arcInc m) = .ok w') :
    w'.exec.maxThreads = w.exec.maxThreads ∧ w'.exec.path.cap = w.exec.path.cap := by
  simp only [runOp] at h
  mt_auto2 h

theorem runOp_arcDec_mt {w w' : World} {c : TCtl} (m : Nat) (h : w.runOp c (Op.arcDec m) = .ok w') :
    w'.exec.maxThreads = w.exec.maxThreads ∧ w'.exec.path.cap = w.exec.path.cap := by
  simp only [runOp] at h
  mt_auto2 h

theorem runOp_arcPtrEq_mt {w w' : World} {c : TCtl} (m m2 : Nat) (h : w.runOp c (Op.arcPtrEq m m2) = .ok w') :
    w'.exec.maxThreads = w.exec.maxThreads ∧ w'.exec.path.cap = w.exec.path.cap := by
  simp only [runOp] at h
  mt_auto2 h

theorem runOp_trackNew_mt {w w' : World} {c : TCtl} (m : Nat) (h : w.runOp c (Op.trackNew m) = .ok w') :
    w'.exec.maxThreads = w.exec.maxThreads ∧ w'.exec.path.cap = w.exec.path.cap := by
  simp only [runOp] at h
  mt_auto2 h

theorem runOp_trackDrop_mt {w w' : World} {c : TCtl} (m : Nat) (h : w.runOp c (Op.trackDrop m) = .ok w') :
    w'.exec.maxThreads = w.exec.maxThreads ∧ w'.exec.path.cap = w.exec.path.cap := by
  simp only [runOp] at h
  mt_auto2 h

theorem runOp_alloc_mt {w w' : World} {c : TCtl} (m : Nat) (h : w.runOp c (Op.alloc m) = .ok w') :
    w'.exec.maxThreads = w.exec.maxThreads ∧ w'.exec.path.cap = w.exec.path.cap := by
  simp only [runOp] at h
  mt_auto2 h

theorem runOp_dealloc_mt {w w' : World} {c : TCtl} (m : Nat) (h : w.runOp c (Op.dealloc m) = .ok w') :
    w'.exec.maxThreads = w.exec.maxThreads ∧ w'.exec.path.cap = w.exec.path.cap := by
  simp only [runOp] at h
  mt_auto2 h

theorem runOp_tls_mt {w w' : World} {c : TCtl} (m : Nat) (h : w.runOp c (Op.tls m) = .ok w') :
    w'.exec.maxThreads = w.exec.maxThreads ∧ w'.exec.path.cap = w.exec.path.cap := by
  simp only [runOp] at h
  mt_auto2 h

theorem runOp_tlsTry_mt {w w' : World} {c : TCtl} (m : Nat) (h : w.runOp c (Op.tlsTry m) = .ok w') :
    w'.exec.maxThreads = w.exec.maxThreads ∧ w'.exec.path.cap = w.exec.path.cap := by
  simp only [runOp] at h
  mt_auto2 h

theorem runOp_lazy_mt {w w' : World} {c : TCtl} (m : Nat) (h : w.runOp c (Op.lazy m) = .ok w') :
    w'.exec.maxThreads = w.exec.maxThreads ∧ w'.exec.path.cap = w.exec.path.cap := by
  simp only [runOp] at h
  exact lazyStage_mt h

theorem runOp_tlsNest_mt {w w' : World} {c : TCtl} (k j : Nat) (h : w.runOp c (Op.tlsNest k j) = .ok w') :
    w'.exec.maxThreads = w.exec.maxThreads ∧ w'.exec.path.cap = w.exec.path.cap := by
  simp only [runOp] at h
  mt_split h
  all_goals first
    | (cases h; done)
    | (rename_i h1 _ _ _ h2
       have := tlsGet_mt h1; have := tlsGet_mt h2
       cases h; simp_all; done)

theorem runOp_tlsStat_mt {w w' : World} {c : TCtl} (m : Nat) (h : w.runOp c (Op.tlsStat m) = .ok w') :
    w'.exec.maxThreads = w.exec.maxThreads ∧ w'.exec.path.cap = w.exec.path.cap := by
  simp only [runOp] at h
  mt_auto3 h

theorem runOp_tlsObs_mt {w w' : World} {c : TCtl} (m : Nat) (h : w.runOp c (Op.tlsObs m) = .ok w') :
    w'.exec.maxThreads = w.exec.maxThreads ∧ w'.exec.path.cap = w.exec.path.cap := by
  simp only [runOp] at h
  mt_auto3 h

theorem runOp_lazyStat_mt {w w' : World} {c : TCtl} (m : Nat) (h : w.runOp c (Op.lazyStat m) = .ok w') :
    w'.exec.maxThreads = w.exec.maxThreads ∧ w'.exec.path.cap = w.exec.path.cap := by
  simp only [runOp] at h
  mt_auto3 h

theorem runOp_blockOn_mt {w w' : World} {c : TCtl} (f m : Nat) (h : w.runOp c (Op.blockOn f m) = .ok w') :
    w'.exec.maxThreads = w.exec.maxThreads ∧ w'.exec.path.cap = w.exec.path.cap := by
  simp only [runOp] at h
  exact blockOnStage_mt h

theorem runOp_wake_mt {w w' : World} {c : TCtl} (f : Nat) (h : w.runOp c (Op.wake f) = .ok w') :
    w'.exec.maxThreads = w.exec.maxThreads ∧ w'.exec.path.cap = w.exec.path.cap := by
  simp only [runOp] at h
  exact wakeStage_mt h

theorem runOp_wakeRef_mt {w w' : World} {c : TCtl} (f : Nat) (h : w.runOp c (Op.wakeRef f) = .ok w') :
    w'.exec.maxThreads = w.exec.maxThreads ∧ w'.exec.path.cap = w.exec.path.cap := by
  simp only [runOp] at h
  exact wakeStage_mt h

theorem runOp_dropWaker_mt {w w' : World} {c : TCtl} (f : Nat) (h : w.runOp c (Op.dropWaker f) = .ok w') :
    w'.exec.maxThreads = w.exec.maxThreads ∧ w'.exec.path.cap = w.exec.path.cap := by
  simp only [runOp] at h
  mt_auto3 h

theorem runOp_awWake_mt {w w' : World} {c : TCtl} (f : Nat) (h : w.runOp c (Op.awWake f) = .ok w') :
    w'.exec.maxThreads = w.exec.maxThreads ∧ w'.exec.path.cap = w.exec.path.cap := by
  simp only [runOp] at h
  mt_auto3 h

theorem runOp_wakeQ_mt {w w' : World} {c : TCtl} (f : Nat) (h : w.runOp c (Op.wakeQ f) = .ok w') :
    w'.exec.maxThreads = w.exec.maxThreads ∧ w'.exec.path.cap = w.exec.path.cap := by
  simp only [runOp] at h
  exact wakeStage_mt h

theorem runOp_awTake_mt {w w' : World} {c : TCtl} (f : Nat) (h : w.runOp c (Op.awTake f) = .ok w') :
    w'.exec.maxThreads = w.exec.maxThreads ∧ w'.exec.path.cap = w.exec.path.cap := by
  simp only [runOp] at h
  exact awTakeStage_mt h

theorem runOp_wClone_mt {w w' : World} {c : TCtl} (f : Nat) (h : w.runOp c (Op.wClone f) = .ok w') :
    w'.exec.maxThreads = w.exec.maxThreads ∧ w'.exec.path.cap = w.exec.path.cap := by
  simp only [runOp] at h
  mt_auto3 h

theorem runOp_wakeH_mt {w w' : World} {c : TCtl} (f : Nat) (h : w.runOp c (Op.wakeH f) = .ok w') :
    w'.exec.maxThreads = w.exec.maxThreads ∧ w'.exec.path.cap = w.exec.path.cap := by
  simp only [runOp] at h
  mt_auto3 h

theorem runOp_stop_mt {w w' : World} {c : TCtl}  (h : w.runOp c Op.stop = .ok w') :
    w'.exec.maxThreads = w.exec.maxThreads ∧ w'.exec.path.cap = w.exec.path.cap := by
  simp only [runOp] at h
  mt_auto2 h

theorem runOp_explore_mt {w w' : World} {c : TCtl}  (h : w.runOp c Op.explore = .ok w') :
    w'.exec.maxThreads = w.exec.maxThreads ∧ w'.exec.path.cap = w.exec.path.cap := by
  simp only [runOp] at h
  mt_auto2 h

theorem runOp_skip_mt {w w' : World} {c : TCtl}  (h : w.runOp c Op.skip = .ok w') :
    w'.exec.maxThreads = w.exec.maxThreads ∧ w'.exec.path.cap = w.exec.path.cap := by
  simp only [runOp] at h
  mt_auto2 h

theorem runOp_panic_mt {w w' : World} {c : TCtl}  (h : w.runOp c Op.panic = .ok w') :
    w'.exec.maxThreads = w.exec.maxThreads ∧ w'.exec.path.cap = w.exec.path.cap := by
  simp only [runOp] at h
  mt_auto2 h

theorem runOp_mt {w w' : World} {c : TCtl} {op : Op} (h : w.runOp c op = .ok w') :
    w'.exec.maxThreads = w.exec.maxThreads ∧ w'.exec.path.cap = w.exec.path.cap := by
  cases op
  case atom => exact runOp_atom_mt _ _ h
  case fence => exact runOp_fence_mt _ h
  case cellRead => exact runOp_cellRead_mt _ h
  case cellWrite => exact runOp_cellWrite_mt _ _ h
  case cellReadBegin => exact runOp_cellReadBegin_mt _ h
  case cellReadEnd => exact runOp_cellReadEnd_mt _ h
  case cellWriteBegin => exact runOp_cellWriteBegin_mt _ _ h
  case cellWriteEnd => exact runOp_cellWriteEnd_mt _ h
  case lock => exact runOp_lock_mt _ h
  case tryLock => exact runOp_tryLock_mt _ h
  case unlock => exact runOp_unlock_mt _ h
  case read => exact runOp_read_mt _ h
  case tryRead => exact runOp_tryRead_mt _ h
  case write => exact runOp_write_mt _ h
  case tryWrite => exact runOp_tryWrite_mt _ h
  case unread => exact runOp_unread_mt _ h
  case unwrite => exact runOp_unwrite_mt _ h
  case cvWait => exact runOp_cvWait_mt _ _ h
  case cvOne => exact runOp_cvOne_mt _ h
  case cvAll => exact runOp_cvAll_mt _ h
  case nWait => exact runOp_nWait_mt _ h
  case nNotify => exact runOp_nNotify_mt _ h
  case park => exact runOp_park_mt h
  case unpark => exact runOp_unpark_mt _ h
  case spawn => exact runOp_spawn_mt _ h
  case join => exact runOp_join_mt _ h
  case yield => exact runOp_yield_mt h
  case await => exact runOp_await_mt _ _ _ h
  case ifEq => exact runOp_ifEq_mt _ _ _ h
  case send => exact runOp_send_mt _ _ h
  case recv => exact runOp_recv_mt _ h
  case tryRecv => exact runOp_tryRecv_mt _ h
  case dropRx => exact runOp_dropRx_mt _ h
  case arcNew => exact runOp_arcNew_mt _ h
  case arcClone => exact runOp_arcClone_mt _ _ h
  case arcDrop => exact runOp_arcDrop_mt _ h
  case arcCount => exact runOp_arcCount_mt _ h
  case arcGetMut => exact runOp_arcGetMut_mt _ h
  case arcUnwrap => exact runOp_arcUnwrap_mt _ h
  case arcIntoRaw => exact runOp_arcIntoRaw_mt _ h
  case arcFromRaw => exact runOp_arcFromRaw_mt _ h
  case arcInc => exact runOp_arcInc_mt _ h
  case arcDec => exact runOp_arcDec_mt _ h
  case arcPtrEq => exact runOp_arcPtrEq_mt _ _ h
  case trackNew => exact runOp_trackNew_mt _ h
  case trackDrop => exact runOp_trackDrop_mt _ h
  case alloc => exact runOp_alloc_mt _ h
  case dealloc => exact runOp_dealloc_mt _ h
  case tls => exact runOp_tls_mt _ h
  case tlsTry => exact runOp_tlsTry_mt _ h
  case lazy => exact runOp_lazy_mt _ h
  case tlsNest => exact runOp_tlsNest_mt _ _ h
  case tlsStat => exact runOp_tlsStat_mt _ h
  case tlsObs => exact runOp_tlsObs_mt _ h
  case lazyStat => exact runOp_lazyStat_mt _ h
  case blockOn => exact runOp_blockOn_mt _ _ h
  case wake => exact runOp_wake_mt _ h
  case wakeRef => exact runOp_wakeRef_mt _ h
  case dropWaker => exact runOp_dropWaker_mt _ h
  case awWake => exact runOp_awWake_mt _ h
  case wakeQ => exact runOp_wakeQ_mt _ h
  case awTake => exact runOp_awTake_mt _ h
  case wClone => exact runOp_wClone_mt _ h
  case wakeH => exact runOp_wakeH_mt _ h
  case stop => exact runOp_stop_mt h
  case explore => exact runOp_explore_mt h
  case skip => exact runOp_skip_mt h
  case panic => exact runOp_panic_mt h

/-! ### the loop -/

theorem runEpilogue_mt {w w' : World} {c : TCtl} (h : w.runEpilogue c = .ok w') :
    w'.exec.maxThreads = w.exec.maxThreads ∧ w'.exec.path.cap = w.exec.path.cap := by
  unfold runEpilogue at h
  mt_split h
  all_goals first
    | (cases h; done)
    | exact finishThread_mt h
    | (refine dropPass_mt ?_ h
       intro w1 w2 h2
       first
         | (cases h2; exact ⟨rfl, rfl⟩)
         | (have := branch_mt h2; simp_all; done))
    | (mt_sat2; (try cases h); simp_all; done)

theorem stepActive_mt {w w' : World} (h : w.stepActive = .ok w') :
    w'.exec.maxThreads = w.exec.maxThreads ∧ w'.exec.path.cap = w.exec.path.cap := by
  unfold stepActive at h
  simp only [] at h
  split at h
  · exact runOp_mt h
  · exact runEpilogue_mt h

theorem runLoop_mt (fuel : Nat) (w : World) :
    (runLoop fuel w).1.exec.maxThreads = w.exec.maxThreads ∧ (runLoop fuel w).1.exec.path.cap = w.exec.path.cap := by
  induction fuel generalizing w with
  | zero => exact ⟨rfl, rfl⟩
  | succ n ih =>
    unfold runLoop
    split
    · exact ⟨rfl, rfl⟩
    · split
      · exact ⟨rfl, rfl⟩
      · next w' hw =>
        have h1 := ih w'
        have h2 := stepActive_mt hw
        exact ⟨h1.1.trans h2.1, h1.2.trans h2.2⟩

theorem init_mt {prog : Prog} {e : Exec} {w : World} (h : World.init prog e = .ok w) :
    w.exec.maxThreads = e.maxThreads ∧ w.exec.path.cap = e.path.cap := by
  unfold World.init at h
  simp only [Except.bind_eq_ok'] at h
  obtain ⟨_, _, _, _, _, _, _, _, _, _, _, _, _, _, _, _, h⟩ := h
  cases h
  exact ⟨rfl, rfl⟩

end World

theorem runIter_keeps (prog : Prog) (e : Exec) (fuel : Nat) :
    (runIter prog e fuel).exec.maxThreads = e.maxThreads ∧
      (runIter prog e fuel).exec.path.cap = e.path.cap := by
  unfold runIter
  split
  · exact ⟨rfl, rfl⟩
  · next w0 h0 =>
    have h1 := World.runLoop_mt fuel w0
    have h2 := World.init_mt h0
    have h3 : (World.runLoop fuel w0).1.exec.maxThreads = e.maxThreads ∧
        (World.runLoop fuel w0).1.exec.path.cap = e.path.cap :=
      ⟨h1.1.trans h2.1, h1.2.trans h2.2⟩
    split
    · next w p hl => rw [hl] at h3; exact h3
    · next w hl =>
      rw [hl] at h3
      split
      · exact h3
      · exact h3

/-- the interpreter never writes `Exec.maxThreads` -/
theorem runIter_maxThreads (prog : Prog) (e : Exec) (fuel : Nat) :
    (runIter prog e fuel).exec.maxThreads = e.maxThreads :=
  (runIter_keeps prog e fuel).1

/-- the interpreter never writes the branch limit `Path.cap` -/
theorem runIter_cap (prog : Prog) (e : Exec) (fuel : Nat) :
    (runIter prog e fuel).exec.path.cap = e.path.cap :=
  (runIter_keeps prog e fuel).2

end LoomVerif

/-
Refinement, WAIT fragment, part 12: the condvar part `RCv` of the relation along the stages of `cvWait`
(enqueue, leave) and of `cvOne` / `cvAll` (dequeue one / all waiters).
-/
import LoomVerif.Proofs.Refine2Notify

namespace LoomVerif
namespace Refine2
open Refine Sy

theorem cvIdx_inj (p : Prog) {v v' : Nat} (h : cvIdx p v' = cvIdx p v) : v' = v := by
  unfold cvIdx at h; omega

theorem pendCv_at {p : Prog} {c : TCtl} {v m : Nat} (hop : opOfCtl p c = some (.cvWait v m)) (h : 2 ≤ c.stage) :
    pendCv p c = some (v, m) := by
  unfold pendCv; rw [hop]; simp [h]

theorem pendCv_lt {p : Prog} {c : TCtl} (h : c.stage < 2) : pendCv p c = none := by
  unfold pendCv
  split
  · rw [if_neg (by omega)]
  · rfl

theorem pendCv_some {p : Prog} {c : TCtl} {v m : Nat} (h : pendCv p c = some (v, m)) :
    opOfCtl p c = some (.cvWait v m) ∧ 2 ≤ c.stage := by
  unfold pendCv at h
  split at h
  · next v' m' heq =>
    split at h
    · next hs => cases h; exact ⟨heq, hs⟩
    · cases h
  · cases h

/-- stage 1 of `cvWait v m`: thread `t` joins the waiter list; the reference thread is queued -/
theorem RCv.enqueue {p ctl objs ths cq} (h : RCv p ctl objs ths cq)
    (hinj : ∀ i j, i < ctl.length → j < ctl.length → (ctl.getD i {}).body = (ctl.getD j {}).body → i = j)
    {t v m : Nat} (ht : t < ctl.length) (hv : v < p.cfg.nCondvars) (hbl : (ctl.getD t {}).body < ths.length)
    (hop : opOfCtl p (ctl.getD t {}) = some (.cvWait v m)) (hst : (ctl.getD t {}).stage < 2)
    {ws : List Nat} (hws : objView2 objs (cvIdx p v) = some (.condvar ws)) (x : Obj)
    (hx : view2 x = .condvar (ws ++ [t])) :
    RCv p (ctl.modify t fun c => { c with stage := 2 }) (objs.set (cvIdx p v) x)
      (ths.modify (ctl.getD t {}).body fun h => { h with cvWaiting := some (v, m) })
      (cq.set v (cq.getD v [] ++ [(ctl.getD t {}).body])) := by
  have hlen : (ctl.modify t fun c => { c with stage := 2 }).length = ctl.length := by simp
  have hlt : cvIdx p v < objs.length := objView2_lt hws
  have hp0 : pendCv p (ctl.getD t {}) = none := pendCv_lt hst
  have hself : (ctl.modify t fun c => { c with stage := 2 }).getD t {} = { ctl.getD t {} with stage := 2 } :=
    getD_modify_self _ _ _ _ ht
  have hp1 : pendCv p { ctl.getD t {} with stage := 2 } = some (v, m) :=
    pendCv_at (c := { ctl.getD t {} with stage := 2 }) hop (Nat.le_refl _)
  have hother : ∀ i, i ≠ t → (ctl.modify t fun c => { c with stage := 2 }).getD i {} = ctl.getD i {} :=
    fun i hi => getD_modify_ne _ _ _ _ _ hi
  have body_eq : ∀ i, ((ctl.modify t fun c => { c with stage := 2 }).getD i {}).body = (ctl.getD i {}).body := by
    intro i
    by_cases e : i = t
    · subst e; rw [hself]
    · rw [hother i e]
  have hnotin : ∀ v' ws', v' < p.cfg.nCondvars → objView2 objs (cvIdx p v') = some (.condvar ws') → t ∉ ws' := by
    intro v' ws' hv' hview hmem
    obtain ⟨ws0, a1, _, _, a4⟩ := h.q v' hv'
    have e0 : ws0 = ws' := by rw [a1] at hview; cases hview; rfl
    subst e0
    obtain ⟨_, _, m', hm'⟩ := a4 t hmem
    rw [hp0] at hm'; cases hm'
  refine ⟨by simpa using h.len, ?_, ?_⟩
  · intro v' hv'
    by_cases e : v' = v
    · subst e
      obtain ⟨ws0, a1, a2, a3, a4⟩ := h.q v' hv'
      have e0 : ws0 = ws := by rw [a1] at hws; cases hws; rfl
      subst e0
      refine ⟨ws0 ++ [t], by rw [objView2_set_self _ hlt, hx], ?_, ?_, ?_⟩
      · rw [getD_set_self' _ _ _ _ (by rw [h.len]; exact hv'), a2, List.map_append]
        congr 1
        · apply List.map_congr_left
          intro i _
          exact (body_eq i).symm
        · simp only [List.map_cons, List.map_nil]
          rw [body_eq t]
      · rw [List.nodup_append]
        refine ⟨a3, by simp, ?_⟩
        intro a ha b hb
        have : b = t := by simpa using hb
        subst this
        intro e
        subst e
        exact hnotin v' ws0 hv' a1 ha
      · intro i hi
        rcases List.mem_append.1 hi with hi | hi
        · have hne : i ≠ t := fun e => hnotin v' ws0 hv' a1 (e ▸ hi)
          obtain ⟨b1, b2, b3⟩ := a4 i hi
          rw [hother i hne]
          exact ⟨by rw [hlen]; exact b1, b2, b3⟩
        · have : i = t := by simpa using hi
          subst this
          rw [hself]
          exact ⟨by rw [hlen]; exact ht, rfl, m, hp1⟩
    · obtain ⟨ws', a1, a2, a3, a4⟩ := h.q v' hv'
      refine ⟨ws', ?_, ?_, a3, ?_⟩
      · rw [objView2_set_ne _ _ (fun e' => e (cvIdx_inj p e'))]; exact a1
      · rw [getD_set_ne _ _ _ _ _ e, a2]
        apply List.map_congr_left
        intro i _
        exact (body_eq i).symm
      · intro i hi
        have hne : i ≠ t := fun e' => hnotin v' ws' hv' a1 (e' ▸ hi)
        obtain ⟨b1, b2, b3⟩ := a4 i hi
        rw [hother i hne]
        exact ⟨by rw [hlen]; exact b1, b2, b3⟩
  · intro i hi
    rw [hlen] at hi
    by_cases e : i = t
    · subst e
      rw [hself, getD_modify_self _ _ _ _ hbl]
      obtain ⟨a1, _⟩ := h.th i hi
      refine ⟨fun hn => (by rw [hp1] at hn; cases hn), ?_⟩
      intro v1 m1 ws1 hp hv1 hview
      rw [hp1] at hp; cases hp
      rw [objView2_set_self _ hlt, hx] at hview
      cases hview
      refine ⟨fun _ => ⟨rfl, (a1 hp0).2⟩, fun hn => absurd (List.mem_append_right _ (List.mem_singleton.2 rfl)) hn⟩
    · rw [hother i e]
      have hbne : (ctl.getD i {}).body ≠ (ctl.getD t {}).body := fun e' => e (hinj i t hi ht e')
      rw [getD_modify_ne _ _ _ _ _ hbne]
      obtain ⟨a1, a2⟩ := h.th i hi
      refine ⟨a1, ?_⟩
      intro v1 m1 ws1 hp hv1 hview
      by_cases ev : v1 = v
      · subst ev
        rw [objView2_set_self _ hlt, hx] at hview
        cases hview
        obtain ⟨b1, b2⟩ := a2 v1 m1 ws hp hv1 hws
        refine ⟨fun hm => b1 ?_, fun hm => b2 (fun hm' => hm (List.mem_append_left _ hm'))⟩
        rcases List.mem_append.1 hm with hm | hm
        · exact hm
        · exact absurd (by simpa using hm) e
      · rw [objView2_set_ne _ _ (fun e' => ev (cvIdx_inj p e'))] at hview
        exact a2 v1 m1 ws1 hp hv1 hview

/-- the last stage of `cvWait v m`: the notified thread has re-acquired the mutex and leaves the `cvWait` -/
theorem RCv.leave {p ctl objs ths cq} (h : RCv p ctl objs ths cq)
    (hinj : ∀ i j, i < ctl.length → j < ctl.length → (ctl.getD i {}).body = (ctl.getD j {}).body → i = j)
    {t v m : Nat} (ht : t < ctl.length) (hv : v < p.cfg.nCondvars) (hbl : (ctl.getD t {}).body < ths.length)
    (hp : pendCv p (ctl.getD t {}) = some (v, m)) (f : TCtl → TCtl)
    (hbody : (f (ctl.getD t {})).body = (ctl.getD t {}).body) (hC1 : pendCv p (f (ctl.getD t {})) = none)
    (hnot : ∀ ws, objView2 objs (cvIdx p v) = some (.condvar ws) → t ∉ ws) :
    RCv p (ctl.modify t f) objs (ths.modify (ctl.getD t {}).body fun h => { h with cvNotified := none }) cq := by
  have hlen : (ctl.modify t f).length = ctl.length := by simp
  have hself : (ctl.modify t f).getD t {} = f (ctl.getD t {}) := getD_modify_self _ _ _ _ ht
  have hother : ∀ i, i ≠ t → (ctl.modify t f).getD i {} = ctl.getD i {} :=
    fun i hi => getD_modify_ne _ _ _ _ _ hi
  have body_eq : ∀ i, ((ctl.modify t f).getD i {}).body = (ctl.getD i {}).body := by
    intro i
    by_cases e : i = t
    · subst e; rw [hself]; exact hbody
    · rw [hother i e]
  have hnotin : ∀ v' ws', v' < p.cfg.nCondvars → objView2 objs (cvIdx p v') = some (.condvar ws') → t ∉ ws' := by
    intro v' ws' hv' hview hmem
    obtain ⟨ws0, a1, _, _, a4⟩ := h.q v' hv'
    have e0 : ws0 = ws' := by rw [a1] at hview; cases hview; rfl
    subst e0
    obtain ⟨_, _, m', hm'⟩ := a4 t hmem
    rw [hp] at hm'; cases hm'
    exact hnot ws0 a1 hmem
  refine ⟨h.len, ?_, ?_⟩
  · intro v' hv'
    obtain ⟨ws', a1, a2, a3, a4⟩ := h.q v' hv'
    refine ⟨ws', a1, ?_, a3, ?_⟩
    · rw [a2]
      apply List.map_congr_left
      intro i _
      exact (body_eq i).symm
    · intro i hi
      have hne : i ≠ t := fun e' => hnotin v' ws' hv' a1 (e' ▸ hi)
      obtain ⟨b1, b2, b3⟩ := a4 i hi
      rw [hother i hne]
      exact ⟨by rw [hlen]; exact b1, b2, b3⟩
  · intro i hi
    rw [hlen] at hi
    by_cases e : i = t
    · subst e
      rw [hself, hbody, getD_modify_self _ _ _ _ hbl]
      obtain ⟨_, a2⟩ := h.th i hi
      obtain ⟨ws, b1, _⟩ := h.q v hv
      refine ⟨fun _ => ⟨((a2 v m ws hp hv b1).2 (hnot ws b1)).1, rfl⟩, ?_⟩
      intro v1 m1 ws1 hp'
      rw [hC1] at hp'; cases hp'
    · rw [hother i e]
      have hbne : (ctl.getD i {}).body ≠ (ctl.getD t {}).body := fun e' => e (hinj i t hi ht e')
      rw [getD_modify_ne _ _ _ _ _ hbne]
      exact h.th i hi

/-- `cvOne v`: the first waiter `t0` is taken off the list; the reference thread is notified -/
theorem RCv.dequeue {p ctl objs ths cq} (h : RCv p ctl objs ths cq)
    (hinj : ∀ i j, i < ctl.length → j < ctl.length → (ctl.getD i {}).body = (ctl.getD j {}).body → i = j)
    (hbl : ∀ i, i < ctl.length → (ctl.getD i {}).body < ths.length)
    {v t0 : Nat} {rest : List Nat} (hv : v < p.cfg.nCondvars)
    (hws : objView2 objs (cvIdx p v) = some (.condvar (t0 :: rest))) (x : Obj) (hx : view2 x = .condvar rest) :
    RCv p ctl (objs.set (cvIdx p v) x) (ths.modify (ctl.getD t0 {}).body SCData2.notifyTh)
      (cq.set v (rest.map fun i => (ctl.getD i {}).body)) := by
  have hlt : cvIdx p v < objs.length := objView2_lt hws
  obtain ⟨ws0, a1, a2, a3, a4⟩ := h.q v hv
  have e0 : ws0 = t0 :: rest := by rw [a1] at hws; cases hws; rfl
  subst e0
  have ht0 : t0 < ctl.length := (a4 t0 List.mem_cons_self).1
  obtain ⟨_, _, m0, hm0⟩ := a4 t0 List.mem_cons_self
  have hnd : t0 ∉ rest ∧ rest.Nodup := List.nodup_cons.1 a3
  refine ⟨by simpa using h.len, ?_, ?_⟩
  · intro v' hv'
    by_cases e : v' = v
    · subst e
      refine ⟨rest, by rw [objView2_set_self _ hlt, hx], ?_, hnd.2, ?_⟩
      · rw [getD_set_self' _ _ _ _ (by rw [h.len]; exact hv')]
      · intro i hi
        exact a4 i (List.mem_cons_of_mem _ hi)
    · obtain ⟨ws', b1, b2, b3, b4⟩ := h.q v' hv'
      refine ⟨ws', ?_, ?_, b3, b4⟩
      · rw [objView2_set_ne _ _ (fun e' => e (cvIdx_inj p e'))]; exact b1
      · rw [getD_set_ne _ _ _ _ _ e, b2]
  · intro i hi
    by_cases e : i = t0
    · subst e
      rw [getD_modify_self _ _ _ _ (hbl i hi)]
      obtain ⟨_, c2⟩ := h.th i hi
      obtain ⟨d1, d2⟩ := (c2 v m0 _ hm0 hv a1).1 List.mem_cons_self
      refine ⟨fun hn => (by rw [hm0] at hn; cases hn), ?_⟩
      intro v1 m1 ws1 hp hv1 hview
      rw [hm0] at hp; cases hp
      rw [objView2_set_self _ hlt, hx] at hview
      cases hview
      refine ⟨fun hm => absurd hm hnd.1, fun _ => ?_⟩
      refine ⟨rfl, ?_⟩
      show (ths.getD (ctl.getD i {}).body {}).cvWaiting.map (·.2) = some m0
      rw [d1]; rfl
    · have hbne : (ctl.getD i {}).body ≠ (ctl.getD t0 {}).body := fun e' => e (hinj i t0 hi ht0 e')
      rw [getD_modify_ne _ _ _ _ _ hbne]
      obtain ⟨c1, c2⟩ := h.th i hi
      refine ⟨c1, ?_⟩
      intro v1 m1 ws1 hp hv1 hview
      by_cases ev : v1 = v
      · subst ev
        rw [objView2_set_self _ hlt, hx] at hview
        cases hview
        obtain ⟨b1, b2⟩ := c2 v1 m1 _ hp hv1 a1
        refine ⟨fun hm => b1 (List.mem_cons_of_mem _ hm), fun hm => b2 (fun hm' => hm ?_)⟩
        rcases List.mem_cons.1 hm' with hm' | hm'
        · exact absurd hm' e
        · exact hm'
      · rw [objView2_set_ne _ _ (fun e' => ev (cvIdx_inj p e'))] at hview
        exact c2 v1 m1 ws1 hp hv1 hview

/-- the waiter list of condvar `v` is replaced by an object with the same waiters -/
theorem RCv.resetSame {p ctl objs ths cq} (h : RCv p ctl objs ths cq) {v : Nat} {ws : List Nat}
    (hws : objView2 objs (cvIdx p v) = some (.condvar ws)) (x : Obj) (hx : view2 x = .condvar ws) :
    RCv p ctl (objs.set (cvIdx p v) x) ths cq := by
  refine h.views ?_
  intro v' ws' hv' hview
  by_cases e : v' = v
  · subst e
    rw [hws] at hview; cases hview
    rw [objView2_set_self _ (objView2_lt hws), hx]
  · rw [objView2_set_ne _ _ (fun e' => e (cvIdx_inj p e'))]; exact hview

/-- `cvAll v`: all the waiters are taken off the list, one after the other -/
theorem RCv.dequeueAll {p ctl} (hinj : ∀ i j, i < ctl.length → j < ctl.length →
      (ctl.getD i {}).body = (ctl.getD j {}).body → i = j) {v : Nat} (hv : v < p.cfg.nCondvars) :
    ∀ (ws : List Nat) (objs : List Obj) (ths : List DTh2) (cq : List (List Nat)), RCv p ctl objs ths cq →
      (∀ i, i < ctl.length → (ctl.getD i {}).body < ths.length) →
      objView2 objs (cvIdx p v) = some (.condvar ws) → ∀ x : Obj, view2 x = .condvar [] →
      RCv p ctl (objs.set (cvIdx p v) x)
        ((ws.map fun i => (ctl.getD i {}).body).foldl (fun ths b => ths.modify b SCData2.notifyTh) ths)
        (cq.set v []) := by
  intro ws
  induction ws with
  | nil =>
    intro objs ths cq h _ hws x hx
    have := h.resetSame hws x hx
    obtain ⟨ws0, a1, a2, _, _⟩ := h.q v hv
    have e0 : ws0 = [] := by rw [a1] at hws; cases hws; rfl
    subst e0
    simp only [List.map_nil] at a2
    have e : cq.set v [] = cq := by rw [← a2]; exact set_getD_self _ _ _
    rw [e]
    exact this
  | cons t0 rest ih =>
    intro objs ths cq h hbl hws x hx
    have h1 := h.dequeue hinj hbl hv hws (.condvar { waiters := rest }) rfl
    have hws1 : objView2 (objs.set (cvIdx p v) (.condvar { waiters := rest })) (cvIdx p v) =
        some (.condvar rest) := by
      rw [objView2_set_self _ (objView2_lt hws)]; rfl
    have := ih _ _ _ h1 (by intro i hi; simpa using hbl i hi) hws1 x hx
    simp only [List.set_set] at this
    simp only [List.map_cons, List.foldl_cons]
    exact this

end Refine2
end LoomVerif

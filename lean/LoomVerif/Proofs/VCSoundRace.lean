/-
Soundness of the vector clocks of the reference semantics, part 9: the race verdict of a step, on the view
(`Ctx.race_iff`, `Ctx.race9_iff`, `Ctx.race10_iff`, `Ctx.race11_iff`).
-/
import LoomVerif.Proofs.VCSoundCells

namespace LoomVerif
namespace VCSound
open Race (upd upd_self upd_ne get_zero zero_join join_zero)
open Clocks
open Refine (WF)

theorem conflict_read {a : Event} {t c : Nat} {res : Option Ret} :
    Conflict a ⟨t, some (.cellRead c), res⟩ ↔ a.isWrite c := by
  constructor
  · rintro ⟨c', (⟨h1, h2⟩ | ⟨_, ⟨x, h2⟩⟩)⟩
    · rcases h2 with h2 | ⟨x, h2⟩
      · cases h2; exact h1
      · cases h2
    · cases h2
  · intro h; exact ⟨c, .inl ⟨h, .inl rfl⟩⟩

theorem conflict_write {a : Event} {t c : Nat} {x : Int} {res : Option Ret} :
    Conflict a ⟨t, some (.cellWrite c x), res⟩ ↔ a.isAccess c := by
  constructor
  · rintro ⟨c', (⟨h1, h2⟩ | ⟨h1, ⟨x', h2⟩⟩)⟩
    · rcases h2 with h2 | ⟨x', h2⟩
      · cases h2
      · cases h2; exact .inr h1
    · cases h2; exact h1
  · intro h; exact ⟨c, .inr ⟨h, ⟨x, rfl⟩⟩⟩

theorem conflict_other {a : Event} {t : Nat} {op : Option Op} {res : Option Ret}
    (h1 : ∀ c, op ≠ some (.cellRead c)) (h2 : ∀ c x, op ≠ some (.cellWrite c x)) :
    ¬ Conflict a ⟨t, op, res⟩ := by
  rintro ⟨c, (⟨_, h | ⟨x, h⟩⟩ | ⟨_, ⟨x, h⟩⟩)⟩
  · exact h1 c h
  · exact h2 c x h
  · exact h2 c x h

section
variable {p : Prog} {evs : List Event} {cl : List VV} {v v' : View} {e : Event} {live : Bool}

/-- an earlier event of the same thread happens before the new event (program order) -/
theorem hb_new_of_same {j : Nat} {a : Event} (hj : evs[j]? = some a) (h : a.thr = e.thr) :
    HBA (evs ++ [e]) j evs.length := .single (edge_new hj (.inl h))

/-- the earlier accesses that are NOT ordered before the new event -/
def Unord (evs : List Event) (e : Event) (P : Event → Prop) : Prop :=
  ∃ (j : Nat) (a : Event), evs[j]? = some a ∧ a.thr ≠ e.thr ∧ P a ∧ ¬ HBA (evs ++ [e]) j evs.length

theorem unord_iff (P : Event → Prop) :
    Unord evs e P ↔ ¬ ∀ (j : Nat) (a : Event), evs[j]? = some a → P a → HBA (evs ++ [e]) j evs.length := by
  constructor
  · rintro ⟨j, a, hj, _, hp, hn⟩ h
    exact hn (h j a hj hp)
  · intro h
    apply Classical.byContradiction
    intro hn
    apply h
    intro j a hj hp
    apply Classical.byContradiction
    intro hhb
    exact hn ⟨j, a, hj, fun ht => hhb (hb_new_of_same hj ht), hp, hhb⟩

theorem Unord.mono {P Q : Event → Prop} (h : ∀ a, P a → Q a) (hu : Unord evs e P) : Unord evs e Q := by
  obtain ⟨j, a, hj, ht, hp, hn⟩ := hu
  exact ⟨j, a, hj, ht, h a hp, hn⟩

/-- what a step decides, in terms of happens-before: the verdict it leaves -/
theorem Ctx.verdict_cases (c : Ctx p evs cl v e v' live) (hC : InvC evs cl v) {n : Nat} (ha : AStep n e.thr v e.op e.res v')
    (hv : v.verdict = none) :
    (v'.verdict = none ∧ ¬ Unord evs e (Conflict · e)) ∨
    (v'.verdict = some (.race 9) ∧ ∃ x, e.isRead x ∧ Unord evs e (·.isWrite x)) ∨
    (v'.verdict = some (.race 10) ∧ ∃ x, e.isWrite x ∧ Unord evs e (·.isWrite x)) ∨
    (v'.verdict = some (.race 11) ∧ ∃ x, e.isWrite x ∧ ¬ Unord evs e (·.isWrite x) ∧ Unord evs e (·.isRead x)) := by
  have hnc := c.vc_self
  obtain ⟨t, op, res⟩ := e
  have noacc : ∀ {op' : Option Op}, op = op' → (∀ x, op' ≠ some (.cellRead x)) → (∀ x y, op' ≠ some (.cellWrite x y)) →
      ¬ Unord evs ⟨t, op, res⟩ (Conflict · ⟨t, op, res⟩) := by
    intro op' ho h1 h2 ⟨j, a, _, _, hcf, _⟩
    subst ho
    exact conflict_other h1 h2 hcf
  simp only at ha
  cases ha
  case readRace x hle =>
    right; left
    refine ⟨rfl, x, rfl, ?_⟩
    have hk : newClock v ⟨t, some (.cellRead x), res⟩ = v.tk t := by rw [← hnc]; exact upd_self _ _ _
    rw [unord_iff, ← c.cw_le_iff hC x, hk]; exact hle
  case read x hle =>
    left
    refine ⟨hv, ?_⟩
    have hk : newClock v ⟨t, some (.cellRead x), res⟩ = v.tk t := by rw [← hnc]; exact upd_self _ _ _
    intro hu
    have hu' : Unord evs ⟨t, some (.cellRead x), res⟩ (·.isWrite x) := hu.mono fun a h => conflict_read.1 h
    rw [unord_iff, ← c.cw_le_iff hC x, hk] at hu'
    exact hu' hle
  case writeRaceW x y hle =>
    right; right; left
    refine ⟨rfl, x, ⟨y, rfl⟩, ?_⟩
    have hk : newClock v ⟨t, some (.cellWrite x y), res⟩ = v.tk t := by rw [← hnc]; exact upd_self _ _ _
    rw [unord_iff, ← c.cw_le_iff hC x, hk]; exact hle
  case writeRaceR x y hle hlr =>
    right; right; right
    have hk : newClock v ⟨t, some (.cellWrite x y), res⟩ = v.tk t := by rw [← hnc]; exact upd_self _ _ _
    refine ⟨rfl, x, ⟨y, rfl⟩, ?_, ?_⟩
    · rw [unord_iff, ← c.cw_le_iff hC x, hk]; exact fun h => h hle
    · rw [unord_iff, ← c.cr_le_iff hC x, hk]; exact hlr
  case write x y hle hlr =>
    left
    refine ⟨hv, ?_⟩
    have hk : newClock v ⟨t, some (.cellWrite x y), res⟩ = v.tk t := by rw [← hnc]; exact upd_self _ _ _
    rintro ⟨j, a, hj, ht, hcf, hn⟩
    rcases conflict_write.1 hcf with h | h
    · have := (c.cr_le_iff hC x).1 (by rw [hk]; exact hlr) j a hj h
      exact hn this
    · have := (c.cw_le_iff hC x).1 (by rw [hk]; exact hle) j a hj h
      exact hn this
  case acq op' o hacq _ =>
    left
    exact ⟨hv, noacc rfl (fun x h => (notCell_of_acq hacq).1 x (Option.some.inj h))
      (fun x y h => (notCell_of_acq hacq).2 x y (Option.some.inj h))⟩
  case tryFail op' htry _ =>
    left
    exact ⟨hv, noacc rfl (fun x h => (notCell_of_try htry).1 x (Option.some.inj h))
      (fun x y h => (notCell_of_try htry).2 x y (Option.some.inj h))⟩
  case rel op' o hrel _ =>
    left
    refine ⟨by rw [setRel_verdict]; exact hv, noacc rfl (fun x h => (notCell_of_rel hrel).1 x (Option.some.inj h))
      (fun x y h => (notCell_of_rel hrel).2 x y (Option.some.inj h))⟩
  case take op' q X rest _ hopq =>
    left
    refine ⟨hv, noacc rfl ?_ ?_⟩
    · intro x h
      rcases hopq with rfl | ⟨rfl, _⟩ <;> cases h
    · intro x y h
      rcases hopq with rfl | ⟨rfl, _⟩ <;> cases h
  all_goals
    left
    exact ⟨hv, noacc rfl (fun _ h => by cases h) (fun _ _ h => by cases h)⟩

end

end VCSound
end LoomVerif

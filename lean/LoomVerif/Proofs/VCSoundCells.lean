/-
Soundness of the vector clocks of the reference semantics, part 8: the clocks of the cells.  `InvC`: `cellW c`
(`cellR c`) is the least upper bound of the clocks of the write (read) events of cell `c` so far; it holds along every
run that has not stopped.  `cw_le_iff`, `cr_le_iff`: the race checks of `SC.step` compare exactly "every earlier
write (read) of the cell happens before the current access".
-/
import LoomVerif.Proofs.VCSoundRun

namespace LoomVerif
namespace VCSound
open Race (upd upd_self upd_ne get_zero zero_join join_zero)
open Clocks
open Refine (WF)

structure InvC (evs : List Event) (cl : List VV) (v : View) : Prop where
  cwUb : ∀ (j : Nat) (e : Event) (k : VV) (c : Nat), evs[j]? = some e → cl[j]? = some k → e.isWrite c → k.le (v.cw c)
  cwLub : ∀ (c u : Nat), (v.cw c).get u = 0 ∨
    ∃ (j : Nat) (e : Event) (k : VV), evs[j]? = some e ∧ cl[j]? = some k ∧ e.isWrite c ∧ (v.cw c).get u = k.get u
  crUb : ∀ (j : Nat) (e : Event) (k : VV) (c : Nat), evs[j]? = some e → cl[j]? = some k → e.isRead c → k.le (v.cr c)
  crLub : ∀ (c u : Nat), (v.cr c).get u = 0 ∨
    ∃ (j : Nat) (e : Event) (k : VV), evs[j]? = some e ∧ cl[j]? = some k ∧ e.isRead c ∧ (v.cr c).get u = k.get u

def nextCw (v : View) (e : Event) (V : VV) (c' : Nat) : VV :=
  match e.op with
  | some (.cellWrite c _) => upd v.cw c ((v.cw c).join V) c'
  | _ => v.cw c'

def nextCr (v : View) (e : Event) (V : VV) (c' : Nat) : VV :=
  match e.op with
  | some (.cellRead c) => upd v.cr c ((v.cr c).join V) c'
  | _ => v.cr c'

theorem nextCw_pos (v : View) {e : Event} (V : VV) {c : Nat} (h : e.isWrite c) :
    nextCw v e V c = (v.cw c).join V := by
  obtain ⟨x, h⟩ := h
  unfold nextCw; rw [h]; simp only; rw [upd_self]

theorem nextCw_neg (v : View) {e : Event} (V : VV) {c : Nat} (h : ¬ e.isWrite c) : nextCw v e V c = v.cw c := by
  unfold nextCw Event.isWrite at *
  split
  · next c' x h' =>
    have hc : c ≠ c' := by rintro rfl; exact h ⟨x, h'⟩
    rw [upd_ne _ _ hc]
  · rfl

theorem nextCr_pos (v : View) {e : Event} (V : VV) {c : Nat} (h : e.isRead c) :
    nextCr v e V c = (v.cr c).join V := by
  unfold Event.isRead at h
  unfold nextCr; rw [h]; simp only; rw [upd_self]

theorem nextCr_neg (v : View) {e : Event} (V : VV) {c : Nat} (h : ¬ e.isRead c) : nextCr v e V c = v.cr c := by
  unfold nextCr Event.isRead at *
  split
  · next c' h' =>
    have hc : c ≠ c' := by rintro rfl; exact h h'
    rw [upd_ne _ _ hc]
  · rfl

theorem nextCw_none (v : View) {e : Event} (V : VV) (h : ∀ c x, e.op ≠ some (.cellWrite c x)) :
    nextCw v e V = v.cw := by
  funext c; exact nextCw_neg v V (fun ⟨x, hx⟩ => h c x hx)

theorem nextCr_none (v : View) {e : Event} (V : VV) (h : ∀ c, e.op ≠ some (.cellRead c)) :
    nextCr v e V = v.cr := by
  funext c; exact nextCr_neg v V (fun hx => h c hx)

theorem notCell_of_acq {t : Nat} {op : Op} {o : Obj} (h : acqObjOf t op = some o) :
    (∀ c, op ≠ .cellRead c) ∧ (∀ c x, op ≠ .cellWrite c x) := by
  cases op <;> simp [acqObjOf] at h <;> simp

theorem notCell_of_rel {op : Op} {o : Obj} (h : relObjOf op = some o) :
    (∀ c, op ≠ .cellRead c) ∧ (∀ c x, op ≠ .cellWrite c x) := by
  cases op <;> simp [relObjOf] at h <;> simp

theorem notCell_of_try {op : Op} (h : isTry op = true) :
    (∀ c, op ≠ .cellRead c) ∧ (∀ c x, op ≠ .cellWrite c x) := by
  cases op <;> simp [isTry] at h <;> simp

/-- a step that does not stop records its access in the clock of the cell -/
theorem AStep.cells {n t : Nat} {v v' : View} {op : Option Op} {res : Option Ret} (h : AStep n t v op res v')
    (hv : v'.verdict = none) :
    v'.cw = nextCw v ⟨t, op, res⟩ (v'.vc t) ∧ v'.cr = nextCr v ⟨t, op, res⟩ (v'.vc t) := by
  have key : ∀ {op' : Op} {V : VV}, (∀ c, op' ≠ .cellRead c) ∧ (∀ c x, op' ≠ .cellWrite c x) →
      v.cw = nextCw v ⟨t, some op', res⟩ V ∧ v.cr = nextCr v ⟨t, some op', res⟩ V := by
    intro op' V h
    exact ⟨(nextCw_none v V (fun c x hx => h.2 c x (Option.some.inj hx))).symm,
      (nextCr_none v V (fun c hx => h.1 c (Option.some.inj hx))).symm⟩
  cases h
  case readRace => cases hv
  case writeRaceW => cases hv
  case writeRaceR => cases hv
  case read c _ => exact ⟨rfl, by funext c'; simp [nextCr, upd_self]⟩
  case write c x _ _ => exact ⟨by funext c'; simp [nextCw, upd_self], rfl⟩
  case acq op' o hacq _ => exact key (notCell_of_acq hacq)
  case tryFail op' htry _ => exact key (notCell_of_try htry)
  case rel op' o hrel _ => rw [setRel_cw, setRel_cr]; exact key (notCell_of_rel hrel)
  case take op' q X rest _ hopq =>
    refine key ?_
    rcases hopq with rfl | ⟨rfl, _⟩ <;> exact ⟨fun _ h => (by cases h), fun _ _ h => (by cases h)⟩
  all_goals exact ⟨rfl, rfl⟩

theorem invC_init (p : Prog) : InvC [] [] (view (SC.init p)) := by
  refine ⟨?_, ?_, ?_, ?_⟩
  · intro j e k c h; simp at h
  · intro c u; left; rw [view_init_cw, get_zero]
  · intro j e k c h; simp at h
  · intro c u; left; rw [view_init_cr, get_zero]

theorem InvC.step {evs : List Event} {cl : List VV} {v v' : View} {e : Event} {V : VV} (h : InvC evs cl v)
    (hlen : cl.length = evs.length) (hw : v'.cw = nextCw v e V) (hr : v'.cr = nextCr v e V) :
    InvC (evs ++ [e]) (cl ++ [V]) v' := by
  have lastc : (cl ++ [V])[evs.length]? = some V := by
    rw [← hlen, List.getElem?_append_right (Nat.le_refl _)]; simp
  refine ⟨?_, ?_, ?_, ?_⟩
  · intro j a k c h1 h2 ha
    rw [hw]
    rcases snoc_both hlen h1 h2 with ⟨hj, hc⟩ | ⟨_, rfl, rfl⟩
    · have := h.cwUb j a k c hj hc ha
      by_cases hwr : e.isWrite c
      · rw [nextCw_pos _ _ hwr]; exact le_trans this (le_join_left _ _)
      · rw [nextCw_neg _ _ hwr]; exact this
    · rw [nextCw_pos _ _ ha]; exact le_join_right _ _
  · intro c u
    rw [hw]
    have old : (v.cw c).get u = 0 ∨ ∃ (j : Nat) (a : Event) (k : VV), (evs ++ [e])[j]? = some a ∧
        (cl ++ [V])[j]? = some k ∧ a.isWrite c ∧ (v.cw c).get u = k.get u := by
      rcases h.cwLub c u with h0 | ⟨j, a, k, h1, h2, h3, h4⟩
      · exact .inl h0
      · refine .inr ⟨j, a, k, getElem?_snoc.2 (.inl h1), ?_, h3, h4⟩
        rw [List.getElem?_append_left (by rw [hlen]; exact (List.getElem?_eq_some_iff.1 h1).1)]; exact h2
    by_cases hwr : e.isWrite c
    · rw [nextCw_pos _ _ hwr, get_join]
      by_cases hm : V.get u ≤ (v.cw c).get u
      · rw [Nat.max_eq_left hm]; exact old
      · rw [Nat.max_eq_right (by omega)]
        exact .inr ⟨evs.length, e, V, snoc_last, lastc, hwr, rfl⟩
    · rw [nextCw_neg _ _ hwr]; exact old
  · intro j a k c h1 h2 ha
    rw [hr]
    rcases snoc_both hlen h1 h2 with ⟨hj, hc⟩ | ⟨_, rfl, rfl⟩
    · have := h.crUb j a k c hj hc ha
      by_cases hrd : e.isRead c
      · rw [nextCr_pos _ _ hrd]; exact le_trans this (le_join_left _ _)
      · rw [nextCr_neg _ _ hrd]; exact this
    · rw [nextCr_pos _ _ ha]; exact le_join_right _ _
  · intro c u
    rw [hr]
    have old : (v.cr c).get u = 0 ∨ ∃ (j : Nat) (a : Event) (k : VV), (evs ++ [e])[j]? = some a ∧
        (cl ++ [V])[j]? = some k ∧ a.isRead c ∧ (v.cr c).get u = k.get u := by
      rcases h.crLub c u with h0 | ⟨j, a, k, h1, h2, h3, h4⟩
      · exact .inl h0
      · refine .inr ⟨j, a, k, getElem?_snoc.2 (.inl h1), ?_, h3, h4⟩
        rw [List.getElem?_append_left (by rw [hlen]; exact (List.getElem?_eq_some_iff.1 h1).1)]; exact h2
    by_cases hrd : e.isRead c
    · rw [nextCr_pos _ _ hrd, get_join]
      by_cases hm : V.get u ≤ (v.cr c).get u
      · rw [Nat.max_eq_left hm]; exact old
      · rw [Nat.max_eq_right (by omega)]
        exact .inr ⟨evs.length, e, V, snoc_last, lastc, hrd, rfl⟩
    · rw [nextCr_neg _ _ hrd]; exact old

/-- **the cell clocks along every run that has not stopped** -/
theorem Run.invC {p : Prog} {tr : List Step} {s : SC.St} (hwf : WFX p) (hlen : p.threads.length ≤ 5)
    (h : Run p tr s) (hv : s.verdict = none) : InvC (events p tr) (clocks tr) (view s) := by
  induction h with
  | nil => exact invC_init p
  | @snoc tr s s' t hr hen hstep ih =>
    obtain ⟨hs, hI⟩ := hr.inv hwf hlen
    obtain ⟨_, _, _, _, ha⟩ := ctx_of_step hwf hlen hs hI hen hstep
    obtain ⟨h1, h2⟩ := ha.step.cells hv
    rw [events_snoc, clocks_snoc]
    exact (ih (enabled_facts hen).1).step hI.len h1 h2

/-! ### clocks grow along happens-before -/

theorem Inv.hb_le {p : Prog} {evs : List Event} {cl : List VV} {v : View} (hI : Inv p evs cl v) {j i : Nat}
    (h : HBA evs j i) {cj ci : VV} (hj : cl[j]? = some cj) (hi : cl[i]? = some ci) : cj.le ci := by
  induction h generalizing ci with
  | single e => exact hI.mono _ _ _ _ e hj hi
  | @tail m i' _ e ih =>
    have hm : m < cl.length := by rw [hI.len]; exact Nat.lt_trans e.lt e.lt_length
    exact le_trans (ih (List.getElem?_eq_getElem hm)) (hI.mono _ _ _ _ e (List.getElem?_eq_getElem hm) hi)

theorem Inv.hbeq_le {p : Prog} {evs : List Event} {cl : List VV} {v : View} (hI : Inv p evs cl v) {j i : Nat}
    (h : HBAeq evs j i) {cj ci : VV} (hj : cl[j]? = some cj) (hi : cl[i]? = some ci) : cj.le ci := by
  rcases h with rfl | h
  · rw [hj] at hi; cases hi; exact le_refl _
  · exact hI.hb_le h hj hi

section
variable {p : Prog} {evs : List Event} {cl : List VV} {v v' : View} {e : Event} {live : Bool}

theorem isWrite_ticks {a : Event} {c : Nat} (h : a.isWrite c) : a.ticks = true := by
  obtain ⟨x, h⟩ := h; unfold Event.ticks; rw [h]
theorem isRead_ticks {a : Event} {c : Nat} (h : a.isRead c) : a.ticks = true := by
  unfold Event.isRead at h; unfold Event.ticks; rw [h]

/-- for an earlier ticking event: its clock is below the clock of the new event iff it happens before it -/
theorem Ctx.le_new_iff (c : Ctx p evs cl v e v' live) {j : Nat} {a : Event} {k : VV} (hj : evs[j]? = some a)
    (hk : cl[j]? = some k) (hta : a.ticks = true) :
    k.le (newClock v e) ↔ HBA (evs ++ [e]) j evs.length := by
  constructor
  · intro h; exact c.know_new hj hk hta (get_mono h _)
  · intro h
    refine c.step.hb_le h ?_ ?_
    · rw [List.getElem?_append_left (List.getElem?_eq_some_iff.1 hk).1]; exact hk
    · rw [← c.inv.len, List.getElem?_append_right (Nat.le_refl _)]; simp

/-- **the write check**: `cellW c ≤ (clock of the access)` iff every earlier write of `c` happens before the access -/
theorem Ctx.cw_le_iff (c : Ctx p evs cl v e v' live) (hC : InvC evs cl v) (x : Nat) :
    (v.cw x).le (newClock v e) ↔
      ∀ (j : Nat) (a : Event), evs[j]? = some a → a.isWrite x → HBA (evs ++ [e]) j evs.length := by
  constructor
  · intro h j a hj ha
    have hlt : j < cl.length := by rw [c.inv.len]; exact (List.getElem?_eq_some_iff.1 hj).1
    have hk := List.getElem?_eq_getElem hlt
    exact (c.le_new_iff hj hk (isWrite_ticks ha)).1 (le_trans (hC.cwUb j a _ x hj hk ha) h)
  · intro h
    rw [le_iff_get]
    intro u
    rcases hC.cwLub x u with h0 | ⟨j, a, k, hj, hk, ha, hg⟩
    · rw [h0]; exact Nat.zero_le _
    · rw [hg]; exact get_mono ((c.le_new_iff hj hk (isWrite_ticks ha)).2 (h j a hj ha)) u

/-- **the read check** -/
theorem Ctx.cr_le_iff (c : Ctx p evs cl v e v' live) (hC : InvC evs cl v) (x : Nat) :
    (v.cr x).le (newClock v e) ↔
      ∀ (j : Nat) (a : Event), evs[j]? = some a → a.isRead x → HBA (evs ++ [e]) j evs.length := by
  constructor
  · intro h j a hj ha
    have hlt : j < cl.length := by rw [c.inv.len]; exact (List.getElem?_eq_some_iff.1 hj).1
    have hk := List.getElem?_eq_getElem hlt
    exact (c.le_new_iff hj hk (isRead_ticks ha)).1 (le_trans (hC.crUb j a _ x hj hk ha) h)
  · intro h
    rw [le_iff_get]
    intro u
    rcases hC.crLub x u with h0 | ⟨j, a, k, hj, hk, ha, hg⟩
    · rw [h0]; exact Nat.zero_le _
    · rw [hg]; exact get_mono ((c.le_new_iff hj hk (isRead_ticks ha)).2 (h j a hj ha)) u

end

end VCSound
end LoomVerif

/-
End-to-end race exactness with a declarative reference side, part 1: the reference-side corollaries of
`Props/VCSound.lean` in the form the compositions need (the LAST step of a run stops with `race k`; a run that
reaches no verdict).
-/
import LoomVerif.Props.Race
import LoomVerif.Props.VCSound

namespace LoomVerif
namespace RaceDecl
open Refine VCSound

/-- what the number `k` of a race report says about the two accesses (`a` the earlier, `b` the later one):
`9`: `b` reads a cell `a` wrote; `10`: both write the cell; `11`: `b` writes a cell `a` read -/
def RaceKind (k : Nat) (a b : VCSound.Event) : Prop :=
  (k = 9 ∧ ∃ x, a.isWrite x ∧ b.isRead x) ∨ (k = 10 ∧ ∃ x, a.isWrite x ∧ b.isWrite x) ∨
  (k = 11 ∧ ∃ x, a.isRead x ∧ b.isWrite x)

theorem RaceKind.conflict {k : Nat} {a b : VCSound.Event} (h : RaceKind k a b) : Conflict a b := by
  rcases h with ⟨_, x, ha, hb⟩ | ⟨_, x, ha, hb⟩ | ⟨_, x, ha, hb⟩
  · exact ⟨x, .inl ⟨ha, .inl hb⟩⟩
  · exact ⟨x, .inl ⟨ha, .inr hb⟩⟩
  · exact ⟨x, .inr ⟨.inl ha, hb⟩⟩

/-- **a declarative data race of a list of events**: events `j < i` of different threads that conflict and are not
ordered by happens-before -/
def DataRace (evs : List VCSound.Event) (j i : Nat) (a b : VCSound.Event) : Prop :=
  j < i ∧ evs[j]? = some a ∧ evs[i]? = some b ∧ a.thr ≠ b.thr ∧ Conflict a b ∧ ¬ HB evs j i

/-- **declaratively race-free**: any two conflicting accesses of different threads are ordered by happens-before -/
def RaceFree (evs : List VCSound.Event) : Prop :=
  ∀ (j i : Nat) (a b : VCSound.Event), j < i → evs[j]? = some a → evs[i]? = some b → a.thr ≠ b.thr → Conflict a b →
    HB evs j i

theorem raceFree_iff_no_dataRace (evs : List VCSound.Event) : RaceFree evs ↔ ∀ j i a b, ¬ DataRace evs j i a b := by
  constructor
  · rintro h j i a b ⟨h1, h2, h3, h4, h5, h6⟩
    exact h6 (h j i a b h1 h2 h3 h4 h5)
  · intro h j i a b h1 h2 h3 h4 h5
    apply Classical.byContradiction
    intro h6
    exact h j i a b ⟨h1, h2, h3, h4, h5, h6⟩

/-- **the last step of a run stops with `race k`**: the step is the later member of a declarative data race of the
trace, of the kind `k` says -/
theorem last_step_race {p : Prog} {tr : List Step} {s s' : SC.St} {t k : Nat} (hwf : WFX p)
    (hlen : p.threads.length ≤ 5) (h : Run p tr s) (hen : SC.enabled p s t = true) (hst : s' ∈ SC.step p s t)
    (hk : s'.verdict = some (.race k)) :
    ∃ (j : Nat) (a : VCSound.Event),
      DataRace (events p (tr ++ [⟨t, s, s'⟩])) j tr.length a ((⟨t, s, s'⟩ : Step).ev p) ∧
      RaceKind k a ((⟨t, s, s'⟩ : Step).ev p) := by
  have hrun : Run p (tr ++ [⟨t, s, s'⟩]) s' := .snoc h hen hst
  have hn : (tr ++ [(⟨t, s, s'⟩ : Step)])[tr.length]? = some ⟨t, s, s'⟩ := by
    rw [List.getElem?_append_right (Nat.le_refl _)]; simp
  have hb : (events p (tr ++ [(⟨t, s, s'⟩ : Step)]))[tr.length]? = some ((⟨t, s, s'⟩ : Step).ev p) := by
    rw [events_getElem?, hn]; rfl
  have mk : ∀ (j : Nat) (a : VCSound.Event), j < tr.length → (events p (tr ++ [(⟨t, s, s'⟩ : Step)]))[j]? = some a →
      a.thr ≠ t → ¬ HB (events p (tr ++ [(⟨t, s, s'⟩ : Step)])) j tr.length →
      RaceKind k a ((⟨t, s, s'⟩ : Step).ev p) →
      ∃ (j : Nat) (a : VCSound.Event),
        DataRace (events p (tr ++ [⟨t, s, s'⟩])) j tr.length a ((⟨t, s, s'⟩ : Step).ev p) ∧
        RaceKind k a ((⟨t, s, s'⟩ : Step).ev p) :=
    fun j a h1 h2 h3 h5 hkind => ⟨j, a, ⟨h1, h2, hb, h3, hkind.conflict, h5⟩, hkind⟩
  rcases step_verdict_declarative hwf hlen hrun hn with ⟨hv, _⟩ | ⟨hv, x, hx, hu⟩ | ⟨hv, x, hx, hu⟩ |
      ⟨hv, x, hx, _, hu⟩
  · exfalso
    have hv' : s'.verdict = none := hv
    rw [hv'] at hk; cases hk
  · have hv' : s'.verdict = some (.race 9) := hv
    rw [hv'] at hk; cases hk
    obtain ⟨j, a, h1, h2, h3, h4, h5⟩ := hu
    exact mk j a h1 h2 h3 h5 (.inl ⟨rfl, x, h4, hx⟩)
  · have hv' : s'.verdict = some (.race 10) := hv
    rw [hv'] at hk; cases hk
    obtain ⟨j, a, h1, h2, h3, h4, h5⟩ := hu
    exact mk j a h1 h2 h3 h5 (.inr (.inl ⟨rfl, x, h4, hx⟩))
  · have hv' : s'.verdict = some (.race 11) := hv
    rw [hv'] at hk; cases hk
    obtain ⟨j, a, h1, h2, h3, h4, h5⟩ := hu
    exact mk j a h1 h2 h3 h5 (.inr (.inr ⟨rfl, x, h4, hx⟩))

/-- **a run that reaches no verdict is declaratively race-free** -/
theorem run_no_verdict_raceFree {p : Prog} {tr : List Step} {s : SC.St} (hwf : WFX p)
    (hlen : p.threads.length ≤ 5) (h : Run p tr s) (hv : s.verdict = none) : RaceFree (events p tr) := by
  intro j i a b hji ha hb hne hc
  exact completed_trace_is_race_free_sync hwf hlen h (fun k hk => by rw [hv] at hk; cases hk) hji ha hb hne hc

/-- the operation of an event of a trace is an operation of the text of the body of its thread -/
theorem event_op_mem {p : Prog} {tr : List Step} {n : Nat} {a : VCSound.Event} {op : Op}
    (ha : (events p tr)[n]? = some a) (hop : a.op = some op) : op ∈ p.threads.getD a.thr [] := by
  rw [events_getElem?] at ha
  cases hn : tr[n]? with
  | none => rw [hn] at ha; cases ha
  | some e =>
    rw [hn] at ha
    cases ha
    exact List.mem_of_getElem? hop

end RaceDecl
end LoomVerif

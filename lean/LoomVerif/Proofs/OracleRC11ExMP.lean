/-
Kernel-evaluated examples for the RC11 enumerator: message passing with release/acquire (the
stale read is impossible), and read-own-write.  (Imports the store-buffering example only so that
the kernel evaluations, which need a lot of memory, are built one after the other.)
-/
import LoomVerif.Proofs.OracleRC11ExSB

namespace LoomVerif.RC11.Example

/-- `cfg x=2 | T0: spawn 1; st 0 1 rlx; st 1 1 rel | T1: ld 1 acq; ld 0 rlx` -/
def mp : Prog :=
  { cfg := { nAtomics := 2 },
    threads := [[.spawn 1, .atom 0 (.store 1 .rlx), .atom 1 (.store 1 .rel)],
                [.atom 1 (.load .acq), .atom 0 (.load .rlx)]] }

/-- the flag is seen set, the data is stale -/
def mpStale : Option (List (Nat × Nat × Ret)) :=
  some [(0, 0, .unit), (0, 1, .unit), (0, 2, .unit), (1, 0, .val 1), (1, 1, .val 0)]

/-- kernel-evaluated: the reference enumerator finishes and finds no consistent graph with that
outcome -/
theorem mp_stale_kernel : (completeNaive mp 10 (pinit mp)).map
    (fun L => refHas (outcomeData mp) mp true L.eraseDups mpStale) = some false := by
  decide +kernel

/-- `cfg x=1 | T0: st 0 1 rlx; ld 0 rlx` -/
def row : Prog := { cfg := { nAtomics := 1 }, threads := [[.atom 0 (.store 1 .rlx), .atom 0 (.load .rlx)]] }

/-- kernel-evaluated: the load reads the store of its own thread, never the initial value -/
theorem row_kernel : (completeNaive row 5 (pinit row)).map
    (fun L => (refHas (outcomeData row) row true L.eraseDups (some [(0, 0, .unit), (0, 1, .val 1)]),
               refHas (outcomeData row) row true L.eraseDups (some [(0, 0, .unit), (0, 1, .val 0)])))
    = some (true, false) := by
  decide +kernel

end LoomVerif.RC11.Example

/-
C12, ring layer: the ring invariant `RingInv` (latest store strictly above all other real slots,
pairwise distinct clocks, every clock below the thread's causality) and the race-clock invariant
`ClockInv`; candidate selection in the invariant; preservation by `State::store`,
`apply_load_coherence`, `FirstSeen::touch`, `State::load`, `State::rmw`; the `track_*` checks pass.
-/
import LoomVerif.Proofs.C12Match
namespace LoomVerif
namespace C12
open Atomic

/-- the slot of the most recent store -/
abbrev lastIdx (a : Atomic) : Nat := Atomic.index (a.cnt - 1)

/-- the ring part of the single-thread invariant, relative to the thread's causality `c` -/
structure RingInv (a : Atomic) (c : VV) : Prop where
  len : a.stores.length = NH
  cnt_pos : 0 < a.cnt
  /-- every slot's modification-order clock is below the thread's causality -/
  mo_le : ∀ i, i < NH → (a.storeAt i).mo.le c
  /-- the latest store is strictly above every other real slot -/
  latest_gt : ∀ i, i < NH → i < a.cnt → i ≠ lastIdx a →
    (a.storeAt i).mo.blt (a.storeAt (lastIdx a)).mo = true
  /-- real slots have pairwise distinct clocks (`assert_ne!` never fires) -/
  distinct : ∀ i j, i < NH → j < NH → i < a.cnt → j < a.cnt → i ≠ j →
    (a.storeAt i).mo ≠ (a.storeAt j).mo
  /-- the thread has seen the latest store -/
  seen : ∃ v, (a.storeAt (lastIdx a)).firstSeen.getD 0 none = some v ∧ v ≤ c.get 0

/-- the race-tracking part of the invariant -/
structure ClockInv (a : Atomic) (c : VV) : Prop where
  notMut : a.isMutating = false
  loadedAt_le : a.loadedAt.le c
  unsyncLoadedAt_le : a.unsyncLoadedAt.le c
  storedAt_le : a.storedAt.le c
  unsyncMutAt_le : a.unsyncMutAt.le c

theorem lastIdx_lt (a : Atomic) : lastIdx a < NH := Nat.mod_lt _ (by decide)

theorem RingInv.lastIdx_lt_cnt {a : Atomic} {c : VV} (h : RingInv a c) : lastIdx a < a.cnt := by
  have := h.cnt_pos
  have : (a.cnt - 1) % NH ≤ a.cnt - 1 := Nat.mod_le _ _
  show (a.cnt - 1) % NH < a.cnt
  omega

theorem RingInv.mono {a : Atomic} {c c' : VV} (h : RingInv a c) (hc : c.le c') : RingInv a c' where
  len := h.len
  cnt_pos := h.cnt_pos
  mo_le := fun i hi => VV.le_trans (h.mo_le i hi) hc
  latest_gt := h.latest_gt
  distinct := h.distinct
  seen := by
    obtain ⟨v, hv, hle⟩ := h.seen
    exact ⟨v, hv, Nat.le_trans hle (VV.get_mono hc 0)⟩

theorem ClockInv.mono {a : Atomic} {c c' : VV} (h : ClockInv a c) (hc : c.le c') :
    ClockInv a c' where
  notMut := h.notMut
  loadedAt_le := VV.le_trans h.loadedAt_le hc
  unsyncLoadedAt_le := VV.le_trans h.unsyncLoadedAt_le hc
  storedAt_le := VV.le_trans h.storedAt_le hc
  unsyncMutAt_le := VV.le_trans h.unsyncMutAt_le hc

theorem isSeenBy_of_seen {fs : FirstSeen} {c : VV} (h : ∃ v, fs.getD 0 none = some v ∧ v ≤ c.get 0) :
    fs.isSeenBy c = true := by
  obtain ⟨v, hv, hle⟩ := h
  unfold FirstSeen.isSeenBy
  rw [List.any_eq_true]
  refine ⟨0, by decide, ?_⟩
  simp only [hv]
  simpa using hle

/-- in the invariant, a load may only read the latest store -/
theorem RingInv.matchLoad {a : Atomic} {ths : Threads} (h : RingInv a ths.caus) (o : Ord) :
    a.matchLoadToStores ths o = .ok [lastIdx a] := by
  unfold Atomic.matchLoadToStores
  rw [matchOuter_single a _ (lastIdx a) _ h.lastIdx_lt_cnt, filter_range_single _ (lastIdx_lt a)]
  · apply matchInner_true
    intro j hj hne hjc
    have hj7 : j < NH := List.mem_range.1 hj
    exact ⟨h.distinct _ _ (lastIdx_lt a) hj7 h.lastIdx_lt_cnt hjc (Ne.symm hne),
      VV.blt_asymm (h.latest_gt j hj7 hjc hne)⟩
  · intro i hi hne hic
    have hi7 : i < NH := List.mem_range.1 hi
    apply matchInner_false a _ i (lastIdx a)
    · intro j hj hji hjc
      exact h.distinct _ _ hi7 (List.mem_range.1 hj) hic hjc (Ne.symm hji)
    · exact List.mem_range.2 (lastIdx_lt a)
    · exact Ne.symm hne
    · exact h.lastIdx_lt_cnt
    · exact h.latest_gt i hi7 hic hne
    · unfold Atomic.loadBlocked
      have : (a.storeAt (lastIdx a)).firstSeen.isSeenByCurrent ths = true :=
        isSeenBy_of_seen h.seen
      simp [this]

/-- in the invariant, an RMW may only read the latest store -/
theorem RingInv.matchRmw {a : Atomic} {c : VV} (h : RingInv a c) :
    a.matchRmwToStores = .ok [lastIdx a] := by
  unfold Atomic.matchRmwToStores
  rw [matchOuter_single a _ (lastIdx a) _ h.lastIdx_lt_cnt, filter_range_single _ (lastIdx_lt a)]
  · apply matchInner_true
    intro j hj hne hjc
    have hj7 : j < NH := List.mem_range.1 hj
    exact ⟨h.distinct _ _ (lastIdx_lt a) hj7 h.lastIdx_lt_cnt hjc (Ne.symm hne),
      VV.blt_asymm (h.latest_gt j hj7 hjc hne)⟩
  · intro i hi hne hic
    have hi7 : i < NH := List.mem_range.1 hi
    apply matchInner_false a _ i (lastIdx a)
    · intro j hj hji hjc
      exact h.distinct _ _ hi7 (List.mem_range.1 hj) hic hjc (Ne.symm hji)
    · exact List.mem_range.2 (lastIdx_lt a)
    · exact Ne.symm hne
    · exact h.lastIdx_lt_cnt
    · exact h.latest_gt i hi7 hic hne
    · rfl

/-! ### slot access after the ring is modified -/

theorem storeAt_modifyStore (a : Atomic) (k : Nat) (f : AStore → AStore) (i : Nat)
    (hk : k < a.stores.length) :
    (a.modifyStore k f).storeAt i = if i = k then f (a.storeAt k) else a.storeAt i := by
  unfold Atomic.modifyStore Atomic.storeAt
  simp only [List.getD_eq_getElem?_getD, List.getElem?_modify]
  split
  · subst_vars; simp [hk]
  · rename_i h; simp [Ne.symm h]

theorem storeAt_store_ne (a : Atomic) (ths : Threads) (sync : Sync) (v : Nat) (o : Ord) (i : Nat)
    (h : i ≠ index a.cnt) : (a.store ths sync v o).storeAt i = a.storeAt i := by
  unfold Atomic.store Atomic.storeAt
  simp only [List.getD_eq_getElem?_getD, List.getElem?_set]
  simp [Ne.symm h]

/-- the modification-order clock given to a new store -/
def newMo (a : Atomic) (ths : Threads) : VV :=
  a.stores.foldl (fun mo s => if s.firstSeen.isSeenByCurrent ths then mo.join s.mo else mo) ths.caus

theorem storeAt_store_new (a : Atomic) (ths : Threads) (sync : Sync) (v : Nat) (o : Ord)
    (hlen : a.stores.length = NH) :
    (a.store ths sync v o).storeAt (index a.cnt) =
      { value := v, hb := ths.caus, mo := newMo a ths, sync := ths.syncStore sync o,
        firstSeen := FirstSeen.new.touch ths, seqCst := o.isSC } := by
  have : index a.cnt < a.stores.length := by rw [hlen]; exact Nat.mod_lt _ (by decide)
  unfold Atomic.store Atomic.storeAt newMo
  simp only [List.getD_eq_getElem?_getD, List.getElem?_set_self this]
  rfl

theorem foldl_join_bounds {β : Type} (l : List β) (step : VV → β → VV) (c : VV)
    (hge : ∀ (m : VV) x, m.le (step m x))
    (hle : ∀ (m : VV) x, x ∈ l → m.le c → (step m x).le c) (init : VV) :
    init.le (l.foldl step init) ∧ (init.le c → (l.foldl step init).le c) := by
  induction l generalizing init with
  | nil => exact ⟨VV.le_refl _, id⟩
  | cons x xs ih =>
    have ih' := ih (fun m y hy => hle m y (List.mem_cons_of_mem _ hy)) (init := step init x)
    simp only [List.foldl_cons]
    exact ⟨VV.le_trans (hge init x) ih'.1,
      fun hi => ih'.2 (hle init x List.mem_cons_self hi)⟩

theorem storeAt_mem {a : Atomic} {s : AStore} (h : s ∈ a.stores) :
    ∃ i, i < a.stores.length ∧ a.storeAt i = s := by
  obtain ⟨i, hi, rfl⟩ := List.mem_iff_getElem.1 h
  exact ⟨i, hi, by simp [Atomic.storeAt, hi]⟩

theorem newMo_bounds {a : Atomic} {ths : Threads} {c0 : VV} (h : RingInv a c0)
    (hc : c0.le ths.caus) : ths.caus.le (newMo a ths) ∧ (newMo a ths).le ths.caus := by
  have := foldl_join_bounds a.stores
    (fun mo s => if s.firstSeen.isSeenByCurrent ths then mo.join s.mo else mo) ths.caus
    (by intro m x; split
        · exact VV.le_join_left _ _
        · exact VV.le_refl _)
    (by intro m x hx hm; split
        · obtain ⟨i, hi, rfl⟩ := storeAt_mem hx
          exact VV.join_le hm (VV.le_trans (h.mo_le i (h.len ▸ hi)) hc)
        · exact hm) ths.caus
  exact ⟨this.1, this.2 (VV.le_refl _)⟩

/-! ### the two ways the ring changes -/

/-- rewriting the latest slot keeps the ring invariant as long as its clock does not go down,
stays below the causality, and the thread still counts as having seen it -/
theorem RingInv.modify_latest {a : Atomic} {c : VV} (h : RingInv a c) (f : AStore → AStore)
    (hge : (a.storeAt (lastIdx a)).mo.le (f (a.storeAt (lastIdx a))).mo)
    (hle : (f (a.storeAt (lastIdx a))).mo.le c)
    (hseen : ∃ v, (f (a.storeAt (lastIdx a))).firstSeen.getD 0 none = some v ∧ v ≤ c.get 0) :
    RingInv (a.modifyStore (lastIdx a) f) c := by
  have hk : lastIdx a < a.stores.length := by rw [h.len]; exact lastIdx_lt a
  have hcnt : (a.modifyStore (lastIdx a) f).cnt = a.cnt := rfl
  have hL : lastIdx (a.modifyStore (lastIdx a) f) = lastIdx a := rfl
  have hgt : ∀ i, i < NH → i < a.cnt → i ≠ lastIdx a →
      (a.storeAt i).mo.blt (f (a.storeAt (lastIdx a))).mo = true :=
    fun i hi hic hne => VV.blt_of_blt_of_le (h.latest_gt i hi hic hne) hge
  refine ⟨?_, h.cnt_pos, ?_, ?_, ?_, ?_⟩
  · simp [Atomic.modifyStore, h.len]
  · intro i hi
    rw [storeAt_modifyStore _ _ _ _ hk]
    split
    · exact hle
    · exact h.mo_le i hi
  · intro i hi hic hne
    rw [hL] at hne ⊢
    rw [storeAt_modifyStore _ _ _ _ hk, storeAt_modifyStore _ _ _ _ hk, if_neg hne, if_pos rfl]
    exact hgt i hi hic hne
  · intro i j hi hj hic hjc hne
    rw [storeAt_modifyStore _ _ _ _ hk, storeAt_modifyStore _ _ _ _ hk]
    by_cases h1 : i = lastIdx a
    · have h2 : j ≠ lastIdx a := fun e => hne (h1.trans e.symm)
      rw [if_pos h1, if_neg h2]
      exact Ne.symm ((VV.blt_iff _ _).1 (hgt j hj hjc h2)).2
    · rw [if_neg h1]
      by_cases h2 : j = lastIdx a
      · rw [if_pos h2]
        exact ((VV.blt_iff _ _).1 (hgt i hi hic h1)).2
      · rw [if_neg h2]; exact h.distinct i j hi hj hic hjc hne
  · rw [hL, storeAt_modifyStore _ _ _ _ hk, if_pos rfl]; exact hseen

/-- `State::store` by the only thread, whose own clock has grown since the invariant was
established: the new store is strictly above everything in the ring -/
theorem RingInv.store {a : Atomic} {ths : Threads} {c0 : VV} (h : RingInv a c0)
    (h1 : OneThread ths) (hc : c0.le ths.caus) (hlt : c0.get 0 < ths.caus.get 0)
    (sync : Sync) (v : Nat) (o : Ord) : RingInv (a.store ths sync v o) ths.caus := by
  have hcnt : (a.store ths sync v o).cnt = a.cnt + 1 := rfl
  have hL : lastIdx (a.store ths sync v o) = index a.cnt := rfl
  have hnew := storeAt_store_new a ths sync v o h.len
  obtain ⟨hb1, hb2⟩ := newMo_bounds h hc
  have hold : ∀ i, i < NH → i < a.cnt + 1 → i ≠ index a.cnt → i < a.cnt := by
    intro i hi hic hne
    unfold index at hne
    by_cases h7 : a.cnt < NH
    · rw [Nat.mod_eq_of_lt h7] at hne; omega
    · omega
  have hgt : ∀ i, i < NH → (a.storeAt i).mo.blt (newMo a ths) = true := by
    intro i hi
    apply VV.blt_of_le_of_get_lt (i := 0)
    · exact VV.le_trans (h.mo_le i hi) (VV.le_trans hc hb1)
    · have := VV.get_mono (h.mo_le i hi) 0
      have := VV.get_mono hb1 0
      omega
  refine ⟨?_, by omega, ?_, ?_, ?_, ?_⟩
  · simp [Atomic.store, h.len]
  · intro i hi
    by_cases hi' : i = index a.cnt
    · rw [hi', hnew]; exact hb2
    · rw [storeAt_store_ne _ _ _ _ _ _ hi']; exact VV.le_trans (h.mo_le i hi) hc
  · intro i hi hic hne
    rw [hL] at hne ⊢
    rw [storeAt_store_ne _ _ _ _ _ _ hne, hnew]
    exact hgt i hi
  · intro i j hi hj hic hjc hne
    rw [hcnt] at hic hjc
    by_cases hi' : i = index a.cnt
    · have hj' : j ≠ index a.cnt := fun e => hne (hi'.trans e.symm)
      rw [hi', hnew, storeAt_store_ne _ _ _ _ _ _ hj']
      exact Ne.symm ((VV.blt_iff _ _).1 (hgt j hj)).2
    · rw [storeAt_store_ne _ _ _ _ _ _ hi']
      by_cases hj' : j = index a.cnt
      · rw [hj', hnew]; exact ((VV.blt_iff _ _).1 (hgt i hi)).2
      · rw [storeAt_store_ne _ _ _ _ _ _ hj']
        exact h.distinct i j hi hj (hold i hi hic hi') (hold j hj hjc hj') hne
  · rw [hL, hnew]
    refine ⟨ths.caus.get 0, ?_, Nat.le_refl _⟩
    simp [FirstSeen.touch, FirstSeen.new, h1.activeId, h1.activeAtomicVersion, NT]

/-! ### the race checks pass, and the read / RMW paths -/

theorem trackLoad_ok {a : Atomic} {ths : Threads} (h : ClockInv a ths.caus) :
    a.trackLoad ths = .ok { a with loadedAt := a.loadedAt.join ths.caus } := by
  simp [Atomic.trackLoad, Atomic.mutatingCheck, h.notMut, VV.ahead_none h.unsyncMutAt_le]
  rfl

theorem trackUnsyncLoad_ok {a : Atomic} {ths : Threads} (h : ClockInv a ths.caus) :
    a.trackUnsyncLoad ths = .ok { a with unsyncLoadedAt := a.unsyncLoadedAt.join ths.caus } := by
  simp [Atomic.trackUnsyncLoad, Atomic.mutatingCheck, h.notMut, VV.ahead_none h.unsyncMutAt_le,
    VV.ahead_none h.storedAt_le]
  rfl

theorem trackStore_ok {a : Atomic} {ths : Threads} (h : ClockInv a ths.caus) :
    a.trackStore ths = .ok { a with storedAt := a.storedAt.join ths.caus } := by
  simp [Atomic.trackStore, Atomic.mutatingCheck, h.notMut, VV.ahead_none h.unsyncMutAt_le,
    VV.ahead_none h.unsyncLoadedAt_le]
  rfl

theorem trackUnsyncMut_ok {a : Atomic} {ths : Threads} (h : ClockInv a ths.caus) :
    a.trackUnsyncMut ths = .ok { a with unsyncMutAt := a.unsyncMutAt.join ths.caus } := by
  simp [Atomic.trackUnsyncMut, Atomic.mutatingCheck, h.notMut, VV.ahead_none h.unsyncMutAt_le,
    VV.ahead_none h.unsyncLoadedAt_le, VV.ahead_none h.storedAt_le, VV.ahead_none h.loadedAt_le]
  rfl

theorem RingInv.congr {a a' : Atomic} {c : VV} (h : RingInv a c) (hs : a'.stores = a.stores)
    (hc : a'.cnt = a.cnt) : RingInv a' c := by
  cases a; cases a'
  simp only at hs hc
  subst hs hc
  exact ⟨h.len, h.cnt_pos, h.mo_le, h.latest_gt, h.distinct, h.seen⟩

/-- the clock that `apply_load_coherence` gives to slot `idx` -/
def cohMo (a : Atomic) (ths : Threads) (idx : Nat) : VV :=
  (List.range NH).foldl (fun mo i =>
    if i == idx then mo else
      let s := a.storeAt i
      let mo := if s.firstSeen.isSeenByCurrent ths then mo.join s.mo else mo
      if s.hb.blt ths.caus then mo.join s.mo else mo) (a.storeAt idx).mo

theorem applyLoadCoherence_eq (a : Atomic) (ths : Threads) (idx : Nat) :
    a.applyLoadCoherence ths idx = a.modifyStore idx fun s => { s with mo := cohMo a ths idx } :=
  rfl

theorem cohMo_bounds {a : Atomic} {ths : Threads} {c : VV} (h : RingInv a c) (idx : Nat)
    (hidx : idx < NH) :
    (a.storeAt idx).mo.le (cohMo a ths idx) ∧ (cohMo a ths idx).le c := by
  have := foldl_join_bounds (List.range NH) (fun mo i =>
    if i == idx then mo else
      let s := a.storeAt i
      let mo := if s.firstSeen.isSeenByCurrent ths then mo.join s.mo else mo
      if s.hb.blt ths.caus then mo.join s.mo else mo) c
    (by
      intro m i
      dsimp only
      split
      · exact VV.le_refl _
      · split <;> split
        · exact VV.le_trans (VV.le_join_left _ _) (VV.le_join_left _ _)
        · exact VV.le_join_left _ _
        · exact VV.le_join_left _ _
        · exact VV.le_refl _)
    (by
      intro m i hi hm
      have hmo := h.mo_le i (List.mem_range.1 hi)
      dsimp only
      split
      · exact hm
      · split <;> split
        · exact VV.join_le (VV.join_le hm hmo) hmo
        · exact VV.join_le hm hmo
        · exact VV.join_le hm hmo
        · exact hm) (a.storeAt idx).mo
  exact ⟨this.1, this.2 (h.mo_le idx hidx)⟩

theorem touch_of_seen {fs : FirstSeen} {ths : Threads} (h1 : OneThread ths)
    {v : Nat} (hv : fs.getD 0 none = some v) : fs.touch ths = fs := by
  unfold FirstSeen.touch
  rw [h1.activeId, hv]

/-- the common first half of `State::load` and `State::rmw` reading the latest slot, after
`track_load` succeeded -/
def readPart (a : Atomic) (ths : Threads) : Atomic :=
  ((({ a with loadedAt := a.loadedAt.join ths.caus } : Atomic).applyLoadCoherence ths
    (lastIdx a)).modifyStore (lastIdx a) fun s => { s with firstSeen := s.firstSeen.touch ths })

theorem readPart_inv {a : Atomic} {ths : Threads} {c : VV} (h1 : OneThread ths)
    (hr : RingInv a c) (hc : ClockInv a ths.caus) :
    RingInv (readPart a ths) c ∧ ClockInv (readPart a ths) ths.caus ∧
      (readPart a ths).cnt = a.cnt ∧
      ((readPart a ths).storeAt (lastIdx a)).value = (a.storeAt (lastIdx a)).value ∧
      ((readPart a ths).storeAt (lastIdx a)).sync = (a.storeAt (lastIdx a)).sync := by
  let a1 : Atomic := { a with loadedAt := a.loadedAt.join ths.caus }
  have hr1 : RingInv a1 c := hr.congr rfl rfl
  have hb := cohMo_bounds (ths := ths) hr1 (lastIdx a) (lastIdx_lt a)
  have hr2 : RingInv (a1.applyLoadCoherence ths (lastIdx a)) c := by
    rw [applyLoadCoherence_eq]
    exact hr1.modify_latest _ hb.1 hb.2 hr1.seen
  obtain ⟨v, hv, hle⟩ := hr2.seen
  have hr3 : RingInv (readPart a ths) c := by
    refine hr2.modify_latest _ (VV.le_refl _) (hr2.mo_le _ (lastIdx_lt a)) ?_
    refine ⟨v, ?_, hle⟩
    show (FirstSeen.touch _ ths).getD 0 none = some v
    rw [touch_of_seen h1 hv]; exact hv
  have hk : lastIdx a < a1.stores.length := by rw [hr1.len]; exact lastIdx_lt a
  have hk2 : lastIdx a < (a1.applyLoadCoherence ths (lastIdx a)).stores.length := by
    rw [hr2.len]; exact lastIdx_lt a
  refine ⟨hr3, ?_, rfl, ?_, ?_⟩
  · exact ⟨hc.notMut, VV.join_le hc.loadedAt_le (VV.le_refl _), hc.unsyncLoadedAt_le,
      hc.storedAt_le, hc.unsyncMutAt_le⟩
  · unfold readPart
    rw [storeAt_modifyStore _ _ _ _ hk2, if_pos rfl, applyLoadCoherence_eq,
      storeAt_modifyStore _ _ _ _ hk, if_pos rfl]
    rfl
  · unfold readPart
    rw [storeAt_modifyStore _ _ _ _ hk2, if_pos rfl, applyLoadCoherence_eq,
      storeAt_modifyStore _ _ _ _ hk, if_pos rfl]
    rfl

/-- `State::load` of the latest slot -/
theorem load_ok {a : Atomic} {ths : Threads} {c : VV} (h1 : OneThread ths)
    (hr : RingInv a c) (hc : ClockInv a ths.caus) (o : Ord) :
    a.load ths (lastIdx a) o =
      .ok (readPart a ths, ths.syncLoad (a.storeAt (lastIdx a)).sync o, a.latestValue) := by
  obtain ⟨_, _, _, hv, hs⟩ := readPart_inv h1 hr hc
  unfold Atomic.load
  rw [trackLoad_ok hc]
  show Except.ok (readPart a ths, ths.syncLoad ((readPart a ths).storeAt (lastIdx a)).sync o,
    ((readPart a ths).storeAt (lastIdx a)).value) = _
  rw [hv, hs]; rfl

theorem latestValue_store (a : Atomic) (ths : Threads) (sync : Sync) (v : Nat) (o : Ord)
    (hlen : a.stores.length = NH) : (a.store ths sync v o).latestValue = v := by
  show ((a.store ths sync v o).storeAt (index (a.cnt + 1 - 1))).value = v
  rw [Nat.add_sub_cancel, storeAt_store_new _ _ _ _ _ hlen]

theorem ClockInv.congr {a a' : Atomic} {c : VV} (h : ClockInv a c)
    (h0 : a'.isMutating = a.isMutating) (h1 : a'.loadedAt = a.loadedAt)
    (h2 : a'.unsyncLoadedAt = a.unsyncLoadedAt) (h3 : a'.storedAt = a.storedAt)
    (h4 : a'.unsyncMutAt = a.unsyncMutAt) : ClockInv a' c :=
  ⟨h0 ▸ h.notMut, h1 ▸ h.loadedAt_le, h2 ▸ h.unsyncLoadedAt_le, h3 ▸ h.storedAt_le,
    h4 ▸ h.unsyncMutAt_le⟩

theorem rmw_eq {a : Atomic} {ths : Threads} (hc : ClockInv a ths.caus) (so fo : Ord)
    (f : Nat → Option Nat) :
    a.rmw ths (lastIdx a) so fo f =
      (match f ((readPart a ths).storeAt (lastIdx a)).value with
      | some next =>
        (readPart a ths).trackStore ths >>= fun a4 =>
          pure (a4.store (ths.syncLoad (a4.storeAt (lastIdx a)).sync so)
            (a4.storeAt (lastIdx a)).sync next so,
            ths.syncLoad (a4.storeAt (lastIdx a)).sync so,
            ((readPart a ths).storeAt (lastIdx a)).value, true)
      | none =>
        pure (readPart a ths, ths.syncLoad ((readPart a ths).storeAt (lastIdx a)).sync fo,
          ((readPart a ths).storeAt (lastIdx a)).value, false)) := by
  unfold Atomic.rmw
  rw [trackLoad_ok hc]
  rfl

/-- `State::rmw` of the latest slot, by the only thread, whose own clock has grown since the ring
invariant was established (`rt::synchronize` increments it first) -/
theorem rmw_ok {a : Atomic} {ths : Threads} {c0 : VV} (h1 : OneThread ths)
    (hr : RingInv a c0) (hc0 : c0.le ths.caus) (hlt : c0.get 0 < ths.caus.get 0)
    (hc : ClockInv a ths.caus) (so fo : Ord) (f : Nat → Option Nat) :
    ∃ a' ths', a.rmw ths (lastIdx a) so fo f
        = .ok (a', ths', a.latestValue, (f a.latestValue).isSome) ∧
      OneThread ths' ∧ RingInv a' ths'.caus ∧ ClockInv a' ths'.caus ∧
      a'.latestValue = (f a.latestValue).getD a.latestValue := by
  obtain ⟨hr3, hc3, hcnt, hv, hs⟩ := readPart_inv h1 hr hc
  have hprev : ((readPart a ths).storeAt (lastIdx a)).value = a.latestValue := hv
  rw [rmw_eq hc, hprev]
  cases hf : f a.latestValue with
  | none =>
    refine ⟨readPart a ths, ths.syncLoad ((readPart a ths).storeAt (lastIdx a)).sync fo, rfl,
      h1.syncLoad _ _, ?_, hc3.mono (h1.caus_le_syncLoad _ _), ?_⟩
    · exact hr3.mono (VV.le_trans hc0 (h1.caus_le_syncLoad _ _))
    · show ((readPart a ths).storeAt (index ((readPart a ths).cnt - 1))).value = a.latestValue
      rw [hcnt]; exact hprev
  | some next =>
    dsimp only
    rw [trackStore_ok hc3]
    show ∃ a' ths', Except.ok _ = _ ∧ _
    let a4 : Atomic := { readPart a ths with storedAt := (readPart a ths).storedAt.join ths.caus }
    let sync := (a4.storeAt (lastIdx a)).sync
    let ths' := ths.syncLoad sync so
    have h1' : OneThread ths' := h1.syncLoad _ _
    have hle : ths.caus.le ths'.caus := h1.caus_le_syncLoad _ _
    have hr4 : RingInv a4 c0 := hr3.congr rfl rfl
    have hc4 : ClockInv a4 ths.caus :=
      ⟨hc3.notMut, hc3.loadedAt_le, hc3.unsyncLoadedAt_le,
        VV.join_le hc3.storedAt_le (VV.le_refl _), hc3.unsyncMutAt_le⟩
    refine ⟨a4.store ths' sync next so, ths', rfl, h1', ?_, ?_, ?_⟩
    · exact hr4.store h1' (VV.le_trans hc0 hle) (Nat.lt_of_lt_of_le hlt (VV.get_mono hle 0)) _ _ _
    · exact (hc4.mono hle).congr rfl rfl rfl rfl rfl
    · exact latestValue_store _ _ _ _ _ hr4.len

end C12
end LoomVerif

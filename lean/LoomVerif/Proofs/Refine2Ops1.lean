/-
Refinement, WAIT fragment, part 7: the simulation for the operations of the lock fragment (`cellRead`,
`cellWrite`, `ifEq`, `lock`, `tryLock`, `unlock`) against the extended relation.
-/
import LoomVerif.Proofs.Refine2Step

namespace LoomVerif
namespace Refine2
open Refine Sy C07 C08

section
variable {w w' : World} {s : SCData2}

theorem quiet2_setStage {n : Nat} (h : Quiet2 (w.setStage n) w') : Quiet2 w w' :=
  ⟨h.prog, h.spawned, h.events, h.len, h.view, h.nw⟩

/-- a stage that only moves the active thread's `stage` (to a stage below 2), of an operation that is not
`nWait`, outside the second half of a `cvWait` -/
theorem sim_stage {k : Nat} (hR : R2c w s) (hact : w.tid < w.ctl.length) {op : Op} (hop : opAt2 w = some op)
    (hn : ∀ n, op ≠ .nWait n) (hC0 : pendCv w.prog (w.ctlOf w.tid) = none)
    (hk : k ≤ maxStage (some op)) (hk2 : k < 2)
    (hq : Quiet2 w w') (hctl : w'.ctl = w.ctl.modify w.tid fun c => { c with stage := k }) : Sim2c w s w' := by
  have hop' : opOfCtl w.prog (w.ctlOf w.tid) = some op := hop
  have hopk : opOfCtl w.prog { w.ctlOf w.tid with stage := k } = some op := hop
  have hC1 : pendCv w.prog { w.ctlOf w.tid with stage := k } = none := by
    unfold pendCv
    rw [hopk]
    split
    · rw [if_neg (by show ¬ 2 ≤ k; omega)]
    · rfl
  have := R2c_stutter hR hact (fun c => { c with stage := k }) hq hctl rfl rfl rfl rfl rfl
    (by rw [hop]; exact hk) Iff.rfl (by intro hne; exact absurd (fin_zero2 hR hact hop) hne)
    ((pendN_of_op hopk hn).trans (pendN_of_op hop' hn).symm) hC0 hC1
  exact ⟨hq.prog, this.2, .inl ⟨this.1, hq.events⟩⟩

theorem stepL_unfold (hR : R2c w s) (hact : w.tid < w.ctl.length)
    (hcv : pendCv w.prog (w.ctlOf w.tid) = none) :
    (s.th (w.ctlOf w.tid).body).cvNotified = none := (cv_none hR hact hcv).2

theorem sim_cellRead (hR : R2c w s) (hact : w.tid < w.ctl.length) {ci : Nat}
    (hop : opAt2 w = some (.cellRead ci)) (hci : ci < w.prog.cfg.nCells)
    (h : w.runOp (w.ctlOf w.tid) (.cellRead ci) = .ok w') : Sim2c w s w' := by
  obtain ⟨_, hrel, hof⟩ := base2 hR hact
  obtain ⟨_, hC, _⟩ := plain_pend (c := w.ctlOf w.tid) hop rfl
  have c2 := (cv_none hR hact hC).2
  rw [runOp_cellRead] at h
  obtain ⟨cs, hg, h⟩ := bind_ok h
  have hobj : w.exec.objs[cellIdx w.prog ci]? = some (.cell cs) := getCell_ok hg
  obtain ⟨cs', hcs', hval⟩ := objView2_cell (hR.o.y.cell ci hci)
  rw [hobj] at hcs'; cases hcs'
  simp only [bind, Except.bind, pure, Except.pure, throw, throwThe, MonadExceptOf.throw] at h
  repeat' split at h
  all_goals try (cases h; done)
  cases h
  have hR' := R2c_complete (s := s) (d := s)
      (w0 := w.sync.setObj (w.cellObj ci) (.cell { cs with readAccess := cs.readAccess.join w.sync.ths.caus }))
      hR hact hop rfl rfl rfl rfl rfl (sync_len w) rfl
      (by
        refine hR.o.viewLe ?_
        intro n v hv
        by_cases e : n = cellIdx w.prog ci
        · subst e
          show objView2 (w.exec.objs.set _ _) _ = _
          rw [cellObj_eq, objView2_set_self _ (objView2_lt hv)]
          rw [objView2_of hobj] at hv
          exact hv
        · show objView2 (w.exec.objs.set _ _) _ = _
          rw [cellObj_eq, objView2_set_ne _ _ e]; exact hv) (.val cs.value)
  refine ⟨rfl, hR'.2, .inr ⟨some ((s.th (w.ctlOf w.tid).body).pc, .val (s.cells.getD ci 0)),
    s.ret (w.ctlOf w.tid).body (.val (s.cells.getD ci 0)),
    .inl ⟨enabled_plain2 hR hact hop hC (by simp) (by simp) (by simp) (by simp) (by simp), ?_⟩, ?_, ?_⟩⟩
  · unfold SCData2.stepL
    simp only [c2, hof, hop]
    simp
  · rw [← hval]; exact hR'.1
  · rw [events_complete2, ← hval, hrel.2.1]
    rfl

theorem sim_cellWrite (hR : R2c w s) (hact : w.tid < w.ctl.length) {ci : Nat} {v : Int}
    (hop : opAt2 w = some (.cellWrite ci v)) (hci : ci < w.prog.cfg.nCells)
    (h : w.runOp (w.ctlOf w.tid) (.cellWrite ci v) = .ok w') : Sim2c w s w' := by
  obtain ⟨_, hrel, hof⟩ := base2 hR hact
  obtain ⟨_, hC, _⟩ := plain_pend (c := w.ctlOf w.tid) hop rfl
  have c2 := (cv_none hR hact hC).2
  rw [runOp_cellWrite] at h
  obtain ⟨cs, hg, h⟩ := bind_ok h
  simp only [bind, Except.bind, pure, Except.pure, throw, throwThe, MonadExceptOf.throw] at h
  repeat' split at h
  all_goals try (cases h; done)
  cases h
  have hR' := R2c_complete (s := s) (d := { s with cells := s.cells.set ci v })
      (w0 := w.sync.setObj (w.cellObj ci)
        (.cell { cs with writeAccess := cs.writeAccess.join w.sync.ths.caus, value := v }))
      hR hact hop rfl rfl rfl rfl rfl (sync_len w) rfl (hR.o.setCell hci _ v rfl) .unit
  refine ⟨rfl, hR'.2, .inr ⟨some ((s.th (w.ctlOf w.tid).body).pc, .unit),
    ({ s with cells := s.cells.set ci v } : SCData2).ret (w.ctlOf w.tid).body .unit,
    .inl ⟨enabled_plain2 hR hact hop hC (by simp) (by simp) (by simp) (by simp) (by simp), ?_⟩, hR'.1, ?_⟩⟩
  · unfold SCData2.stepL
    simp only [c2, hof, hop]
    simp
  · rw [events_complete2, hrel.2.1]
    rfl

theorem sim_ifEq (hR : R2c w s) (hact : w.tid < w.ctl.length) {i n : Nat} {r : Ret}
    (hop : opAt2 w = some (.ifEq i r n))
    (h : w.runOp (w.ctlOf w.tid) (.ifEq i r n) = .ok w') : Sim2c w s w' := by
  obtain ⟨_, hrel, hof⟩ := base2 hR hact
  have hf0 := fin_zero2 hR hact hop
  obtain ⟨hN, hC, hD⟩ := plain_pend (c := w.ctlOf w.tid) hop rfl
  have c2 := (cv_none hR hact hC).2
  obtain ⟨h1, h2, h3, h4, h5, h6, h7⟩ := hrel
  have hs0 : (w.ctlOf w.tid).stage = 0 := by
    have hop' : opOfCtl w.prog (w.ctlOf w.tid) = some (.ifEq i r n) := hop
    rw [hop'] at h5
    exact Nat.le_zero.1 h5
  rw [runOp_ifEq] at h
  have key : ∀ k : Nat, k ≠ 0 →
      R2c (w.modCtl w.tid fun c => { c with pc := c.pc + k })
        (s.modTh (w.ctlOf w.tid).body fun h => { h with pc := h.pc + k }) ∧
      CtlStep w (w.modCtl w.tid fun c => { c with pc := c.pc + k }) := by
    intro k hk
    have hst' : ({ w.ctlOf w.tid with pc := (w.ctlOf w.tid).pc + k } : TCtl).stage = 0 := hs0
    refine ⟨?_, CtlStep.of_modify (fun c => { c with pc := c.pc + k }) hact rfl rfl id (.inr hs0)⟩
    refine R2c.mk' (p := w.prog) (ctl := w.ctl.modify w.tid fun c => { c with pc := c.pc + k }) (sp := w.spawned)
      rfl rfl rfl ?_ ?_ ?_
    · show _ = w.exec.threads.threads.length
      rw [← hR.lenCtl]; simp
    · refine hR.x.modify hact _ _ rfl (Nat.le_add_right _ _) ?_ ?_
      · refine ⟨h1, ?_, h3, h4, ?_, h6, h7⟩
        · show (s.th (w.ctlOf w.tid).body).pc + k = (w.ctlOf w.tid).pc + k
          rw [h2]
        · show (w.ctlOf w.tid).stage ≤ _
          rw [hs0]; exact Nat.zero_le _
      · intro hne; exact absurd hf0 hne
    · exact (hR.o.modifyPlain w.tid _ rfl (Nat.le_add_right _ _) id
        ((pendN_stage0 _ _ hst').trans hN.symm) hC (pendCv_stage0 _ _ hst')
        (by intro q hq; rw [show w.ctl.getD w.tid {} = w.ctlOf w.tid from rfl, hD] at hq; cases hq)).ths _
        (CvSame.modify _ _ _ fun _ => ⟨rfl, rfl⟩)
  have hen := enabled_plain2 hR hact hop hC (by simp) (by simp) (by simp) (by simp) (by simp)
  split at h
  · next hc =>
    cases h
    have hk := key 1 (by omega)
    refine ⟨rfl, hk.2, .inr ⟨none, s.modTh (w.ctlOf w.tid).body fun h => { h with pc := h.pc + 1 },
      .inl ⟨hen, ?_⟩, hk.1, rfl⟩⟩
    unfold SCData2.stepL
    simp only [c2, hof, hop]
    simp only [h2, h3, hc, if_true, List.mem_singleton]
  · next hc =>
    cases h
    have hk := key (1 + n) (by omega)
    have e : (s.modTh (w.ctlOf w.tid).body fun h => { h with pc := h.pc + 1 + n }) =
        (s.modTh (w.ctlOf w.tid).body fun h => { h with pc := h.pc + (1 + n) }) := by
      simp only [Nat.add_assoc]
    have e2 : (w.modCtl w.tid fun c => { c with pc := c.pc + 1 + n }) =
        (w.modCtl w.tid fun c => { c with pc := c.pc + (1 + n) }) := by
      simp only [Nat.add_assoc]
    rw [e2]
    refine ⟨rfl, hk.2, .inr ⟨none, s.modTh (w.ctlOf w.tid).body fun h => { h with pc := h.pc + 1 + n },
      .inl ⟨hen, ?_⟩, by rw [e]; exact hk.1, rfl⟩⟩
    unfold SCData2.stepL
    simp only [c2, hof, hop]
    simp only [h2, h3, hc, Bool.false_eq_true, if_false, List.mem_singleton]

theorem sim_lock (hR : R2c w s) (hact : w.tid < w.ctl.length) {mi : Nat}
    (hop : opAt2 w = some (.lock mi)) (hmi : mi < w.prog.cfg.nMutexes)
    (h : w.runOp (w.ctlOf w.tid) (.lock mi) = .ok w') : Sim2c w s w' := by
  obtain ⟨_, hrel, hof⟩ := base2 hR hact
  obtain ⟨_, hC, _⟩ := plain_pend (c := w.ctlOf w.tid) hop rfl
  obtain ⟨c1, c2⟩ := cv_none hR hact hC
  obtain ⟨l, hv, hmap, hown⟩ := hR.o.y.mtx mi hmi
  obtain ⟨ms, hobj, hlock⟩ := objView2_mutex hv
  have hobj' : w.exec.objs[w.mutexObj mi]? = some (.mutex ms) := hobj
  rw [runOp_lock] at h
  split at h
  · simp only [getMutex_of hobj', bind, Except.bind] at h
    obtain ⟨hq, hc, _⟩ := branch_quiet2 h
    exact sim_stage (k := 1) hR hact hop (by simp) hC (Nat.le_refl _) (by omega) (quiet2_setStage hq) hc
  · obtain ⟨⟨w1, okk⟩, hpa, h⟩ := bind_ok h
    obtain ⟨hk, hc1, ht1, hp1, hs1, he1, hl1, _, hobjs⟩ := postAcquire_obs hobj' hpa
    have hnw := postAcquire_nw hpa
    cases okk with
    | false => simp [bind, Except.bind, throw, throwThe, MonadExceptOf.throw] at h
    | true =>
      simp only [Bool.not_true, Bool.false_eq_true, if_false, bind, Except.bind, pure, Except.pure] at h
      cases h
      have hl0 : l = none := by
        rw [← hlock]
        cases hh : ms.lock with
        | none => rfl
        | some i => rw [hh] at hk; cases hk
      subst hl0
      obtain ⟨h1, h2⟩ := started_running2 hR hact (by rw [fin_zero2 hR hact hop]; omega)
      have hR' := R2c_complete (s := s)
        (d := { s with mutex := s.mutex.set mi (some (w.ctlOf w.tid).body) }) (w0 := w1)
        hR hact hop rfl hc1 ht1 hp1 hs1 hl1 rfl
        (by
          rw [hobjs rfl, hnw]
          exact hR.o.setMutex hmi _ (some w.tid) rfl (by intro i hi; cases hi; exact hact)) .unit
      refine ⟨hp1, hR'.2, .inr ⟨some ((s.th (w.ctlOf w.tid).body).pc, .unit),
        ({ s with mutex := s.mutex.set mi (some (w.ctlOf w.tid).body) } : SCData2).ret (w.ctlOf w.tid).body .unit,
        .inl ⟨?_, ?_⟩, hR'.1, ?_⟩⟩
      · unfold SCData2.enabled
        rw [hof, hop, h1, h2, c1, c2]
        simp only [Option.map_none] at hmap
        show (true && !false && (s.mutex.getD mi none).isNone) = true
        rw [← hmap]; rfl
      · unfold SCData2.stepL
        simp only [c2, hof, hop]
        simp
      · rw [events_complete2, he1, ht1]
        show ((w1.ctlOf w.tid).body, (w1.ctlOf w.tid).pc, Ret.unit) :: _ = _
        rw [show w1.ctlOf w.tid = w.ctlOf w.tid by simp only [World.ctlOf, hc1], hrel.2.1]
        rfl

theorem sim_tryLock (hR : R2c w s) (hact : w.tid < w.ctl.length) {mi : Nat}
    (hop : opAt2 w = some (.tryLock mi)) (hmi : mi < w.prog.cfg.nMutexes)
    (h : w.runOp (w.ctlOf w.tid) (.tryLock mi) = .ok w') : Sim2c w s w' := by
  obtain ⟨_, hrel, hof⟩ := base2 hR hact
  obtain ⟨_, hC, _⟩ := plain_pend (c := w.ctlOf w.tid) hop rfl
  obtain ⟨c1, c2⟩ := cv_none hR hact hC
  obtain ⟨l, hv, hmap, hown⟩ := hR.o.y.mtx mi hmi
  obtain ⟨ms, hobj, hlock⟩ := objView2_mutex hv
  have hobj' : w.exec.objs[w.mutexObj mi]? = some (.mutex ms) := hobj
  have hen := enabled_plain2 hR hact hop hC (by simp) (by simp) (by simp) (by simp) (by simp)
  rw [runOp_tryLock] at h
  split at h
  · obtain ⟨hq, hc, _⟩ := branch_quiet2 h
    exact sim_stage (k := 1) hR hact hop (by simp) hC (Nat.le_refl _) (by omega) (quiet2_setStage hq) hc
  · obtain ⟨⟨w1, okk⟩, hpa, h⟩ := bind_ok h
    obtain ⟨hk, hc1, ht1, hp1, hs1, he1, hl1, hsame, hobjs⟩ := postAcquire_obs hobj' hpa
    have hnw := postAcquire_nw hpa
    simp only [pure, Except.pure] at h
    cases h
    have hev : (w1.complete (World.boolRet okk)).events.map triple =
        ((w.ctlOf w.tid).body, (s.th (w.ctlOf w.tid).body).pc, World.boolRet okk) :: w.events.map triple := by
      rw [events_complete2, he1, ht1,
        show w1.ctlOf w.tid = w.ctlOf w.tid by simp only [World.ctlOf, hc1], hrel.2.1]
    cases okk with
    | false =>
      have hw : w1 = w := hsame rfl
      rw [hw] at hev ⊢
      have hl0 : (s.mutex.getD mi none).isNone = false := by
        rw [← hmap, ← hlock]
        cases hh : ms.lock with
        | none => rw [hh] at hk; cases hk
        | some i => rfl
      have hR' := R2c_complete (s := s) (d := s) (w0 := w) hR hact hop rfl rfl rfl rfl rfl rfl rfl hR.o
        (World.boolRet false)
      refine ⟨rfl, hR'.2, .inr ⟨some ((s.th (w.ctlOf w.tid).body).pc, SC.bool01 false),
        s.ret (w.ctlOf w.tid).body (SC.bool01 false), .inl ⟨hen, ?_⟩, hR'.1, hev⟩⟩
      unfold SCData2.stepL
      simp only [c2, hof, hop]
      rw [hl0]
      simp
    | true =>
      have hl0 : l = none := by
        rw [← hlock]
        cases hh : ms.lock with
        | none => rfl
        | some i => rw [hh] at hk; cases hk
      subst hl0
      simp only [Option.map_none] at hmap
      have hR' := R2c_complete (s := s)
        (d := { s with mutex := s.mutex.set mi (some (w.ctlOf w.tid).body) }) (w0 := w1)
        hR hact hop rfl hc1 ht1 hp1 hs1 hl1 rfl
        (by
          rw [hobjs rfl, hnw]
          exact hR.o.setMutex hmi _ (some w.tid) rfl (by intro i hi; cases hi; exact hact)) (World.boolRet true)
      refine ⟨hp1, hR'.2, .inr ⟨some ((s.th (w.ctlOf w.tid).body).pc, SC.bool01 true),
        ({ s with mutex := s.mutex.set mi (some (w.ctlOf w.tid).body) } : SCData2).ret (w.ctlOf w.tid).body
          (SC.bool01 true), .inl ⟨hen, ?_⟩, hR'.1, hev⟩⟩
      unfold SCData2.stepL
      simp only [c2, hof, hop]
      rw [← hmap]
      simp

theorem sim_unlock (hR : R2c w s) (hact : w.tid < w.ctl.length) {mi : Nat}
    (hop : opAt2 w = some (.unlock mi)) (hmi : mi < w.prog.cfg.nMutexes)
    (h : w.runOp (w.ctlOf w.tid) (.unlock mi) = .ok w') : Sim2c w s w' := by
  obtain ⟨_, hrel, hof⟩ := base2 hR hact
  obtain ⟨_, hC, _⟩ := plain_pend (c := w.ctlOf w.tid) hop rfl
  obtain ⟨c1, c2⟩ := cv_none hR hact hC
  obtain ⟨l, hv, hmap, hown⟩ := hR.o.y.mtx mi hmi
  obtain ⟨ms, hobj, hlock⟩ := objView2_mutex hv
  have hobj' : w.exec.objs[w.mutexObj mi]? = some (.mutex ms) := hobj
  rw [runOp_unlock] at h
  obtain ⟨w1, hrl, h⟩ := bind_ok h
  obtain ⟨hc1, ht1, hp1, hs1, he1, hl1, m', hm', hobjs⟩ := releaseLock_obs hobj' hrl
  have hnw := releaseLock_nw hrl
  simp only [pure, Except.pure] at h
  cases h
  have hR' := R2c_complete (s := s) (d := { s with mutex := s.mutex.set mi none }) (w0 := w1)
    hR hact hop rfl hc1 ht1 hp1 hs1 hl1 rfl
    (by
      rw [hobjs, hnw]
      exact hR.o.setMutex hmi (.mutex m') none (by simp [view2, hm']) (by intro i hi; cases hi)) .unit
  refine ⟨hp1, hR'.2, .inr ⟨some ((s.th (w.ctlOf w.tid).body).pc, .unit),
    ({ s with mutex := s.mutex.set mi none } : SCData2).ret (w.ctlOf w.tid).body .unit,
    .inl ⟨enabled_plain2 hR hact hop hC (by simp) (by simp) (by simp) (by simp) (by simp), ?_⟩, hR'.1, ?_⟩⟩
  · unfold SCData2.stepL
    simp only [c2, hof, hop]
    simp
  · rw [events_complete2, he1, ht1,
      show w1.ctlOf w.tid = w.ctlOf w.tid by simp only [World.ctlOf, hc1], hrel.2.1]
    rfl

end

end Refine2
end LoomVerif

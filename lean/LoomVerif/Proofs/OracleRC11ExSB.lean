/-
Kernel-evaluated example for the RC11 enumerator: store buffering.  (One consistency check of a
graph of 10 events; the kernel needs about two minutes for it.)
-/
import LoomVerif.Proofs.OracleRC11Ref

namespace LoomVerif.RC11.Example

/-- `cfg x=2 | T0: spawn 1; st 0 1 rlx; ld 1 rlx | T1: st 1 1 rlx; ld 0 rlx` -/
def sb : Prog :=
  { cfg := { nAtomics := 2 },
    threads := [[.spawn 1, .atom 0 (.store 1 .rlx), .atom 1 (.load .rlx)],
                [.atom 1 (.store 1 .rlx), .atom 0 (.load .rlx)]] }

/-- both loads return 0 -/
def sbBothZero : Option (List (Nat × Nat × Ret)) :=
  some [(0, 0, .unit), (0, 1, .unit), (0, 2, .val 0), (1, 0, .unit), (1, 1, .val 0)]

/-- kernel-evaluated: the reference enumerator finishes and finds a consistent graph with that
outcome -/
theorem sb_kernel : (completeNaive sb 10 (pinit sb)).map
    (fun L => refHas (outcomeData sb) sb true L.eraseDups sbBothZero) = some true := by
  decide +kernel

end LoomVerif.RC11.Example

/-
Soundness of the vector clocks of the reference semantics, part 5: THE INVARIANT linking the clocks of a run to the
declarative happens-before relation of its events, and its preservation by every step of the lock fragment
(`Inv.step`), on the view.

`Inv p evs cl v`: `evs` are the events so far, `cl` their clocks, `v` the view of the current state.
* `knowT` / `knowM` (clocks know only what happened before): if the own component of the clock of a ticking event `j`
  is below the clock of thread `u` (mutex `m`), then `j` happens-before-or-equals a step of `u` or the `spawn` of `u`
  (an `unlock m`).
* `mono`, `clkT`, `clkS`, `clkM` (clocks know everything that happened before): clocks grow along every edge, and the
  clock of an event is below the current clock of its thread, of the thread it spawns, of the object it releases into
  (unless nobody will acquire from that object any more: `Dead`).
* `ownT`, `ownM`: nobody knows more of a thread's own component than the thread itself.
* bookkeeping: threads that are not started have no event and clock zero; started threads were spawned by an
  operation their spawner has passed (so, by `Refine.WF`, no body is spawned twice); a `spawn` comes before every step
  of the child; a finished thread has taken a step.
-/
import LoomVerif.Proofs.VCSoundChan

namespace LoomVerif
namespace VCSound
open Race (upd upd_self upd_ne get_zero zero_join join_zero)
open Clocks
open Refine (WF)

structure Inv (p : Prog) (evs : List Event) (cl : List VV) (v : View) : Prop where
  len : cl.length = evs.length
  thr5 : ∀ (j : Nat) (e : Event), evs[j]? = some e → e.thr < 5
  unstarted : ∀ b, v.started b = false →
    v.vc b = VV.zero ∧ ∀ (j : Nat) (e : Event), evs[j]? = some e → e.thr ≠ b ∧ e.op ≠ some (.spawn b)
  spawned : ∀ b, v.started b = true → b = 0 ∨ ∃ a k, opAt p a k = some (.spawn b) ∧ k < v.pc a
  fin : ∀ b, v.finished b = true → ∃ (j : Nat) (e : Event), evs[j]? = some e ∧ e.thr = b
  spawnFirst : ∀ (i f : Nat) (ei ef : Event), evs[i]? = some ei → evs[f]? = some ef → ei.op = some (.spawn ef.thr) → i < f
  ownT : ∀ x u, (v.vc u).get x ≤ (v.vc x).get x
  ownM : ∀ x (o : Obj), (v.orel o).get x ≤ (v.vc x).get x
  pos : ∀ (j : Nat) (e : Event) (c : VV), evs[j]? = some e → cl[j]? = some c → e.ticks = true → 1 ≤ c.get e.thr
  knowT : ∀ (j : Nat) (e : Event) (c : VV), evs[j]? = some e → cl[j]? = some c → e.ticks = true →
    ∀ u, c.get e.thr ≤ (v.vc u).get e.thr → VisA evs j u
  knowM : ∀ (j : Nat) (e : Event) (c : VV), evs[j]? = some e → cl[j]? = some c → e.ticks = true →
    ∀ o, c.get e.thr ≤ (v.orel o).get e.thr →
      ∃ (i : Nat) (ei : Event), evs[i]? = some ei ∧ ei.Rel o ∧ HBAeq evs j i ∧
        ∀ q, o = .chan q → (chanCount q (evs.take i)).dropped = false
  mono : ∀ (j i : Nat) (cj ci : VV), EdgeA evs j i → cl[j]? = some cj → cl[i]? = some ci → cj.le ci
  clkT : ∀ (j : Nat) (e : Event) (c : VV), evs[j]? = some e → cl[j]? = some c → c.le (v.vc e.thr)
  clkS : ∀ (j : Nat) (e : Event) (c : VV) (b : Nat), evs[j]? = some e → cl[j]? = some c → e.op = some (.spawn b) → c.le (v.vc b)
  clkM : ∀ (j : Nat) (e : Event) (c : VV) (o : Obj), evs[j]? = some e → cl[j]? = some c → e.Rel o →
    c.le (v.orel o) ∨ Dead p v o
  /-- channels: the receiver of `q` is dropped iff a `droprx q` has happened; the channel holds the messages sent and
  not yet taken -/
  rxdIff : ∀ q, v.rxd q = (chanCount q evs).dropped
  lenQ : ∀ q, (chanCount q evs).dropped = false →
    (v.chq q).length + (chanCount q evs).takes = (chanCount q evs).sends
  lenQD : ∀ q, (chanCount q evs).dropped = true → v.chq q = []
  ownQ : ∀ (x q k : Nat) (X : VV), (v.chq q)[k]? = some X → X.get x ≤ (v.vc x).get x
  /-- the clock of the message at position `k` of channel `q` (message number `takes + k`) knows only what happened
  before a `send` of a message with a number `≤ takes + k` … -/
  knowQ : ∀ (j : Nat) (e : Event) (c : VV), evs[j]? = some e → cl[j]? = some c → e.ticks = true →
    ∀ (q k : Nat) (X : VV), (v.chq q)[k]? = some X → c.get e.thr ≤ X.get e.thr →
      ∃ (i : Nat) (ei : Event), evs[i]? = some ei ∧ ei.sendOn q ∧ (chanCount q (evs.take i)).dropped = false ∧
        (chanCount q (evs.take i)).sends ≤ (chanCount q evs).takes + k ∧ HBAeq evs j i
  /-- … and knows all of them -/
  clkQ : ∀ (q k : Nat) (X : VV), (v.chq q)[k]? = some X →
    ∀ (i : Nat) (ei : Event) (ci : VV), evs[i]? = some ei → cl[i]? = some ci → ei.sendOn q →
      (chanCount q (evs.take i)).dropped = false →
      (chanCount q (evs.take i)).sends ≤ (chanCount q evs).takes + k → ci.le X

theorem getElem?_snoc {α : Type} {l : List α} {x a : α} {j : Nat} :
    (l ++ [x])[j]? = some a ↔ l[j]? = some a ∨ (j = l.length ∧ a = x) := by
  by_cases h : j < l.length
  · rw [List.getElem?_append_left h]
    constructor
    · exact .inl
    · rintro (h' | ⟨h', _⟩)
      · exact h'
      · omega
  · rw [List.getElem?_append_right (Nat.le_of_not_lt h)]
    have hn : l[j]? = none := List.getElem?_eq_none (Nat.le_of_not_lt h)
    rw [hn]
    by_cases e : j = l.length
    · subst e; simp [eq_comm]
    · have : j - l.length ≠ 0 := by omega
      obtain ⟨k, hk⟩ := Nat.exists_eq_succ_of_ne_zero this
      rw [hk]; simp [e]

/-- the context of one step -/
structure Ctx (p : Prog) (evs : List Event) (cl : List VV) (v : View) (e : Event) (v' : View) (live : Bool) :
    Prop where
  inv : Inv p evs cl v
  sf : SF p v e v' live
  fresh : ∀ b, e.forkOf = some b → v.started b = false

section
variable {p : Prog} {evs : List Event} {cl : List VV} {v v' : View} {e : Event} {live : Bool}

theorem acqM_own (h : Inv p evs cl v) (e : Event) (x : Nat) : (acqM v e).get x ≤ (v.vc x).get x := by
  unfold acqM; split
  · exact h.ownM _ _
  · rw [get_zero]; exact Nat.zero_le _

theorem acqJ_own (h : Inv p evs cl v) (e : Event) (x : Nat) : (acqJ v e).get x ≤ (v.vc x).get x := by
  unfold acqJ; split
  · exact h.ownT _ _
  · rw [get_zero]; exact Nat.zero_le _

theorem acqC_own (h : Inv p evs cl v) (e : Event) (x : Nat) : (acqC v e).get x ≤ (v.vc x).get x := by
  unfold acqC
  split
  · next q _ =>
    cases hq : v.chq q with
    | nil => simp only [List.head?_nil, Option.getD_none, get_zero]; exact Nat.zero_le _
    | cons X rest =>
      simp only [List.head?_cons, Option.getD_some]
      exact h.ownQ x q 0 X (by rw [hq]; rfl)
  · split
    · next q _ =>
      by_cases hx : 1 ≤ ((v.chq q).foldl VV.join VV.zero).get x
      · obtain ⟨X, hX, hXx⟩ := get_foldl_join hx (Nat.le_refl _)
        obtain ⟨k, hk⟩ := List.getElem?_of_mem hX
        exact Nat.le_trans hXx (h.ownQ x q k X hk)
      · omega
    · rw [get_zero]; exact Nat.zero_le _

theorem tk_get_self (v : View) {t : Nat} (h : t < 5) : (v.tk t).get t = (v.vc t).get t + 1 :=
  get_inc_self _ _ h
theorem tk_get_ne (v : View) {t w : Nat} (h : w ≠ t) : (v.tk t).get w = (v.vc t).get w :=
  get_inc_ne _ _ _ h

/-- the thread's clock only grows -/
theorem le_newClock (v : View) (e : Event) : (v.vc e.thr).le (newClock v e) := by
  unfold newClock; split
  · exact le_trans (le_trans (le_trans (le_inc _ _) (le_join_left _ _)) (le_join_left _ _)) (le_join_left _ _)
  · exact le_refl _

theorem acqM_le_newClock (v : View) (e : Event) (h : e.ticks = true) : (acqM v e).le (newClock v e) := by
  unfold newClock; rw [if_pos h]
  exact le_trans (le_trans (le_join_right _ _) (le_join_left _ _)) (le_join_left _ _)

theorem acqJ_le_newClock (v : View) (e : Event) (h : e.ticks = true) : (acqJ v e).le (newClock v e) := by
  unfold newClock; rw [if_pos h]
  exact le_trans (le_join_right _ _) (le_join_left _ _)

theorem acqC_le_newClock (v : View) (e : Event) (h : e.ticks = true) : (acqC v e).le (newClock v e) := by
  unfold newClock; rw [if_pos h]
  exact le_join_right _ _

/-- the own component after the step -/
theorem newClock_self (h : Inv p evs cl v) (e : Event) (h5 : e.thr < 5) :
    (newClock v e).get e.thr = (v.vc e.thr).get e.thr + (if e.ticks then 1 else 0) := by
  unfold newClock
  have h1 := acqM_own h e e.thr
  have h2 := acqJ_own h e e.thr
  have h3 := acqC_own h e e.thr
  split
  · rw [get_join, get_join, get_join, tk_get_self v h5]; omega
  · rfl

/-- the other components after the step: old knowledge of the thread, or acquired -/
theorem newClock_ne (v : View) (e : Event) {w x : Nat} (hw : w ≠ e.thr) (hx : x ≤ (newClock v e).get w) :
    x ≤ (v.vc e.thr).get w ∨
      (e.ticks = true ∧ (x ≤ (acqM v e).get w ∨ x ≤ (acqJ v e).get w ∨ x ≤ (acqC v e).get w)) := by
  unfold newClock at hx
  split at hx
  · next ht =>
    rw [get_join, get_join, get_join, tk_get_ne v hw] at hx
    by_cases h1 : x ≤ (v.vc e.thr).get w
    · exact .inl h1
    · right; refine ⟨ht, ?_⟩; omega
  · exact .inl hx

theorem newClock_le_own (h : Inv p evs cl v) (e : Event) {x : Nat} (hx : x ≠ e.thr) :
    (newClock v e).get x ≤ (v.vc x).get x := by
  rcases newClock_ne v e hx (Nat.le_refl _) with h1 | ⟨_, h1 | h1 | h1⟩
  · exact Nat.le_trans h1 (h.ownT _ _)
  · exact Nat.le_trans h1 (acqM_own h e x)
  · exact Nat.le_trans h1 (acqJ_own h e x)
  · exact Nat.le_trans h1 (acqC_own h e x)

theorem Ctx.fork_ne (c : Ctx p evs cl v e v' live) {b : Nat} (hb : e.forkOf = some b) : b ≠ e.thr := by
  intro h
  have := c.fresh b hb
  rw [h, c.sf.started] at this
  cases this

theorem Ctx.vc_self (c : Ctx p evs cl v e v' live) : v'.vc e.thr = newClock v e := by
  rw [c.sf.vc]; unfold nextVc
  cases hb : e.forkOf with
  | some b => simp only; rw [upd_ne _ _ (c.fork_ne hb).symm, upd_self]
  | none => simp only; rw [upd_self]

theorem Ctx.vc_child (c : Ctx p evs cl v e v' live) {b : Nat} (hb : e.forkOf = some b) :
    v'.vc b = (newClock v e).inc b := by
  rw [c.sf.vc]; unfold nextVc
  rw [hb]
  simp only [upd_self]
  rw [upd_ne _ _ (c.fork_ne hb), (c.inv.unstarted b (c.fresh b hb)).1, zero_join]

theorem Ctx.vc_other (c : Ctx p evs cl v e v' live) {u : Nat} (h1 : u ≠ e.thr) (h2 : e.forkOf ≠ some u) :
    v'.vc u = v.vc u := by
  rw [c.sf.vc]; unfold nextVc
  cases hb : e.forkOf with
  | some b =>
    have : u ≠ b := fun h => h2 (h ▸ hb)
    simp only
    rw [upd_ne _ _ this, upd_ne _ _ h1]
  | none => simp only; rw [upd_ne _ _ h1]

/-- thread clocks only grow -/
theorem Ctx.vc_mono (c : Ctx p evs cl v e v' live) (u : Nat) : (v.vc u).le (v'.vc u) := by
  by_cases h1 : u = e.thr
  · subst h1; rw [c.vc_self]; exact le_newClock v e
  · by_cases h2 : e.forkOf = some u
    · rw [(c.inv.unstarted u (c.fresh u h2)).1]; exact zero_le _
    · rw [c.vc_other h1 h2]; exact le_refl _

theorem Ctx.orel_mono (c : Ctx p evs cl v e v' live) (o : Obj) : (v.orel o).le (v'.orel o) := by
  rw [c.sf.orel]; split
  · exact le_join_left _ _
  · exact le_refl _

/-- the own component of every thread after the step -/
theorem Ctx.own_mono (c : Ctx p evs cl v e v' live) (x : Nat) : (v.vc x).get x ≤ (v'.vc x).get x :=
  get_mono (c.vc_mono x) x

/-- nobody knows more about `x` than `x` itself, for the new clock -/
theorem Ctx.newClock_le_own' (c : Ctx p evs cl v e v' live) (x : Nat) : (newClock v e).get x ≤ (v'.vc x).get x := by
  by_cases hx : x = e.thr
  · subst hx; rw [c.vc_self]; exact Nat.le_refl _
  · exact Nat.le_trans (newClock_le_own c.inv e hx) (c.own_mono x)

/-- an edge from an old event into the new one -/
theorem edge_new {j : Nat} {a : Event} (hj : evs[j]? = some a) (hs : Sync a e) :
    EdgeA (evs ++ [e]) j evs.length := by
  have hlt : j < evs.length := (List.getElem?_eq_some_iff.1 hj).1
  refine ⟨hlt, .inl ⟨a, e, ?_, ?_, hs⟩⟩
  · rw [List.getElem?_append_left hlt]; exact hj
  · rw [List.getElem?_append_right (Nat.le_refl _)]; simp

/-- a message edge from an old `send` into the new event -/
theorem edge_new_chan {j q : Nat} {a : Event} (hj : evs[j]? = some a) (hs : a.sendOn q)
    (hd : (chanCount q (evs.take j)).dropped = false)
    (h : (e.takeOn q ∧ (chanCount q (evs.take j)).sends ≤ (chanCount q evs).takes) ∨
         (e.dropOn q ∧ (chanCount q evs).dropped = false ∧ (chanCount q evs).takes < (chanCount q evs).sends)) :
    EdgeA (evs ++ [e]) j evs.length := by
  have hlt : j < evs.length := (List.getElem?_eq_some_iff.1 hj).1
  refine ⟨hlt, .inr ⟨q, a, e, ?_, ?_, hs, ?_, ?_⟩⟩
  · rw [List.getElem?_append_left hlt]; exact hj
  · rw [List.getElem?_append_right (Nat.le_refl _)]; simp
  · rw [List.take_append_of_le_length (Nat.le_of_lt hlt)]; exact hd
  · rw [List.take_append_of_le_length (Nat.le_of_lt hlt), take_length_snoc]
    simpa using h

theorem edge_new_iff {j i : Nat} (h : EdgeA (evs ++ [e]) j i) :
    EdgeA evs j i ∨ (i = evs.length ∧ ((∃ a, evs[j]? = some a ∧ Sync a e) ∨
      ∃ q a, evs[j]? = some a ∧ a.sendOn q ∧ (chanCount q (evs.take j)).dropped = false ∧
        ((e.takeOn q ∧ (chanCount q (evs.take j)).sends ≤ (chanCount q evs).takes) ∨
         (e.dropOn q ∧ (chanCount q evs).dropped = false ∧ (chanCount q evs).takes < (chanCount q evs).sends)))) := by
  by_cases hi : i < evs.length
  · exact .inl ((edgeA_append hi).1 h)
  · right
    have hlt := h.1
    have hil := h.lt_length
    have hie : i = evs.length := by simp at hil; omega
    subst hie
    refine ⟨rfl, ?_⟩
    have hjl : j < evs.length := hlt
    rcases h.2 with ⟨a, b, ha, hb, hs⟩ | ⟨q, a, b, ha, hb, hs, hd, hh⟩
    · rw [List.getElem?_append_left hjl] at ha
      rw [List.getElem?_append_right (Nat.le_refl _)] at hb
      simp only [Nat.sub_self, List.getElem?_cons_zero, Option.some.injEq] at hb
      subst hb
      exact .inl ⟨a, ha, hs⟩
    · rw [List.getElem?_append_left hjl] at ha
      rw [List.getElem?_append_right (Nat.le_refl _)] at hb
      simp only [Nat.sub_self, List.getElem?_cons_zero, Option.some.injEq] at hb
      subst hb
      rw [List.take_append_of_le_length (Nat.le_of_lt hjl)] at hd hh
      rw [take_length_snoc] at hh
      exact .inr ⟨q, a, ha, hs, hd, by simpa using hh⟩

/-- **whatever the new clock knows happened before the new event** -/
theorem Ctx.know_new (c : Ctx p evs cl v e v' live) {j : Nat} {a : Event} {c0 : VV} (hj : evs[j]? = some a)
    (hc : cl[j]? = some c0) (hta : a.ticks = true) (hx : c0.get a.thr ≤ (newClock v e).get a.thr) :
    HBA (evs ++ [e]) j evs.length := by
  have hpos := c.inv.pos j a c0 hj hc hta
  by_cases hw : a.thr = e.thr
  · exact .single (edge_new hj (.inl hw))
  · rcases newClock_ne v e hw hx with h1 | ⟨_, h1 | h1 | h1⟩
    · obtain ⟨i, ei, hi, hor, hbeq⟩ := c.inv.knowT j a c0 hj hc hta e.thr h1
      refine (hbeq.append [e]).trans_edge (edge_new hi ?_)
      rcases hor with h | h
      · exact .inl h
      · exact .inr (.inl h)
    · unfold acqM at h1
      cases hacq : e.acqOf with
      | none => rw [hacq] at h1; simp only [get_zero] at h1; omega
      | some o =>
        rw [hacq] at h1
        obtain ⟨i, ei, hi, hop, hbeq, _⟩ := c.inv.knowM j a c0 hj hc hta o h1
        exact (hbeq.append [e]).trans_edge (edge_new hi (.inr (.inr (.inr ⟨o, hop, Event.acqOf_iff.1 hacq⟩))))
    · unfold acqJ at h1
      cases hjn : e.joinOf with
      | none => rw [hjn] at h1; simp only [get_zero] at h1; omega
      | some b =>
        rw [hjn] at h1
        have hjop := Event.joinOf_iff.1 hjn
        obtain ⟨i, ei, hi, hor, hbeq⟩ := c.inv.knowT j a c0 hj hc hta b h1
        rcases hor with h | h
        · exact (hbeq.append [e]).trans_edge (edge_new hi (.inr (.inr (.inl (by rw [hjop, h])))))
        · obtain ⟨f, ef, hf, hfb⟩ := c.inv.fin b (c.sf.joinFin b hjn)
          have hif : i < f := c.inv.spawnFirst i f ei ef hi hf (by rw [hfb]; exact h)
          have e1 : EdgeA evs i f := ⟨hif, .inl ⟨ei, ef, hi, hf, .inr (.inl (by rw [hfb]; exact h))⟩⟩
          have e2 : EdgeA (evs ++ [e]) f evs.length := edge_new hf (.inr (.inr (.inl (by rw [hjop, hfb]))))
          exact .tail ((hbeq.append [e]).trans_edge (e1.append [e])) e2
    · unfold acqC at h1
      cases htk : e.takeChan with
      | some q =>
        rw [htk] at h1
        simp only at h1
        cases hq : v.chq q with
        | nil => rw [hq] at h1; simp only [List.head?_nil, Option.getD_none, get_zero] at h1; omega
        | cons X rest =>
          rw [hq] at h1
          simp only [List.head?_cons, Option.getD_some] at h1
          obtain ⟨i, ei, hi, hs, hd, hle, hbeq⟩ := c.inv.knowQ j a c0 hj hc hta q 0 X (by rw [hq]; rfl) h1
          exact (hbeq.append [e]).trans_edge
            (edge_new_chan hi hs hd (.inl ⟨Event.takeChan_iff.1 htk, by simpa using hle⟩))
      | none =>
        rw [htk] at h1
        cases hdc : e.dropChan with
        | none => rw [hdc] at h1; simp only [get_zero] at h1; omega
        | some q =>
          rw [hdc] at h1
          simp only at h1
          obtain ⟨X, hX, hXx⟩ := get_foldl_join hpos h1
          obtain ⟨k, hk⟩ := List.getElem?_of_mem hX
          obtain ⟨i, ei, hi, hs, hd, hle, hbeq⟩ := c.inv.knowQ j a c0 hj hc hta q k X hk hXx
          have hnd : (chanCount q evs).dropped = false := by
            cases hdd : (chanCount q evs).dropped with
            | false => rfl
            | true =>
              have := c.inv.lenQD q hdd
              rw [this] at hk; simp at hk
          have hlen := c.inv.lenQ q hnd
          have hkl : k < (v.chq q).length := (List.getElem?_eq_some_iff.1 hk).1
          exact (hbeq.append [e]).trans_edge
            (edge_new_chan hi hs hd (.inr ⟨Event.dropChan_iff.1 hdc, hnd, by omega⟩))

end

end VCSound
end LoomVerif
